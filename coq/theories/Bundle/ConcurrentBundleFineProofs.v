(* Bundle/ConcurrentBundleFineProofs.v — proofs about Bundle/ConcurrentBundleFine.v (property C15, "lock granularity").

   Part 1  mutual exclusion (`FMutex`, an invariant of every fine schedule): the mutex is held exactly by the thread
           that is between Lock and Unlock of a memoizer access; there is at most one such thread.
   Part 2  reduction: `fb_abs` (finish the critical section in flight) is left unchanged by the micro-steps inside a
           critical section and by Unlock; a successful Lock is one ATOMIC memoizer step of ConcurrentBundle.sched_step
           (`memo_step`); a thread-local step is the same step there.  Hence every fine schedule is, observably, the
           schedule `commit_order` of ConcurrentBundle.v (`fb_reduction_abs`, `fb_reduction`).
   Part 3  no deadlock: the holder is never blocked and is out after at most 6 of its own steps; if the mutex is free
           every unfinished thread can step; every enabled step lowers `fb_weight`; so every fine schedule can be
           completed.  One access run alone is 2..7 micro-steps and equals memo_step; every atomic schedule is realised.
   Part 4  the theorems of ConcurrentBundleProofs.v under every fine schedule (schedule independence, equality with
           the single-threaded bundle, cold cache, program order).                                                   *)
From FluentV Require Import Base.Bytes Base.BytesFacts Base.Outcome Syntax.Ast Bundle.Args Bundle.ArgsProofs
  Bundle.Number Bundle.NumberProofs Bundle.ResolverAst Bundle.ResolverModel Bundle.ResolverEqns
  Bundle.ResolverSim Bundle.ResolverPure Bundle.ResolverTotal Bundle.ConcurrentBundle Bundle.ConcurrentBundleProofs
  Bundle.ConcurrentBundleFine Gen.Extracted.
From FluentV Require Memo.Memoizer Memo.Concurrent Memo.MemoProofs Memo.FineGrained Memo.FineGrainedProofs.
From Coq Require Import Lia Arith PeanoNat List.
Import ListNotations.

(* ------------------------------------------------------------------ generic list facts *)
Lemma set_nth_comm {X} i j (x y : X) l :
  i <> j -> Memoizer.set_nth i x (Memoizer.set_nth j y l) = Memoizer.set_nth j y (Memoizer.set_nth i x l).
Proof.
  revert i j. induction l as [|z l IH]; intros [|i] [|j] N; cbn [Memoizer.set_nth]; try reflexivity.
  - exfalso. apply N. reflexivity.
  - f_equal. apply IH. intros Q. apply N. rewrite Q. reflexivity.
Qed.

Lemma nth_error_eq_ext {X} (l l' : list X) : (forall i, nth_error l i = nth_error l' i) -> l = l'.
Proof.
  revert l'. induction l as [|x l IH]; intros [|y l'] H.
  - reflexivity.
  - specialize (H 0). discriminate H.
  - specialize (H 0). discriminate H.
  - pose proof (H 0) as H0. cbn [nth_error] in H0. injection H0 as <-. f_equal. apply IH. intros i. exact (H (S i)).
Qed.

Section FineConc.
Variable overflow_checks : bool.
Variable call_function : bytes -> list fvalue -> fargs -> fvalue.
Variable transform : option (bytes -> bytes).
Variable formatter : option (fvalue -> option bytes).
Variable as_string : bytes -> bytes.
Variable as_string_threadsafe : bytes -> bytes.
Variable unescape_write : bytes -> bytes.
Variable unescape_to_string : bytes -> bytes.
Variable f64_from_str : bytes -> option fval.
Variable cerr : Type.
Variable plural_construct : Memoizer.lang -> ntype -> Memoizer.result rules_fn cerr.
Variable b : bundle.
Variable lang : Memoizer.lang.

Notation memo_step := (memo_step cerr plural_construct).
Notation request_proc := (request_proc overflow_checks call_function transform formatter as_string as_string_threadsafe
                            unescape_write unescape_to_string f64_from_str b).
Notation sched_step := (sched_step overflow_checks call_function transform formatter as_string as_string_threadsafe
                          unescape_write unescape_to_string f64_from_str cerr plural_construct b).
Notation run_schedule := (run_schedule overflow_checks call_function transform formatter as_string as_string_threadsafe
                            unescape_write unescape_to_string f64_from_str cerr plural_construct b lang).
Notation local_step := (local_step overflow_checks call_function transform formatter as_string as_string_threadsafe
                          unescape_write unescape_to_string f64_from_str b).
Notation fb_step := (fb_step overflow_checks call_function transform formatter as_string as_string_threadsafe
                       unescape_write unescape_to_string f64_from_str cerr plural_construct b).
Notation fb_run_from := (fb_run_from overflow_checks call_function transform formatter as_string as_string_threadsafe
                           unescape_write unescape_to_string f64_from_str cerr plural_construct b).
Notation fb_run := (fb_run overflow_checks call_function transform formatter as_string as_string_threadsafe
                      unescape_write unescape_to_string f64_from_str cerr plural_construct b lang).
Notation fb_enabled := (fb_enabled overflow_checks call_function transform formatter as_string as_string_threadsafe
                          unescape_write unescape_to_string f64_from_str cerr b).
Notation fb_commits := (fb_commits overflow_checks call_function transform formatter as_string as_string_threadsafe
                          unescape_write unescape_to_string f64_from_str cerr b).
Notation commit_order := (commit_order overflow_checks call_function transform formatter as_string as_string_threadsafe
                            unescape_write unescape_to_string f64_from_str cerr plural_construct b).
Notation fb_init := (fb_init cerr lang).
Notation fb_abs := (fb_abs cerr plural_construct).
Notation fb_proj := (fb_proj cerr).
Notation fb_finished := (fb_finished cerr).
Notation fb_results := (fb_results cerr).
Notation fbstate := (fbstate cerr).
Notation cthread := (cthread cerr).
Notation mpc := (mpc cerr).
Notation FB := (FB cerr).
Notation CT := (CT cerr).
Notation fb_memo := (fb_memo cerr).
Notation fb_holder := (fb_holder cerr).
Notation fb_threads := (fb_threads cerr).
Notation ct_th := (ct_th cerr).
Notation ct_pc := (ct_pc cerr).
Notation lock_pc := (lock_pc cerr).
Notation unwrap_answer := (unwrap_answer cerr).
Notation poison_after := (poison_after cerr).
Notation commit_memo := (commit_memo cerr).
Notation memo_inner := (memo_inner cerr plural_construct).
Notation in_cs := (FineGrained.in_cs rules_fn cerr (outcome bool)).
Notation steps_left := (FineGrainedProofs.steps_left rules_fn cerr (outcome bool)).
Notation inner_step := (FineGrained.inner_step rules_fn cerr (outcome bool) (pr_construct cerr plural_construct)).
Notation pending := (FineGrained.pending rules_fn cerr (outcome bool) (pr_construct cerr plural_construct)).
Notation pend_tr := (FineGrainedProofs.pend_tr rules_fn cerr (outcome bool) (pr_construct cerr plural_construct)).
Notation with_try_get := (Memoizer.with_try_get rules_fn cerr (outcome bool) (pr_construct cerr plural_construct)).
Notation set_nth := Memoizer.set_nth.
Notation PIdle := (@FineGrained.PIdle rules_fn cerr (outcome bool)).
Notation PLocked := (@FineGrained.PLocked rules_fn cerr (outcome bool)).
Notation MRet := (@FineGrained.PRet rules_fn cerr (outcome bool)).
Notation nth_error_set_nth_eq := MemoProofs.nth_error_set_nth_eq.
Notation nth_error_set_nth_neq := MemoProofs.nth_error_set_nth_neq.
Notation nth_error_lt := MemoProofs.nth_error_lt.
Notation map_set_nth := FineGrainedProofs.map_set_nth.
Notation set_nth_set_nth := FineGrainedProofs.set_nth_set_nth.

(* the callback of the access (ty, num, cat), as FineGrained.v wants it (the cb_id is not used) *)
Definition cb_of (num : fnumber) (cat : pcat) : Memoizer.cb_id -> rules_fn -> outcome bool :=
  fun _ => select_callback num cat.

(* ------------------------------------------------------------------ the atomic model, step by step *)

(* a thread at a memoizer access has no thread-local step, and conversely *)
Lemma local_step_ask th rq ty num cat k : t_cur th = Some (rq, PAsk ty num cat k) -> local_step th = None.
Proof. intros C. unfold ConcurrentBundleFine.local_step. rewrite C. reflexivity. Qed.

(* a thread-local step is the same step of ConcurrentBundle.sched_step, whatever the memoizer and the other threads are *)
Lemma sched_step_local (c : cstate) tid th th' :
  nth_error (s_threads c) tid = Some th -> local_step th = Some th' ->
  sched_step c tid = CState (s_memo c) (set_nth tid th' (s_threads c)).
Proof.
  intros N L. unfold ConcurrentBundle.sched_step. rewrite N. unfold ConcurrentBundleFine.local_step in L.
  destruct (t_cur th) as [[rq [r|ty num cat k]]|].
  - injection L as <-. reflexivity.
  - discriminate L.
  - destruct (t_todo th) as [|rq rest]; [discriminate L|]. injection L as <-. reflexivity.
Qed.

(* the atomic memoizer step of ConcurrentBundle.sched_step *)
Lemma sched_step_ask (c : cstate) tid th rq ty num cat k :
  nth_error (s_threads c) tid = Some th -> t_cur th = Some (rq, PAsk ty num cat k) ->
  sched_step c tid =
  let '(m', ans) := memo_step (s_memo c) ty num cat in
  CState m' (set_nth tid (Thread (Some (rq, resume k ans)) (t_todo th) (t_done th)) (s_threads c)).
Proof. intros N C. unfold ConcurrentBundle.sched_step. rewrite N, C. reflexivity. Qed.

(* memo_step is: Lock, then the whole of with_try_get pending (on a poisoned mutex: only the drop of the guard), then Unlock *)
Lemma memo_step_commit (m : bmemo) ty num cat :
  memo_step m ty num cat =
  commit_memo m (pending (cb_of num cat) (lock_pc (m_poisoned m)) (m_lm m) (m_counter m) PLURAL_RULES (args_of ty) 0).
Proof.
  unfold ConcurrentBundle.memo_step, ConcurrentBundleFine.commit_memo, ConcurrentBundleFine.lock_pc, cb_of.
  destruct (m_poisoned m) eqn:Hp; cbn [FineGrained.pending].
  - destruct m as [lm n tr p]. cbn [m_poisoned m_lm m_counter m_trace] in *. subst p. reflexivity.
  - destruct (with_try_get (fun _ => select_callback num cat) (m_lm m) (m_counter m) PLURAL_RULES (args_of ty) 0)
      as [[[lm' n'] r] evs].
    destruct r as [[r'|t|]|er]; cbn [ConcurrentBundleFine.poison_after ConcurrentBundleFine.unwrap_answer];
      rewrite ?Hp; reflexivity.
Qed.

(* ------------------------------------------------------------------ Part 1: mutual exclusion *)

(* the mutex is held exactly by the thread that is between Lock and Unlock; there is at most one such thread; it is at a
   memoizer access of its current call *)
Record FMutex (s : fbstate) : Prop := {
  fmx_holder : forall tid, fb_holder s = Some tid ->
      exists ct, nth_error (fb_threads s) tid = Some ct /\ in_cs (ct_pc ct) = true;
  fmx_inside : forall tid ct, nth_error (fb_threads s) tid = Some ct -> in_cs (ct_pc ct) = true ->
      fb_holder s = Some tid /\ exists rq ty num cat k, t_cur (ct_th ct) = Some (rq, PAsk ty num cat k)
}.

Lemma fmutex_init programs : FMutex (fb_init programs).
Proof.
  constructor; cbn [ConcurrentBundleFine.fb_init ConcurrentBundleFine.fb_holder ConcurrentBundleFine.fb_threads].
  - intros tid H. discriminate H.
  - intros tid ct Hn C. exfalso. apply nth_error_In in Hn. apply in_map_iff in Hn.
    destruct Hn as [p [Hp _]]. subst ct. cbn in C. discriminate C.
Qed.

(* two threads inside at once: impossible *)
Lemma fmutex_exclusive (s : fbstate) t1 t2 c1 c2 : FMutex s ->
  nth_error (fb_threads s) t1 = Some c1 -> in_cs (ct_pc c1) = true ->
  nth_error (fb_threads s) t2 = Some c2 -> in_cs (ct_pc c2) = true -> t1 = t2.
Proof.
  intros HM H1 C1 H2 C2.
  destruct (fmx_inside _ HM _ _ H1 C1) as [A _]. destruct (fmx_inside _ HM _ _ H2 C2) as [B _]. congruence.
Qed.

Lemma fmutex_update (s : fbstate) tid ct ct' h' m' :
  FMutex s -> nth_error (fb_threads s) tid = Some ct ->
  (in_cs (ct_pc ct') = true ->
     h' = Some tid /\ (fb_holder s = None \/ fb_holder s = Some tid) /\
     exists rq ty num cat k, t_cur (ct_th ct') = Some (rq, PAsk ty num cat k)) ->
  (in_cs (ct_pc ct') = false ->
     (h' = None /\ (fb_holder s = None \/ fb_holder s = Some tid)) \/ (h' = fb_holder s /\ fb_holder s <> Some tid)) ->
  FMutex (FB m' h' (set_nth tid ct' (fb_threads s))).
Proof.
  intros HM Hct Hin Hout. pose proof (nth_error_lt _ _ _ Hct) as Lt.
  constructor; cbn [ConcurrentBundleFine.fb_holder ConcurrentBundleFine.fb_threads].
  - intros t2 Ht2. destruct (in_cs (ct_pc ct')) eqn:C.
    + destruct (Hin eq_refl) as [Hh' _]. rewrite Hh' in Ht2. injection Ht2 as <-.
      exists ct'. split; [apply nth_error_set_nth_eq; exact Lt | exact C].
    + destruct (Hout eq_refl) as [[Hh' _]|[Hh' Hne]]; [rewrite Hh' in Ht2; discriminate Ht2|].
      rewrite Hh' in Ht2. destruct (fmx_holder _ HM _ Ht2) as [c2 [N2 C2]].
      exists c2. split; [|exact C2]. rewrite nth_error_set_nth_neq; [exact N2|].
      intros Q. apply Hne. rewrite Ht2, Q. reflexivity.
  - intros t2 c2 Hn C. destruct (Nat.eq_dec tid t2) as [Q|N].
    + subst t2. rewrite nth_error_set_nth_eq in Hn by exact Lt. injection Hn as <-.
      destruct (Hin C) as [Hh' [_ Hask]]. split; [exact Hh'|exact Hask].
    + rewrite nth_error_set_nth_neq in Hn by exact N.
      destruct (fmx_inside _ HM _ _ Hn C) as [Hh2 Hask]. split; [|exact Hask].
      destruct (in_cs (ct_pc ct')) eqn:C'.
      * exfalso. destruct (Hin eq_refl) as [_ [[Hh|Hh] _]]; rewrite Hh in Hh2; [discriminate Hh2|].
        injection Hh2 as Q. apply N. exact Q.
      * destruct (Hout eq_refl) as [[_ [Hh|Hh]]|[Hh' _]].
        -- rewrite Hh in Hh2. discriminate Hh2.
        -- rewrite Hh in Hh2. injection Hh2 as Q. exfalso. apply N. exact Q.
        -- rewrite Hh'. exact Hh2.
Qed.

(* ---- the six things a scheduling can be: no-op, thread-local step, Lock, a micro-step inside, Unlock *)
Lemma fb_step_cases (s : fbstate) tid :
  (fb_step s tid = s /\ fb_commits s tid = false /\ fb_enabled s tid = false /\
   forall ct, nth_error (fb_threads s) tid = Some ct ->
     thread_finished (ct_th ct) = true \/
     (ct_pc ct = PIdle /\ fb_holder s <> None /\
      exists rq ty num cat k, t_cur (ct_th ct) = Some (rq, PAsk ty num cat k)))
  \/ (exists ct th',
        nth_error (fb_threads s) tid = Some ct /\ local_step (ct_th ct) = Some th' /\
        fb_commits s tid = true /\ fb_enabled s tid = true /\
        fb_step s tid = FB (fb_memo s) (fb_holder s) (set_nth tid (CT th' PIdle) (fb_threads s)))
  \/ (exists ct rq ty num cat k,
        nth_error (fb_threads s) tid = Some ct /\ t_cur (ct_th ct) = Some (rq, PAsk ty num cat k) /\
        ct_pc ct = PIdle /\ fb_holder s = None /\ fb_commits s tid = true /\ fb_enabled s tid = true /\
        fb_step s tid = FB (fb_memo s) (Some tid)
                           (set_nth tid (CT (ct_th ct) (lock_pc (m_poisoned (fb_memo s)))) (fb_threads s)))
  \/ (exists ct rq ty num cat k lm' n' tr' p',
        nth_error (fb_threads s) tid = Some ct /\ t_cur (ct_th ct) = Some (rq, PAsk ty num cat k) /\
        in_cs (ct_pc ct) = true /\ fb_commits s tid = false /\ fb_enabled s tid = true /\
        in_cs p' = true /\ steps_left p' < steps_left (ct_pc ct) /\
        pend_tr (cb_of num cat) p' lm' n' tr' PLURAL_RULES (args_of ty) 0 =
        pend_tr (cb_of num cat) (ct_pc ct) (m_lm (fb_memo s)) (m_counter (fb_memo s)) (m_trace (fb_memo s))
                PLURAL_RULES (args_of ty) 0 /\
        fb_step s tid = FB (BMemo lm' n' tr' (m_poisoned (fb_memo s))) (fb_holder s)
                           (set_nth tid (CT (ct_th ct) p') (fb_threads s)))
  \/ (exists ct rq ty num cat k r,
        nth_error (fb_threads s) tid = Some ct /\ t_cur (ct_th ct) = Some (rq, PAsk ty num cat k) /\
        ct_pc ct = MRet r /\ fb_commits s tid = false /\ fb_enabled s tid = true /\
        fb_step s tid =
        FB (BMemo (m_lm (fb_memo s)) (m_counter (fb_memo s)) (m_trace (fb_memo s))
                  (poison_after r (m_poisoned (fb_memo s)))) None
           (set_nth tid (CT (Thread (Some (rq, resume k (unwrap_answer r))) (t_todo (ct_th ct)) (t_done (ct_th ct))) PIdle)
                    (fb_threads s))).
Proof.
  unfold ConcurrentBundleFine.fb_step, ConcurrentBundleFine.fb_commits, ConcurrentBundleFine.fb_enabled.
  destruct (nth_error (fb_threads s) tid) as [ct|] eqn:Hct.
  2:{ left. split; [reflexivity|]. split; [reflexivity|]. split; [reflexivity|]. intros ct0 H0. discriminate H0. }
  destruct (local_step (ct_th ct)) as [th'|] eqn:L.
  { right; left. exists ct, th'. repeat split; try reflexivity; exact L. }
  destruct (t_cur (ct_th ct)) as [[rq [r|ty num cat k]]|] eqn:C.
  - exfalso. unfold ConcurrentBundleFine.local_step in L. rewrite C in L. discriminate L.
  - assert (forall (p : mpc), in_cs p = true -> (forall r, p <> MRet r) ->
              exists lm' n' tr' p',
                inner_step (cb_of num cat) p (m_lm (fb_memo s)) (m_counter (fb_memo s)) (m_trace (fb_memo s))
                           PLURAL_RULES (args_of ty) 0 = (lm', n', tr', p') /\
                in_cs p' = true /\ steps_left p' < steps_left p /\
                pend_tr (cb_of num cat) p' lm' n' tr' PLURAL_RULES (args_of ty) 0 =
                pend_tr (cb_of num cat) p (m_lm (fb_memo s)) (m_counter (fb_memo s)) (m_trace (fb_memo s))
                        PLURAL_RULES (args_of ty) 0) as Hin.
    { intros p Hc Hr.
      destruct (inner_step (cb_of num cat) p (m_lm (fb_memo s)) (m_counter (fb_memo s)) (m_trace (fb_memo s))
                           PLURAL_RULES (args_of ty) 0) as [[[lm' n'] tr'] p'] eqn:EI.
      exists lm', n', tr', p'. split; [reflexivity|].
      eapply FineGrainedProofs.inner_step_pending; eauto. }
    unfold ConcurrentBundleFine.memo_inner. fold (cb_of num cat).
    destruct (ct_pc ct) as [| | | |val|e|r] eqn:EPC.
    + destruct (fb_holder s) as [h|] eqn:EH.
      * left. split; [reflexivity|]. split; [reflexivity|]. split; [reflexivity|].
        intros ct0 H0. injection H0 as <-. right. split; [exact EPC|]. split; [discriminate|].
        exists rq, ty, num, cat, k. exact C.
      * right; right; left. exists ct, rq, ty, num, cat, k. repeat split; auto.
    + destruct (Hin PLocked eq_refl ltac:(intros; discriminate)) as [lm' [n' [tr' [p' [EI [Hc [Hlt HP]]]]]]].
      right; right; right; left. exists ct, rq, ty, num, cat, k, lm', n', tr', p'. rewrite EPC, EI. repeat split; auto.
    + destruct (Hin FineGrained.PCache eq_refl ltac:(intros; discriminate)) as [lm' [n' [tr' [p' [EI [Hc [Hlt HP]]]]]]].
      right; right; right; left. exists ct, rq, ty, num, cat, k, lm', n', tr', p'. rewrite EPC, EI. repeat split; auto.
    + destruct (Hin FineGrained.PMiss eq_refl ltac:(intros; discriminate)) as [lm' [n' [tr' [p' [EI [Hc [Hlt HP]]]]]]].
      right; right; right; left. exists ct, rq, ty, num, cat, k, lm', n', tr', p'. rewrite EPC, EI. repeat split; auto.
    + destruct (Hin (FineGrained.PBuilt val) eq_refl ltac:(intros; discriminate)) as [lm' [n' [tr' [p' [EI [Hc [Hlt HP]]]]]]].
      right; right; right; left. exists ct, rq, ty, num, cat, k, lm', n', tr', p'. rewrite EPC, EI. repeat split; auto.
    + destruct (Hin (FineGrained.PEntry e) eq_refl ltac:(intros; discriminate)) as [lm' [n' [tr' [p' [EI [Hc [Hlt HP]]]]]]].
      right; right; right; left. exists ct, rq, ty, num, cat, k, lm', n', tr', p'. rewrite EPC, EI. repeat split; auto.
    + right; right; right; right. exists ct, rq, ty, num, cat, k, r. rewrite EPC. repeat split; auto.
  - left. split; [reflexivity|]. split; [reflexivity|]. split; [reflexivity|].
    intros ct0 H0. injection H0 as <-. left.
    unfold ConcurrentBundleFine.local_step in L. rewrite C in L. unfold thread_finished. rewrite C.
    destruct (t_todo (ct_th ct)); [reflexivity|discriminate L].
Qed.

(* ---- mutual exclusion is preserved by every scheduling *)
Lemma fb_step_mutex (s : fbstate) tid : FMutex s -> FMutex (fb_step s tid).
Proof.
  intros HM.
  destruct (fb_step_cases s tid) as
    [[Es _]
    | [[ct [th' [Hct [L [_ [_ Es]]]]]]
    | [[ct [rq [ty [num [cat [k [Hct [C [EPC [EH [_ [_ Es]]]]]]]]]]]]
    | [[ct [rq [ty [num [cat [k [lm' [n' [tr' [p' [Hct [C [Hc [_ [_ [Hc' [_ [_ Es]]]]]]]]]]]]]]]]]]
    | [ct [rq [ty [num [cat [k [r [Hct [C [EPC [_ [_ Es]]]]]]]]]]]]]]]]; rewrite Es.
  - exact HM.
  - (* thread-local: the thread is not inside (it is not at a memoizer access), the mutex is not touched *)
    assert (in_cs (ct_pc ct) = false) as Hout.
    { destruct (in_cs (ct_pc ct)) eqn:Hc; [|reflexivity]. exfalso.
      destruct (fmx_inside _ HM _ _ Hct Hc) as [_ [rq [ty [num [cat [k C]]]]]].
      rewrite (local_step_ask _ _ _ _ _ _ C) in L. discriminate L. }
    apply (fmutex_update s tid ct _ _ _ HM Hct); cbn [ConcurrentBundleFine.ct_pc ConcurrentBundleFine.ct_th FineGrained.in_cs].
    + discriminate.
    + intros _. right. split; [reflexivity|]. intros Hh.
      destruct (fmx_holder _ HM _ Hh) as [c2 [N2 C2]]. rewrite Hct in N2. injection N2 as <-. congruence.
  - apply (fmutex_update s tid ct _ _ _ HM Hct); cbn [ConcurrentBundleFine.ct_pc ConcurrentBundleFine.ct_th].
    + intros _. split; [reflexivity|]. split; [left; exact EH|]. exists rq, ty, num, cat, k. exact C.
    + intros Hf. exfalso. unfold ConcurrentBundleFine.lock_pc in Hf. destruct (m_poisoned (fb_memo s)); discriminate Hf.
  - destruct (fmx_inside _ HM _ _ Hct Hc) as [Hh _].
    apply (fmutex_update s tid ct _ _ _ HM Hct); cbn [ConcurrentBundleFine.ct_pc ConcurrentBundleFine.ct_th].
    + intros _. split; [exact Hh|]. split; [right; exact Hh|]. exists rq, ty, num, cat, k. exact C.
    + intros Hf. rewrite Hc' in Hf. discriminate Hf.
  - assert (in_cs (ct_pc ct) = true) as Hc by (rewrite EPC; reflexivity).
    destruct (fmx_inside _ HM _ _ Hct Hc) as [Hh _].
    apply (fmutex_update s tid ct _ _ _ HM Hct); cbn [ConcurrentBundleFine.ct_pc ConcurrentBundleFine.ct_th FineGrained.in_cs].
    + discriminate.
    + intros _. left. split; [reflexivity|]. right. exact Hh.
Qed.

(* ------------------------------------------------------------------ Part 2: reduction *)

(* Unlock applied to pending-with-log *)
Definition commit_tr (was : bool)
  (x : Memoizer.lmemo rules_fn * nat * Memoizer.result (outcome bool) cerr * list Memoizer.cevent) : bmemo * outcome bool :=
  let '(lm2, n2, r, tr2) := x in (BMemo lm2 n2 tr2 (poison_after r was), unwrap_answer r).

Lemma commit_memo_pend_tr (m : bmemo) cb p t a c :
  commit_memo m (pending cb p (m_lm m) (m_counter m) t a c) =
  commit_tr (m_poisoned m) (pend_tr cb p (m_lm m) (m_counter m) (m_trace m) t a c).
Proof.
  unfold ConcurrentBundleFine.commit_memo, commit_tr, FineGrainedProofs.pend_tr.
  destruct (pending cb p (m_lm m) (m_counter m) t a c) as [[[lm2 n2] r] evs]. reflexivity.
Qed.

Lemma fb_abs_free (s : fbstate) : fb_holder s = None -> fb_abs s = fb_proj s.
Proof. intros H. unfold ConcurrentBundleFine.fb_abs. rewrite H. reflexivity. Qed.

Lemma fb_abs_held (s : fbstate) tid ct rq ty num cat k :
  fb_holder s = Some tid -> nth_error (fb_threads s) tid = Some ct -> t_cur (ct_th ct) = Some (rq, PAsk ty num cat k) ->
  fb_abs s =
  let '(m', ans) := commit_tr (m_poisoned (fb_memo s))
                      (pend_tr (cb_of num cat) (ct_pc ct) (m_lm (fb_memo s)) (m_counter (fb_memo s)) (m_trace (fb_memo s))
                               PLURAL_RULES (args_of ty) 0) in
  CState m' (set_nth tid (Thread (Some (rq, resume k ans)) (t_todo (ct_th ct)) (t_done (ct_th ct)))
                     (map ct_th (fb_threads s))).
Proof.
  intros H N C. unfold ConcurrentBundleFine.fb_abs. rewrite H, N, C. cbv zeta.
  fold (cb_of num cat). rewrite commit_memo_pend_tr. reflexivity.
Qed.

(* THE STEP LEMMA: the abstraction moves exactly at the thread-local steps and at the successful Locks, and then by the
   step of the atomic model *)
Lemma fb_abs_step (s : fbstate) tid : FMutex s ->
  fb_abs (fb_step s tid) = if fb_commits s tid then sched_step (fb_abs s) tid else fb_abs s.
Proof.
  intros HM.
  destruct (fb_step_cases s tid) as
    [[Es [Lc _]]
    | [[ct [th' [Hct [L [Lc [_ Es]]]]]]
    | [[ct [rq [ty [num [cat [k [Hct [C [EPC [EH [Lc [_ Es]]]]]]]]]]]]
    | [[ct [rq [ty [num [cat [k [lm' [n' [tr' [p' [Hct [C [Hc [Lc [_ [Hc' [_ [HP Es]]]]]]]]]]]]]]]]]]
    | [ct [rq [ty [num [cat [k [r [Hct [C [EPC [Lc [_ Es]]]]]]]]]]]]]]]]; rewrite Es, Lc.
  - reflexivity.
  - (* thread-local step of tid; the thread inside (if any) is another one *)
    pose proof (nth_error_lt _ _ _ Hct) as Lt.
    destruct (fb_holder s) as [h|] eqn:EH.
    + destruct (fmx_holder _ HM _ EH) as [ch [Nh Ch]].
      destruct (fmx_inside _ HM _ _ Nh Ch) as [_ [rq [ty [num [cat [k C]]]]]].
      assert (h <> tid) as Nht.
      { intros Q. subst h. rewrite Hct in Nh. injection Nh as <-.
        rewrite (local_step_ask _ _ _ _ _ _ C) in L. discriminate L. }
      rewrite (fb_abs_held s h ch rq ty num cat k EH Nh C).
      rewrite (fb_abs_held (FB (fb_memo s) (Some h) (set_nth tid (CT th' PIdle) (fb_threads s))) h ch rq ty num cat k);
        cbn [ConcurrentBundleFine.fb_holder ConcurrentBundleFine.fb_threads ConcurrentBundleFine.fb_memo];
        [|reflexivity|rewrite nth_error_set_nth_neq; [exact Nh|intros Q; apply Nht; rewrite Q; reflexivity]|exact C].
      destruct (commit_tr (m_poisoned (fb_memo s))
                  (pend_tr (cb_of num cat) (ct_pc ch) (m_lm (fb_memo s)) (m_counter (fb_memo s)) (m_trace (fb_memo s))
                           PLURAL_RULES (args_of ty) 0)) as [m2 ans].
      rewrite (sched_step_local _ tid (ct_th ct) th'); cbn [s_threads s_memo].
      * rewrite map_set_nth. cbn [ConcurrentBundleFine.ct_th]. rewrite (set_nth_comm tid h) by (intros Q; apply Nht; rewrite Q; reflexivity).
        reflexivity.
      * rewrite nth_error_set_nth_neq by exact Nht. apply map_nth_error. exact Hct.
      * exact L.
    + rewrite (fb_abs_free s EH). rewrite fb_abs_free by reflexivity.
      unfold ConcurrentBundleFine.fb_proj. cbn [ConcurrentBundleFine.fb_memo ConcurrentBundleFine.fb_threads].
      rewrite (sched_step_local _ tid (ct_th ct) th'); cbn [s_threads s_memo].
      * rewrite map_set_nth. reflexivity.
      * apply map_nth_error. exact Hct.
      * exact L.
  - (* Lock: everything of with_try_get is pending = the atomic memo_step *)
    pose proof (nth_error_lt _ _ _ Hct) as Lt.
    rewrite (fb_abs_free s EH).
    rewrite (fb_abs_held _ tid (CT (ct_th ct) (lock_pc (m_poisoned (fb_memo s)))) rq ty num cat k);
      cbn [ConcurrentBundleFine.fb_holder ConcurrentBundleFine.fb_threads ConcurrentBundleFine.fb_memo
           ConcurrentBundleFine.ct_th ConcurrentBundleFine.ct_pc];
      [|reflexivity|apply nth_error_set_nth_eq; exact Lt|exact C].
    rewrite (sched_step_ask (fb_proj s) tid (ct_th ct) rq ty num cat k);
      [|unfold ConcurrentBundleFine.fb_proj; cbn [s_threads]; apply map_nth_error; exact Hct|exact C].
    unfold ConcurrentBundleFine.fb_proj. cbn [s_memo s_threads].
    rewrite memo_step_commit, commit_memo_pend_tr.
    destruct (commit_tr (m_poisoned (fb_memo s))
                (pend_tr (cb_of num cat) (lock_pc (m_poisoned (fb_memo s))) (m_lm (fb_memo s)) (m_counter (fb_memo s))
                         (m_trace (fb_memo s)) PLURAL_RULES (args_of ty) 0)) as [m2 ans].
    rewrite map_set_nth, set_nth_set_nth. reflexivity.
  - (* inside: part of the pending work is done, the rest is still pending *)
    pose proof (nth_error_lt _ _ _ Hct) as Lt.
    destruct (fmx_inside _ HM _ _ Hct Hc) as [Hh _]. rewrite Hh.
    rewrite (fb_abs_held s tid ct rq ty num cat k Hh Hct C).
    rewrite (fb_abs_held _ tid (CT (ct_th ct) p') rq ty num cat k);
      cbn [ConcurrentBundleFine.fb_holder ConcurrentBundleFine.fb_threads ConcurrentBundleFine.fb_memo
           ConcurrentBundleFine.ct_th ConcurrentBundleFine.ct_pc m_lm m_counter m_trace m_poisoned];
      [|reflexivity|apply nth_error_set_nth_eq; exact Lt|exact C].
    rewrite HP.
    destruct (commit_tr (m_poisoned (fb_memo s))
                (pend_tr (cb_of num cat) (ct_pc ct) (m_lm (fb_memo s)) (m_counter (fb_memo s)) (m_trace (fb_memo s))
                         PLURAL_RULES (args_of ty) 0)) as [m2 ans].
    rewrite map_set_nth, set_nth_set_nth. reflexivity.
  - (* Unlock: nothing is pending any more *)
    assert (in_cs (ct_pc ct) = true) as Hc by (rewrite EPC; reflexivity).
    destruct (fmx_inside _ HM _ _ Hct Hc) as [Hh _].
    rewrite (fb_abs_held s tid ct rq ty num cat k Hh Hct C).
    rewrite fb_abs_free by reflexivity. rewrite EPC.
    unfold FineGrainedProofs.pend_tr, commit_tr, ConcurrentBundleFine.fb_proj.
    cbn [FineGrained.pending app ConcurrentBundleFine.fb_memo ConcurrentBundleFine.fb_threads].
    rewrite map_set_nth. reflexivity.
Qed.

(* ---- simulation along a whole fine schedule *)
Lemma fb_sim fs : forall (s : fbstate), FMutex s ->
  FMutex (fb_run_from s fs) /\
  fb_abs (fb_run_from s fs) = fold_left sched_step (commit_order s fs) (fb_abs s).
Proof.
  unfold ConcurrentBundleFine.fb_run_from.
  induction fs as [|tid fs IH]; intros s HM; cbn [fold_left ConcurrentBundleFine.commit_order].
  - split; [exact HM|reflexivity].
  - pose proof (fb_step_mutex s tid HM) as HM1. pose proof (fb_abs_step s tid HM) as HA.
    destruct (IH _ HM1) as [HM2 HA2]. split; [exact HM2|]. rewrite HA2, HA.
    destruct (fb_commits s tid); reflexivity.
Qed.

Lemma fb_abs_init programs : fb_abs (fb_init programs) = c_init lang programs.
Proof.
  unfold ConcurrentBundleFine.fb_abs, ConcurrentBundleFine.fb_init, ConcurrentBundleFine.fb_proj, c_init.
  cbn [ConcurrentBundleFine.fb_holder ConcurrentBundleFine.fb_threads ConcurrentBundleFine.fb_memo].
  rewrite map_map. cbn [ConcurrentBundleFine.ct_th]. reflexivity.
Qed.

(* MUTUAL EXCLUSION holds in every state of every fine schedule *)
Theorem fb_mutex programs fs : FMutex (fb_run programs fs).
Proof. exact (proj1 (fb_sim fs _ (fmutex_init programs))). Qed.

(* THE REDUCTION THEOREM, strongest form: at EVERY point of EVERY fine schedule, the state in which the thread inside
   the critical section (if any) has finished it is the state of the atomic model of ConcurrentBundle.v under the
   schedule `commit_order` (thread-local steps and successful Locks, in the order they happened) *)
Theorem fb_reduction_abs programs fs :
  fb_abs (fb_run programs fs) = run_schedule programs (commit_order (fb_init programs) fs).
Proof.
  unfold ConcurrentBundleFine.fb_run, ConcurrentBundle.run_schedule.
  rewrite (proj2 (fb_sim fs _ (fmutex_init programs))), fb_abs_init. reflexivity.
Qed.

(* ... hence whenever no thread is inside a critical section, the observable state — the memoizer (table, counter, log,
   poison flag) and every thread's call in progress, requests to issue and finished calls with their results — IS the
   state of the atomic model *)
Theorem fb_reduction programs fs :
  fb_holder (fb_run programs fs) = None ->
  fb_proj (fb_run programs fs) = run_schedule programs (commit_order (fb_init programs) fs).
Proof. intros Hh. rewrite <- fb_reduction_abs. rewrite fb_abs_free by exact Hh. reflexivity. Qed.

(* ------------------------------------------------------------------ Part 3: no deadlock *)

Ltac break_ex :=
  repeat match goal with
         | H : exists _, _ |- _ => destruct H
         | H : _ /\ _ |- _ => destruct H
         end.

(* a thread that is not enabled does not move (it is finished, absent, or waits in lock()) ... *)
Lemma fb_disabled_noop (s : fbstate) tid : fb_enabled s tid = false -> fb_step s tid = s.
Proof.
  intros H. destruct (fb_step_cases s tid) as [[Es _]|[H1|[H1|[H1|H1]]]]; [exact Es|..]; exfalso; break_ex; congruence.
Qed.

(* ... and the only thread-and-state in which an unfinished thread is not enabled is: at Lock, mutex held by somebody *)
Lemma fb_disabled_waits (s : fbstate) tid ct :
  fb_enabled s tid = false -> nth_error (fb_threads s) tid = Some ct -> thread_finished (ct_th ct) = false ->
  ct_pc ct = PIdle /\ fb_holder s <> None /\ exists rq ty num cat k, t_cur (ct_th ct) = Some (rq, PAsk ty num cat k).
Proof.
  intros H N F. destruct (fb_step_cases s tid) as [[_ [_ [_ Hno]]]|[H1|[H1|[H1|H1]]]].
  - destruct (Hno _ N) as [Hf|Hw]; [congruence|exact Hw].
  - exfalso; break_ex; congruence.
  - exfalso; break_ex; congruence.
  - exfalso; break_ex; congruence.
  - exfalso; break_ex; congruence.
Qed.

(* THE HOLDER NEVER WAITS: between Lock and Unlock a thread takes no lock and waits for nobody — construct and the
   callback are not processes (they cannot come back to the memoizer), every micro-step just runs *)
Lemma fb_holder_enabled (s : fbstate) h : FMutex s -> fb_holder s = Some h -> fb_enabled s h = true.
Proof.
  intros HM EH. destruct (fmx_holder _ HM _ EH) as [ct [N C]].
  destruct (fmx_inside _ HM _ _ N C) as [_ [rq [ty [num [cat [k Ecur]]]]]].
  unfold ConcurrentBundleFine.fb_enabled. rewrite N, (local_step_ask _ _ _ _ _ _ Ecur), Ecur.
  destruct (ct_pc ct); try reflexivity. discriminate C.
Qed.

(* if the mutex is free, every thread that has not finished can step *)
Lemma fb_free_enabled (s : fbstate) tid ct :
  fb_holder s = None -> nth_error (fb_threads s) tid = Some ct -> thread_finished (ct_th ct) = false ->
  fb_enabled s tid = true.
Proof.
  intros EH N F. destruct (fb_enabled s tid) eqn:E; [reflexivity|].
  destruct (fb_disabled_waits s tid ct E N F) as [_ [Hh _]]. contradiction.
Qed.

Lemma fb_unfinished_thread (s : fbstate) :
  fb_finished s = false -> exists tid ct, nth_error (fb_threads s) tid = Some ct /\ thread_finished (ct_th ct) = false.
Proof.
  unfold ConcurrentBundleFine.fb_finished. induction (fb_threads s) as [|ct l IH]; cbn [forallb]; [discriminate|].
  destruct (thread_finished (ct_th ct)) eqn:F.
  - cbn [andb]. intros H. destruct (IH H) as (tid & ct' & N & F'). exists (S tid), ct'. auto.
  - intros _. exists 0, ct. auto.
Qed.

(* NO DEADLOCK, local form: in every state that satisfies mutual exclusion, unless all threads have finished some thread
   can step — the holder if there is one, any unfinished thread otherwise *)
Lemma fb_some_enabled (s : fbstate) : FMutex s -> fb_finished s = false -> exists tid, fb_enabled s tid = true.
Proof.
  intros HM F. destruct (fb_holder s) as [h|] eqn:EH.
  - exists h. apply fb_holder_enabled; assumption.
  - destruct (fb_unfinished_thread s F) as (tid & ct & N & Fth). exists tid. eapply fb_free_enabled; eauto.
Qed.

(* when all threads have finished nobody holds the mutex *)
Lemma fb_finished_holder (s : fbstate) : FMutex s -> fb_finished s = true -> fb_holder s = None.
Proof.
  intros HM Hf. destruct (fb_holder s) as [tid|] eqn:EH; [|reflexivity]. exfalso.
  destruct (fmx_holder _ HM _ EH) as [ct [N C]]. destruct (fmx_inside _ HM _ _ N C) as [_ [rq [ty [num [cat [k Ecur]]]]]].
  unfold ConcurrentBundleFine.fb_finished in Hf. rewrite forallb_forall in Hf.
  apply nth_error_In in N. apply Hf in N. unfold thread_finished in N. rewrite Ecur in N. discriminate N.
Qed.

Lemma fb_finished_proj (s : fbstate) : finished (fb_proj s) = fb_finished s.
Proof.
  unfold finished, ConcurrentBundleFine.fb_finished, ConcurrentBundleFine.fb_proj. cbn [s_threads].
  apply FineGrainedProofs.forallb_map.
Qed.

(* THE LOCK IS ALWAYS RELEASED: the thread inside, scheduled alone, is outside after at most steps_left (<= 6) of its own
   micro-steps; none of them is a step of the atomic model and the abstraction does not move meanwhile *)
Lemma fb_drain n : forall (s : fbstate) tid ct, FMutex s ->
  nth_error (fb_threads s) tid = Some ct -> in_cs (ct_pc ct) = true -> steps_left (ct_pc ct) <= n ->
  exists j, 1 <= j <= n /\ fb_holder (fb_run_from s (repeat tid j)) = None /\
            commit_order s (repeat tid j) = [] /\
            fb_abs (fb_run_from s (repeat tid j)) = fb_abs s.
Proof.
  induction n as [|n IH]; intros s tid ct HM Hct Hc Hn.
  - exfalso. destruct (ct_pc ct); cbn in Hc, Hn; try discriminate Hc; lia.
  - pose proof (fb_abs_step s tid HM) as HA. pose proof (fb_step_mutex s tid HM) as HM1.
    destruct (fmx_inside _ HM _ _ Hct Hc) as [Hh [rq0 [ty0 [num0 [cat0 [k0 Ecur]]]]]].
    destruct (fb_step_cases s tid) as
      [[_ [_ [_ Hno]]]
      | [[ct1 [th' [Hct1 [L _]]]]
      | [[ct1 [rq [ty [num [cat [k [Hct1 [_ [EPC _]]]]]]]]]
      | [[ct1 [rq [ty [num [cat [k [lm' [n' [tr' [p' [Hct1 [C [_ [Lc [_ [Hc' [Hlt [_ Es]]]]]]]]]]]]]]]]]]
      | [ct1 [rq [ty [num [cat [k [r [Hct1 [C [EPC [Lc [_ Es]]]]]]]]]]]]]]]].
    + exfalso. destruct (Hno _ Hct) as [Hf|[Hp _]].
      * unfold thread_finished in Hf. rewrite Ecur in Hf. discriminate Hf.
      * rewrite Hp in Hc. discriminate Hc.
    + exfalso. rewrite Hct in Hct1. injection Hct1 as <-.
      rewrite (local_step_ask _ _ _ _ _ _ Ecur) in L. discriminate L.
    + exfalso. rewrite Hct in Hct1. injection Hct1 as <-. rewrite EPC in Hc. discriminate Hc.
    + rewrite Hct in Hct1. injection Hct1 as <-. rewrite Lc in HA.
      assert (nth_error (fb_threads (fb_step s tid)) tid = Some (CT (ct_th ct) p')) as Hct'.
      { rewrite Es. cbn [ConcurrentBundleFine.fb_threads]. apply nth_error_set_nth_eq. eapply nth_error_lt; eauto. }
      destruct (IH (fb_step s tid) tid _ HM1 Hct') as [j [Lj [Hh' [Hlo Habs]]]];
        cbn [ConcurrentBundleFine.ct_pc]; [exact Hc'|lia|].
      exists (S j). split; [lia|]. cbn [repeat ConcurrentBundleFine.commit_order]. rewrite Lc.
      unfold ConcurrentBundleFine.fb_run_from in *. cbn [fold_left].
      split; [exact Hh'|]. split; [exact Hlo|]. rewrite Habs. exact HA.
    + rewrite Lc in HA. exists 1. split; [lia|]. cbn [repeat ConcurrentBundleFine.commit_order]. rewrite Lc.
      unfold ConcurrentBundleFine.fb_run_from. cbn [fold_left].
      split; [rewrite Es; reflexivity|]. split; [reflexivity|exact HA].
Qed.

Lemma steps_left_le_6 (p : mpc) : steps_left p <= 6.
Proof. destruct p; cbn; lia. Qed.

(* whoever holds the mutex, scheduled alone, has released it after at most 6 of its own steps *)
Theorem fb_unlock_within_6 (s : fbstate) h : FMutex s -> fb_holder s = Some h ->
  exists j, 1 <= j <= 6 /\ fb_holder (fb_run_from s (repeat h j)) = None /\
            commit_order s (repeat h j) = [] /\ fb_abs (fb_run_from s (repeat h j)) = fb_abs s.
Proof.
  intros HM EH. destruct (fmx_holder _ HM _ EH) as [ct [N C]].
  exact (fb_drain 6 s h ct HM N C (steps_left_le_6 _)).
Qed.

(* ---- progress measure: 7 units per step of the atomic model still ahead (ConcurrentBundleProofs.thread_weight), minus
        what the thread inside has already done of its access *)
Definition ct_weight (ct : cthread) : nat :=
  (match t_cur (ct_th ct) with
   | Some (_, p) => if in_cs (ct_pc ct) then 7 * depth p + steps_left (ct_pc ct) else 7 * S (depth p)
   | None => 0
   end) + 7 * list_sum (map (fun rq => 2 + depth (request_proc rq)) (t_todo (ct_th ct))).
Definition fb_weight (s : fbstate) : nat := list_sum (map ct_weight (fb_threads s)).

Lemma depth_resume {X} (k : bool -> proc X) ans : depth (resume k ans) <= Nat.max (depth (k true)) (depth (k false)).
Proof. destruct ans as [r| |]; cbn [ConcurrentBundleFine.resume depth]; [apply depth_k|lia|lia]. Qed.

(* every step of an enabled thread is progress *)
Lemma fb_step_progress (s : fbstate) tid : fb_enabled s tid = true -> fb_weight (fb_step s tid) < fb_weight s.
Proof.
  intros En.
  destruct (fb_step_cases s tid) as
    [[_ [_ [Ed _]]]
    | [[ct [th' [Hct [L [_ [_ Es]]]]]]
    | [[ct [rq [ty [num [cat [k [Hct [C [EPC [EH [_ [_ Es]]]]]]]]]]]]
    | [[ct [rq [ty [num [cat [k [lm' [n' [tr' [p' [Hct [C [Hc [_ [_ [Hc' [Hlt [_ Es]]]]]]]]]]]]]]]]]]
    | [ct [rq [ty [num [cat [k [r [Hct [C [EPC [_ [_ Es]]]]]]]]]]]]]]]]; [congruence|..];
    rewrite Es; unfold fb_weight; cbn [ConcurrentBundleFine.fb_threads];
    (eapply sum_set_nth_lt; [exact Hct|]); unfold ct_weight;
    cbn [ConcurrentBundleFine.ct_th ConcurrentBundleFine.ct_pc t_cur t_todo FineGrained.in_cs].
  - unfold ConcurrentBundleFine.local_step in L.
    destruct (t_cur (ct_th ct)) as [[rq [r|ty num cat k]]|].
    + injection L as <-. cbn [t_cur t_todo depth].
      assert (1 <= (if in_cs (ct_pc ct) then 7 * 0 + steps_left (ct_pc ct) else 7 * 1)) by (destruct (ct_pc ct); cbn; lia).
      lia.
    + discriminate L.
    + destruct (t_todo (ct_th ct)) as [|rq rest]; [discriminate L|]. injection L as <-.
      cbn [t_cur t_todo]. unfold list_sum. cbn [map fold_right]. lia.
  - rewrite C, EPC. cbn [FineGrained.in_cs].
    assert (in_cs (lock_pc (m_poisoned (fb_memo s))) = true /\ steps_left (lock_pc (m_poisoned (fb_memo s))) <= 6) as [A B]
      by (unfold ConcurrentBundleFine.lock_pc; destruct (m_poisoned (fb_memo s)); cbn; split; (reflexivity || lia)).
    rewrite A. lia.
  - rewrite C, Hc, Hc'. lia.
  - rewrite C, EPC. cbn [FineGrained.in_cs FineGrainedProofs.steps_left depth].
    pose proof (depth_resume k (unwrap_answer r)). lia.
Qed.

Lemma fb_finished_weight (s : fbstate) : fb_weight s = 0 -> fb_finished s = true.
Proof.
  unfold ConcurrentBundleFine.fb_finished, fb_weight, list_sum.
  induction (fb_threads s) as [|ct l IH]; cbn [forallb map fold_right]; [reflexivity|].
  intros H. rewrite IH by lia. rewrite Bool.andb_true_r.
  unfold ct_weight in H. unfold thread_finished.
  destruct (t_cur (ct_th ct)) as [[rq p]|].
  - exfalso. destruct (in_cs (ct_pc ct)) eqn:Hc; [|lia]. destruct (ct_pc ct); cbn in Hc, H; try discriminate Hc; lia.
  - destruct (t_todo (ct_th ct)); [reflexivity|]. exfalso. unfold list_sum in H. cbn [map fold_right] in H. lia.
Qed.

(* every state that satisfies mutual exclusion can be driven to the end, in at most fb_weight steps *)
Lemma fb_can_finish : forall n (s : fbstate), FMutex s -> fb_weight s <= n ->
  exists fs, length fs <= n /\ fb_finished (fb_run_from s fs) = true.
Proof.
  induction n as [|n IH]; intros s HM W.
  - exists []. split; [cbn; lia|]. unfold ConcurrentBundleFine.fb_run_from. cbn [fold_left].
    apply fb_finished_weight. lia.
  - destruct (fb_finished s) eqn:F; [exists []; split; [cbn; lia | exact F]|].
    destruct (fb_some_enabled s HM F) as [tid En].
    pose proof (fb_step_progress s tid En) as L.
    destruct (IH (fb_step s tid) (fb_step_mutex s tid HM)) as (fs & Ls & Fs); [lia|].
    exists (tid :: fs). split; [cbn; lia | exact Fs].
Qed.

(* NO DEADLOCK, for every fine schedule: in the state it reaches, (1) a thread that is not enabled is finished, absent
   or waiting in lock() for a mutex somebody holds, and scheduling it changes nothing; (2) whoever holds the mutex is
   enabled, and is out after at most 6 of its own steps; (3) if nobody holds it every unfinished thread is enabled;
   (4) every step of an enabled thread lowers fb_weight; (5) so the schedule can be extended to one that finishes every
   thread, with at most fb_weight further steps *)
Theorem fb_no_deadlock programs fs :
  let s := fb_run programs fs in
  (forall tid, fb_enabled s tid = false -> fb_step s tid = s) /\
  (forall h, fb_holder s = Some h ->
     fb_enabled s h = true /\
     exists j, 1 <= j <= 6 /\ fb_holder (fb_run programs (fs ++ repeat h j)) = None) /\
  (fb_holder s = None -> forall tid ct, nth_error (fb_threads s) tid = Some ct -> thread_finished (ct_th ct) = false ->
     fb_enabled s tid = true) /\
  (forall tid, fb_enabled s tid = true -> fb_weight (fb_step s tid) < fb_weight s) /\
  (fb_finished s = false -> exists tid, fb_enabled s tid = true) /\
  exists fs', length fs' <= fb_weight s /\ fb_finished (fb_run programs (fs ++ fs')) = true.
Proof.
  intros s. pose proof (fb_mutex programs fs) as HM. fold s in HM.
  split; [intros tid; apply fb_disabled_noop|].
  split.
  { intros h EH. split; [apply fb_holder_enabled; assumption|].
    destruct (fb_unlock_within_6 s h HM EH) as [j [Lj [Hh _]]]. exists j. split; [exact Lj|].
    unfold ConcurrentBundleFine.fb_run, ConcurrentBundleFine.fb_run_from in *. rewrite fold_left_app. exact Hh. }
  split; [intros EH tid ct; apply fb_free_enabled; exact EH|].
  split; [intros tid; apply fb_step_progress|].
  split; [apply fb_some_enabled; exact HM|].
  destruct (fb_can_finish (fb_weight s) s HM (le_n _)) as (fs' & L & F).
  exists fs'. split; [exact L|].
  unfold ConcurrentBundleFine.fb_run, ConcurrentBundleFine.fb_run_from in *. rewrite fold_left_app. exact F.
Qed.

(* ---- one memoizer access, run without interference, is the atomic step: from a state where the mutex is free, a thread
        at a memoizer access, scheduled alone, is back outside after 2..7 micro-steps (Lock .. Unlock), exactly one of
        them is a step of the atomic model, and the observable effect is ConcurrentBundle.sched_step = memo_step *)
Theorem fb_access_is_memo_step (s : fbstate) tid ct rq ty num cat k : FMutex s -> fb_holder s = None ->
  nth_error (fb_threads s) tid = Some ct -> t_cur (ct_th ct) = Some (rq, PAsk ty num cat k) ->
  exists j, 2 <= j <= 7 /\ fb_holder (fb_run_from s (repeat tid j)) = None /\
            commit_order s (repeat tid j) = [tid] /\
            fb_proj (fb_run_from s (repeat tid j)) = sched_step (fb_proj s) tid.
Proof.
  intros HM Hh Hct Ecur.
  pose proof (fb_abs_step s tid HM) as HA. pose proof (fb_step_mutex s tid HM) as HM1.
  pose proof (fb_abs_free s Hh) as Habs0.
  destruct (fb_step_cases s tid) as
    [[_ [_ [_ Hno]]]
    | [[ct1 [th' [Hct1 [L _]]]]
    | [[ct1 [rq1 [ty1 [num1 [cat1 [k1 [Hct1 [C [EPC [_ [Lc [_ Es]]]]]]]]]]]]
    | [[ct1 [rq1 [ty1 [num1 [cat1 [k1 [lm' [n' [tr' [p' [Hct1 [C [Hc _]]]]]]]]]]]]]
    | [ct1 [rq1 [ty1 [num1 [cat1 [k1 [r [Hct1 [C [EPC _]]]]]]]]]]]]]].
  - exfalso. destruct (Hno _ Hct) as [Hf|[_ [Hp _]]]; [|contradiction].
    unfold thread_finished in Hf. rewrite Ecur in Hf. discriminate Hf.
  - exfalso. rewrite Hct in Hct1. injection Hct1 as <-. rewrite (local_step_ask _ _ _ _ _ _ Ecur) in L. discriminate L.
  - rewrite Hct in Hct1. injection Hct1 as <-. rewrite Lc in HA.
    assert (nth_error (fb_threads (fb_step s tid)) tid = Some (CT (ct_th ct) (lock_pc (m_poisoned (fb_memo s))))) as Hct'.
    { rewrite Es. cbn [ConcurrentBundleFine.fb_threads]. apply nth_error_set_nth_eq. eapply nth_error_lt; eauto. }
    assert (in_cs (lock_pc (m_poisoned (fb_memo s))) = true) as Hc
      by (unfold ConcurrentBundleFine.lock_pc; destruct (m_poisoned (fb_memo s)); reflexivity).
    destruct (fb_drain 6 (fb_step s tid) tid _ HM1 Hct') as [j [Lj [Hh' [Hlo Habs]]]];
      cbn [ConcurrentBundleFine.ct_pc]; [exact Hc|apply steps_left_le_6|].
    exists (S j). split; [lia|]. cbn [repeat ConcurrentBundleFine.commit_order]. rewrite Lc, Hlo.
    unfold ConcurrentBundleFine.fb_run_from in *. cbn [fold_left].
    split; [exact Hh'|]. split; [reflexivity|].
    rewrite <- Habs0, <- HA, <- Habs. rewrite fb_abs_free by exact Hh'. reflexivity.
  - exfalso. rewrite Hct in Hct1. injection Hct1 as <-.
    destruct (fmx_inside _ HM _ _ Hct Hc) as [Hh2 _]. congruence.
  - exfalso. rewrite Hct in Hct1. injection Hct1 as <-.
    assert (in_cs (ct_pc ct) = true) as Hc by (rewrite EPC; reflexivity).
    destruct (fmx_inside _ HM _ _ Hct Hc) as [Hh2 _]. congruence.
Qed.

(* ---- converse: the fine model loses no behaviour of the atomic one — every schedule of ConcurrentBundle.v is realised
        by a fine schedule (run each access alone), with the same observable state *)
Lemma fb_realizes_from cs : forall (s : fbstate), FMutex s -> fb_holder s = None ->
  exists fs, fb_holder (fb_run_from s fs) = None /\
             fb_proj (fb_run_from s fs) = fold_left sched_step cs (fb_proj s).
Proof.
  induction cs as [|tid cs IH]; intros s HM Hh.
  - exists []. split; [exact Hh|reflexivity].
  - cbn [fold_left].
    destruct (nth_error (fb_threads s) tid) as [ct|] eqn:Hct.
    + destruct (local_step (ct_th ct)) as [th'|] eqn:L.
      * (* thread-local step *)
        assert (fb_step s tid = FB (fb_memo s) None (set_nth tid (CT th' PIdle) (fb_threads s))) as Es.
        { unfold ConcurrentBundleFine.fb_step. rewrite Hct, L, Hh. reflexivity. }
        assert (fb_proj (fb_step s tid) = sched_step (fb_proj s) tid) as HP.
        { rewrite Es. unfold ConcurrentBundleFine.fb_proj at 2.
          rewrite (sched_step_local _ tid (ct_th ct) th'); cbn [s_threads s_memo];
            [|apply map_nth_error; exact Hct|exact L].
          unfold ConcurrentBundleFine.fb_proj. cbn [ConcurrentBundleFine.fb_memo ConcurrentBundleFine.fb_threads].
          rewrite map_set_nth. reflexivity. }
        destruct (IH (fb_step s tid) (fb_step_mutex s tid HM)) as [fs' [Hh2 HP2]]; [rewrite Es; reflexivity|].
        exists (tid :: fs'). unfold ConcurrentBundleFine.fb_run_from in *. cbn [fold_left].
        split; [exact Hh2|]. rewrite HP2, HP. reflexivity.
      * destruct (t_cur (ct_th ct)) as [[rq [r|ty num cat k]]|] eqn:C.
        -- exfalso. unfold ConcurrentBundleFine.local_step in L. rewrite C in L. discriminate L.
        -- (* a memoizer access: run it alone *)
           destruct (fb_access_is_memo_step s tid ct rq ty num cat k HM Hh Hct C) as [j [_ [Hh1 [_ HP]]]].
           destruct (IH (fb_run_from s (repeat tid j)) (proj1 (fb_sim _ s HM)) Hh1) as [fs' [Hh2 HP2]].
           exists (repeat tid j ++ fs'). unfold ConcurrentBundleFine.fb_run_from in *. rewrite fold_left_app.
           split; [exact Hh2|]. rewrite HP2, HP. reflexivity.
        -- (* finished: no-op in both models *)
           assert (sched_step (fb_proj s) tid = fb_proj s) as Hnop.
           { unfold ConcurrentBundle.sched_step, ConcurrentBundleFine.fb_proj. cbn [s_threads].
             rewrite (map_nth_error ct_th _ _ Hct), C.
             unfold ConcurrentBundleFine.local_step in L. rewrite C in L.
             destruct (t_todo (ct_th ct)); [reflexivity|discriminate L]. }
           rewrite Hnop. apply IH; assumption.
    + assert (sched_step (fb_proj s) tid = fb_proj s) as Hnop.
      { unfold ConcurrentBundle.sched_step, ConcurrentBundleFine.fb_proj. cbn [s_threads].
        assert (nth_error (map ct_th (fb_threads s)) tid = None) as Hn
          by (apply nth_error_None; rewrite map_length; apply nth_error_None; exact Hct).
        rewrite Hn. reflexivity. }
      rewrite Hnop. apply IH; assumption.
Qed.

Theorem fb_realizes programs cs :
  exists fs, fb_holder (fb_run programs fs) = None /\
             fb_proj (fb_run programs fs) = run_schedule programs cs.
Proof.
  destruct (fb_realizes_from cs (fb_init programs) (fmutex_init programs) eq_refl) as [fs [Hh HP]].
  exists fs. split; [exact Hh|]. unfold ConcurrentBundleFine.fb_run, ConcurrentBundle.run_schedule. rewrite HP.
  rewrite <- fb_abs_init. rewrite fb_abs_free by reflexivity. reflexivity.
Qed.

(* ------------------------------------------------------------------ Part 4: the atomic theorems under every fine schedule *)
Notation c_is_succ := MemoProofs.c_is_succ.
Notation tfind := (Memoizer.tfind rules_fn).
Notation lm_table := (Memoizer.lm_table rules_fn).

(* what the abstraction changes of a thread: nothing but the continuation of the call in progress of the holder *)
Lemma fb_abs_thread (s : fbstate) tid ct : nth_error (fb_threads s) tid = Some ct ->
  exists th', nth_error (s_threads (fb_abs s)) tid = Some th' /\
              t_done th' = t_done (ct_th ct) /\ t_todo th' = t_todo (ct_th ct) /\ thread_reqs th' = thread_reqs (ct_th ct).
Proof.
  intros N.
  assert (exists th', nth_error (s_threads (fb_proj s)) tid = Some th' /\
              t_done th' = t_done (ct_th ct) /\ t_todo th' = t_todo (ct_th ct) /\ thread_reqs th' = thread_reqs (ct_th ct)) as Hproj.
  { exists (ct_th ct). split; [apply map_nth_error; exact N|auto]. }
  unfold ConcurrentBundleFine.fb_abs.
  destruct (fb_holder s) as [h|]; [|exact Hproj].
  destruct (nth_error (fb_threads s) h) as [ch|] eqn:Nh; [|exact Hproj].
  destruct (t_cur (ct_th ch)) as [[rq [r|ty num cat k]]|] eqn:C; [exact Hproj| |exact Hproj].
  cbv zeta.
  destruct (commit_memo (fb_memo s)
              (pending (fun _ => select_callback num cat) (ct_pc ch) (m_lm (fb_memo s)) (m_counter (fb_memo s))
                       PLURAL_RULES (args_of ty) 0)) as [m' ans].
  cbn [s_threads].
  destruct (Nat.eq_dec h tid) as [Q|Nq].
  - subst h. rewrite N in Nh. injection Nh as <-. eexists. split.
    + apply nth_error_set_nth_eq. rewrite map_length. eapply nth_error_lt; eauto.
    + cbn [t_done t_todo]. split; [reflexivity|]. split; [reflexivity|].
      unfold thread_reqs. cbn [t_done t_cur t_todo]. rewrite C. reflexivity.
  - exists (ct_th ct). split; [|auto]. rewrite nth_error_set_nth_neq by exact Nq. apply map_nth_error. exact N.
Qed.

Lemma fb_abs_map {Y} (f : thread -> Y) (s : fbstate) :
  (forall tid ct th', nth_error (fb_threads s) tid = Some ct -> nth_error (s_threads (fb_abs s)) tid = Some th' ->
                      f th' = f (ct_th ct)) ->
  length (s_threads (fb_abs s)) = length (fb_threads s) ->
  map f (s_threads (fb_abs s)) = map f (map ct_th (fb_threads s)).
Proof.
  intros Hf Hl. apply nth_error_eq_ext. intros i. rewrite !nth_error_map.
  destruct (nth_error (fb_threads s) i) as [ct|] eqn:N.
  - destruct (fb_abs_thread s i ct N) as [th' [N' _]]. rewrite N'. cbn [option_map]. f_equal. eapply Hf; eauto.
  - assert (nth_error (s_threads (fb_abs s)) i = None) as N'
      by (apply nth_error_None; rewrite Hl; apply nth_error_None; exact N).
    rewrite N'. reflexivity.
Qed.

Lemma fb_abs_length (s : fbstate) : length (s_threads (fb_abs s)) = length (fb_threads s).
Proof.
  unfold ConcurrentBundleFine.fb_abs, ConcurrentBundleFine.fb_proj.
  destruct (fb_holder s) as [h|]; [|cbn [s_threads]; apply map_length].
  destruct (nth_error (fb_threads s) h) as [ch|]; [|cbn [s_threads]; apply map_length].
  destruct (t_cur (ct_th ch)) as [[rq [r|ty num cat k]]|]; try (cbn [s_threads]; apply map_length).
  cbv zeta.
  destruct (commit_memo (fb_memo s)
              (pending (fun _ => select_callback num cat) (ct_pc ch) (m_lm (fb_memo s)) (m_counter (fb_memo s))
                       PLURAL_RULES (args_of ty) 0)) as [m' ans].
  cbn [s_threads]. rewrite MemoProofs.set_nth_length. apply map_length.
Qed.

(* at EVERY point of a fine run (also while a thread is inside the critical section): the finished calls of every thread,
   with their results, are those of the abstraction ... *)
Lemma fb_abs_results (s : fbstate) : results_of (fb_abs s) = fb_results s.
Proof.
  unfold results_of, ConcurrentBundleFine.fb_results. rewrite <- (map_map ct_th t_done).
  apply fb_abs_map; [|apply fb_abs_length].
  intros tid ct th' N N'. destruct (fb_abs_thread s tid ct N) as [th2 [N2 [Hd _]]]. congruence.
Qed.

(* ... and so are the requests of every thread, in program order *)
Lemma fb_abs_reqs (s : fbstate) : map thread_reqs (s_threads (fb_abs s)) = map thread_reqs (map ct_th (fb_threads s)).
Proof.
  apply fb_abs_map; [|apply fb_abs_length].
  intros tid ct th' N N'. destruct (fb_abs_thread s tid ct N) as [th2 [N2 [_ [_ Hr]]]]. congruence.
Qed.

(* the construct log of a fine state is a suffix of the log of its abstraction (the call in flight is the difference),
   and the abstraction is poisoned if the fine state is *)
Lemma fb_abs_memo (s : fbstate) :
  (exists evs, m_trace (s_memo (fb_abs s)) = evs ++ m_trace (fb_memo s)) /\
  (m_poisoned (s_memo (fb_abs s)) = false -> m_poisoned (fb_memo s) = false).
Proof.
  assert ((exists evs, m_trace (s_memo (fb_proj s)) = evs ++ m_trace (fb_memo s)) /\
          (m_poisoned (s_memo (fb_proj s)) = false -> m_poisoned (fb_memo s) = false)) as Hproj
    by (split; [exists []; reflexivity|auto]).
  unfold ConcurrentBundleFine.fb_abs.
  destruct (fb_holder s) as [h|]; [|exact Hproj].
  destruct (nth_error (fb_threads s) h) as [ch|]; [|exact Hproj].
  destruct (t_cur (ct_th ch)) as [[rq [r|ty num cat k]]|]; [exact Hproj| |exact Hproj].
  cbv zeta. unfold ConcurrentBundleFine.commit_memo.
  destruct (pending (fun _ => select_callback num cat) (ct_pc ch) (m_lm (fb_memo s)) (m_counter (fb_memo s))
                    PLURAL_RULES (args_of ty) 0) as [[[lm2 n2] r] evs].
  cbn [s_memo m_trace m_poisoned]. split; [exists evs; reflexivity|].
  destruct r as [[r'|t|]|er]; cbn [ConcurrentBundleFine.poison_after]; auto. discriminate.
Qed.

(* PROGRAM ORDER under every fine schedule: every thread issues its requests in order, none lost, none invented *)
Theorem fb_reqs programs fs : map thread_reqs (map ct_th (fb_threads (fb_run programs fs))) = programs.
Proof.
  rewrite <- fb_abs_reqs, fb_reduction_abs.
  apply (run_reqs overflow_checks call_function transform formatter as_string as_string_threadsafe unescape_write
           unescape_to_string f64_from_str cerr plural_construct b lang).
Qed.

(* the finished calls and their results, at EVERY point of EVERY fine schedule, are those of the atomic model *)
Theorem fb_results_atomic programs fs :
  fb_results (fb_run programs fs) = results_of (run_schedule programs (commit_order (fb_init programs) fs)).
Proof. rewrite <- fb_reduction_abs. symmetry. apply fb_abs_results. Qed.

(* when every thread has finished: nobody holds the mutex, the state IS the atomic state, which is finished, and every
   request of every thread has been answered, in order *)
Theorem fb_reduction_finished programs fs :
  fb_finished (fb_run programs fs) = true ->
  fb_holder (fb_run programs fs) = None /\
  fb_proj (fb_run programs fs) = run_schedule programs (commit_order (fb_init programs) fs) /\
  finished (run_schedule programs (commit_order (fb_init programs) fs)) = true /\
  forall tid ct, nth_error (fb_threads (fb_run programs fs)) tid = Some ct ->
                 nth_error programs tid = Some (map fst (t_done (ct_th ct))).
Proof.
  intros Hf. pose proof (fb_finished_holder _ (fb_mutex programs fs) Hf) as Hh.
  pose proof (fb_reduction programs fs Hh) as HR. split; [exact Hh|]. split; [exact HR|].
  assert (finished (run_schedule programs (commit_order (fb_init programs) fs)) = true) as HF
    by (rewrite <- HR, fb_finished_proj; exact Hf).
  split; [exact HF|].
  intros tid ct N.
  apply (all_answered overflow_checks call_function transform formatter as_string as_string_threadsafe unescape_write
           unescape_to_string f64_from_str cerr plural_construct b lang programs (commit_order (fb_init programs) fs) tid
           (ct_th ct) HF).
  rewrite <- HR. unfold ConcurrentBundleFine.fb_proj. cbn [s_threads]. apply map_nth_error. exact N.
Qed.

(* COLD CACHE under every fine schedule (no assumption on PluralRules::construct, which may fail).  At EVERY point — also
   while a thread is between Lock and Unlock —
   (1) the log of construct calls holds at most one successful construction per key;
   (2) every construct call was made with the memoizer's language, for a PluralRules key, and succeeded iff construct does;
   (3) and at every quiescent point (mutex free, not poisoned) whichever thread stands at a memoizer access for rule type
       ty: run alone it is back outside after 2..7 micro-steps, continues its call with the callback's value on THE
       instance construct returns for (lang, ty) — found in the table if some thread constructed it before, otherwise
       constructed by these micro-steps, exactly once — or, if construct fails, with the unwrap panic *)
Theorem fb_cold_cache programs fs :
  let s := fb_run programs fs in
  (forall k, length (filter (c_is_succ k) (m_trace (fb_memo s))) <= 1) /\
  (forall e, In e (m_trace (fb_memo s)) ->
     Memoizer.ev_lang e = lang /\ Memoizer.ev_type e = PLURAL_RULES /\
     exists ty, Memoizer.ev_args e = args_of ty /\
                Memoizer.ev_ok e = match plural_construct lang ty with Memoizer.Ok _ => true | Memoizer.Err _ => false end) /\
  (forall tid ct rq ty num cat k,
     fb_holder s = None -> m_poisoned (fb_memo s) = false ->
     nth_error (fb_threads s) tid = Some ct -> t_cur (ct_th ct) = Some (rq, PAsk ty num cat k) ->
     exists j, 2 <= j <= 7 /\
       let s' := fb_run programs (fs ++ repeat tid j) in
       fb_holder s' = None /\
       map ct_th (fb_threads s') =
         set_nth tid (Thread (Some (rq, resume k (match plural_construct lang ty with
                                                  | Memoizer.Ok i => select_callback num cat i
                                                  | Memoizer.Err _ => unwrap_panic
                                                  end))) (t_todo (ct_th ct)) (t_done (ct_th ct)))
                 (map ct_th (fb_threads s)) /\
       (forall i, plural_construct lang ty = Memoizer.Ok i ->
                  length (filter (c_is_succ (PLURAL_RULES, args_of ty)) (m_trace (fb_memo s'))) = 1) /\
       (forall i, tfind (PLURAL_RULES, args_of ty) (lm_table (m_lm (fb_memo s))) = Some i ->
                  m_trace (fb_memo s') = m_trace (fb_memo s))).
Proof.
  intros s.
  pose proof (cold_cache overflow_checks call_function transform formatter as_string as_string_threadsafe unescape_write
                unescape_to_string f64_from_str cerr plural_construct b lang programs (commit_order (fb_init programs) fs))
    as [H1 [H2 H3]].
  rewrite <- fb_reduction_abs in H1, H2, H3. fold s in H1, H2, H3.
  destruct (fb_abs_memo s) as [[evs Ht] _].
  split; [|split].
  - intros k0. specialize (H1 k0). rewrite Ht in H1.
    pose proof (FineGrainedProofs.filter_app_length_le (c_is_succ k0) evs (m_trace (fb_memo s))). lia.
  - intros e He. apply H2. rewrite Ht. apply in_or_app. right. exact He.
  - intros tid ct rq ty num cat k Hh Hp N C.
    rewrite (fb_abs_free s Hh) in H3. unfold ConcurrentBundleFine.fb_proj in H3. cbn [s_memo] in H3.
    destruct (H3 ty num cat Hp) as [m' [Em [Hone Hhit]]].
    destruct (fb_access_is_memo_step s tid ct rq ty num cat k (fb_mutex programs fs) Hh N C) as [j [Lj [Hh' [_ HP]]]].
    exists j. split; [exact Lj|]. cbv zeta.
    assert (fb_run programs (fs ++ repeat tid j) = fb_run_from s (repeat tid j)) as Er.
    { unfold s, ConcurrentBundleFine.fb_run, ConcurrentBundleFine.fb_run_from. apply fold_left_app. }
    rewrite Er. split; [exact Hh'|].
    rewrite (sched_step_ask (fb_proj s) tid (ct_th ct) rq ty num cat k) in HP;
      [|unfold ConcurrentBundleFine.fb_proj; cbn [s_threads]; apply map_nth_error; exact N|exact C].
    unfold ConcurrentBundleFine.fb_proj at 2 3 in HP. cbn [s_memo s_threads] in HP. rewrite Em in HP.
    unfold ConcurrentBundleFine.fb_proj in HP. injection HP as HPm HPt.
    rewrite HPm. split; [exact HPt|]. split; [exact Hone|exact Hhit].
Qed.

(* ---------- schedule independence under every fine schedule ---------- *)
Variable rules : ntype -> rules_fn.
Hypothesis Hconstruct : constructs_rules cerr plural_construct lang rules.

(* for ANY thread programs and ANY fine schedule, at EVERY point (also while a thread is between Lock and Unlock):
   (1) program order; (2) the mutex is not poisoned; (3) every finished call returned Done (text, scope) and that pair is
   what ResolverModel.format_pattern returns single-threadedly for the same request from any memoizer content satisfying
   the memoizer invariant (cold: c = []), up to the memoizer field of the final scope *)
Theorem fb_sched_indep programs fs :
  values_are_f64 call_function f64_from_str programs ->
  let s := fb_run programs fs in
  map thread_reqs (map ct_th (fb_threads s)) = programs /\
  m_poisoned (fb_memo s) = false /\
  forall tid ct rq r,
    nth_error (fb_threads s) tid = Some ct -> In (rq, r) (t_done (ct_th ct)) ->
    (exists text sc, r = Done (text, sc)) /\
    forall c, cache_ok rules c ->
      r = observe_f (format_pattern overflow_checks call_function transform formatter rules as_string_threadsafe
                       unescape_write unescape_to_string f64_from_str b (fr_args rq) (fuel_of b (fr_pattern rq))
                       (fr_top rq) (fr_pattern rq) c).
Proof.
  intros Hv s.
  split; [apply fb_reqs|].
  pose proof (sched_indep overflow_checks call_function transform formatter as_string as_string_threadsafe unescape_write
                unescape_to_string f64_from_str cerr plural_construct b lang rules Hconstruct programs
                (commit_order (fb_init programs) fs) Hv) as [_ [Hp Hres]].
  rewrite <- fb_reduction_abs in Hp, Hres. fold s in Hp, Hres.
  split; [exact (proj2 (fb_abs_memo s) Hp)|].
  intros tid ct rq r N Hin.
  destruct (fb_abs_thread s tid ct N) as [th' [N' [Hd _]]].
  apply (Hres tid th' rq r N'). rewrite Hd. exact Hin.
Qed.

End FineConc.

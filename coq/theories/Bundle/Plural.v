(* Bundle/Plural.v — the CLDR plural rules of intl_pluralrules 7.0.2 (src/rules.rs, CLDR 37) for the
   locales used by the correspondence run, transcribed by hand as Gallina functions over
   `operands`.  This instantiates the resolver's section variable `rules` in the Extract file
   ONLY; no theorem depends on it.  It is validated by the correspondence run alone (the Rust
   side uses the real intl_pluralrules through the bundle).

   types/plural.rs PluralRules::construct negotiates the bundle's first locale against the
   locales that have rules (fluent_langneg, Lookup strategy, default "en"); for the locale strings
   used in the tests that is: language subtag if it is in the table below, otherwise "en".      *)
From FluentV Require Export Bundle.Number.
Local Open Scope N_scope.

Definition in_range (lo hi x : N) : bool := N.leb lo x && N.leb x hi.

(* po.n == k.0 for a small k *)
Definition n_is (po : operands) (k : N) : bool := fval_eqb (op_n po) (FDec false [48 + k] []).

Definition en_cardinal (po : operands) : pcat :=
  if N.eqb (op_i po) 1 && N.eqb (op_v po) 0 then ONE else OTHER.

Definition en_ordinal (po : operands) : pcat :=
  let i := op_i po in
  if N.eqb (i mod 10) 3 && negb (N.eqb (i mod 100) 13) then FEW
  else if N.eqb (i mod 10) 1 && negb (N.eqb (i mod 100) 11) then ONE
  else if N.eqb (i mod 10) 2 && negb (N.eqb (i mod 100) 12) then TWO
  else OTHER.

Definition pl_cardinal (po : operands) : pcat :=
  let i := op_i po in
  let v0 := N.eqb (op_v po) 0 in
  if v0 && in_range 2 4 (i mod 10) && negb (in_range 12 14 (i mod 100)) then FEW
  else if (v0 && negb (N.eqb i 1) && in_range 0 1 (i mod 10))
          || (v0 && in_range 5 9 (i mod 10))
          || (v0 && in_range 12 14 (i mod 100)) then MANY
  else if N.eqb i 1 && v0 then ONE
  else OTHER.

Definition ru_cardinal (po : operands) : pcat :=
  let i := op_i po in
  let v0 := N.eqb (op_v po) 0 in
  if v0 && in_range 2 4 (i mod 10) && negb (in_range 12 14 (i mod 100)) then FEW
  else if (v0 && N.eqb (i mod 10) 0)
          || (v0 && in_range 5 9 (i mod 10))
          || (v0 && in_range 11 14 (i mod 100)) then MANY
  else if v0 && N.eqb (i mod 10) 1 && negb (N.eqb (i mod 100) 11) then ONE
  else OTHER.

Definition fr_cardinal (po : operands) : pcat :=
  if N.eqb (op_i po) 0 || N.eqb (op_i po) 1 then ONE else OTHER.

Definition fr_ordinal (po : operands) : pcat :=
  if n_is po 1 then ONE else OTHER.

Definition ar_cardinal (po : operands) : pcat :=
  let i := op_i po in
  if in_range 3 10 i then FEW
  else if in_range 11 99 i then MANY
  else if n_is po 1 then ONE
  else if n_is po 2 then TWO
  else if n_is po 0 then ZERO
  else OTHER.

Definition lt_cardinal (po : operands) : pcat :=
  let i := op_i po in
  if in_range 2 9 i && negb (in_range 11 19 i) then FEW
  else if negb (N.eqb (op_f po) 0) then MANY
  else if N.eqb (i mod 10) 1 && negb (in_range 11 19 i) then ONE
  else OTHER.

Definition cs_cardinal (po : operands) : pcat :=
  let i := op_i po in
  let v0 := N.eqb (op_v po) 0 in
  if in_range 2 4 i && v0 then FEW
  else if negb v0 then MANY
  else if N.eqb i 1 && v0 then ONE
  else OTHER.

(* pt (Brazilian and generic Portuguese): one <= i = 0..1 ;  pt-PT: one <= i = 1 and v = 0 — the one language whose
   REGION selects a different rule set, so negotiation must keep the region of the bundle's first locale *)
Definition pt_cardinal (po : operands) : pcat :=
  if in_range 0 1 (op_i po) then ONE else OTHER.
Definition ptPT_cardinal (po : operands) : pcat :=
  if N.eqb (op_i po) 1 && N.eqb (op_v po) 0 then ONE else OTHER.

(* nn, eo, lb (and many more): one <- n = 1.  These languages have cardinal but NO ordinal rules in the CLDR 37 tables:
   PluralRules::construct negotiates the ordinal request against the ordinal list and falls back to the default, en *)
Definition n1_cardinal (po : operands) : pcat := if n_is po 1 then ONE else OTHER.

Definition other_only (po : operands) : pcat := OTHER.

(* language subtag = the bytes before the first '-' *)
Fixpoint language_subtag (loc : bytes) : bytes :=
  match loc with
  | [] => []
  | 45 :: _ => []
  | b :: r => b :: language_subtag r
  end.

Definition rules_for_locale (first_locale : bytes) (ty : ntype) : operands -> pcat :=
  let l := language_subtag first_locale in
  match ty with
  | Cardinal =>
      if str_is "pt-PT" first_locale then ptPT_cardinal
      else if str_is "pt" l then pt_cardinal
      else if str_is "pl" l then pl_cardinal
      else if str_is "ru" l then ru_cardinal
      else if str_is "fr" l then fr_cardinal
      else if str_is "ar" l then ar_cardinal
      else if str_is "lt" l then lt_cardinal
      else if str_is "cs" l then cs_cardinal
      else if str_is "ja" l then other_only
      else if str_is "nn" l || str_is "eo" l || str_is "lb" l then n1_cardinal
      else en_cardinal
  | Ordinal =>
      if str_is "pt" l then other_only
      else if str_is "pl" l then other_only
      else if str_is "ru" l then other_only
      else if str_is "fr" l then fr_ordinal
      else if str_is "ar" l then other_only
      else if str_is "lt" l then other_only
      else if str_is "cs" l then other_only
      else if str_is "ja" l then other_only
      else en_ordinal
  end.

(* Bundle/ResolverSpecLimit.v — BUDGETED specification of Fluent resolution (property C07, limit runs).

   Bundle/ResolverSpec.v (`Eval`) describes the runs that stay below the placeable limit.  This file
   gives the same big-step rules with the two pieces of state the Rust resolver threads through a
   format call (resolver/scope.rs `Scope::placeables`, `Scope::dirty`) made explicit:

       state = (n, dirty)      n     = placeables counted so far           (Scope::placeables)
                               dirty = the limit has been exceeded         (Scope::dirty)

       specb_pattern  T env pattern    st (text, errors, calls) st'
       specb_elements T env elements   st (text, errors, calls) st'     the `for elem in &self.elements` loop
       specb_tracked  T env expression st (text, errors, calls) st'     one counted placeable (Scope::maybe_track)
       specb_expr / specb_inline / specb_expand / specb_value / specb_args / specb_values
                                                                          the rules of ResolverSpec.v, state threaded

   Every rule of ResolverSpec.v is here verbatim, with the state passed left to right through its
   premises (a rule without premises leaves it as it is).  The rules that are NEW are exactly four:

     BL_limit    resolver/pattern.rs 43-48   `scope.placeables += 1; if scope.placeables > MAX_PLACEABLES
                                              { scope.dirty = true; scope.add_error(TooManyPlaceables); return Ok(()) }`
                 the counter is incremented FIRST; the placeable that exceeds the limit writes nothing
                 itself, reports TooManyPlaceables — the only rule that reports it — sets dirty, and the
                 rest of the pattern is not looked at.
     BL_stopped  resolver/pattern.rs 30-32   `if scope.dirty { return Ok(()); }`
                 while dirty, a pattern writes nothing, counts nothing and reports nothing.
     BT_cut      resolver/scope.rs 72-75     `if self.dirty { w.write_char('{')?; exp.write_error(w)?; w.write_char('}') }`
                 a placeable during whose evaluation the limit tripped (or that is evaluated while dirty)
                 is followed by its source in braces — every enclosing placeable appends its own.
     BL_placeable carries the side condition that the incremented counter is within the limit
                 (pattern.rs 43-44) and goes through specb_tracked (pattern.rs 65).

   While dirty everything that is not a pattern keeps its ordinary rule (pattern.rs/scope.rs have no other
   test of `dirty`): arguments and selectors are still evaluated, functions are still called with what
   was written so far, unknown references, cycles and a missing default are still reported.

   Relational, no fuel; the counter is a natural number (N): the u8 of the Rust code never wraps below
   MAX_PLACEABLES + 1 < 2^8 (ResolverTotal.v max_placeables_fits), which is as far as it gets.
   Bundle/ResolverRefineLimit.v proves that the model produces exactly this for EVERY run, that it
   coincides with ResolverSpec.v when the limit is not reached, that it is a function, and the error
   accounting of limit runs. *)
From FluentV Require Import Base.Bytes Base.Outcome Syntax.Ast Bundle.Args Bundle.ArgsProofs Bundle.Number
  Bundle.ResolverAst Bundle.ResolverModel Bundle.ResolverSpec Gen.Extracted.

Local Open Scope N_scope.

(* (placeables counted, dirty) *)
Definition bstate : Type := N * bool.

(* what `write_error` prints for an expression that was cut short (inline_expression.rs / expression.rs
   write_error): a reference as it is written in the source, a literal as its raw text, a nested
   placeable as what it contains, a select expression as its selector *)
Fixpoint written_inline (i : inline) : bytes :=
  match i with
  | StringLiteral raw => raw
  | NumberLiteral raw => raw
  | Placeable e => written_expr e
  | MessageReference _ _ | TermReference _ _ _ | FunctionReference _ _ | VariableReference _ => source_form i
  end
with written_expr (e : expression) : bytes :=
  match e with
  | Inline i => written_inline i
  | Select selector _ => written_inline selector
  end.

(* `{` source `}` appended after a cut placeable *)
Definition cut_mark (e : expression) : res := just ([123] ++ written_expr e ++ [125]).

Section SpecLimit.
Variable call_function : bytes -> list fvalue -> fargs -> fvalue.    (* the registered functions, by name *)
Variable transform : option (bytes -> bytes).                        (* the bundle's text transform *)
Variable formatter : option (fvalue -> option bytes).                (* the bundle's value formatter *)
Variable rules : ntype -> operands -> pcat.                          (* plural rules of the bundle's locale *)
Variable custom_as_string : bytes -> bytes.                          (* printing of custom types *)
Variable unescape : bytes -> bytes.                                  (* string-literal escapes (C13) *)
Variable f64_from_str : bytes -> option fval.                        (* number-literal parsing (C12) *)
Variable entries : list (bytes * bentry).                            (* the bundle: id -> message | term | function *)
Variable args : option fargs.                                        (* the caller's arguments *)

Notation transformed := (transformed transform).
Notation print := (print formatter custom_as_string).
Notation message_target := (message_target entries).
Notation term_target := (term_target entries).
Notation function_named := (function_named entries).
Notation apply_function := (apply_function call_function).
Notation variable := (variable args).
Notation chosen := (chosen rules f64_from_str).

Inductive specb_pattern : list pname -> option fargs -> pattern -> bstate -> res -> bstate -> Prop :=
| BP_elements T env els st r st' :
    specb_elements T env els st r st' ->
    specb_pattern T env (Pattern els) st r st'

(* pattern.rs 29-72, Pattern::write *)
with specb_elements : list pname -> option fargs -> list pattern_element -> bstate -> res -> bstate -> Prop :=
| BL_end T env st :                                             (* pattern.rs 72: the loop is over *)
    specb_elements T env [] st (just []) st
| BL_stopped T env elem rest n :                                (* pattern.rs 30-32: `if scope.dirty { return Ok(()) }` *)
    specb_elements T env (elem :: rest) (n, true) (just []) (n, true)
| BL_text T env s rest n r st' :                                (* pattern.rs 35-41; text does not count *)
    specb_elements T env rest (n, false) r st' ->
    specb_elements T env (TextElement s :: rest) (n, false) (just (transformed s) +++ r) st'
| BL_limit T env e rest n :                                     (* pattern.rs 43-48: the limit is exceeded HERE; reported once,
                                                                   nothing written, the rest of the pattern skipped *)
    MAX_PLACEABLES < n + 1 ->
    specb_elements T env (PlaceableElement e :: rest) (n, false) (fails [] TooManyPlaceables) (n + 1, true)
| BL_placeable T env e rest n r1 st1 r2 st2 :                   (* pattern.rs 43-44, 65: counted, then resolved, then the rest *)
    n + 1 <= MAX_PLACEABLES ->
    specb_tracked T env e (n + 1, false) r1 st1 ->
    specb_elements T env rest st1 r2 st2 ->
    specb_elements T env (PlaceableElement e :: rest) (n, false) (r1 +++ r2) st2

(* scope.rs 68-78, Scope::maybe_track *)
with specb_tracked : list pname -> option fargs -> expression -> bstate -> res -> bstate -> Prop :=
| BT_whole T env e st r n' :                                    (* scope.rs 76-77: not dirty afterwards: nothing added *)
    specb_expr T env e st r (n', false) ->
    specb_tracked T env e st r (n', false)
| BT_cut T env e st r n' :                                      (* scope.rs 72-75: dirty afterwards: {source} is appended *)
    specb_expr T env e st r (n', true) ->
    specb_tracked T env e st (r +++ cut_mark e) (n', true)

(* expression.rs Expression::write — ResolverSpec.v X_* *)
with specb_expr : list pname -> option fargs -> expression -> bstate -> res -> bstate -> Prop :=
| BX_inline T env i st r st' :
    specb_inline T env i st r st' ->
    specb_expr T env (Inline i) st r st'
| BX_select T env sel variants v es cs q st st1 r st2 :         (* the variant is a pattern: it is cut like any other *)
    specb_value T env sel st (v, es, cs) st1 -> chosen variants v = Some q ->
    specb_pattern T env q st1 r st2 ->
    specb_expr T env (Select sel variants) st (silent es cs +++ r) st2
| BX_select_no_default T env sel variants v es cs st st1 :
    specb_value T env sel st (v, es, cs) st1 -> chosen variants v = None ->
    specb_expr T env (Select sel variants) st (silent es cs +++ fails [] MissingDefault) st1

(* inline_expression.rs InlineExpression::write — ResolverSpec.v I_* *)
with specb_inline : list pname -> option fargs -> inline -> bstate -> res -> bstate -> Prop :=
| BI_string T env s st :
    specb_inline T env (StringLiteral s) st (just (unescape s)) st
| BI_number T env s st :
    specb_inline T env (NumberLiteral s) st (just (print (try_number f64_from_str s))) st
| BI_variable T env id v st :
    variable env id = Some v ->
    specb_inline T env (VariableReference id) st (just (print v)) st
| BI_variable_missing T env id st :
    variable env id = None ->
    specb_inline T env (VariableReference id) st
      (in_braces (VariableReference id), missing_variable_errors env id, []) st
| BI_message T env id attr st r st' :
    specb_expand T env (MessageReference id attr) (message_target id attr) st r st' ->
    specb_inline T env (MessageReference id attr) st r st'
| BI_term T env id attr cargs pos named es cs st st1 r st2 :
    specb_args T env cargs st (pos, named, es, cs) st1 ->
    specb_expand T (Some named) (TermReference id attr cargs) (term_target id attr) st1 r st2 ->
    specb_inline T env (TermReference id attr cargs) st (silent es cs +++ r) st2
| BI_function T env id cargs pos named es cs f v st st1 :       (* called with whatever its arguments came to, also while dirty *)
    specb_args T env (Some cargs) st (pos, named, es, cs) st1 -> function_named id = Some f ->
    v = apply_function f pos named ->
    specb_inline T env (FunctionReference id cargs) st
      (match v with
       | VError => source_form (FunctionReference id cargs)
       | _ => print v
       end, es, cs ++ [Call id pos named]) st1
| BI_function_unknown T env id cargs pos named es cs st st1 :
    specb_args T env (Some cargs) st (pos, named, es, cs) st1 -> function_named id = None ->
    specb_inline T env (FunctionReference id cargs) st
      (in_braces (FunctionReference id cargs), es ++ [reference_error (FunctionReference id cargs)], cs) st1
| BI_placeable T env e st r st' :                               (* a nested placeable is NOT counted (only pattern elements are) *)
    specb_expr T env e st r st' ->
    specb_inline T env (Placeable e) st r st'

(* scope.rs 81-103 Scope::track, 105-117 write_ref_error — ResolverSpec.v R_* *)
with specb_expand : list pname -> option fargs -> inline -> target -> bstate -> res -> bstate -> Prop :=
| BR_found T env r n q st out st' :                             (* the counter goes on counting inside the referenced pattern *)
    being_expanded n T = false ->
    specb_pattern (n :: T) env q st out st' ->
    specb_expand T env r (Found n q) st out st'
| BR_cyclic T env r n q st :
    being_expanded n T = true ->
    specb_expand T env r (Found n q) st (fails (in_braces r) Cyclic) st
| BR_unknown T env r st :
    specb_expand T env r Unknown st (fails (in_braces r) (reference_error r)) st
| BR_valueless T env r id st :
    specb_expand T env r (Valueless id) st (fails (in_braces r) (NoValue id)) st

(* inline_expression.rs InlineExpression::resolve — ResolverSpec.v V_* *)
with specb_value : list pname -> option fargs -> inline -> bstate -> vres -> bstate -> Prop :=
| BV_string T env s st :
    specb_value T env (StringLiteral s) st (VString (unescape s), [], []) st
| BV_number T env s st :
    specb_value T env (NumberLiteral s) st (try_number f64_from_str s, [], []) st
| BV_variable T env id v st :
    variable env id = Some v ->
    specb_value T env (VariableReference id) st (v, [], []) st
| BV_variable_missing T env id st :
    variable env id = None ->
    specb_value T env (VariableReference id) st (VError, missing_variable_errors env id, []) st
| BV_function T env id cargs pos named es cs f st st1 :
    specb_args T env (Some cargs) st (pos, named, es, cs) st1 -> function_named id = Some f ->
    specb_value T env (FunctionReference id cargs) st (apply_function f pos named, es, cs ++ [Call id pos named]) st1
| BV_function_unknown T env id cargs pos named es cs st st1 :
    specb_args T env (Some cargs) st (pos, named, es, cs) st1 -> function_named id = None ->
    specb_value T env (FunctionReference id cargs) st
      (VError, es ++ [reference_error (FunctionReference id cargs)], cs) st1
| BV_textual T env i t es cs st st' :                           (* the value is the text written, cut or not *)
    textual i = true -> specb_inline T env i st (t, es, cs) st' ->
    specb_value T env i st (VString t, es, cs) st'

(* scope.rs 119-139 Scope::get_arguments — ResolverSpec.v A_* *)
with specb_args : list pname -> option fargs -> option call_args -> bstate
                  -> list fvalue * fargs * list resolver_error * list call_record -> bstate -> Prop :=
| BA_none T env st :
    specb_args T env None st ([], collect [], [], []) st
| BA_some T env positional named vp e1 c1 vn e2 c2 st st1 st2 :
    specb_values T env positional st (vp, e1, c1) st1 ->
    specb_values T env (map named_value named) st1 (vn, e2, c2) st2 ->
    specb_args T env (Some (CallArguments positional named)) st
      (vp, collect (combine (map named_name named) vn), e1 ++ e2, c1 ++ c2) st2

with specb_values : list pname -> option fargs -> list inline -> bstate
                    -> list fvalue * list resolver_error * list call_record -> bstate -> Prop :=
| BS_nil T env st :
    specb_values T env [] st ([], [], []) st
| BS_cons T env i rest v e1 c1 vs e2 c2 st st1 st2 :
    specb_value T env i st (v, e1, c1) st1 -> specb_values T env rest st1 (vs, e2, c2) st2 ->
    specb_values T env (i :: rest) st (v :: vs, e1 ++ e2, c1 ++ c2) st2.

(* Formatting the pattern named n with a fresh scope (scope.rs Scope::new: placeables = 0, dirty = false):
   the result, the number of placeables counted and whether the limit was exceeded. *)
Definition Specb (n : pname) (r : res) (count : N) (dirty : bool) : Prop :=
  exists q, pattern_named entries n = Some q /\ specb_pattern [n] None q (0, false) r (count, dirty).

End SpecLimit.

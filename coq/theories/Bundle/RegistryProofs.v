(* Bundle/RegistryProofs.v — the bundle registry refines a keyed map (property C10). *)
From FluentV Require Import Base.Bytes Base.BytesFacts Base.Outcome Syntax.Ast Bundle.Registry.
From Coq Require Import Lia.

(* ---------------- association lists ---------------- *)
Lemma bytes_eqb_refl k : bytes_eqb k k = true.
Proof. apply bytes_eqb_eq. reflexivity. Qed.

Lemma bytes_eqb_neq a b : a <> b -> bytes_eqb a b = false.
Proof. intros H. destruct (bytes_eqb a b) eqn:E; [apply bytes_eqb_eq in E; contradiction | reflexivity]. Qed.

Lemma bytes_eqb_sym a b : bytes_eqb a b = bytes_eqb b a.
Proof.
  destruct (bytes_eqb a b) eqn:E.
  - apply bytes_eqb_eq in E. subst. symmetry. apply bytes_eqb_refl.
  - destruct (bytes_eqb b a) eqn:E2; [|reflexivity]. apply bytes_eqb_eq in E2. subst.
    rewrite bytes_eqb_refl in E. discriminate.
Qed.

Section Assoc.
Context {V : Type}.
Implicit Types m : list (bytes * V).

Lemma afind_ainsert_same m k v : afind (ainsert m k v) k = Some v.
Proof.
  induction m as [|[k' v'] m IH]; cbn.
  - rewrite bytes_eqb_refl. reflexivity.
  - destruct (bytes_eqb k' k) eqn:E; cbn.
    + rewrite bytes_eqb_refl. reflexivity.
    + rewrite E. exact IH.
Qed.

Lemma afind_ainsert_other m k v k2 : k2 <> k -> afind (ainsert m k v) k2 = afind m k2.
Proof.
  intros Hne. induction m as [|[k' v'] m IH]; cbn.
  - rewrite bytes_eqb_neq by congruence. reflexivity.
  - destruct (bytes_eqb k' k) eqn:E; cbn.
    + apply bytes_eqb_eq in E. subst k'. rewrite bytes_eqb_neq by congruence. reflexivity.
    + destruct (bytes_eqb k' k2); [reflexivity | exact IH].
Qed.

Lemma ainsert_absent m k v : afind m k = None -> ainsert m k v = m ++ [(k, v)].
Proof.
  induction m as [|[k' v'] m IH]; cbn; [reflexivity|].
  destruct (bytes_eqb k' k); [discriminate|]. intros H. rewrite IH by exact H. reflexivity.
Qed.

Lemma keys_ainsert_present m k v : afind m k <> None -> map fst (ainsert m k v) = map fst m.
Proof.
  induction m as [|[k' v'] m IH]; cbn; [congruence|].
  destruct (bytes_eqb k' k) eqn:E; cbn.
  - apply bytes_eqb_eq in E. subst. reflexivity.
  - intros H. rewrite IH by exact H. reflexivity.
Qed.

Lemma afind_none_bmem m k : afind m k = None <-> bmem k (map fst m) = false.
Proof.
  induction m as [|[k' v'] m IH]; cbn; [tauto|].
  rewrite (bytes_eqb_sym k k'). destruct (bytes_eqb k' k); cbn; [split; discriminate | exact IH].
Qed.

Lemma afind_some_bmem m k : afind m k <> None <-> bmem k (map fst m) = true.
Proof.
  pose proof (afind_none_bmem m k) as H. destruct (bmem k (map fst m)); destruct (afind m k);
    split; intros; try congruence; try (destruct H as [H1 H2]; try (specialize (H1 eq_refl)); try (specialize (H2 eq_refl)); congruence).
Qed.

Lemma afind_app m1 m2 k :
  afind (m1 ++ m2) k = match afind m1 k with Some v => Some v | None => afind m2 k end.
Proof.
  induction m1 as [|[k' v'] m1 IH]; cbn; [reflexivity|].
  destruct (bytes_eqb k' k); [reflexivity | exact IH].
Qed.

Lemma afind_in m k v : afind m k = Some v -> In (k, v) m.
Proof.
  induction m as [|[k' v'] m IH]; cbn; [discriminate|].
  destruct (bytes_eqb k' k) eqn:E.
  - apply bytes_eqb_eq in E. intros [= ->]. subst. left. reflexivity.
  - intros H. right. apply IH, H.
Qed.

Lemma nodup_keys_ainsert m k v : NoDup (map fst m) -> NoDup (map fst (ainsert m k v)).
Proof.
  intros H. destruct (afind m k) eqn:E.
  - rewrite keys_ainsert_present by congruence. exact H.
  - rewrite ainsert_absent by exact E. rewrite map_app. cbn.
    apply afind_none_bmem in E.
    assert (~ In k (map fst m)) as Hn.
    { intros Hin. unfold bmem in E. assert (existsb (bytes_eqb k) (map fst m) = true) as Ht.
      { apply existsb_exists. exists k. split; [exact Hin | apply bytes_eqb_refl]. }
      congruence. }
    clear E. induction (map fst m) as [|x l IHl]; cbn.
    + constructor; [intros []|constructor].
    + inversion H as [|? ? Hx Hl]; subst. constructor.
      * rewrite in_app_iff. cbn. intros [Hi|[Hi|[]]]; [contradiction|]. subst. apply Hn. left. reflexivity.
      * apply IHl; [exact Hl|]. intros Hi. apply Hn. right. exact Hi.
Qed.
End Assoc.

Lemma afind_map {V W} (f : V -> W) (m : list (bytes * V)) k :
  afind (map (fun kv => (fst kv, f (snd kv))) m) k = option_map f (afind m k).
Proof.
  induction m as [|[k' v'] m IH]; cbn; [reflexivity|].
  destruct (bytes_eqb k' k); [reflexivity | exact IH].
Qed.

Lemma ainsert_map {V W} (f : V -> W) (m : list (bytes * V)) k v :
  map (fun kv => (fst kv, f (snd kv))) (ainsert m k v)
  = ainsert (map (fun kv => (fst kv, f (snd kv))) m) k (f v).
Proof.
  induction m as [|[k' v'] m IH]; cbn; [reflexivity|].
  destruct (bytes_eqb k' k); cbn; [reflexivity | rewrite IH; reflexivity].
Qed.

Lemma map_fst_map {V W} (f : V -> W) (m : list (bytes * V)) :
  map fst (map (fun kv => (fst kv, f (snd kv))) m) = map fst m.
Proof. rewrite map_map. apply map_ext. reflexivity. Qed.

Lemma bmem_app k l1 l2 : bmem k (l1 ++ l2) = bmem k l1 || bmem k l2.
Proof. unfold bmem. apply existsb_app. Qed.

(* ---------------- the registry ---------------- *)
Section RegistryProofs.
Variable F : Type.
Notation bundle := (bundle F).
Notation emap := (emap F).
Notation smap := (smap F).
Notation def := (def F).
Notation op := (op F).

Lemma lift_afind (s : smap) k : afind (lift F s) k = option_map Some (afind s k).
Proof. unfold lift. apply (afind_map (fun d => Some d)). Qed.

Lemma abs_in_afind rs (m : emap) k : afind (abs_in F rs m) k = option_map (deref F rs) (afind m k).
Proof. unfold abs_in. apply (afind_map (deref F rs)). Qed.

Lemma lift_ainsert (s : smap) k d : lift F (ainsert s k d) = ainsert (lift F s) k (Some d).
Proof. unfold lift. apply (ainsert_map (fun d => Some d)). Qed.

Lemma abs_in_ainsert rs (m : emap) k e :
  abs_in F rs (ainsert m k e) = ainsert (abs_in F rs m) k (deref F rs e).
Proof. unfold abs_in. apply (ainsert_map (deref F rs)). Qed.

Lemma keys_lift (s : smap) : map fst (lift F s) = map fst s.
Proof. unfold lift. apply (map_fst_map (fun d => Some d)). Qed.

Lemma keys_abs_in rs (m : emap) : map fst (abs_in F rs m) = map fst m.
Proof. unfold abs_in. apply (map_fst_map (deref F rs)). Qed.

(* agreement of domains *)
Lemma abs_lift_find rs (m : emap) (s : smap) k :
  abs_in F rs m = lift F s ->
  (afind m k = None <-> afind s k = None) /\
  (forall e, afind m k = Some e -> exists d, afind s k = Some d /\ deref F rs e = Some d).
Proof.
  intros H. pose proof (abs_in_afind rs m k) as H1. rewrite H, lift_afind in H1.
  destruct (afind m k) as [e|], (afind s k) as [d|]; cbn in H1; try discriminate; split;
    try tauto; try (split; discriminate).
  - intros e' [= <-]. exists d. split; [reflexivity|]. congruence.
  - intros e' [=].
Qed.

Lemma abs_lift_keys rs (m : emap) (s : smap) : abs_in F rs m = lift F s -> map fst m = map fst s.
Proof. intros H. rewrite <- (keys_abs_in rs m), H. apply keys_lift. Qed.

(* references stay valid when the resource list grows *)
Lemma deref_app (rs : list resource) r e d : deref F rs e = Some d -> deref F (rs ++ [r]) e = Some d.
Proof.
  destruct e as [ri ei|ri ei|f]; cbn; [| |tauto].
  all: destruct (nth_error rs ri) as [res|] eqn:E; try discriminate.
  all: rewrite nth_error_app1 by (apply nth_error_Some; congruence).
  all: rewrite E; tauto.
Qed.

Lemma abs_in_app (rs : list resource) r (m : emap) (s : smap) :
  abs_in F rs m = lift F s -> abs_in F (rs ++ [r]) m = lift F s.
Proof.
  revert s. induction m as [|[k e] m IH]; intros [|[k' d] s]; cbn; try discriminate; [reflexivity|].
  intros [= -> Hd Hm]. rewrite (deref_app _ r _ _ Hd). f_equal. apply IH, Hm.
Qed.

Lemma nth_error_mid {X} (pre : list X) x post : nth_error (pre ++ x :: post) (length pre) = Some x.
Proof. rewrite nth_error_app2 by lia. rewrite Nat.sub_diag. reflexivity. Qed.

Lemma keyed_def (rs : list resource) pre e post :
  match keyed F (length rs) (length pre) e, def_of F e with
  | Some (id, entry), Some (id', d) =>
      id = id' /\ deref F (rs ++ [(pre ++ e :: post : resource)]) entry = Some d /\
      match entry with
      | EMessage _ _ => def_kind F d = KMessage
      | ETerm _ _ => def_kind F d = KTerm
      | EFunction _ => False
      end
  | None, None => True
  | _, _ => False
  end.
Proof.
  destruct e; cbn; try exact Logic.I;
    (split; [reflexivity|]; split; [|reflexivity]);
    rewrite nth_error_mid; rewrite nth_error_mid; reflexivity.
Qed.

(* add_resource: the loop, from entry position |pre| of resource r = pre ++ es *)
Lemma add_loop_refines (rs : list resource) (r : resource) : forall es pre (m : emap) (s : smap),
  r = pre ++ es ->
  abs_in F (rs ++ [r]) m = lift F s ->
  exists m',
    add_resource_loop F (length rs) (length pre) es m = Done (m', dup_errors F (map fst m) es) /\
    abs_in F (rs ++ [r]) m' = lift F (fold_left (sinsert_new F) (defs_of F es) s).
Proof.
  induction es as [|e es IH]; intros pre m s Hr Habs.
  - exists m. split; [reflexivity | exact Habs].
  - assert (r = (pre ++ [e]) ++ es) as Hr' by (rewrite <- app_assoc; exact Hr).
    assert (length (pre ++ [e]) = S (length pre)) as Hlen by (rewrite app_length; cbn; lia).
    pose proof (keyed_def rs pre e es) as Hk. rewrite <- Hr in Hk.
    cbn [add_resource_loop dup_errors defs_of].
    destruct (keyed F (length rs) (length pre) e) as [[id entry]|], (def_of F e) as [[id' d]|];
      try contradiction.
    + destruct Hk as (<- & Hderef & Hkind).
      destruct (abs_lift_find _ _ _ id Habs) as [Hnone Hsome].
      destruct (afind m id) as [e0|] eqn:Em.
      * (* Occupied *)
        destruct (Hsome e0 eq_refl) as (d0 & Hs & _).
        assert (bmem id (map fst m) = true) as Hb by (apply afind_some_bmem; congruence).
        rewrite Hb. cbn [fold_left]. unfold sinsert_new at 2. cbn [fst snd]. rewrite Hs.
        destruct (IH (pre ++ [e]) m s Hr' Habs) as (m' & Hloop & Habs').
        rewrite Hlen in Hloop.
        exists m'. split; [|exact Habs'].
        destruct entry; try contradiction; rewrite Hloop; cbn; rewrite Hkind; reflexivity.
      * (* Vacant *)
        assert (afind s id = None) as Hs by (apply Hnone; reflexivity).
        assert (bmem id (map fst m) = false) as Hb by (apply afind_none_bmem; exact Em).
        rewrite Hb. cbn [fold_left]. unfold sinsert_new at 2. cbn [fst snd]. rewrite Hs.
        assert (abs_in F (rs ++ [r]) (ainsert m id entry) = lift F (ainsert s id d)) as Habs2.
        { rewrite abs_in_ainsert, lift_ainsert, Habs, Hderef. reflexivity. }
        destruct (IH (pre ++ [e]) (ainsert m id entry) (ainsert s id d) Hr' Habs2) as (m' & Hloop & Habs').
        rewrite Hlen in Hloop. rewrite (ainsert_absent m id entry Em), map_app in Hloop. cbn in Hloop.
        exists m'. split; [|exact Habs'].
        rewrite (ainsert_absent m id entry Em). exact Hloop.
    + destruct (IH (pre ++ [e]) m s Hr' Habs) as (m' & Hloop & Habs').
      rewrite Hlen in Hloop. exists m'. split; assumption.
Qed.

Lemma addo_loop_refines (rs : list resource) (r : resource) : forall es pre (m : emap) (s : smap),
  r = pre ++ es ->
  abs_in F (rs ++ [r]) m = lift F s ->
  abs_in F (rs ++ [r]) (add_resource_overriding_loop F (length rs) (length pre) es m)
  = lift F (fold_left (sinsert F) (defs_of F es) s).
Proof.
  induction es as [|e es IH]; intros pre m s Hr Habs; [exact Habs|].
  assert (r = (pre ++ [e]) ++ es) as Hr' by (rewrite <- app_assoc; exact Hr).
  assert (length (pre ++ [e]) = S (length pre)) as Hlen by (rewrite app_length; cbn; lia).
  pose proof (keyed_def rs pre e es) as Hk. rewrite <- Hr in Hk.
  cbn [add_resource_overriding_loop defs_of].
  destruct (keyed F (length rs) (length pre) e) as [[id entry]|], (def_of F e) as [[id' d]|];
    try contradiction.
  - destruct Hk as (<- & Hderef & _). cbn [fold_left]. unfold sinsert at 2. cbn [fst snd].
    rewrite <- Hlen. apply IH; [exact Hr'|].
    rewrite abs_in_ainsert, lift_ainsert, Habs, Hderef. reflexivity.
  - rewrite <- Hlen. apply IH; assumption.
Qed.

Lemma add_resource_refines (b : bundle) (s : smap) r :
  abs F b = lift F s ->
  exists b',
    add_resource F b r = Done (b', result_of (dup_errors F (map fst (entries F b)) r)) /\
    resources F b' = resources F b ++ [r] /\
    abs F b' = lift F (spec_step F s (AddResource r)).
Proof.
  intros Habs. unfold abs in Habs.
  destruct (add_loop_refines (resources F b) r r [] (entries F b) s eq_refl
              (abs_in_app _ r _ _ Habs)) as (m' & Hloop & Habs').
  cbn [length] in Hloop.
  exists (Bundle F (resources F b ++ [r]) m'). split; [|split; [reflexivity | exact Habs']].
  unfold add_resource. cbv zeta. rewrite Hloop. cbn. unfold result_of.
  destruct (dup_errors F (map fst (entries F b)) r); reflexivity.
Qed.

Lemma add_resource_overriding_refines (b : bundle) (s : smap) r :
  abs F b = lift F s ->
  abs F (add_resource_overriding F b r) = lift F (spec_step F s (AddResourceOverriding r)).
Proof.
  intros Habs. unfold abs in *. cbn.
  apply (addo_loop_refines (resources F b) r r [] (entries F b) s eq_refl).
  apply abs_in_app, Habs.
Qed.

Lemma add_function_refines (b : bundle) (s : smap) id f :
  abs F b = lift F s ->
  abs F (fst (add_function F b id f)) = lift F (spec_step F s (AddFunction id f)) /\
  snd (add_function F b id f) =
    (match afind s id with None => Ok tt | Some _ => Err (Overriding KFunction id) end) /\
  (afind s id <> None -> fst (add_function F b id f) = b).
Proof.
  intros Habs. unfold abs in *. unfold add_function. cbn [spec_step]. unfold sinsert_new. cbn [fst snd].
  destruct (abs_lift_find _ _ _ id Habs) as [Hnone Hsome].
  destruct (afind (entries F b) id) as [e0|] eqn:Em.
  - destruct (Hsome e0 eq_refl) as (d0 & Hs & _). rewrite Hs. cbn. split; [exact Habs | split; reflexivity].
  - rewrite (proj1 Hnone eq_refl). cbn [fst snd resources entries]. split; [|split; [reflexivity | congruence]].
    rewrite abs_in_ainsert, lift_ainsert, Habs. reflexivity.
Qed.

Lemma step_refines (b : bundle) (s : smap) o :
  abs F b = lift F s ->
  exists b' res, step F b o = Done (b', res) /\ abs F b' = lift F (spec_step F s o).
Proof.
  intros Habs. destruct o as [r|r|id f]; cbn [step].
  - destruct (add_resource_refines b s r Habs) as (b' & H1 & _ & H2). rewrite H1. cbn. eauto.
  - eexists _, _. split; [reflexivity|]. apply add_resource_overriding_refines, Habs.
  - destruct (add_function_refines b s id f Habs) as (H1 & _).
    destruct (add_function F b id f) as [b' res]. eexists _, _. split; [reflexivity | exact H1].
Qed.

Lemma run_from_refines ops : forall (b : bundle) (s : smap),
  abs F b = lift F s ->
  exists b', run_from F b ops = Done b' /\ abs F b' = lift F (fold_left (spec_step F) ops s).
Proof.
  induction ops as [|o ops IH]; intros b s Habs; cbn.
  - eauto.
  - destruct (step_refines b s o Habs) as (b1 & res & Hstep & Habs1). rewrite Hstep. cbn.
    apply IH, Habs1.
Qed.

Theorem run_total ops : exists b, run F ops = Done b.
Proof. destruct (run_from_refines ops (new F) [] eq_refl) as (b & H & _). eauto. Qed.

Theorem run_refines ops b : run F ops = Done b -> abs F b = lift F (spec F ops).
Proof.
  intros H. destruct (run_from_refines ops (new F) [] eq_refl) as (b' & H1 & H2).
  unfold run in H. rewrite H in H1. injection H1 as <-. exact H2.
Qed.

Lemma run_from_app ops1 ops2 (b b1 : bundle) :
  run_from F b ops1 = Done b1 -> run_from F b (ops1 ++ ops2) = run_from F b1 ops2.
Proof.
  revert b. induction ops1 as [|o ops1 IH]; intros b; cbn.
  - intros [= ->]. reflexivity.
  - destruct (step F b o) as [[b' res]| |]; cbn; try discriminate. apply IH.
Qed.

Lemma spec_app ops o : spec F (ops ++ [o]) = spec_step F (spec F ops) o.
Proof. unfold spec. rewrite fold_left_app. reflexivity. Qed.

(* ---------------- the spec map ---------------- *)
Definition key_ok (id : bytes) (d : def) : Prop :=
  match d with
  | DMessage m => msg_id m = id
  | DTerm t => term_id t = id
  | DFunction _ => True
  end.

Lemma defs_of_key_ok r : forall kd, In kd (defs_of F r) -> key_ok (fst kd) (snd kd).
Proof.
  induction r as [|e r IH]; cbn; [intros ? []|].
  destruct e; cbn; try exact IH; intros kd [<-|H]; try (apply IH, H); reflexivity.
Qed.

Definition smap_ok (s : smap) : Prop :=
  NoDup (map fst s) /\ forall id d, afind s id = Some d -> key_ok id d.

Lemma smap_ok_ainsert s id d : smap_ok s -> key_ok id d -> smap_ok (ainsert s id d).
Proof.
  intros [Hnd Hk] Hd. split; [apply nodup_keys_ainsert, Hnd|].
  intros id2 d2. destruct (bytes_eq_dec id2 id) as [->|Hne].
  - rewrite afind_ainsert_same. intros [= <-]. exact Hd.
  - rewrite afind_ainsert_other by exact Hne. apply Hk.
Qed.

Lemma smap_ok_sinsert_new s kd : smap_ok s -> key_ok (fst kd) (snd kd) -> smap_ok (sinsert_new F s kd).
Proof. intros Hs Hd. unfold sinsert_new. destruct (afind s (fst kd)); [exact Hs | apply smap_ok_ainsert; assumption]. Qed.

Lemma smap_ok_fold (f : smap -> bytes * def -> smap) l :
  (forall s kd, smap_ok s -> key_ok (fst kd) (snd kd) -> smap_ok (f s kd)) ->
  forall s, (forall kd, In kd l -> key_ok (fst kd) (snd kd)) -> smap_ok s -> smap_ok (fold_left f l s).
Proof.
  intros Hf. induction l as [|kd l IH]; intros s Hl Hs; cbn; [exact Hs|].
  apply IH; [intros; apply Hl; right; assumption|]. apply Hf; [exact Hs | apply Hl; left; reflexivity].
Qed.

Lemma smap_ok_step s o : smap_ok s -> smap_ok (spec_step F s o).
Proof.
  intros Hs. destruct o as [r|r|id f]; cbn.
  - apply smap_ok_fold; [apply smap_ok_sinsert_new | apply defs_of_key_ok | exact Hs].
  - apply smap_ok_fold; [|apply defs_of_key_ok | exact Hs].
    intros s' kd H1 H2. apply smap_ok_ainsert; assumption.
  - apply smap_ok_sinsert_new; [exact Hs | exact Logic.I].
Qed.

Lemma spec_ok ops : smap_ok (spec F ops).
Proof.
  unfold spec. assert (smap_ok ([] : smap)) as H0 by (split; [constructor | intros ? ? [=]]).
  revert H0. generalize ([] : smap). induction ops as [|o ops IH]; intros s Hs; cbn; [exact Hs|].
  apply IH, smap_ok_step, Hs.
Qed.

(* first definition wins *)
Lemma fold_sinsert_new_find l : forall (s : smap) id,
  afind (fold_left (sinsert_new F) l s) id =
  match afind s id with Some d => Some d | None => afind l id end.
Proof.
  induction l as [|[k d] l IH]; intros s id; cbn [fold_left afind].
  - destruct (afind s id); reflexivity.
  - rewrite IH. unfold sinsert_new. cbn [fst snd].
    destruct (bytes_eqb k id) eqn:E.
    + apply bytes_eqb_eq in E. subst k. destruct (afind s id) eqn:Es; [rewrite Es; reflexivity|].
      rewrite afind_ainsert_same. reflexivity.
    + assert (id <> k) as Hne by (intros ->; rewrite bytes_eqb_refl in E; discriminate).
      destruct (afind s k); [reflexivity|]. rewrite afind_ainsert_other by exact Hne. reflexivity.
Qed.

(* last definition wins *)
Lemma fold_sinsert_find l : forall (s : smap) id,
  afind (fold_left (sinsert F) l s) id =
  match afind (rev l) id with Some d => Some d | None => afind s id end.
Proof.
  induction l as [|[k d] l IH]; intros s id; cbn [fold_left rev]; [reflexivity|].
  rewrite IH, afind_app. destruct (afind (rev l) id); [reflexivity|]. cbn [afind].
  unfold sinsert. cbn [fst snd]. destruct (bytes_eqb k id) eqn:E.
  - apply bytes_eqb_eq in E. subst. apply afind_ainsert_same.
  - apply afind_ainsert_other. intros ->. rewrite bytes_eqb_refl in E. discriminate.
Qed.

(* ---------------- lookups ---------------- *)
Definition lookup (b : bundle) (id : bytes) : option def :=
  match afind (entries F b) id with Some e => deref F (resources F b) e | None => None end.

Lemma get_entry_message_lookup (b : bundle) id :
  get_entry_message F b id = match lookup b id with Some (DMessage m) => Some m | _ => None end.
Proof.
  unfold get_entry_message, lookup, get_entry. destruct (afind (entries F b) id) as [[ri ei|ri ei|f]|]; cbn; try reflexivity.
  - destruct (nth_error (resources F b) ri) as [res|]; [|reflexivity].
    destruct (nth_error res ei) as [[]|]; reflexivity.
  - destruct (nth_error (resources F b) ri) as [res|]; [|reflexivity].
    destruct (nth_error res ei) as [[]|]; reflexivity.
Qed.

Lemma get_entry_term_lookup (b : bundle) id :
  get_entry_term F b id = match lookup b id with Some (DTerm t) => Some t | _ => None end.
Proof.
  unfold get_entry_term, lookup, get_entry. destruct (afind (entries F b) id) as [[ri ei|ri ei|f]|]; cbn; try reflexivity.
  - destruct (nth_error (resources F b) ri) as [res|]; [|reflexivity].
    destruct (nth_error res ei) as [[]|]; reflexivity.
  - destruct (nth_error (resources F b) ri) as [res|]; [|reflexivity].
    destruct (nth_error res ei) as [[]|]; reflexivity.
Qed.

Lemma get_entry_function_lookup (b : bundle) id :
  get_entry_function F b id = match lookup b id with Some (DFunction f) => Some f | _ => None end.
Proof.
  unfold get_entry_function, lookup. destruct (afind (entries F b) id) as [[ri ei|ri ei|f]|]; cbn; try reflexivity.
  - destruct (nth_error (resources F b) ri) as [res|]; [|reflexivity].
    destruct (nth_error res ei) as [[]|]; reflexivity.
  - destruct (nth_error (resources F b) ri) as [res|]; [|reflexivity].
    destruct (nth_error res ei) as [[]|]; reflexivity.
Qed.

Lemma lookup_abs (b : bundle) (s : smap) id : abs F b = lift F s -> lookup b id = afind s id.
Proof.
  intros Habs. unfold lookup. destruct (abs_lift_find _ _ _ id Habs) as [Hnone Hsome].
  destruct (afind (entries F b) id) as [e|].
  - destruct (Hsome e eq_refl) as (d & Hs & Hd). congruence.
  - symmetry. apply Hnone. reflexivity.
Qed.

Theorem lookup_run ops b id : run F ops = Done b -> lookup b id = afind (spec F ops) id.
Proof. intros H. apply lookup_abs, run_refines, H. Qed.

(* ---------------- invariant ---------------- *)
Definition ref_ok (rs : list resource) (id : bytes) (e : entry_ref F) : Prop :=
  match e with
  | EMessage ri ei => exists res v a c, nth_error rs ri = Some res /\ nth_error res ei = Some (Message id v a c)
  | ETerm ri ei => exists res v a c, nth_error rs ri = Some res /\ nth_error res ei = Some (Term id v a c)
  | EFunction _ => True
  end.

Definition inv (b : bundle) : Prop :=
  NoDup (map fst (entries F b)) /\
  forall id e, afind (entries F b) id = Some e -> ref_ok (resources F b) id e.

Lemma inv_of_abs (b : bundle) (s : smap) : abs F b = lift F s -> smap_ok s -> inv b.
Proof.
  intros Habs [Hnd Hk]. split.
  - rewrite (abs_lift_keys _ _ _ Habs). exact Hnd.
  - intros id e He. destruct (abs_lift_find _ _ _ id Habs) as [_ Hsome].
    destruct (Hsome e He) as (d & Hs & Hd). specialize (Hk id d Hs).
    destruct e as [ri ei|ri ei|f]; cbn in *; [| |exact Logic.I];
      destruct (nth_error (resources F b) ri) as [res|]; try discriminate;
      destruct (nth_error res ei) as [[]|] eqn:En; try discriminate;
      injection Hd as <-; cbn in Hk; subst; eauto 8.
Qed.

Theorem run_inv ops b : run F ops = Done b -> inv b.
Proof. intros H. eapply inv_of_abs; [apply run_refines, H | apply spec_ok]. Qed.

(* ---------------- dup_errors, declaratively ---------------- *)
Notation seen_after := (seen_after F).

Lemma dup_errors_app es1 : forall seen es2,
  dup_errors F seen (es1 ++ es2) = dup_errors F seen es1 ++ dup_errors F (seen_after seen es1) es2.
Proof.
  induction es1 as [|e es1 IH]; intros seen es2; [reflexivity|].
  unfold seen_after. cbn [app dup_errors defs_of]. destruct (def_of F e) as [[id d]|]; [|apply IH].
  cbn [fold_left fst]. destruct (bmem id seen); [cbn; f_equal|]; apply IH.
Qed.

Lemma seen_after_mem es : forall seen id,
  bmem id (seen_after seen es) = bmem id seen || bmem id (map fst (defs_of F es)).
Proof.
  induction es as [|e es IH]; intros seen id; unfold seen_after; cbn [defs_of].
  - cbn. rewrite orb_false_r. reflexivity.
  - destruct (def_of F e) as [[k d]|]; [|apply IH]. cbn [fold_left fst map].
    change (fold_left _ (defs_of F es) ?x) with (seen_after x es). rewrite IH.
    destruct (bmem k seen) eqn:Ek.
    + cbn [bmem existsb]. destruct (bytes_eqb id k) eqn:E; [|reflexivity].
      apply bytes_eqb_eq in E. subst. fold (bmem k seen). rewrite Ek. reflexivity.
    + rewrite bmem_app. cbn. rewrite orb_false_r, orb_assoc. reflexivity.
Qed.

Lemma defs_of_app es1 es2 : defs_of F (es1 ++ es2) = defs_of F es1 ++ defs_of F es2.
Proof.
  induction es1 as [|x es1 IH]; cbn; [reflexivity|].
  destruct (def_of F x); cbn; rewrite IH; reflexivity.
Qed.

Lemma seen_after_app seen es1 es2 :
  seen_after seen (es1 ++ es2) = seen_after (seen_after seen es1) es2.
Proof. unfold seen_after. rewrite defs_of_app, fold_left_app. reflexivity. Qed.

(* the entry at any position is reported iff its id is already a key or occurs earlier in
   the same resource; nothing else is reported *)
Theorem dup_errors_exact seen pre e post id d :
  def_of F e = Some (id, d) ->
  dup_errors F seen (pre ++ e :: post) =
    dup_errors F seen pre
    ++ (if bmem id seen || bmem id (map fst (defs_of F pre)) then [Overriding (def_kind F d) id] else [])
    ++ dup_errors F (seen_after seen (pre ++ [e])) post.
Proof.
  intros Hd. rewrite dup_errors_app. f_equal.
  change (e :: post) with ([e] ++ post). rewrite dup_errors_app. f_equal.
  - cbn. rewrite Hd, seen_after_mem. destruct (_ || _); reflexivity.
  - rewrite seen_after_app. reflexivity.
Qed.

Lemma dup_errors_junk seen pre e post :
  def_of F e = None -> dup_errors F seen (pre ++ e :: post) = dup_errors F seen (pre ++ post).
Proof.
  intros Hd. rewrite !dup_errors_app. f_equal. cbn. rewrite Hd. reflexivity.
Qed.

(* ---------------- property-level statements over histories ---------------- *)
Theorem inv_explicit ops b : run F ops = Done b ->
  NoDup (map fst (entries F b)) /\
  forall id e, afind (entries F b) id = Some e ->
    match e with
    | EMessage ri ei => exists res v a c,
        nth_error (resources F b) ri = Some res /\ nth_error res ei = Some (Message id v a c)
    | ETerm ri ei => exists res v a c,
        nth_error (resources F b) ri = Some res /\ nth_error res ei = Some (Term id v a c)
    | EFunction _ => True
    end.
Proof. intros H. exact (run_inv ops b H). Qed.

Theorem lookups_run ops b id : run F ops = Done b ->
  get_message F b id = match afind (spec F ops) id with Some (DMessage m) => Some m | _ => None end /\
  get_entry_term F b id = match afind (spec F ops) id with Some (DTerm t) => Some t | _ => None end /\
  get_entry_function F b id = match afind (spec F ops) id with Some (DFunction f) => Some f | _ => None end /\
  has_message F b id = match afind (spec F ops) id with Some (DMessage _) => true | _ => false end.
Proof.
  intros H. pose proof (lookup_run ops b id H) as Hl.
  unfold has_message, get_message.
  rewrite get_entry_message_lookup, get_entry_term_lookup, get_entry_function_lookup, Hl.
  repeat split. destruct (afind (spec F ops) id) as [[]|]; reflexivity.
Qed.

Theorem first_wins ops b r : run F ops = Done b ->
  exists b',
    add_resource F b r = Done (b', result_of (dup_errors F (map fst (entries F b)) r)) /\
    run F (ops ++ [AddResource r]) = Done b' /\
    map fst (entries F b) = map fst (spec F ops) /\
    forall id, afind (spec F (ops ++ [AddResource r])) id =
      match afind (spec F ops) id with Some d => Some d | None => afind (defs_of F r) id end.
Proof.
  intros H. pose proof (run_refines ops b H) as Habs.
  destruct (add_resource_refines b (spec F ops) r Habs) as (b' & Hadd & _ & _).
  exists b'. split; [exact Hadd|]. split; [|split].
  - unfold run in *. rewrite (run_from_app ops [AddResource r] _ _ H). cbn. rewrite Hadd. reflexivity.
  - apply (abs_lift_keys _ _ _ Habs).
  - intros id. rewrite spec_app. cbn. apply fold_sinsert_new_find.
Qed.

Theorem last_wins ops b r : run F ops = Done b ->
  run F (ops ++ [AddResourceOverriding r]) = Done (add_resource_overriding F b r) /\
  forall id, afind (spec F (ops ++ [AddResourceOverriding r])) id =
    match afind (rev (defs_of F r)) id with Some d => Some d | None => afind (spec F ops) id end.
Proof.
  intros H. split.
  - unfold run in *. rewrite (run_from_app ops [AddResourceOverriding r] _ _ H). reflexivity.
  - intros id. rewrite spec_app. cbn. apply fold_sinsert_find.
Qed.

Theorem function_vacant_only ops b id f : run F ops = Done b ->
  run F (ops ++ [AddFunction id f]) = Done (fst (add_function F b id f)) /\
  snd (add_function F b id f) =
    (match afind (spec F ops) id with None => Ok tt | Some _ => Err (Overriding KFunction id) end) /\
  (afind (spec F ops) id <> None -> fst (add_function F b id f) = b) /\
  forall id2, afind (spec F (ops ++ [AddFunction id f])) id2 =
    match afind (spec F ops) id2 with
    | Some d => Some d
    | None => if bytes_eqb id id2 then Some (DFunction f) else None
    end.
Proof.
  intros H. pose proof (run_refines ops b H) as Habs.
  destruct (add_function_refines b (spec F ops) id f Habs) as (_ & H2 & H3).
  split; [|split; [exact H2 | split; [exact H3|]]].
  - unfold run in *. rewrite (run_from_app ops [AddFunction id f] _ _ H). cbn.
    destruct (add_function F b id f). reflexivity.
  - intros id2. rewrite spec_app. cbn [spec_step].
    change (sinsert_new F (spec F ops) (id, DFunction f)) with (fold_left (sinsert_new F) [(id, DFunction f)] (spec F ops)).
    rewrite fold_sinsert_new_find. reflexivity.
Qed.

Theorem kind_safe ops b id m : run F ops = Done b ->
  get_message F b id = Some m ->
  afind (spec F ops) id = Some (DMessage m) /\ msg_id m = id /\
  exists res ei, In res (resources F b) /\
    nth_error res ei = Some (Message id (msg_value m) (msg_attributes m) (msg_comment m)).
Proof.
  intros H Hm. destruct (lookups_run ops b id H) as (H1 & _). rewrite H1 in Hm.
  destruct (afind (spec F ops) id) as [[m'|t|f]|] eqn:Es; try discriminate. injection Hm as ->.
  split; [reflexivity|]. destruct (spec_ok ops) as [_ Hk]. pose proof (Hk id _ Es) as Hid. cbn in Hid.
  split; [exact Hid|].
  destruct (run_inv ops b H) as [_ Hinv].
  pose proof (run_refines ops b H) as Habs.
  destruct (abs_lift_find _ _ _ id Habs) as [Hnone Hsome].
  destruct (afind (entries F b) id) as [e|] eqn:Ee.
  - destruct (Hsome e eq_refl) as (d & Hd1 & Hd2). rewrite Es in Hd1. injection Hd1 as <-.
    specialize (Hinv id e Ee).
    destruct e as [ri ei|ri ei|f]; cbn in Hd2, Hinv.
    + destruct Hinv as (res & v & a & c & Hr & He). rewrite Hr, He in Hd2. injection Hd2 as <-.
      exists res, ei. split; [eapply nth_error_In, Hr | exact He].
    + destruct (nth_error (resources F b) ri) as [res|]; [|discriminate].
      destruct (nth_error res ei) as [[]|]; discriminate.
    + discriminate.
  - rewrite (proj1 Hnone eq_refl) in Es. discriminate.
Qed.

Theorem not_message ops b id : run F ops = Done b ->
  (forall t, afind (spec F ops) id = Some (DTerm t) -> get_message F b id = None /\ has_message F b id = false) /\
  (forall f, afind (spec F ops) id = Some (DFunction f) -> get_message F b id = None /\ has_message F b id = false) /\
  (afind (spec F ops) id = None -> get_message F b id = None /\ has_message F b id = false).
Proof.
  intros H. destruct (lookups_run ops b id H) as (H1 & _ & _ & H4). rewrite H1, H4.
  repeat split; intros; try match goal with Hx : afind _ _ = _ |- _ => rewrite Hx end; reflexivity.
Qed.

End RegistryProofs.

(* ---------------- message view ---------------- *)
Lemma get_attribute_some m key a :
  get_attribute m key = Some a <->
  exists l1 l2, attributes m = l1 ++ a :: l2 /\ attr_id a = key /\ forall a', In a' l1 -> attr_id a' <> key.
Proof.
  unfold get_attribute, attributes. induction (msg_attributes m) as [|x l IH]; cbn.
  - split; [discriminate|]. intros (l1 & l2 & H & _). destruct l1; discriminate.
  - destruct (bytes_eqb (attr_id x) key) eqn:E.
    + split.
      * intros [= <-]. exists [], l. apply bytes_eqb_eq in E. repeat split; [exact E | intros ? []].
      * intros (l1 & l2 & H & Hk & Hn). destruct l1 as [|y l1]; cbn in H.
        -- congruence.
        -- injection H as <- _. apply bytes_eqb_eq in E. exfalso. apply (Hn x); [left; reflexivity | exact E].
    + rewrite IH. split.
      * intros (l1 & l2 & -> & Hk & Hn). exists (x :: l1), l2. repeat split; [exact Hk|].
        intros a' [<-|Hin]; [|apply Hn, Hin]. intros Heq. apply bytes_eqb_eq in Heq. congruence.
      * intros (l1 & l2 & H & Hk & Hn). destruct l1 as [|y l1]; cbn in H.
        -- injection H as <- _. apply bytes_eqb_eq in Hk. congruence.
        -- injection H as <- ->. exists l1, l2. repeat split; [exact Hk|]. intros a' Hin. apply Hn. right. exact Hin.
Qed.

Lemma get_attribute_none m key :
  get_attribute m key = None <-> forall a, In a (attributes m) -> attr_id a <> key.
Proof.
  unfold get_attribute, attributes. induction (msg_attributes m) as [|x l IH]; cbn.
  - split; [intros _ ? [] | reflexivity].
  - destruct (bytes_eqb (attr_id x) key) eqn:E.
    + split; [discriminate|]. intros H. apply bytes_eqb_eq in E. exfalso. apply (H x); [left; reflexivity | exact E].
    + rewrite IH. split.
      * intros H a [<-|Hin]; [|apply H, Hin]. intros Heq. apply bytes_eqb_eq in Heq. congruence.
      * intros H a Hin. apply H. right. exact Hin.
Qed.

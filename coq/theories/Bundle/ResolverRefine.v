(* Bundle/ResolverRefine.v — the resolver model REFINES the specification (property C07).

   One induction on fuel over the eight mutually recursive functions of Bundle/ResolverModel.v, for a
   bundle with isolation off (`Bundle m false`; the isolating run is brought back to this one by the
   simulation of Bundle/ResolverSim.v, at the end of this file).  For a call on scope `sc` that
   returns `Done (out, sc')`:
     * local_args and travelled are restored, dirty only goes from false to true, the memoizer
       invariant is kept;
     * errors and calls are only appended:  errors sc' = errors sc ++ es,  calls sc' = calls sc ++ cs;
     * es contains TooManyPlaceables exactly once if this call set the dirty flag, else not at all;
     * if the dirty flag is NOT set afterwards, (flatten out, es, cs) is what the specification
       (Bundle/ResolverSpec.v) assigns to the node, with env = local_args and T = the names of the pattern
       objects on `travelled` (sc_travelled sc = keys T: the model detects cycles by object identity = pkey,
       the specification by name; key_mem_spec).
   Nothing is assumed about fuel: the statements hold for every fuel at which the call returns. *)
From FluentV Require Import Base.Bytes Base.BytesFacts Base.Outcome Syntax.Ast Bundle.Args Bundle.ArgsProofs
  Bundle.Number Bundle.ResolverAst Bundle.ResolverAstProofs Bundle.ResolverModel Bundle.ResolverEqns
  Bundle.ResolverSim Bundle.ResolverIso Bundle.ResolverPure Bundle.ResolverSpec Gen.Extracted.
From Coq Require Import Lia.

Arguments N.add : simpl never.
Arguments N.sub : simpl never.
Arguments N.pow : simpl never.
Arguments N.eqb : simpl never.
Arguments N.ltb : simpl never.
Arguments N.leb : simpl never.

(* ---------- counting TooManyPlaceables ---------- *)
Definition is_tmp (e : resolver_error) : bool :=
  match e with TooManyPlaceables => true | _ => false end.
Definition tmp_count (es : list resolver_error) : nat := length (filter is_tmp es).

Lemma tmp_count_app a c : tmp_count (a ++ c) = tmp_count a + tmp_count c.
Proof. unfold tmp_count. rewrite filter_app, app_length. reflexivity. Qed.

Lemma tmp_count_in es : tmp_count es <> 0 <-> In TooManyPlaceables es.
Proof.
  unfold tmp_count. induction es as [|e r IH]; cbn; [tauto|].
  destruct e; cbn [is_tmp length]; rewrite ?IH; try (split; [intros H; right; tauto | intros [H|H]; [discriminate H | tauto]]).
  split; [intros _; left; reflexivity | intros _; discriminate].
Qed.

Lemma flatten_app a c : flatten (a ++ c) = flatten a ++ flatten c.
Proof. apply flat_map_app. Qed.

Lemma flatten_txt s : flatten [Txt s] = s.
Proof. unfold flatten. cbn [flat_map token_bytes]. apply app_nil_r. Qed.

Lemma flatten_braced s : flatten (braced s) = ([123] ++ s ++ [125])%N.
Proof. unfold flatten, braced, lbrace, rbrace. cbn [flat_map token_bytes]. rewrite app_nil_r. reflexivity. Qed.

(* what the dirty flag says about this call *)
Definition delta (sc sc' : scope) : nat :=
  if sc_dirty sc then 0 else if sc_dirty sc' then 1 else 0.

(* travelled, as the specification sees it when pattern p is written: Scope::maybe_track puts p on an
   empty stack at the first placeable *)
Definition Tof (k : option pkey) (sc : scope) : list (option pkey) :=
  match sc_travelled sc with [] => [k] | t => t end.

(* views of `travelled` before / after a call *)
Definition ViewT (sc sc' : scope) : Prop := sc_travelled sc' = sc_travelled sc.
Definition ViewP (p : option pkey) (sc sc' : scope) : Prop :=
  (sc_travelled sc <> [] -> sc_travelled sc' = sc_travelled sc) /\
  (sc_travelled sc = [] -> sc_travelled sc' = [] \/ sc_travelled sc' = [p]).

Lemma ViewT_refl sc : ViewT sc sc.
Proof. reflexivity. Qed.
Lemma ViewT_trans a c d : ViewT a c -> ViewT c d -> ViewT a d.
Proof. unfold ViewT. congruence. Qed.
Lemma ViewP_refl p sc : ViewP p sc sc.
Proof. split; auto. Qed.
Lemma ViewP_trans p a c d : ViewP p a c -> ViewP p c d -> ViewP p a d.
Proof.
  intros [A1 A2] [C1 C2]. split.
  - intros H. rewrite C1; rewrite (A1 H); auto.
  - intros H. destruct (A2 H) as [E|E].
    + destruct (C2 E); auto.
    + right. rewrite C1; rewrite E; [reflexivity | discriminate].
Qed.
Lemma ViewP_Tof p sc sc' : ViewP p sc sc' -> Tof p sc' = Tof p sc.
Proof.
  intros [A1 A2]. unfold Tof. destruct (sc_travelled sc) as [|x t] eqn:E.
  - destruct (A2 eq_refl) as [-> | ->]; reflexivity.
  - rewrite A1 by discriminate. reflexivity.
Qed.
Lemma ViewT_P p sc sc' : ViewT sc sc' -> ViewP p sc sc'.
Proof. unfold ViewT. intros H. split; intros; [assumption | left; congruence]. Qed.
Lemma ViewP_T p sc sc' : sc_travelled sc <> [] -> ViewP p sc sc' -> ViewT sc sc'.
Proof. intros H [A _]. exact (A H). Qed.
Lemma Tof_nonempty p sc : sc_travelled sc <> [] -> Tof p sc = sc_travelled sc.
Proof. unfold Tof. destruct (sc_travelled sc); [congruence | reflexivity]. Qed.

(* ---------- names of the specification <-> identities of the model ---------- *)
Definition key_of (n : pname) : pkey :=
  match n with NMessage id a => PKey false id a | NTerm id a => PKey true id a end.
Definition keys (T : list pname) : list (option pkey) := map (fun n => Some (key_of n)) T.

Lemma option_bytes_eqb_eq (x y : option bytes) : option_eqb bytes_eqb x y = true <-> x = y.
Proof.
  destruct x as [a|], y as [c|]; cbn; try (split; [discriminate | discriminate]); try tauto.
  rewrite bytes_eqb_eq. split; [intros ->; reflexivity | intros [= ->]; reflexivity].
Qed.

Lemma pname_eqb_eq a c : pname_eqb a c = true <-> a = c.
Proof.
  destruct a as [i x|i x], c as [j y|j y]; cbn; try (split; discriminate);
    rewrite Bool.andb_true_iff, bytes_eqb_eq, option_bytes_eqb_eq;
    (split; [intros [-> ->]; reflexivity | intros [= -> ->]; split; reflexivity]).
Qed.

Lemma obytes_eqb_eq (x y : option bytes) : obytes_eqb x y = true <-> x = y.
Proof.
  destruct x as [a|], y as [c|]; cbn; try (split; [discriminate | discriminate]); try tauto.
  rewrite bytes_eqb_eq. split; [intros ->; reflexivity | intros [= ->]; reflexivity].
Qed.

Lemma pkey_eqb_key_of a c : pkey_eqb (key_of a) (key_of c) = true <-> a = c.
Proof.
  destruct a as [i x|i x], c as [j y|j y]; cbn [key_of pkey_eqb Bool.eqb andb];
    try (split; discriminate);
    rewrite Bool.andb_true_iff, bytes_eqb_eq, obytes_eqb_eq;
    (split; [intros [-> ->]; reflexivity | intros [= -> ->]; split; reflexivity]).
Qed.

Lemma key_mem_spec n T : key_mem (key_of n) (keys T) = being_expanded n T.
Proof.
  unfold key_mem, keys, being_expanded. induction T as [|n1 T IH]; cbn [map existsb]; [reflexivity|].
  rewrite IH. f_equal.
  destruct (pkey_eqb (key_of n1) (key_of n)) eqn:E1, (pname_eqb n n1) eqn:E2; try reflexivity.
  - apply pkey_eqb_key_of in E1. subst n1.
    assert (X : pname_eqb n n = true) by (apply pname_eqb_eq; reflexivity). congruence.
  - apply pname_eqb_eq in E2. subst n1.
    assert (X : pkey_eqb (key_of n) (key_of n) = true) by (apply pkey_eqb_key_of; reflexivity). congruence.
Qed.

Section Refine.
Variable overflow_checks : bool.
Variable call_function : bytes -> list fvalue -> fargs -> fvalue.
Variable transform : option (bytes -> bytes).
Variable formatter : option (fvalue -> option bytes).
Variable rules : ntype -> rules_fn.
Variable custom_as_string : bytes -> bytes.
Variable unescape_write : bytes -> bytes.
Variable unescape_to_string : bytes -> bytes.
Variable f64_from_str : bytes -> option fval.
Variable m : list (bytes * bentry).
Variable args : option fargs.

(* the writer form and the string form of unescape_unicode agree (C13_writer_eq) *)
Hypothesis Hun : forall s, unescape_to_string s = unescape_write s.

Definition b : bundle := Bundle m false.

Notation pw := (pattern_write overflow_checks call_function transform formatter rules custom_as_string
                  unescape_write unescape_to_string f64_from_str b args).
Notation ew := (expression_write overflow_checks call_function transform formatter rules custom_as_string
                  unescape_write unescape_to_string f64_from_str b args).
Notation iw := (inline_write overflow_checks call_function transform formatter rules custom_as_string
                  unescape_write unescape_to_string f64_from_str b args).
Notation ir := (inline_resolve overflow_checks call_function transform formatter rules custom_as_string
                  unescape_write unescape_to_string f64_from_str b args).
Notation mt := (maybe_track overflow_checks call_function transform formatter rules custom_as_string
                  unescape_write unescape_to_string f64_from_str b args).
Notation tr := (track overflow_checks call_function transform formatter rules custom_as_string
                  unescape_write unescape_to_string f64_from_str b args).
Notation ga := (get_arguments overflow_checks call_function transform formatter rules custom_as_string
                  unescape_write unescape_to_string f64_from_str b args).

Notation EP := (eval_pattern call_function transform formatter rules custom_as_string unescape_write f64_from_str m args).
Notation EL := (eval_elements call_function transform formatter rules custom_as_string unescape_write f64_from_str m args).
Notation EX := (eval_expr call_function transform formatter rules custom_as_string unescape_write f64_from_str m args).
Notation EI := (eval_inline call_function transform formatter rules custom_as_string unescape_write f64_from_str m args).
Notation EV := (eval_value call_function transform formatter rules custom_as_string unescape_write f64_from_str m args).
Notation EA := (eval_args call_function transform formatter rules custom_as_string unescape_write f64_from_str m args).
Notation ES := (eval_values call_function transform formatter rules custom_as_string unescape_write f64_from_str m args).
Notation XP := (expand call_function transform formatter rules custom_as_string unescape_write f64_from_str m args).

Notation cok := (cache_ok rules).

(* ---------- the relation between the scope before and after a call ---------- *)
Definition Post (V : scope -> scope -> Prop) (sc sc' : scope)
                (J : list resolver_error -> list call_record -> Prop) : Prop :=
  sc_local_args sc' = sc_local_args sc /\
  V sc sc' /\
  (sc_dirty sc = true -> sc_dirty sc' = true) /\
  cok (sc_intls sc') /\
  exists es cs,
    sc_errors sc' = sc_errors sc ++ es /\ sc_calls sc' = sc_calls sc ++ cs /\
    tmp_count es = delta sc sc' /\
    (sc_dirty sc' = false -> J es cs).

Lemma Post_refl (V : scope -> scope -> Prop) sc (J : list resolver_error -> list call_record -> Prop) :
  V sc sc -> cok (sc_intls sc) -> (sc_dirty sc = false -> J [] []) -> Post V sc sc J.
Proof.
  intros HV Hc HJ. split; [reflexivity|]. split; [exact HV|]. split; [auto|]. split; [exact Hc|].
  exists [], []. rewrite !app_nil_r. repeat split; auto.
  unfold delta. destruct (sc_dirty sc); reflexivity.
Qed.

Lemma Post_weaken (V V' : scope -> scope -> Prop) sc sc' (J J' : list resolver_error -> list call_record -> Prop) :
  Post V sc sc' J -> (V sc sc' -> V' sc sc') -> (forall es cs, sc_dirty sc' = false -> J es cs -> J' es cs) ->
  Post V' sc sc' J'.
Proof.
  intros (L & HV & D & C & es & cs & E1 & E2 & E3 & HJ) HVV HJJ.
  split; [exact L|]. split; [auto|]. split; [exact D|]. split; [exact C|].
  exists es, cs. repeat split; auto.
Qed.

Lemma delta_trans a c d :
  (sc_dirty a = true -> sc_dirty c = true) -> (sc_dirty c = true -> sc_dirty d = true) ->
  delta a c + delta c d = delta a d.
Proof.
  unfold delta. destruct (sc_dirty a), (sc_dirty c), (sc_dirty d); intros H1 H2; try reflexivity;
    try (specialize (H1 eq_refl); discriminate); try (specialize (H2 eq_refl); discriminate).
Qed.

Lemma Post_seq (V : scope -> scope -> Prop) a c d (J1 J2 J : list resolver_error -> list call_record -> Prop) :
  (V a c -> V c d -> V a d) ->
  Post V a c J1 -> Post V c d J2 ->
  (forall e1 c1 e2 c2, J1 e1 c1 -> J2 e2 c2 -> J (e1 ++ e2) (c1 ++ c2)) ->
  Post V a d J.
Proof.
  intros HVt (L1 & V1 & D1 & C1 & es1 & cs1 & E1 & K1 & T1 & HJ1) (L2 & V2 & D2 & C2 & es2 & cs2 & E2 & K2 & T2 & HJ2) HJ.
  split; [congruence|]. split; [auto|]. split; [auto|]. split; [exact C2|].
  exists (es1 ++ es2), (cs1 ++ cs2).
  split; [rewrite E2, E1, app_assoc; reflexivity|].
  split; [rewrite K2, K1, app_assoc; reflexivity|].
  split; [rewrite tmp_count_app, T1, T2; apply delta_trans; assumption|].
  intros Hd. apply HJ; [apply HJ1 | apply HJ2, Hd].
  destruct (sc_dirty c) eqn:Ec; [rewrite (D2 eq_refl) in Hd; discriminate | reflexivity].
Qed.

(* a step that changes only fields the specification does not see (placeables, memoizer) *)
Definition same_view (sc sc' : scope) : Prop :=
  sc_local_args sc' = sc_local_args sc /\
  sc_dirty sc' = sc_dirty sc /\ sc_errors sc' = sc_errors sc /\ sc_calls sc' = sc_calls sc.

Lemma Post_pre (V V' : scope -> scope -> Prop) sc0 sc sc' (J : list resolver_error -> list call_record -> Prop) :
  same_view sc0 sc -> (V sc sc' -> V' sc0 sc') -> Post V sc sc' J -> Post V' sc0 sc' J.
Proof.
  intros (L & D & E & K) HV (L1 & V1 & D1 & C1 & es & cs & E1 & K1 & T1 & HJ).
  split; [congruence|]. split; [auto|]. split; [rewrite <- D; exact D1|]. split; [exact C1|].
  exists es, cs. split; [congruence|]. split; [congruence|]. split; [|exact HJ].
  rewrite T1. unfold delta. rewrite D. reflexivity.
Qed.

(* the same at the end of a call *)
Lemma Post_post (V V' : scope -> scope -> Prop) sc sc1 sc' (J : list resolver_error -> list call_record -> Prop) :
  Post V sc sc1 J -> same_view sc1 sc' -> sc_intls sc' = sc_intls sc1 -> (V sc sc1 -> V' sc sc') -> Post V' sc sc' J.
Proof.
  intros (L1 & V1 & D1 & C1 & es & cs & E1 & K1 & T1 & HJ) (L & D & E & K) I HV.
  split; [congruence|]. split; [auto|]. split; [rewrite D; exact D1|]. split; [rewrite I; exact C1|].
  exists es, cs. split; [congruence|]. split; [congruence|]. split; [|rewrite D; exact HJ].
  rewrite T1. unfold delta. rewrite D. reflexivity.
Qed.

(* one error that is not the limit *)
Lemma Post_error (V : scope -> scope -> Prop) sc e (J : list resolver_error -> list call_record -> Prop) :
  V sc (add_error sc e) -> is_tmp e = false -> cok (sc_intls sc) -> (sc_dirty sc = false -> J [e] []) ->
  Post V sc (add_error sc e) J.
Proof.
  intros HV He Hc HJ. split; [reflexivity|]. split; [exact HV|]. split; [auto|]. split; [exact Hc|].
  exists [e], []. cbn [add_error sc_errors sc_calls sc_dirty]. rewrite app_nil_r.
  split; [reflexivity|]. split; [reflexivity|]. split; [|exact HJ].
  unfold tmp_count, delta. cbn [filter sc_dirty add_error]. rewrite He. destruct (sc_dirty sc); reflexivity.
Qed.

(* one function invocation *)
Lemma Post_call (V : scope -> scope -> Prop) sc c (J : list resolver_error -> list call_record -> Prop) :
  V sc (log_call sc c) -> cok (sc_intls sc) -> (sc_dirty sc = false -> J [] [c]) ->
  Post V sc (log_call sc c) J.
Proof.
  intros HV Hc HJ. split; [reflexivity|]. split; [exact HV|]. split; [auto|]. split; [exact Hc|].
  exists [], [c]. cbn [log_call sc_errors sc_calls sc_dirty]. rewrite app_nil_r.
  split; [reflexivity|]. split; [reflexivity|]. split; [|exact HJ].
  unfold delta. cbn [sc_dirty log_call]. destruct (sc_dirty sc); reflexivity.
Qed.

(* a term call: the call-site arguments are installed for the body and the previous ones put back *)
Lemma Post_scoped sc1 la sc3 (J : list resolver_error -> list call_record -> Prop) :
  Post ViewT (set_local_args sc1 la) sc3 J ->
  Post ViewT sc1 (set_local_args sc3 (sc_local_args sc1)) J.
Proof.
  intros (L1 & V1 & D1 & C1 & es & cs & E1 & K1 & T1 & HJ).
  split; [reflexivity|]. split; [exact V1|]. split; [exact D1|]. split; [exact C1|].
  exists es, cs. split; [exact E1|]. split; [exact K1|]. split; [exact T1 | exact HJ].
Qed.

(* ---------- the statements ---------- *)
Definition R_pw f := forall k p sc o sc' T, cok (sc_intls sc) -> Tof k sc = keys T -> pw f k p sc = Done (o, sc') ->
  Post (ViewP k) sc sc' (fun es cs => EP T (sc_local_args sc) p (flatten o, es, cs)).
Definition R_mt f := forall k p e sc o sc' T, cok (sc_intls sc) -> Tof k sc = keys T -> mt f k p e sc = Done (o, sc') ->
  Post (ViewP k) sc sc' (fun es cs => EX T (sc_local_args sc) e (flatten o, es, cs)).
Definition R_ew f := forall e sc o sc' T, cok (sc_intls sc) -> sc_travelled sc <> [] -> sc_travelled sc = keys T ->
  ew f e sc = Done (o, sc') ->
  Post ViewT sc sc' (fun es cs => EX T (sc_local_args sc) e (flatten o, es, cs)).
Definition R_iw f := forall i sc o sc' T, cok (sc_intls sc) -> sc_travelled sc <> [] -> sc_travelled sc = keys T ->
  iw f i sc = Done (o, sc') ->
  Post ViewT sc sc' (fun es cs => EI T (sc_local_args sc) i (flatten o, es, cs)).
Definition R_ir f := forall i sc v sc' T, cok (sc_intls sc) -> sc_travelled sc <> [] -> sc_travelled sc = keys T ->
  ir f i sc = Done (v, sc') ->
  Post ViewT sc sc' (fun es cs => EV T (sc_local_args sc) i (v, es, cs)).
Definition R_tr f := forall n q exp sc o sc' T, cok (sc_intls sc) -> sc_travelled sc <> [] -> sc_travelled sc = keys T ->
  inline_write_error exp = source_form exp ->
  tr f (key_of n) q exp sc = Done (o, sc') ->
  Post ViewT sc sc' (fun es cs => XP T (sc_local_args sc) exp (Found n q) (flatten o, es, cs)).
Definition R_ga f := forall oa sc pos named sc' T, cok (sc_intls sc) -> sc_travelled sc <> [] -> sc_travelled sc = keys T ->
  ga f oa sc = Done (pos, named, sc') ->
  Post ViewT sc sc' (fun es cs => EA T (sc_local_args sc) oa (pos, named, es, cs)).

Definition R_all f := R_pw f /\ R_mt f /\ R_ew f /\ R_iw f /\ R_ir f /\ R_tr f /\ R_ga f.

(* ---------- rules of the specification with the triples spelled out ---------- *)
Lemma L_text' T env s rest t es cs :
  EL T env rest (t, es, cs) -> EL T env (TextElement s :: rest) (transformed transform s ++ t, es, cs).
Proof. intros H. exact (L_text _ _ _ _ _ _ _ _ _ T env s rest _ H). Qed.

Lemma L_placeable' T env e rest t1 e1 c1 t2 e2 c2 :
  EX T env e (t1, e1, c1) -> EL T env rest (t2, e2, c2) ->
  EL T env (PlaceableElement e :: rest) (t1 ++ t2, e1 ++ e2, c1 ++ c2).
Proof. intros H1 H2. exact (L_placeable _ _ _ _ _ _ _ _ _ T env e rest _ _ H1 H2). Qed.

Lemma X_select' T env sel variants v es cs q t e2 c2 :
  EV T env sel (v, es, cs) -> chosen rules f64_from_str variants v = Some q -> EP T env q (t, e2, c2) ->
  EX T env (Select sel variants) (t, es ++ e2, cs ++ c2).
Proof. intros H1 H2 H3. exact (X_select _ _ _ _ _ _ _ _ _ T env sel variants v es cs q _ H1 H2 H3). Qed.

Lemma X_select_no_default' T env sel variants v es cs :
  EV T env sel (v, es, cs) -> chosen rules f64_from_str variants v = None ->
  EX T env (Select sel variants) ([], es ++ [MissingDefault], cs).
Proof.
  intros H1 H2. pose proof (X_select_no_default _ _ _ _ _ _ _ _ _ T env sel variants v es cs H1 H2) as H.
  unfold silent, fails, seq in H. cbn [fst snd app] in H. rewrite app_nil_r in H. exact H.
Qed.

Lemma I_term' T env id attr cargs pos named es cs t e2 c2 :
  EA T env cargs (pos, named, es, cs) ->
  XP T (Some named) (TermReference id attr cargs) (term_target m id attr) (t, e2, c2) ->
  EI T env (TermReference id attr cargs) (t, es ++ e2, cs ++ c2).
Proof. intros H1 H2. exact (I_term _ _ _ _ _ _ _ _ _ T env id attr cargs pos named es cs _ H1 H2). Qed.

(* ---------- small correspondences between model and specification ---------- *)
Lemma print_write v : value_write formatter custom_as_string v = print formatter custom_as_string v.
Proof. reflexivity. Qed.
Lemma print_into v : value_into_string formatter custom_as_string v = print formatter custom_as_string v.
Proof. reflexivity. Qed.
Lemma function_lookup id : get_entry_function b id = function_named m id.
Proof. reflexivity. Qed.
Lemma call_entry_apply fn pos named :
  call_entry call_function fn pos named = apply_function call_function fn pos named.
Proof. reflexivity. Qed.

Lemma lookup_variable_spec id sc : lookup_variable args id sc = variable args (sc_local_args sc) id.
Proof.
  unfold lookup_variable, variable. destruct (sc_local_args sc) as [la|]; [rewrite get_lookup; reflexivity|].
  destruct args as [a|]; [rewrite get_lookup; reflexivity | reflexivity].
Qed.
Lemma lookup_variable_r_spec id sc : lookup_variable_r args id sc = variable args (sc_local_args sc) id.
Proof.
  unfold lookup_variable_r, variable. destruct (sc_local_args sc) as [la|]; [rewrite get_lookup; reflexivity|].
  destruct args as [a|]; [rewrite get_lookup; reflexivity | reflexivity].
Qed.

Lemma message_case f id attribute sc :
  iw (S f) (MessageReference id attribute) sc =
  match message_target m id attribute with
  | Found n q => tr f (key_of n) q (MessageReference id attribute) sc
  | Unknown => write_ref_error (MessageReference id attribute) sc
  | Valueless id' =>
      Done (braced (inline_write_error (MessageReference id attribute)), add_error sc (NoValue id'))
  end.
Proof.
  rewrite iw_S_message. unfold get_entry_message, message_target, attr_or_value. cbn [b b_entries].
  destruct (entry_find m id) as [[v a| |]|]; try reflexivity.
  destruct attribute as [at_|]; [destruct (find_attribute a at_); reflexivity | destruct v; reflexivity].
Qed.

Lemma term_case f id attribute exp sc :
  term_body overflow_checks call_function transform formatter rules custom_as_string
    unescape_write unescape_to_string f64_from_str b args f id attribute exp sc =
  match term_target m id attribute with
  | Found n q => tr f (key_of n) q exp sc
  | _ => write_ref_error exp sc
  end.
Proof.
  unfold term_body, get_entry_term, term_target, attr_or_value. cbn [b b_entries].
  destruct (entry_find m id) as [[| v a|]|]; try reflexivity.
  destruct attribute as [at_|]; [destruct (find_attribute a at_); reflexivity | reflexivity].
Qed.

Lemma term_target_not_valueless id attribute x : term_target m id attribute <> Valueless x.
Proof.
  unfold term_target, attr_or_value.
  destruct (entry_find m id) as [[| v a|]|]; try discriminate.
  destruct attribute as [at_|]; [destruct (find_attribute a at_); discriminate | discriminate].
Qed.

Lemma write_ref_error_spec exp sc k :
  reference_kind_of exp = Done k ->
  write_ref_error exp sc = Done (braced (inline_write_error exp), add_error sc (Reference k)).
Proof. intros H. unfold write_ref_error. rewrite H. reflexivity. Qed.

Lemma set_intls_same sc : sc = set_intls sc (sc_intls sc).
Proof. destruct sc; reflexivity. Qed.

Lemma value_matches_spec key sel sc mm sc' :
  cok (sc_intls sc) ->
  value_matches rules (variant_key_value f64_from_str key) sel sc = Done (mm, sc') ->
  mm = key_matches rules f64_from_str key sel /\ exists c', sc' = set_intls sc c' /\ cok c'.
Proof.
  intros Hc. unfold value_matches, key_matches.
  change (variant_key_value f64_from_str key) with (key_value f64_from_str key).
  assert (Hsame : exists c', sc = set_intls sc c' /\ cok c') by (exists (sc_intls sc); split; [apply set_intls_same | exact Hc]).
  destruct (key_value f64_from_str key) as [a|a|c| |]; destruct sel as [s|n|c'| |];
    try (intros [= <- <-]; split; [reflexivity | exact Hsame]).
  destruct (plural_keyword a) as [cat|]; [|intros [= <- <-]; split; [reflexivity | exact Hsame]].
  pose proof (with_try_get_ok rules (sc_intls sc) (o_type (n_options n)) Hc) as [F K].
  destruct (with_try_get rules (sc_intls sc) (o_type (n_options n))) as [pr c1]. cbn [fst snd] in F, K.
  destruct (fnumber_operands n) as [ops|t|]; cbn [obind]; try discriminate.
  intros [= <- <-]. rewrite F. split; [reflexivity|]. exists c1. split; [reflexivity | exact K].
Qed.

Lemma find_variant_spec vs sel : forall sc hit sc', cok (sc_intls sc) ->
  find_variant rules f64_from_str vs sel sc = Done (hit, sc') ->
  hit = option_map variant_value (find (fun v => key_matches rules f64_from_str (variant_key_of v) sel) vs) /\
  exists c', sc' = set_intls sc c' /\ cok c'.
Proof.
  induction vs as [|[key value d] rest IH]; intros sc hit sc' Hc; cbn [find_variant find].
  - intros [= <- <-]. split; [reflexivity|]. exists (sc_intls sc). split; [apply set_intls_same | exact Hc].
  - intros H. apply obind_done in H as ([mm sc1] & E & H).
    destruct (value_matches_spec key sel sc mm sc1 Hc E) as (-> & c1 & -> & Hc1).
    cbn [variant_key_of]. destruct (key_matches rules f64_from_str key sel).
    + injection H as <- <-. split; [reflexivity|]. exists c1. split; [reflexivity | exact Hc1].
    + destruct (IH (set_intls sc c1) hit sc' Hc1 H) as (-> & c2 & -> & Hc2).
      split; [reflexivity|]. exists c2. split; [reflexivity | exact Hc2].
Qed.

Lemma find_default_spec vs : find_default vs = option_map variant_value (find variant_default vs).
Proof.
  induction vs as [|[key value d] rest IH]; cbn [find_default find variant_default]; [reflexivity|].
  destruct d; [reflexivity | exact IH].
Qed.

Lemma key_matches_other key sel :
  match sel with VString _ | VNumber _ => False | _ => True end ->
  key_matches rules f64_from_str key sel = false.
Proof.
  unfold key_matches. destruct (key_value f64_from_str key); destruct sel; intros H; try reflexivity; contradiction.
Qed.

Lemma find_none_other vs sel :
  match sel with VString _ | VNumber _ => False | _ => True end ->
  find (fun v => key_matches rules f64_from_str (variant_key_of v) sel) vs = None.
Proof.
  intros H. induction vs as [|v rest IH]; cbn [find]; [reflexivity|].
  rewrite key_matches_other by exact H. exact IH.
Qed.

(* what Expression::write does after the selector has been resolved *)
Lemma select_hit_spec variants sel sc hit sc' :
  cok (sc_intls sc) ->
  match sel with
  | VString _ | VNumber _ => find_variant rules f64_from_str variants sel sc
  | _ => Done (None, sc)
  end = Done (hit, sc') ->
  match hit with Some q => Some q | None => find_default variants end = chosen rules f64_from_str variants sel /\
  exists c', sc' = set_intls sc c' /\ cok c'.
Proof.
  intros Hc H. unfold chosen. rewrite find_default_spec.
  assert (Hgen : find_variant rules f64_from_str variants sel sc = Done (hit, sc') ->
                 match hit with Some q => Some q | None => option_map variant_value (find variant_default variants) end =
                 match find (fun v => key_matches rules f64_from_str (variant_key_of v) sel) variants with
                 | Some v => Some (variant_value v)
                 | None => option_map variant_value (find variant_default variants)
                 end /\ exists c', sc' = set_intls sc c' /\ cok c').
  { intros H'. destruct (find_variant_spec variants sel sc hit sc' Hc H') as (-> & Hx). split; [|exact Hx].
    destruct (find _ variants); reflexivity. }
  destruct sel; try (apply Hgen, H);
    (injection H as <- <-; rewrite find_none_other by exact Logic.I;
     split; [reflexivity | exists (sc_intls sc); split; [apply set_intls_same | exact Hc]]).
Qed.

Lemma Post_seqT a c d (J1 : list resolver_error -> list call_record -> Prop)
      (K : option fargs -> list resolver_error -> list call_record -> Prop)
      (J : list resolver_error -> list call_record -> Prop) :
  Post ViewT a c J1 -> Post ViewT c d (K (sc_local_args c)) ->
  (forall e1 c1 e2 c2, J1 e1 c1 -> K (sc_local_args a) e2 c2 -> J (e1 ++ e2) (c1 ++ c2)) ->
  Post ViewT a d J.
Proof.
  intros P1 P2 HJ. destruct P1 as (L1 & V1 & R1). rewrite L1 in P2.
  eapply Post_seq; [apply ViewT_trans | exact (conj L1 (conj V1 R1)) | exact P2 | exact HJ].
Qed.

Lemma Post_trav sc sc' J : Post ViewT sc sc' J -> sc_travelled sc' = sc_travelled sc.
Proof. intros (_ & V & _). exact V. Qed.

Lemma Post_trav_ne sc sc' J : Post ViewT sc sc' J -> sc_travelled sc <> [] -> sc_travelled sc' <> [].
Proof. intros P H. rewrite (Post_trav _ _ _ P). exact H. Qed.

Lemma Post_trav_T sc sc' J (T : list pname) :
  Post ViewT sc sc' J -> sc_travelled sc = keys T -> sc_travelled sc' = keys T.
Proof. intros P H. rewrite (Post_trav _ _ _ P). exact H. Qed.

Lemma Post_cok V sc sc' J : Post V sc sc' J -> cok (sc_intls sc').
Proof. intros (_ & _ & _ & C & _). exact C. Qed.

(* ---------- the loops ---------- *)
Lemma pattern_loop_spec f (k : option pkey) (p : pattern) len :
  R_mt f ->
  forall els sc o sc' T, cok (sc_intls sc) -> Tof k sc = keys T ->
  pattern_loop overflow_checks transform b (mt f k p) len els sc = Done (o, sc') ->
  Post (ViewP k) sc sc' (fun es cs => EL T (sc_local_args sc) els (flatten o, es, cs)).
Proof.
  intros Hmt. induction els as [|elem rest IH]; intros sc o sc' T Hc HT H; cbn [pattern_loop] in H.
  - injection H as <- <-. apply Post_refl; [apply ViewP_refl | exact Hc | intros _; constructor].
  - destruct (sc_dirty sc) eqn:Hd.
    { injection H as <- <-. apply Post_refl; [apply ViewP_refl | exact Hc | intros Hx; congruence]. }
    destruct elem as [value | expression].
    + fold (pattern_loop overflow_checks transform b (mt f k p) len) in H.
      apply obind_done in H as ([o1 sc1] & E & H). injection H as <- <-.
      eapply Post_weaken; [exact (IH sc o1 sc1 T Hc HT E) | auto |].
      intros es cs _ HJ. exact (L_text' _ _ value rest _ _ _ HJ).
    + destruct (u8_add1 overflow_checks (sc_placeables sc)) as [n|t|] eqn:En; cbn [obind] in H; try discriminate.
      cbv zeta in H.
      destruct (N.ltb MAX_PLACEABLES (sc_placeables (set_placeables sc n))) eqn:Hlt.
      * injection H as <- <-.
        split; [reflexivity|]. split; [apply ViewT_P; reflexivity|]. split; [reflexivity|]. split; [exact Hc|].
        exists [TooManyPlaceables], []. cbn [add_error set_dirty set_placeables sc_errors sc_calls sc_dirty].
        rewrite app_nil_r. split; [reflexivity|]. split; [reflexivity|].
        split; [unfold delta; rewrite Hd; reflexivity | discriminate].
      * cbn [b b_use_isolating andb] in H.
        fold (pattern_loop overflow_checks transform b (mt f k p) len) in H.
        apply obind_done in H as ([o1 sc2] & E1 & H).
        apply obind_done in H as ([o2 sc3] & E2 & H). injection H as <- <-.
        set (sc1 := set_placeables sc n) in *.
        assert (P1 : Post (ViewP k) sc sc2 (fun es cs => EX T (sc_local_args sc) expression (flatten o1, es, cs))).
        { eapply Post_pre; [| |exact (Hmt k p expression sc1 o1 sc2 T Hc HT E1)].
          - repeat split.
          - auto. }
        assert (HT2 : Tof k sc2 = keys T).
        { destruct P1 as (_ & V1 & _). rewrite (ViewP_Tof _ _ _ V1). exact HT. }
        pose proof (IH sc2 o2 sc3 T (Post_cok _ _ _ _ P1) HT2 E2) as P2.
        destruct P1 as (L1 & V1 & R1).
        rewrite L1 in P2.
        eapply Post_seq; [apply ViewP_trans | exact (conj L1 (conj V1 R1)) | exact P2 |].
        intros e1 c1 e2 c2 J1 J2. cbn [app]. rewrite flatten_app.
        exact (L_placeable' _ _ _ _ _ _ _ _ _ _ J1 J2).
Qed.

Lemma resolve_list_spec f :
  R_ir f ->
  forall l sc vs sc' T, cok (sc_intls sc) -> sc_travelled sc <> [] -> sc_travelled sc = keys T ->
  resolve_list (ir f) l sc = Done (vs, sc') ->
  Post ViewT sc sc' (fun es cs => ES T (sc_local_args sc) l (vs, es, cs)).
Proof.
  intros Hir. induction l as [|x r IH]; intros sc vs sc' T Hc Ht HT H; cbn [resolve_list] in H.
  - injection H as <- <-. apply Post_refl; [apply ViewT_refl | exact Hc | intros _; constructor].
  - apply obind_done in H as ([v sc1] & E1 & H).
    fold (resolve_list (ir f)) in H.
    apply obind_done in H as ([vs1 sc2] & E2 & H). injection H as <- <-.
    pose proof (Hir x sc v sc1 T Hc Ht HT E1) as P1.
    pose proof (IH sc1 vs1 sc2 T (Post_cok _ _ _ _ P1) (Post_trav_ne _ _ _ P1 Ht) (Post_trav_T _ _ _ _ P1 HT) E2) as P2.
    eapply (Post_seqT sc sc1 sc2 _ (fun env es cs => ES T env r (vs1, es, cs))); [exact P1 | exact P2 |].
    intros e1 c1 e2 c2 J1 J2. constructor; assumption.
Qed.

Lemma resolve_named_spec f :
  R_ir f ->
  forall l sc nam sc' T, cok (sc_intls sc) -> sc_travelled sc <> [] -> sc_travelled sc = keys T ->
  resolve_named (ir f) l sc = Done (nam, sc') ->
  Post ViewT sc sc' (fun es cs => exists vn, nam = combine (map named_name l) vn /\
                                   ES T (sc_local_args sc) (map named_value l) (vn, es, cs)).
Proof.
  intros Hir. induction l as [|[name x] r IH]; intros sc nam sc' T Hc Ht HT H; cbn [resolve_named] in H.
  - injection H as <- <-. apply Post_refl; [apply ViewT_refl | exact Hc |].
    intros _. exists []. split; [reflexivity | constructor].
  - apply obind_done in H as ([v sc1] & E1 & H).
    fold (resolve_named (ir f)) in H.
    apply obind_done in H as ([vs1 sc2] & E2 & H). injection H as <- <-.
    pose proof (Hir x sc v sc1 T Hc Ht HT E1) as P1.
    pose proof (IH sc1 vs1 sc2 T (Post_cok _ _ _ _ P1) (Post_trav_ne _ _ _ P1 Ht) (Post_trav_T _ _ _ _ P1 HT) E2) as P2.
    eapply (Post_seqT sc sc1 sc2 _ (fun env es cs => exists vn, vs1 = combine (map named_name r) vn /\
                                                    ES T env (map named_value r) (vn, es, cs))); [exact P1 | exact P2 |].
    intros e1 c1 e2 c2 J1 (vn & -> & J2). exists (v :: vn). split; [reflexivity|].
    cbn [map named_value]. constructor; assumption.
Qed.

(* ---------- one step of each function ---------- *)
Lemma step_pw f : R_mt f -> R_pw (S f).
Proof.
  intros Hmt k p sc o sc' T Hc HT H. rewrite pw_S in H.
  pose proof (pattern_loop_spec f k p _ Hmt _ sc o sc' T Hc HT H) as P.
  eapply Post_weaken; [exact P | auto |]. intros es cs _ HJ. destruct p as [els]. constructor. exact HJ.
Qed.

Lemma step_mt f : R_ew f -> R_mt (S f).
Proof.
  intros Hew k p e sc o sc' T Hc HT H. rewrite mt_S in H. cbv zeta in H.
  set (sc0 := match sc_travelled sc with [] => set_travelled sc [k] | _ :: _ => sc end) in *.
  assert (F0 : same_view sc sc0 /\ sc_intls sc0 = sc_intls sc /\ sc_travelled sc0 = Tof k sc /\ sc_travelled sc0 <> [] /\
               (sc_travelled sc <> [] -> sc_travelled sc0 = sc_travelled sc)).
  { subst sc0. unfold Tof. destruct (sc_travelled sc) eqn:Et.
    - repeat split; cbn; congruence.
    - repeat split; rewrite ?Et; try reflexivity; discriminate. }
  destruct F0 as (S0 & I0 & T0 & N0 & K0).
  apply obind_done in H as ([o1 sc1] & E & H).
  assert (Hc0 : cok (sc_intls sc0)) by (rewrite I0; exact Hc).
  assert (HT0 : sc_travelled sc0 = keys T) by (rewrite T0; exact HT).
  pose proof (Hew e sc0 o1 sc1 T Hc0 N0 HT0 E) as P.
  assert (P' : Post (ViewP k) sc sc1 (fun es cs => EX T (sc_local_args sc) e (flatten o1, es, cs))).
  { eapply Post_pre; [exact S0 | |].
    2:{ eapply Post_weaken; [exact P | intros V; exact V |].
        intros es cs _ HJ. destruct S0 as (L0 & _). rewrite L0 in HJ. exact HJ. }
    unfold ViewT. intros V. split.
    - intros Hne. rewrite V. exact (K0 Hne).
    - intros He. right. rewrite V, T0. unfold Tof. rewrite He. reflexivity. }
  destruct (sc_dirty sc1) eqn:Hd; injection H as <- <-.
  - eapply Post_weaken; [exact P' | auto |]. intros es cs Hx. congruence.
  - exact P'.
Qed.

Lemma step_tr f : R_pw f -> R_tr (S f).
Proof.
  intros Hpw n q exp sc o sc' T Hc Ht HT Hsrc H. rewrite tr_S in H.
  assert (Eo : key_mem (key_of n) (sc_travelled sc) = being_expanded n T) by (rewrite HT; apply key_mem_spec).
  destruct (key_mem (key_of n) (sc_travelled sc)) eqn:Em.
  - injection H as <- <-. apply Post_error; [reflexivity | reflexivity | exact Hc |].
    intros _. rewrite flatten_braced, Hsrc. apply R_cyclic. symmetry. exact Eo.
  - cbv zeta in H. set (sc1 := set_travelled sc (Some (key_of n) :: sc_travelled sc)) in *.
    apply obind_done in H as ([o1 sc2] & E & H). injection H as <- <-.
    assert (HT1 : Tof (Some (key_of n)) sc1 = keys (n :: T)) by (cbn; rewrite HT; reflexivity).
    pose proof (Hpw (Some (key_of n)) q sc1 o1 sc2 (n :: T) Hc HT1 E) as P.
    assert (V12 : sc_travelled sc2 = Some (key_of n) :: sc_travelled sc).
    { destruct P as (_ & (V & _) & _). apply V. cbn. discriminate. }
    assert (P' : Post (fun _ _ => True) sc sc2
                   (fun es cs => XP T (sc_local_args sc) exp (Found n q) (flatten o1, es, cs))).
    { eapply (Post_pre (ViewP (Some (key_of n))) (fun _ _ => True) sc sc1 sc2); [repeat split | auto |].
      eapply Post_weaken; [exact P | intros V; exact V |].
      intros es cs _ HJ. apply R_found; [symmetry; exact Eo | exact HJ]. }
    eapply (Post_post (fun _ _ => True) ViewT); [exact P' | repeat split | reflexivity |].
    intros _. unfold ViewT. cbn. rewrite V12. reflexivity.
Qed.

Lemma step_ga f : R_ir f -> R_ga (S f).
Proof.
  intros Hir oa sc pos named sc' T Hc Ht HT H.
  destruct oa as [[positional nameds]|]; [rewrite ga_S_some in H | rewrite ga_S_none in H].
  - apply obind_done in H as ([vp sc1] & E1 & H).
    apply obind_done in H as ([nam sc2] & E2 & H).
    apply obind_done in H as (na & E3 & H). injection H as <- <- <-.
    unfold from_iter in E3. rewrite set_all_ins_all in E3. injection E3 as <-.
    pose proof (resolve_list_spec f Hir positional sc vp sc1 T Hc Ht HT E1) as P1.
    pose proof (resolve_named_spec f Hir nameds sc1 nam sc2 T (Post_cok _ _ _ _ P1) (Post_trav_ne _ _ _ P1 Ht)
                  (Post_trav_T _ _ _ _ P1 HT) E2) as P2.
    eapply (Post_seqT sc sc1 sc2 _
              (fun env es cs => exists vn, nam = combine (map named_name nameds) vn /\
                                           ES T env (map named_value nameds) (vn, es, cs))); [exact P1 | exact P2 |].
    intros e1 c1 e2 c2 J1 (vn & -> & J2). exact (A_some _ _ _ _ _ _ _ _ _ _ _ _ _ _ _ _ _ _ _ J1 J2).
  - injection H as <- <- <-. apply Post_refl; [apply ViewT_refl | exact Hc | intros _; constructor].
Qed.

Lemma step_ew f : R_pw f -> R_iw f -> R_ir f -> R_ew (S f).
Proof.
  intros Hpw Hiw Hir e sc o sc' T Hc Ht HT H.
  destruct e as [selector variants | exp]; [rewrite ew_S_select in H | rewrite ew_S_inline in H].
  - apply obind_done in H as ([sel sc1] & E1 & H).
    apply obind_done in H as ([hit sc2] & E2 & H).
    pose proof (Hir selector sc sel sc1 T Hc Ht HT E1) as P1.
    destruct (select_hit_spec variants sel sc1 hit sc2 (Post_cok _ _ _ _ P1) E2) as (Hch & c' & -> & Hc').
    pose proof (Post_trav_ne _ _ _ P1 Ht) as Ht1.
    pose proof (Post_trav_T _ _ _ _ P1 HT) as HT1.
    assert (Hvar : forall value, chosen rules f64_from_str variants sel = Some value ->
                     pw f None value (set_intls sc1 c') = Done (o, sc') ->
                     Post ViewT sc sc' (fun es cs => EX T (sc_local_args sc) (Select selector variants) (flatten o, es, cs))).
    { intros value Hv Hw.
      assert (HTv : Tof None (set_intls sc1 c') = keys T).
      { rewrite (Tof_nonempty None (set_intls sc1 c') Ht1). exact HT1. }
      pose proof (Hpw None value (set_intls sc1 c') o sc' T Hc' HTv Hw) as P2.
      eapply (Post_seqT sc sc1 sc' _ (fun env es cs => EP T env value (flatten o, es, cs))); [exact P1 | |].
      - eapply Post_pre; [| |exact P2].
        + repeat split.
        + intros V. exact (ViewP_T None _ _ Ht1 V).
      - intros e1 c1 e2 c2 J1 J2. exact (X_select' _ _ _ _ _ _ _ _ _ _ _ J1 Hv J2). }
    destruct hit as [value|].
    + apply (Hvar value); [symmetry; exact Hch | exact H].
    + destruct (find_default variants) as [value|].
      * apply (Hvar value); [symmetry; exact Hch | exact H].
      * injection H as <- <-.
        eapply (Post_seqT sc sc1 _ _ (fun env es cs => es = [MissingDefault] /\ cs = [])); [exact P1 | |].
        -- eapply Post_pre; [| |apply (Post_error ViewT (set_intls sc1 c') MissingDefault)].
           ++ repeat split.
           ++ intros V. exact V.
           ++ reflexivity.
           ++ reflexivity.
           ++ exact Hc'.
           ++ intros _. split; reflexivity.
        -- intros e1 c1 e2 c2 J1 (-> & ->). rewrite app_nil_r.
           exact (X_select_no_default' _ _ _ _ _ _ _ J1 (eq_sym Hch)).
  - eapply Post_weaken; [exact (Hiw exp sc o sc' T Hc Ht HT H) | auto |].
    intros es cs _ HJ. constructor. exact HJ.
Qed.

Ltac fold_braces :=
  lazymatch goal with
  | |- eval_inline _ _ _ _ _ _ _ _ _ ?T ?env ?i (_, ?es, ?cs) =>
      change (EI T env i (in_braces i, es, cs))
  end.

Lemma ref_src_message id attribute :
  inline_write_error (MessageReference id attribute) = source_form (MessageReference id attribute).
Proof. destruct attribute; reflexivity. Qed.
Lemma ref_src_term id attribute a :
  inline_write_error (TermReference id attribute a) = source_form (TermReference id attribute a).
Proof. destruct attribute; reflexivity. Qed.

Lemma step_ir f : R_iw f -> R_ga f -> R_ir (S f).
Proof.
  intros Hiw Hga i sc v sc' T Hc Ht HT H.
  assert (Hgen : resolve_by_write overflow_checks call_function transform formatter rules custom_as_string
                   unescape_write unescape_to_string f64_from_str b args f i sc = Done (v, sc') ->
                 textual i = true ->
                 Post ViewT sc sc' (fun es cs => EV T (sc_local_args sc) i (v, es, cs))).
  { unfold resolve_by_write. intros H' Htx. apply obind_done in H' as ([o sc1] & E & H'). injection H' as <- <-.
    eapply Post_weaken; [exact (Hiw i sc o sc1 T Hc Ht HT E) | auto |].
    intros es cs _ HJ. apply V_textual; assumption. }
  destruct i as [value | value | id arguments | id attribute | id attribute arguments | id | expression].
  - rewrite ir_S_string in H. injection H as <- <-.
    apply Post_refl; [apply ViewT_refl | exact Hc | intros _; rewrite Hun; constructor].
  - rewrite ir_S_number in H. injection H as <- <-.
    apply Post_refl; [apply ViewT_refl | exact Hc | intros _; constructor].
  - rewrite ir_S_function in H.
    apply obind_done in H as ([[pos named] sc1] & E1 & H).
    pose proof (Hga (Some arguments) sc pos named sc1 T Hc Ht HT E1) as P1.
    rewrite function_lookup in H. destruct (function_named m id) as [func|] eqn:Ef.
    + injection H as <- <-. rewrite call_entry_apply.
      eapply (Post_seqT sc sc1 _ _ (fun env es cs => es = [] /\ cs = [Call id pos named])); [exact P1 | |].
      * apply Post_call; [reflexivity | exact (Post_cok _ _ _ _ P1) | intros _; split; reflexivity].
      * intros e1 c1 e2 c2 J1 (-> & ->). rewrite app_nil_r. eapply V_function; eassumption.
    + cbn [reference_kind_of obind] in H. injection H as <- <-.
      eapply (Post_seqT sc sc1 _ _ (fun env es cs => es = [Reference (RefFunction id)] /\ cs = [])); [exact P1 | |].
      * apply Post_error; [reflexivity | reflexivity | exact (Post_cok _ _ _ _ P1) | intros _; split; reflexivity].
      * intros e1 c1 e2 c2 J1 (-> & ->). rewrite app_nil_r.
        exact (V_function_unknown _ _ _ _ _ _ _ _ _ _ _ _ _ _ _ _ _ J1 Ef).
  - rewrite ir_S_message in H. apply Hgen; [exact H | reflexivity].
  - rewrite ir_S_term in H. apply Hgen; [exact H | reflexivity].
  - rewrite ir_S_variable, lookup_variable_r_spec in H.
    destruct (variable args (sc_local_args sc) id) as [arg|] eqn:Ev.
    + injection H as <- <-.
      apply Post_refl; [apply ViewT_refl | exact Hc | intros _; apply V_variable; exact Ev].
    + unfold missing_variable in H. destruct (sc_local_args sc) as [la|] eqn:El; cbn [reference_kind_of obind] in H;
        injection H as <- <-.
      * apply Post_refl; [apply ViewT_refl | exact Hc |].
        intros _. exact (V_variable_missing _ _ _ _ _ _ _ _ _ _ (Some la) id Ev).
      * apply Post_error; [reflexivity | reflexivity | exact Hc |].
        intros _. exact (V_variable_missing _ _ _ _ _ _ _ _ _ _ None id Ev).
  - rewrite ir_S_placeable in H. apply Hgen; [exact H | reflexivity].
Qed.

Lemma step_iw f : R_ew f -> R_tr f -> R_ga f -> R_iw (S f).
Proof.
  intros Hew Htr Hga i sc o sc' T Hc Ht HT H.
  destruct i as [value | value | id arguments | id attribute | id attribute arguments | id | expression].
  - rewrite iw_S_string in H. injection H as <- <-.
    apply Post_refl; [apply ViewT_refl | exact Hc | intros _; rewrite flatten_txt; constructor].
  - rewrite iw_S_number in H. injection H as <- <-.
    apply Post_refl; [apply ViewT_refl | exact Hc | intros _; rewrite flatten_txt, print_write; constructor].
  - (* FunctionReference *)
    rewrite iw_S_function in H.
    apply obind_done in H as ([[pos named] sc1] & E1 & H).
    pose proof (Hga (Some arguments) sc pos named sc1 T Hc Ht HT E1) as P1.
    rewrite function_lookup in H. destruct (function_named m id) as [func|] eqn:Ef.
    + cbv zeta in H. rewrite call_entry_apply in H.
      set (v := apply_function call_function func pos named) in *.
      assert (Ho : o = [Txt (match v with
                             | VError => source_form (FunctionReference id arguments)
                             | _ => print formatter custom_as_string v
                             end)] /\ sc' = log_call sc1 (Call id pos named)).
      { destruct v; injection H as <- <-; split; reflexivity. }
      destruct Ho as (-> & ->).
      eapply (Post_seqT sc sc1 _ _ (fun env es cs => es = [] /\ cs = [Call id pos named])); [exact P1 | |].
      * apply Post_call; [reflexivity | exact (Post_cok _ _ _ _ P1) | intros _; split; reflexivity].
      * intros e1 c1 e2 c2 J1 (-> & ->). rewrite app_nil_r, flatten_txt.
        exact (I_function _ _ _ _ _ _ _ _ _ _ _ _ _ _ _ _ _ _ v J1 Ef eq_refl).
    + rewrite (write_ref_error_spec (FunctionReference id arguments) _ (RefFunction id) eq_refl) in H. injection H as <- <-.
      eapply (Post_seqT sc sc1 _ _ (fun env es cs => es = [Reference (RefFunction id)] /\ cs = [])); [exact P1 | |].
      * apply Post_error; [reflexivity | reflexivity | exact (Post_cok _ _ _ _ P1) | intros _; split; reflexivity].
      * intros e1 c1 e2 c2 J1 (-> & ->). rewrite app_nil_r, flatten_braced.
        exact (I_function_unknown _ _ _ _ _ _ _ _ _ _ _ _ _ _ _ _ _ J1 Ef).
  - (* MessageReference *)
    rewrite message_case in H.
    destruct (message_target m id attribute) as [n q| |id'] eqn:Et.
    + eapply Post_weaken; [exact (Htr n q _ sc o sc' T Hc Ht HT (ref_src_message id attribute) H) | auto |].
      intros es cs _ HJ. apply I_message. rewrite Et. exact HJ.
    + rewrite (write_ref_error_spec (MessageReference id attribute) _ (RefMessage id attribute) eq_refl) in H. injection H as <- <-.
      apply Post_error; [reflexivity | reflexivity | exact Hc |].
      intros _. rewrite flatten_braced. fold_braces. apply I_message. rewrite Et. apply R_unknown.
    + injection H as <- <-.
      apply Post_error; [reflexivity | reflexivity | exact Hc |].
      intros _. rewrite flatten_braced. fold_braces. apply I_message. rewrite Et. apply R_valueless.
  - (* TermReference *)
    rewrite iw_S_term in H.
    apply obind_done in H as ([[pos named] sc1] & E1 & H). cbv zeta in H.
    apply obind_done in H as ([o1 sc3] & E2 & H). injection H as <- <-.
    pose proof (Hga arguments sc pos named sc1 T Hc Ht HT E1) as P1.
    pose proof (Post_trav_ne _ _ _ P1 Ht) as Ht1.
    pose proof (Post_trav_T _ _ _ _ P1 HT) as HT1.
    rewrite term_case in E2.
    set (exp := TermReference id attribute arguments) in *.
    assert (P2 : Post ViewT (set_local_args sc1 (Some named)) sc3
                   (fun es cs => XP T (Some named) exp (term_target m id attribute) (flatten o1, es, cs))).
    { destruct (term_target m id attribute) as [n q| |id'] eqn:Et.
      - exact (Htr n q exp (set_local_args sc1 (Some named)) o1 sc3 T (Post_cok _ _ _ _ P1) Ht1 HT1
                 (ref_src_term id attribute arguments) E2).
      - rewrite (write_ref_error_spec (TermReference id attribute arguments) _ (RefTerm id attribute) eq_refl) in E2. injection E2 as <- <-.
        apply Post_error; [reflexivity | reflexivity | exact (Post_cok _ _ _ _ P1) |].
        intros _. rewrite flatten_braced.
        exact (R_unknown _ _ _ _ _ _ _ _ _ T (Some named) (TermReference id attribute arguments)).
      - exfalso. exact (term_target_not_valueless _ _ _ Et). }
    apply Post_scoped in P2.
    eapply (Post_seqT sc sc1 _ _ (fun env es cs => XP T (Some named) exp (term_target m id attribute) (flatten o1, es, cs)));
      [exact P1 | exact P2 |].
    intros e1 c1 e2 c2 J1 J2. exact (I_term' _ _ _ _ _ _ _ _ _ _ _ _ J1 J2).
  - (* VariableReference *)
    rewrite iw_S_variable, lookup_variable_spec in H.
    destruct (variable args (sc_local_args sc) id) as [arg|] eqn:Ev.
    + injection H as <- <-.
      apply Post_refl; [apply ViewT_refl | exact Hc |].
      intros _. rewrite flatten_txt, print_write. apply I_variable. exact Ev.
    + unfold missing_variable in H. destruct (sc_local_args sc) as [la|] eqn:El; cbn [reference_kind_of obind] in H;
        injection H as <- <-.
      * apply Post_refl; [apply ViewT_refl | exact Hc |].
        intros _. rewrite flatten_braced.
        exact (I_variable_missing _ _ _ _ _ _ _ _ _ _ (Some la) id Ev).
      * apply Post_error; [reflexivity | reflexivity | exact Hc |].
        intros _. rewrite flatten_braced.
        exact (I_variable_missing _ _ _ _ _ _ _ _ _ _ None id Ev).
  - (* Placeable *)
    rewrite iw_S_placeable in H.
    eapply Post_weaken; [exact (Hew expression sc o sc' T Hc Ht HT H) | auto |].
    intros es cs _ HJ. constructor. exact HJ.
Qed.

Theorem refine_all : forall f, R_all f.
Proof.
  induction f as [|f (Hpw & Hmt & Hew & Hiw & Hir & Htr & Hga)].
  - split; [intros k p sc o sc' T _ _ H; discriminate H|].
    split; [intros k p e sc o sc' T _ _ H; discriminate H|].
    split; [intros e sc o sc' T _ _ _ H; discriminate H|].
    split; [intros i sc o sc' T _ _ _ H; discriminate H|].
    split; [intros i sc v sc' T _ _ _ H; discriminate H|].
    split; [intros n q exp sc o sc' T _ _ _ _ H; discriminate H|].
    intros oa sc pos named sc' T _ _ _ H; discriminate H.
  - split; [apply step_pw; assumption|].
    split; [apply step_mt; assumption|].
    split; [apply step_ew; assumption|].
    split; [apply step_iw; assumption|].
    split; [apply step_ir; assumption|].
    split; [apply step_tr; assumption|].
    apply step_ga; assumption.
Qed.

(* ---------- the entry point, isolation off ---------- *)
Theorem write_refines_off fuel n p c o sc :
  cok c -> pattern_named m n = Some p ->
  write_pattern overflow_checks call_function transform formatter rules custom_as_string
    unescape_write unescape_to_string f64_from_str b args fuel (Some (key_of n)) p c = Done (o, sc) ->
  tmp_count (sc_errors sc) = (if sc_dirty sc then 1 else 0) /\
  (sc_dirty sc = false ->
   Eval call_function transform formatter rules custom_as_string unescape_write f64_from_str m args n
     (flatten o, sc_errors sc, sc_calls sc)).
Proof.
  intros Hc Hn H. unfold write_pattern in H.
  destruct (refine_all fuel) as (Hpw & _).
  destruct (Hpw (Some (key_of n)) p (scope_new c) o sc [n] Hc eq_refl H) as (_ & _ & _ & _ & es & cs & E1 & E2 & E3 & HJ).
  cbn [scope_new sc_errors sc_calls app] in E1, E2. rewrite E1, E2.
  split; [rewrite E3; reflexivity|]. intros Hd. exists p. split; [exact Hn | exact (HJ Hd)].
Qed.

(* every call of the resolver gives the scope back with the local arguments it got (the D12 regression):
   in particular a term call inside a term restores the outer term's arguments.  `travelled` holds the
   identities of bundle patterns (keys T), as it does in every scope reachable from a format call on a
   pattern of the bundle. *)
Theorem local_args_restored f :
  (forall i sc o sc' T, cok (sc_intls sc) -> sc_travelled sc <> [] -> sc_travelled sc = keys T ->
                        iw f i sc = Done (o, sc') -> sc_local_args sc' = sc_local_args sc) /\
  (forall i sc v sc' T, cok (sc_intls sc) -> sc_travelled sc <> [] -> sc_travelled sc = keys T ->
                        ir f i sc = Done (v, sc') -> sc_local_args sc' = sc_local_args sc).
Proof.
  destruct (refine_all f) as (_ & _ & _ & Hiw & Hir & _).
  split.
  - intros i sc o sc' T Hc Ht HT H. exact (proj1 (Hiw i sc o sc' T Hc Ht HT H)).
  - intros i sc v sc' T Hc Ht HT H. exact (proj1 (Hir i sc v sc' T Hc Ht HT H)).
Qed.

End Refine.

(* ---------- both settings of use_isolating ---------- *)
Section RefineIso.
Variable overflow_checks : bool.
Variable call_function : bytes -> list fvalue -> fargs -> fvalue.
Variable transform : option (bytes -> bytes).
Variable formatter : option (fvalue -> option bytes).
Variable rules : ntype -> rules_fn.
Variable custom_as_string : bytes -> bytes.
Variable unescape_write : bytes -> bytes.
Variable unescape_to_string : bytes -> bytes.
Variable f64_from_str : bytes -> option fval.
Variable m : list (bytes * bentry).
Variable args : option fargs.
Hypothesis Hun : forall s, unescape_to_string s = unescape_write s.

Notation write iso := (write_pattern overflow_checks call_function transform formatter rules custom_as_string
                         unescape_write unescape_to_string f64_from_str (Bundle m iso) args).

(* D23 excluded when isolating: no selector / call argument is a message or term reference or a
   nested placeable (ResolverSim.v ok_pattern) *)
Definition no_marks_in_values (iso : bool) (p : pattern) : Prop :=
  iso = true -> (forall q, In q (bundle_patterns (Bundle m true)) -> ok_pattern q = true) /\ ok_pattern p = true.

Lemma write_off_of_on fuel top p c o sc :
  cache_ok rules c ->
  (forall q, In q (bundle_patterns (Bundle m true)) -> ok_pattern q = true) -> ok_pattern p = true ->
  write true fuel top p c = Done (o, sc) ->
  exists sc2, write false fuel top p c = Done (strip o, sc2) /\
              sc_errors sc2 = sc_errors sc /\ sc_calls sc2 = sc_calls sc /\ sc_dirty sc2 = sc_dirty sc.
Proof.
  intros Hc Hb Hp H. unfold write_pattern in *.
  destruct (sim_all overflow_checks call_function transform formatter rules custom_as_string
              unescape_write unescape_to_string f64_from_str m true false args (or_intror Hb) fuel) as (Hpw & _).
  specialize (Hpw top p (scope_new c) (scope_new c) (Rs_refl rules (scope_new c) Hc) (or_intror Hp)).
  unfold b1, b2 in Hpw. rewrite H in Hpw.
  pose proof (out_all overflow_checks call_function transform formatter rules custom_as_string
                unescape_write unescape_to_string f64_from_str (Bundle m false) args fuel) as (Bpw & _).
  specialize (Bpw top p (scope_new c)).
  destruct (pattern_write _ _ _ _ _ _ _ _ _ (Bundle m false) args fuel top p (scope_new c)) as [[o2 s2]|t2|];
    unfold RR, rel_out in Hpw; cbn [fst snd] in Hpw; try tauto.
  destruct Hpw as [[Hs _] HR]. destruct (Rs_fields rules _ _ HR) as (_ & Ed & _ & _ & Ee & Ec).
  destruct (Bpw o2 s2 eq_refl) as [_ Hno]. rewrite Hs, (Hno eq_refl).
  exists s2. auto.
Qed.

Theorem write_refines iso fuel n p c o sc :
  cache_ok rules c -> no_marks_in_values iso p -> pattern_named m n = Some p ->
  write iso fuel (Some (key_of n)) p c = Done (o, sc) ->
  tmp_count (sc_errors sc) = (if sc_dirty sc then 1 else 0) /\
  (sc_dirty sc = false ->
   Eval call_function transform formatter rules custom_as_string unescape_write f64_from_str m args n
     (flatten (strip o), sc_errors sc, sc_calls sc)).
Proof.
  intros Hc Hok Hn H. destruct iso.
  - destruct (Hok eq_refl) as [Hb Hp].
    destruct (write_off_of_on fuel (Some (key_of n)) p c o sc Hc Hb Hp H) as (sc2 & H2 & Ee & Ec & Ed).
    destruct (write_refines_off overflow_checks call_function transform formatter rules custom_as_string
                unescape_write unescape_to_string f64_from_str m args Hun fuel n p c (strip o) sc2 Hc Hn H2) as [T J].
    rewrite Ee, Ec, Ed in *. split; assumption.
  - destruct (write_refines_off overflow_checks call_function transform formatter rules custom_as_string
                unescape_write unescape_to_string f64_from_str m args Hun fuel n p c o sc Hc Hn H) as [T J].
    split; [exact T|]. intros Hd.
    pose proof (out_all overflow_checks call_function transform formatter rules custom_as_string
                  unescape_write unescape_to_string f64_from_str (Bundle m false) args fuel) as (Bpw & _).
    destruct (Bpw (Some (key_of n)) p (scope_new c) o sc H) as [_ Hno]. rewrite (Hno eq_refl). exact (J Hd).
Qed.

(* the string API, isolation off: format_pattern returns the text write_pattern writes (ResolverPure.v
   format_eq_write_all; since the fix of D22 for every value formatter) *)
Theorem format_refines_off fuel n p c text sc :
  cache_ok rules c -> pattern_named m n = Some p ->
  format_pattern overflow_checks call_function transform formatter rules custom_as_string
    unescape_write unescape_to_string f64_from_str (Bundle m false) args (S fuel) (Some (key_of n)) p c = Done (text, sc) ->
  ~ In TooManyPlaceables (sc_errors sc) ->
  Eval call_function transform formatter rules custom_as_string unescape_write f64_from_str m args n
    (text, sc_errors sc, sc_calls sc).
Proof.
  intros Hc Hnm H Hn.
  rewrite (format_eq_write_all overflow_checks call_function transform formatter rules custom_as_string
             unescape_write unescape_to_string f64_from_str (Bundle m false) args fuel (Some (key_of n)) p c) in H.
  destruct (write false (S fuel) (Some (key_of n)) p c) as [[o sc1]|t|] eqn:E; try discriminate. injection H as <- <-.
  destruct (write_refines_off overflow_checks call_function transform formatter rules custom_as_string
              unescape_write unescape_to_string f64_from_str m args Hun (S fuel) n p c o sc1 Hc Hnm E) as [T J].
  apply J. destruct (sc_dirty sc1); [exfalso | reflexivity].
  apply Hn, tmp_count_in. rewrite T. discriminate.
Qed.

(* the limit is reported at most once, and exactly when the run was cut short *)
Corollary limit_reported_once iso fuel n p c o sc :
  cache_ok rules c -> no_marks_in_values iso p -> pattern_named m n = Some p ->
  write iso fuel (Some (key_of n)) p c = Done (o, sc) ->
  tmp_count (sc_errors sc) <= 1 /\ (In TooManyPlaceables (sc_errors sc) <-> sc_dirty sc = true).
Proof.
  intros Hc Hok Hn H. destruct (write_refines iso fuel n p c o sc Hc Hok Hn H) as [T _].
  split; [rewrite T; destruct (sc_dirty sc); lia|].
  rewrite <- tmp_count_in, T. destruct (sc_dirty sc); split; intros; congruence || lia.
Qed.

End RefineIso.

(* ---------- the specification is a function: at most one result per pattern ---------- *)
Scheme eval_pattern_min := Minimality for eval_pattern Sort Prop
  with eval_elements_min := Minimality for eval_elements Sort Prop
  with eval_expr_min := Minimality for eval_expr Sort Prop
  with eval_inline_min := Minimality for eval_inline Sort Prop
  with expand_min := Minimality for expand Sort Prop
  with eval_value_min := Minimality for eval_value Sort Prop
  with eval_args_min := Minimality for eval_args Sort Prop
  with eval_values_min := Minimality for eval_values Sort Prop.
Combined Scheme eval_mutind from eval_pattern_min, eval_elements_min, eval_expr_min, eval_inline_min,
  expand_min, eval_value_min, eval_args_min, eval_values_min.


Section Functional.
Variable call_function : bytes -> list fvalue -> fargs -> fvalue.
Variable transform : option (bytes -> bytes).
Variable formatter : option (fvalue -> option bytes).
Variable rules : ntype -> operands -> pcat.
Variable custom_as_string : bytes -> bytes.
Variable unescape : bytes -> bytes.
Variable f64_from_str : bytes -> option fval.
Variable entries : list (bytes * bentry).
Variable args : option fargs.

Notation EP := (eval_pattern call_function transform formatter rules custom_as_string unescape f64_from_str entries args).
Notation EL := (eval_elements call_function transform formatter rules custom_as_string unescape f64_from_str entries args).
Notation EX := (eval_expr call_function transform formatter rules custom_as_string unescape f64_from_str entries args).
Notation EI := (eval_inline call_function transform formatter rules custom_as_string unescape f64_from_str entries args).
Notation EV := (eval_value call_function transform formatter rules custom_as_string unescape f64_from_str entries args).
Notation EA := (eval_args call_function transform formatter rules custom_as_string unescape f64_from_str entries args).
Notation ES := (eval_values call_function transform formatter rules custom_as_string unescape f64_from_str entries args).
Notation XP := (expand call_function transform formatter rules custom_as_string unescape f64_from_str entries args).

Ltac use_ih :=
  match goal with
  | IH : (forall r', EP ?T ?env ?x r' -> r' = _), H : EP ?T ?env ?x _ |- _ => apply IH in H; inversion H; subst; clear H
  | IH : (forall r', EL ?T ?env ?x r' -> r' = _), H : EL ?T ?env ?x _ |- _ => apply IH in H; inversion H; subst; clear H
  | IH : (forall r', EX ?T ?env ?x r' -> r' = _), H : EX ?T ?env ?x _ |- _ => apply IH in H; inversion H; subst; clear H
  | IH : (forall r', EI ?T ?env ?x r' -> r' = _), H : EI ?T ?env ?x _ |- _ => apply IH in H; inversion H; subst; clear H
  | IH : (forall r', XP ?T ?env ?x ?t r' -> r' = _), H : XP ?T ?env ?x ?t _ |- _ => apply IH in H; inversion H; subst; clear H
  | IH : (forall r', EV ?T ?env ?x r' -> r' = _), H : EV ?T ?env ?x _ |- _ => apply IH in H; inversion H; subst; clear H
  | IH : (forall r', EA ?T ?env ?x r' -> r' = _), H : EA ?T ?env ?x _ |- _ => apply IH in H; inversion H; subst; clear H
  | IH : (forall r', ES ?T ?env ?x r' -> r' = _), H : ES ?T ?env ?x _ |- _ => apply IH in H; inversion H; subst; clear H
  end.

Ltac same_lookup :=
  match goal with
  | H1 : ?x = Some _, H2 : ?x = Some _ |- _ => rewrite H1 in H2; injection H2 as ?; subst
  | H1 : ?x = Some _, H2 : ?x = None |- _ => rewrite H1 in H2; discriminate H2
  | H1 : ?x = true, H2 : ?x = false |- _ => rewrite H1 in H2; discriminate H2
  end.

Ltac finish :=
  repeat (first [ use_ih | same_lookup ]);
  try reflexivity; try discriminate.

Theorem eval_functional :
  (forall T env p r, EP T env p r -> forall r', EP T env p r' -> r' = r) /\
  (forall T env els r, EL T env els r -> forall r', EL T env els r' -> r' = r) /\
  (forall T env e r, EX T env e r -> forall r', EX T env e r' -> r' = r) /\
  (forall T env i r, EI T env i r -> forall r', EI T env i r' -> r' = r) /\
  (forall T env i t r, XP T env i t r -> forall r', XP T env i t r' -> r' = r) /\
  (forall T env i r, EV T env i r -> forall r', EV T env i r' -> r' = r) /\
  (forall T env a r, EA T env a r -> forall r', EA T env a r' -> r' = r) /\
  (forall T env l r, ES T env l r -> forall r', ES T env l r' -> r' = r).
Proof.
  apply (eval_mutind call_function transform formatter rules custom_as_string unescape f64_from_str entries args
           (fun T env p r => forall r', EP T env p r' -> r' = r)
           (fun T env els r => forall r', EL T env els r' -> r' = r)
           (fun T env e r => forall r', EX T env e r' -> r' = r)
           (fun T env i r => forall r', EI T env i r' -> r' = r)
           (fun T env i t r => forall r', XP T env i t r' -> r' = r)
           (fun T env i r => forall r', EV T env i r' -> r' = r)
           (fun T env a r => forall r', EA T env a r' -> r' = r)
           (fun T env l r => forall r', ES T env l r' -> r' = r));
    intros; match goal with H : _ |- _ = _ => inversion H; subst; clear H end; finish.
Qed.
End Functional.

(* ---------- consequences of the rules, used by Props/C07.v ---------- *)
Section SpecFacts.
Variable call_function : bytes -> list fvalue -> fargs -> fvalue.
Variable transform : option (bytes -> bytes).
Variable formatter : option (fvalue -> option bytes).
Variable rules : ntype -> operands -> pcat.
Variable custom_as_string : bytes -> bytes.
Variable unescape : bytes -> bytes.
Variable f64_from_str : bytes -> option fval.
Variable entries : list (bytes * bentry).
Variable args : option fargs.

Notation EL := (eval_elements call_function transform formatter rules custom_as_string unescape f64_from_str entries args).
Notation EI := (eval_inline call_function transform formatter rules custom_as_string unescape f64_from_str entries args).
Notation EV := (eval_value call_function transform formatter rules custom_as_string unescape f64_from_str entries args).
Notation EA := (eval_args call_function transform formatter rules custom_as_string unescape f64_from_str entries args).

Lemma spec_term_then_rest T env id attr cargs rest r :
  EL T env (PlaceableElement (Inline (TermReference id attr cargs)) :: rest) r ->
  exists r1 r2, EI T env (TermReference id attr cargs) r1 /\ EL T env rest r2 /\ r = r1 +++ r2.
Proof.
  intros H. inversion H as [| |T' env' e rest' r1 r2 He Hr]; subst. inversion He; subst. eauto.
Qed.

Lemma spec_unknown_message T env id attr r :
  message_target entries id attr = Unknown -> EI T env (MessageReference id attr) r ->
  r = (in_braces (MessageReference id attr), [Reference (RefMessage id attr)], []).
Proof.
  intros Ht H. inversion H; subst.
  match goal with Hx : expand _ _ _ _ _ _ _ _ _ _ _ _ _ _ |- _ => rewrite Ht in Hx; inversion Hx; subst end. reflexivity.
Qed.

Lemma spec_unknown_term T env id attr cargs r :
  term_target entries id attr = Unknown -> EI T env (TermReference id attr cargs) r ->
  exists pos named es cs, EA T env cargs (pos, named, es, cs) /\
    r = (in_braces (TermReference id attr cargs), es ++ [Reference (RefTerm id attr)], cs).
Proof.
  intros Ht H. inversion H; subst.
  match goal with Hx : expand _ _ _ _ _ _ _ _ _ _ _ _ _ _ |- _ => rewrite Ht in Hx; inversion Hx; subst end.
  eexists _, _, _, _. split; [eassumption|]. unfold silent, fails, seq. cbn [fst snd]. rewrite app_nil_r. reflexivity.
Qed.

Lemma spec_unknown_function T env id cargs r :
  function_named entries id = None -> EI T env (FunctionReference id cargs) r ->
  exists pos named es cs, EA T env (Some cargs) (pos, named, es, cs) /\
    r = (in_braces (FunctionReference id cargs), es ++ [Reference (RefFunction id)], cs).
Proof.
  intros Hf H. inversion H; subst; [congruence|].
  eexists _, _, _, _. split; [eassumption | reflexivity].
Qed.

Lemma spec_unknown_function_value T env id cargs r :
  function_named entries id = None -> EV T env (FunctionReference id cargs) r ->
  exists pos named es cs, EA T env (Some cargs) (pos, named, es, cs) /\
    r = (VError, es ++ [Reference (RefFunction id)], cs).
Proof.
  intros Hf H. inversion H; subst; try congruence.
  - eexists _, _, _, _. split; [eassumption | reflexivity].
  - match goal with Hx : textual _ = true |- _ => discriminate Hx end.
Qed.

Lemma spec_missing_variable T env id r :
  variable args env id = None -> EI T env (VariableReference id) r ->
  r = (in_braces (VariableReference id), missing_variable_errors env id, []).
Proof. intros Hv H. inversion H; subst; [congruence | reflexivity]. Qed.

Lemma chosen_first before v after sel :
  (forall u, In u before -> key_matches rules f64_from_str (variant_key_of u) sel = false) ->
  key_matches rules f64_from_str (variant_key_of v) sel = true ->
  chosen rules f64_from_str (before ++ v :: after) sel = Some (variant_value v).
Proof.
  intros Hb Hv. unfold chosen.
  assert (E : find (fun v => key_matches rules f64_from_str (variant_key_of v) sel) (before ++ v :: after) = Some v).
  { induction before as [|u r IH]; cbn [app find].
    - rewrite Hv. reflexivity.
    - rewrite (Hb u (or_introl eq_refl)). apply IH. intros u' Hu. apply Hb. right. exact Hu. }
  rewrite E. reflexivity.
Qed.

Lemma chosen_default variants sel :
  (forall u, In u variants -> key_matches rules f64_from_str (variant_key_of u) sel = false) ->
  chosen rules f64_from_str variants sel = option_map variant_value (find variant_default variants).
Proof.
  intros Hn. unfold chosen.
  assert (E : find (fun v => key_matches rules f64_from_str (variant_key_of v) sel) variants = None).
  { induction variants as [|u r IH]; cbn [find]; [reflexivity|].
    rewrite (Hn u (or_introl eq_refl)). apply IH. intros u' Hu. apply Hn. right. exact Hu. }
  rewrite E. reflexivity.
Qed.

Lemma key_matches_string name s : key_matches rules f64_from_str (KeyIdentifier name) (VString s) = bytes_eqb name s.
Proof. reflexivity. Qed.

Lemma key_matches_number lit x value options :
  f64_from_str lit = Some x ->
  key_matches rules f64_from_str (KeyNumber lit) (VNumber (FNum value options)) = fval_eqb x value.
Proof. intros Hx. unfold key_matches, key_value, try_number, fnumber_from_str. rewrite Hx. reflexivity. Qed.

Lemma key_matches_category name n cat ops :
  plural_keyword name = Some cat -> fnumber_operands n = Done ops ->
  key_matches rules f64_from_str (KeyIdentifier name) (VNumber n) = pcat_eqb (rules (o_type (n_options n)) ops) cat.
Proof. intros Hk Ho. unfold key_matches, key_value. rewrite Hk, Ho. reflexivity. Qed.

End SpecFacts.

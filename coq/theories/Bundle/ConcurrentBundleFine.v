(* Bundle/ConcurrentBundleFine.v — the concurrent bundle of Bundle/ConcurrentBundle.v with the memoizer's Mutex made
   EXPLICIT: a thread's `with_try_get_threadsafe::<PluralRules>` call is no longer one atomic step of the scheduler but the
   sequence of micro-steps of Memo/FineGrained.v (the fine-grained model of intl-memoizer/src/concurrent.rs with_try_get),
   any of which other threads may interleave with.  Definitions only; proofs in Bundle/ConcurrentBundleFineProofs.v.

   WHAT IS REUSED.  Nothing of the two developments is written a second time:
     - the resolver as a process (`proc`, `request_proc`), the threads (`thread`: call in progress, requests to issue,
       finished calls), the shared memoizer with its poison flag (`bmemo`), `pr_construct`, `select_callback`, the key
       (`PLURAL_RULES`, `args_of`) are those of Bundle/ConcurrentBundle.v;
     - the program counter inside with_try_get (`FineGrained.pc`: PIdle PLocked PCache PMiss PBuilt PEntry PRet), the
       micro-steps LookupType .. Callback on the shared data (`FineGrained.inner_step`) and "what the rest of the critical
       section will do" (`FineGrained.pending`) are those of Memo/FineGrained.v, instantiated with I = rules_fn (the
       PluralRules object), E = cerr, R = outcome bool (the closure `|pr| pr.0.select(b) == Ok(cat)`, which may panic)
       and the callback of the request at hand.

   ONE MEMOIZER ACCESS (t_cur = PAsk ty num cat k), micro-step by micro-step
       types/mod.rs matches:  scope.bundle.intls.with_try_get_threadsafe::<PluralRules,_,_>((ty,), |pr| ..).unwrap()
       -> concurrent.rs (fluent-bundle) with_try_get_threadsafe -> intl-memoizer concurrent.rs with_try_get:

     micro-step    intl-memoizer/src/concurrent.rs                                               pc before -> after
     Lock          l.32  let mut map = self.map.lock().unwrap();     BLOCKS unless the mutex is free   PIdle -> PLocked
                         (mutex poisoned: lock() still acquires, returns Err(PoisonError{guard}),      PIdle -> PRet (Ok (Panic PoisonError))
                          unwrap panics, the guard inside the error is dropped by the unwinding)
     LookupType    l.33  map.entry::<HashMap<I::Args, I>>().or_insert_with(HashMap::new)               PLocked -> PCache
     LookupArgs    l.37  match cache.entry(args.clone())                                               PCache -> PEntry e | PMiss
     Construct     l.40  let val = I::construct(self.lang.clone(), args)?;                             PMiss -> PBuilt val | PRet (Err er)
     Insert        l.41  entry.insert(val)                                                             PBuilt val -> PEntry val
     Callback      l.44  Ok(cb(e))      = pr.0.select(b) == Ok(cat), may panic (`expect` in number.rs)  PEntry e -> PRet (Ok (cb e))
     Unlock        l.45  `}`: the guard is dropped (a panicking callback: dropped by the unwinding,      PRet r -> PIdle
                         which sets the poison flag); then, OUTSIDE the lock, `.unwrap()` of the
                         Result in types/mod.rs and the call goes on with the continuation k

   Only Lock looks at the mutex (`fb_holder`).  That at most one thread is between Lock and Unlock, that the holder never
   waits, and that every interleaving of these micro-steps is observably an interleaving of the ATOMIC steps of
   ConcurrentBundle.sched_step are theorems (ConcurrentBundleFineProofs.v), not part of the step function.

   THREAD-LOCAL STEPS NEED NO LOCK.  The two other things a thread does — begin its next format_pattern call, return from
   it (`local_step`) — and all the resolver work between two memoizer accesses (folded into the process continuation `k`,
   ConcurrentBundle.v GRANULARITY) touch only state owned by the call: the Scope (`scope`, created by format_pattern for
   this call: placeable counter, travelled list, local args, dirty flag), the error vector and the output buffer are
   per call; the bundle (entries, transform, formatter, functions) and the caller's arguments are behind `&` and never
   written while the bundle is shared.  No step of another thread can read or write any of them, so they commute with
   everything and are scheduled here exactly as in ConcurrentBundle.v, without looking at the mutex.                   *)
From FluentV Require Export Bundle.ConcurrentBundle.
From FluentV Require Memo.Memoizer Memo.Concurrent Memo.FineGrained.

Section FineThreads.
Variable overflow_checks : bool.
Variable call_function : bytes -> list fvalue -> fargs -> fvalue.
Variable transform : option (bytes -> bytes).
Variable formatter : option (fvalue -> option bytes).
Variable as_string : bytes -> bytes.
Variable as_string_threadsafe : bytes -> bytes.
Variable unescape_write : bytes -> bytes.
Variable unescape_to_string : bytes -> bytes.
Variable f64_from_str : bytes -> option fval.
Variable cerr : Type.
Variable plural_construct : Memoizer.lang -> ntype -> Memoizer.result rules_fn cerr.
Variable b : bundle.
Variable lang : Memoizer.lang.

Notation request_proc := (request_proc overflow_checks call_function transform formatter as_string as_string_threadsafe
                            unescape_write unescape_to_string f64_from_str b).

(* program counter inside intl-memoizer concurrent.rs with_try_get::<PluralRules> (Memo/FineGrained.v) *)
Definition mpc : Type := FineGrained.pc rules_fn cerr (outcome bool).

(* a thread of ConcurrentBundle.v + where it is inside its current memoizer access (PIdle: not inside) *)
Record cthread := CT { ct_th : thread; ct_pc : mpc }.

(* the shared memoizer (data + poison flag, ConcurrentBundle.bmemo), the Mutex (None = free, Some tid = locked by tid),
   the threads *)
Record fbstate := FB { fb_memo : bmemo; fb_holder : option nat; fb_threads : list cthread }.

(* new_concurrent (cold memoizer, free mutex), then std::thread::scope spawns the threads *)
Definition fb_init (programs : list (list frequest)) : fbstate :=
  FB (bmemo_new lang) None (map (fun p => CT (thread_new p) FineGrained.PIdle) programs).

(* the steps of a thread that touch nothing shared (bundle.rs format_pattern entry and exit): begin the next call, return
   from the call.  None: the thread is finished or is at a memoizer access. *)
Definition local_step (th : thread) : option thread :=
  match t_cur th with
  | None =>
      match t_todo th with
      | [] => None
      | rq :: rest => Some (Thread (Some (rq, request_proc rq)) rest (t_done th))
      end
  | Some (rq, PRet r) => Some (Thread None (t_todo th) (t_done th ++ [(rq, r)]))
  | Some (_, PAsk _ _ _ _) => None
  end.

(* Lock succeeded: where the thread stands.  On a poisoned mutex `lock()` returns the guard inside a PoisonError and
   `.unwrap()` panics: nothing of the critical section runs, the only step left is the drop of that guard. *)
Definition lock_pc (poisoned : bool) : mpc :=
  if poisoned then FineGrained.PRet (Memoizer.Ok (Panic "PoisonError")) else FineGrained.PLocked.

(* types/mod.rs: `.unwrap()` of with_try_get_threadsafe's Result (after the guard is gone) *)
Definition unwrap_answer (r : Memoizer.result (outcome bool) cerr) : outcome bool :=
  match r with
  | Memoizer.Ok o => o
  | Memoizer.Err _ => Panic "called Result::unwrap() on an Err value"
  end.

(* std MutexGuard::drop: a guard dropped while its thread is panicking poisons the mutex *)
Definition poison_after (r : Memoizer.result (outcome bool) cerr) (was : bool) : bool :=
  match r with
  | Memoizer.Ok (Panic _) => true
  | _ => was
  end.

(* the call goes on with the callback's boolean; a panic unwinds the call (same as ConcurrentBundle.sched_step) *)
Definition resume {X} (k : bool -> proc X) (ans : outcome bool) : proc X :=
  match ans with
  | Done r => k r
  | Panic t => PRet (Panic t)
  | OutOfFuel => PRet OutOfFuel
  end.

(* the micro-steps LookupType .. Callback of the access (ty, num, cat) on the shared memoizer: FineGrained.inner_step with
   the construct and the callback memo_step uses; the poison flag is not touched inside the critical section *)
Definition memo_inner (p : mpc) (m : bmemo) (ty : ntype) (num : fnumber) (cat : pcat) : bmemo * mpc :=
  let '(lm', n', tr', p') :=
    FineGrained.inner_step rules_fn cerr (outcome bool) (pr_construct cerr plural_construct)
      (fun _ => select_callback num cat) p (m_lm m) (m_counter m) (m_trace m) PLURAL_RULES (args_of ty) 0%nat in
  (BMemo lm' n' tr' (m_poisoned m), p').

(* one scheduling of thread tid.  Scheduling a thread that is blocked on the mutex, has finished, or does not exist is a
   no-op. *)
Definition fb_step (s : fbstate) (tid : nat) : fbstate :=
  match nth_error (fb_threads s) tid with
  | None => s
  | Some ct =>
      let th := ct_th ct in
      match local_step th with
      | Some th' =>                                                     (* begin / return: thread-local, no lock *)
          FB (fb_memo s) (fb_holder s) (Memoizer.set_nth tid (CT th' FineGrained.PIdle) (fb_threads s))
      | None =>
          match t_cur th with
          | Some (rq, PAsk ty num cat k) =>
              match ct_pc ct with
              | FineGrained.PIdle =>                                    (* Lock *)
                  match fb_holder s with
                  | None => FB (fb_memo s) (Some tid)
                               (Memoizer.set_nth tid (CT th (lock_pc (m_poisoned (fb_memo s)))) (fb_threads s))
                  | Some _ => s                                         (* blocked *)
                  end
              | FineGrained.PRet r =>                                   (* Unlock, then unwrap and go on with the call *)
                  let m := fb_memo s in
                  FB (BMemo (m_lm m) (m_counter m) (m_trace m) (poison_after r (m_poisoned m))) None
                     (Memoizer.set_nth tid
                        (CT (Thread (Some (rq, resume k (unwrap_answer r))) (t_todo th) (t_done th)) FineGrained.PIdle)
                        (fb_threads s))
              | p =>                                                    (* LookupType .. Callback *)
                  let '(m', p') := memo_inner p (fb_memo s) ty num cat in
                  FB m' (fb_holder s) (Memoizer.set_nth tid (CT th p') (fb_threads s))
              end
          | _ => s                                                      (* finished *)
          end
      end
  end.

(* a fine schedule is a list of thread ids *)
Definition fb_run_from (s : fbstate) (fs : list nat) : fbstate := fold_left fb_step fs s.
Definition fb_run (programs : list (list frequest)) (fs : list nat) : fbstate := fb_run_from (fb_init programs) fs.

(* what a scheduling of tid does (None = no-op); documentation and examples *)
Inductive faction := FBegin | FReturn | FMicro (m : FineGrained.micro).

Definition fb_action (s : fbstate) (tid : nat) : option faction :=
  match nth_error (fb_threads s) tid with
  | None => None
  | Some ct =>
      match t_cur (ct_th ct) with
      | None => match t_todo (ct_th ct) with [] => None | _ :: _ => Some FBegin end
      | Some (_, PRet _) => Some FReturn
      | Some (_, PAsk _ _ _ _) =>
          match ct_pc ct with
          | FineGrained.PIdle => match fb_holder s with None => Some (FMicro FineGrained.MLock) | Some _ => None end
          | FineGrained.PLocked => Some (FMicro FineGrained.MLookupType)
          | FineGrained.PCache => Some (FMicro FineGrained.MLookupArgs)
          | FineGrained.PMiss => Some (FMicro FineGrained.MConstruct)
          | FineGrained.PBuilt _ => Some (FMicro FineGrained.MInsert)
          | FineGrained.PEntry _ => Some (FMicro FineGrained.MCallback)
          | FineGrained.PRet _ => Some (FMicro FineGrained.MUnlock)
          end
      end
  end.

Fixpoint fb_actions (s : fbstate) (fs : list nat) : list (nat * option faction) :=
  match fs with
  | [] => []
  | tid :: r => (tid, fb_action s tid) :: fb_actions (fb_step s tid) r
  end.

(* can tid move?  (false exactly for: no such thread, finished, waiting in lock() for a held mutex) *)
Definition fb_enabled (s : fbstate) (tid : nat) : bool :=
  match nth_error (fb_threads s) tid with
  | None => false
  | Some ct =>
      match local_step (ct_th ct) with
      | Some _ => true
      | None =>
          match t_cur (ct_th ct) with
          | Some (_, PAsk _ _ _ _) =>
              match ct_pc ct with
              | FineGrained.PIdle => match fb_holder s with None => true | Some _ => false end
              | _ => true
              end
          | _ => false
          end
      end
  end.

(* is this scheduling of tid a step of the ATOMIC model?  The thread-local steps are (they are the same steps there); of
   the micro-steps of a memoizer access exactly one is: the successful Lock (as in FineGrained.lock_succeeds). *)
Definition fb_commits (s : fbstate) (tid : nat) : bool :=
  match nth_error (fb_threads s) tid with
  | None => false
  | Some ct =>
      match local_step (ct_th ct) with
      | Some _ => true
      | None =>
          match t_cur (ct_th ct), ct_pc ct, fb_holder s with
          | Some (_, PAsk _ _ _ _), FineGrained.PIdle, None => true
          | _, _, _ => false
          end
      end
  end.

(* the schedule of ConcurrentBundle.v a fine schedule induces: the thread ids of its thread-local steps and of its
   successful Locks, in order *)
Fixpoint commit_order (s : fbstate) (fs : list nat) : list nat :=
  match fs with
  | [] => []
  | tid :: r => if fb_commits s tid then tid :: commit_order (fb_step s tid) r
                else commit_order (fb_step s tid) r
  end.

(* the observable state, as a state of ConcurrentBundle.v: the memoizer and the threads without their pc *)
Definition fb_proj (s : fbstate) : cstate := CState (fb_memo s) (map ct_th (fb_threads s)).

(* every thread has returned from its last call *)
Definition fb_finished (s : fbstate) : bool := forallb (fun ct => thread_finished (ct_th ct)) (fb_threads s).

(* per thread: (request, result) of its finished calls *)
Definition fb_results (s : fbstate) : list (list (frequest * outcome (bytes * scope))) :=
  map (fun ct => t_done (ct_th ct)) (fb_threads s).

(* Unlock applied to what FineGrained.pending says the rest of the critical section will have done: the memoizer after
   the access and the answer the call continues with *)
Definition commit_memo (m : bmemo)
  (x : Memoizer.lmemo rules_fn * nat * Memoizer.result (outcome bool) cerr * list Memoizer.cevent) : bmemo * outcome bool :=
  let '(lm2, n2, r, evs) := x in
  (BMemo lm2 n2 (evs ++ m_trace m) (poison_after r (m_poisoned m)), unwrap_answer r).

(* abstraction: the observable state once the thread inside the critical section (if any) has left it *)
Definition fb_abs (s : fbstate) : cstate :=
  match fb_holder s with
  | None => fb_proj s
  | Some tid =>
      match nth_error (fb_threads s) tid with
      | Some ct =>
          match t_cur (ct_th ct) with
          | Some (rq, PAsk ty num cat k) =>
              let m := fb_memo s in
              let '(m', ans) :=
                commit_memo m (FineGrained.pending rules_fn cerr (outcome bool) (pr_construct cerr plural_construct)
                                 (fun _ => select_callback num cat) (ct_pc ct) (m_lm m) (m_counter m)
                                 PLURAL_RULES (args_of ty) 0%nat) in
              CState m' (Memoizer.set_nth tid (Thread (Some (rq, resume k ans)) (t_todo (ct_th ct)) (t_done (ct_th ct)))
                           (map ct_th (fb_threads s)))
          | _ => fb_proj s
          end
      | None => fb_proj s
      end
  end.

End FineThreads.

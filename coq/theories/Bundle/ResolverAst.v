(* Bundle/ResolverAst.v — structural helpers on Syntax/Ast.v used by the resolver model: the size
   measures from which the fuel of the resolver is computed, and the derived `PartialEq` of the AST.
   Since the fix of D31 (Scope::track compares pattern objects with std::ptr::eq) the resolver model
   no longer uses `pattern_eqb` / `pattern_mem`: identity of a pattern object is its key
   (ResolverModel.v pkey).  The definitions stay for the specification side (C07).  Definitions only. *)
From FluentV Require Export Base.Bytes Syntax.Ast.

Section ListEqb.
Context {A : Type} (eqb : A -> A -> bool).
Definition list_eqb : list A -> list A -> bool :=
  fix go (l1 l2 : list A) : bool :=
    match l1, l2 with
    | [], [] => true
    | x :: r1, y :: r2 => eqb x y && go r1 r2
    | _, _ => false
    end.
End ListEqb.

Definition option_eqb {A} (eqb : A -> A -> bool) (a b : option A) : bool :=
  match a, b with
  | None, None => true
  | Some x, Some y => eqb x y
  | _, _ => false
  end.

Definition key_eqb (a b : variant_key) : bool :=
  match a, b with
  | KeyIdentifier x, KeyIdentifier y => bytes_eqb x y
  | KeyNumber x, KeyNumber y => bytes_eqb x y
  | _, _ => false
  end.

(* #[derive(PartialEq)] on ast::InlineExpression, Expression, Variant, Pattern, PatternElement,
   CallArguments, NamedArgument *)
Fixpoint inline_eqb (a b : inline) {struct a} : bool :=
  match a, b with
  | StringLiteral x, StringLiteral y => bytes_eqb x y
  | NumberLiteral x, NumberLiteral y => bytes_eqb x y
  | FunctionReference i1 a1, FunctionReference i2 a2 => bytes_eqb i1 i2 && args_eqb a1 a2
  | MessageReference i1 t1, MessageReference i2 t2 => bytes_eqb i1 i2 && option_eqb bytes_eqb t1 t2
  | TermReference i1 t1 a1, TermReference i2 t2 a2 =>
      bytes_eqb i1 i2 && option_eqb bytes_eqb t1 t2 &&
      match a1, a2 with
      | None, None => true
      | Some x, Some y => args_eqb x y
      | _, _ => false
      end
  | VariableReference x, VariableReference y => bytes_eqb x y
  | Placeable x, Placeable y => expression_eqb x y
  | _, _ => false
  end
with expression_eqb (a b : expression) {struct a} : bool :=
  match a, b with
  | Select s1 v1, Select s2 v2 => inline_eqb s1 s2 && list_eqb variant_eqb v1 v2
  | Inline x, Inline y => inline_eqb x y
  | _, _ => false
  end
with variant_eqb (a b : variant) {struct a} : bool :=
  match a, b with
  | Variant k1 p1 d1, Variant k2 p2 d2 => key_eqb k1 k2 && pattern_eqb p1 p2 && Bool.eqb d1 d2
  end
with pattern_eqb (a b : pattern) {struct a} : bool :=
  match a, b with
  | Pattern e1, Pattern e2 => list_eqb element_eqb e1 e2
  end
with element_eqb (a b : pattern_element) {struct a} : bool :=
  match a, b with
  | TextElement x, TextElement y => bytes_eqb x y
  | PlaceableElement x, PlaceableElement y => expression_eqb x y
  | _, _ => false
  end
with args_eqb (a b : call_args) {struct a} : bool :=
  match a, b with
  | CallArguments p1 n1, CallArguments p2 n2 => list_eqb inline_eqb p1 p2 && list_eqb named_eqb n1 n2
  end
with named_eqb (a b : named_arg) {struct a} : bool :=
  match a, b with
  | NamedArgument x v1, NamedArgument y v2 => bytes_eqb x y && inline_eqb v1 v2
  end.

(* SmallVec::contains on a list of patterns (what `travelled.contains` did before the fix of D31) *)
Definition pattern_mem (p : pattern) (l : list pattern) : bool := existsb (pattern_eqb p) l.

(* ---------- local weight: recursion depth needed inside one pattern (see ResolverModel.v) ---------- *)
Definition list_max (l : list nat) : nat := fold_right Nat.max 0 l.

(* lw_* n = number of nested calls of the resolver's mutual fixpoint needed to process the node,
   not counting what happens inside a message/term pattern entered through Scope::track.       *)
Fixpoint lw_inline (i : inline) : nat :=
  match i with
  | StringLiteral _ | NumberLiteral _ | VariableReference _ => 1
  | MessageReference _ _ => 2
  | TermReference _ _ a => 2 + match a with None => 1 | Some a' => lw_args a' end
  | FunctionReference _ a => 1 + lw_args a
  | Placeable e => 1 + lw_expr e
  end
with lw_expr (e : expression) : nat :=
  match e with
  | Inline i => 1 + lw_inline i
  | Select s vs => 1 + Nat.max (1 + lw_inline s) (list_max (map lw_variant vs))
  end
with lw_variant (v : variant) : nat :=
  match v with Variant _ p _ => lw_pattern p end
with lw_pattern (p : pattern) : nat :=
  match p with Pattern els => 2 + list_max (map lw_element els) end
with lw_element (x : pattern_element) : nat :=
  match x with
  | TextElement _ => 0
  | PlaceableElement e => lw_expr e
  end
with lw_args (a : call_args) : nat :=
  match a with
  | CallArguments pos named => 1 + Nat.max (list_max (map (fun i => 1 + lw_inline i) pos))
                                           (list_max (map lw_named named))
  end
with lw_named (n : named_arg) : nat :=
  match n with NamedArgument _ v => 1 + lw_inline v end.

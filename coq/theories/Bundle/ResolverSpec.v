(* Bundle/ResolverSpec.v — SPECIFICATION of Fluent resolution (property C07).

   A big-step relation  `Eval name (text, errors, calls)`  that says what the text of a pattern is,
   which errors are reported and which registered functions are applied to what — one rule per
   clause of the property, written from the property text and independent of the control flow
   of the resolver (no scope record, no writer, no fuel, no placeable counter).  The resolver
   model (Bundle/ResolverModel.v) is proved to produce exactly this (Bundle/ResolverRefine.v,
   Props/C07.v) for every run that stays below the placeable limit.

   Judgements (T = the entries being expanded, for cycles; env = the arguments in force):
     eval_pattern  T env pattern      (text, errors, calls)
     eval_elements T env elements     (text, errors, calls)        left to right
     eval_expr     T env expression   (text, errors, calls)        inline or select
     eval_inline   T env inline       (text, errors, calls)        an inline expression PRINTED
     eval_value    T env inline       (value, errors, calls)       an inline expression as a VALUE
                                                                    (selector, call argument)
     eval_values / eval_args                                        call arguments, left to right
     expand        T env reference target (text, errors, calls)    a message/term/attribute reference

   T : list pname = the messages / terms / attributes being expanded, by NAME (message value, message attribute,
   term value, term attribute).  A reference to one of them is a cycle.  Two different entries with the same
   text are different entries: expanding one from inside the other is no cycle (the resolver used to compare
   patterns structurally there: finding D31, fixed; Props/C07.v C07_example_equal_patterns_no_cycle).

   env : option fargs.   None   = we are in a message: variables are the CALLER's arguments;
                         Some a = we are inside a term: variables are ONLY the named arguments `a`
                                  of its call site.  env is an argument of the judgement, not a
                                  state: when a nested term call returns, the outer term's env is
                                  simply still there (the D12 regression is impossible by shape).
   T is likewise an argument: an entry is "being expanded" exactly while its sub-derivation is open.

   NOT in this specification (see Props/C07.v for what is proved about them separately):
     * the placeable limit (MAX_PLACEABLES): Eval describes runs that do not reach it;
     * bidi isolation marks: Eval gives the text without FSI/PDI (C09 relates the two);
     * number formatting and plural rules are parameters (`print` on numbers, `rules`): C12.    *)
From FluentV Require Import Base.Bytes Base.Outcome Syntax.Ast Bundle.Args Bundle.ArgsProofs Bundle.Number
  Bundle.ResolverAst Bundle.ResolverModel.

Local Open Scope N_scope.

(* Taken from the model files as DATA only: the AST, fvalue / fnumber / try_number / NUMBER /
   fnumber_operands (Number.v), resolver_error / reference_kind / bentry / call_record,
   entry_find (the bundle is an association id -> entry, first registration wins: C10),
   find_attribute (first attribute of that name), plural_keyword (the six category names),
   lookup / ins_all (FluentArgs is a keyed map: C11). *)

(* (text, errors, calls) and (value, errors, calls) *)
Definition res : Type := bytes * list resolver_error * list call_record.
Definition vres : Type := fvalue * list resolver_error * list call_record.

Definition just (t : bytes) : res := (t, [], []).
Definition fails (t : bytes) (e : resolver_error) : res := (t, [e], []).
(* first r1, then r2 *)
Definition seq (r1 r2 : res) : res :=
  (fst (fst r1) ++ fst (fst r2), snd (fst r1) ++ snd (fst r2), snd r1 ++ snd r2).
Infix "+++" := seq (at level 60, right associativity).
(* the errors and calls of evaluating a selector / arguments, no text *)
Definition silent (es : list resolver_error) (cs : list call_record) : res := ([], es, cs).

(* ---------- source forms ---------- *)
(* how a reference is written in the source: name, -term, msg.attr, -term.attr, FUN(), $var *)
Definition source_form (r : inline) : bytes :=
  match r with
  | MessageReference id None => id
  | MessageReference id (Some a) => id ++ [46] ++ a
  | TermReference id None _ => [45] ++ id
  | TermReference id (Some a) _ => [45] ++ id ++ [46] ++ a
  | FunctionReference id _ => id ++ [40; 41]
  | VariableReference id => [36] ++ id
  | _ => []
  end.
Definition in_braces (r : inline) : bytes := [123] ++ source_form r ++ [125].

Definition reference_error (r : inline) : resolver_error :=
  Reference (match r with
             | MessageReference id a => RefMessage id a
             | TermReference id a _ => RefTerm id a
             | FunctionReference id _ => RefFunction id
             | VariableReference id => RefVariable id
             | _ => RefVariable []                      (* not a reference; never asked *)
             end).

(* the patterns of a bundle, by name: value or attribute of a message, value or attribute of a term *)
Inductive pname := NMessage (id : bytes) (attr : option bytes) | NTerm (id : bytes) (attr : option bytes).

Definition pname_eqb (a b : pname) : bool :=
  match a, b with
  | NMessage i x, NMessage j y | NTerm i x, NTerm j y => bytes_eqb i j && option_eqb bytes_eqb x y
  | _, _ => false
  end.

(* a reference resolves to a named pattern, to nothing, or to a message that has no value *)
Inductive target := Found (n : pname) (q : pattern) | Unknown | Valueless (id : bytes).

Definition attr_or_value (name : option bytes -> pname) (value : option pattern) (attrs : list attribute)
                         (attr : option bytes) (id : bytes) : target :=
  match attr with
  | Some a => match find_attribute attrs a with Some q => Found (name attr) q | None => Unknown end
  | None => match value with Some q => Found (name None) q | None => Valueless id end
  end.

(* the entry named n is one of those being expanded *)
Definition being_expanded (n : pname) (T : list pname) : bool := existsb (pname_eqb n) T.

Section Spec.
Variable call_function : bytes -> list fvalue -> fargs -> fvalue.    (* the registered functions, by name *)
Variable transform : option (bytes -> bytes).                        (* the bundle's text transform *)
Variable formatter : option (fvalue -> option bytes).                (* the bundle's value formatter *)
Variable rules : ntype -> operands -> pcat.                          (* plural rules of the bundle's locale *)
Variable custom_as_string : bytes -> bytes.                          (* printing of custom types *)
Variable unescape : bytes -> bytes.                                  (* string-literal escapes (C13) *)
Variable f64_from_str : bytes -> option fval.                        (* number-literal parsing (C12) *)
Variable entries : list (bytes * bentry).                            (* the bundle: id -> message | term | function *)
Variable args : option fargs.                                        (* the caller's arguments *)

Definition transformed (s : bytes) : bytes := match transform with Some tr => tr s | None => s end.

(* a value printed: through the formatter if it takes the value, else its plain form.
   Corner: Error and None print as the empty string. *)
Definition print (v : fvalue) : bytes :=
  match (match formatter with Some fm => fm v | None => None end) with
  | Some s => s
  | None =>
      match v with
      | VString s => s
      | VNumber n => fnumber_as_string n
      | VCustom c => custom_as_string c
      | VNone | VError => []
      end
  end.

(* ---------- lookups ---------- *)
Definition message_target (id : bytes) (attr : option bytes) : target :=
  match entry_find entries id with
  | Some (EMessage value attrs) => attr_or_value (NMessage id) value attrs attr id
  | _ => Unknown                                        (* no entry, or the id names a term / function *)
  end.
Definition term_target (id : bytes) (attr : option bytes) : target :=
  match entry_find entries id with
  | Some (ETerm value attrs) => attr_or_value (NTerm id) (Some value) attrs attr id
  | _ => Unknown
  end.
Definition pattern_named (n : pname) : option pattern :=
  match (match n with NMessage id attr => message_target id attr | NTerm id attr => term_target id attr end) with
  | Found _ q => Some q
  | _ => None
  end.
Definition function_named (id : bytes) : option func_impl :=
  match entry_find entries id with Some (EFunction f) => Some f | _ => None end.
Definition apply_function (f : func_impl) (pos : list fvalue) (named : fargs) : fvalue :=
  match f with FnNUMBER => NUMBER pos named | FnUser name => call_function name pos named end.

(* a variable: inside a term ONLY the call-site arguments, otherwise the caller's *)
Definition variable (env : option fargs) (id : bytes) : option fvalue :=
  match env with
  | Some a => lookup fvalue a id
  | None => match args with Some a => lookup fvalue a id | None => None end
  end.
(* a missing variable is an error of the CALLER's argument set; a parameter the term was not given is not *)
Definition missing_variable_errors (env : option fargs) (id : bytes) : list resolver_error :=
  match env with None => [Reference (RefVariable id)] | Some _ => [] end.

(* the named arguments of a call as the callee receives them (a keyed map; the last of two equal names wins) *)
Definition collect (kvs : list (bytes * fvalue)) : fargs := ins_all fvalue [] kvs.

(* ---------- select ---------- *)
Definition key_value (k : variant_key) : fvalue :=
  match k with KeyIdentifier name => VString name | KeyNumber lit => try_number f64_from_str lit end.

(* a key equals the selector:  exact string | exact numeric VALUE (options play no role: D14) |
   the key names the plural category of the selector number (cardinal / ordinal as the number says).
   A string selector never equals a number key; Custom / None / Error selectors equal nothing. *)
Definition key_matches (k : variant_key) (sel : fvalue) : bool :=
  match key_value k, sel with
  | VString a, VString s => bytes_eqb a s
  | VNumber a, VNumber n => fval_eqb (n_value a) (n_value n)
  | VString a, VNumber n =>
      match plural_keyword a, fnumber_operands n with
      | Some cat, Done ops => pcat_eqb (rules (o_type (n_options n)) ops) cat
      | _, _ => false
      end
  | _, _ => false
  end.

Definition variant_key_of (v : variant) : variant_key := match v with Variant k _ _ => k end.
Definition variant_value (v : variant) : pattern := match v with Variant _ p _ => p end.
Definition variant_default (v : variant) : bool := match v with Variant _ _ d => d end.

(* the FIRST variant whose key equals the selector, otherwise the (first) default variant *)
Definition chosen (variants : list variant) (sel : fvalue) : option pattern :=
  match find (fun v => key_matches (variant_key_of v) sel) variants with
  | Some v => Some (variant_value v)
  | None => option_map variant_value (find variant_default variants)
  end.

(* message / term / attribute references and nested placeables have no value of their own: as a
   selector or argument they are the string they print *)
Definition textual (i : inline) : bool :=
  match i with MessageReference _ _ | TermReference _ _ _ | Placeable _ => true | _ => false end.

Definition named_name (n : named_arg) : bytes := match n with NamedArgument name _ => name end.
Definition named_value (n : named_arg) : inline := match n with NamedArgument _ v => v end.

(* ---------- the rules ---------- *)
Inductive eval_pattern : list pname -> option fargs -> pattern -> res -> Prop :=
| P_elements T env els r :
    eval_elements T env els r ->
    eval_pattern T env (Pattern els) r

with eval_elements : list pname -> option fargs -> list pattern_element -> res -> Prop :=
| L_end T env :
    eval_elements T env [] (just [])
| L_text T env s rest r :                                      (* text verbatim, after the transform *)
    eval_elements T env rest r ->
    eval_elements T env (TextElement s :: rest) (just (transformed s) +++ r)
| L_placeable T env e rest r1 r2 :
    eval_expr T env e r1 -> eval_elements T env rest r2 ->
    eval_elements T env (PlaceableElement e :: rest) (r1 +++ r2)

with eval_expr : list pname -> option fargs -> expression -> res -> Prop :=
| X_inline T env i r :
    eval_inline T env i r ->
    eval_expr T env (Inline i) r
| X_select T env sel variants v es cs q r :                    (* the selector's errors are reported, then the variant's *)
    eval_value T env sel (v, es, cs) -> chosen variants v = Some q ->
    eval_pattern T env q r ->                                  (* a variant is part of the pattern around it: same T, same env *)
    eval_expr T env (Select sel variants) (silent es cs +++ r)
| X_select_no_default T env sel variants v es cs :             (* corner: cannot be written in FTL; nothing is printed *)
    eval_value T env sel (v, es, cs) -> chosen variants v = None ->
    eval_expr T env (Select sel variants) (silent es cs +++ fails [] MissingDefault)

with eval_inline : list pname -> option fargs -> inline -> res -> Prop :=
| I_string T env s :                                           (* neither transformed nor formatted *)
    eval_inline T env (StringLiteral s) (just (unescape s))
| I_number T env s :
    eval_inline T env (NumberLiteral s) (just (print (try_number f64_from_str s)))
| I_variable T env id v :
    variable env id = Some v ->
    eval_inline T env (VariableReference id) (just (print v))
| I_variable_missing T env id :                                (* {$var}; an error only outside terms *)
    variable env id = None ->
    eval_inline T env (VariableReference id) (in_braces (VariableReference id), missing_variable_errors env id, [])
| I_message T env id attr r :                                  (* a message sees the arguments of whoever refers to it *)
    expand T env (MessageReference id attr) (message_target id attr) r ->
    eval_inline T env (MessageReference id attr) r
| I_term T env id attr cargs pos named es cs r :               (* a term sees ONLY its call-site named arguments *)
    eval_args T env cargs (pos, named, es, cs) ->              (* corner: positional arguments of a term call are evaluated
                                                                  (their errors and calls count) and then ignored *)
    expand T (Some named) (TermReference id attr cargs) (term_target id attr) r ->
    eval_inline T env (TermReference id attr cargs) (silent es cs +++ r)
| I_function T env id cargs pos named es cs f v :              (* applied to the resolved positional and named arguments *)
    eval_args T env (Some cargs) (pos, named, es, cs) -> function_named id = Some f ->
    v = apply_function f pos named ->
    eval_inline T env (FunctionReference id cargs)
      (match v with
       | VError => source_form (FunctionReference id cargs)    (* corner: a function answering Error prints FUN() without
                                                                  braces and reports nothing; None prints as empty *)
       | _ => print v
       end, es, cs ++ [Call id pos named])
| I_function_unknown T env id cargs pos named es cs :          (* {FUN()}; the arguments are evaluated first *)
    eval_args T env (Some cargs) (pos, named, es, cs) -> function_named id = None ->
    eval_inline T env (FunctionReference id cargs)
      (in_braces (FunctionReference id cargs), es ++ [reference_error (FunctionReference id cargs)], cs)
| I_placeable T env e r :
    eval_expr T env e r ->
    eval_inline T env (Placeable e) r

(* r = the reference as written; what it stands for *)
with expand : list pname -> option fargs -> inline -> target -> res -> Prop :=
| R_found T env r n q out :
    being_expanded n T = false ->
    eval_pattern (n :: T) env q out ->
    expand T env r (Found n q) out
| R_cyclic T env r n q :                                       (* n is being expanded already: reported here, once, not entered *)
    being_expanded n T = true ->
    expand T env r (Found n q) (fails (in_braces r) Cyclic)
| R_unknown T env r :                                          (* unknown message / term / attribute: {source form}, one error *)
    expand T env r Unknown (fails (in_braces r) (reference_error r))
| R_valueless T env r id :                                     (* a message without a value referenced for its value *)
    expand T env r (Valueless id) (fails (in_braces r) (NoValue id))

with eval_value : list pname -> option fargs -> inline -> vres -> Prop :=
| V_string T env s :
    eval_value T env (StringLiteral s) (VString (unescape s), [], [])
| V_number T env s :
    eval_value T env (NumberLiteral s) (try_number f64_from_str s, [], [])
| V_variable T env id v :
    variable env id = Some v ->
    eval_value T env (VariableReference id) (v, [], [])
| V_variable_missing T env id :
    variable env id = None ->
    eval_value T env (VariableReference id) (VError, missing_variable_errors env id, [])
| V_function T env id cargs pos named es cs f :
    eval_args T env (Some cargs) (pos, named, es, cs) -> function_named id = Some f ->
    eval_value T env (FunctionReference id cargs) (apply_function f pos named, es, cs ++ [Call id pos named])
| V_function_unknown T env id cargs pos named es cs :          (* reported in selector / argument position too: D13 *)
    eval_args T env (Some cargs) (pos, named, es, cs) -> function_named id = None ->
    eval_value T env (FunctionReference id cargs) (VError, es ++ [reference_error (FunctionReference id cargs)], cs)
| V_textual T env i t es cs :
    textual i = true -> eval_inline T env i (t, es, cs) ->
    eval_value T env i (VString t, es, cs)

(* positional values, the named arguments as the callee receives them, errors, calls *)
with eval_args : list pname -> option fargs -> option call_args
                 -> list fvalue * fargs * list resolver_error * list call_record -> Prop :=
| A_none T env :
    eval_args T env None ([], collect [], [], [])
| A_some T env positional named vp e1 c1 vn e2 c2 :            (* positional first, then named, each left to right *)
    eval_values T env positional (vp, e1, c1) ->
    eval_values T env (map named_value named) (vn, e2, c2) ->
    eval_args T env (Some (CallArguments positional named))
      (vp, collect (combine (map named_name named) vn), e1 ++ e2, c1 ++ c2)

with eval_values : list pname -> option fargs -> list inline
                   -> list fvalue * list resolver_error * list call_record -> Prop :=
| S_nil T env :
    eval_values T env [] ([], [], [])
| S_cons T env i rest v e1 c1 vs e2 c2 :
    eval_value T env i (v, e1, c1) -> eval_values T env rest (vs, e2, c2) ->
    eval_values T env (i :: rest) (v :: vs, e1 ++ e2, c1 ++ c2).

(* Formatting the pattern named n (a message value, a message attribute, ...): n itself is the first
   entry being expanded, there are no term arguments. *)
Definition Eval (n : pname) (r : res) : Prop :=
  exists q, pattern_named n = Some q /\ eval_pattern [n] None q r.

End Spec.

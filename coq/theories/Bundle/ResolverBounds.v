(* Bundle/ResolverBounds.v — C06: the work done by one format call is bounded.

   Every traversal of a placeable ELEMENT of a pattern increments `scope.placeables`, and at most
   MAX_PLACEABLES + 1 increments happen (ResolverTotal.v).  Between two increments the resolver
   stays inside one placeable expression (plus the text elements of at most one more pattern), so
     function invocations  <=  (MAX_PLACEABLES + 1) * C
     tokens written        <=  C + (MAX_PLACEABLES + 1) * (C + 8)
   where C (`sz_*`) bounds, over the formatted pattern, every bundle pattern and every variant
   pattern inside them, the number of elements of a pattern and the number of function-call sites
   in one placeable expression (call sites inside variant patterns belong to those patterns).

   Partial-correctness style: IF a call returns Done THEN the accounting holds; that it does
   return Done is C06_total.                                                                  *)
From FluentV Require Import Base.Bytes Base.Outcome Syntax.Ast Bundle.Args Bundle.Number
  Bundle.ResolverAst Bundle.ResolverAstProofs Bundle.ResolverModel Bundle.ResolverEqns Bundle.ResolverIso
  Bundle.ResolverTotal Gen.Extracted.
From Coq Require Import Lia.

Arguments N.add : simpl never.
Arguments N.sub : simpl never.
Arguments N.pow : simpl never.
Arguments N.eqb : simpl never.
Arguments N.ltb : simpl never.
Arguments N.leb : simpl never.

Definition list_sum (l : list nat) : nat := fold_right Nat.add 0 l.

(* function-call sites evaluated when the node itself is evaluated (not those in variant patterns) *)
Fixpoint lf_inline (i : inline) : nat :=
  match i with
  | FunctionReference _ (CallArguments pos named) =>
      1 + list_sum (map lf_inline pos) + list_sum (map (fun n => match n with NamedArgument _ v => lf_inline v end) named)
  | TermReference _ _ (Some (CallArguments pos named)) =>
      list_sum (map lf_inline pos) + list_sum (map (fun n => match n with NamedArgument _ v => lf_inline v end) named)
  | Placeable e => lf_expr e
  | _ => 0
  end
with lf_expr (e : expression) : nat :=
  match e with
  | Inline i => lf_inline i
  | Select s _ => lf_inline s
  end.

Definition lf_named (n : named_arg) : nat := match n with NamedArgument _ v => lf_inline v end.
Definition lf_args (a : call_args) : nat :=
  match a with CallArguments pos named => list_sum (map lf_inline pos) + list_sum (map lf_named named) end.
Definition lf_oargs (a : option call_args) : nat := match a with Some a' => lf_args a' | None => 0 end.

(* the bound C: deep maximum of pattern lengths and per-placeable call sites *)
Fixpoint sz_inline (i : inline) : nat :=
  match i with
  | FunctionReference _ (CallArguments pos named) =>
      Nat.max (list_max (map sz_inline pos)) (list_max (map (fun n => match n with NamedArgument _ v => sz_inline v end) named))
  | TermReference _ _ (Some (CallArguments pos named)) =>
      Nat.max (list_max (map sz_inline pos)) (list_max (map (fun n => match n with NamedArgument _ v => sz_inline v end) named))
  | Placeable e => sz_expr e
  | _ => 0
  end
with sz_expr (e : expression) : nat :=
  match e with
  | Inline i => sz_inline i
  | Select s vs => Nat.max (sz_inline s) (list_max (map (fun v => match v with Variant _ p _ => sz_pattern p end) vs))
  end
with sz_pattern (p : pattern) : nat :=
  match p with
  | Pattern els =>
      Nat.max (length els)
              (list_max (map (fun x => match x with
                                       | TextElement _ => 0
                                       | PlaceableElement e => Nat.max (lf_expr e) (sz_expr e)
                                       end) els))
  end.

Definition sz_named (n : named_arg) : nat := match n with NamedArgument _ v => sz_inline v end.
Definition sz_args (a : call_args) : nat :=
  match a with CallArguments pos named => Nat.max (list_max (map sz_inline pos)) (list_max (map sz_named named)) end.
Definition sz_oargs (a : option call_args) : nat := match a with Some a' => sz_args a' | None => 0 end.
Definition sz_element (x : pattern_element) : nat :=
  match x with TextElement _ => 0 | PlaceableElement e => Nat.max (lf_expr e) (sz_expr e) end.
Definition sz_variant (v : variant) : nat := match v with Variant _ p _ => sz_pattern p end.

(* bytes = at most (widest piece) x (number of pieces) *)
Lemma flatten_length_le (W : nat) (o : list otoken) :
  Forall (fun t => length (token_bytes t) <= W) o -> length (flatten o) <= W * length o.
Proof.
  unfold flatten. induction 1 as [|t r Ht _ IH]; cbn [flat_map length]; [lia|].
  rewrite app_length. lia.
Qed.

Section Bounds.
Variable overflow_checks : bool.
Variable call_function : bytes -> list fvalue -> fargs -> fvalue.
Variable transform : option (bytes -> bytes).
Variable formatter : option (fvalue -> option bytes).
Variable rules : ntype -> rules_fn.
Variable custom_as_string : bytes -> bytes.
Variable unescape_write : bytes -> bytes.
Variable unescape_to_string : bytes -> bytes.
Variable f64_from_str : bytes -> option fval.
Variable b : bundle.
Variable args : option fargs.
Variable C : nat.
Hypothesis HC : forall p, In p (bundle_patterns b) -> sz_pattern p <= C.

Notation pw := (pattern_write overflow_checks call_function transform formatter rules custom_as_string
                  unescape_write unescape_to_string f64_from_str b args).
Notation ew := (expression_write overflow_checks call_function transform formatter rules custom_as_string
                  unescape_write unescape_to_string f64_from_str b args).
Notation iw := (inline_write overflow_checks call_function transform formatter rules custom_as_string
                  unescape_write unescape_to_string f64_from_str b args).
Notation ir := (inline_resolve overflow_checks call_function transform formatter rules custom_as_string
                  unescape_write unescape_to_string f64_from_str b args).
Notation mt := (maybe_track overflow_checks call_function transform formatter rules custom_as_string
                  unescape_write unescape_to_string f64_from_str b args).
Notation tr := (track overflow_checks call_function transform formatter rules custom_as_string
                  unescape_write unescape_to_string f64_from_str b args).
Notation ga := (get_arguments overflow_checks call_function transform formatter rules custom_as_string
                  unescape_write unescape_to_string f64_from_str b args).

Definition D := C + 8.
Definition plc (sc : scope) : nat := N.to_nat (sc_placeables sc).
Definition ncalls (sc : scope) : nat := length (sc_calls sc).

(* sc' follows sc: budget kept, counter monotone, at most w + (increments) * C new invocations *)
Definition Acct (sc sc' : scope) (w : nat) : Prop :=
  budget_ok sc' /\ plc sc <= plc sc' /\ ncalls sc' + plc sc * C <= ncalls sc + w + plc sc' * C.
(* … and at most k + (increments) * D tokens written *)
Definition Toks (sc sc' : scope) (o : list otoken) (k : nat) : Prop :=
  length o + plc sc * D <= k + plc sc' * D.

Lemma Acct_refl sc w : budget_ok sc -> Acct sc sc w.
Proof. intros H. split; [exact H | split; lia]. Qed.

Lemma Acct_trans a c d w1 w2 : Acct a c w1 -> Acct c d w2 -> Acct a d (w1 + w2).
Proof. intros (B1 & P1 & A1) (B2 & P2 & A2). split; [exact B2 | split; lia]. Qed.

Lemma Acct_weaken sc sc' w w' : w <= w' -> Acct sc sc' w -> Acct sc sc' w'.
Proof. intros Hw (B1 & P1 & A1). split; [exact B1 | split; lia]. Qed.

(* updates that keep placeables, dirty and calls *)
Lemma Acct_same sc sc' w :
  budget_ok sc -> sc_placeables sc' = sc_placeables sc -> sc_dirty sc' = sc_dirty sc -> sc_calls sc' = sc_calls sc ->
  Acct sc sc' w.
Proof.
  intros Hb Hp Hd Hc. unfold Acct, budget_ok, plc, ncalls in *. rewrite Hp, Hd, Hc. split; [exact Hb | split; lia].
Qed.

Definition A_pw f := forall k p sc o sc', pw f k p sc = Done (o, sc') -> budget_ok sc -> sz_pattern p <= C ->
  Acct sc sc' 0 /\ Toks sc sc' o C.
Definition A_ew f := forall e sc o sc', ew f e sc = Done (o, sc') -> budget_ok sc -> sz_expr e <= C ->
  Acct sc sc' (lf_expr e) /\ Toks sc sc' o (3 + C).
Definition A_iw f := forall i sc o sc', iw f i sc = Done (o, sc') -> budget_ok sc -> sz_inline i <= C ->
  Acct sc sc' (lf_inline i) /\ Toks sc sc' o (3 + C).
Definition A_ir f := forall i sc v sc', ir f i sc = Done (v, sc') -> budget_ok sc -> sz_inline i <= C ->
  Acct sc sc' (lf_inline i).
Definition A_mt f := forall k p e sc o sc', mt f k p e sc = Done (o, sc') -> budget_ok sc -> sz_expr e <= C ->
  Acct sc sc' (lf_expr e) /\ Toks sc sc' o (6 + C).
Definition A_tr f := forall k p exp sc o sc', tr f k p exp sc = Done (o, sc') -> budget_ok sc -> In p (bundle_patterns b) ->
  Acct sc sc' 0 /\ Toks sc sc' o (3 + C).
Definition A_ga f := forall oa sc pos named sc', ga f oa sc = Done (pos, named, sc') -> budget_ok sc -> sz_oargs oa <= C ->
  Acct sc sc' (lf_oargs oa).
Definition A_all f := A_pw f /\ A_ew f /\ A_iw f /\ A_ir f /\ A_mt f /\ A_tr f /\ A_ga f.

Lemma Toks_weaken sc sc' o k k' : k <= k' -> Toks sc sc' o k -> Toks sc sc' o k'.
Proof. unfold Toks. lia. Qed.

Lemma Toks_small sc sc' o k : length o <= k -> plc sc <= plc sc' -> Toks sc sc' o k.
Proof.
  unfold Toks. intros Hl Hp. assert (plc sc * D <= plc sc' * D) by (apply Nat.mul_le_mono_r; exact Hp). lia.
Qed.

Lemma write_ref_error_acct exp sc o sc' w k :
  write_ref_error exp sc = Done (o, sc') -> budget_ok sc -> 3 <= k -> Acct sc sc' w /\ Toks sc sc' o k.
Proof.
  unfold write_ref_error. destruct (reference_kind_of exp); cbn; try discriminate.
  intros [= <- <-] Hb Hk. split; [apply Acct_same; auto | apply Toks_small; cbn; [lia | reflexivity]].
Qed.

Lemma value_matches_acct self other sc m sc' :
  value_matches rules self other sc = Done (m, sc') -> budget_ok sc -> Acct sc sc' 0.
Proof.
  unfold value_matches. intros H Hb.
  destruct self as [a|a|c| |]; try (injection H as <- <-; apply Acct_refl, Hb).
  - destruct other as [b'|b'|c| |]; try (injection H as <- <-; apply Acct_refl, Hb).
    destruct (plural_keyword a); [|injection H as <- <-; apply Acct_refl, Hb].
    destruct (with_try_get rules (sc_intls sc) (o_type (n_options b'))) as [prf c'].
    destruct (fnumber_operands b'); cbn in H; try discriminate. injection H as <- <-.
    apply Acct_same; auto.
  - destruct other as [b'|b'|c| |]; injection H as <- <-; apply Acct_refl, Hb.
Qed.

Lemma find_variant_acct vs sel : forall sc hit sc',
  find_variant rules f64_from_str vs sel sc = Done (hit, sc') -> budget_ok sc ->
  Acct sc sc' 0 /\ (forall p, hit = Some p -> exists k d, In (Variant k p d) vs).
Proof.
  induction vs as [|[key value d] rest IH]; intros sc hit sc'; cbn [find_variant].
  - intros [= <- <-] Hb. split; [apply Acct_refl, Hb | discriminate].
  - intros H Hb. apply obind_done in H as ([m s1] & E1 & H).
    pose proof (value_matches_acct _ _ _ _ _ E1 Hb) as A1.
    destruct m.
    + injection H as <- <-. split; [exact A1|]. intros p [= <-]. eexists _, _. left; reflexivity.
    + destruct (IH _ _ _ H (proj1 A1)) as [A2 Hin].
      split; [apply (Acct_trans _ _ _ 0 0 A1 A2)|].
      intros p Hp. destruct (Hin p Hp) as (k & d' & Hi). eexists _, _. right; exact Hi.
Qed.

Lemma sz_variant_in k p d vs : In (Variant k p d) vs -> sz_pattern p <= list_max (map sz_variant vs).
Proof. intros H. apply (list_max_map_in sz_variant vs _ H). Qed.

Lemma plc_succ sc n : sc_placeables sc = (n + 1)%N -> N.to_nat (n + 1) = S (N.to_nat n).
Proof. intros _. lia. Qed.

(* ---------- loops ---------- *)
Lemma pattern_loop_acct f k p len :
  A_mt f -> forall els sc o sc',
  pattern_loop overflow_checks transform b (mt f k p) len els sc = Done (o, sc') ->
  budget_ok sc -> list_max (map sz_element els) <= C ->
  Acct sc sc' 0 /\ length o + plc sc * D <= length els + plc sc' * D.
Proof.
  intros Hmt. induction els as [|elem rest IH]; intros sc o sc'; cbn [pattern_loop].
  - intros [= <- <-] Hb _. split; [apply Acct_refl, Hb | cbn; lia].
  - destruct (sc_dirty sc) eqn:Hd; [intros [= <- <-] Hb _; split; [apply Acct_refl, Hb | cbn; lia]|].
    rewrite map_cons, list_max_cons. intros H Hb Hsz.
    destruct elem as [value | expression].
    + apply obind_done in H as ([o1 s1] & E1 & H). injection H as <- <-.
      destruct (IH _ _ _ E1 Hb) as [A1 T1]; [lia|]. split; [exact A1 | cbn [length]; lia].
    + apply obind_done in H as (n & En & H).
      assert (Hle : (sc_placeables sc <= MAX_PLACEABLES)%N).
      { destruct Hb as [Hle|[_ Hdd]]; [exact Hle | congruence]. }
      rewrite (u8_add1_ok _ _ Hle) in En. injection En as <-.
      cbn [sc_placeables set_placeables] in H.
      set (sc1 := set_placeables sc (sc_placeables sc + 1)) in *.
      assert (Hp1 : plc sc1 = S (plc sc)) by (unfold plc, sc1; cbn [sc_placeables set_placeables]; lia).
      assert (Hc1 : ncalls sc1 = ncalls sc) by reflexivity.
      destruct (N.ltb MAX_PLACEABLES (sc_placeables sc + 1)) eqn:Hlt.
      * injection H as <- <-. apply N.ltb_lt in Hlt.
        assert (Hpl : plc (add_error (set_dirty sc1 true) TooManyPlaceables) = S (plc sc)) by exact Hp1.
        split.
        -- split; [right; cbn; split; [lia | reflexivity]|]. rewrite Hpl. split; [lia|].
           change (ncalls (add_error (set_dirty sc1 true) TooManyPlaceables)) with (ncalls sc). lia.
        -- rewrite Hpl. cbn [length]. lia.
      * apply N.ltb_ge in Hlt.
        assert (Hb1 : budget_ok sc1) by (left; cbn; lia).
        apply obind_done in H as ([o1 s1] & E1 & H).
        apply obind_done in H as ([o2 s2] & E2 & H). injection H as <- <-.
        cbn [sz_element] in Hsz.
        destruct (Hmt _ _ _ _ _ _ E1 Hb1) as [(B1 & P1 & A1) T1]; [lia|].
        destruct (IH _ _ _ E2 B1) as [(B2 & P2 & A2) T2]; [lia|].
        unfold Toks in T1. rewrite Hp1 in *. rewrite Hc1 in *.
        split.
        -- split; [exact B2 | split; [lia|]].
           assert (lf_expr expression <= C) by lia. lia.
        -- rewrite !app_length. cbn [length].
           assert (length (if b_use_isolating b && Nat.ltb 1 len && negb (isolation_exempt expression) then [TFSI] else []) <= 1)
             by (destruct (b_use_isolating b && Nat.ltb 1 len && negb (isolation_exempt expression)); cbn; lia).
           assert (length (if b_use_isolating b && Nat.ltb 1 len && negb (isolation_exempt expression) then [TPDI] else []) <= 1)
             by (destruct (b_use_isolating b && Nat.ltb 1 len && negb (isolation_exempt expression)); cbn; lia).
           unfold D in *. lia.
Qed.

Lemma resolve_list_acct f :
  A_ir f -> forall l sc vs sc',
  resolve_list (ir f) l sc = Done (vs, sc') -> budget_ok sc -> list_max (map sz_inline l) <= C ->
  Acct sc sc' (list_sum (map lf_inline l)).
Proof.
  intros Hir. induction l as [|x r IH]; intros sc vs sc'; cbn [resolve_list].
  - intros [= <- <-] Hb _. apply Acct_refl, Hb.
  - rewrite !map_cons, list_max_cons. intros H Hb Hsz.
    apply obind_done in H as ([v1 s1] & E1 & H). apply obind_done in H as ([v2 s2] & E2 & H). injection H as <- <-.
    pose proof (Hir _ _ _ _ E1 Hb ltac:(lia)) as A1.
    pose proof (IH _ _ _ E2 (proj1 A1) ltac:(lia)) as A2.
    apply (Acct_trans _ _ _ _ _ A1 A2).
Qed.

Lemma resolve_named_acct f :
  A_ir f -> forall l sc vs sc',
  resolve_named (ir f) l sc = Done (vs, sc') -> budget_ok sc -> list_max (map sz_named l) <= C ->
  Acct sc sc' (list_sum (map lf_named l)).
Proof.
  intros Hir. induction l as [|[name x] r IH]; intros sc vs sc'; cbn [resolve_named].
  - intros [= <- <-] Hb _. apply Acct_refl, Hb.
  - rewrite !map_cons, list_max_cons. cbn [sz_named lf_named]. intros H Hb Hsz.
    apply obind_done in H as ([v1 s1] & E1 & H). apply obind_done in H as ([v2 s2] & E2 & H). injection H as <- <-.
    pose proof (Hir _ _ _ _ E1 Hb ltac:(lia)) as A1.
    pose proof (IH _ _ _ E2 (proj1 A1) ltac:(lia)) as A2.
    apply (Acct_trans _ _ _ _ _ A1 A2).
Qed.

(* ---------- steps ---------- *)
Lemma acct_pw f : A_mt f -> A_pw (S f).
Proof.
  intros Hmt k p sc o sc'. rewrite pw_S. intros H Hb Hsz. destruct p as [els]. cbn [pattern_elements sz_pattern] in *.
  destruct (pattern_loop_acct f k (Pattern els) (length els) Hmt _ _ _ _ H Hb) as [A1 T1]; [unfold sz_element; lia|].
  split; [exact A1 | unfold Toks; lia].
Qed.

Lemma acct_mt f : A_ew f -> A_mt (S f).
Proof.
  intros Hew k p e sc o sc'. rewrite mt_S. cbv zeta. intros H Hb Hsz.
  apply obind_done in H as ([o1 s1] & E1 & H).
  set (sc0 := match sc_travelled sc with [] => set_travelled sc [k] | _ :: _ => sc end) in *.
  assert (Hb0 : budget_ok sc0) by (subst sc0; destruct (sc_travelled sc); exact Hb).
  assert (H0 : plc sc0 = plc sc /\ ncalls sc0 = ncalls sc) by (subst sc0; destruct (sc_travelled sc); split; reflexivity).
  destruct H0 as [Hp0 Hc0].
  destruct (Hew _ _ _ _ E1 Hb0 Hsz) as [(B1 & P1 & A1) T1]. unfold Toks in *. rewrite Hp0, Hc0 in *.
  destruct (sc_dirty s1); injection H as <- <-; (split; [split; [exact B1 | split; lia]|]).
  - rewrite app_length. cbn [length braced]. lia.
  - lia.
Qed.

Lemma acct_tr f : A_pw f -> A_tr (S f).
Proof.
  intros Hpw k p exp sc o sc'. rewrite tr_S. intros H Hb Hin.
  destruct (key_mem k (sc_travelled sc)).
  - injection H as <- <-. split; [apply Acct_same; auto | apply Toks_small; cbn; [lia | reflexivity]].
  - cbv zeta in H. apply obind_done in H as ([o1 s1] & E1 & H). injection H as <- <-.
    destruct (Hpw _ _ _ _ _ E1 Hb (HC p Hin)) as [(B1 & P1 & A1) T1].
    split; [split; [exact B1 | split; [exact P1 | exact A1]]|].
    unfold Toks in *. change (plc (set_travelled s1 (tl (sc_travelled s1)))) with (plc s1).
    change (plc (set_travelled sc (Some k :: sc_travelled sc))) with (plc sc) in T1. lia.
Qed.

Lemma acct_ga f : A_ir f -> A_ga (S f).
Proof.
  intros Hir oa sc pos named sc'.
  destruct oa as [[positional nameds]|]; [rewrite ga_S_some | rewrite ga_S_none; intros [= <- <- <-] Hb _; apply Acct_refl, Hb].
  cbn [sz_oargs sz_args lf_oargs lf_args]. intros H Hb Hsz.
  apply obind_done in H as ([v1 s1] & E1 & H). apply obind_done in H as ([v2 s2] & E2 & H).
  apply obind_done in H as (a & Ea & H). injection H as <- <- <-.
  pose proof (resolve_list_acct f Hir _ _ _ _ E1 Hb ltac:(lia)) as A1.
  pose proof (resolve_named_acct f Hir _ _ _ _ E2 (proj1 A1) ltac:(lia)) as A2.
  apply (Acct_trans _ _ _ _ _ A1 A2).
Qed.

Lemma acct_ew f : A_pw f -> A_iw f -> A_ir f -> A_ew (S f).
Proof.
  intros Hpw Hiw Hir e sc o sc'.
  destruct e as [selector variants | exp]; [rewrite ew_S_select | rewrite ew_S_inline; apply Hiw].
  cbn [sz_expr lf_expr]. intros H Hb Hsz.
  apply obind_done in H as ([sel s1] & E1 & H).
  apply obind_done in H as ([hit s2] & E2 & H).
  pose proof (Hir _ _ _ _ E1 Hb ltac:(lia)) as A1.
  assert (Hfind : Acct s1 s2 0 /\ (forall p, hit = Some p -> exists k d, In (Variant k p d) variants)).
  { destruct sel; try (injection E2 as <- <-; split; [apply Acct_refl, (proj1 A1) | discriminate]);
      eapply find_variant_acct; [exact E2 | exact (proj1 A1) | exact E2 | exact (proj1 A1)]. }
  destruct Hfind as [A2 Hin].
  pose proof (Acct_trans _ _ _ _ _ A1 A2) as A12. rewrite Nat.add_0_r in A12.
  assert (Hvar : forall p k d, In (Variant k p d) variants -> pw f None p s2 = Done (o, sc') ->
                               Acct sc sc' (lf_inline selector) /\ Toks sc sc' o (3 + C)).
  { intros p k d Hv Hrun.
    pose proof (sz_variant_in _ _ _ _ Hv) as Hs. fold sz_variant in Hsz.
    destruct (Hpw _ _ _ _ _ Hrun (proj1 A12) ltac:(lia)) as [A3 T3].
    pose proof (Acct_trans _ _ _ _ _ A12 A3) as A. rewrite Nat.add_0_r in A.
    split; [exact A|]. destruct A12 as (_ & P12 & _). unfold Toks in *.
    assert (plc sc * D <= plc s2 * D) by (apply Nat.mul_le_mono_r; exact P12). lia. }
  destruct hit as [value|].
  - destruct (Hin value eq_refl) as (k & d & Hv). eapply Hvar; eassumption.
  - destruct (find_default variants) as [value|] eqn:Ed.
    + destruct (find_default_in _ _ Ed) as (k & d & Hv). eapply Hvar; eassumption.
    + injection H as <- <-. split.
      * eapply Acct_weaken; [|eapply (Acct_trans _ _ _ _ 0 A12)]; [lia|]. apply Acct_same; auto. exact (proj1 A12).
      * apply Toks_small; [cbn; lia|]. destruct A12 as (_ & P12 & _). exact P12.
Qed.

Lemma acct_ir f : A_iw f -> A_ga f -> A_ir (S f).
Proof.
  intros Hiw Hga i sc v sc'.
  assert (Hgen : resolve_by_write overflow_checks call_function transform formatter rules custom_as_string
                   unescape_write unescape_to_string f64_from_str b args f i sc = Done (v, sc') ->
                 budget_ok sc -> sz_inline i <= C -> Acct sc sc' (lf_inline i)).
  { unfold resolve_by_write. intros H Hb Hsz. apply obind_done in H as ([o1 s1] & E1 & H). injection H as <- <-.
    apply (Hiw _ _ _ _ E1 Hb Hsz). }
  destruct i as [value | value | id arguments | id attribute | id attribute arguments | id | expression].
  - rewrite ir_S_string. intros [= <- <-] Hb _. apply Acct_refl, Hb.
  - rewrite ir_S_number. intros [= <- <-] Hb _. apply Acct_refl, Hb.
  - rewrite ir_S_function. intros H Hb Hsz. apply obind_done in H as ([[pos named] s1] & E1 & H).
    assert (A1 : Acct sc s1 (lf_args arguments)).
    { apply (Hga (Some arguments) _ _ _ _ E1 Hb). destruct arguments. exact Hsz. }
    assert (Hlf : lf_inline (FunctionReference id arguments) = 1 + lf_args arguments) by (destruct arguments; reflexivity).
    rewrite Hlf. destruct A1 as (B1 & P1 & A1).
    destruct (get_entry_function b id) as [func|].
    + injection H as <- <-. split; [exact B1 | split; [exact P1|]].
      unfold ncalls in *. cbn [sc_calls log_call]. rewrite app_length. cbn [length].
      change (plc (log_call s1 (Call id pos named))) with (plc s1). lia.
    + cbn in H. injection H as <- <-. split; [exact B1 | split; [exact P1|]].
      change (ncalls (add_error s1 (Reference (RefFunction id)))) with (ncalls s1).
      change (plc (add_error s1 (Reference (RefFunction id)))) with (plc s1). lia.
  - rewrite ir_S_message. apply Hgen.
  - rewrite ir_S_term. apply Hgen.
  - rewrite ir_S_variable. intros H Hb _.
    destruct (lookup_variable_r args id sc); [injection H as <- <-; apply Acct_refl, Hb|].
    apply obind_done in H as (s1 & E1 & H). injection H as <- <-.
    unfold missing_variable in E1. destruct (sc_local_args sc); cbn in E1; injection E1 as <-;
      [apply Acct_refl, Hb | apply Acct_same; auto].
  - rewrite ir_S_placeable. apply Hgen.
Qed.

Lemma term_body_acct f id attribute exp sc o sc' :
  A_tr f ->
  term_body overflow_checks call_function transform formatter rules custom_as_string
    unescape_write unescape_to_string f64_from_str b args f id attribute exp sc = Done (o, sc') ->
  budget_ok sc -> Acct sc sc' 0 /\ Toks sc sc' o (3 + C).
Proof.
  intros Htr. unfold term_body. intros H Hb.
  destruct (get_entry_term b id) as [[value attributes]|] eqn:Eg; [|eapply write_ref_error_acct; [exact H | exact Hb | lia]].
  destruct attribute as [attr|].
  - destruct (find_attribute attributes attr) as [v|] eqn:Ea; [|eapply write_ref_error_acct; [exact H | exact Hb | lia]].
    eapply Htr; [exact H | exact Hb|]. eapply term_attr_in; eassumption.
  - eapply Htr; [exact H | exact Hb|]. eapply term_value_in; eassumption.
Qed.

Lemma acct_iw f : A_ew f -> A_tr f -> A_ga f -> A_iw (S f).
Proof.
  intros Hew Htr Hga i sc o sc'.
  destruct i as [value | value | id arguments | id attribute | id attribute arguments | id | expression].
  - rewrite iw_S_string. intros [= <- <-] Hb _. split; [apply Acct_refl, Hb | apply Toks_small; cbn; lia].
  - rewrite iw_S_number. intros [= <- <-] Hb _. split; [apply Acct_refl, Hb | apply Toks_small; cbn; lia].
  - rewrite iw_S_function. intros H Hb Hsz. apply obind_done in H as ([[pos named] s1] & E1 & H).
    assert (A1 : Acct sc s1 (lf_args arguments)).
    { apply (Hga (Some arguments) _ _ _ _ E1 Hb). destruct arguments. exact Hsz. }
    assert (Hlf : lf_inline (FunctionReference id arguments) = 1 + lf_args arguments) by (destruct arguments; reflexivity).
    rewrite Hlf.
    destruct (get_entry_function b id) as [func|].
    + cbv zeta in H.
      assert (Hlog : Acct sc (log_call s1 (Call id pos named)) (1 + lf_args arguments)).
      { destruct A1 as (B1 & P1 & A1). split; [exact B1 | split; [exact P1|]].
        unfold ncalls in *. cbn [sc_calls log_call]. rewrite app_length. cbn [length].
        change (plc (log_call s1 (Call id pos named))) with (plc s1). lia. }
      destruct (call_entry call_function func pos named); injection H as <- <-;
        (split; [exact Hlog | apply Toks_small; [cbn; lia | exact (proj1 (proj2 Hlog))]]).
    + destruct (write_ref_error_acct _ _ _ _ 0 (3 + C) H (proj1 A1) ltac:(lia)) as [A2 T2].
      pose proof (Acct_trans _ _ _ _ _ A1 A2) as A.
      split; [eapply Acct_weaken; [|exact A]; lia|].
      unfold Toks in *. destruct A1 as (_ & P1 & _).
      assert (plc sc * D <= plc s1 * D) by (apply Nat.mul_le_mono_r; exact P1). lia.
  - rewrite iw_S_message. intros H Hb _. cbn [lf_inline].
    destruct (get_entry_message b id) as [[value attributes]|] eqn:Eg; [|eapply write_ref_error_acct; [exact H | exact Hb | lia]].
    destruct attribute as [attr|].
    + destruct (find_attribute attributes attr) as [v|] eqn:Ea; [|eapply write_ref_error_acct; [exact H | exact Hb | lia]].
      eapply Htr; [exact H | exact Hb|]. eapply message_attr_in; eassumption.
    + destruct value as [v|].
      * eapply Htr; [exact H | exact Hb|]. eapply message_value_in; eassumption.
      * injection H as <- <-. split; [apply Acct_same; auto | apply Toks_small; cbn; [lia | reflexivity]].
  - rewrite iw_S_term. intros H Hb Hsz. apply obind_done in H as ([[pos named] s1] & E1 & H).
    cbv zeta in H. apply obind_done in H as ([o1 s2] & E2 & H). injection H as <- <-.
    assert (A1 : Acct sc s1 (lf_oargs arguments)).
    { apply (Hga arguments _ _ _ _ E1 Hb). destruct arguments as [[? ?]|]; exact Hsz. }
    assert (Hlf : lf_inline (TermReference id attribute arguments) = lf_oargs arguments)
      by (destruct arguments as [[? ?]|]; reflexivity).
    rewrite Hlf.
    destruct (term_body_acct f id attribute _ _ _ _ Htr E2) as [A2 T2]; [exact (proj1 A1)|].
    assert (A12 : Acct sc s2 (lf_oargs arguments)).
    { destruct A1 as (B1 & P1 & A1). destruct A2 as (B2 & P2 & A2).
      change (plc (set_local_args s1 (Some named))) with (plc s1) in *.
      change (ncalls (set_local_args s1 (Some named))) with (ncalls s1) in *.
      split; [exact B2 | split; lia]. }
    split.
    + destruct A12 as (B & P & A). split; [exact B | split; [exact P | exact A]].
    + unfold Toks in *. change (plc (set_local_args s1 (Some named))) with (plc s1) in *.
      change (plc (set_local_args s2 (sc_local_args s1))) with (plc s2).
      destruct A1 as (_ & P1 & _). assert (plc sc * D <= plc s1 * D) by (apply Nat.mul_le_mono_r; exact P1). lia.
  - rewrite iw_S_variable. intros H Hb _. cbn [lf_inline].
    destruct (lookup_variable args id sc); [injection H as <- <-; split; [apply Acct_refl, Hb | apply Toks_small; cbn; lia]|].
    apply obind_done in H as (s1 & E1 & H). injection H as <- <-.
    unfold missing_variable in E1. destruct (sc_local_args sc); cbn in E1; injection E1 as <-.
    + split; [apply Acct_refl, Hb | apply Toks_small; cbn; lia].
    + split; [apply Acct_same; auto | apply Toks_small; cbn; [lia | reflexivity]].
  - rewrite iw_S_placeable. apply Hew.
Qed.

Theorem acct_all : forall f, A_all f.
Proof.
  induction f as [|f (Hpw & Hew & Hiw & Hir & Hmt & Htr & Hga)].
  - unfold A_all, A_pw, A_ew, A_iw, A_ir, A_mt, A_tr, A_ga. repeat split; intros; discriminate.
  - refine (conj _ (conj _ (conj _ (conj _ (conj _ (conj _ _)))))).
    + apply acct_pw; assumption.
    + apply acct_ew; assumption.
    + apply acct_iw; assumption.
    + apply acct_ir; assumption.
    + apply acct_mt; assumption.
    + apply acct_tr; assumption.
    + apply acct_ga; assumption.
Qed.

(* ---------- the entry point ---------- *)
Theorem write_pattern_bounds fuel top p c o sc' :
  write_pattern overflow_checks call_function transform formatter rules custom_as_string
    unescape_write unescape_to_string f64_from_str b args fuel top p c = Done (o, sc') ->
  sz_pattern p <= C ->
  length (sc_calls sc') <= (N.to_nat MAX_PLACEABLES + 1) * C /\
  length o <= C + (N.to_nat MAX_PLACEABLES + 1) * (C + 8).
Proof.
  unfold write_pattern. intros H Hsz.
  destruct (acct_all fuel) as (Hpw & _).
  assert (Hb : budget_ok (scope_new c)) by (left; cbn; apply N.le_0_l).
  destruct (Hpw _ _ _ _ _ H Hb Hsz) as [(B1 & P1 & A1) T1].
  assert (Hpl : plc sc' <= N.to_nat MAX_PLACEABLES + 1).
  { unfold plc. destruct B1 as [Hle|[He _]]; lia. }
  unfold Toks, ncalls, plc in *. cbn [scope_new sc_placeables sc_calls length] in *.
  change (N.to_nat 0) with 0 in *. cbn [Nat.mul Nat.add] in *.
  assert (N.to_nat (sc_placeables sc') * C <= (N.to_nat MAX_PLACEABLES + 1) * C) by (apply Nat.mul_le_mono_r; exact Hpl).
  assert (N.to_nat (sc_placeables sc') * D <= (N.to_nat MAX_PLACEABLES + 1) * D) by (apply Nat.mul_le_mono_r; exact Hpl).
  unfold D in *. split; lia.
Qed.

Theorem format_pattern_bounds fuel top p c text sc' :
  format_pattern overflow_checks call_function transform formatter rules custom_as_string
    unescape_write unescape_to_string f64_from_str b args fuel top p c = Done (text, sc') ->
  sz_pattern p <= C ->
  length (sc_calls sc') <= (N.to_nat MAX_PLACEABLES + 1) * C.
Proof.
  unfold format_pattern. rewrite pr_S. intros H Hsz.
  assert (Hgen : forall v sc0,
             (let* (o, sc1) := pattern_write overflow_checks call_function transform formatter rules custom_as_string
                                 unescape_write unescape_to_string f64_from_str b args fuel top p (scope_new c) in
              Done (VString (flatten o), sc1)) = Done (v, sc0) ->
             length (sc_calls sc0) <= (N.to_nat MAX_PLACEABLES + 1) * C).
  { intros v sc0 E. apply obind_done in E as ([o s1] & E1 & E). injection E as <- <-.
    eapply (write_pattern_bounds fuel top p c o s1); [exact E1 | exact Hsz]. }
  apply obind_done in H as ([v s0] & E & H). injection H as <- <-.
  destruct p as [els]. cbn [pattern_elements] in E.
  destruct els as [|[v'|e] [|x r]]; try (eapply Hgen; exact E).
  injection E as <- <-. cbn. lia.
Qed.

End Bounds.

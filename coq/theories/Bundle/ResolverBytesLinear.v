(* Bundle/ResolverBytesLinear.v — C06: the byte bound as a FIXED MULTIPLE of the input size.

   ResolverBytes.v bounds every piece by W; with ResolverBounds.v (at most C + 101 (C + 8) pieces)
   that gives  bytes <= W x pieces,  a product of two input sizes.  Here the text elements are
   counted by their bytes instead of by their number:

       bytes  <=  T + (MAX_PLACEABLES + 1) x (T + 8 W)

   where T bounds the TEXT BYTES of one pattern (sum over its text elements, after the transform),
   over the formatted pattern, the bundle's patterns and the variant patterns inside them.  Every
   increment of `scope.placeables` pays for at most one more pattern (T) and eight pieces that are
   not text elements (printed values, `{reference}` fallbacks, isolation marks: W each).
   T <= size of the resources, W <= 2 max(L, A, F) + K + 3:  102 T + 808 W  is linear in
   L, A, F, K, T.

   The proof reuses both earlier inductions as black boxes (budget and counter: acct_all; width of
   the pieces and local_args: bytes_all) and adds only the byte accounting.                     *)
From FluentV Require Import Base.Bytes Base.BytesFacts Base.Outcome Base.Utf8 Syntax.Ast Bundle.Args Bundle.ArgsProofs
  Bundle.Number Bundle.NumberProofs Bundle.ResolverAst Bundle.ResolverAstProofs Bundle.ResolverModel Bundle.ResolverEqns
  Bundle.ResolverIso Bundle.ResolverTotal Bundle.ResolverBounds Bundle.ResolverBytes Gen.Extracted.
From Coq Require Import Lia.

Arguments N.add : simpl never.
Arguments N.sub : simpl never.
Arguments N.pow : simpl never.
Arguments N.eqb : simpl never.
Arguments N.ltb : simpl never.
Arguments N.leb : simpl never.

(* ---------- every pattern inside a pattern (itself, and the variant patterns, recursively) ---------- *)
Fixpoint ps_inline (i : inline) : list pattern :=
  match i with
  | FunctionReference _ (CallArguments pos named) =>
      flat_map ps_inline pos ++ flat_map (fun n => match n with NamedArgument _ v => ps_inline v end) named
  | TermReference _ _ (Some (CallArguments pos named)) =>
      flat_map ps_inline pos ++ flat_map (fun n => match n with NamedArgument _ v => ps_inline v end) named
  | Placeable e => ps_expr e
  | _ => []
  end
with ps_expr (e : expression) : list pattern :=
  match e with
  | Inline i => ps_inline i
  | Select s vs => ps_inline s ++ flat_map (fun v => match v with Variant _ p _ => ps_pattern p end) vs
  end
with ps_pattern (p : pattern) : list pattern :=
  p :: match p with
       | Pattern els =>
           flat_map (fun x => match x with TextElement _ => [] | PlaceableElement e => ps_expr e end) els
       end.

Definition ps_element (x : pattern_element) : list pattern :=
  match x with TextElement _ => [] | PlaceableElement e => ps_expr e end.
Definition ps_variant (v : variant) : list pattern := match v with Variant _ p _ => ps_pattern p end.

(* the text bytes of one pattern: what its text elements write *)
Definition text_bytes (transform : option (bytes -> bytes)) (els : list pattern_element) : nat :=
  list_sum (map (fun x => match x with
                          | TextElement s => length (apply_transform transform s)
                          | PlaceableElement _ => 0
                          end) els).
Definition pattern_text (transform : option (bytes -> bytes)) (q : pattern) : nat :=
  text_bytes transform (pattern_elements q).
(* the measure of the inputs: the largest text of a pattern of the call *)
Definition input_patterns (b : bundle) (p : pattern) : list pattern :=
  ps_pattern p ++ flat_map ps_pattern (bundle_patterns b).
Definition text_max (transform : option (bytes -> bytes)) (b : bundle) (p : pattern) : nat :=
  list_max (map (pattern_text transform) (input_patterns b p)).

Lemma flatten_app a c : flatten (a ++ c) = flatten a ++ flatten c.
Proof. unfold flatten. apply flat_map_app. Qed.

Lemma write_ref_error_len exp sc o sc' : write_ref_error exp sc = Done (o, sc') -> length o = 3.
Proof. unfold write_ref_error. destruct (reference_kind_of exp); cbn; try discriminate. intros [= <- <-]. reflexivity. Qed.

Section Linear.
Variable overflow_checks : bool.
Variable call_function : bytes -> list fvalue -> fargs -> fvalue.
Variable transform : option (bytes -> bytes).
Variable formatter : option (fvalue -> option bytes).
Variable rules : ntype -> rules_fn.
Variable custom_as_string : bytes -> bytes.
Variable unescape_write : bytes -> bytes.
Variable unescape_to_string : bytes -> bytes.
Variable f64_from_str : bytes -> option fval.
Variable b : bundle.
Variable args : option fargs.
Variable Lb Ab Fb : nat.
Variable Kb : N.
Variable C T : nat.

Notation W := (Wb Lb Ab Fb Kb).
Notation lok := (local_ok custom_as_string Lb Ab Fb Kb).
Notation aok := (atom_ok f64_from_str Lb Kb).
Notation tok := (tok_ok Lb Ab Fb Kb).
Definition tb_ok (q : pattern) : Prop := pattern_text transform q <= T.

Hypothesis HB : forall q, In q (bundle_patterns b) -> Forall aok (at_pattern q).
Hypothesis Hargs : args_size custom_as_string args <= Ab.
Hypothesis Hcall : forall name pos named, val_size custom_as_string (call_function name pos named) <= Fb.
Hypothesis Hfmt : forall fm v s, formatter = Some fm -> fm v = Some s -> length s <= Fb.
Hypothesis Htrans : forall t s, transform = Some t -> length s <= Lb -> length (t s) <= Fb.
Hypothesis Hunw : forall s, length s <= Lb -> length (unescape_write s) <= Fb.
Hypothesis Huns : forall s, length s <= Lb -> length (unescape_to_string s) <= Fb.
Hypothesis Hparse : forall s v, length s <= Lb -> f64_from_str s = Some v -> length (fval_to_string v) <= Fb.
Hypothesis HC : forall q, In q (bundle_patterns b) -> sz_pattern q <= C.
Hypothesis HT : forall q, In q (bundle_patterns b) -> Forall tb_ok (ps_pattern q).

Notation pw := (pattern_write overflow_checks call_function transform formatter rules custom_as_string
                  unescape_write unescape_to_string f64_from_str b args).
Notation ew := (expression_write overflow_checks call_function transform formatter rules custom_as_string
                  unescape_write unescape_to_string f64_from_str b args).
Notation iw := (inline_write overflow_checks call_function transform formatter rules custom_as_string
                  unescape_write unescape_to_string f64_from_str b args).
Notation ir := (inline_resolve overflow_checks call_function transform formatter rules custom_as_string
                  unescape_write unescape_to_string f64_from_str b args).
Notation mt := (maybe_track overflow_checks call_function transform formatter rules custom_as_string
                  unescape_write unescape_to_string f64_from_str b args).
Notation tr := (track overflow_checks call_function transform formatter rules custom_as_string
                  unescape_write unescape_to_string f64_from_str b args).
Notation ga := (get_arguments overflow_checks call_function transform formatter rules custom_as_string
                  unescape_write unescape_to_string f64_from_str b args).

(* the two earlier inductions *)
Definition Ball := bytes_all overflow_checks call_function transform formatter rules custom_as_string
  unescape_write unescape_to_string f64_from_str b args Lb Ab Fb Kb HB Hargs Hcall Hfmt Htrans Hunw Huns Hparse.
Definition Aall := acct_all overflow_checks call_function transform formatter rules custom_as_string
  unescape_write unescape_to_string f64_from_str b args C HC.

Definition pre_p (p : pattern) : Prop := Forall aok (at_pattern p) /\ sz_pattern p <= C /\ Forall tb_ok (ps_pattern p).
Definition pre_e (e : expression) : Prop := Forall aok (at_expr e) /\ sz_expr e <= C /\ Forall tb_ok (ps_expr e).
Definition pre_i (i : inline) : Prop := Forall aok (at_inline i) /\ sz_inline i <= C /\ Forall tb_ok (ps_inline i).

(* what the black boxes say about one call: pieces <= W, local_args fine, budget kept, counter monotone *)
Definition Post (sc : scope) (o : list otoken) (sc' : scope) : Prop :=
  Forall tok o /\ lok sc' /\ budget_ok sc' /\ plc sc <= plc sc'.

Lemma bb_pw f k p sc o sc' : pw f k p sc = Done (o, sc') -> lok sc -> budget_ok sc -> pre_p p -> Post sc o sc'.
Proof.
  intros H Hl Hb (P1 & P2 & _). destruct (Ball f) as (X & _). destruct (Aall f) as (Y & _).
  destruct (X _ _ _ _ _ H Hl P1) as [T1 L1]. destruct (Y _ _ _ _ _ H Hb P2) as [(B1 & Q1 & _) _].
  repeat split; assumption.
Qed.
Lemma bb_ew f e sc o sc' : ew f e sc = Done (o, sc') -> lok sc -> budget_ok sc -> pre_e e -> Post sc o sc'.
Proof.
  intros H Hl Hb (P1 & P2 & _). destruct (Ball f) as (_ & X & _). destruct (Aall f) as (_ & Y & _).
  destruct (X _ _ _ _ H Hl P1) as [T1 L1]. destruct (Y _ _ _ _ H Hb P2) as [(B1 & Q1 & _) _].
  repeat split; assumption.
Qed.
Lemma bb_iw f i sc o sc' : iw f i sc = Done (o, sc') -> lok sc -> budget_ok sc -> pre_i i -> Post sc o sc'.
Proof.
  intros H Hl Hb (P1 & P2 & _). destruct (Ball f) as (_ & _ & X & _). destruct (Aall f) as (_ & _ & Y & _).
  destruct (X _ _ _ _ H Hl P1) as [T1 L1]. destruct (Y _ _ _ _ H Hb P2) as [(B1 & Q1 & _) _].
  repeat split; assumption.
Qed.
Lemma bb_ir f i sc v sc' :
  ir f i sc = Done (v, sc') -> lok sc -> budget_ok sc -> Forall aok (at_inline i) -> sz_inline i <= C ->
  lok sc' /\ budget_ok sc' /\ plc sc <= plc sc'.
Proof.
  intros H Hl Hb P1 P2. destruct (Ball f) as (_ & _ & _ & X & _). destruct (Aall f) as (_ & _ & _ & Y & _).
  destruct (X _ _ _ _ H Hl P1) as (_ & L1 & _). destruct (Y _ _ _ _ H Hb P2) as (B1 & Q1 & _).
  repeat split; assumption.
Qed.
Lemma bb_mt f k p e sc o sc' : mt f k p e sc = Done (o, sc') -> lok sc -> budget_ok sc -> pre_e e -> Post sc o sc'.
Proof.
  intros H Hl Hb (P1 & P2 & _). destruct (Ball f) as (_ & _ & _ & _ & X & _). destruct (Aall f) as (_ & _ & _ & _ & Y & _).
  destruct (X _ _ _ _ _ _ H Hl P1) as [T1 L1]. destruct (Y _ _ _ _ _ _ H Hb P2) as [(B1 & Q1 & _) _].
  repeat split; assumption.
Qed.
Lemma bb_ga f oa sc pos named sc' :
  ga f oa sc = Done (pos, named, sc') -> lok sc -> budget_ok sc -> Forall aok (at_oargs oa) -> sz_oargs oa <= C ->
  Forall (named_val_ok custom_as_string Lb Ab Fb Kb) named /\ lok sc' /\ budget_ok sc' /\ plc sc <= plc sc'.
Proof.
  intros H Hl Hb P1 P2. destruct (Ball f) as (_ & _ & _ & _ & _ & _ & X). destruct (Aall f) as (_ & _ & _ & _ & _ & _ & Y).
  destruct (X _ _ _ _ _ H Hl P1) as (_ & V2 & L1). destruct (Y _ _ _ _ _ H Hb P2) as (B1 & Q1 & _).
  repeat split; assumption.
Qed.

(* ---------- the byte accounting ---------- *)
Definition DB : nat := T + 8 * W.
Definition Byt (sc sc' : scope) (o : list otoken) (k : nat) : Prop :=
  length (flatten o) + plc sc * DB <= k + plc sc' * DB.

Lemma Byt_weaken sc sc' o k k' : k <= k' -> Byt sc sc' o k -> Byt sc sc' o k'.
Proof. unfold Byt. lia. Qed.

Lemma Byt_from sc s1 sc' o k : plc sc <= plc s1 -> Byt s1 sc' o k -> Byt sc sc' o k.
Proof.
  unfold Byt. intros Hp H. assert (plc sc * DB <= plc s1 * DB) by (apply Nat.mul_le_mono_r; exact Hp). lia.
Qed.

Lemma flatten_le o n : Forall tok o -> length o <= n -> length (flatten o) <= n * W.
Proof.
  intros Ht Hn. pose proof (flatten_length_le W o Ht) as H.
  assert (W * length o <= W * n) by (apply Nat.mul_le_mono_l; exact Hn). lia.
Qed.

(* a call that wrote at most n pieces itself *)
Lemma Byt_leaf sc sc' o n k : Forall tok o -> length o <= n -> n * W <= k -> plc sc <= plc sc' -> Byt sc sc' o k.
Proof.
  intros Ht Hn Hk Hp. unfold Byt. pose proof (flatten_le o n Ht Hn).
  assert (plc sc * DB <= plc sc' * DB) by (apply Nat.mul_le_mono_r; exact Hp). lia.
Qed.

Lemma iso_len : length (token_bytes TFSI) <= W /\ length (token_bytes TPDI) <= W.
Proof.
  split; [exact (tok_fsi custom_as_string args Lb Ab Fb Kb Hargs) | exact (tok_pdi custom_as_string args Lb Ab Fb Kb Hargs)].
Qed.

Definition Y_pw f := forall k p sc o sc', pw f k p sc = Done (o, sc') -> lok sc -> budget_ok sc -> pre_p p ->
  Byt sc sc' o T.
Definition Y_ew f := forall e sc o sc', ew f e sc = Done (o, sc') -> lok sc -> budget_ok sc -> pre_e e ->
  Byt sc sc' o (3 * W + T).
Definition Y_iw f := forall i sc o sc', iw f i sc = Done (o, sc') -> lok sc -> budget_ok sc -> pre_i i ->
  Byt sc sc' o (3 * W + T).
Definition Y_mt f := forall k p e sc o sc', mt f k p e sc = Done (o, sc') -> lok sc -> budget_ok sc -> pre_e e ->
  Byt sc sc' o (6 * W + T).
Definition Y_tr f := forall k p exp sc o sc', tr f k p exp sc = Done (o, sc') -> lok sc -> budget_ok sc ->
  In p (bundle_patterns b) -> length (inline_write_error exp) <= Lb -> Byt sc sc' o (3 * W + T).
Definition Y_all f := Y_pw f /\ Y_ew f /\ Y_iw f /\ Y_mt f /\ Y_tr f.

Lemma bundle_pre p : In p (bundle_patterns b) -> pre_p p.
Proof. intros H. split; [exact (HB p H)|]. split; [exact (HC p H) | exact (HT p H)]. Qed.

Lemma bb_tr f k p exp sc o sc' :
  tr f k p exp sc = Done (o, sc') -> lok sc -> budget_ok sc -> In p (bundle_patterns b) ->
  length (inline_write_error exp) <= Lb -> Post sc o sc'.
Proof.
  intros H Hl Hb Hin Hlen. destruct (Ball f) as (_ & _ & _ & _ & _ & X & _). destruct (Aall f) as (_ & _ & _ & _ & _ & Y & _).
  destruct (X _ _ _ _ _ _ H Hl Hin Hlen) as [T1 L1]. destruct (Y _ _ _ _ _ _ H Hb Hin) as [(B1 & Q1 & _) _].
  repeat split; assumption.
Qed.

(* ---------- the loop ---------- *)
Lemma pattern_loop_byt f k p len :
  Y_mt f -> forall els sc o sc',
  pattern_loop overflow_checks transform b (mt f k p) len els sc = Done (o, sc') ->
  lok sc -> budget_ok sc ->
  Forall aok (flat_map at_element els) -> list_max (map sz_element els) <= C -> Forall tb_ok (flat_map ps_element els) ->
  length (flatten o) + plc sc * DB <= text_bytes transform els + plc sc' * DB.
Proof.
  intros Hmt. induction els as [|elem rest IH]; intros sc o sc'; cbn [pattern_loop].
  - intros [= <- <-] _ _ _ _ _. cbn. lia.
  - destruct (sc_dirty sc) eqn:Hd; [intros [= <- <-] _ _ _ _ _; cbn; lia|].
    rewrite map_cons, list_max_cons. cbn [flat_map]. intros H Hl Hb Hat Hsz Htb.
    apply Forall_app in Hat as [Hat1 Hat2]. apply Forall_app in Htb as [Htb1 Htb2].
    unfold text_bytes. rewrite map_cons. cbn [list_sum fold_right]. fold (list_sum (map (fun x => match x with
                          | TextElement s => length (apply_transform transform s)
                          | PlaceableElement _ => 0
                          end) rest)). fold (text_bytes transform rest).
    destruct elem as [value | expression].
    + apply obind_done in H as ([o1 s1] & E1 & H). injection H as <- <-.
      pose proof (IH _ _ _ E1 Hl Hb Hat2 ltac:(lia) Htb2) as T1.
      change (flatten (Txt (apply_transform transform value) :: o1)) with (apply_transform transform value ++ flatten o1).
      rewrite app_length. lia.
    + apply obind_done in H as (n & En & H).
      assert (Hle : (sc_placeables sc <= MAX_PLACEABLES)%N).
      { destruct Hb as [Hle|[_ Hdd]]; [exact Hle | congruence]. }
      rewrite (u8_add1_ok _ _ Hle) in En. injection En as <-.
      cbn [sc_placeables set_placeables] in H.
      set (sc1 := set_placeables sc (sc_placeables sc + 1)) in *.
      assert (Hp1 : plc sc1 = S (plc sc)) by (unfold plc, sc1; cbn [sc_placeables set_placeables]; lia).
      destruct (N.ltb MAX_PLACEABLES (sc_placeables sc + 1)) eqn:Hlt.
      * injection H as <- <-.
        assert (Hpl : plc (add_error (set_dirty sc1 true) TooManyPlaceables) = S (plc sc)) by exact Hp1.
        rewrite Hpl. cbn [flatten flat_map length]. lia.
      * apply N.ltb_ge in Hlt.
        assert (Hb1 : budget_ok sc1) by (left; cbn; lia).
        assert (Hl1 : lok sc1) by (apply (local_same custom_as_string Lb Ab Fb Kb sc); [reflexivity | exact Hl]).
        apply obind_done in H as ([o1 s1] & E1 & H).
        apply obind_done in H as ([o2 s2] & E2 & H). injection H as <- <-.
        cbn [sz_element] in Hsz. cbn [at_element] in Hat1. cbn [ps_element] in Htb1.
        assert (Hpre : pre_e expression) by (split; [exact Hat1 | split; [lia | exact Htb1]]).
        pose proof (Hmt _ _ _ _ _ _ E1 Hl1 Hb1 Hpre) as T1.
        destruct (bb_mt _ _ _ _ _ _ _ E1 Hl1 Hb1 Hpre) as (_ & L1 & B1 & _).
        pose proof (IH _ _ _ E2 L1 B1 Hat2 ltac:(lia) Htb2) as T2.
        unfold Byt in T1. rewrite Hp1 in T1.
        destruct iso_len as [I1 I2].
        rewrite !flatten_app, !app_length.
        assert (length (flatten (if b_use_isolating b && Nat.ltb 1 len && negb (isolation_exempt expression) then [TFSI] else [])) <= W).
        { destruct (b_use_isolating b && Nat.ltb 1 len && negb (isolation_exempt expression)); cbn [flatten flat_map app length]; [rewrite app_nil_r; exact I1 | lia]. }
        assert (length (flatten (if b_use_isolating b && Nat.ltb 1 len && negb (isolation_exempt expression) then [TPDI] else [])) <= W).
        { destruct (b_use_isolating b && Nat.ltb 1 len && negb (isolation_exempt expression)); cbn [flatten flat_map app length]; [rewrite app_nil_r; exact I2 | lia]. }
        unfold DB in *. lia.
Qed.

(* ---------- steps ---------- *)
Lemma byt_pw f : Y_mt f -> Y_pw (S f).
Proof.
  intros Hmt k p sc o sc'. rewrite pw_S. intros H Hl Hb (P1 & P2 & P3). destruct p as [els].
  cbn [pattern_elements] in H. rewrite at_pattern_elements in P1. cbn [sz_pattern] in P2.
  cbn [ps_pattern] in P3. inversion P3 as [|q l Hq Hr]; subst.
  pose proof (pattern_loop_byt f k (Pattern els) (length els) Hmt _ _ _ _ H Hl Hb P1) as T1.
  unfold Byt. unfold tb_ok, pattern_text in Hq. cbn [pattern_elements] in Hq.
  specialize (T1 ltac:(unfold sz_element; lia) Hr). lia.
Qed.

Lemma byt_mt f : Y_ew f -> Y_mt (S f).
Proof.
  intros Hew k p e sc o sc' H Hl Hb Hpre.
  destruct (bb_mt _ _ _ _ _ _ _ H Hl Hb Hpre) as (_ & _ & _ & Hplc).
  rewrite mt_S in H. cbv zeta in H.
  apply obind_done in H as ([o1 s1] & E1 & H).
  set (sc0 := match sc_travelled sc with [] => set_travelled sc [k] | _ :: _ => sc end) in *.
  assert (Hl0 : lok sc0) by (subst sc0; destruct (sc_travelled sc); exact Hl).
  assert (Hb0 : budget_ok sc0) by (subst sc0; destruct (sc_travelled sc); exact Hb).
  assert (Hp0 : plc sc0 = plc sc) by (subst sc0; destruct (sc_travelled sc); reflexivity).
  pose proof (Hew _ _ _ _ E1 Hl0 Hb0 Hpre) as T1. unfold Byt in *. rewrite Hp0 in T1.
  destruct (sc_dirty s1); injection H as <- <-; [|lia].
  rewrite flatten_app, app_length.
  pose proof (flatten_le (braced (expression_write_error e)) 3
                (braced_ok custom_as_string args Lb Ab Fb Kb Hargs _ (expr_len f64_from_str Lb Kb e (proj1 Hpre)))
                ltac:(cbn; lia)).
  lia.
Qed.

Lemma byt_tr f : Y_pw f -> Y_tr (S f).
Proof.
  intros Hpw k p exp sc o sc' H Hl Hb Hin Hlen.
  destruct (bb_tr _ _ _ _ _ _ _ H Hl Hb Hin Hlen) as (Htok & _ & _ & Hplc).
  rewrite tr_S in H. destruct (key_mem k (sc_travelled sc)).
  - injection H as <- <-. apply (Byt_leaf _ _ _ 3); [exact Htok | cbn; lia | lia | exact Hplc].
  - cbv zeta in H. apply obind_done in H as ([o1 s1] & E1 & H). injection H as <- <-.
    pose proof (Hpw _ _ _ _ _ E1 Hl Hb (bundle_pre p Hin)) as T1.
    unfold Byt in *. change (plc (set_travelled s1 (tl (sc_travelled s1)))) with (plc s1).
    change (plc (set_travelled sc (Some k :: sc_travelled sc))) with (plc sc) in T1. lia.
Qed.

Lemma variant_pats k p d vs :
  In (Variant k p d) vs -> Forall tb_ok (flat_map ps_variant vs) -> Forall tb_ok (ps_pattern p).
Proof. intros Hin H. apply Forall_flat_map in H. rewrite Forall_forall in H. exact (H _ Hin). Qed.

Lemma byt_ew f : Y_pw f -> Y_iw f -> Y_ew (S f).
Proof.
  intros Hpw Hiw e sc o sc' H Hl Hb Hpre.
  destruct (bb_ew _ _ _ _ _ H Hl Hb Hpre) as (Htok & _ & _ & Hplc).
  destruct e as [selector variants | exp]; [rewrite ew_S_select in H | rewrite ew_S_inline in H; exact (Hiw _ _ _ _ H Hl Hb Hpre)].
  destruct Hpre as (P1 & P2 & P3). cbn [at_expr] in P1. cbn [sz_expr] in P2. cbn [ps_expr] in P3.
  apply Forall_app in P1 as [P1s P1v]. apply Forall_app in P3 as [P3s P3v].
  apply obind_done in H as ([sel s1] & E1 & H).
  apply obind_done in H as ([hit s2] & E2 & H).
  destruct (bb_ir _ _ _ _ _ E1 Hl Hb P1s ltac:(lia)) as (L1 & B1 & Q1).
  assert (Hfind : Acct C s1 s2 0 /\ sc_local_args s2 = sc_local_args s1 /\
                  (forall p, hit = Some p -> exists k d, In (Variant k p d) variants)).
  { destruct sel; try (injection E2 as <- <-; split; [apply Acct_refl, B1 | split; [reflexivity | discriminate]]);
      (split; [exact (proj1 (find_variant_acct rules f64_from_str C _ _ _ _ _ E2 B1)) |
               exact (find_variant_local rules f64_from_str _ _ _ _ _ E2)]). }
  destruct Hfind as ((B2 & Q2 & _) & A2 & Hin).
  assert (L2 : lok s2) by (apply (local_same custom_as_string Lb Ab Fb Kb s1); assumption).
  assert (Hvar : forall p k d, In (Variant k p d) variants -> pw f None p s2 = Done (o, sc') -> Byt sc sc' o (3 * W + T)).
  { intros p k d Hv Hrun.
    pose proof (sz_variant_in _ _ _ _ Hv) as Hs. fold sz_variant in P2.
    assert (Hpp : pre_p p).
    { split; [eapply variant_atoms; eassumption|]. split; [lia | eapply variant_pats; eassumption]. }
    pose proof (Hpw _ _ _ _ _ Hrun L2 B2 Hpp) as T3.
    apply (Byt_from sc s2); [lia|]. eapply Byt_weaken; [|exact T3]. lia. }
  destruct hit as [value|].
  - destruct (Hin value eq_refl) as (k & d & Hv). eapply Hvar; eassumption.
  - destruct (find_default variants) as [value|] eqn:Ed.
    + destruct (find_default_in _ _ Ed) as (k & d & Hv). eapply Hvar; eassumption.
    + injection H as <- <-. apply (Byt_leaf _ _ _ 0); [constructor | cbn; lia | lia | exact Hplc].
Qed.

Lemma term_body_byt f id attribute exp sc o sc' :
  Y_tr f ->
  term_body overflow_checks call_function transform formatter rules custom_as_string
    unescape_write unescape_to_string f64_from_str b args f id attribute exp sc = Done (o, sc') ->
  lok sc -> budget_ok sc -> length (inline_write_error exp) <= Lb -> Byt sc sc' o (3 * W + T).
Proof.
  intros Htr. unfold term_body. intros H Hl Hb Hlen.
  assert (Hwre : write_ref_error exp sc = Done (o, sc') -> Byt sc sc' o (3 * W + T)).
  { intros E. destruct (write_ref_error_bytes custom_as_string args Lb Ab Fb Kb Hargs _ _ _ _ E Hl Hlen) as [Htok _].
    apply (Byt_leaf _ _ _ 3); [exact Htok | rewrite (write_ref_error_len _ _ _ _ E); lia | lia|].
    unfold write_ref_error in E. destruct (reference_kind_of exp); cbn in E; try discriminate. injection E as <- <-. reflexivity. }
  destruct (get_entry_term b id) as [[value attributes]|] eqn:Eg; [|exact (Hwre H)].
  destruct attribute as [attr|].
  - destruct (find_attribute attributes attr) as [v|] eqn:Ea; [|exact (Hwre H)].
    eapply Htr; [exact H | exact Hl | exact Hb | | exact Hlen]. eapply term_attr_in; eassumption.
  - eapply Htr; [exact H | exact Hl | exact Hb | | exact Hlen]. eapply term_value_in; eassumption.
Qed.

Lemma byt_iw f : Y_ew f -> Y_tr f -> Y_iw (S f).
Proof.
  intros Hew Htr i sc o sc' H Hl Hb Hpre.
  destruct (bb_iw _ _ _ _ _ H Hl Hb Hpre) as (Htok & _ & _ & Hplc).
  destruct Hpre as (P1 & P2 & P3). pose proof (node_len f64_from_str Lb Kb _ P1) as Hlen.
  assert (Hwre : forall s0, plc sc <= plc s0 -> write_ref_error i s0 = Done (o, sc') -> Byt sc sc' o (3 * W + T)).
  { intros s0 Hq E. apply (Byt_leaf _ _ _ 3); [exact Htok | rewrite (write_ref_error_len _ _ _ _ E); lia | lia | exact Hplc]. }
  destruct i as [value | value | id arguments | id attribute | id attribute arguments | id | expression].
  - rewrite iw_S_string in H. injection H as <- <-. apply (Byt_leaf _ _ _ 1); [exact Htok | cbn; lia | lia | exact Hplc].
  - rewrite iw_S_number in H. injection H as <- <-. apply (Byt_leaf _ _ _ 1); [exact Htok | cbn; lia | lia | exact Hplc].
  - rewrite iw_S_function in H. apply obind_done in H as ([[pos named] s1] & E1 & H).
    destruct (get_entry_function b id) as [func|].
    + cbv zeta in H.
      destruct (call_entry call_function func pos named); injection H as <- <-;
        (apply (Byt_leaf _ _ _ 1); [exact Htok | cbn; lia | lia | exact Hplc]).
    + eapply (Hwre s1); [|exact H]. unfold write_ref_error in H.
      destruct (reference_kind_of (FunctionReference id arguments)); cbn in H; try discriminate.
      injection H as <- <-. exact Hplc.
  - rewrite iw_S_message in H.
    destruct (get_entry_message b id) as [[value attributes]|] eqn:Eg; [|exact (Hwre sc (le_n _) H)].
    destruct attribute as [attr|].
    + destruct (find_attribute attributes attr) as [v|] eqn:Ea; [|exact (Hwre sc (le_n _) H)].
      eapply Htr; [exact H | exact Hl | exact Hb | | exact Hlen]. eapply message_attr_in; eassumption.
    + destruct value as [v|].
      * eapply Htr; [exact H | exact Hl | exact Hb | | exact Hlen]. eapply message_value_in; eassumption.
      * injection H as <- <-. apply (Byt_leaf _ _ _ 3); [exact Htok | cbn; lia | lia | exact Hplc].
  - rewrite iw_S_term in H. apply obind_done in H as ([[pos named] s1] & E1 & H).
    cbv zeta in H. apply obind_done in H as ([o1 s2] & E2 & H). injection H as <- <-.
    assert (Hat' : Forall aok (at_oargs arguments)).
    { destruct arguments as [[ps ns]|]; [|constructor]. cbn [at_inline] in P1. inversion P1 as [|x l Hx Hr]. exact Hr. }
    assert (Hsz' : sz_oargs arguments <= C) by (destruct arguments as [[? ?]|]; [exact P2 | cbn; lia]).
    destruct (bb_ga _ _ _ _ _ _ E1 Hl Hb Hat' Hsz') as (V2 & L1 & B1 & Q1).
    assert (L1' : lok (set_local_args s1 (Some named))).
    { intros la [= <-]. eapply Forall_impl; [|exact V2]. intros kv Hkv. exact (proj1 Hkv). }
    pose proof (term_body_byt f id attribute _ _ _ _ Htr E2 L1' B1 Hlen) as T2.
    apply (Byt_from sc s1); [exact Q1|]. unfold Byt in *.
    change (plc (set_local_args s1 (Some named))) with (plc s1) in T2.
    change (plc (set_local_args s2 (sc_local_args s1))) with (plc s2). exact T2.
  - rewrite iw_S_variable in H.
    destruct (lookup_variable args id sc) as [arg|].
    + injection H as <- <-. apply (Byt_leaf _ _ _ 1); [exact Htok | cbn; lia | lia | exact Hplc].
    + apply obind_done in H as (s1 & E1 & H). injection H as <- <-.
      apply (Byt_leaf _ _ _ 3); [exact Htok | cbn; lia | lia | exact Hplc].
  - rewrite iw_S_placeable in H. cbn [at_inline] in P1. inversion P1 as [|x l Hx Hr]; subst.
    eapply Hew; [exact H | exact Hl | exact Hb|]. split; [exact Hr | split; [exact P2 | exact P3]].
Qed.

Theorem byt_all : forall f, Y_all f.
Proof.
  induction f as [|f (Hpw & Hew & Hiw & Hmt & Htr)].
  - unfold Y_all, Y_pw, Y_ew, Y_iw, Y_mt, Y_tr. repeat split; intros; discriminate.
  - refine (conj _ (conj _ (conj _ (conj _ _)))).
    + apply byt_pw; assumption.
    + apply byt_ew; assumption.
    + apply byt_iw; assumption.
    + apply byt_mt; assumption.
    + apply byt_tr; assumption.
Qed.

(* ---------- the entry point ---------- *)
Theorem write_pattern_linear fuel top p c o sc' :
  write_pattern overflow_checks call_function transform formatter rules custom_as_string
    unescape_write unescape_to_string f64_from_str b args fuel top p c = Done (o, sc') ->
  Forall aok (at_pattern p) -> sz_pattern p <= C -> Forall tb_ok (ps_pattern p) ->
  length (flatten o) <= T + (N.to_nat MAX_PLACEABLES + 1) * (T + 8 * W).
Proof.
  unfold write_pattern. intros H P1 P2 P3.
  destruct (byt_all fuel) as (Hpw & _).
  assert (Hl : lok (scope_new c)) by (intros la; discriminate).
  assert (Hb : budget_ok (scope_new c)) by (left; cbn; apply N.le_0_l).
  assert (Hpre : pre_p p) by (split; [exact P1 | split; [exact P2 | exact P3]]).
  pose proof (Hpw _ _ _ _ _ H Hl Hb Hpre) as T1.
  destruct (bb_pw _ _ _ _ _ _ H Hl Hb Hpre) as (_ & _ & B1 & _).
  assert (Hpl : plc sc' <= N.to_nat MAX_PLACEABLES + 1).
  { unfold plc. destruct B1 as [Hle|[He _]]; lia. }
  unfold Byt, plc in *. cbn [scope_new sc_placeables] in T1. change (N.to_nat 0) with 0 in T1. cbn [Nat.mul Nat.add] in T1.
  assert (N.to_nat (sc_placeables sc') * DB <= (N.to_nat MAX_PLACEABLES + 1) * DB) by (apply Nat.mul_le_mono_r; exact Hpl).
  unfold DB in *. lia.
Qed.

End Linear.

(* ---------- from the measures of the inputs ---------- *)
Lemma patterns_ok_of_measure transform b p T :
  text_max transform b p <= T ->
  Forall (tb_ok transform T) (ps_pattern p) /\
  (forall q, In q (bundle_patterns b) -> Forall (tb_ok transform T) (ps_pattern q)).
Proof.
  unfold text_max, input_patterns. intros H.
  assert (Hall : Forall (tb_ok transform T) (ps_pattern p ++ flat_map ps_pattern (bundle_patterns b))).
  { apply Forall_forall. intros q Hq. pose proof (list_max_map_in (pattern_text transform) _ _ Hq). unfold tb_ok. lia. }
  apply Forall_app in Hall as [H1 H2]. split; [exact H1|].
  apply Forall_flat_map in H2. rewrite Forall_forall in H2. exact H2.
Qed.

Section LinearTotal.
Variable overflow_checks : bool.
Variable call_function : bytes -> list fvalue -> fargs -> fvalue.
Variable transform : option (bytes -> bytes).
Variable formatter : option (fvalue -> option bytes).
Variable rules : ntype -> rules_fn.
Variable custom_as_string : bytes -> bytes.
Variable unescape_write : bytes -> bytes.
Variable unescape_to_string : bytes -> bytes.
Variable f64_from_str : bytes -> option fval.
Variable b : bundle.
Variable args : option fargs.
Variable p : pattern.
Variable Lb Ab Fb : nat.
Variable Kb : N.
Variable T : nat.
Hypothesis Hwf : named_args_ok b p = true.
Hypothesis HL : strings_max b p <= Lb.
Hypothesis HK : (mfd_max f64_from_str b p <= Kb)%N.
Hypothesis HA : args_size custom_as_string args <= Ab.
Hypothesis HF : external_bounded call_function transform formatter custom_as_string unescape_write unescape_to_string
                  f64_from_str Lb Fb.
Hypothesis HT : text_max transform b p <= T.

Theorem write_pattern_bytes_linear fuel top c o sc' :
  write_pattern overflow_checks call_function transform formatter rules custom_as_string
    unescape_write unescape_to_string f64_from_str b args fuel top p c = Done (o, sc') ->
  length (flatten o) <= T + (N.to_nat MAX_PLACEABLES + 1) * (T + 8 * Wb Lb Ab Fb Kb).
Proof.
  intros H.
  destruct (input_atoms_split _ _ _ (atoms_ok_of_measures f64_from_str b p Lb Kb HL Hwf HK)) as [Hatp Hatb].
  destruct (patterns_ok_of_measure transform b p T HT) as [Htp Htb].
  destruct HF as (H1 & H2 & H3 & H5 & H6 & H7).
  set (C := list_max (map sz_pattern (p :: bundle_patterns b))).
  assert (HC : forall q, In q (bundle_patterns b) -> sz_pattern q <= C).
  { intros q Hq. apply (list_max_map_in sz_pattern (p :: bundle_patterns b)). right. exact Hq. }
  assert (Hp : sz_pattern p <= C).
  { apply (list_max_map_in sz_pattern (p :: bundle_patterns b)). left. reflexivity. }
  exact (write_pattern_linear overflow_checks call_function transform formatter rules custom_as_string
           unescape_write unescape_to_string f64_from_str b args Lb Ab Fb Kb C T Hatb HA H1 H2 H3 H5 H6 H7 HC Htb
           fuel top p c o sc' H Hatp Hp Htp).
Qed.

Theorem format_pattern_bytes_linear fuel top c text sc' :
  format_pattern overflow_checks call_function transform formatter rules custom_as_string
    unescape_write unescape_to_string f64_from_str b args fuel top p c = Done (text, sc') ->
  length text <= T + (N.to_nat MAX_PLACEABLES + 1) * (T + 8 * Wb Lb Ab Fb Kb).
Proof.
  unfold format_pattern. rewrite pr_S. intros H.
  assert (Hgen : forall v sc0,
             (let* (o, sc1) := pattern_write overflow_checks call_function transform formatter rules custom_as_string
                                 unescape_write unescape_to_string f64_from_str b args fuel top p (scope_new c) in
              Done (VString (flatten o), sc1)) = Done (v, sc0) ->
             exists o, v = VString (flatten o) /\
                       length (flatten o) <= T + (N.to_nat MAX_PLACEABLES + 1) * (T + 8 * Wb Lb Ab Fb Kb)).
  { intros v sc0 E. apply obind_done in E as ([o s1] & E1 & E). injection E as <- <-.
    exists o. split; [reflexivity|]. eapply (write_pattern_bytes_linear fuel top c o s1). exact E1. }
  apply obind_done in H as ([v s0] & E & H). injection H as <- <-.
  destruct (patterns_ok_of_measure transform b p T HT) as [Htp _].
  destruct p as [els] eqn:Ep. cbn [pattern_elements] in E.
  destruct els as [|[v'|e] [|x r]]; try (destruct (Hgen _ _ E) as (o & -> & Ho); exact Ho).
  injection E as <- <-.
  cbn [ps_pattern] in Htp. inversion Htp as [|q l Hq Hr]; subst.
  unfold tb_ok, pattern_text, text_bytes in Hq. cbn [pattern_elements map list_sum fold_right] in Hq. lia.
Qed.

End LinearTotal.

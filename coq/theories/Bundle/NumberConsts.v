(* Bundle/NumberConsts.v — the NUMBER() option keys honoured by the model's `merge_one` are exactly
   those written in types/number.rs NOW (Gen/Extracted.v is regenerated from /repo on every run). *)
From FluentV Require Import Base.Bytes Base.BytesFacts Bundle.Number Gen.Extracted.

Lemma str_is_eq s k : str_is s k = true -> k = bytes_of_string s.
Proof. unfold str_is. apply bytes_eqb_eq. Qed.

Ltac key_case s key :=
  let E := fresh "E" in
  destruct (str_is s key) eqn:E;
  [ apply str_is_eq in E; subst key; exfalso;
    match goal with H : ~ In _ _ |- _ => apply H; cbn; tauto end
  | clear E ].

(* no string-valued key outside the source's list changes the options *)
Lemma merge_string_keys_from_source o key v :
  ~ In key NUMBER_STRING_OPTION_KEYS -> merge_one o key (VString v) = o.
Proof.
  intros Hn. unfold merge_one. destruct o.
  key_case "type"%string key. key_case "style"%string key. key_case "currency"%string key.
  key_case "currencyDisplay"%string key. key_case "useGrouping"%string key. reflexivity.
Qed.

(* no number-valued key outside the source's list changes the options *)
Lemma merge_number_keys_from_source o key n :
  ~ In key NUMBER_NUMBER_OPTION_KEYS -> merge_one o key (VNumber n) = o.
Proof.
  intros Hn. unfold merge_one. destruct o.
  key_case "minimumIntegerDigits"%string key. key_case "minimumFractionDigits"%string key.
  key_case "maximumFractionDigits"%string key. key_case "minimumSignificantDigits"%string key.
  key_case "maximumSignificantDigits"%string key. reflexivity.
Qed.

(* and every key of the source's lists is honoured: some value changes the default options *)
Definition changes_default (key : bytes) (v : fvalue) : bool :=
  match merge_one default_options key v, default_options with
  | NOptions a b c d e f g h i j, NOptions a' b' c' d' e' f' g' h' i' j' =>
      negb (ntype_eqb a a' && match b, b' with StyleDecimal, StyleDecimal | StyleCurrency, StyleCurrency | StylePercent, StylePercent => true | _, _ => false end
            && match c, c' with None, None => true | _, _ => false end
            && match d, d' with CurSymbol, CurSymbol | CurCode, CurCode | CurName, CurName => true | _, _ => false end
            && Bool.eqb e e'
            && match f, f' with None, None => true | _, _ => false end && match g, g' with None, None => true | _, _ => false end
            && match h, h' with None, None => true | _, _ => false end && match i, i' with None, None => true | _, _ => false end
            && match j, j' with None, None => true | _, _ => false end)
  end.

Lemma source_string_keys_honoured :
  forallb (fun k => existsb (fun v => changes_default k (VString (bytes_of_string v)))
                            ["ordinal"; "percent"; "USD"; "code"; "false"]%string) NUMBER_STRING_OPTION_KEYS = true.
Proof. vm_compute. reflexivity. Qed.

Lemma source_number_keys_honoured :
  forallb (fun k => changes_default k (VNumber (FNum (FDec false [51]%N []) default_options))) NUMBER_NUMBER_OPTION_KEYS = true.
Proof. vm_compute. reflexivity. Qed.

(* Bundle/ResolverIso.v — C09: shape of the token output with respect to the isolation marks.
   `wf_out`: balanced (Dyck word over TFSI/TPDI) and, when the bundle does not isolate, free of
   marks.  `loop_out`: the output of Pattern::write is, element by element, the text or the value
   of the placeable (the output of Scope::maybe_track on exactly that expression, itself
   balanced), the latter wrapped in exactly one TFSI…TPDI pair iff needs_isolation.            *)
From FluentV Require Import Base.Bytes Base.Outcome Syntax.Ast Bundle.Args Bundle.Number
  Bundle.ResolverAst Bundle.ResolverModel Bundle.ResolverEqns Bundle.ResolverSim Gen.Extracted.
From Coq Require Import Lia.

Arguments N.add : simpl never.
Arguments N.sub : simpl never.
Arguments N.pow : simpl never.
Arguments N.eqb : simpl never.
Arguments N.ltb : simpl never.
Arguments N.leb : simpl never.

(* nesting depth after reading o from depth d; None = a TPDI without an open TFSI *)
Fixpoint bal (d : nat) (o : list otoken) : option nat :=
  match o with
  | [] => Some d
  | Txt _ :: r => bal d r
  | TFSI :: r => bal (S d) r
  | TPDI :: r => match d with O => None | S d' => bal d' r end
  end.
Definition balanced (o : list otoken) : Prop := bal 0 o = Some 0.

Lemma bal_app d a c : bal d (a ++ c) = match bal d a with Some d' => bal d' c | None => None end.
Proof.
  revert d. induction a as [|t r IH]; intros d; cbn [app bal]; [reflexivity|].
  destruct t; [apply IH | apply IH | destruct d; [reflexivity | apply IH]].
Qed.

Lemma bal_shift k a : forall d d', bal d a = Some d' -> bal (d + k) a = Some (d' + k).
Proof.
  induction a as [|t r IH]; intros d d'; cbn [bal].
  - intros [= <-]. reflexivity.
  - destruct t; [apply IH | apply (IH (S d)) | destruct d; [discriminate | apply IH]].
Qed.

Lemma balanced_nil : balanced [].
Proof. reflexivity. Qed.
Lemma balanced_app a c : balanced a -> balanced c -> balanced (a ++ c).
Proof. unfold balanced. intros Ha Hc. now rewrite bal_app, Ha. Qed.
Lemma balanced_txt s : balanced [Txt s].
Proof. reflexivity. Qed.
Lemma balanced_wrap v : balanced v -> balanced ([TFSI] ++ v ++ [TPDI]).
Proof.
  unfold balanced. intros H. cbn [app bal]. rewrite bal_app.
  pose proof (bal_shift 1 v 0 0 H) as H1. cbn [Nat.add] in H1. rewrite H1. reflexivity.
Qed.
Lemma balanced_braced s : balanced (braced s).
Proof. reflexivity. Qed.

Definition wrap (iso : bool) (v : list otoken) : list otoken :=
  (if iso then [TFSI] else []) ++ v ++ (if iso then [TPDI] else []).

Lemma obind_done {X Y} (r : outcome X) (k : X -> outcome Y) y :
  obind r k = Done y -> exists x, r = Done x /\ k x = Done y.
Proof. destruct r; cbn; [eauto | discriminate | discriminate]. Qed.

Section Iso.
Variable overflow_checks : bool.
Variable call_function : bytes -> list fvalue -> fargs -> fvalue.
Variable transform : option (bytes -> bytes).
Variable formatter : option (fvalue -> option bytes).
Variable rules : ntype -> rules_fn.
Variable custom_as_string : bytes -> bytes.
Variable unescape_write : bytes -> bytes.
Variable unescape_to_string : bytes -> bytes.
Variable f64_from_str : bytes -> option fval.
Variable b : bundle.
Variable args : option fargs.

Notation pw := (pattern_write overflow_checks call_function transform formatter rules custom_as_string
                  unescape_write unescape_to_string f64_from_str b args).
Notation ew := (expression_write overflow_checks call_function transform formatter rules custom_as_string
                  unescape_write unescape_to_string f64_from_str b args).
Notation iw := (inline_write overflow_checks call_function transform formatter rules custom_as_string
                  unescape_write unescape_to_string f64_from_str b args).
Notation mt := (maybe_track overflow_checks call_function transform formatter rules custom_as_string
                  unescape_write unescape_to_string f64_from_str b args).
Notation tr := (track overflow_checks call_function transform formatter rules custom_as_string
                  unescape_write unescape_to_string f64_from_str b args).
Notation ga := (get_arguments overflow_checks call_function transform formatter rules custom_as_string
                  unescape_write unescape_to_string f64_from_str b args).

Definition wf_out (o : list otoken) : Prop :=
  balanced o /\ (b_use_isolating b = false -> strip o = o).

Lemma wf_nil : wf_out [].
Proof. split; reflexivity. Qed.
Lemma wf_txt s : wf_out [Txt s].
Proof. split; reflexivity. Qed.
Lemma wf_braced s : wf_out (braced s).
Proof. split; reflexivity. Qed.
Lemma wf_app a c : wf_out a -> wf_out c -> wf_out (a ++ c).
Proof.
  intros [B1 S1] [B2 S2]. split; [apply balanced_app; assumption|].
  intros H. rewrite strip_app, (S1 H), (S2 H). reflexivity.
Qed.
Lemma wf_wrap iso v : (iso = true -> b_use_isolating b = true) -> wf_out v -> wf_out (wrap iso v).
Proof.
  intros Hi [B1 S1]. unfold wrap. destruct iso.
  - split; [apply balanced_wrap, B1|]. intros H. rewrite Hi in H by reflexivity. discriminate.
  - cbn [app]. rewrite app_nil_r. split; assumption.
Qed.

Definition Out (r : result) : Prop := forall o sc', r = Done (o, sc') -> wf_out o.

Definition B_pw f := forall k p sc, Out (pw f k p sc).
Definition B_ew f := forall e sc, Out (ew f e sc).
Definition B_iw f := forall i sc, Out (iw f i sc).
Definition B_mt f := forall k p e sc, Out (mt f k p e sc).
Definition B_tr f := forall k p exp sc, Out (tr f k p exp sc).
Definition B_all f := B_pw f /\ B_ew f /\ B_iw f /\ B_mt f /\ B_tr f.

Definition needs_isolation (len : nat) (e : expression) : bool :=
  b_use_isolating b && Nat.ltb 1 len && negb (isolation_exempt e).

(* element by element: what Pattern::write wrote *)
Inductive loop_out (f : nat) (k : option pkey) (p : pattern) (len : nat) : list pattern_element -> list otoken -> Prop :=
| lo_stop els : loop_out f k p len els []
| lo_text value rest o :
    loop_out f k p len rest o ->
    loop_out f k p len (TextElement value :: rest) (Txt (apply_transform transform value) :: o)
| lo_placeable e rest v o sc0 sc1 :
    mt f k p e sc0 = Done (v, sc1) -> balanced v ->
    loop_out f k p len rest o ->
    loop_out f k p len (PlaceableElement e :: rest) (wrap (needs_isolation len e) v ++ o).

Lemma write_ref_error_out exp sc : Out (write_ref_error exp sc).
Proof.
  intros o sc'. unfold write_ref_error. destruct (reference_kind_of exp); cbn; try discriminate.
  intros [= <- <-]. apply wf_braced.
Qed.

Lemma pattern_loop_out f k p len :
  B_mt f -> forall els sc o sc',
  pattern_loop overflow_checks transform b (mt f k p) len els sc = Done (o, sc') ->
  wf_out o /\ loop_out f k p len els o.
Proof.
  intros Hmt. induction els as [|elem rest IH]; intros sc o sc'; cbn [pattern_loop].
  - intros [= <- <-]. split; [apply wf_nil | constructor].
  - destruct (sc_dirty sc); [intros [= <- <-]; split; [apply wf_nil | constructor]|].
    destruct elem as [value | expression].
    + intros H. apply obind_done in H as ([o1 s1] & E1 & H). injection H as <- <-.
      destruct (IH _ _ _ E1) as [W L].
      split; [apply (wf_app [Txt _] o1); [apply wf_txt | exact W] | constructor; exact L].
    + intros H. apply obind_done in H as (n & En & H).
      destruct (N.ltb MAX_PLACEABLES (sc_placeables (set_placeables sc n))).
      { injection H as <- <-. split; [apply wf_nil | constructor]. }
      apply obind_done in H as ([o1 s1] & E1 & H).
      apply obind_done in H as ([o2 s2] & E2 & H). injection H as <- <-.
      destruct (IH _ _ _ E2) as [W2 L2].
      pose proof (Hmt _ _ _ _ _ _ E1) as W1.
      fold (needs_isolation len expression).
      change ((if needs_isolation len expression then [TFSI] else []) ++ o1 ++
              (if needs_isolation len expression then [TPDI] else []) ++ o2)
        with ((if needs_isolation len expression then [TFSI] else []) ++ o1 ++
              ((if needs_isolation len expression then [TPDI] else []) ++ o2)).
      replace ((if needs_isolation len expression then [TFSI] else []) ++ o1 ++
               ((if needs_isolation len expression then [TPDI] else []) ++ o2))
        with (wrap (needs_isolation len expression) o1 ++ o2)
        by (unfold wrap; rewrite <- !app_assoc; reflexivity).
      split.
      * apply wf_app; [|exact W2]. apply wf_wrap; [|exact W1].
        unfold needs_isolation. intros Hn. apply andb_prop in Hn as [Hn _]. apply andb_prop in Hn as [Hn _]. exact Hn.
      * econstructor; [exact E1 | exact (proj1 W1) | exact L2].
Qed.

Lemma out_pw f : B_mt f -> B_pw (S f).
Proof.
  intros Hmt k p sc o sc'. rewrite pw_S. intros H. eapply pattern_loop_out; eassumption.
Qed.

Lemma out_mt f : B_ew f -> B_mt (S f).
Proof.
  intros Hew k p e sc o sc'. rewrite mt_S. cbv zeta. intros H.
  apply obind_done in H as ([o1 s1] & E1 & H).
  pose proof (Hew _ _ _ _ E1) as W1.
  destruct (sc_dirty s1); injection H as <- <-; [apply wf_app; [exact W1 | apply wf_braced] | exact W1].
Qed.

Lemma out_tr f : B_pw f -> B_tr (S f).
Proof.
  intros Hpw k p exp sc o sc'. rewrite tr_S.
  destruct (key_mem k (sc_travelled sc)); [intros [= <- <-]; apply wf_braced|].
  cbv zeta. intros H. apply obind_done in H as ([o1 s1] & E1 & H). injection H as <- <-.
  eapply Hpw, E1.
Qed.

Lemma out_ew f : B_pw f -> B_iw f -> B_ew (S f).
Proof.
  intros Hpw Hiw e sc o sc'.
  destruct e as [selector variants | exp]; [rewrite ew_S_select | rewrite ew_S_inline; apply Hiw].
  intros H. apply obind_done in H as ([sel s1] & E1 & H).
  apply obind_done in H as ([hit s2] & E2 & H).
  destruct hit as [value|]; [eapply Hpw, H|].
  destruct (find_default variants) as [value|]; [eapply Hpw, H|].
  injection H as <- <-. apply wf_nil.
Qed.

Lemma term_body_out f id attribute exp sc :
  B_tr f -> Out (term_body overflow_checks call_function transform formatter rules custom_as_string
                   unescape_write unescape_to_string f64_from_str b args f id attribute exp sc).
Proof.
  intros Htr. unfold term_body.
  destruct (get_entry_term b id) as [[value attributes]|]; [|apply write_ref_error_out].
  destruct attribute as [attr|]; [|apply Htr].
  destruct (find_attribute attributes attr); [apply Htr | apply write_ref_error_out].
Qed.

Lemma out_iw f : B_ew f -> B_tr f -> B_iw (S f).
Proof.
  intros Hew Htr i sc o sc'.
  destruct i as [value | value | id arguments | id attribute | id attribute arguments | id | expression].
  - rewrite iw_S_string. intros [= <- <-]. apply wf_txt.
  - rewrite iw_S_number. intros [= <- <-]. apply wf_txt.
  - rewrite iw_S_function. intros H. apply obind_done in H as ([[pos named] s1] & E1 & H).
    destruct (get_entry_function b id) as [func|]; [|eapply write_ref_error_out, H].
    cbv zeta in H. destruct (call_entry call_function func pos named); injection H as <- <-; apply wf_txt.
  - rewrite iw_S_message.
    destruct (get_entry_message b id) as [[value attributes]|]; [|apply write_ref_error_out].
    destruct attribute as [attr|].
    + destruct (find_attribute attributes attr); [apply Htr | apply write_ref_error_out].
    + destruct value as [v|]; [apply Htr | intros [= <- <-]; apply wf_braced].
  - rewrite iw_S_term. intros H. apply obind_done in H as ([[pos named] s1] & E1 & H).
    cbv zeta in H. apply obind_done in H as ([o1 s2] & E2 & H). injection H as <- <-.
    eapply term_body_out; eassumption.
  - rewrite iw_S_variable.
    destruct (lookup_variable args id sc); [intros [= <- <-]; apply wf_txt|].
    intros H. apply obind_done in H as (s1 & E1 & H). injection H as <- <-. apply wf_braced.
  - rewrite iw_S_placeable. apply Hew.
Qed.

Theorem out_all : forall f, B_all f.
Proof.
  induction f as [|f (Hpw & Hew & Hiw & Hmt & Htr)].
  - unfold B_all, B_pw, B_ew, B_iw, B_mt, B_tr, Out. repeat split; intros; discriminate.
  - refine (conj _ (conj _ (conj _ (conj _ _)))).
    + apply out_pw; assumption.
    + apply out_ew; assumption.
    + apply out_iw; assumption.
    + apply out_mt; assumption.
    + apply out_tr; assumption.
Qed.

End Iso.

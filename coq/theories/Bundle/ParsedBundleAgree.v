(* Bundle/ParsedBundleAgree.v — the bundle construction of Bundle/ParsedBundle.v (about which the C06 theorems for
   parsed resources speak) IS the one the executable model runs (Extract/ExtractC06.v run_case, which the
   correspondence check compares with the real FluentBundle): the three functions are equal by reflexivity, and the
   entries of `bundle_of ts funcs iso` are the `m` that run_case builds from the decoded resources `ts` and the
   function names `funcs`.  This file only Requires both sides; nothing depends on it. *)
From FluentV Require Import Base.Bytes Syntax.Ast Bundle.ResolverModel.
From FluentV Require Bundle.ParsedBundle Extract.ExtractC06.
From Coq Require Import List.

Lemma add_entry_agrees : ParsedBundle.add_entry = ExtractC06.add_entry.
Proof. reflexivity. Qed.

Lemma add_ast_entry_agrees : ParsedBundle.add_ast_entry = ExtractC06.add_ast_entry.
Proof. reflexivity. Qed.

Lemma add_function_agrees : ParsedBundle.add_function = ExtractC06.add_function.
Proof. reflexivity. Qed.

(* run_case:  let all_entries := concat resources in
              let m := fold_left add_function (atoms funcs) (fold_left add_ast_entry all_entries []) in ... Bundle m iso' *)
Lemma bundle_of_agrees (ts : list resource) (funcs : list bytes) (iso : bool) :
  ParsedBundle.bundle_of ts funcs iso =
  Bundle (fold_left ExtractC06.add_function funcs (fold_left ExtractC06.add_ast_entry (concat ts) nil)) iso.
Proof. reflexivity. Qed.

(* Bundle/ResolverPure.v — C08: the two entry points agree; the result does not depend on what the
   bundle's memoizer holds (hence not on the history of earlier calls); FluentArgs built from the
   same key/value set in any insertion order are the same value.                              *)
From FluentV Require Import Base.Bytes Base.BytesFacts Base.Outcome Syntax.Ast Bundle.Args Bundle.ArgsProofs
  Bundle.Number Bundle.ResolverAst Bundle.ResolverModel Bundle.ResolverEqns Bundle.ResolverSim Gen.Extracted.
From Coq Require Import Lia Sorting.Sorted Sorting.Permutation.

(* ---------- FluentArgs: insertion order is irrelevant ---------- *)
Section ArgsOrder.
Variable V : Type.

Lemma key_lt_irrefl (x : bytes * V) : ~ key_lt V x x.
Proof. unfold key_lt. apply bytes_lt_irrefl. Qed.

Lemma key_lt_asym (x y : bytes * V) : key_lt V x y -> key_lt V y x -> False.
Proof. unfold key_lt. intros H1 H2. eapply bytes_lt_irrefl, bytes_lt_trans; eassumption. Qed.

Lemma sorted_set_eq (a : args V) : forall c : args V,
  sorted V a -> sorted V c -> (forall x, In x a <-> In x c) -> a = c.
Proof.
  induction a as [|x ra IH]; intros c Sa Sc H.
  - destruct c as [|y rc]; [reflexivity|]. exfalso. apply (H y). left; reflexivity.
  - destruct c as [|y rc]; [exfalso; apply (H x); left; reflexivity|].
    apply StronglySorted_inv in Sa as [Sra Hx]. apply StronglySorted_inv in Sc as [Src Hy].
    rewrite Forall_forall in Hx, Hy.
    assert (E : x = y).
    { destruct (proj1 (H x) (or_introl eq_refl)) as [->|Hin]; [reflexivity|].
      destruct (proj2 (H y) (or_introl eq_refl)) as [->|Hin']; [reflexivity|].
      exfalso. eapply key_lt_asym; [apply Hx, Hin' | apply Hy, Hin]. }
    subst y. f_equal. apply IH; [assumption | assumption|].
    intros z. split; intros Hz.
    + destruct (proj1 (H z) (or_intror Hz)) as [->|Hin]; [|exact Hin].
      exfalso. eapply key_lt_irrefl, Hx, Hz.
    + destruct (proj2 (H z) (or_intror Hz)) as [->|Hin]; [|exact Hin].
      exfalso. eapply key_lt_irrefl, Hy, Hz.
Qed.

Lemma last_write_none kvs k : last_write V kvs k = None -> ~ In k (map fst kvs).
Proof.
  induction kvs as [|[k' v'] r IH]; cbn; [tauto|].
  destruct (last_write V r k); [discriminate|].
  destruct (bytes_eqb k' k) eqn:E; [discriminate|].
  intros _ [->|Hin]; [|apply IH; auto].
  rewrite (proj2 (bytes_eqb_eq k k) eq_refl) in E. discriminate.
Qed.

Lemma last_write_in kvs k v : last_write V kvs k = Some v -> In (k, v) kvs.
Proof.
  induction kvs as [|[k' v'] r IH]; cbn; [discriminate|].
  destruct (last_write V r k) as [v''|] eqn:E.
  - intros [= ->]. right. apply IH. reflexivity.
  - destruct (bytes_eqb k' k) eqn:Ek; [|discriminate].
    intros [= ->]. apply bytes_eqb_eq in Ek. subst. left; reflexivity.
Qed.

Lemma last_write_nodup kvs k v :
  NoDup (map fst kvs) -> (last_write V kvs k = Some v <-> In (k, v) kvs).
Proof.
  intros Hnd. split; [apply last_write_in|].
  induction kvs as [|[k' v'] r IH]; cbn; [tauto|].
  inversion Hnd as [|? ? Hni Hnd']; subst.
  intros [[= -> ->]|Hin].
  - destruct (last_write V r k) as [v''|] eqn:E.
    + exfalso. apply Hni. apply last_write_in in E. apply (in_map fst) in E. exact E.
    + now rewrite (proj2 (bytes_eqb_eq k k) eq_refl).
  - rewrite (IH Hnd' Hin). reflexivity.
Qed.

Theorem from_iter_perm kvs1 kvs2 :
  Permutation kvs1 kvs2 -> NoDup (map fst kvs1) -> from_iter V kvs1 = from_iter V kvs2.
Proof.
  intros Hp Hnd.
  assert (Hnd2 : NoDup (map fst kvs2)) by (eapply Permutation_NoDup; [apply Permutation_map, Hp | exact Hnd]).
  destruct (from_iter_total V kvs1) as [a1 E1]. destruct (from_iter_total V kvs2) as [a2 E2].
  rewrite E1, E2. f_equal.
  apply sorted_set_eq; [eapply from_iter_sorted, E1 | eapply from_iter_sorted, E2|].
  intros [k v].
  destruct (iter_once V kvs1 a1 E1) as (_ & _ & H1). destruct (iter_once V kvs2 a2 E2) as (_ & _ & H2).
  unfold iter in *. rewrite H1, H2, !last_write_nodup by assumption.
  split; intros H; [eapply Permutation_in; [exact Hp | exact H] | eapply Permutation_in; [apply Permutation_sym, Hp | exact H]].
Qed.
End ArgsOrder.

(* ---------- the resolver ---------- *)
Section Pure.
Variable overflow_checks : bool.
Variable call_function : bytes -> list fvalue -> fargs -> fvalue.
Variable transform : option (bytes -> bytes).
Variable formatter : option (fvalue -> option bytes).
Variable rules : ntype -> rules_fn.
Variable custom_as_string : bytes -> bytes.
Variable unescape_write : bytes -> bytes.
Variable unescape_to_string : bytes -> bytes.
Variable f64_from_str : bytes -> option fval.
Variable b : bundle.

Notation write := (write_pattern overflow_checks call_function transform formatter rules custom_as_string
                     unescape_write unescape_to_string f64_from_str b).
Notation format := (format_pattern overflow_checks call_function transform formatter rules custom_as_string
                      unescape_write unescape_to_string f64_from_str b).

(* the three stringification paths of a value are the same function *)
Lemma stringify_agree v :
  value_write formatter custom_as_string v = value_as_string formatter custom_as_string v /\
  value_as_string formatter custom_as_string v = value_into_string formatter custom_as_string v.
Proof. split; reflexivity. Qed.

(* bundle.rs format_pattern: `match pattern.resolve(..) { String(text) => text, value => value.into_string(..) }` *)
Definition finish_format (value : fvalue) : bytes :=
  match value with VString text => text | _ => value_into_string formatter custom_as_string value end.

(* format_pattern = write_pattern.  Pattern::resolve always returns a String, and since the fix of
   D22 format_pattern hands that text back as it is (before, it ran `into_string`, i.e. the value
   formatter, on the whole result: a formatter that handles String values made the two differ). *)
Theorem format_eq_write_all args fuel top p c :
  format args (S fuel) top p c =
  match write args (S fuel) top p c with
  | Done (o, sc) => Done (flatten o, sc)
  | Panic t => Panic t
  | OutOfFuel => OutOfFuel
  end.
Proof.
  unfold format_pattern, write_pattern. fold finish_format. rewrite pr_S.
  assert (Hgen :
    (let* (value, sc) :=
       (let* (o, sc) := pattern_write overflow_checks call_function transform formatter rules custom_as_string
                          unescape_write unescape_to_string f64_from_str b args (S fuel) top p (scope_new c) in
        Done (VString (flatten o), sc)) in
     Done (finish_format value, sc)) =
    match pattern_write overflow_checks call_function transform formatter rules custom_as_string
            unescape_write unescape_to_string f64_from_str b args (S fuel) top p (scope_new c) with
    | Done (o, sc) => Done (flatten o, sc)
    | Panic t => Panic t
    | OutOfFuel => OutOfFuel
    end).
  { destruct (pattern_write _ _ _ _ _ _ _ _ _ _ _ (S fuel) top p (scope_new c)) as [[o sc]|t|]; reflexivity. }
  destruct p as [els]. cbn [pattern_elements].
  destruct els as [|[v|e] [|x r]]; try exact Hgen.
  rewrite pw_S. cbn. rewrite app_nil_r. reflexivity.
Qed.

(* kept for files written against the statement that predates the fix of D22: the hypothesis is no
   longer needed *)
Definition formatter_keeps_strings : Prop := forall s, apply_formatter formatter (VString s) = None.

Theorem format_eq_write args fuel top p c :
  formatter_keeps_strings ->
  format args (S fuel) top p c =
  match write args (S fuel) top p c with
  | Done (o, sc) => Done (flatten o, sc)
  | Panic t => Panic t
  | OutOfFuel => OutOfFuel
  end.
Proof. intros _. apply format_eq_write_all. Qed.

(* ---------- the memoizer ---------- *)
Definition observe (r : result) : outcome (list otoken * scope) := omap (fun x => (fst x, erase (snd x))) r.
Definition observe_f (r : outcome (bytes * scope)) : outcome (bytes * scope) := omap (fun x => (fst x, erase (snd x))) r.
Definition cache_after {X} (c : intl_cache) (r : outcome (X * scope)) : intl_cache :=
  match r with Done (_, sc) => sc_intls sc | _ => c end.

Lemma Rs_new c1 c2 : cache_ok rules c1 -> cache_ok rules c2 -> Rs rules (scope_new c1) (scope_new c2).
Proof. intros H1 H2. split; [reflexivity | split; assumption]. Qed.

Theorem write_cache_indep args fuel top p c1 c2 :
  cache_ok rules c1 -> cache_ok rules c2 ->
  observe (write args fuel top p c1) = observe (write args fuel top p c2) /\
  cache_ok rules (cache_after c1 (write args fuel top p c1)) /\
  cache_ok rules (cache_after c2 (write args fuel top p c2)).
Proof.
  intros H1 H2. destruct b as [m iso]. unfold write_pattern.
  destruct (sim_all overflow_checks call_function transform formatter rules custom_as_string
              unescape_write unescape_to_string f64_from_str m iso iso args (or_introl eq_refl) fuel) as (Hpw & _).
  specialize (Hpw top p (scope_new c1) (scope_new c2) (Rs_new c1 c2 H1 H2) (or_introl eq_refl)).
  unfold b1, b2 in Hpw.
  destruct (pattern_write _ _ _ _ _ _ _ _ _ (Bundle m iso) args fuel top p (scope_new c1)) as [[o1 s1]|t1|],
           (pattern_write _ _ _ _ _ _ _ _ _ (Bundle m iso) args fuel top p (scope_new c2)) as [[o2 s2]|t2|];
    unfold observe, omap, RR, rel_out in *; cbn [obind cache_after fst snd] in *; try tauto.
  - destruct Hpw as [[_ Ho] (E & K1 & K2)].
    split; [pose proof (Ho eq_refl); congruence | split; assumption].
  - subst. tauto.
Qed.

Theorem format_cache_indep args fuel top p c1 c2 :
  cache_ok rules c1 -> cache_ok rules c2 ->
  observe_f (format args fuel top p c1) = observe_f (format args fuel top p c2) /\
  cache_ok rules (cache_after c1 (format args fuel top p c1)) /\
  cache_ok rules (cache_after c2 (format args fuel top p c2)).
Proof.
  intros H1 H2. unfold format_pattern. fold finish_format. rewrite !pr_S.
  destruct p as [els]. cbn [pattern_elements].
  assert (Hgen :
    let r c := (let* (value, sc) :=
                  (let* (o, sc) := pattern_write overflow_checks call_function transform formatter rules
                                     custom_as_string unescape_write unescape_to_string f64_from_str b args fuel
                                     top (Pattern els) (scope_new c) in
                   Done (VString (flatten o), sc)) in
                Done (finish_format value, sc)) in
    observe_f (r c1) = observe_f (r c2) /\ cache_ok rules (cache_after c1 (r c1)) /\ cache_ok rules (cache_after c2 (r c2))).
  { cbv zeta. pose proof (write_cache_indep args fuel top (Pattern els) c1 c2 H1 H2) as (E & K1 & K2).
    unfold write_pattern in *.
    destruct (pattern_write _ _ _ _ _ _ _ _ _ b args fuel top (Pattern els) (scope_new c1)) as [[o1 s1]|t1|],
             (pattern_write _ _ _ _ _ _ _ _ _ b args fuel top (Pattern els) (scope_new c2)) as [[o2 s2]|t2|];
      unfold observe, observe_f, omap in *; cbn [obind cache_after fst snd] in *; try discriminate;
      try (split; [assumption | split; assumption]).
    assert (Eo : o1 = o2) by congruence. assert (Es : erase s1 = erase s2) by congruence.
    split; [congruence | split; assumption].
    all: split; [congruence | split; assumption]. }
  destruct els as [|[v|e] [|x r]]; try exact Hgen.
  cbn. split; [reflexivity | split; assumption].
Qed.

(* a history of calls on one bundle: each call starts with the memoizer the previous one left *)
Record request := Req { rq_args : option fargs; rq_fuel : nat; rq_top : option pkey; rq_pattern : pattern; rq_format : bool }.

Definition cache_after_request (c : intl_cache) (rq : request) : intl_cache :=
  if rq_format rq then cache_after c (format (rq_args rq) (rq_fuel rq) (rq_top rq) (rq_pattern rq) c)
  else cache_after c (write (rq_args rq) (rq_fuel rq) (rq_top rq) (rq_pattern rq) c).

Fixpoint history (c : intl_cache) (reqs : list request) : intl_cache :=
  match reqs with
  | [] => c
  | rq :: r => history (cache_after_request c rq) r
  end.

Lemma history_ok reqs : forall c, cache_ok rules c -> cache_ok rules (history c reqs).
Proof.
  induction reqs as [|rq r IH]; intros c Hc; cbn [history]; [exact Hc|].
  apply IH. unfold cache_after_request. destruct (rq_format rq).
  - apply (format_cache_indep (rq_args rq) (rq_fuel rq) (rq_top rq) (rq_pattern rq) c c Hc Hc).
  - apply (write_cache_indep (rq_args rq) (rq_fuel rq) (rq_top rq) (rq_pattern rq) c c Hc Hc).
Qed.

Lemma cache_ok_nil : cache_ok rules [].
Proof. intros ty r. discriminate. Qed.

Theorem history_indep reqs1 reqs2 args fuel top p :
  observe (write args fuel top p (history [] reqs1)) = observe (write args fuel top p (history [] reqs2)) /\
  observe_f (format args fuel top p (history [] reqs1)) = observe_f (format args fuel top p (history [] reqs2)).
Proof.
  pose proof (history_ok reqs1 [] cache_ok_nil) as K1. pose proof (history_ok reqs2 [] cache_ok_nil) as K2.
  split; [apply (write_cache_indep args fuel top p _ _ K1 K2) | apply (format_cache_indep args fuel top p _ _ K1 K2)].
Qed.

End Pure.

(* Bundle/ParsedNamedArgs.v — the premise `named_args_ok` of the C06 byte bound (Bundle/ResolverBytes.v) holds for
   PARSED resources.

   Syntax/ParserShape.v proves, for every tree the parser returns (parse bs = Done (t, errs), no hypothesis on bs),
   that the value of every named argument, at every nesting depth, is a string literal or a number literal
   (shape_named; since the repair of finding D32 get_inline_expression with only_literal = true returns nothing
   else).  Here this is carried over to the resolver's view of the resources (ResolverModel.bundle: the messages and
   terms that add_resource registered, ResolverBytes.input_atoms: every text element, inline expression and named
   argument reachable from the formatted pattern or from a pattern of the bundle):

     shape_pattern_named_literals   shape_pattern p -> every named argument inside p has a literal value
     parsed_named_literals          for a bundle all of whose messages and terms are entries of parser outputs
                                    (from_parse) and a pattern p of the bundle: ResolverBytes.named_literals b p
     parsed_named_args_ok           ... hence ResolverBytes.named_args_ok b p, the premise of the byte bound
     parsed_named_args_ok_any       the same when p is any pattern of a parser output (not necessarily registered)

   Functions (EFunction) carry no pattern. *)
From FluentV Require Import Base.Bytes Base.Outcome Syntax.Ast Syntax.ParserModel Syntax.ParserShape Syntax.SerializerProofs.
From FluentV Require Import Bundle.ResolverModel Bundle.ResolverBytes.
From Coq Require Import List.
Import ListNotations.

Lemma forallb_flat_map {A B} (f : B -> bool) (g : A -> list B) l :
  forallb f (flat_map g l) = forallb (fun x => forallb f (g x)) l.
Proof. induction l as [|x r IH]; [reflexivity|]. cbn [flat_map forallb]. rewrite forallb_app, IH. reflexivity. Qed.

Lemma forallb_Forall_true {A} (f : A -> bool) l : Forall (fun x => f x = true) l -> forallb f l = true.
Proof. intros H. apply forallb_forall. rewrite Forall_forall in H. exact H. Qed.

Definition lit (l : list atom) : Prop := forallb atom_literal l = true.

Lemma at_inline_fn id ca : at_inline (FunctionReference id ca) = ANode (FunctionReference id ca) :: at_args ca.
Proof. destruct ca. reflexivity. Qed.
Lemma at_inline_term id att ca : at_inline (TermReference id att (Some ca)) = ANode (TermReference id att (Some ca)) :: at_args ca.
Proof. destruct ca. reflexivity. Qed.

Theorem shape_named_literals :
  (forall i, shape_inline i -> lit (at_inline i)) /\ (forall e, shape_expr e -> lit (at_expr e)) /\
  (forall v, shape_variant v -> lit (at_variant v)) /\ (forall p, shape_pattern p -> lit (at_pattern p)) /\
  (forall x, shape_element x -> lit (at_element x)) /\ (forall a, shape_args a -> lit (at_args a)) /\
  (forall n, shape_named n -> lit (at_named n)).
Proof.
  apply ast_mutind; unfold lit.
  - intros v _. reflexivity.
  - intros v _. reflexivity.
  - intros id a IH H. rewrite at_inline_fn. cbn [forallb atom_literal andb]. apply IH. exact H.
  - intros id att _. reflexivity.
  - intros id att [a|] IH H; [|reflexivity]. rewrite at_inline_term. cbn [forallb atom_literal andb]. apply IH. exact H.
  - intros id _. reflexivity.
  - intros e IH [H _]. cbn [at_inline forallb atom_literal andb]. apply IH. exact H.
  - intros s vs IHs IHvs H. apply shape_select in H as (Hs & _ & _ & Hvs).
    change (at_expr (Select s vs)) with (at_inline s ++ flat_map at_variant vs).
    rewrite forallb_app, (IHs Hs), forallb_flat_map. cbn [andb]. apply forallb_Forall_true.
    rewrite Forall_forall in *. intros v Hv. apply (IHvs v Hv), (Hvs v Hv).
  - intros i IH H. exact (IH H).
  - intros k p d IH H. exact (IH H).
  - intros els IH H. apply shape_pattern_els in H as (_ & _ & Hels).
    change (at_pattern (Pattern els)) with (flat_map at_element els). rewrite forallb_flat_map. apply forallb_Forall_true.
    rewrite Forall_forall in *. intros x Hx. apply (IH x Hx), (Hels x Hx).
  - intros v _. reflexivity.
  - intros e IH [H _]. exact (IH H).
  - intros pos named IHp IHn H. apply shape_args_eq in H as (Hp & Hn & _).
    unfold at_args. rewrite forallb_app, !forallb_flat_map. apply andb_true_intro. split; apply forallb_Forall_true; rewrite Forall_forall in *.
    + intros i Hi. apply (IHp i Hi), (Hp i Hi).
    + intros n Hin. apply (IHn n Hin), (Hn n Hin).
  - intros n v IH [Hv Hlit]. cbn [at_named forallb atom_literal]. rewrite (IH Hv), andb_true_r.
    destruct v; try discriminate Hlit; reflexivity.
Qed.

Theorem shape_pattern_named_literals p : shape_pattern p -> forallb atom_literal (at_pattern p) = true.
Proof. destruct shape_named_literals as (_ & _ & _ & H & _). exact (H p). Qed.

(* ---- bundles made of parsed resources ---- *)
Definition from_parse (kv : bytes * bentry) : Prop :=
  match snd kv with
  | EMessage v attrs => exists bs t errs id c, parse bs = Done (t, errs) /\ In (Message id v attrs c) t
  | ETerm v attrs => exists bs t errs id c, parse bs = Done (t, errs) /\ In (Term id v attrs c) t
  | EFunction _ => True
  end.

Lemma shape_attributes_values attrs : Forall shape_attribute attrs -> Forall shape_pattern (map attr_value attrs).
Proof. intros H. apply Forall_forall. intros p Hp. apply in_map_iff in Hp as (a & <- & Ha). rewrite Forall_forall in H. exact (H a Ha). Qed.

Lemma from_parse_patterns kv : from_parse kv -> Forall shape_pattern (entry_patterns (snd kv)).
Proof.
  unfold from_parse. destruct (snd kv) as [v attrs | v attrs | f]; cbn [entry_patterns].
  - intros (bs & t & errs & id & c & Hp & Hin). pose proof (parse_shape bs t errs Hp) as Hs. rewrite Forall_forall in Hs.
    destruct (Hs _ Hin) as [Hv Ha]. apply Forall_app. split; [|apply shape_attributes_values, Ha].
    destruct v as [p|]; [constructor; [exact Hv | constructor] | constructor].
  - intros (bs & t & errs & id & c & Hp & Hin). pose proof (parse_shape bs t errs Hp) as Hs. rewrite Forall_forall in Hs.
    destruct (Hs _ Hin) as [Hv Ha]. constructor; [exact Hv | apply shape_attributes_values, Ha].
  - intros _. constructor.
Qed.

Lemma parsed_bundle_patterns b : Forall from_parse (b_entries b) -> Forall shape_pattern (bundle_patterns b).
Proof.
  intros H. unfold bundle_patterns. apply Forall_forall. intros p Hp. apply in_flat_map in Hp as (kv & Hkv & Hin).
  rewrite Forall_forall in H. pose proof (from_parse_patterns kv (H kv Hkv)) as Hs. rewrite Forall_forall in Hs. exact (Hs p Hin).
Qed.

Theorem shape_named_literals_bundle b p : shape_pattern p -> Forall shape_pattern (bundle_patterns b) -> named_literals b p = true.
Proof.
  intros Hp Hb. unfold named_literals, input_atoms. rewrite forallb_app, (shape_pattern_named_literals p Hp), forallb_flat_map.
  cbn [andb]. apply forallb_Forall_true. rewrite Forall_forall in *. intros q Hq. apply shape_pattern_named_literals, (Hb q Hq).
Qed.

Theorem parsed_named_literals b p : Forall from_parse (b_entries b) -> In p (bundle_patterns b) -> named_literals b p = true.
Proof.
  intros Hb Hin. pose proof (parsed_bundle_patterns b Hb) as Hs. apply shape_named_literals_bundle; [|exact Hs].
  rewrite Forall_forall in Hs. exact (Hs p Hin).
Qed.

Theorem parsed_named_args_ok b p : Forall from_parse (b_entries b) -> In p (bundle_patterns b) -> named_args_ok b p = true.
Proof. intros Hb Hin. apply named_literals_ok, (parsed_named_literals b p Hb Hin). Qed.

(* the formatted pattern is a pattern of some parser output: the value or an attribute value of a message or term *)
Definition entry_value_patterns (e : entry) : list pattern :=
  match e with
  | Message _ v attrs _ => (match v with Some p => [p] | None => [] end) ++ map attr_value attrs
  | Term _ v attrs _ => v :: map attr_value attrs
  | _ => []
  end.

Theorem parsed_named_args_ok_any b p bs t errs e :
  Forall from_parse (b_entries b) -> parse bs = Done (t, errs) -> In e t -> In p (entry_value_patterns e) ->
  named_args_ok b p = true.
Proof.
  intros Hb Hparse He Hp. apply named_literals_ok, shape_named_literals_bundle; [|apply parsed_bundle_patterns, Hb].
  pose proof (parse_shape bs t errs Hparse) as Hs. rewrite Forall_forall in Hs. specialize (Hs e He).
  destruct e as [id v attrs c | id v attrs c | c | c | c | j]; cbn [entry_value_patterns shape_entry] in *;
    try (destruct Hp; fail).
  - destruct Hs as [Hv Ha]. apply in_app_or in Hp as [Hp | Hp].
    + destruct v as [q|]; [destruct Hp as [<- | []]; exact Hv | destruct Hp].
    + pose proof (shape_attributes_values attrs Ha) as Hav. rewrite Forall_forall in Hav. exact (Hav p Hp).
  - destruct Hs as [Hv Ha]. destruct Hp as [<- | Hp]; [exact Hv|].
    pose proof (shape_attributes_values attrs Ha) as Hav. rewrite Forall_forall in Hav. exact (Hav p Hp).
Qed.

(* Bundle/ResolverModel.v — model of the fluent-bundle resolver as it is at /repo HEAD
   (with the fix: commits D9, D10, D12, D13, D14).  Definitions only.

     resolver/pattern.rs            Pattern::write, Pattern::resolve
     resolver/expression.rs         Expression::write, write_error
     resolver/inline_expression.rs  InlineExpression::write, write_error, resolve
     resolver/scope.rs              Scope::new, add_error, maybe_track, track, write_ref_error, get_arguments
     resolver/errors.rs             ResolverError, ReferenceKind, From<&InlineExpression>
     types/mod.rs                   FluentValue::matches, write, as_string, into_string, try_number
     bundle.rs                      format_pattern, write_pattern
     entry.rs                       get_entry_message / get_entry_term / get_entry_function

   Conventions.
   * The writer `W: fmt::Write` is an infallible buffer; what is written is a list of tokens
     `Txt bytes | TFSI | TPDI` (`flatten` gives the bytes), so that the isolation marks written by
     Pattern::write can be told apart from text (C09).  Where the code writes into a fresh
     `String` and turns it into a value (`resolve`), the tokens are flattened.
   * `&mut Scope` is state passing.  `scope.bundle` and `scope.args` never change during a call:
     they are the section variables `b` and `args`.  `sc_calls` is a ghost log of the
     registered-function invocations (id, positional, named) — the observable of C06/C07.
     `sc_intls` is the bundle's `intls` memoizer (interior mutability in Rust; the only state
     that survives a call, C08), reduced to the one kind of object the resolver asks for
     (PluralRules, key = rule type): an association list.
   * `scope.placeables` is a `u8`: `+= 1` goes through `u8_add1`, which panics at 2^8-1 when
     `overflow_checks` (debug build) and wraps otherwise (release).
   * `travelled` holds `&Pattern` and Scope::track looks for the SAME OBJECT (`std::ptr::eq`, since the
     fix of D31; before, the derived structural PartialEq).  The identity of a pattern object of the
     bundle is its place, `pkey` = (term?, entry id, attribute): lookups are first-match, so one
     key is one AST node and distinct keys are distinct nodes even when their text is equal.
     `travelled : list (option pkey)`: `Some k` = the bundle's pattern object k; `None` = an object
     that is not one of the bundle's entry patterns (a foreign top-level pattern, a variant
     pattern) — never identical to a pattern that track looks up.  Every function that handles a
     pattern object carries its identity (`k`) next to its content (`p`); the entry points take the
     identity of the caller's pattern (`top`).  Head of the list = top of the stack.
   * all recursion between the Rust functions is one mutual Fixpoint on `fuel`; every call
     spends one unit, so fuel bounds the call depth.  `fuel_of` is the fuel given by the entry
     points; C06_total shows it is never exhausted.
   * external code = section variables: registered functions, text transform, value formatter,
     CLDR rules (`rules ty` = what the PluralRules object constructed for the bundle's first
     locale computes), printing of custom types, std's float parser `f64::from_str`
     (instantiated by Number.v f64_from_str_exact in the Extract file), and fluent_syntax::unicode::unescape_unicode /
     unescape_unicode_to_string (modelled in Syntax/UnescapeModel.v, total by C13).           *)
From FluentV Require Export Base.Bytes Base.Outcome Base.Utf8 Syntax.Ast Bundle.Args Bundle.Number
  Bundle.ResolverAst.
From FluentV Require Import Gen.Extracted.

Local Open Scope N_scope.

(* ---------- output ---------- *)
Inductive otoken := Txt (s : bytes) | TFSI | TPDI.

Definition token_bytes (t : otoken) : bytes :=
  match t with
  | Txt s => s
  | TFSI => encode_char FSI
  | TPDI => encode_char PDI
  end.
Definition flatten (o : list otoken) : bytes := flat_map token_bytes o.

Definition lbrace : otoken := Txt [123].
Definition rbrace : otoken := Txt [125].

(* ---------- errors.rs ---------- *)
Inductive reference_kind :=
| RefFunction (id : bytes)
| RefMessage (id : bytes) (attribute : option bytes)
| RefTerm (id : bytes) (attribute : option bytes)
| RefVariable (id : bytes).

Inductive resolver_error :=
| Reference (k : reference_kind)
| NoValue (id : bytes)
| MissingDefault
| Cyclic
| TooManyPlaceables.

(* errors.rs From<&InlineExpression> for ReferenceKind *)
Definition reference_kind_of (exp : inline) : outcome reference_kind :=
  match exp with
  | FunctionReference id _ => Done (RefFunction id)
  | MessageReference id attribute => Done (RefMessage id attribute)
  | TermReference id attribute _ => Done (RefTerm id attribute)
  | VariableReference id => Done (RefVariable id)
  | _ => Panic "unreachable"
  end.

(* ---------- the bundle as the resolver sees it (entry.rs) ---------- *)
Inductive func_impl := FnNUMBER | FnUser (name : bytes).

(* what `entries.get(id)` leads to: the Message / Term node in a resource, or a function *)
Inductive bentry :=
| EMessage (value : option pattern) (attributes : list attribute)
| ETerm (value : pattern) (attributes : list attribute)
| EFunction (f : func_impl).

Record bundle := Bundle { b_entries : list (bytes * bentry); b_use_isolating : bool }.

Fixpoint entry_find (m : list (bytes * bentry)) (id : bytes) : option bentry :=
  match m with
  | [] => None
  | (k, e) :: r => if bytes_eqb k id then Some e else entry_find r id
  end.

(* entry.rs get_entry_message *)
Definition get_entry_message (b : bundle) (id : bytes) : option (option pattern * list attribute) :=
  match entry_find (b_entries b) id with
  | Some (EMessage v a) => Some (v, a)
  | _ => None
  end.
(* entry.rs get_entry_term *)
Definition get_entry_term (b : bundle) (id : bytes) : option (pattern * list attribute) :=
  match entry_find (b_entries b) id with
  | Some (ETerm v a) => Some (v, a)
  | _ => None
  end.
(* entry.rs get_entry_function *)
Definition get_entry_function (b : bundle) (id : bytes) : option func_impl :=
  match entry_find (b_entries b) id with
  | Some (EFunction f) => Some f
  | _ => None
  end.

(* `attributes.iter().find_map(|a| if a.id.name == attr.name { Some(..a.value..) } else { None })` *)
Fixpoint find_attribute (attrs : list attribute) (name : bytes) : option pattern :=
  match attrs with
  | [] => None
  | a :: r => if bytes_eqb (attr_id a) name then Some (attr_value a) else find_attribute r name
  end.

(* every message / term / attribute pattern reachable through a reference *)
Definition entry_patterns (e : bentry) : list pattern :=
  match e with
  | EMessage v attrs => (match v with Some p => [p] | None => [] end) ++ map attr_value attrs
  | ETerm v attrs => v :: map attr_value attrs
  | EFunction _ => []
  end.
Definition bundle_patterns (b : bundle) : list pattern :=
  flat_map (fun kv => entry_patterns (snd kv)) (b_entries b).

(* fuel given by the entry points: (number of patterns + 1) x (deepest pattern + 2) *)
Definition fuel_step (b : bundle) : nat := 2 + list_max (map lw_pattern (bundle_patterns b)).
Definition fuel_of (b : bundle) (p : pattern) : nat :=
  1 + lw_pattern p + length (bundle_patterns b) * fuel_step b.

(* ---------- identity of the bundle's pattern objects ---------- *)
Inductive pkey := PKey (is_term : bool) (id : bytes) (attribute : option bytes).

Definition obytes_eqb (a c : option bytes) : bool :=
  match a, c with
  | None, None => true
  | Some x, Some y => bytes_eqb x y
  | _, _ => false
  end.
Definition pkey_eqb (a c : pkey) : bool :=
  match a, c with
  | PKey t1 i1 a1, PKey t2 i2 a2 => Bool.eqb t1 t2 && bytes_eqb i1 i2 && obytes_eqb a1 a2
  end.
(* `self.travelled.iter().any(|p| std::ptr::eq( *p, pattern))` for the bundle's object k *)
Definition key_mem (k : pkey) (l : list (option pkey)) : bool :=
  existsb (fun x => match x with Some k' => pkey_eqb k' k | None => false end) l.

(* the keys of every pattern object reachable through a reference, in the order of bundle_patterns *)
Definition entry_keys (id : bytes) (e : bentry) : list pkey :=
  match e with
  | EMessage v attrs =>
      (match v with Some _ => [PKey false id None] | None => [] end) ++
      map (fun a => PKey false id (Some (attr_id a))) attrs
  | ETerm _ attrs => PKey true id None :: map (fun a => PKey true id (Some (attr_id a))) attrs
  | EFunction _ => []
  end.
Definition bundle_keys (b : bundle) : list pkey :=
  flat_map (fun kv => entry_keys (fst kv) (snd kv)) (b_entries b).

(* ---------- Scope (scope.rs) ---------- *)
Definition rules_fn := operands -> pcat.
Definition intl_cache := list (ntype * rules_fn).

Record call_record := Call { call_id : bytes; call_positional : list fvalue; call_named : fargs }.

Record scope := Scope {
  sc_placeables : N;                       (* u8 *)
  sc_dirty : bool;
  sc_travelled : list (option pkey);
  sc_local_args : option fargs;
  sc_errors : list resolver_error;         (* errors: Some(&mut Vec), push = append *)
  sc_calls : list call_record;             (* ghost: function invocations, oldest first *)
  sc_intls : intl_cache }.                 (* bundle.intls *)

(* scope.rs Scope::new (the memoizer is the bundle's, whatever it holds at the time of the call) *)
Definition scope_new (c : intl_cache) : scope := Scope 0 false [] None [] [] c.

Definition set_placeables (sc : scope) (n : N) : scope :=
  Scope n (sc_dirty sc) (sc_travelled sc) (sc_local_args sc) (sc_errors sc) (sc_calls sc) (sc_intls sc).
Definition set_dirty (sc : scope) (d : bool) : scope :=
  Scope (sc_placeables sc) d (sc_travelled sc) (sc_local_args sc) (sc_errors sc) (sc_calls sc) (sc_intls sc).
Definition set_travelled (sc : scope) (t : list (option pkey)) : scope :=
  Scope (sc_placeables sc) (sc_dirty sc) t (sc_local_args sc) (sc_errors sc) (sc_calls sc) (sc_intls sc).
Definition set_local_args (sc : scope) (a : option fargs) : scope :=
  Scope (sc_placeables sc) (sc_dirty sc) (sc_travelled sc) a (sc_errors sc) (sc_calls sc) (sc_intls sc).
Definition set_intls (sc : scope) (c : intl_cache) : scope :=
  Scope (sc_placeables sc) (sc_dirty sc) (sc_travelled sc) (sc_local_args sc) (sc_errors sc) (sc_calls sc) c.
Definition log_call (sc : scope) (c : call_record) : scope :=
  Scope (sc_placeables sc) (sc_dirty sc) (sc_travelled sc) (sc_local_args sc) (sc_errors sc)
        (sc_calls sc ++ [c]) (sc_intls sc).

(* scope.rs Scope::add_error *)
Definition add_error (sc : scope) (e : resolver_error) : scope :=
  Scope (sc_placeables sc) (sc_dirty sc) (sc_travelled sc) (sc_local_args sc) (sc_errors sc ++ [e])
        (sc_calls sc) (sc_intls sc).

Definition result := outcome (list otoken * scope).

(* ---------- write_error (pure, structural) ---------- *)
(* inline_expression.rs InlineExpression::write_error / expression.rs Expression::write_error.
   (Pattern::write_error is `unreachable!()`; nothing calls it.) *)
Fixpoint inline_write_error (i : inline) : bytes :=
  match i with
  | MessageReference id (Some attribute) => id ++ [46] ++ attribute
  | MessageReference id None => id
  | TermReference id (Some attribute) _ => [45] ++ id ++ [46] ++ attribute
  | TermReference id None _ => [45] ++ id
  | FunctionReference id _ => id ++ [40; 41]
  | VariableReference id => [36] ++ id
  | StringLiteral value => value
  | NumberLiteral value => value
  | Placeable expression => expression_write_error expression
  end
with expression_write_error (e : expression) : bytes :=
  match e with
  | Inline exp => inline_write_error exp
  | Select selector _ => inline_write_error selector
  end.

(* `w.write_char('{')?; exp.write_error(w)?; w.write_char('}')` *)
Definition braced (s : bytes) : list otoken := [lbrace; Txt s; rbrace].

(* pattern.rs: the `matches!` in needs_isolation *)
Definition isolation_exempt (e : expression) : bool :=
  match e with
  | Inline (MessageReference _ _) | Inline (TermReference _ _ _) | Inline (StringLiteral _) => true
  | _ => false
  end.

(* types/mod.rs matches: the keyword table, from Gen/Extracted.v *)
Definition keyword_cats : list pcat := [ZERO; ONE; TWO; FEW; MANY; OTHER].
Fixpoint assoc_bytes {X} (l : list (bytes * X)) (k : bytes) : option X :=
  match l with
  | [] => None
  | (k', x) :: r => if bytes_eqb k' k then Some x else assoc_bytes r k
  end.
Definition plural_keyword (a : bytes) : option pcat := assoc_bytes (combine PLURAL_KEYWORDS keyword_cats) a.

Fixpoint cache_find (c : intl_cache) (ty : ntype) : option rules_fn :=
  match c with
  | [] => None
  | (t, r) :: rest => if ntype_eqb t ty then Some r else cache_find rest ty
  end.

Section Resolver.
Variable overflow_checks : bool.                                   (* debug build *)
Variable call_function : bytes -> list fvalue -> fargs -> fvalue.   (* registered FluentFunction, by name *)
Variable transform : option (bytes -> bytes).                       (* bundle.transform *)
Variable formatter : option (fvalue -> option bytes).               (* bundle.formatter *)
Variable rules : ntype -> rules_fn.                                 (* PluralRules::construct(first locale, ty) *)
Variable custom_as_string : bytes -> bytes.                         (* FluentType::as_string[_threadsafe] *)
Variable unescape_write : bytes -> bytes.                           (* unicode.rs unescape_unicode *)
Variable unescape_to_string : bytes -> bytes.                       (* unicode.rs unescape_unicode_to_string *)
Variable f64_from_str : bytes -> option fval.                       (* std: <f64 as FromStr>::from_str *)
Variable b : bundle.                                                (* scope.bundle *)
Variable args : option fargs.                                       (* scope.args *)

(* `scope.placeables += 1` on a u8 *)
Definition u8_add1 (n : N) : outcome N :=
  if N.eqb n (2 ^ PLACEABLES_BITS - 1)
  then (if overflow_checks then Panic "attempt to add with overflow" else Done 0)
  else Done (n + 1).

(* intl_memoizer with_try_get::<PluralRules>((ty,), cb): look up, else construct and keep *)
Definition with_try_get (c : intl_cache) (ty : ntype) : rules_fn * intl_cache :=
  match cache_find c ty with
  | Some r => (r, c)
  | None => let r := rules ty in (r, (ty, r) :: c)
  end.

Definition apply_transform (value : bytes) : bytes :=
  match transform with Some tr => tr value | None => value end.

Definition apply_formatter (v : fvalue) : option bytes :=
  match formatter with Some fm => fm v | None => None end.

(* types/mod.rs FluentValue::write (what it writes) *)
Definition value_write (v : fvalue) : bytes :=
  match apply_formatter v with
  | Some val => val
  | None =>
      match v with
      | VString s => s
      | VNumber n => fnumber_as_string n
      | VCustom s => custom_as_string s
      | VError => []
      | VNone => []
      end
  end.

(* types/mod.rs FluentValue::as_string *)
Definition value_as_string (v : fvalue) : bytes :=
  match apply_formatter v with
  | Some val => val
  | None =>
      match v with
      | VString s => s
      | VNumber n => fnumber_as_string n
      | VCustom s => custom_as_string s
      | VError => []
      | VNone => []
      end
  end.

(* types/mod.rs FluentValue::into_string *)
Definition value_into_string (v : fvalue) : bytes :=
  match apply_formatter v with
  | Some val => val
  | None =>
      match v with
      | VString s => s
      | VNumber n => fnumber_as_string n
      | VCustom s => custom_as_string s
      | VError => []
      | VNone => []
      end
  end.

(* types/mod.rs FluentValue::matches   (self = the variant key, other = the selector) *)
Definition value_matches (self other : fvalue) (sc : scope) : outcome (bool * scope) :=
  match self, other with
  | VString a, VString b' => Done (bytes_eqb a b', sc)
  | VNumber a, VNumber b' => Done (fval_eqb (n_value a) (n_value b'), sc)
  | VString a, VNumber b' =>
      match plural_keyword a with
      | None => Done (false, sc)
      | Some cat =>
          let '(pr, c') := with_try_get (sc_intls sc) (o_type (n_options b')) in
          let sc := set_intls sc c' in
          let* ops := fnumber_operands b' in                       (* pr.0.select(b): From<&FluentNumber> *)
          Done (pcat_eqb (pr ops) cat, sc)
      end
  | _, _ => Done (false, sc)
  end.

(* expression.rs: `match variant.key { Identifier => name.into(), NumberLiteral => try_number(value) }` *)
Definition variant_key_value (k : variant_key) : fvalue :=
  match k with
  | KeyIdentifier name => VString name
  | KeyNumber value => try_number f64_from_str value
  end.

(* expression.rs: first `for variant in variants { if key.matches(&selector, scope) { return … } }` *)
Fixpoint find_variant (variants : list variant) (selector : fvalue) (sc : scope)
  : outcome (option pattern * scope) :=
  match variants with
  | [] => Done (None, sc)
  | Variant key value _ :: rest =>
      let* (m, sc) := value_matches (variant_key_value key) selector sc in
      if m then Done (Some value, sc) else find_variant rest selector sc
  end.

(* expression.rs: second `for variant in variants { if variant.default { return … } }` *)
Fixpoint find_default (variants : list variant) : option pattern :=
  match variants with
  | [] => None
  | Variant _ value d :: rest => if d then Some value else find_default rest
  end.

(* scope.rs Scope::write_ref_error *)
Definition write_ref_error (exp : inline) (sc : scope) : result :=
  let* k := reference_kind_of exp in
  Done (braced (inline_write_error exp), add_error sc (Reference k)).

Definition call_entry (f : func_impl) (positional : list fvalue) (named : fargs) : fvalue :=
  match f with
  | FnNUMBER => NUMBER positional named
  | FnUser name => call_function name positional named
  end.

(* pattern.rs Pattern::write : the `for elem in &self.elements` loop; mt = scope.maybe_track(w, self, _) *)
Definition pattern_loop (mt : expression -> scope -> result) (len : nat)
  : list pattern_element -> scope -> result :=
  fix loop (els : list pattern_element) (sc : scope) {struct els} : result :=
    match els with
    | [] => Done ([], sc)
    | elem :: rest =>
        if sc_dirty sc then Done ([], sc)
        else
          match elem with
          | TextElement value =>
              let* (o, sc) := loop rest sc in
              Done (Txt (apply_transform value) :: o, sc)
          | PlaceableElement expression =>
              let* n := u8_add1 (sc_placeables sc) in
              let sc := set_placeables sc n in
              if N.ltb MAX_PLACEABLES (sc_placeables sc)
              then Done ([], add_error (set_dirty sc true) TooManyPlaceables)
              else
                let needs_isolation :=
                  b_use_isolating b && Nat.ltb 1 len && negb (isolation_exempt expression) in
                let* (o1, sc) := mt expression sc in
                let* (o2, sc) := loop rest sc in
                Done ((if needs_isolation then [TFSI] else []) ++ o1 ++
                      (if needs_isolation then [TPDI] else []) ++ o2, sc)
          end
    end.

(* scope.rs get_arguments: `positional.iter().map(|expr| expr.resolve(self)).collect()` *)
Definition resolve_list (rs : inline -> scope -> outcome (fvalue * scope))
  : list inline -> scope -> outcome (list fvalue * scope) :=
  fix go (l : list inline) (sc : scope) {struct l} :=
    match l with
    | [] => Done ([], sc)
    | x :: r =>
        let* (v, sc) := rs x sc in
        let* (vs, sc) := go r sc in
        Done (v :: vs, sc)
    end.

(* scope.rs get_arguments: `named.iter().map(|arg| (arg.name.name, arg.value.resolve(self)))` *)
Definition resolve_named (rs : inline -> scope -> outcome (fvalue * scope))
  : list named_arg -> scope -> outcome (list (bytes * fvalue) * scope) :=
  fix go (l : list named_arg) (sc : scope) {struct l} :=
    match l with
    | [] => Done ([], sc)
    | NamedArgument name value :: r =>
        let* (v, sc) := rs value sc in
        let* (vs, sc) := go r sc in
        Done ((name, v) :: vs, sc)
    end.

Fixpoint pattern_write (fuel : nat) (k : option pkey) (p : pattern) (sc : scope) {struct fuel} : result :=
  (* pattern.rs Pattern::write   (k = which object `self` is) *)
  match fuel with
  | O => OutOfFuel
  | S f => pattern_loop (maybe_track f k p) (length (pattern_elements p)) (pattern_elements p) sc
  end

with pattern_resolve (fuel : nat) (k : option pkey) (p : pattern) (sc : scope) {struct fuel} : outcome (fvalue * scope) :=
  (* pattern.rs Pattern::resolve *)
  match fuel with
  | O => OutOfFuel
  | S f =>
      match pattern_elements p with
      | [TextElement value] => Done (VString (apply_transform value), sc)
      | _ =>
          let* (o, sc) := pattern_write f k p sc in
          Done (VString (flatten o), sc)
      end
  end

with expression_write (fuel : nat) (e : expression) (sc : scope) {struct fuel} : result :=
  (* expression.rs Expression::write *)
  match fuel with
  | O => OutOfFuel
  | S f =>
      match e with
      | Inline exp => inline_write f exp sc
      | Select selector variants =>
          let* (sel, sc) := inline_resolve f selector sc in
          let* (hit, sc) :=
            match sel with
            | VString _ | VNumber _ => find_variant variants sel sc
            | _ => Done (None, sc)
            end in
          match hit with
          | Some value => pattern_write f None value sc
          | None =>
              match find_default variants with
              | Some value => pattern_write f None value sc
              | None => Done ([], add_error sc MissingDefault)
              end
          end
      end
  end

with inline_write (fuel : nat) (i : inline) (sc : scope) {struct fuel} : result :=
  (* inline_expression.rs InlineExpression::write *)
  match fuel with
  | O => OutOfFuel
  | S f =>
      match i with
      | StringLiteral value => Done ([Txt (unescape_write value)], sc)
      | MessageReference id attribute =>
          match get_entry_message b id with
          | Some (value, attributes) =>
              match attribute with
              | Some attr =>
                  match find_attribute attributes attr with
                  | Some v => track f (PKey false id (Some attr)) v i sc
                  | None => write_ref_error i sc
                  end
              | None =>
                  match value with
                  | Some v => track f (PKey false id None) v i sc
                  | None => Done (braced (inline_write_error i), add_error sc (NoValue id))
                  end
              end
          | None => write_ref_error i sc
          end
      | NumberLiteral value => Done ([Txt (value_write (try_number f64_from_str value))], sc)
      | TermReference id attribute arguments =>
          let* (_, resolved_named_args, sc) := get_arguments f arguments sc in
          let previous_args := sc_local_args sc in
          let sc := set_local_args sc (Some resolved_named_args) in
          let* (o, sc) :=
            match get_entry_term b id with
            | Some (value, attributes) =>
                match attribute with
                | Some attr =>
                    match find_attribute attributes attr with
                    | Some v => track f (PKey true id (Some attr)) v i sc
                    | None => write_ref_error i sc
                    end
                | None => track f (PKey true id None) value i sc
                end
            | None => write_ref_error i sc
            end in
          Done (o, set_local_args sc previous_args)
      | FunctionReference id arguments =>
          let* (resolved_positional_args, resolved_named_args, sc) := get_arguments f (Some arguments) sc in
          match get_entry_function b id with
          | Some func =>
              let result := call_entry func resolved_positional_args resolved_named_args in
              let sc := log_call sc (Call id resolved_positional_args resolved_named_args) in
              match result with
              | VError => Done ([Txt (inline_write_error i)], sc)
              | _ => Done ([Txt (value_into_string result)], sc)
              end
          | None => write_ref_error i sc
          end
      | VariableReference id =>
          let a := match sc_local_args sc with Some la => Some la | None => args end in
          let found :=
            match a with
            | Some a' => match Args.get fvalue a' id with Done r => r | _ => None end
            | None => None
            end in
          match found with
          | Some arg => Done ([Txt (value_write arg)], sc)
          | None =>
              let* sc :=
                match sc_local_args sc with
                | None => let* k := reference_kind_of i in Done (add_error sc (Reference k))
                | Some _ => Done sc
                end in
              Done (braced (inline_write_error i), sc)
          end
      | Placeable expression => expression_write f expression sc
      end
  end

with inline_resolve (fuel : nat) (i : inline) (sc : scope) {struct fuel} : outcome (fvalue * scope) :=
  (* inline_expression.rs InlineExpression::resolve *)
  match fuel with
  | O => OutOfFuel
  | S f =>
      match i with
      | StringLiteral value => Done (VString (unescape_to_string value), sc)
      | NumberLiteral value => Done (try_number f64_from_str value, sc)
      | VariableReference id =>
          let found :=
            match sc_local_args sc with
            | Some la => match Args.get fvalue la id with Done r => r | _ => None end
            | None =>
                match args with
                | Some a' => match Args.get fvalue a' id with Done r => r | _ => None end
                | None => None
                end
            end in
          match found with
          | Some arg => Done (arg, sc)
          | None =>
              let* sc :=
                match sc_local_args sc with
                | None => let* k := reference_kind_of i in Done (add_error sc (Reference k))
                | Some _ => Done sc
                end in
              Done (VError, sc)
          end
      | FunctionReference id arguments =>
          let* (resolved_positional_args, resolved_named_args, sc) := get_arguments f (Some arguments) sc in
          match get_entry_function b id with
          | Some func =>
              let result := call_entry func resolved_positional_args resolved_named_args in
              Done (result, log_call sc (Call id resolved_positional_args resolved_named_args))
          | None =>
              let* k := reference_kind_of i in
              Done (VError, add_error sc (Reference k))
          end
      | _ =>
          let* (o, sc) := inline_write f i sc in
          Done (VString (flatten o), sc)
      end
  end

with maybe_track (fuel : nat) (k : option pkey) (p : pattern) (e : expression) (sc : scope) {struct fuel} : result :=
  (* scope.rs Scope::maybe_track *)
  match fuel with
  | O => OutOfFuel
  | S f =>
      let sc := match sc_travelled sc with [] => set_travelled sc [k] | _ => sc end in
      let* (o, sc) := expression_write f e sc in
      if sc_dirty sc then Done (o ++ braced (expression_write_error e), sc)
      else Done (o, sc)
  end

with track (fuel : nat) (k : pkey) (p : pattern) (exp : inline) (sc : scope) {struct fuel} : result :=
  (* scope.rs Scope::track *)
  match fuel with
  | O => OutOfFuel
  | S f =>
      if key_mem k (sc_travelled sc)
      then Done (braced (inline_write_error exp), add_error sc Cyclic)
      else
        let sc := set_travelled sc (Some k :: sc_travelled sc) in
        let* (o, sc) := pattern_write f (Some k) p sc in
        Done (o, set_travelled sc (tl (sc_travelled sc)))
  end

with get_arguments (fuel : nat) (arguments : option call_args) (sc : scope) {struct fuel}
  : outcome (list fvalue * fargs * scope) :=
  (* scope.rs Scope::get_arguments *)
  match fuel with
  | O => OutOfFuel
  | S f =>
      match arguments with
      | Some (CallArguments positional named) =>
          let* (pos, sc) := resolve_list (inline_resolve f) positional sc in
          let* (nam, sc) := resolve_named (inline_resolve f) named sc in
          let* named_args := Args.from_iter fvalue nam in                  (* .collect() into FluentArgs *)
          Done (pos, named_args, sc)
      | None => Done ([], Args.new fvalue, sc)
      end
  end.

(* bundle.rs FluentBundle::write_pattern — returns the tokens written and the final scope
   (errors = sc_errors, function invocations = sc_calls, memoizer afterwards = sc_intls) *)
Definition write_pattern (fuel : nat) (top : option pkey) (pattern : pattern) (intls : intl_cache) : result :=
  pattern_write fuel top pattern (scope_new intls).

(* bundle.rs FluentBundle::format_pattern *)
Definition format_pattern (fuel : nat) (top : option pkey) (pattern : pattern) (intls : intl_cache) : outcome (bytes * scope) :=
  let* (value, sc) := pattern_resolve (S fuel) top pattern (scope_new intls) in
  (* match pattern.resolve(..) { FluentValue::String(text) => text, value => value.into_string(&scope) } *)
  Done (match value with VString text => text | _ => value_into_string value end, sc).

End Resolver.

(* Bundle/Number.v — model of fluent-bundle/src/types/number.rs (FluentNumber, FluentNumberOptions),
   of the FluentValue data type of types/mod.rs, of builtins.rs NUMBER and of
   intl_pluralrules::operands (`PluralOperands::try_from(f64)`).  Definitions only.

   NUMBERS ARE EXACT DECIMALS.  `FluentNumber.value` is an `f64`; the model keeps what
   `f64::to_string` (Display, shortest round-trip, positional notation) would print, as a sign,
   the integer digits and the fraction digits (ASCII), or NaN / +-inf.  The model therefore IS the
   real value only where decimal -> binary64 -> shortest decimal is the identity: numbers with at
   most 15 significant digits (and every value that enters as an `f64`/integer argument, for which
   the case carries Rust's own Display text).  Beyond 15 significant digits of a *literal* the
   real code rounds and the model does not (known class D15).  That `f64::from_str`/Display behave
   like this is trusted and sampled by the correspondence run, not proved.

   `f64::from_str` is modelled for the grammar  [+-]? digits* ( '.' digits* )?  with at least one
   digit (a superset of the FTL number-literal grammar -?d+(.d+)?, the only strings the parser ever
   hands to `FluentValue::try_number`).  Exponents, "inf", "nan" are NOT recognised by the model
   (they would make a Number in Rust, a String in the model); no parsed resource contains them.

   usize / u64 are 64 bit.                                                                    *)
From FluentV Require Export Base.Bytes Base.Outcome Bundle.Args.
From Coq Require Import Lia.

Local Open Scope N_scope.

(* ---------- small byte-string helpers ---------- *)
Definition is_digit (b : N) : bool := N.leb 48 b && N.leb b 57.

Fixpoint strip_leading_zeros (s : bytes) : bytes :=
  match s with
  | 48 :: r => strip_leading_zeros r
  | _ => s
  end.

(* str::trim_end_matches('0') *)
Definition trim_end_zeros (s : bytes) : bytes := rev (strip_leading_zeros (rev s)).

(* str::find(c) : byte offset of the first occurrence *)
Fixpoint find_byte (c : N) (s : bytes) : option nat :=
  match s with
  | [] => None
  | b :: r => if N.eqb b c then Some O else option_map S (find_byte c r)
  end.

(* "0".repeat(n) *)
Definition zeros (n : N) : bytes := repeat 48 (N.to_nat n).

(* value of a digit string (no check) *)
Definition digits_val (s : bytes) : N := fold_left (fun acc b => acc * 10 + (b - 48)) s 0.

Definition u64_max : N := 18446744073709551615.
Definition u32_max : N := 4294967295.

(* u64::from_str : optional '+', at least one digit, digits only, no overflow *)
Definition u64_from_str (s : bytes) : option N :=
  let body := match s with 43 :: r => r | _ => s end in
  match body with
  | [] => None
  | _ => if forallb is_digit body
         then (let v := digits_val body in if N.leb v u64_max then Some v else None)
         else None
  end.

(* ---------- options ---------- *)
Inductive ntype := Cardinal | Ordinal.
Inductive nstyle := StyleDecimal | StyleCurrency | StylePercent.
Inductive ncurrency_display := CurSymbol | CurCode | CurName.

(* number.rs FluentNumberOptions *)
Record noptions := NOptions {
  o_type : ntype;
  o_style : nstyle;
  o_currency : option bytes;
  o_currency_display : ncurrency_display;
  o_use_grouping : bool;
  o_minimum_integer_digits : option N;
  o_minimum_fraction_digits : option N;
  o_maximum_fraction_digits : option N;
  o_minimum_significant_digits : option N;
  o_maximum_significant_digits : option N }.

(* number.rs Default for FluentNumberOptions *)
Definition default_options : noptions :=
  NOptions Cardinal StyleDecimal None CurSymbol true None None None None None.

Definition str_is (s : string) (b : bytes) : bool := bytes_eqb b (bytes_of_string s).

(* number.rs From<&str> for FluentNumberType / FluentNumberStyle / FluentNumberCurrencyDisplayStyle *)
Definition ntype_of_str (s : bytes) : ntype :=
  if str_is "cardinal" s then Cardinal else if str_is "ordinal" s then Ordinal else Cardinal.
Definition nstyle_of_str (s : bytes) : nstyle :=
  if str_is "decimal" s then StyleDecimal else if str_is "currency" s then StyleCurrency
  else if str_is "percent" s then StylePercent else StyleDecimal.
Definition ncurrency_display_of_str (s : bytes) : ncurrency_display :=
  if str_is "symbol" s then CurSymbol else if str_is "code" s then CurCode
  else if str_is "name" s then CurName else CurSymbol.

(* ---------- the numeric value ---------- *)
Inductive fval :=
| FNaN
| FInf (neg : bool)
| FDec (neg : bool) (int_digits frac_digits : bytes).

(* number.rs FluentNumber *)
Record fnumber := FNum { n_value : fval; n_options : noptions }.

(* f64 Display *)
Definition fval_to_string (v : fval) : bytes :=
  match v with
  | FNaN => bytes_of_string "NaN"
  | FInf false => bytes_of_string "inf"
  | FInf true => bytes_of_string "-inf"
  | FDec neg i f =>
      (if neg then [45] else []) ++ i ++ (match f with [] => [] | _ => 46 :: f end)
  end.

Definition all_zero (s : bytes) : bool := forallb (N.eqb 48) s.

(* f64 == : NaN is unequal to everything, -0 == 0 *)
Definition fval_eqb (a b : fval) : bool :=
  match a, b with
  | FInf x, FInf y => Bool.eqb x y
  | FDec n1 i1 f1, FDec n2 i2 f2 =>
      if all_zero i1 && all_zero f1 && all_zero i2 && all_zero f2 then true
      else Bool.eqb n1 n2 && bytes_eqb (strip_leading_zeros i1) (strip_leading_zeros i2)
           && bytes_eqb (trim_end_zeros f1) (trim_end_zeros f2)
  | _, _ => false
  end.

(* f64::abs *)
Definition fval_abs (v : fval) : fval :=
  match v with
  | FNaN => FNaN
  | FInf _ => FInf false
  | FDec _ i f => FDec false i f
  end.

(* `x as u64` / `x as usize` for an f64: NaN -> 0, saturating, truncating toward zero *)
Definition fval_as_u64 (v : fval) : N :=
  match v with
  | FNaN => 0
  | FInf true => 0
  | FInf false => u64_max
  | FDec true _ _ => 0
  | FDec false i _ => N.min (digits_val i) u64_max
  end.

(* f64::from_str on the modelled grammar (see header).  In the resolver model std's float parser is a
   section variable (`f64_from_str`, external code); this is what it is instantiated with. *)
Definition split_sign (s : bytes) : bool * bytes :=
  match s with
  | 45 :: r => (true, r)
  | 43 :: r => (false, r)
  | _ => (false, s)
  end.

Fixpoint span_digits (s : bytes) : bytes * bytes :=
  match s with
  | b :: r => if is_digit b then let '(d, rest) := span_digits r in (b :: d, rest) else ([], s)
  | [] => ([], [])
  end.

Definition mk_dec (neg : bool) (i f : bytes) : fval :=
  let i' := strip_leading_zeros i in
  FDec neg (match i' with [] => [48] | _ => i' end) (trim_end_zeros f).

Definition f64_from_str_exact (input : bytes) : option fval :=
  let '(neg, body) := split_sign input in
  let '(i, rest) := span_digits body in
  match rest with
  | [] => match i with [] => None | _ => Some (mk_dec neg i []) end
  | 46 :: rest' =>
      let '(f, rest'') := span_digits rest' in
      match rest'' with
      | [] => match i, f with [], [] => None | _, _ => Some (mk_dec neg i f) end
      | _ => None
      end
  | _ => None
  end.

(* number.rs FromStr for FluentNumber; f64_from_str = std's `f64::from_str` *)
Definition fnumber_from_str (f64_from_str : bytes -> option fval) (input : bytes) : option fnumber :=
  match f64_from_str input with
  | Some n =>
      let mfd := option_map (fun pos => N.of_nat (length input - pos - 1)) (find_byte 46 input) in
      Some (FNum n (NOptions Cardinal StyleDecimal None CurSymbol true None mfd None None None))
  | None => None
  end.

(* number.rs FluentNumber::as_string *)
Definition fnumber_as_string (n : fnumber) : bytes :=
  let val := fval_to_string (n_value n) in
  match o_minimum_fraction_digits (n_options n) with
  | Some minfd =>
      match find_byte 46 val with
      | Some pos =>
          let frac_num := N.of_nat (length val - pos - 1) in
          let missing := minfd - frac_num in            (* saturating_sub; N.sub truncates at 0 *)
          val ++ zeros missing
      | None => val ++ [46] ++ zeros minfd
      end
  | None => val
  end.

(* ---------- FluentValue (types/mod.rs) ---------- *)
(* Custom(Box<dyn FluentType>) is an opaque payload; how it prints is a parameter of the resolver. *)
Inductive fvalue :=
| VString (s : bytes)
| VNumber (n : fnumber)
| VCustom (payload : bytes)
| VNone
| VError.

Definition fargs := args fvalue.

(* types/mod.rs FluentValue::try_number *)
Definition try_number (f64_from_str : bytes -> option fval) (value : bytes) : fvalue :=
  match fnumber_from_str f64_from_str value with
  | Some number => VNumber number
  | None => VString value
  end.

(* number.rs From<&FluentNumber> for usize   (`input.value as usize`) *)
Definition usize_of_fnumber (n : fnumber) : N := fval_as_u64 (n_value n).

(* number.rs FluentNumberOptions::merge — one (key, value) of the loop *)
Definition merge_one (o : noptions) (key : bytes) (value : fvalue) : noptions :=
  let 'NOptions ty st cu cd ug mi mf xf ms xs := o in
  match value with
  | VString n =>
      if str_is "type" key then NOptions (ntype_of_str n) st cu cd ug mi mf xf ms xs
      else if str_is "style" key then NOptions ty (nstyle_of_str n) cu cd ug mi mf xf ms xs
      else if str_is "currency" key then NOptions ty st (Some n) cd ug mi mf xf ms xs
      else if str_is "currencyDisplay" key then NOptions ty st cu (ncurrency_display_of_str n) ug mi mf xf ms xs
      else if str_is "useGrouping" key then NOptions ty st cu cd (negb (str_is "false" n)) mi mf xf ms xs
      else o
  | VNumber n =>
      if str_is "minimumIntegerDigits" key then NOptions ty st cu cd ug (Some (usize_of_fnumber n)) mf xf ms xs
      else if str_is "minimumFractionDigits" key then NOptions ty st cu cd ug mi (Some (usize_of_fnumber n)) xf ms xs
      else if str_is "maximumFractionDigits" key then NOptions ty st cu cd ug mi mf (Some (usize_of_fnumber n)) ms xs
      else if str_is "minimumSignificantDigits" key then NOptions ty st cu cd ug mi mf xf (Some (usize_of_fnumber n)) xs
      else if str_is "maximumSignificantDigits" key then NOptions ty st cu cd ug mi mf xf ms (Some (usize_of_fnumber n))
      else o
  | _ => o
  end.

(* number.rs FluentNumberOptions::merge : `for (key, value) in opts.iter()` *)
Definition merge (o : noptions) (opts : fargs) : noptions :=
  fold_left (fun acc kv => merge_one acc (fst kv) (snd kv)) (iter fvalue opts) o.

(* builtins.rs NUMBER *)
Definition NUMBER (positional : list fvalue) (named : fargs) : fvalue :=
  match positional with
  | VNumber n :: _ => VNumber (FNum (n_value n) (merge (n_options n) named))
  | _ => VError
  end.

(* ---------- plural operands ---------- *)
(* intl_pluralrules::operands::PluralOperands; n is the absolute value *)
Record operands := Operands { op_n : fval; op_i : N; op_v : N; op_w : N; op_f : N; op_t : N }.

Inductive pcat := ZERO | ONE | TWO | FEW | MANY | OTHER.

Definition pcat_eqb (a b : pcat) : bool :=
  match a, b with
  | ZERO, ZERO | ONE, ONE | TWO, TWO | FEW, FEW | MANY, MANY | OTHER, OTHER => true
  | _, _ => false
  end.

Definition ntype_eqb (a b : ntype) : bool :=
  match a, b with Cardinal, Cardinal | Ordinal, Ordinal => true | _, _ => false end.

(* operands.rs TryFrom<f64> = TryFrom<&str> on `input.to_string()`.  Err = None. *)
Definition operands_try_from_f64 (input : fval) : option operands :=
  let s := fval_to_string input in
  let abs_str := match s with 45 :: r => r | _ => s end in
  let absolute_value := fval_abs input in                (* f64::from_str(abs_str): never fails on Display output *)
  match find_byte 46 abs_str with
  | Some dec_pos =>
      let int_str := firstn dec_pos abs_str in
      let dec_str := skipn (dec_pos + 1) abs_str in
      match u64_from_str int_str with
      | None => None                                                   (* "Could not convert string to integer!" *)
      | Some integer_digits =>
          let backtrace := trim_end_zeros dec_str in
          match u64_from_str dec_str with
          | None => None
          | Some fraction_digits0 =>
              let fraction_digits := match u64_from_str backtrace with Some x => x | None => 0 end in
              Some (Operands absolute_value integer_digits (N.of_nat (length dec_str))
                             (N.of_nat (length backtrace)) fraction_digits0 fraction_digits)
          end
      end
  | None => Some (Operands absolute_value (fval_as_u64 absolute_value) 0 0 0 0)
  end.

(* 10_u64.checked_pow(shift): 10^19 < 2^64 <= 10^20 *)
Definition checked_pow10_u64 (shift : N) : option N :=
  if N.leb shift 19 then Some (10 ^ shift) else None.

Definition checked_mul_u64 (a b : N) : option N :=
  let p := a * b in if N.leb p u64_max then Some p else None.

(* number.rs From<&FluentNumber> for PluralOperands *)
Definition fnumber_operands (input : fnumber) : outcome operands :=
  match operands_try_from_f64 (n_value input) with
  | None => Panic "Failed to generate operands out of FluentNumber"
  | Some ops =>
      match o_minimum_fraction_digits (n_options input) with
      | Some mfd =>
          if N.ltb (op_v ops) mfd then
            let shift := mfd - op_v ops in
            let f' :=
              if N.eqb (op_f ops) 0 then 0 else                                  (* if operands.f != 0 { .. } *)
              match (if N.leb shift u32_max then Some shift else None) with     (* u32::try_from(..).ok() *)
              | Some shift =>
                  match checked_pow10_u64 shift with
                  | Some scale =>
                      match checked_mul_u64 (op_f ops) scale with
                      | Some x => x
                      | None => u64_max
                      end
                  | None => u64_max
                  end
              | None => u64_max
              end in
            Done (Operands (op_n ops) (op_i ops) mfd (op_w ops) f' (op_t ops))
          else Done ops
      | None => Done ops
      end
  end.


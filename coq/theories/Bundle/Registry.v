(* Bundle/Registry.v — model of the FluentBundle registry (property C10).  Definitions only.

   fluent-bundle/src/bundle.rs   add_resource, add_resource_overriding, add_function,
                                 has_message, get_message
   fluent-bundle/src/entry.rs    Entry, get_entry_message / get_entry_term / get_entry_function
   fluent-bundle/src/message.rs  FluentMessage::value / attributes / get_attribute
   fluent-bundle/src/resource.rs FluentResource::entries / get_entry  (a resource is its parsed
                                 body, `Ast.resource`; parsing itself is not part of this model)

   `FxHashMap<String, Entry>` is modelled as an association list with unique keys (`afind`,
   `ainsert`: replace in place or append).  Only finite-map behaviour of the hash map is used by
   the code (entry/insert/get); iteration order is never observed.
   Functions are opaque values of a type `F` (the code never calls them here).               *)
From FluentV Require Export Base.Bytes Base.Outcome Syntax.Ast.

(* ---- finite map as association list ---- *)
Fixpoint afind {V} (m : list (bytes * V)) (k : bytes) : option V :=
  match m with
  | [] => None
  | (k', v) :: r => if bytes_eqb k' k then Some v else afind r k
  end.

Fixpoint ainsert {V} (m : list (bytes * V)) (k : bytes) (v : V) : list (bytes * V) :=
  match m with
  | [] => [(k, v)]
  | (k', v') :: r => if bytes_eqb k' k then (k, v) :: r else (k', v') :: ainsert r k v
  end.

Definition amem {V} (m : list (bytes * V)) (k : bytes) : bool :=
  match afind m k with Some _ => true | None => false end.

Definition bmem (k : bytes) (l : list bytes) : bool := existsb (bytes_eqb k) l.

Inductive result (X E : Type) : Type := Ok (x : X) | Err (e : E).
Arguments Ok {X E} x.
Arguments Err {X E} e.

(* errors.rs EntryKind, FluentError::Overriding (the only variant this code produces) *)
Inductive entry_kind := KMessage | KTerm | KFunction.
Inductive fluent_error := Overriding (kind : entry_kind) (id : bytes).

(* ast::Message as seen through FluentMessage { node } *)
Record message := Msg {
  msg_id : bytes;
  msg_value : option pattern;
  msg_attributes : list attribute;
  msg_comment : option comment }.
Record term := Trm {
  term_id : bytes;
  term_value : pattern;
  term_attributes : list attribute;
  term_comment : option comment }.

Section Registry.
Variable F : Type.      (* FluentFunction = Box<dyn Fn ...> *)

(* entry.rs Entry *)
Inductive entry_ref :=
| EMessage (ri ei : nat)
| ETerm (ri ei : nat)
| EFunction (f : F).

Definition emap := list (bytes * entry_ref).

(* bundle.rs FluentBundle { resources, entries } (the other fields play no role here) *)
Record bundle := Bundle { resources : list resource; entries : emap }.

(* bundle.rs FluentBundle::new *)
Definition new : bundle := Bundle [] [].

(* the `match entry { Message => (id, Entry::Message(..)), Term => (id, Entry::Term(..)), _ => continue }`
   shared by add_resource and add_resource_overriding; term ids are stored without '-' (the
   parser does not keep it in id.name) *)
Definition keyed (res_pos entry_pos : nat) (e : entry) : option (bytes * entry_ref) :=
  match e with
  | Message id _ _ _ => Some (id, EMessage res_pos entry_pos)
  | Term id _ _ _ => Some (id, ETerm res_pos entry_pos)
  | _ => None
  end.

(* bundle.rs add_resource — the for loop over res.entries().enumerate() *)
Fixpoint add_resource_loop (res_pos entry_pos : nat) (es : list entry) (m : emap)
  : outcome (emap * list fluent_error) :=
  match es with
  | [] => Done (m, [])
  | e :: r =>
      match keyed res_pos entry_pos e with
      | None => add_resource_loop res_pos (S entry_pos) r m                 (* continue *)
      | Some (id, entry) =>
          match afind m id with
          | None =>                                                          (* HashEntry::Vacant *)
              add_resource_loop res_pos (S entry_pos) r (ainsert m id entry)
          | Some _ =>                                                        (* HashEntry::Occupied *)
              match entry with
              | EMessage _ _ =>
                  let* (m', errors) := add_resource_loop res_pos (S entry_pos) r m in
                  Done (m', Overriding KMessage id :: errors)
              | ETerm _ _ =>
                  let* (m', errors) := add_resource_loop res_pos (S entry_pos) r m in
                  Done (m', Overriding KTerm id :: errors)
              | EFunction _ => Panic "unreachable"
              end
          end
      end
  end.

(* bundle.rs add_resource *)
Definition add_resource (b : bundle) (r : resource)
  : outcome (bundle * result unit (list fluent_error)) :=
  let res_pos := length (resources b) in
  let* (m, errors) := add_resource_loop res_pos 0 r (entries b) in
  let b' := Bundle (resources b ++ [r]) m in
  match errors with
  | [] => Done (b', Ok tt)
  | _ => Done (b', Err errors)
  end.

(* bundle.rs add_resource_overriding — the for loop *)
Fixpoint add_resource_overriding_loop (res_pos entry_pos : nat) (es : list entry) (m : emap) : emap :=
  match es with
  | [] => m
  | e :: r =>
      match keyed res_pos entry_pos e with
      | None => add_resource_overriding_loop res_pos (S entry_pos) r m
      | Some (id, entry) => add_resource_overriding_loop res_pos (S entry_pos) r (ainsert m id entry)
      end
  end.

(* bundle.rs add_resource_overriding *)
Definition add_resource_overriding (b : bundle) (r : resource) : bundle :=
  let res_pos := length (resources b) in
  Bundle (resources b ++ [r]) (add_resource_overriding_loop res_pos 0 r (entries b)).

(* bundle.rs add_function *)
Definition add_function (b : bundle) (id : bytes) (func : F) : bundle * result unit fluent_error :=
  match afind (entries b) id with
  | None => (Bundle (resources b) (ainsert (entries b) id (EFunction func)), Ok tt)
  | Some _ => (b, Err (Overriding KFunction id))
  end.

(* resource.rs FluentResource::get_entry *)
Definition get_entry (res : resource) (idx : nat) : option entry := nth_error res idx.

(* entry.rs get_entry_message *)
Definition get_entry_message (b : bundle) (id : bytes) : option message :=
  match afind (entries b) id with
  | Some (EMessage resource_idx entry_idx) =>
      match nth_error (resources b) resource_idx with
      | None => None
      | Some res =>
          match get_entry res entry_idx with
          | None => None
          | Some (Message mid v attrs c) => Some (Msg mid v attrs c)
          | Some _ => None
          end
      end
  | _ => None
  end.

(* entry.rs get_entry_term *)
Definition get_entry_term (b : bundle) (id : bytes) : option term :=
  match afind (entries b) id with
  | Some (ETerm resource_idx entry_idx) =>
      match nth_error (resources b) resource_idx with
      | None => None
      | Some res =>
          match get_entry res entry_idx with
          | None => None
          | Some (Term tid v attrs c) => Some (Trm tid v attrs c)
          | Some _ => None
          end
      end
  | _ => None
  end.

(* entry.rs get_entry_function *)
Definition get_entry_function (b : bundle) (id : bytes) : option F :=
  match afind (entries b) id with
  | Some (EFunction function) => Some function
  | _ => None
  end.

(* bundle.rs has_message *)
Definition has_message (b : bundle) (id : bytes) : bool :=
  match get_entry_message b id with Some _ => true | None => false end.

(* bundle.rs get_message  (FluentMessage::from(&ast::Message) just wraps the node) *)
Definition get_message (b : bundle) (id : bytes) : option message := get_entry_message b id.

(* ---- histories ---- *)
Inductive op :=
| AddResource (r : resource)
| AddResourceOverriding (r : resource)
| AddFunction (id : bytes) (f : F).

(* what the call returned *)
Inductive op_result :=
| ResAdd (r : result unit (list fluent_error))
| ResUnit
| ResFn (r : result unit fluent_error).

Definition step (b : bundle) (o : op) : outcome (bundle * op_result) :=
  match o with
  | AddResource r => let* (b', res) := add_resource b r in Done (b', ResAdd res)
  | AddResourceOverriding r => Done (add_resource_overriding b r, ResUnit)
  | AddFunction id f => let (b', res) := add_function b id f in Done (b', ResFn res)
  end.

Fixpoint run_from (b : bundle) (ops : list op) : outcome bundle :=
  match ops with
  | [] => Done b
  | o :: r => let* (b', _) := step b o in run_from b' r
  end.
Definition run (ops : list op) : outcome bundle := run_from new ops.

(* ---- specification side: the keyed map  id -> definition ---- *)
Inductive def :=
| DMessage (m : message)
| DTerm (t : term)
| DFunction (f : F).

Definition def_kind (d : def) : entry_kind :=
  match d with DMessage _ => KMessage | DTerm _ => KTerm | DFunction _ => KFunction end.

Definition smap := list (bytes * def).

(* the keyed definition an entry of a resource contributes (comments and junk: none) *)
Definition def_of (e : entry) : option (bytes * def) :=
  match e with
  | Message id v attrs c => Some (id, DMessage (Msg id v attrs c))
  | Term id v attrs c => Some (id, DTerm (Trm id v attrs c))
  | _ => None
  end.

Fixpoint defs_of (r : resource) : list (bytes * def) :=
  match r with
  | [] => []
  | e :: r' => match def_of e with Some kd => kd :: defs_of r' | None => defs_of r' end
  end.

Definition sinsert_new (s : smap) (kd : bytes * def) : smap :=
  match afind s (fst kd) with Some _ => s | None => ainsert s (fst kd) (snd kd) end.
Definition sinsert (s : smap) (kd : bytes * def) : smap := ainsert s (fst kd) (snd kd).

Definition spec_step (s : smap) (o : op) : smap :=
  match o with
  | AddResource r => fold_left sinsert_new (defs_of r) s
  | AddResourceOverriding r => fold_left sinsert (defs_of r) s
  | AddFunction id f => sinsert_new s (id, DFunction f)
  end.

Definition spec (ops : list op) : smap := fold_left spec_step ops [].

(* the Overriding errors a keyed map predicts for add_resource: every entry whose id is already
   a key (from before, or from an earlier entry of the same resource), in source order *)
Fixpoint dup_errors (seen : list bytes) (es : list entry) : list fluent_error :=
  match es with
  | [] => []
  | e :: r =>
      match def_of e with
      | None => dup_errors seen r
      | Some (id, d) =>
          if bmem id seen then Overriding (def_kind d) id :: dup_errors seen r
          else dup_errors (seen ++ [id]) r
      end
  end.

(* the key set after the entries `es` have been processed (first occurrence order) *)
Definition seen_after (seen : list bytes) (es : list entry) : list bytes :=
  fold_left (fun sn kd => if bmem (fst kd) sn then sn else sn ++ [fst kd]) (defs_of es) seen.

(* `if errors.is_empty() { Ok(()) } else { Err(errors) }` *)
Definition result_of (errs : list fluent_error) : result unit (list fluent_error) :=
  match errs with [] => Ok tt | _ => Err errs end.

(* abstraction: what each stored reference denotes, given the resource list *)
Definition deref (rs : list resource) (e : entry_ref) : option def :=
  match e with
  | EMessage ri ei =>
      match nth_error rs ri with
      | None => None
      | Some res =>
          match nth_error res ei with
          | Some (Message id v attrs c) => Some (DMessage (Msg id v attrs c))
          | _ => None
          end
      end
  | ETerm ri ei =>
      match nth_error rs ri with
      | None => None
      | Some res =>
          match nth_error res ei with
          | Some (Term id v attrs c) => Some (DTerm (Trm id v attrs c))
          | _ => None
          end
      end
  | EFunction f => Some (DFunction f)
  end.

Definition abs_in (rs : list resource) (m : emap) : list (bytes * option def) :=
  map (fun ke => (fst ke, deref rs (snd ke))) m.
Definition abs (b : bundle) : list (bytes * option def) := abs_in (resources b) (entries b).
Definition lift (s : smap) : list (bytes * option def) := map (fun kd => (fst kd, Some (snd kd))) s.

End Registry.

Arguments EMessage {F} ri ei.
Arguments ETerm {F} ri ei.
Arguments EFunction {F} f.
Arguments DMessage {F} m.
Arguments DTerm {F} t.
Arguments DFunction {F} f.
Arguments AddResource {F} r.
Arguments AddResourceOverriding {F} r.
Arguments AddFunction {F} id f.

(* message.rs FluentMessage::value *)
Definition value (m : message) : option pattern := msg_value m.

(* message.rs FluentMessage::attributes  (iterator over the node's attributes, in order) *)
Definition attributes (m : message) : list attribute := msg_attributes m.

(* message.rs FluentMessage::get_attribute   (.iter().find(|attr| attr.id.name == key)) *)
Definition get_attribute (m : message) (key : bytes) : option attribute :=
  find (fun a => bytes_eqb (attr_id a) key) (msg_attributes m).

(* Bundle/ResolverTotal.v — C06: the resolver terminates within `fuel_of`, never panics, keeps the
   placeable counter within MAX_PLACEABLES + 1 (so the u8 never overflows) and reports the limit.

   One induction on fuel over the eight mutually recursive functions.  For a call on scope `sc`
   with `fuel >= lw(node) + untrav(sc) * fuel_step b` the result is `Done` and the final scope is
   related to `sc` by `Post`.  `untrav sc` = number of the bundle's pattern objects (keys) not on
   `travelled`; `Scope::track` is the only way into another message/term pattern and it either
   reports Cyclic or pushes an object that was not on the stack, which lowers `untrav`;
   everything else descends in the AST (`lw_*`).                                             *)
From FluentV Require Import Base.Bytes Base.BytesFacts Base.Outcome Syntax.Ast Bundle.Args Bundle.ArgsProofs
  Bundle.Number Bundle.NumberProofs Bundle.ResolverAst Bundle.ResolverAstProofs Bundle.ResolverModel
  Bundle.ResolverEqns Gen.Extracted.
From Coq Require Import Lia.

Arguments N.add : simpl never.
Arguments N.sub : simpl never.
Arguments N.pow : simpl never.
Arguments N.eqb : simpl never.
Arguments N.ltb : simpl never.
Arguments N.leb : simpl never.

(* values that stand for an f64 (see NumberProofs.v) *)
Definition value_ok (v : fvalue) : Prop :=
  match v with VNumber n => fval_in_f64_range (n_value n) | _ => True end.
Definition args_ok (a : fargs) : Prop := Forall (fun kv => value_ok (snd kv)) a.
Definition oargs_ok (a : option fargs) : Prop := match a with Some a' => args_ok a' | None => True end.

Lemma lookup_in_some (a : fargs) k v : lookup fvalue a k = Some v -> exists k', In (k', v) a.
Proof.
  induction a as [|[k' v'] r IH]; cbn; [discriminate|].
  destruct (bytes_compare k' k).
  - intros [= <-]. eexists; left; reflexivity.
  - intros H. destruct (IH H) as [k2 Hk]. eexists; right; eassumption.
  - discriminate.
Qed.

Lemma get_value_ok (a : fargs) id arg :
  args_ok a -> match Args.get fvalue a id with Done r => r | _ => None end = Some arg -> value_ok arg.
Proof.
  intros Ha. rewrite get_lookup. intros H. apply lookup_in_some in H as [k' Hk].
  unfold args_ok in Ha. rewrite Forall_forall in Ha. apply (Ha _ Hk).
Qed.

Lemma ins_all_ok kvs : forall a : fargs, args_ok a -> args_ok kvs -> args_ok (ins_all fvalue a kvs).
Proof.
  induction kvs as [|[k v] r IH]; intros a Ha Hk; cbn; [exact Ha|].
  inversion Hk; subst. apply IH; [|assumption]. apply Forall_ins; assumption.
Qed.

Lemma from_iter_ok kvs : args_ok kvs -> exists a, from_iter fvalue kvs = Done a /\ args_ok a.
Proof.
  intros H. exists (ins_all fvalue [] kvs). split.
  - unfold from_iter. apply set_all_ins_all.
  - apply ins_all_ok; [constructor | exact H].
Qed.

Lemma max_placeables_fits : (MAX_PLACEABLES + 1 < 2 ^ PLACEABLES_BITS)%N.
Proof. reflexivity. Qed.

Lemma u8_add1_ok oc n : (n <= MAX_PLACEABLES)%N -> u8_add1 oc n = Done (n + 1)%N.
Proof.
  intros H. unfold u8_add1.
  assert (E : N.eqb n (2 ^ PLACEABLES_BITS - 1) = false).
  { apply N.eqb_neq. pose proof max_placeables_fits. lia. }
  now rewrite E.
Qed.

(* ---------- weights are positive ---------- *)
Lemma lw_inline_pos i : 1 <= lw_inline i.
Proof. destruct i as [| | | | ? ? [a|] | |]; cbn; lia. Qed.
Lemma lw_expr_pos e : 2 <= lw_expr e.
Proof. destruct e; cbn [lw_expr]; [lia | pose proof (lw_inline_pos i); lia]. Qed.
Lemma lw_pattern_pos p : 2 <= lw_pattern p.
Proof. destruct p; cbn [lw_pattern]; lia. Qed.
Lemma lw_args_pos a : 1 <= lw_args a.
Proof. destruct a; cbn [lw_args]; lia. Qed.

Definition lw_oargs (a : option call_args) : nat := match a with None => 1 | Some a' => lw_args a' end.
Lemma lw_oargs_pos a : 1 <= lw_oargs a.
Proof. destruct a; cbn; [apply lw_args_pos | lia]. Qed.

(* ---------- counting the pattern objects not yet on the stack ---------- *)
Lemma obytes_eqb_refl a : obytes_eqb a a = true.
Proof. destruct a; cbn; [apply bytes_eqb_refl | reflexivity]. Qed.

Lemma pkey_eqb_refl k : pkey_eqb k k = true.
Proof. destruct k as [t i a]. cbn. rewrite Bool.eqb_reflx, bytes_eqb_refl, obytes_eqb_refl. reflexivity. Qed.

Lemma key_mem_head k l : key_mem k (Some k :: l) = true.
Proof. unfold key_mem; cbn. now rewrite pkey_eqb_refl. Qed.

Lemma key_mem_cons k q l : key_mem k l = true -> key_mem k (q :: l) = true.
Proof. unfold key_mem; cbn. intros ->. apply Bool.orb_true_r. Qed.

Definition cnt (l : list pkey) (T : list (option pkey)) : nat := length (filter (fun q => negb (key_mem q T)) l).

Lemma cnt_cons_le l q T : cnt l (q :: T) <= cnt l T.
Proof.
  unfold cnt. induction l as [|x r IH]; cbn [filter length]; [lia|].
  destruct (key_mem x T) eqn:E.
  - rewrite (key_mem_cons x q T E). cbn. exact IH.
  - cbn [negb]. destruct (key_mem x (q :: T)); cbn [negb length]; lia.
Qed.

Lemma cnt_push l k T : In k l -> key_mem k T = false -> S (cnt l (Some k :: T)) <= cnt l T.
Proof.
  unfold cnt. induction l as [|x r IH]; cbn [filter length In]; [tauto|].
  intros [->|Hin] Hq.
  - rewrite Hq, key_mem_head. cbn [negb length].
    pose proof (cnt_cons_le r (Some k) T) as H. unfold cnt in H. lia.
  - specialize (IH Hin Hq).
    destruct (key_mem x T) eqn:E.
    + rewrite (key_mem_cons x (Some k) T E). cbn. exact IH.
    + cbn [negb]. destruct (key_mem x (Some k :: T)); cbn [negb length]; lia.
Qed.

Lemma cnt_le_nil l T : cnt l T <= cnt l [].
Proof.
  unfold cnt. induction l as [|x r IH]; cbn [filter length]; [lia|].
  change (key_mem x []) with false. cbn [negb length].
  destruct (key_mem x T); cbn [negb length]; lia.
Qed.

Section Total.
Variable overflow_checks : bool.
Variable call_function : bytes -> list fvalue -> fargs -> fvalue.
Variable transform : option (bytes -> bytes).
Variable formatter : option (fvalue -> option bytes).
Variable rules : ntype -> rules_fn.
Variable custom_as_string : bytes -> bytes.
Variable unescape_write : bytes -> bytes.
Variable unescape_to_string : bytes -> bytes.
Variable f64_from_str : bytes -> option fval.
Variable b : bundle.
Variable args : option fargs.

(* the three sources of numbers are f64s *)
Hypothesis Hparse : forall s v, f64_from_str s = Some v -> fval_in_f64_range v.
Hypothesis Hfun : forall name pos named, value_ok (call_function name pos named).
Hypothesis Hargs : oargs_ok args.

Notation pw := (pattern_write overflow_checks call_function transform formatter rules custom_as_string
                  unescape_write unescape_to_string f64_from_str b args).
Notation pr := (pattern_resolve overflow_checks call_function transform formatter rules custom_as_string
                  unescape_write unescape_to_string f64_from_str b args).
Notation ew := (expression_write overflow_checks call_function transform formatter rules custom_as_string
                  unescape_write unescape_to_string f64_from_str b args).
Notation iw := (inline_write overflow_checks call_function transform formatter rules custom_as_string
                  unescape_write unescape_to_string f64_from_str b args).
Notation ir := (inline_resolve overflow_checks call_function transform formatter rules custom_as_string
                  unescape_write unescape_to_string f64_from_str b args).
Notation mt := (maybe_track overflow_checks call_function transform formatter rules custom_as_string
                  unescape_write unescape_to_string f64_from_str b args).
Notation tr := (track overflow_checks call_function transform formatter rules custom_as_string
                  unescape_write unescape_to_string f64_from_str b args).
Notation ga := (get_arguments overflow_checks call_function transform formatter rules custom_as_string
                  unescape_write unescape_to_string f64_from_str b args).

Definition BP := bundle_patterns b.
Definition K := fuel_step b.
Definition BK := bundle_keys b.
Definition untrav (sc : scope) : nat := cnt BK (sc_travelled sc).
Definition need (f w : nat) (sc : scope) : Prop := w + untrav sc * K <= f.

Lemma K_bound p : In p BP -> lw_pattern p + 2 <= K.
Proof.
  intros H. unfold K, fuel_step. fold BP.
  pose proof (list_max_map_in lw_pattern BP p H). lia.
Qed.

(* ---------- invariant and relation between the scope before and after a call ---------- *)
Definition budget_ok (sc : scope) : Prop :=
  (sc_placeables sc <= MAX_PLACEABLES)%N \/
  (sc_placeables sc = MAX_PLACEABLES + 1 /\ sc_dirty sc = true)%N.

Definition Inv (sc : scope) : Prop := budget_ok sc /\ oargs_ok (sc_local_args sc).

(* control fields only *)
Record Ctl (sc sc' : scope) : Prop := {
  ctl_trav : sc_travelled sc <> [] -> sc_travelled sc' = sc_travelled sc;
  ctl_dirty : sc_dirty sc = true -> sc_dirty sc' = true;
  ctl_errs : exists es, sc_errors sc' = sc_errors sc ++ es /\
                        (sc_dirty sc' = true -> sc_dirty sc = true \/ In TooManyPlaceables es);
  ctl_pl : (sc_placeables sc <= sc_placeables sc')%N }.

Record Post (sc sc' : scope) : Prop := {
  post_inv : Inv sc';
  post_largs : sc_local_args sc' = sc_local_args sc;
  post_ctl : Ctl sc sc' }.

Lemma Ctl_refl sc : Ctl sc sc.
Proof.
  split; auto; [|lia]. exists []. rewrite app_nil_r. auto.
Qed.

Lemma Ctl_trans a c d : Ctl a c -> Ctl c d -> Ctl a d.
Proof.
  intros [t1 d1 (e1 & E1 & F1) p1] [t2 d2 (e2 & E2 & F2) p2]. split.
  - intros H. rewrite t2; rewrite (t1 H); auto.
  - auto.
  - exists (e1 ++ e2). split; [rewrite E2, E1, app_assoc; reflexivity|].
    intros Hd. destruct (F2 Hd) as [Hc|Hin].
    + destruct (F1 Hc); [left; assumption | right; apply in_or_app; left; assumption].
    + right; apply in_or_app; right; assumption.
  - lia.
Qed.

(* a scope that differs from sc only in fields Ctl does not look at, or by appended errors *)
Lemma Ctl_same sc sc' :
  sc_travelled sc' = sc_travelled sc -> sc_dirty sc' = sc_dirty sc -> sc_errors sc' = sc_errors sc ->
  sc_placeables sc' = sc_placeables sc -> Ctl sc sc'.
Proof.
  intros Ht Hd He Hp. split; [auto | congruence | | lia].
  exists []. rewrite app_nil_r. split; [assumption|]. intros H; left; congruence.
Qed.

Lemma Ctl_add_error sc e : Ctl sc (add_error sc e).
Proof.
  split; cbn; auto; [|lia]. exists [e]. auto.
Qed.

Lemma Post_refl sc : Inv sc -> Post sc sc.
Proof. intros H. split; [assumption | reflexivity | apply Ctl_refl]. Qed.

Lemma Post_trans a c d : Post a c -> Post c d -> Post a d.
Proof.
  intros [i1 l1 c1] [i2 l2 c2]. split; [assumption | congruence | eapply Ctl_trans; eassumption].
Qed.

Lemma Post_add_error sc e : Inv sc -> Post sc (add_error sc e).
Proof. intros H. split; [exact H | reflexivity | apply Ctl_add_error]. Qed.

Lemma Post_log_call sc c : Inv sc -> Post sc (log_call sc c).
Proof. intros H. split; [exact H | reflexivity | apply Ctl_same; reflexivity]. Qed.

Lemma Post_set_intls sc c : Inv sc -> Post sc (set_intls sc c).
Proof. intros H. split; [exact H | reflexivity | apply Ctl_same; reflexivity]. Qed.

Lemma untrav_mono sc sc' : Ctl sc sc' -> untrav sc' <= untrav sc.
Proof.
  intros [Ht _ _ _]. unfold untrav.
  destruct (sc_travelled sc) as [|q T] eqn:E.
  - apply cnt_le_nil.
  - rewrite Ht by discriminate. lia.
Qed.

Lemma need_mono f w w' sc sc' : Ctl sc sc' -> w' <= w -> need f w sc -> need f w' sc'.
Proof.
  intros Hc Hw Hn. unfold need in *. pose proof (untrav_mono _ _ Hc).
  assert (untrav sc' * K <= untrav sc * K) by (apply Nat.mul_le_mono_r; assumption). lia.
Qed.

Lemma need_S f w sc : need (S f) (S w) sc -> need f w sc.
Proof. unfold need. lia. Qed.

Lemma need_le f w w' sc : w' <= w -> need f w sc -> need f w' sc.
Proof. unfold need. lia. Qed.

(* ---------- what each function guarantees ---------- *)
Definition Rspec (r : result) (sc : scope) : Prop :=
  exists o sc', r = Done (o, sc') /\ Post sc sc'.
Definition Vspec (r : outcome (fvalue * scope)) (sc : scope) : Prop :=
  exists v sc', r = Done (v, sc') /\ Post sc sc' /\ value_ok v.
Definition Aspec (r : outcome (list fvalue * fargs * scope)) (sc : scope) : Prop :=
  exists pos named sc', r = Done (pos, named, sc') /\ Post sc sc' /\ Forall value_ok pos /\ args_ok named.

Definition P_pw f := forall k p sc, Inv sc -> need f (lw_pattern p) sc -> Rspec (pw f k p sc) sc.
Definition P_pr f := forall k p sc, Inv sc -> need f (1 + lw_pattern p) sc -> Vspec (pr f k p sc) sc.
Definition P_ew f := forall e sc, Inv sc -> need f (lw_expr e) sc -> Rspec (ew f e sc) sc.
Definition P_iw f := forall i sc, Inv sc -> need f (lw_inline i) sc -> Rspec (iw f i sc) sc.
Definition P_ir f := forall i sc, Inv sc -> need f (1 + lw_inline i) sc -> Vspec (ir f i sc) sc.
Definition P_mt f := forall k p e sc, Inv sc -> need f (1 + lw_expr e) sc -> Rspec (mt f k p e sc) sc.
Definition P_tr f := forall k p exp sc, Inv sc -> In k BK -> In p BP -> need f 1 sc -> Rspec (tr f k p exp sc) sc.
Definition P_ga f := forall oa sc, Inv sc -> need f (lw_oargs oa) sc -> Aspec (ga f oa sc) sc.

Definition P_all f := P_pw f /\ P_pr f /\ P_ew f /\ P_iw f /\ P_ir f /\ P_mt f /\ P_tr f /\ P_ga f.

(* ---------- bundle lookups stay inside BP ---------- *)
Lemma entry_find_in m id e : entry_find m id = Some e -> exists k, In (k, e) m.
Proof.
  induction m as [|[k e'] r IH]; cbn; [discriminate|].
  destruct (bytes_eqb k id).
  - intros [= <-]. eexists; left; reflexivity.
  - intros H. destruct (IH H) as [k' Hk]. eexists; right; eassumption.
Qed.

Lemma entry_patterns_in k e p : In (k, e) (b_entries b) -> In p (entry_patterns e) -> In p BP.
Proof.
  intros He Hp. unfold BP, bundle_patterns. apply in_flat_map. exists (k, e). auto.
Qed.

Lemma find_attribute_in attrs name p : find_attribute attrs name = Some p -> In p (map attr_value attrs).
Proof.
  induction attrs as [|a r IH]; cbn; [discriminate|].
  destruct (bytes_eqb (attr_id a) name); [intros [= <-]; auto | auto].
Qed.

Lemma message_value_in id v attrs : get_entry_message b id = Some (Some v, attrs) -> In v BP.
Proof.
  unfold get_entry_message. destruct (entry_find (b_entries b) id) as [[v' a'| |]|] eqn:E; try discriminate.
  intros [= -> ->]. apply entry_find_in in E as [k Hk].
  eapply entry_patterns_in; [eassumption|]. cbn. left; reflexivity.
Qed.

Lemma message_attr_in id v attrs name p :
  get_entry_message b id = Some (v, attrs) -> find_attribute attrs name = Some p -> In p BP.
Proof.
  unfold get_entry_message. destruct (entry_find (b_entries b) id) as [[v' a'| |]|] eqn:E; try discriminate.
  intros [= -> ->] Hf. apply entry_find_in in E as [k Hk].
  eapply entry_patterns_in; [eassumption|]. cbn. apply in_or_app. right. eapply find_attribute_in, Hf.
Qed.

Lemma term_value_in id v attrs : get_entry_term b id = Some (v, attrs) -> In v BP.
Proof.
  unfold get_entry_term. destruct (entry_find (b_entries b) id) as [[| v' a'|]|] eqn:E; try discriminate.
  intros [= -> ->]. apply entry_find_in in E as [k Hk].
  eapply entry_patterns_in; [eassumption|]. cbn. left; reflexivity.
Qed.

Lemma term_attr_in id v attrs name p :
  get_entry_term b id = Some (v, attrs) -> find_attribute attrs name = Some p -> In p BP.
Proof.
  unfold get_entry_term. destruct (entry_find (b_entries b) id) as [[| v' a'|]|] eqn:E; try discriminate.
  intros [= -> ->] Hf. apply entry_find_in in E as [k Hk].
  eapply entry_patterns_in; [eassumption|]. cbn. right. eapply find_attribute_in, Hf.
Qed.

(* … and the key under which Scope::track sees the pattern is one of the bundle's keys *)
Lemma entry_find_in_id m id e : entry_find m id = Some e -> In (id, e) m.
Proof.
  induction m as [|[k e'] r IH]; cbn; [discriminate|].
  destruct (bytes_eqb k id) eqn:E.
  - intros [= <-]. apply bytes_eqb_eq in E. subst. left; reflexivity.
  - intros H. right. apply IH, H.
Qed.

Lemma entry_keys_in id e k : In (id, e) (b_entries b) -> In k (entry_keys id e) -> In k BK.
Proof.
  intros He Hk. unfold BK, bundle_keys. apply in_flat_map. exists (id, e). auto.
Qed.

Lemma find_attribute_key (t : bool) id attrs name p :
  find_attribute attrs name = Some p -> In (PKey t id (Some name)) (map (fun a => PKey t id (Some (attr_id a))) attrs).
Proof.
  induction attrs as [|a r IH]; cbn; [discriminate|].
  destruct (bytes_eqb (attr_id a) name) eqn:E; [|auto].
  intros _. apply bytes_eqb_eq in E. left. now rewrite E.
Qed.

Lemma message_value_key id v attrs : get_entry_message b id = Some (Some v, attrs) -> In (PKey false id None) BK.
Proof.
  unfold get_entry_message. destruct (entry_find (b_entries b) id) as [[v' a'| |]|] eqn:E; try discriminate.
  intros [= -> ->]. apply entry_find_in_id in E.
  eapply entry_keys_in; [eassumption|]. cbn. left; reflexivity.
Qed.

Lemma message_attr_key id v attrs name p :
  get_entry_message b id = Some (v, attrs) -> find_attribute attrs name = Some p -> In (PKey false id (Some name)) BK.
Proof.
  unfold get_entry_message. destruct (entry_find (b_entries b) id) as [[v' a'| |]|] eqn:E; try discriminate.
  intros [= -> ->] Hf. apply entry_find_in_id in E.
  eapply entry_keys_in; [eassumption|]. cbn. apply in_or_app. right. eapply find_attribute_key, Hf.
Qed.

Lemma term_value_key id v attrs : get_entry_term b id = Some (v, attrs) -> In (PKey true id None) BK.
Proof.
  unfold get_entry_term. destruct (entry_find (b_entries b) id) as [[| v' a'|]|] eqn:E; try discriminate.
  intros [= -> ->]. apply entry_find_in_id in E.
  eapply entry_keys_in; [eassumption|]. cbn. left; reflexivity.
Qed.

Lemma term_attr_key id v attrs name p :
  get_entry_term b id = Some (v, attrs) -> find_attribute attrs name = Some p -> In (PKey true id (Some name)) BK.
Proof.
  unfold get_entry_term. destruct (entry_find (b_entries b) id) as [[| v' a'|]|] eqn:E; try discriminate.
  intros [= -> ->] Hf. apply entry_find_in_id in E.
  eapply entry_keys_in; [eassumption|]. cbn. right. eapply find_attribute_key, Hf.
Qed.

Lemma keys_length : length BK = length BP.
Proof.
  unfold BK, BP, bundle_keys, bundle_patterns. induction (b_entries b) as [|[id e] r IH]; cbn [flat_map]; [reflexivity|].
  rewrite !app_length, IH. f_equal. destruct e as [[v|] attrs | v attrs | f]; cbn; rewrite ?app_length, ?map_length; reflexivity.
Qed.

(* ---------- small total pieces ---------- *)
Lemma write_ref_error_ok exp sc k :
  Inv sc -> reference_kind_of exp = Done k -> Rspec (write_ref_error exp sc) sc.
Proof.
  intros Hi Hk. unfold write_ref_error. rewrite Hk. cbn.
  eexists _, _. split; [reflexivity|]. apply Post_add_error, Hi.
Qed.

Lemma value_matches_ok self other sc :
  Inv sc -> value_ok other ->
  exists m sc', value_matches rules self other sc = Done (m, sc') /\ Post sc sc'.
Proof.
  intros Hi Ho. unfold value_matches.
  destruct self as [a|a|c| |]; try (eexists _, _; split; [reflexivity | apply Post_refl, Hi]).
  - destruct other as [b'|b'|c| |]; try (eexists _, _; split; [reflexivity | apply Post_refl, Hi]).
    destruct (plural_keyword a) as [cat|]; [|eexists _, _; split; [reflexivity | apply Post_refl, Hi]].
    destruct (with_try_get rules (sc_intls sc) (o_type (n_options b'))) as [prf c'].
    destruct (fnumber_operands_total b' Ho) as [ops ->]. cbn.
    eexists _, _. split; [reflexivity | apply Post_set_intls, Hi].
  - destruct other as [b'|b'|c| |]; eexists _, _; (split; [reflexivity | apply Post_refl, Hi]).
Qed.

Lemma find_variant_ok vs sel sc :
  Inv sc -> value_ok sel ->
  exists hit sc', find_variant rules f64_from_str vs sel sc = Done (hit, sc') /\ Post sc sc' /\
                  (forall p, hit = Some p -> exists k d, In (Variant k p d) vs).
Proof.
  intros Hi Hs. revert sc Hi. induction vs as [|[key value d] rest IH]; intros sc Hi; cbn [find_variant].
  - eexists _, _. split; [reflexivity|]. split; [apply Post_refl, Hi | discriminate].
  - destruct (value_matches_ok (variant_key_value f64_from_str key) sel sc Hi Hs) as (m & sc1 & -> & P1). cbn.
    destruct m.
    + eexists _, _. split; [reflexivity|]. split; [exact P1|].
      intros p [= <-]. eexists _, _. left; reflexivity.
    + destruct (IH sc1 (post_inv _ _ P1)) as (hit & sc2 & -> & P2 & Hin).
      eexists _, _. split; [reflexivity|]. split; [eapply Post_trans; eassumption|].
      intros p Hp. destruct (Hin p Hp) as (k & d' & H). eexists _, _. right; eassumption.
Qed.

Lemma find_default_in vs p : find_default vs = Some p -> exists k d, In (Variant k p d) vs.
Proof.
  induction vs as [|[key value d] rest IH]; cbn; [discriminate|].
  destruct d.
  - intros [= <-]. eexists _, _. left; reflexivity.
  - intros H. destruct (IH H) as (k & d' & Hin). eexists _, _. right; eassumption.
Qed.

Lemma variant_weight k p d vs : In (Variant k p d) vs -> lw_pattern p <= list_max (map lw_variant vs).
Proof. intros H. apply (list_max_map_in lw_variant vs _ H). Qed.

Lemma call_entry_ok func pos named : Forall value_ok pos -> value_ok (call_entry call_function func pos named).
Proof.
  intros Hp. destruct func as [|name]; cbn [call_entry]; [|apply Hfun].
  destruct (NUMBER pos named) as [s|n|c| |] eqn:E; cbn; auto.
  apply NUMBER_value in E as (m & rest & -> & ->).
  inversion Hp; subst. assumption.
Qed.

Lemma try_number_ok s : value_ok (try_number f64_from_str s).
Proof.
  unfold try_number, fnumber_from_str. destruct (f64_from_str s) as [n|] eqn:E; cbn; [|exact Logic.I].
  eapply Hparse, E.
Qed.

(* ---------- the loops ---------- *)
Lemma pattern_loop_ok f k p len :
  P_mt f ->
  forall els sc, Inv sc -> need f (1 + list_max (map lw_element els)) sc ->
  Rspec (pattern_loop overflow_checks transform b (mt f k p) len els sc) sc.
Proof.
  intros Hmt. induction els as [|elem rest IH]; intros sc Hi Hn; cbn [pattern_loop].
  - eexists _, _. split; [reflexivity | apply Post_refl, Hi].
  - destruct (sc_dirty sc) eqn:Hd.
    { eexists _, _. split; [reflexivity | apply Post_refl, Hi]. }
    rewrite map_cons, list_max_cons in Hn.
    destruct elem as [value | expression].
    + destruct (IH sc Hi) as (o & sc1 & E & P1); [eapply need_le; [|exact Hn]; lia|].
      fold (pattern_loop overflow_checks transform b (mt f k p) len) in E |- *. rewrite E. cbn.
      eexists _, _. split; [reflexivity | exact P1].
    + destruct Hi as [Hb Hl].
      assert (Hle : (sc_placeables sc <= MAX_PLACEABLES)%N).
      { destruct Hb as [H|[_ H]]; [exact H | congruence]. }
      rewrite (u8_add1_ok _ _ Hle). cbn [obind].
      set (sc1 := set_placeables sc (sc_placeables sc + 1)).
      assert (C1 : Ctl sc sc1).
      { split; cbn; auto; [|lia]. exists []. rewrite app_nil_r. auto. }
      change (sc_placeables sc1) with (sc_placeables sc + 1)%N.
      destruct (N.ltb MAX_PLACEABLES (sc_placeables sc + 1)) eqn:Hlt.
      * eexists _, _. split; [reflexivity|]. apply N.ltb_lt in Hlt.
        split; [split; [right; cbn; split; [lia | reflexivity] | exact Hl] | reflexivity |].
        split; cbn; auto; [|lia]. exists [TooManyPlaceables]. split; [reflexivity|]. intros _. right. left. reflexivity.
      * apply N.ltb_ge in Hlt.
        assert (I1 : Inv sc1) by (split; [left; cbn; lia | exact Hl]).
        destruct (Hmt k p expression sc1 I1) as (o1 & sc2 & E1 & P1).
        { eapply need_mono; [exact C1 | | exact Hn]. cbn [lw_element]. lia. }
        rewrite E1. cbn [obind].
        destruct (IH sc2 (post_inv _ _ P1)) as (o2 & sc3 & E2 & P2).
        { eapply need_mono; [eapply Ctl_trans; [exact C1 | exact (post_ctl _ _ P1)] | | exact Hn]. lia. }
        fold (pattern_loop overflow_checks transform b (mt f k p) len) in E2 |- *. rewrite E2. cbn.
        eexists _, _. split; [reflexivity|].
        eapply Post_trans; [|exact P2]. eapply Post_trans; [|exact P1].
        split; [exact I1 | reflexivity | exact C1].
Qed.

Lemma resolve_list_ok f :
  P_ir f ->
  forall l sc, Inv sc -> need f (list_max (map (fun i => 1 + lw_inline i) l)) sc ->
  exists vs sc', resolve_list (ir f) l sc = Done (vs, sc') /\ Post sc sc' /\ Forall value_ok vs.
Proof.
  intros Hir. induction l as [|x r IH]; intros sc Hi Hn; cbn [resolve_list].
  - eexists _, _. split; [reflexivity|]. split; [apply Post_refl, Hi | constructor].
  - rewrite map_cons, list_max_cons in Hn.
    destruct (Hir x sc Hi) as (v & sc1 & E1 & P1 & V1); [eapply need_le; [|exact Hn]; lia|].
    rewrite E1. cbn [obind].
    destruct (IH sc1 (post_inv _ _ P1)) as (vs & sc2 & E2 & P2 & V2).
    { eapply need_mono; [exact (post_ctl _ _ P1) | | exact Hn]. lia. }
    fold (resolve_list (ir f)) in E2 |- *. rewrite E2. cbn.
    eexists _, _. split; [reflexivity|]. split; [eapply Post_trans; eassumption | constructor; assumption].
Qed.

Lemma resolve_named_ok f :
  P_ir f ->
  forall l sc, Inv sc -> need f (list_max (map lw_named l)) sc ->
  exists vs sc', resolve_named (ir f) l sc = Done (vs, sc') /\ Post sc sc' /\ args_ok vs.
Proof.
  intros Hir. induction l as [|[name x] r IH]; intros sc Hi Hn; cbn [resolve_named].
  - eexists _, _. split; [reflexivity|]. split; [apply Post_refl, Hi | constructor].
  - rewrite map_cons, list_max_cons in Hn. cbn [lw_named] in Hn.
    destruct (Hir x sc Hi) as (v & sc1 & E1 & P1 & V1); [eapply need_le; [|exact Hn]; lia|].
    rewrite E1. cbn [obind].
    destruct (IH sc1 (post_inv _ _ P1)) as (vs & sc2 & E2 & P2 & V2).
    { eapply need_mono; [exact (post_ctl _ _ P1) | | exact Hn]. lia. }
    fold (resolve_named (ir f)) in E2 |- *. rewrite E2. cbn.
    eexists _, _. split; [reflexivity|]. split; [eapply Post_trans; eassumption | constructor; assumption].
Qed.

(* ---------- one step of each function ---------- *)
Lemma step_pw f : P_mt f -> P_pw (S f).
Proof.
  intros Hmt k p sc Hi Hn. rewrite pw_S.
  apply pattern_loop_ok; [exact Hmt | exact Hi|].
  destruct p as [els]. cbn [pattern_elements lw_pattern] in *. unfold need in *. lia.
Qed.

Lemma step_pr f : P_pw f -> P_pr (S f).
Proof.
  intros Hpw k p sc Hi Hn. rewrite pr_S.
  assert (Hgen : Vspec (let* (o, sc0) := pw f k p sc in Done (VString (flatten o), sc0)) sc).
  { destruct (Hpw k p sc Hi) as (o & sc1 & E & P1); [apply need_S; exact Hn|].
    rewrite E. cbn. eexists _, _. split; [reflexivity|]. split; [exact P1 | exact Logic.I]. }
  destruct p as [els]. cbn [pattern_elements] in *.
  destruct els as [|[v|e] [|x r]]; try exact Hgen.
  eexists _, _. split; [reflexivity|]. split; [apply Post_refl, Hi | exact Logic.I].
Qed.

Lemma step_ew f : P_pw f -> P_iw f -> P_ir f -> P_ew (S f).
Proof.
  intros Hpw Hiw Hir e sc Hi Hn.
  destruct e as [selector variants | exp]; [rewrite ew_S_select | rewrite ew_S_inline].
  - cbn [lw_expr] in Hn.
    destruct (Hir selector sc Hi) as (sel & sc1 & E1 & P1 & V1).
    { apply need_S. eapply need_le; [|exact Hn]. lia. }
    rewrite E1. cbn [obind].
    assert (Hfind : exists hit sc2,
               match sel with
               | VString _ | VNumber _ => find_variant rules f64_from_str variants sel sc1
               | _ => Done (None, sc1)
               end = Done (hit, sc2) /\ Post sc1 sc2 /\
               (forall p, hit = Some p -> exists k d, In (Variant k p d) variants)).
    { destruct sel; try (eexists _, _; split; [reflexivity|]; split; [apply Post_refl, (post_inv _ _ P1) | discriminate]);
        apply find_variant_ok; [exact (post_inv _ _ P1) | exact V1 | exact (post_inv _ _ P1) | exact V1]. }
    destruct Hfind as (hit & sc2 & E2 & P2 & Hin). rewrite E2. cbn [obind].
    assert (P12 : Post sc sc2) by (eapply Post_trans; eassumption).
    assert (Hvar : forall p k d, In (Variant k p d) variants -> Rspec (pw f None p sc2) sc).
    { intros p k d Hv. destruct (Hpw None p sc2 (post_inv _ _ P12)) as (o & sc3 & E3 & P3).
      - apply need_S. eapply need_mono; [exact (post_ctl _ _ P12) | | exact Hn].
        pose proof (variant_weight _ _ _ _ Hv). lia.
      - eexists _, _. split; [exact E3 | eapply Post_trans; eassumption]. }
    destruct hit as [value|].
    + destruct (Hin value eq_refl) as (k & d & Hv). eapply Hvar, Hv.
    + destruct (find_default variants) as [value|] eqn:Ed.
      * destruct (find_default_in _ _ Ed) as (k & d & Hv). eapply Hvar, Hv.
      * eexists _, _. split; [reflexivity|]. eapply Post_trans; [exact P12|]. apply Post_add_error, (post_inv _ _ P12).
  - apply Hiw; [exact Hi|]. apply need_S. cbn [lw_expr] in Hn. exact Hn.
Qed.

Lemma step_mt f : P_ew f -> P_mt (S f).
Proof.
  intros Hew k p e sc Hi Hn. rewrite mt_S. cbv zeta.
  set (sc0 := match sc_travelled sc with [] => set_travelled sc [k] | _ :: _ => sc end).
  assert (C0 : Ctl sc sc0 /\ Inv sc0 /\ sc_local_args sc0 = sc_local_args sc).
  { subst sc0. destruct (sc_travelled sc) eqn:Et.
    - split; [|split; [exact Hi | reflexivity]].
      split; cbn; auto; [congruence| |lia]. exists []. rewrite app_nil_r. auto.
    - split; [apply Ctl_refl | split; [exact Hi | reflexivity]]. }
  destruct C0 as (C0 & I0 & L0).
  destruct (Hew e sc0 I0) as (o & sc1 & E1 & P1).
  { apply need_S. eapply need_mono; [exact C0 | | exact Hn]. lia. }
  rewrite E1. cbn [obind].
  assert (P01 : Post sc sc1).
  { split; [exact (post_inv _ _ P1) | rewrite (post_largs _ _ P1); exact L0 |
            eapply Ctl_trans; [exact C0 | exact (post_ctl _ _ P1)]]. }
  destruct (sc_dirty sc1); eexists _, _; (split; [reflexivity | exact P01]).
Qed.

Lemma step_tr f : P_pw f -> P_tr (S f).
Proof.
  intros Hpw k p exp sc Hi Hk Hin Hn. rewrite tr_S.
  destruct (key_mem k (sc_travelled sc)) eqn:Em.
  - eexists _, _. split; [reflexivity | apply Post_add_error, Hi].
  - cbv zeta. set (sc1 := set_travelled sc (Some k :: sc_travelled sc)).
    assert (I1 : Inv sc1) by exact Hi.
    destruct (Hpw (Some k) p sc1 I1) as (o & sc2 & E2 & P2).
    { unfold need in *. unfold untrav at 1. cbn [sc1 set_travelled sc_travelled].
      pose proof (cnt_push BK k (sc_travelled sc) Hk Em) as Hc. fold (untrav sc) in Hc.
      pose proof (K_bound p Hin).
      assert (S (cnt BK (Some k :: sc_travelled sc)) * K <= untrav sc * K) by (apply Nat.mul_le_mono_r; exact Hc).
      lia. }
    rewrite E2. cbn [obind].
    eexists _, _. split; [reflexivity|].
    destruct P2 as [I2 L2 [T2 D2 (es & Ees & Fes) Pl2]].
    assert (T2' : sc_travelled sc2 = Some k :: sc_travelled sc) by (apply T2; cbn; discriminate).
    split.
    + exact I2.
    + cbn. exact L2.
    + split; cbn.
      * intros _. rewrite T2'. reflexivity.
      * exact D2.
      * exists es. split; [exact Ees | exact Fes].
      * exact Pl2.
Qed.

Lemma step_ga f : P_ir f -> P_ga (S f).
Proof.
  intros Hir oa sc Hi Hn.
  destruct oa as [[positional named]|]; [rewrite ga_S_some | rewrite ga_S_none].
  - cbn [lw_oargs lw_args] in Hn.
    destruct (resolve_list_ok f Hir positional sc Hi) as (pos & sc1 & E1 & P1 & V1).
    { apply need_S. eapply need_le; [|exact Hn]. lia. }
    rewrite E1. cbn [obind].
    destruct (resolve_named_ok f Hir named sc1 (post_inv _ _ P1)) as (nam & sc2 & E2 & P2 & V2).
    { apply need_S. eapply need_mono; [exact (post_ctl _ _ P1) | | exact Hn]. lia. }
    rewrite E2. cbn [obind].
    destruct (from_iter_ok nam V2) as (a & Ea & Va). rewrite Ea. cbn.
    eexists _, _, _. split; [reflexivity|]. split; [eapply Post_trans; eassumption | split; assumption].
  - eexists _, _, _. split; [reflexivity|]. split; [apply Post_refl, Hi | split; constructor].
Qed.

Lemma step_ir f : P_iw f -> P_ga f -> P_ir (S f).
Proof.
  intros Hiw Hga i sc Hi Hn.
  assert (Hgen : Vspec (resolve_by_write overflow_checks call_function transform formatter rules custom_as_string
                          unescape_write unescape_to_string f64_from_str b args f i sc) sc).
  { unfold resolve_by_write. destruct (Hiw i sc Hi) as (o & sc1 & E & P1); [apply need_S; exact Hn|].
    rewrite E. cbn. eexists _, _. split; [reflexivity|]. split; [exact P1 | exact Logic.I]. }
  destruct i as [value | value | id arguments | id attribute | id attribute arguments | id | expression].
  - rewrite ir_S_string. eexists _, _. split; [reflexivity|]. split; [apply Post_refl, Hi | exact Logic.I].
  - rewrite ir_S_number. eexists _, _. split; [reflexivity|]. split; [apply Post_refl, Hi | apply try_number_ok].
  - rewrite ir_S_function.
    destruct (Hga (Some arguments) sc Hi) as (pos & named & sc1 & E1 & P1 & V1 & N1).
    { apply need_S. eapply need_le; [|exact Hn]. cbn. lia. }
    rewrite E1. cbn [obind].
    destruct (get_entry_function b id) as [func|].
    + eexists _, _. split; [reflexivity|].
      split; [eapply Post_trans; [exact P1 | apply Post_log_call, (post_inv _ _ P1)] | apply call_entry_ok, V1].
    + cbn. eexists _, _. split; [reflexivity|].
      split; [eapply Post_trans; [exact P1 | apply Post_add_error, (post_inv _ _ P1)] | exact Logic.I].
  - rewrite ir_S_message. exact Hgen.
  - rewrite ir_S_term. exact Hgen.
  - rewrite ir_S_variable.
    destruct (lookup_variable_r args id sc) as [arg|] eqn:Ef.
    + eexists _, _. split; [reflexivity|]. split; [apply Post_refl, Hi|].
      unfold lookup_variable_r in Ef.
      destruct Hi as [_ Hl]. destruct (sc_local_args sc) as [la|].
      * eapply get_value_ok; [exact Hl | exact Ef].
      * destruct args as [a'|]; [eapply get_value_ok; [exact Hargs | exact Ef] | discriminate].
    + unfold missing_variable. destruct (sc_local_args sc) eqn:El; cbn;
        (eexists _, _; split; [reflexivity|]; split; [|exact Logic.I]).
      * apply Post_refl, Hi.
      * apply Post_add_error, Hi.
  - rewrite ir_S_placeable. exact Hgen.
Qed.

Lemma term_body_ok f id attribute exp sc k :
  P_tr f -> Inv sc -> need f 1 sc -> reference_kind_of exp = Done k ->
  Rspec (term_body overflow_checks call_function transform formatter rules custom_as_string
           unescape_write unescape_to_string f64_from_str b args f id attribute exp sc) sc.
Proof.
  intros Htr Hi Hn Hk. unfold term_body.
  destruct (get_entry_term b id) as [[value attributes]|] eqn:Eg.
  - destruct attribute as [attr|].
    + destruct (find_attribute attributes attr) as [v|] eqn:Ea.
      * apply Htr; [exact Hi | eapply term_attr_key; eassumption | eapply term_attr_in; eassumption | exact Hn].
      * eapply write_ref_error_ok; eassumption.
    + apply Htr; [exact Hi | eapply term_value_key; eassumption | eapply term_value_in; eassumption | exact Hn].
  - eapply write_ref_error_ok; eassumption.
Qed.

Lemma step_iw f : P_ew f -> P_tr f -> P_ga f -> P_iw (S f).
Proof.
  intros Hew Htr Hga i sc Hi Hn.
  destruct i as [value | value | id arguments | id attribute | id attribute arguments | id | expression].
  - rewrite iw_S_string. eexists _, _. split; [reflexivity | apply Post_refl, Hi].
  - rewrite iw_S_number. eexists _, _. split; [reflexivity | apply Post_refl, Hi].
  - (* FunctionReference *)
    rewrite iw_S_function.
    destruct (Hga (Some arguments) sc Hi) as (pos & named & sc1 & E1 & P1 & V1 & N1).
    { apply need_S. exact Hn. }
    rewrite E1. cbn [obind].
    destruct (get_entry_function b id) as [func|].
    + assert (P2 : Post sc (log_call sc1 (Call id pos named)))
        by (eapply Post_trans; [exact P1 | apply Post_log_call, (post_inv _ _ P1)]).
      cbv zeta.
      destruct (call_entry call_function func pos named); eexists _, _; (split; [reflexivity | exact P2]).
    + destruct (write_ref_error_ok (FunctionReference id arguments) sc1 (RefFunction id) (post_inv _ _ P1) eq_refl)
        as (o & sc2 & E2 & P2).
      rewrite E2. eexists _, _. split; [reflexivity | eapply Post_trans; eassumption].
  - (* MessageReference *)
    rewrite iw_S_message.
    cbn [lw_inline] in Hn.
    assert (Hn1 : need f 1 sc) by (apply need_S; exact Hn).
    destruct (get_entry_message b id) as [[value attributes]|] eqn:Eg.
    + destruct attribute as [attr|].
      * destruct (find_attribute attributes attr) as [v|] eqn:Ea.
        -- apply Htr; [exact Hi | eapply message_attr_key; eassumption | eapply message_attr_in; eassumption | exact Hn1].
        -- eapply write_ref_error_ok; [exact Hi | reflexivity].
      * destruct value as [v|].
        -- apply Htr; [exact Hi | eapply message_value_key; eassumption | eapply message_value_in; eassumption | exact Hn1].
        -- eexists _, _. split; [reflexivity | apply Post_add_error, Hi].
    + eapply write_ref_error_ok; [exact Hi | reflexivity].
  - (* TermReference *)
    rewrite iw_S_term.
    cbn [lw_inline] in Hn. fold (lw_oargs arguments) in Hn.
    destruct (Hga arguments sc Hi) as (pos & named & sc1 & E1 & P1 & V1 & N1).
    { apply need_S. eapply need_le; [|exact Hn]. lia. }
    rewrite E1. cbn [obind]. cbv zeta.
    set (sc2 := set_local_args sc1 (Some named)).
    assert (I2 : Inv sc2) by (split; [exact (proj1 (post_inv _ _ P1)) | exact N1]).
    assert (C12 : Ctl sc1 sc2) by (apply Ctl_same; reflexivity).
    assert (Hn2 : need f 1 sc2).
    { apply need_S. eapply need_mono; [eapply Ctl_trans; [exact (post_ctl _ _ P1) | exact C12] | | exact Hn]. lia. }
    destruct (term_body_ok f id attribute (TermReference id attribute arguments) sc2 (RefTerm id attribute)
                Htr I2 Hn2 eq_refl) as (o & sc3 & E3 & P3).
    rewrite E3. cbn [obind].
    eexists _, _. split; [reflexivity|].
    split.
    + split; [exact (proj1 (post_inv _ _ P3)) | cbn; rewrite (post_largs _ _ P1); exact (proj2 Hi)].
    + cbn. exact (post_largs _ _ P1).
    + eapply Ctl_trans; [exact (post_ctl _ _ P1)|]. eapply Ctl_trans; [exact C12|].
      eapply Ctl_trans; [exact (post_ctl _ _ P3)|]. apply Ctl_same; reflexivity.
  - (* VariableReference *)
    rewrite iw_S_variable.
    destruct (lookup_variable args id sc) as [arg|].
    + eexists _, _. split; [reflexivity | apply Post_refl, Hi].
    + unfold missing_variable. destruct (sc_local_args sc); cbn; (eexists _, _; split; [reflexivity|]).
      * apply Post_refl, Hi.
      * apply Post_add_error, Hi.
  - (* Placeable *)
    rewrite iw_S_placeable. apply Hew; [exact Hi|]. apply need_S. exact Hn.
Qed.

Theorem total_all : forall f, P_all f.
Proof.
  induction f as [|f (Hpw & Hpr & Hew & Hiw & Hir & Hmt & Htr & Hga)].
  - unfold P_all, P_pw, P_pr, P_ew, P_iw, P_ir, P_mt, P_tr, P_ga, need.
    repeat split; intros; exfalso.
    + pose proof (lw_pattern_pos p). lia.
    + lia.
    + pose proof (lw_expr_pos e). lia.
    + pose proof (lw_inline_pos i). lia.
    + lia.
    + lia.
    + lia.
    + pose proof (lw_oargs_pos oa). lia.
  - repeat split.
    + apply step_pw; assumption.
    + apply step_pr; assumption.
    + apply step_ew; assumption.
    + apply step_iw; assumption.
    + apply step_ir; assumption.
    + apply step_mt; assumption.
    + apply step_tr; assumption.
    + apply step_ga; assumption.
Qed.

(* ---------- the entry points ---------- *)
Lemma cnt_nil l : cnt l [] = length l.
Proof. unfold cnt. induction l; cbn; [reflexivity | now f_equal]. Qed.

Lemma Inv_new c : Inv (scope_new c).
Proof. split; [left; cbn; apply N.le_0_l | exact Logic.I]. Qed.

Lemma need_new p c : need (fuel_of b p) (lw_pattern p) (scope_new c).
Proof.
  unfold need, untrav, fuel_of. cbn [scope_new sc_travelled]. rewrite cnt_nil, keys_length. fold BP. fold K. lia.
Qed.

Theorem write_pattern_total top p c :
  exists o sc',
    write_pattern overflow_checks call_function transform formatter rules custom_as_string
      unescape_write unescape_to_string f64_from_str b args (fuel_of b p) top p c = Done (o, sc') /\
    Post (scope_new c) sc'.
Proof.
  unfold write_pattern.
  destruct (total_all (fuel_of b p)) as (Hpw & _).
  apply Hpw; [apply Inv_new | apply need_new].
Qed.

Theorem format_pattern_total top p c :
  exists text sc',
    format_pattern overflow_checks call_function transform formatter rules custom_as_string
      unescape_write unescape_to_string f64_from_str b args (fuel_of b p) top p c = Done (text, sc') /\
    Post (scope_new c) sc'.
Proof.
  unfold format_pattern.
  destruct (total_all (S (fuel_of b p))) as (_ & Hpr & _).
  destruct (Hpr top p (scope_new c) (Inv_new c)) as (v & sc' & E & P1 & _).
  { pose proof (need_new p c). unfold need in *. lia. }
  rewrite E. cbn. eexists _, _. split; [reflexivity | exact P1].
Qed.

(* what Post says about a run that started on a fresh scope *)
Lemma Post_new_budget c sc' :
  Post (scope_new c) sc' -> (sc_placeables sc' <= MAX_PLACEABLES + 1)%N.
Proof.
  intros [[Hb _] _ _]. destruct Hb as [H|[H _]]; lia.
Qed.

Lemma Post_new_limit c sc' :
  Post (scope_new c) sc' ->
  ((sc_placeables sc' = MAX_PLACEABLES + 1)%N \/ sc_dirty sc' = true) -> In TooManyPlaceables (sc_errors sc').
Proof.
  intros [[Hb _] _ [_ _ (es & Ees & Fes) _]] H.
  assert (Hd : sc_dirty sc' = true).
  { destruct H as [H|H]; [|exact H]. destruct Hb as [Hle|[_ Hd]]; [lia | exact Hd]. }
  destruct (Fes Hd) as [Habs|Hin]; [discriminate Habs|].
  rewrite Ees. cbn. exact Hin.
Qed.

(* a pattern that is already being resolved is not entered again: Cyclic is reported *)
Lemma track_cyclic f k p exp sc :
  key_mem k (sc_travelled sc) = true ->
  tr (S f) k p exp sc = Done (braced (inline_write_error exp), add_error sc Cyclic).
Proof. intros H. rewrite tr_S, H. reflexivity. Qed.

End Total.

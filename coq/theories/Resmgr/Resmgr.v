(* Resmgr/Resmgr.v — model of fluent-resmgr/src/resource_manager.rs (property C19).
   Definitions only.

   External code, as Section variables (never axioms):
     fs    : nat -> bytes -> read_result    the file system as seen by fs::read_to_string, as a
                                            history: `fs t p` is what reading path p returns at
                                            time t (the time of the request being served)
     parse : bytes -> resource              FluentResource::try_new = parse_runtime, total: on
                                            syntax errors it still returns a resource (with Junk
                                            entries) and the manager drops the error list
   `FrozenMap<String, Box<FluentResource>>` is an append-only association list path -> resource.
   `io_log` is a GHOST field (not in the Rust struct): the trace of every read_file call
   (time, path, succeeded), so that "read at most once" can be stated.
   Locales are the strings `LanguageIdentifier::to_string()` yields.
   The bundle under construction is the registry model of Bundle/Registry.v; the manager never
   registers functions, so the function type is Empty_set.
   Not modelled: the `BundleGenerator` impl (BundleIter, hard-coded ./tests/resources, unwraps).  *)
From FluentV Require Export Base.Bytes Base.Outcome Syntax.Ast Bundle.Registry.
From FluentV Require Import Gen.Extracted.

(* str::replace(pat, to) for a non-empty pattern: leftmost non-overlapping matches, left to right.
   `skip` = bytes of the current match still to be dropped. *)
Fixpoint replace_go (pat to : bytes) (skip : nat) (s : bytes) : bytes :=
  match s with
  | [] => []
  | c :: s' =>
      match skip with
      | S k => replace_go pat to k s'
      | O =>
          if starts_with pat s then to ++ replace_go pat to (length pat - 1) s'
          else c :: replace_go pat to 0 s'
      end
  end.
Definition replace (pat to s : bytes) : bytes := replace_go pat to 0 s.

(* io::ErrorKind of a failed fs::read_to_string, as far as this model distinguishes *)
Inductive io_error := NotFound | IsDir | InvalidUtf8 | Denied.
Inductive read_result := ReadOk (content : bytes) | ReadErr (e : io_error).

(* resource_manager.rs ResourceManagerError *)
Inductive resmgr_error := Io (e : io_error) | Fluent (e : fluent_error).

Definition F0 := Empty_set.
Definition rbundle := bundle F0.

Record io_event := IoEvent { ev_time : nat; ev_path : bytes; ev_ok : bool }.

(* resource_manager.rs ResourceManager { resources, path_scheme }  (+ ghost io_log) *)
Record manager := Manager {
  path_scheme : bytes;
  cache : list (bytes * resource);
  io_log : list io_event }.

(* resource_manager.rs ResourceManager::new *)
Definition new_manager (path_scheme : bytes) : manager := Manager path_scheme [] [].

(* the `path` computed at the top of get_resource *)
Definition path_of (scheme locale resource_id : bytes) : bytes :=
  replace PLACEHOLDER_2 resource_id (replace PLACEHOLDER_1 locale scheme).

Section Resmgr.
Variable fs : nat -> bytes -> read_result.
Variable parse : bytes -> resource.

(* resource_manager.rs get_resource *)
Definition get_resource (m : manager) (t : nat) (resource_id locale : bytes)
  : manager * result resource resmgr_error :=
  let path := path_of (path_scheme m) locale resource_id in
  match afind (cache m) path with
  | Some resource => (m, Ok resource)
  | None =>
      match fs t path with                                   (* read_file(&path)? *)
      | ReadErr e =>
          (Manager (path_scheme m) (cache m) (io_log m ++ [IoEvent t path false]), Err (Io e))
      | ReadOk source =>
          let resource := parse source in                    (* Ok(r) => r, Err((r, _)) => r *)
          (Manager (path_scheme m) (cache m ++ [(path, resource)]) (io_log m ++ [IoEvent t path true]),
           Ok resource)
      end
  end.

Definition fluent_errors (r : result unit (list fluent_error)) : list resmgr_error :=
  match r with Ok _ => [] | Err errs => map Fluent errs end.

(* the `for resource_id in &resource_ids` loop shared by get_bundle and get_bundles *)
Fixpoint bundle_loop (m : manager) (t : nat) (locale : bytes) (resource_ids : list bytes) (b : rbundle)
  : outcome (manager * rbundle * list resmgr_error) :=
  match resource_ids with
  | [] => Done (m, b, [])
  | resource_id :: rest =>
      match get_resource m t resource_id locale with
      | (m1, Ok resource) =>
          let* (b1, added) := add_resource F0 b resource in
          let* (m2, b2, errors) := bundle_loop m1 t locale rest b1 in
          Done (m2, b2, fluent_errors added ++ errors)
      | (m1, Err error) =>
          let* (m2, b2, errors) := bundle_loop m1 t locale rest b in
          Done (m2, b2, error :: errors)
      end
  end.

Definition bundle_result (b : rbundle) (errors : list resmgr_error) : result rbundle (list resmgr_error) :=
  match errors with [] => Ok b | _ => Err errors end.

(* resource_manager.rs get_bundle   (`&locales[0]` panics on an empty vector) *)
Definition get_bundle (m : manager) (t : nat) (locales resource_ids : list bytes)
  : outcome (manager * result rbundle (list resmgr_error)) :=
  match locales with
  | [] => Panic "index out of bounds"
  | locale :: _ =>
      let* (m', b, errors) := bundle_loop m t locale resource_ids (new F0) in
      Done (m', bundle_result b errors)
  end.

(* resource_manager.rs get_bundles: the iterator is `idx` (plus the captured arguments);
   creating it touches nothing *)
Definition get_bundles (m : manager) (locales resource_ids : list bytes) : nat := 0.

(* one call of the from_fn closure: locales.get(idx).map(|locale| { idx += 1; ... }) *)
Definition bundles_next (m : manager) (t : nat) (locales resource_ids : list bytes) (idx : nat)
  : outcome (manager * nat * option (result rbundle (list resmgr_error))) :=
  match nth_error locales idx with
  | None => Done (m, idx, None)
  | Some locale =>
      let* (m', b, errors) := bundle_loop m t locale resource_ids (new F0) in
      Done (m', S idx, Some (bundle_result b errors))
  end.

(* ---- histories of requests, each served at its own time ---- *)
Inductive request :=
| GetBundle (locales resource_ids : list bytes)
| IterNext (locales resource_ids : list bytes) (idx : nat).

Definition serve (m : manager) (t : nat) (q : request) : outcome manager :=
  match q with
  | GetBundle ls ids => let* (m', _) := get_bundle m t ls ids in Done m'
  | IterNext ls ids idx => let* (m', _, _) := bundles_next m t ls ids idx in Done m'
  end.

(* a panicking request (empty locale list) leaves the manager as it was *)
Fixpoint serve_all (m : manager) (qs : list (nat * request)) : manager :=
  match qs with
  | [] => m
  | (t, q) :: r =>
      match serve m t q with
      | Done m' => serve_all m' r
      | _ => serve_all m r
      end
  end.

(* ---- specification side ---- *)
(* what a request at time t gets for a path, given the cache it started from *)
Definition resolve (c : list (bytes * resource)) (t : nat) (path : bytes) : result resource io_error :=
  match afind c path with
  | Some r => Ok r
  | None => match fs t path with ReadOk s => Ok (parse s) | ReadErr e => Err e end
  end.

Fixpoint oks (rs : list (result resource io_error)) : list resource :=
  match rs with
  | [] => []
  | Ok r :: rest => r :: oks rest
  | Err _ :: rest => oks rest
  end.

(* all failures in resource order: the read failure of a resource, or the Overriding errors of its
   entries against the ids of the resources listed before it (and earlier in itself) *)
Fixpoint bundle_errors (rs : list (result resource io_error)) (seen : list bytes) : list resmgr_error :=
  match rs with
  | [] => []
  | Err e :: rest => Io e :: bundle_errors rest seen
  | Ok r :: rest => map Fluent (dup_errors F0 seen r) ++ bundle_errors rest (seen_after F0 seen r)
  end.

End Resmgr.

(* ---- path schemes as token lists (for the substitution theorem) ---- *)
Inductive scheme_token := Lit (c : N) | Loc | Res.

Definition scheme_text (ts : list scheme_token) : bytes :=
  flat_map (fun tk => match tk with Lit c => [c] | Loc => PLACEHOLDER_1 | Res => PLACEHOLDER_2 end) ts.

(* simultaneous substitution of both placeholders *)
Definition scheme_subst (ts : list scheme_token) (locale resource_id : bytes) : bytes :=
  flat_map (fun tk => match tk with Lit c => [c] | Loc => locale | Res => resource_id end) ts.

Definition open_brace : N := 123.
Definition no_open_brace (s : bytes) : Prop := forall c, In c s -> c <> open_brace.
Definition lits_not_brace (ts : list scheme_token) : Prop := forall c, In (Lit c) ts -> c <> open_brace.

(* entries that carry no keyed definition (Junk left by syntax errors, comments) removed *)
Definition strip_unkeyed (r : resource) : resource :=
  filter (fun e => match e with Message _ _ _ _ | Term _ _ _ _ => true | _ => false end) r.

(* Resmgr/ResmgrProofs.v — proofs about the ResourceManager model (property C19). *)
From FluentV Require Import Base.Bytes Base.BytesFacts Base.Outcome Syntax.Ast
  Bundle.Registry Bundle.RegistryProofs Gen.Extracted Resmgr.Resmgr.
From Coq Require Import Lia.

(* ---------------- str::replace ---------------- *)
Lemma replace_go_skip pat to l s : replace_go pat to (length l) (l ++ s) = replace_go pat to 0 s.
Proof. induction l as [|c l IH]; cbn; [destruct s; reflexivity | exact IH]. Qed.

Lemma starts_with_app pat s : starts_with pat (pat ++ s) = true.
Proof. induction pat as [|c p IH]; cbn; [reflexivity|]. rewrite N.eqb_refl. exact IH. Qed.

Lemma replace_nil pat to : replace pat to [] = [].
Proof. reflexivity. Qed.

Lemma replace_match c p to s : replace (c :: p) to ((c :: p) ++ s) = to ++ replace (c :: p) to s.
Proof.
  unfold replace. change ((c :: p) ++ s) with (c :: (p ++ s)). cbn [replace_go].
  change (c :: p ++ s) with ((c :: p) ++ s). rewrite starts_with_app.
  replace (length (c :: p) - 1) with (length p) by (cbn [length]; lia).
  rewrite replace_go_skip. reflexivity.
Qed.

Lemma replace_nomatch pat to c s :
  starts_with pat (c :: s) = false -> replace pat to (c :: s) = c :: replace pat to s.
Proof. intros H. unfold replace. cbn [replace_go]. rewrite H. reflexivity. Qed.

Lemma starts_with_head_ne p0 p c s : c <> p0 -> starts_with (p0 :: p) (c :: s) = false.
Proof. intros H. cbn. destruct (N.eqb p0 c) eqn:E; [apply N.eqb_eq in E; congruence | reflexivity]. Qed.

(* a run of bytes none of which is the pattern's first byte is copied *)
Lemma replace_lit_run p0 p to l s :
  (forall c, In c l -> c <> p0) -> replace (p0 :: p) to (l ++ s) = l ++ replace (p0 :: p) to s.
Proof.
  induction l as [|c l IH]; intros H; [reflexivity|]. cbn [app].
  rewrite replace_nomatch by (apply starts_with_head_ne, H; left; reflexivity).
  rewrite IH by (intros c' Hc; apply H; right; exact Hc). reflexivity.
Qed.

(* facts about the two constants extracted from resource_manager.rs *)
Lemma P1_shape : exists t, PLACEHOLDER_1 = open_brace :: t.
Proof. eexists. reflexivity. Qed.
Lemma P2_shape : exists t, PLACEHOLDER_2 = open_brace :: t /\ no_open_brace t.
Proof.
  eexists. split; [reflexivity|]. intros c Hin. cbn in Hin.
  repeat (destruct Hin as [<-|Hin]; [discriminate|]). contradiction.
Qed.
Lemma P1_not_at_P2 s : starts_with PLACEHOLDER_1 (PLACEHOLDER_2 ++ s) = false.
Proof. reflexivity. Qed.

Definition text1 (ts : list scheme_token) (locale : bytes) : bytes :=
  flat_map (fun tk => match tk with Lit c => [c] | Loc => locale | Res => PLACEHOLDER_2 end) ts.

Lemma replace_P1 ts locale : lits_not_brace ts ->
  replace PLACEHOLDER_1 locale (scheme_text ts) = text1 ts locale.
Proof.
  destruct P1_shape as (t1 & E1). destruct P2_shape as (t2 & E2 & Ht2).
  induction ts as [|tk ts IH]; intros Hl; [reflexivity|].
  assert (lits_not_brace ts) as Hl' by (intros c Hc; apply Hl; right; exact Hc).
  specialize (IH Hl'). destruct tk as [c| |]; cbn [scheme_text text1 flat_map].
  - fold (scheme_text ts). fold (text1 ts locale). cbn [app]. rewrite E1.
    rewrite replace_nomatch by (apply starts_with_head_ne, Hl; left; reflexivity).
    rewrite <- E1, IH. reflexivity.
  - fold (scheme_text ts). fold (text1 ts locale). rewrite E1 at 1 2. rewrite replace_match.
    rewrite <- E1, IH. reflexivity.
  - fold (scheme_text ts). fold (text1 ts locale).
    assert (replace PLACEHOLDER_1 locale (PLACEHOLDER_2 ++ scheme_text ts)
            = PLACEHOLDER_2 ++ replace PLACEHOLDER_1 locale (scheme_text ts)) as H.
    { rewrite E2 at 1. cbn [app]. rewrite replace_nomatch.
      - rewrite E1 at 1. rewrite replace_lit_run by exact Ht2. rewrite <- E1, E2. reflexivity.
      - change (open_brace :: t2 ++ scheme_text ts) with ((open_brace :: t2) ++ scheme_text ts).
        rewrite <- E2. apply P1_not_at_P2. }
    rewrite H, IH. reflexivity.
Qed.

Lemma replace_P2 ts locale res : lits_not_brace ts -> no_open_brace locale ->
  replace PLACEHOLDER_2 res (text1 ts locale) = scheme_subst ts locale res.
Proof.
  destruct P2_shape as (t2 & E2 & Ht2). intros Hl Hloc.
  induction ts as [|tk ts IH]; [reflexivity|].
  assert (lits_not_brace ts) as Hl' by (intros c Hc; apply Hl; right; exact Hc).
  specialize (IH Hl'). destruct tk as [c| |]; cbn [scheme_subst text1 flat_map];
    fold (text1 ts locale); fold (scheme_subst ts locale res).
  - cbn [app]. rewrite E2.
    rewrite replace_nomatch by (apply starts_with_head_ne, Hl; left; reflexivity).
    rewrite <- E2, IH. reflexivity.
  - rewrite E2. rewrite replace_lit_run by exact Hloc. rewrite <- E2, IH. reflexivity.
  - rewrite E2 at 1 2. rewrite replace_match. rewrite <- E2, IH. reflexivity.
Qed.

Theorem path_is_substitution ts locale res :
  lits_not_brace ts -> no_open_brace locale ->
  path_of (scheme_text ts) locale res = scheme_subst ts locale res.
Proof. intros Hl Hloc. unfold path_of. rewrite replace_P1 by exact Hl. apply replace_P2; assumption. Qed.

(* ---------------- keys of the spec map under add_resource ---------------- *)
Lemma keys_fold_sinsert_new (defs : list (bytes * def F0)) : forall (s : smap F0),
  map fst (fold_left (sinsert_new F0) defs s)
  = fold_left (fun sn kd => if bmem (fst kd) sn then sn else sn ++ [fst kd]) defs (map fst s).
Proof.
  induction defs as [|[k d] defs IH]; intros s; [reflexivity|]. cbn [fold_left fst].
  rewrite IH. f_equal. unfold sinsert_new. cbn [fst snd].
  destruct (afind s k) eqn:E.
  - assert (bmem k (map fst s) = true) as Hb by (apply afind_some_bmem; congruence). rewrite Hb. reflexivity.
  - assert (bmem k (map fst s) = false) as Hb by (apply afind_none_bmem; exact E). rewrite Hb.
    rewrite (ainsert_absent s k d E), map_app. reflexivity.
Qed.

Lemma keys_spec_add (s : smap F0) r :
  map fst (spec_step F0 s (AddResource r)) = seen_after F0 (map fst s) r.
Proof. apply keys_fold_sinsert_new. Qed.

Lemma fluent_errors_result_of errs : fluent_errors (result_of errs) = map Fluent errs.
Proof. destruct errs; reflexivity. Qed.

Lemma spec_adds_find (rl : list resource) : forall (s : smap F0) id,
  afind (fold_left (spec_step F0) (map AddResource rl) s) id =
  match afind s id with Some d => Some d | None => afind (flat_map (defs_of F0) rl) id end.
Proof.
  induction rl as [|r rl IH]; intros s id; cbn [map fold_left flat_map].
  - destruct (afind s id); reflexivity.
  - rewrite IH. cbn [spec_step]. rewrite fold_sinsert_new_find, afind_app.
    destruct (afind s id); [reflexivity|]. destruct (afind (defs_of F0 r) id); reflexivity.
Qed.

(* ---------------- the manager ---------------- *)
Section ResmgrProofs.
Variable fs : nat -> bytes -> read_result.
Variable parse : bytes -> resource.
Notation get_resource := (get_resource fs parse).
Notation bundle_loop := (bundle_loop fs parse).
Notation get_bundle := (get_bundle fs parse).
Notation bundles_next := (bundles_next fs parse).
Notation resolve := (resolve fs parse).
Notation serve := (serve fs parse).
Notation serve_all := (serve_all fs parse).

(* invariant of every reachable manager: the cached paths are exactly the successfully read
   paths, in order, each once; the cached resource is the parse of what that read returned *)
Definition minv (m : manager) : Prop :=
  NoDup (map fst (cache m)) /\
  map fst (cache m) = map ev_path (filter ev_ok (io_log m)) /\
  forall p r, In (p, r) (cache m) ->
    exists t s, In (IoEvent t p true) (io_log m) /\ fs t p = ReadOk s /\ r = parse s.

(* m' extends m: same scheme, cache and log only appended to, new reads satisfy P *)
Definition mext (m m' : manager) (P : io_event -> Prop) : Prop :=
  path_scheme m' = path_scheme m /\
  exists c l, cache m' = cache m ++ c /\ io_log m' = io_log m ++ l /\ Forall P l.

Lemma mext_refl m P : mext m m P.
Proof. split; [reflexivity|]. exists [], []. rewrite !app_nil_r. repeat split. constructor. Qed.

Lemma mext_trans m1 m2 m3 (P Q R : io_event -> Prop) :
  (forall ev, P ev -> R ev) -> (forall ev, Q ev -> R ev) ->
  mext m1 m2 P -> mext m2 m3 Q -> mext m1 m3 R.
Proof.
  intros HP HQ (Hs1 & c1 & l1 & Hc1 & Hl1 & HF1) (Hs2 & c2 & l2 & Hc2 & Hl2 & HF2).
  split; [congruence|]. exists (c1 ++ c2), (l1 ++ l2).
  rewrite Hc2, Hc1, Hl2, Hl1, !app_assoc. split; [reflexivity|]. split; [reflexivity|].
  apply Forall_app. split; [eapply Forall_impl; [exact HP | exact HF1] | eapply Forall_impl; [exact HQ | exact HF2]].
Qed.

Lemma minv_new scheme : minv (new_manager scheme).
Proof. repeat split; cbn; [constructor | intros ? ? []]. Qed.

(* one call of get_resource *)
Lemma get_resource_facts m t id locale m' res :
  get_resource m t id locale = (m', res) ->
  let p := path_of (path_scheme m) locale id in
  res = (match resolve (cache m) t p with Ok r => Ok r | Err e => Err (Io e) end) /\
  (forall q, resolve (cache m') t q = resolve (cache m) t q) /\
  mext m m' (fun ev => ev_time ev = t /\ ev_path ev = p) /\
  (minv m -> minv m').
Proof.
  unfold get_resource, Resmgr.get_resource, resolve, Resmgr.resolve. cbv zeta.
  set (p := path_of (path_scheme m) locale id).
  destruct (afind (cache m) p) as [r|] eqn:Ec.
  - intros [= <- <-]. split; [reflexivity|]. split; [reflexivity|]. split; [apply mext_refl | tauto].
  - destruct (fs t p) as [s|e] eqn:Ef; intros [= <- <-]; cbn [cache io_log path_scheme].
    + split; [reflexivity|]. split; [|split].
      * intros q. rewrite afind_app. destruct (afind (cache m) q) eqn:Eq; [reflexivity|].
        cbn [afind]. destruct (bytes_eqb p q) eqn:Epq; [|reflexivity].
        apply bytes_eqb_eq in Epq. subst q. rewrite Ef. reflexivity.
      * split; [reflexivity|]. exists [(p, parse s)], [IoEvent t p true]. repeat split.
        constructor; [split; reflexivity | constructor].
      * intros (Hnd & Hkeys & Hcontent). repeat split; cbn [cache io_log].
        -- rewrite <- (ainsert_absent (cache m) p (parse s) Ec).
           apply nodup_keys_ainsert, Hnd.
        -- rewrite map_app, filter_app, map_app, Hkeys. reflexivity.
        -- intros p' r' Hin. apply in_app_iff in Hin. destruct Hin as [Hin|[[= <- <-]|[]]].
           ++ destruct (Hcontent p' r' Hin) as (t' & s' & H1 & H2 & H3).
              exists t', s'. repeat split; try assumption. apply in_app_iff. left. exact H1.
           ++ exists t, s. repeat split; try assumption. apply in_app_iff. right. left. reflexivity.
    + split; [reflexivity|]. split; [reflexivity|]. split.
      * split; [reflexivity|]. exists [], [IoEvent t p false]. rewrite app_nil_r. repeat split.
        constructor; [split; reflexivity | constructor].
      * intros (Hnd & Hkeys & Hcontent). repeat split; cbn [cache io_log]; [exact Hnd | |].
        -- rewrite filter_app, map_app. cbn. rewrite app_nil_r. exact Hkeys.
        -- intros p' r' Hin. destruct (Hcontent p' r' Hin) as (t' & s' & H1 & H2 & H3).
           exists t', s'. repeat split; try assumption. apply in_app_iff. left. exact H1.
Qed.

Definition loop_reads (scheme : bytes) (t : nat) (locale : bytes) (ids : list bytes) (ev : io_event) : Prop :=
  ev_time ev = t /\ exists id, In id ids /\ ev_path ev = path_of scheme locale id.

(* the loop of get_bundle / get_bundles *)
Lemma bundle_loop_spec t locale c0 : forall ids m (b : rbundle) (s : smap F0),
  (forall q, resolve (cache m) t q = resolve c0 t q) ->
  abs F0 b = lift F0 s ->
  let rs := map (fun id => resolve c0 t (path_of (path_scheme m) locale id)) ids in
  exists m' b',
    bundle_loop m t locale ids b = Done (m', b', bundle_errors rs (map fst s)) /\
    abs F0 b' = lift F0 (fold_left (spec_step F0) (map AddResource (oks rs)) s) /\
    (forall q, resolve (cache m') t q = resolve c0 t q) /\
    mext m m' (loop_reads (path_scheme m) t locale ids) /\
    (minv m -> minv m').
Proof.
  induction ids as [|id ids IH]; intros m b s Hres Habs; cbn zeta.
  - exists m, b. split; [reflexivity|]. split; [exact Habs|]. split; [exact Hres|]. split; [apply mext_refl | tauto].
  - cbn [map bundle_loop Resmgr.bundle_loop].
    destruct (get_resource m t id locale) as [m1 res] eqn:Eg.
    destruct (get_resource_facts _ _ _ _ _ _ Eg) as (Hr & Hstab & Hext1 & Hinv1).
    cbv zeta in Hr. rewrite Hres in Hr.
    assert (forall q, resolve (cache m1) t q = resolve c0 t q) as Hres1
      by (intros q; rewrite Hstab; apply Hres).
    assert (path_scheme m1 = path_scheme m) as Hs1 by apply Hext1.
    set (p := path_of (path_scheme m) locale id) in *.
    destruct (resolve c0 t p) as [r|e] eqn:Erp; subst res.
    + destruct (add_resource_refines F0 b s r Habs) as (b1 & Hadd & _ & Habs1).
      rewrite Hadd. cbn [obind].
      destruct (IH m1 b1 _ Hres1 Habs1) as (m2 & b2 & Hloop & Habs2 & Hres2 & Hext2 & Hinv2).
      rewrite Hs1 in Hloop, Habs2, Hext2. rewrite Hloop. cbn [obind].
      exists m2, b2. split; [|split; [|split; [exact Hres2|split]]].
      * cbn [bundle_errors]. rewrite fluent_errors_result_of, (abs_lift_keys F0 _ _ _ Habs), keys_spec_add.
        reflexivity.
      * cbn [oks map fold_left]. exact Habs2.
      * eapply mext_trans; [| |exact Hext1|exact Hext2].
        -- intros ev [H1 H2]. split; [exact H1|]. exists id. split; [left; reflexivity | exact H2].
        -- intros ev (H1 & id' & Hin & H2). split; [exact H1|]. exists id'. split; [right; exact Hin | exact H2].
      * tauto.
    + destruct (IH m1 b s Hres1 Habs) as (m2 & b2 & Hloop & Habs2 & Hres2 & Hext2 & Hinv2).
      rewrite Hs1 in Hloop, Habs2, Hext2. rewrite Hloop. cbn [obind].
      exists m2, b2. split; [reflexivity|]. split; [exact Habs2|]. split; [exact Hres2|]. split.
      * eapply mext_trans; [| |exact Hext1|exact Hext2].
        -- intros ev [H1 H2]. split; [exact H1|]. exists id. split; [left; reflexivity | exact H2].
        -- intros ev (H1 & id' & Hin & H2). split; [exact H1|]. exists id'. split; [right; exact Hin | exact H2].
      * tauto.
Qed.

Definition request_results (m : manager) (t : nat) (locale : bytes) (ids : list bytes)
  : list (result resource io_error) :=
  map (fun id => resolve (cache m) t (path_of (path_scheme m) locale id)) ids.

Lemma new_abs : abs F0 (new F0) = lift F0 [].
Proof. reflexivity. Qed.

Theorem get_bundle_spec m t locale locales ids :
  let rs := request_results m t locale ids in
  exists m' b,
    get_bundle m t (locale :: locales) ids = Done (m', bundle_result b (bundle_errors rs [])) /\
    abs F0 b = lift F0 (spec F0 (map AddResource (oks rs))) /\
    (forall id, get_message F0 b id =
       match afind (flat_map (defs_of F0) (oks rs)) id with Some (DMessage msg) => Some msg | _ => None end) /\
    mext m m' (loop_reads (path_scheme m) t locale ids) /\
    (minv m -> minv m').
Proof.
  cbv zeta. unfold get_bundle, Resmgr.get_bundle.
  destruct (bundle_loop_spec t locale (cache m) ids m (new F0) [] (fun q => eq_refl) new_abs)
    as (m' & b & Hloop & Habs & _ & Hext & Hinv).
  cbv zeta in Hloop. fold bundle_loop. rewrite Hloop. cbn [obind].
  exists m', b. split; [reflexivity|]. split; [exact Habs|]. split; [|split; assumption].
  intros id. unfold get_message. rewrite get_entry_message_lookup.
  rewrite (lookup_abs F0 b _ id Habs). rewrite spec_adds_find. reflexivity.
Qed.

Theorem get_bundle_empty_panics m t ids : get_bundle m t [] ids = Panic "index out of bounds".
Proof. reflexivity. Qed.

Theorem bundles_next_spec m t locales ids idx :
  match nth_error locales idx with
  | None => bundles_next m t locales ids idx = Done (m, idx, None)
  | Some locale =>
      exists m' res,
        get_bundle m t [locale] ids = Done (m', res) /\
        bundles_next m t locales ids idx = Done (m', S idx, Some res) /\
        mext m m' (loop_reads (path_scheme m) t locale ids)
  end.
Proof.
  unfold bundles_next, Resmgr.bundles_next. destruct (nth_error locales idx) as [locale|]; [|reflexivity].
  destruct (bundle_loop_spec t locale (cache m) ids m (new F0) [] (fun q => eq_refl) new_abs)
    as (m' & b & Hloop & _ & _ & Hext & _).
  cbv zeta in Hloop. unfold get_bundle, Resmgr.get_bundle. fold bundle_loop. rewrite Hloop. cbn [obind].
  eexists _, _. split; [reflexivity|]. split; [reflexivity | exact Hext].
Qed.

(* ---------------- histories ---------------- *)
Lemma serve_facts m t q m' : serve m t q = Done m' -> mext m m' (fun _ => True) /\ (minv m -> minv m').
Proof.
  destruct q as [ls ids|ls ids idx]; cbn [serve Resmgr.serve].
  - destruct ls as [|locale ls]; [discriminate|].
    destruct (get_bundle_spec m t locale ls ids) as (m1 & b & Hg & _ & _ & Hext & Hinv).
    fold get_bundle. rewrite Hg. cbn. intros [= <-]. split; [|exact Hinv].
    eapply mext_trans; [| |apply (mext_refl m (fun _ => True))|exact Hext]; auto.
  - pose proof (bundles_next_spec m t ls ids idx) as H. fold bundles_next.
    destruct (nth_error ls idx) as [locale|].
    + destruct H as (m1 & res & Hg & Hn & Hext). rewrite Hn. cbn. intros [= <-]. split.
      * eapply mext_trans; [| |apply (mext_refl m (fun _ => True))|exact Hext]; auto.
      * destruct (get_bundle_spec m t locale [] ids) as (m2 & b & Hg2 & _ & _ & _ & Hinv).
        rewrite Hg in Hg2. injection Hg2 as <- _. exact Hinv.
    + rewrite H. cbn. intros [= <-]. split; [apply mext_refl | tauto].
Qed.

Theorem serve_all_facts qs : forall m,
  mext m (serve_all m qs) (fun _ => True) /\ (minv m -> minv (serve_all m qs)).
Proof.
  induction qs as [|[t q] qs IH]; intros m; cbn [serve_all Resmgr.serve_all].
  - split; [apply mext_refl | tauto].
  - fold serve. fold serve_all. destruct (serve m t q) as [m1| |] eqn:Es; try apply IH.
    destruct (serve_facts _ _ _ _ Es) as [Hext Hinv]. destruct (IH m1) as [Hext2 Hinv2]. split.
    + eapply mext_trans; [| |exact Hext|exact Hext2]; auto.
    + tauto.
Qed.

Lemma mext_cache_stable m m' P p r :
  mext m m' P -> afind (cache m) p = Some r -> afind (cache m') p = Some r.
Proof. intros (_ & c & l & Hc & _) H. rewrite Hc, afind_app, H. reflexivity. Qed.

(* a cached path is served from the cache: no read, whatever the file system says now *)
Lemma get_resource_cached m t id locale r :
  afind (cache m) (path_of (path_scheme m) locale id) = Some r ->
  get_resource m t id locale = (m, Ok r).
Proof. intros H. unfold get_resource, Resmgr.get_resource. cbv zeta. rewrite H. reflexivity. Qed.

Lemma get_resource_failed m t id locale e :
  afind (cache m) (path_of (path_scheme m) locale id) = None ->
  fs t (path_of (path_scheme m) locale id) = ReadErr e ->
  exists m', get_resource m t id locale = (m', Err (Io e)) /\
    cache m' = cache m /\ path_scheme m' = path_scheme m.
Proof.
  intros H Hf. unfold get_resource, Resmgr.get_resource. cbv zeta. rewrite H, Hf.
  eexists. repeat split.
Qed.

Lemma get_resource_loaded m t id locale s :
  afind (cache m) (path_of (path_scheme m) locale id) = None ->
  fs t (path_of (path_scheme m) locale id) = ReadOk s ->
  exists m', get_resource m t id locale = (m', Ok (parse s)) /\
    afind (cache m') (path_of (path_scheme m) locale id) = Some (parse s).
Proof.
  intros H Hf. unfold get_resource, Resmgr.get_resource. cbv zeta. rewrite H, Hf.
  eexists. split; [reflexivity|]. cbn [cache]. rewrite afind_app, H. cbn. rewrite bytes_eqb_refl. reflexivity.
Qed.

End ResmgrProofs.

(* ---------------- syntax errors are tolerated ---------------- *)
Lemma defs_of_strip r : defs_of F0 (strip_unkeyed r) = defs_of F0 r.
Proof.
  induction r as [|e r IH]; [reflexivity|]. destruct e; cbn; fold (strip_unkeyed r); rewrite ?IH; reflexivity.
Qed.

Lemma dup_errors_strip r : forall seen, dup_errors F0 seen (strip_unkeyed r) = dup_errors F0 seen r.
Proof.
  induction r as [|e r IH]; intros seen; [reflexivity|].
  destruct e; cbn; fold (strip_unkeyed r); try apply IH; destruct (bmem id seen); rewrite IH; reflexivity.
Qed.

Definition strip_result (x : result resource io_error) : result resource io_error :=
  match x with Ok r => Ok (strip_unkeyed r) | Err e => Err e end.

Lemma bundle_errors_strip rs : forall seen,
  bundle_errors (map strip_result rs) seen = bundle_errors rs seen.
Proof.
  induction rs as [|[r|e] rs IH]; intros seen; cbn; [reflexivity| |rewrite IH; reflexivity].
  rewrite dup_errors_strip. unfold seen_after. rewrite defs_of_strip. rewrite IH. reflexivity.
Qed.

Lemma defs_strip rs :
  flat_map (defs_of F0) (oks (map strip_result rs)) = flat_map (defs_of F0) (oks rs).
Proof.
  induction rs as [|[r|e] rs IH]; cbn; [reflexivity| |exact IH]. rewrite defs_of_strip, IH. reflexivity.
Qed.

Lemma bundle_errors_nil_iff rs seen :
  bundle_errors rs seen = [] ->
  (forall x, In x rs -> exists r, x = Ok r).
Proof.
  revert seen. induction rs as [|[r|e] rs IH]; intros seen H x Hin; cbn in *; try contradiction.
  - apply app_eq_nil in H as [_ H]. destruct Hin as [<-|Hin]; [eauto | eapply IH; eassumption].
  - discriminate.
Qed.

Definition strip_cache (c : list (bytes * resource)) : list (bytes * resource) :=
  map (fun pr => (fst pr, strip_unkeyed (snd pr))) c.

Theorem tolerant fs parse m t locale locales ids :
  let parse' := fun s => strip_unkeyed (parse s) in
  let m2 := Manager (path_scheme m) (strip_cache (cache m)) (io_log m) in
  exists m1' b1 m2' b2 errs,
    get_bundle fs parse m t (locale :: locales) ids = Done (m1', bundle_result b1 errs) /\
    get_bundle fs parse' m2 t (locale :: locales) ids = Done (m2', bundle_result b2 errs) /\
    forall id, get_message F0 b1 id = get_message F0 b2 id.
Proof.
  cbv zeta.
  destruct (get_bundle_spec fs parse m t locale locales ids) as (m1' & b1 & H1 & _ & Hm1 & _).
  destruct (get_bundle_spec fs (fun s => strip_unkeyed (parse s))
              (Manager (path_scheme m) (strip_cache (cache m)) (io_log m)) t locale locales ids)
    as (m2' & b2 & H2 & _ & Hm2 & _).
  assert (request_results fs (fun s => strip_unkeyed (parse s))
            (Manager (path_scheme m) (strip_cache (cache m)) (io_log m)) t locale ids
          = map strip_result (request_results fs parse m t locale ids)) as Hrs.
  { unfold request_results. rewrite map_map. apply map_ext. intros id. cbn [cache path_scheme].
    unfold resolve, strip_cache. rewrite (afind_map strip_unkeyed).
    destruct (afind (cache m) (path_of (path_scheme m) locale id)); cbn; [reflexivity|].
    destruct (fs t (path_of (path_scheme m) locale id)); reflexivity. }
  cbv zeta in H1, H2, Hm1, Hm2. rewrite Hrs in H2, Hm2. rewrite bundle_errors_strip in H2.
  exists m1', b1, m2', b2, (bundle_errors (request_results fs parse m t locale ids) []).
  split; [exact H1|]. split; [exact H2|]. intros id. rewrite Hm1, Hm2, defs_strip. reflexivity.
Qed.

Theorem once fs parse scheme qs :
  let m := serve_all fs parse (new_manager scheme) qs in
  NoDup (map ev_path (filter ev_ok (io_log m))) /\
  map fst (cache m) = map ev_path (filter ev_ok (io_log m)) /\
  (forall p r, afind (cache m) p = Some r ->
     exists t s, In (IoEvent t p true) (io_log m) /\ fs t p = ReadOk s /\ r = parse s) /\
  (forall p r, afind (cache m) p = Some r ->
     forall qs2, afind (cache (serve_all fs parse m qs2)) p = Some r) /\
  (forall t id locale r, afind (cache m) (path_of (path_scheme m) locale id) = Some r ->
     get_resource fs parse m t id locale = (m, Ok r)) /\
  (forall t id locale e,
     afind (cache m) (path_of (path_scheme m) locale id) = None ->
     fs t (path_of (path_scheme m) locale id) = ReadErr e ->
     exists m', get_resource fs parse m t id locale = (m', Err (Io e)) /\
       cache m' = cache m /\ path_scheme m' = path_scheme m /\
       forall t2 s, fs t2 (path_of (path_scheme m) locale id) = ReadOk s ->
         exists m'', get_resource fs parse m' t2 id locale = (m'', Ok (parse s))).
Proof.
  cbv zeta. destruct (serve_all_facts fs parse qs (new_manager scheme)) as [_ Hinv].
  destruct (Hinv (minv_new fs parse scheme)) as (Hnd & Hkeys & Hcontent).
  set (m := serve_all fs parse (new_manager scheme) qs) in *.
  split; [rewrite <- Hkeys; exact Hnd|]. split; [exact Hkeys|]. split; [|split; [|split]].
  - intros p r H. apply Hcontent. apply afind_in, H.
  - intros p r H qs2. destruct (serve_all_facts fs parse qs2 m) as [Hext _].
    eapply mext_cache_stable; eassumption.
  - intros t id locale r H. apply get_resource_cached, H.
  - intros t id locale e Hc Hf.
    destruct (get_resource_failed fs parse m t id locale e Hc Hf) as (m' & Hg & Hc' & Hs').
    exists m'. split; [exact Hg|]. split; [exact Hc'|]. split; [exact Hs'|].
    intros t2 s Hf2.
    destruct (get_resource_loaded fs parse m' t2 id locale s) as (m'' & Hg2 & _).
    + rewrite Hs', Hc'. exact Hc.
    + rewrite Hs'. exact Hf2.
    + exists m''. exact Hg2.
Qed.

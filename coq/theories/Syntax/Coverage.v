(* Syntax/Coverage.v — the executable premise of Props/C04.v C04_roundtrip_parser_outputs_partial.  Definitions only
   (extractable): `c04_covered t` says that the parser output t falls under that theorem, i.e. its JOINED tree
   (adjacent text elements concatenated, TreeNorm.join_entry) is well-formed in the sense of Render.wf_resource and
   all its strings are UTF-8 (WfUtf8.wf_utf8_resource).                                                *)
From FluentV Require Export Base.Bytes Syntax.Ast Syntax.Render Syntax.TreeNorm Syntax.WfUtf8.

Definition c04_covered (t : list entry) : bool :=
  wf_resource (map join_entry t) && wf_utf8_resource (map join_entry t).

(* Syntax/ArgsNest.v — call arguments whose positional arguments are ARBITRARY inline expressions of a class
   `aok` with layouts `atext` (nested calls, term attributes, placeables): the generic version of CallArgs.v.
   What is needed of the class is stated as hypotheses where it is used (Hahead, Haparse, Harender, Hajoin,
   Hawf); the instances, by induction on the nesting depth, are in RoundTripNest.v.
   The parser may return an argument that only JOINS to the printed one (a placeable argument may hold a
   select expression with multi-line variant values): irel.
     1. layouts; args_loop; get_call_arguments
     2. function references and term references with arguments
     3. render, joined form, well-formedness
     4. the inline expressions of a placeable (binl) and of a selector (bsl)
   Fuel: every lemma asks for 3 * (length of the remaining input) + a constant.                        *)
From FluentV Require Import Base.Bytes Base.Outcome Base.Utf8 Base.Utf8Facts.
From FluentV Require Import Syntax.Ast Syntax.ParserModel Syntax.Render Syntax.TreeNorm Syntax.ParseLemmas Syntax.RoundTrip.
From FluentV Require Import Syntax.CallArgs.
From Coq Require Import Lia ZifyBool ZifyNat ZifyN.

Arguments N.add : simpl never.
Arguments N.sub : simpl never.
Arguments N.eqb : simpl never.
Arguments N.ltb : simpl never.
Arguments N.leb : simpl never.

Section GArgs.
Variable aok : inline -> bool.
Variable atext : inline -> bytes -> Prop.
Variable agood : inline -> Prop.

(* what the parser returns for a printed inline expression *)
Definition irel (i' i : inline) : Prop := join_inline i' = join_inline i /\ agood i'.

Definition gargs_ok (ca : call_args) : bool :=
  match ca with
  | CallArguments pos named => forallb aok pos && forallb named_ok named && no_dup_names named []
  end.

Definition arel (ca' ca : call_args) : Prop :=
  match ca', ca with
  | CallArguments ps' ns', CallArguments ps ns => Forall2 irel ps' ps /\ ns' = ns
  end.

Lemma arel_join_eq ca' ca : arel ca' ca -> join_args ca' = join_args ca.
Proof.
  destruct ca' as [ps' ns'], ca as [ps ns]. intros [Hrel ->].
  change (join_args (CallArguments ps' ns)) with (CallArguments (map join_inline ps') (map join_named ns)).
  change (join_args (CallArguments ps ns)) with (CallArguments (map join_inline ps) (map join_named ns)). f_equal.
  induction Hrel as [|i' i l' l [Hj _] _ IH]; [reflexivity|]. cbn [map]. rewrite Hj, IH. reflexivity.
Qed.

Inductive gitem_layout : arg_item -> bytes -> Prop :=
| gitl_pos i X : atext i X -> gitem_layout (APos i) X
| gitl_named n v b1 b2 : all_blank b1 -> all_blank b2 -> gitem_layout (ANamed n v) (n ++ b1 ++ 58%N :: b2 ++ inline_text v).

Inductive gitems_layout : list arg_item -> bytes -> Prop :=
| gil_nil : gitems_layout [] []
| gil_cons x X b1 (comma : bool) b2 r R :
    gitem_layout x X -> all_blank b1 -> all_blank b2 -> (r <> [] -> comma = true) -> (comma = false -> b2 = []) ->
    gitems_layout r R ->
    gitems_layout (x :: r) (X ++ b1 ++ (if comma then 44%N :: b2 else []) ++ R).

Inductive gargs_layout : call_args -> bytes -> Prop :=
| gargl ca b0 R : all_blank b0 -> gitems_layout (items_of ca) R -> gargs_layout ca (40%N :: b0 ++ R ++ [41%N]).

(* the first byte of an argument: not a blank, not ")" *)
Hypothesis Hahead : forall i X, aok i = true -> atext i X ->
  exists b0 t0, X = b0 :: t0 /\ N.eqb b0 41 = false /\ N.eqb b0 32 = false /\ N.eqb b0 10 = false /\ N.eqb b0 13 = false.

Definition gitem_ok (x : arg_item) : Prop :=
  match x with APos i => aok i = true | ANamed n _ => wf_identifier n = true end.

Lemma gitem_head x X t : gitem_layout x X -> gitem_ok x ->
  no_blank_head (X ++ t) /\ exists b0 t0, X ++ t = b0 :: t0 /\ N.eqb b0 41 = false.
Proof.
  intros [i X0 HX | n v b1 b2 Hb1 Hb2] Hx.
  - destruct (Hahead i X0 Hx HX) as (b0 & t0 & -> & H41 & H32 & H10 & H13). cbn [app].
    split; [apply no_blank_head_byte; assumption | eexists; eexists; split; [reflexivity | exact H41]].
  - destruct (wf_identifier_head n Hx) as (b & r & -> & Hb). cbn [app].
    split; [apply no_blank_head_byte; unfold is_ascii_alphabetic, in_rng in Hb; lia|].
    eexists; eexists; split; [reflexivity|]. unfold is_ascii_alphabetic, in_rng in Hb. lia.
Qed.

Lemma gitems_ok ps ns : forallb aok ps = true -> forallb named_ok ns = true ->
  Forall gitem_ok (map APos ps ++ map named_item ns).
Proof.
  intros Hps Hns. apply Forall_app. split.
  - rewrite forallb_forall in Hps. apply Forall_forall. intros x Hx. apply in_map_iff in Hx as (i & <- & Hi). apply (Hps i Hi).
  - rewrite forallb_forall in Hns. apply Forall_forall. intros x Hx. apply in_map_iff in Hx as ([n v] & <- & Ha).
    specialize (Hns _ Ha). unfold named_ok in Hns. apply andb_prop in Hns as [Hns _]. apply andb_prop in Hns as [Hid _]. exact Hid.
Qed.

Section Loop.
Variable bs : bytes.

(* get_inline_expression on an argument, in front of a blank and one of , ) *)
Hypothesis Haparse : forall i X b c t p n,
  aok i = true -> atext i X -> all_blank b -> delim c -> at_ bs p (X ++ b ++ c :: t) ->
  3 * length (X ++ b ++ c :: t) + 6 <= n ->
  exists i' q, get_inline_expression bs n false p = Ok i' q /\ irel i' i /\
               (q = length X + p \/ q = length X + length b + p).

Lemma after_item_tail' (comma : bool) b2 R rest :
  all_blank b2 -> (comma = false -> b2 = [] /\ R = []) ->
  exists c t, (if comma then 44%N :: b2 else []) ++ R ++ 41%N :: rest = c :: t /\ (c = 44%N \/ c = 41%N).
Proof.
  intros Hb2 Hno. destruct comma; [exists 44%N; eexists; split; [reflexivity | left; reflexivity]|].
  destruct (Hno eq_refl) as [-> ->]. exists 41%N, rest. split; [reflexivity | right; reflexivity].
Qed.

Lemma irel_msg i' i : irel i' i ->
  match i' with MessageReference id None => i = MessageReference id None | _ => True end.
Proof.
  intros [Hj _]. destruct i' as [s | v | id args | id [a|] | id att args | id | e]; try exact Logic.I.
  cbn [join_inline] in Hj. destruct i as [s | v | id2 args | id2 att2 | id2 att args | id2 | e]; cbn [join_inline] in Hj; try discriminate Hj.
  symmetry. exact Hj.
Qed.

Lemma gargs_loop_ok items R : gitems_layout items R ->
  forall ps ns pos_acc named_acc names rest p n,
  items = map APos ps ++ map named_item ns ->
  forallb aok ps = true -> forallb named_ok ns = true -> no_dup_names ns names = true ->
  (names <> [] -> ps = []) ->
  at_ bs p (R ++ 41%N :: rest) -> 3 * length (R ++ 41%N :: rest) + 10 <= n ->
  exists ps', args_loop bs n pos_acc named_acc names p =
              Ok (CallArguments (rev pos_acc ++ ps') (rev named_acc ++ ns)) (length R + p) /\
              Forall2 irel ps' ps.
Proof.
  induction 1 as [|x X b1 comma b2 r R Hx Hb1 Hb2 Hcm Hnc Hr IH];
    intros ps ns pos_acc named_acc names rest p n Eitems Hps Hns Hdup Hnames H Hn.
  - (* no item left: the closing parenthesis *)
    destruct ps; [|discriminate Eitems]. destruct ns; [|discriminate Eitems].
    destruct n as [|n]; [lia|]. cbn [args_loop app] in *. rewrite bind_get_ptr.
    rewrite (at_ltb _ _ _ _ H). cbn [negb]. rewrite (at_is_byte _ _ 41 _ H). change (N.eqb 41 41) with true. cbv iota.
    exists []. rewrite !app_nil_r. split; [reflexivity | constructor].
  - destruct n as [|n]; [lia|].
    assert (Hokall : Forall gitem_ok (x :: r)) by (rewrite Eitems; apply gitems_ok; assumption).
    assert (Hokx : gitem_ok x) by (inversion Hokall; assumption).
    assert (Hokr : Forall gitem_ok r) by (inversion Hokall; assumption).
    assert (Htail : exists c t, (if comma then 44%N :: b2 else []) ++ R ++ 41%N :: rest = c :: t /\ (c = 44%N \/ c = 41%N)).
    { apply after_item_tail'; [exact Hb2|]. intros Hc. split; [apply Hnc, Hc|].
      destruct r as [|y r']; [inversion Hr; reflexivity|]. rewrite (Hcm ltac:(discriminate)) in Hc. discriminate Hc. }
    destruct Htail as (c & t & Etail & Hc).
    assert (Hdelim : delim c) by (destruct Hc as [-> | ->]; [left | right; left]; reflexivity).
    assert (H' : at_ bs p (X ++ b1 ++ c :: t)).
    { rewrite <- Etail. rewrite <- !app_assoc in H. exact H. }
    assert (Hlen : length ((X ++ b1 ++ (if comma then 44%N :: b2 else []) ++ R) ++ 41%N :: rest) =
                   length X + length b1 + length (c :: t)).
    { rewrite <- Etail. repeat (rewrite app_length || cbn [length]). lia. }
    assert (Hlen2 : length (X ++ b1 ++ (if comma then 44%N :: b2 else []) ++ R) =
                    length X + length b1 + length (if comma then 44%N :: b2 else []) + length R) by (rewrite !app_length; lia).
    assert (Hlen3 : length (c :: t) = length (if comma then 44%N :: b2 else []) + length (R ++ 41%N :: rest))
      by (rewrite <- Etail, app_length; reflexivity).
    rewrite Hlen in Hn. rewrite Hlen2.
    (* the common end of the iteration: blank, optional comma, blank *)
    assert (Hend : forall q pa na nm, at_ bs q (c :: t) ->
               (skip_blank bs ;;; take_byte_if bs 44 ;;; skip_blank bs ;;; args_loop bs n pa na nm) q =
               args_loop bs n pa na nm (length (if comma then 44%N :: b2 else []) + q)).
    { intros q pa na nm Hq.
      step (skip_blank_none bs q _ Hq (no_blank_head_delim c t Hdelim)).
      destruct comma.
      - cbn [app] in Etail. injection Etail as <- <-.
        step (take_byte_if_yes bs q 44 _ Hq).
        pose proof (at_cons _ _ _ _ Hq) as Hq1.
        assert (Hnb : no_blank_head (R ++ 41%N :: rest)).
        { destruct Hr as [|y Y c1 cm c2 r' R' Hy _ _ _ _ _]; [reflexivity|]. rewrite <- !app_assoc.
          apply (gitem_head y Y _ Hy). inversion Hokr; assumption. }
        step (skip_blank_blank bs _ b2 _ Hq1 Hb2 Hnb). cbn [length]. f_equal. lia.
      - assert (Ec : c = 41%N).
        { destruct r as [|y r']; [|discriminate (Hcm ltac:(discriminate))].
          assert (ER : R = []) by (inversion Hr; reflexivity). rewrite ER in Etail.
          cbn [app] in Etail. injection Etail as E1 _. symmetry. exact E1. }
        rewrite Ec in Hq. step (take_byte_if_no bs q 44 _ Hq ltac:(reflexivity)).
        rewrite <- Ec in Hq.
        step (skip_blank_none bs q _ Hq (no_blank_head_delim c t Hdelim)). reflexivity. }
    cbn [args_loop]. rewrite bind_get_ptr.
    destruct (gitem_head x X (b1 ++ c :: t) Hx Hokx) as [_ (b0 & t0 & Ehead & Hb041)].
    rewrite Ehead in H'. rewrite (at_ltb _ _ _ _ H'). cbn [negb]. rewrite (at_is_byte _ _ 41 _ H'), Hb041. cbv iota.
    rewrite <- Ehead in H'. clear Ehead Hb041 b0 t0.
    destruct Hx as [i X HX | n0 v c1 c2 Hc1 Hc2].
    + (* a positional argument *)
      destruct ps as [|i0 ps']; [destruct ns as [|[? ?] ?]; discriminate Eitems|]. injection Eitems as <- Er.
      cbn [forallb] in Hps. apply andb_prop in Hps as [Hi Hps'].
      assert (Hnm : names = []) by (destruct names; [reflexivity | discriminate (Hnames ltac:(discriminate))]). subst names.
      destruct (Haparse i X b1 c t p n Hi HX Hb1 Hdelim H' ltac:(repeat (rewrite app_length || cbn [length]); cbn [length] in Hn; lia))
        as (i' & q0 & Ei & Hrel & Hq0).
      step Ei.
      set (q1 := length X + length b1 + p).
      assert (Hq1 : at_ bs q1 (c :: t)).
      { unfold q1. pose proof (at_app _ _ _ _ (at_app _ _ _ _ H')) as Hq. replace (length X + length b1 + p)
          with (length b1 + (length X + p)) by lia. exact Hq. }
      assert (Hsk : skip_blank bs q0 = Ok tt q1).
      { destruct Hq0 as [-> | ->].
        - pose proof (at_app _ _ _ _ H') as Hq. rewrite (skip_blank_blank bs _ b1 _ Hq Hb1 (no_blank_head_delim c t Hdelim)).
          f_equal. unfold q1. lia.
        - apply (skip_blank_none bs _ _ Hq1 (no_blank_head_delim c t Hdelim)). }
      assert (Hgen : (skip_blank bs ;;; take_byte_if bs 44 ;;; skip_blank bs ;;; args_loop bs n (i' :: pos_acc) named_acc []) q0 =
                     args_loop bs n (i' :: pos_acc) named_acc [] (length (if comma then 44%N :: b2 else []) + q1)).
      { rewrite <- (Hend q1 (i' :: pos_acc) named_acc [] Hq1). step Hsk. symmetry.
        step (skip_blank_none bs q1 _ Hq1 (no_blank_head_delim c t Hdelim)). reflexivity. }
      match goal with |- (exists ps'0, ?L = _ /\ _) =>
        assert (Hst : L = args_loop bs n (i' :: pos_acc) named_acc [] (length (if comma then 44%N :: b2 else []) + q1)) end.
      { destruct i' as [s | v | id args | id att | id att args | id | e]; cbv iota; try (rewrite bind_ret; exact Hgen).
        destruct att as [a|]; cbv iota; [rewrite bind_ret; exact Hgen|].
        (* a message reference: no colon follows *)
        rewrite bind_assoc. step Hsk.
        rewrite bind_assoc. unfold is_current_byte at 1. unfold bind at 1. rewrite (at_byte _ _ _ _ Hq1).
        replace (N.eqb c 58) with false by (destruct Hc as [-> | ->]; reflexivity).
        rewrite bind_ret. rewrite <- (Hend q1 (MessageReference id None :: pos_acc) named_acc [] Hq1). reflexivity. }
      rewrite Hst.
      destruct (IH ps' ns (i' :: pos_acc) named_acc [] rest (length (if comma then 44%N :: b2 else []) + q1) n Er Hps' Hns Hdup ltac:(congruence))
        as (ps2 & E2 & Hrels).
      * unfold q1. replace (length (if comma then 44%N :: b2 else []) + (length X + length b1 + p))
          with (length ((X ++ b1) ++ (if comma then 44%N :: b2 else [])) + p) by (rewrite !app_length; lia).
        assert (H2 : at_ bs p (((X ++ b1) ++ (if comma then 44%N :: b2 else [])) ++ R ++ 41%N :: rest))
          by (repeat rewrite <- app_assoc in H; repeat rewrite <- app_assoc; exact H).
        apply (at_app _ _ _ _ H2).
      * destruct (Hahead i X Hi HX) as (b0 & t0 & -> & _). rewrite Hlen3 in Hn. cbn [length] in Hn. lia.
      * exists (i' :: ps2). split; [|constructor; assumption].
        rewrite E2. cbn [rev]. rewrite <- app_assoc. cbn [app]. f_equal. unfold q1. lia.
    + (* a named argument *)
      destruct ps as [|i0 ps']; [|discriminate Eitems]. destruct ns as [|[n1 v1] ns']; [discriminate Eitems|].
      injection Eitems as <- <- Er. cbn [forallb] in Hns. apply andb_prop in Hns as [Ha Hns']. unfold named_ok in Ha.
      apply andb_prop in Ha as [Ha Hv]. apply andb_prop in Ha as [Hid Hlit].
      cbn [no_dup_names] in Hdup. apply andb_prop in Hdup as [Hnew Hdup']. apply negb_true_iff in Hnew.
      assert (Hname : at_ bs p (inline_text (MessageReference n0 None) ++ c1 ++ 58%N :: c2 ++ inline_text v ++ b1 ++ c :: t)).
      { cbn [inline_text]. rewrite app_nil_r. rewrite <- !app_assoc in H'. cbn [app] in H'. rewrite <- !app_assoc in H'. exact H'. }
      assert (Hlenn : 1 <= length n0) by (destruct n0; [discriminate Hid | cbn [length]; lia]).
      rewrite Hlen3 in Hn. rewrite !app_length in Hn. cbn [length] in Hn. rewrite !app_length in Hn.
      step (get_inline_simple_d bs (MessageReference n0 None) c1 58 _ p n Hid Hc1 ltac:(right; right; left; reflexivity) Hname
              ltac:(cbn [inline_text]; rewrite app_nil_r; cbn [length] in Hn; lia)).
      cbn [inline_text inline_eats_blank]. rewrite app_nil_r.
      set (q0 := length n0 + length c1 + p).
      assert (Hq0 : at_ bs q0 (58%N :: c2 ++ inline_text v ++ b1 ++ c :: t)).
      { unfold q0. cbn [inline_text] in Hname. rewrite app_nil_r in Hname. apply at_app in Hname. apply at_app in Hname.
        replace (length n0 + length c1 + p) with (length c1 + (length n0 + p)) by lia. exact Hname. }
      rewrite bind_assoc. step (skip_blank_none bs q0 _ Hq0 ltac:(reflexivity)).
      rewrite bind_assoc. unfold is_current_byte at 1. unfold bind at 1. rewrite (at_byte _ _ _ _ Hq0). change (N.eqb 58 58) with true.
      cbv iota. unfold has_name. rewrite Hnew.
      rewrite !bind_assoc, bind_advance. change (1 + q0) with (S q0).
      pose proof (at_cons _ _ _ _ Hq0) as Hq1.
      rewrite bind_assoc. step (skip_blank_blank bs _ c2 _ Hq1 Hc2 (inline_text_head v _ Hv)).
      pose proof (at_app _ _ _ _ Hq1) as Hq2.
      rewrite bind_assoc. step (get_literal_d bs v b1 c t _ n Hlit Hv Hb1 Hdelim Hq2 ltac:(cbn [length] in Hn; lia)).
      rewrite bind_ret.
      set (q3 := length (inline_text v) + (length c2 + S q0)).
      assert (Hq3 : at_ bs q3 (b1 ++ c :: t)) by apply (at_app _ _ _ _ Hq2).
      step (skip_blank_blank bs q3 b1 _ Hq3 Hb1 (no_blank_head_delim c t Hdelim)).
      pose proof (at_app _ _ _ _ Hq3) as Hq4.
      assert (Hend' := Hend _ pos_acc (NamedArgument n0 v :: named_acc) (n0 :: names) Hq4).
      rewrite (bind_ok _ _ _ _ _ (skip_blank_none bs _ _ Hq4 (no_blank_head_delim c t Hdelim))) in Hend'.
      rewrite Hend'.
      destruct (IH [] ns' pos_acc (NamedArgument n0 v :: named_acc) (n0 :: names) rest
                   (length (if comma then 44%N :: b2 else []) + (length b1 + q3)) n Er eq_refl Hns' Hdup' ltac:(reflexivity))
        as (ps2 & E2 & Hrels).
      * match goal with |- at_ bs ?q _ =>
          replace q with (length (((n0 ++ c1 ++ 58%N :: c2 ++ inline_text v) ++ b1) ++ (if comma then 44%N :: b2 else [])) + p)
            by (unfold q3, q0; rewrite !app_length; cbn [length]; rewrite !app_length; lia) end.
        assert (H2 : at_ bs p ((((n0 ++ c1 ++ 58%N :: c2 ++ inline_text v) ++ b1) ++ (if comma then 44%N :: b2 else [])) ++ R ++ 41%N :: rest))
          by (repeat (rewrite <- app_assoc in H || cbn [app] in H); repeat (rewrite <- app_assoc || cbn [app]); exact H).
        apply (at_app _ _ _ _ H2).
      * rewrite app_length. cbn [length] in Hn |- *. lia.
      * inversion Hrels; subst. exists []. split; [|constructor].
        rewrite E2. cbn [rev app]. rewrite <- app_assoc. cbn [app]. f_equal. unfold q3, q0. rewrite !app_length. cbn [length]. rewrite !app_length. lia.
Qed.

(* ---- get_call_arguments ---- *)
Lemma gitems_layout_head ca R t : gargs_ok ca = true -> gitems_layout (items_of ca) R -> no_blank_head (R ++ 41%N :: t).
Proof.
  destruct ca as [pos named]. unfold gargs_ok. intros H HR. apply andb_prop in H as [H _]. apply andb_prop in H as [Hp Hn].
  pose proof (gitems_ok pos named Hp Hn) as Hok. cbn [items_of] in HR.
  change (map (fun a => match a with NamedArgument n v => ANamed n v end) named) with (map named_item named) in HR.
  destruct HR as [|x X b1 comma b2 r R' Hx _ _ _ _ _]; [reflexivity|]. rewrite <- !app_assoc.
  apply (gitem_head x X _ Hx). inversion Hok; assumption.
Qed.

Lemma gget_call_arguments_ok ca b A t p n :
  gargs_ok ca = true -> all_blank b -> gargs_layout ca A -> at_ bs p (b ++ A ++ t) -> 3 * length (b ++ A ++ t) + 8 <= n ->
  exists ca', get_call_arguments bs n p = Ok (Some ca') (length (b ++ A) + p) /\ arel ca' ca.
Proof.
  intros Hca Hb HA H Hn. destruct HA as [ca b0 R Hb0 HR]. destruct n as [|n]; [lia|]. cbn [get_call_arguments].
  assert (H' : at_ bs p (b ++ 40%N :: b0 ++ R ++ 41%N :: t)).
  { cbn [app] in H. rewrite <- !app_assoc in H. cbn [app] in H. exact H. }
  step (skip_blank_blank bs p b _ H' Hb ltac:(reflexivity)).
  pose proof (at_app _ _ _ _ H') as H1.
  step (take_byte_if_yes bs _ 40 _ H1). cbn [negb].
  pose proof (at_cons _ _ _ _ H1) as H2.
  step (skip_blank_blank bs _ b0 _ H2 Hb0 (gitems_layout_head ca R t Hca HR)).
  pose proof (at_app _ _ _ _ H2) as H3.
  destruct ca as [pos named]. unfold gargs_ok in Hca. apply andb_prop in Hca as [Hca Hdup]. apply andb_prop in Hca as [Hp Hnm].
  repeat (rewrite app_length in Hn || cbn [length] in Hn).
  destruct (gargs_loop_ok (items_of (CallArguments pos named)) R HR pos named [] [] [] t _ n eq_refl Hp Hnm Hdup ltac:(congruence) H3
              ltac:(repeat (rewrite app_length || cbn [length]); lia)) as (ps' & El & Hrels).
  exists (CallArguments ps' named). split; [|split; [exact Hrels | reflexivity]].
  step El. cbn [rev app].
  pose proof (at_app _ _ _ _ H3) as H4.
  step (expect_byte_yes bs _ 41 _ H4). unfold ret. f_equal.
  rewrite !app_length. cbn [length]. rewrite !app_length. cbn [length]. lia.
Qed.

(* ---------------------------------------------------------------------------------------------- *)
(* 2. Function references and term references with arguments                                        *)

Lemma gget_inline_function id ca b A t p n :
  wf_callee id = true -> gargs_ok ca = true -> all_blank b -> gargs_layout ca A ->
  at_ bs p (id ++ b ++ A ++ t) -> 3 * length (id ++ b ++ A ++ t) + 6 <= n ->
  exists ca', get_inline_expression bs n false p = Ok (FunctionReference id ca') (length (id ++ b ++ A) + p) /\ arel ca' ca.
Proof.
  intros Hid Hca Hb HA H Hn. destruct (wf_callee_identifier id Hid) as [Hwf Hcal].
  destruct n as [|n]; [lia|]. destruct id as [|b0 r]; [discriminate|].
  cbn [wf_identifier] in Hwf. apply andb_prop in Hwf as [Hb0 Hr]. rewrite is_alpha_eq in Hb0.
  cbn [get_inline_expression]. rewrite bind_current_byte.
  assert (H0 : at_ bs p (b0 :: r ++ b ++ A ++ t)) by exact H.
  rewrite (at_byte _ _ _ _ H0).
  replace (N.eqb b0 34) with false by (unfold is_ascii_alphabetic, in_rng in Hb0; lia).
  replace (is_ascii_digit b0) with false by (unfold is_ascii_digit, is_ascii_alphabetic, in_rng in *; lia).
  replace (N.eqb b0 45) with false by (unfold is_ascii_alphabetic, in_rng in Hb0; lia).
  replace (N.eqb b0 36) with false by (unfold is_ascii_alphabetic, in_rng in Hb0; lia).
  cbn [andb]. rewrite Hb0. cbn [andb negb]. rewrite bind_advance. change (1 + p) with (S p).
  assert (HA40 : exists A', A = 40%N :: A') by (destruct HA; eexists; reflexivity).
  destruct HA40 as [A' EA].
  destruct (blank_paren_head b (A' ++ t) Hb) as (Hh1 & Hh2 & Hh3).
  assert (H0' : at_ bs p ((b0 :: r) ++ b ++ 40%N :: A' ++ t)) by (rewrite EA in H0; exact H0).
  step (get_identifier_unchecked_ok bs p b0 r _ H0' (alpha_not_cont _ Hb0) Hr Hh1 Hh2).
  assert (H1 : at_ bs (length (b0 :: r) + p) (b ++ A ++ t)) by (apply (at_app bs p (b0 :: r) _ H)).
  destruct (gget_call_arguments_ok ca b A t _ n Hca Hb HA H1 ltac:(rewrite app_length in Hn; cbn [length] in Hn; lia)) as (ca' & Ec & Hrel).
  exists ca'. split; [|exact Hrel]. step Ec.
  rewrite Hcal. cbn [negb]. unfold ret. f_equal. repeat (rewrite app_length || cbn [length]). lia.
Qed.

(* "-" id, an optional attribute, and arguments *)
Lemma gget_inline_term_args id att ca b A t p n :
  wf_identifier id = true -> match att with Some a => wf_identifier a = true | None => True end ->
  gargs_ok ca = true -> all_blank b -> gargs_layout ca A ->
  at_ bs p (45%N :: id ++ match att with Some a => 46%N :: a | None => [] end ++ b ++ A ++ t) ->
  3 * length (45%N :: id ++ match att with Some a => 46%N :: a | None => [] end ++ b ++ A ++ t) + 6 <= n ->
  exists ca', get_inline_expression bs n false p =
    Ok (TermReference id att (Some ca')) (length (45%N :: id ++ match att with Some a => 46%N :: a | None => [] end ++ b ++ A) + p) /\
    arel ca' ca.
Proof.
  intros Hid Hatt Hca Hb HA H Hn. destruct n as [|n]; [lia|]. destruct id as [|b0 r]; [discriminate|].
  cbn [wf_identifier] in Hid. apply andb_prop in Hid as [Hb0 Hr]. rewrite is_alpha_eq in Hb0.
  cbn [get_inline_expression]. rewrite bind_current_byte. rewrite (at_byte _ _ _ _ H).
  change (N.eqb 45 34) with false. change (is_ascii_digit 45) with false. change (N.eqb 45 45 && negb false) with true. cbv iota.
  rewrite bind_advance. change (1 + p) with (S p).
  pose proof (at_cons _ _ _ _ H) as H0.
  step (is_identifier_start_at bs _ b0 _ H0). rewrite Hb0. rewrite bind_advance. change (1 + S p) with (S (S p)).
  assert (HA40 : exists A', A = 40%N :: A') by (destruct HA; eexists; reflexivity).
  destruct HA40 as [A' EA].
  destruct (blank_paren_head b (A' ++ t) Hb) as (Hh1 & Hh2 & Hh3).
  repeat (rewrite app_length in Hn || cbn [length] in Hn).
  destruct att as [a|].
  - assert (H0' : at_ bs (S p) ((b0 :: r) ++ 46%N :: a ++ b ++ A ++ t)) by exact H0.
    step (get_identifier_unchecked_ok bs (S p) b0 r _ H0' (alpha_not_cont _ Hb0) Hr eq_refl eq_refl).
    pose proof (at_app _ _ _ _ H0') as H1.
    unfold get_attribute_accessor. rewrite bind_assoc. step (take_byte_if_yes bs _ 46 _ H1).
    pose proof (at_cons _ _ _ _ H1) as H2.
    assert (H2' : at_ bs (S (length (b0 :: r) + S p)) (a ++ b ++ 40%N :: A' ++ t)) by (rewrite EA in H2; exact H2).
    rewrite bind_assoc. step (get_identifier_ok bs _ a _ H2' Hatt Hh1 Hh2). rewrite bind_ret.
    pose proof (at_app _ _ _ _ H2) as H3.
    destruct (gget_call_arguments_ok ca b A t _ n Hca Hb HA H3
                ltac:(repeat (rewrite app_length in Hn || cbn [length] in Hn); repeat (rewrite app_length || cbn [length]); lia)) as (ca' & Ec & Hrel).
    exists ca'. split; [|exact Hrel]. step Ec.
    unfold ret. f_equal. repeat (rewrite app_length || cbn [length]). lia.
  - assert (H0' : at_ bs (S p) ((b0 :: r) ++ b ++ 40%N :: A' ++ t)) by (rewrite EA in H0; exact H0).
    step (get_identifier_unchecked_ok bs (S p) b0 r _ H0' (alpha_not_cont _ Hb0) Hr Hh1 Hh2).
    pose proof (at_app _ _ _ _ H0') as H1.
    unfold get_attribute_accessor. rewrite bind_assoc. step (take_byte_if_no bs _ 46 _ H1 Hh3). rewrite bind_ret.
    assert (H1' : at_ bs (length (b0 :: r) + S p) (b ++ A ++ t)) by (rewrite EA; exact H1).
    destruct (gget_call_arguments_ok ca b A t _ n Hca Hb HA H1'
                ltac:(repeat (rewrite app_length in Hn || cbn [length] in Hn); repeat (rewrite app_length || cbn [length]); lia)) as (ca' & Ec & Hrel).
    exists ca'. split; [|exact Hrel]. step Ec.
    unfold ret. f_equal. cbn [app]. repeat (rewrite app_length || cbn [length]). lia.
Qed.

End Loop.

(* ---------------------------------------------------------------------------------------------- *)
(* 3. render, joined form, well-formedness                                                          *)

Hypothesis Harender : forall i cs, aok i = true -> exists X cs', render_inline i cs = (X, cs') /\ atext i X.

Lemma grender_pos_layout pos : forall cs, forallb aok pos = true ->
  exists xs cs', render_pos pos cs = (xs, cs') /\ Forall2 gitem_layout (map APos pos) xs.
Proof.
  induction pos as [|x r IH]; intros cs H; [exists [], cs; split; [reflexivity | constructor]|].
  cbn [forallb] in H. apply andb_prop in H as [Hx Hr]. cbn [render_pos map].
  destruct (Harender x cs Hx) as (X & cs1 & E1 & HX). rewrite (rbind_eq' _ _ _ _ _ E1).
  destruct (IH cs1 Hr) as (xs & cs2 & E2 & Hxs). rewrite (rbind_eq' _ _ _ _ _ E2).
  exists (X :: xs), cs2. split; [reflexivity | constructor; [constructor; exact HX | exact Hxs]].
Qed.

Lemma grender_named_layout named : forall cs, forallb named_ok named = true ->
  exists xs cs', render_named named cs = (xs, cs') /\ Forall2 gitem_layout (map named_item named) xs.
Proof.
  induction named as [|[n v] r IH]; intros cs H; [exists [], cs; split; [reflexivity | constructor]|].
  cbn [forallb] in H. apply andb_prop in H as [Ha Hr]. unfold named_ok in Ha. apply andb_prop in Ha as [_ Hv].
  cbn [render_named].
  destruct (blank_opt_spec' cs) as (b1 & cs1 & E1 & Hb1). rewrite (rbind_eq' _ _ _ _ _ E1).
  destruct (blank_opt_spec' cs1) as (b2 & cs2 & E2 & Hb2). rewrite (rbind_eq' _ _ _ _ _ E2).
  rewrite (rbind_eq' _ _ _ _ _ (render_inline_simple v cs2 Hv)).
  destruct (IH cs2 Hr) as (xs & cs3 & E3 & Hxs). rewrite (rbind_eq' _ _ _ _ _ E3).
  eexists. exists cs3. split; [reflexivity|]. cbn [map named_item]. constructor; [|exact Hxs].
  unfold cat. cbn [concat app]. rewrite app_nil_r.
  apply gitl_named; assumption.
Qed.

Lemma grender_sep_layout items xs : Forall2 gitem_layout items xs -> items <> [] -> forall cs b9, all_blank b9 ->
  exists body cs', render_sep xs cs = (body, cs') /\ gitems_layout items (body ++ b9).
Proof.
  induction 1 as [|x X r Xs Hx Hr IH]; intros Hne cs b9 Hb9; [congruence|].
  destruct Hr as [|y Y r' Xs' Hy Hr'].
  - cbn [render_sep]. unfold rbind at 1. destruct (choose 2 cs) as [t0 cs1].
    destruct (blank_opt_spec' cs1) as (b & cs2 & E2 & Hb). rewrite (rbind_eq' _ _ _ _ _ E2).
    eexists. exists cs2. split; [reflexivity|]. unfold rret. destruct (Nat.eqb t0 1).
    + replace ((X ++ b ++ [44%N]) ++ b9) with (X ++ b ++ (if true then 44%N :: b9 else []) ++ [])
        by (rewrite <- !app_assoc, app_nil_r; reflexivity).
      apply (gil_cons x X b true b9 [] []); try assumption; try reflexivity; [discriminate | constructor].
    + replace ((X ++ []) ++ b9) with (X ++ b9 ++ (if false then 44%N :: [] else []) ++ [])
        by (rewrite !app_nil_r; reflexivity).
      apply (gil_cons x X b9 false [] [] []); try assumption; try reflexivity; [intros H; congruence | constructor].
  - change (render_sep (X :: Y :: Xs') cs) with
      ((b1 <~ blank_opt ;; b2 <~ blank_opt ;; rest <~ render_sep (Y :: Xs') ;; rret (cat [X; b1; [44%N]; b2; rest])) cs).
    destruct (blank_opt_spec' cs) as (b1 & cs1 & E1 & Hb1). rewrite (rbind_eq' _ _ _ _ _ E1).
    destruct (blank_opt_spec' cs1) as (b2 & cs2 & E2 & Hb2). rewrite (rbind_eq' _ _ _ _ _ E2).
    destruct (IH ltac:(discriminate) cs2 b9 Hb9) as (rest & cs3 & E3 & HR). rewrite (rbind_eq' _ _ _ _ _ E3).
    eexists. exists cs3. split; [reflexivity|]. unfold rret, cat. cbn [concat]. rewrite app_nil_r.
    replace ((X ++ b1 ++ [44%N] ++ b2 ++ rest) ++ b9) with (X ++ b1 ++ (if true then 44%N :: b2 else []) ++ rest ++ b9)
      by (rewrite <- !app_assoc; reflexivity).
    apply (gil_cons x X b1 true b2 (y :: r') (rest ++ b9)); try assumption; try reflexivity. discriminate.
Qed.

Lemma grender_args_layout ca cs : gargs_ok ca = true ->
  exists A cs', render_args ca cs = (A, cs') /\ gargs_layout ca A.
Proof.
  destruct ca as [pos named]. unfold gargs_ok. intros H. apply andb_prop in H as [H _]. apply andb_prop in H as [Hp Hn].
  rewrite render_args_eq.
  destruct (blank_opt_spec' cs) as (b0 & cs1 & E1 & Hb0). rewrite (rbind_eq' _ _ _ _ _ E1).
  destruct (grender_pos_layout pos cs1 Hp) as (ps & cs1' & E1' & Hps). rewrite (rbind_eq' _ _ _ _ _ E1').
  destruct (grender_named_layout named cs1' Hn) as (ns & cs2 & E2 & Hns). rewrite (rbind_eq' _ _ _ _ _ E2).
  assert (Hitems : Forall2 gitem_layout (items_of (CallArguments pos named)) (ps ++ ns)).
  { cbn [items_of]. change (map (fun a => match a with NamedArgument n v => ANamed n v end) named) with (map named_item named).
    apply Forall2_app; assumption. }
  destruct (items_of (CallArguments pos named)) as [|x0 r0] eqn:Eit.
  - (* no argument *)
    assert (Exs : ps ++ ns = []) by (inversion Hitems; reflexivity). rewrite Exs. cbn [render_sep]. rewrite rbind_rret.
    destruct (blank_opt_spec' cs2) as (b9 & cs3 & E3 & Hb9). rewrite (rbind_eq' _ _ _ _ _ E3).
    eexists. exists cs3. split; [reflexivity|]. unfold rret, cat. cbn [concat app]. rewrite ?app_nil_r.
    replace (40%N :: b0 ++ b9 ++ [41%N]) with (40%N :: (b0 ++ b9) ++ [] ++ [41%N]) by (rewrite <- app_assoc; reflexivity).
    apply gargl; [apply all_blank_app; assumption | rewrite Eit; constructor].
  - (* some arguments; the blank in front of ")" belongs to the last one *)
    rewrite <- Eit in Hitems.
    assert (Hsep : exists body cs3 b9 cs4, render_sep (ps ++ ns) cs2 = (body, cs3) /\ blank_opt cs3 = (b9, cs4) /\
                                           all_blank b9 /\ gitems_layout (items_of (CallArguments pos named)) (body ++ b9)).
    { destruct (grender_sep_layout _ _ Hitems ltac:(rewrite Eit; discriminate) cs2 [] ltac:(reflexivity)) as (body & cs3 & E3 & _).
      destruct (blank_opt_spec' cs3) as (b9 & cs4 & E4 & Hb9).
      destruct (grender_sep_layout _ _ Hitems ltac:(rewrite Eit; discriminate) cs2 b9 Hb9) as (body' & cs3' & E3' & HR).
      rewrite E3 in E3'. injection E3' as <- <-. exists body, cs3, b9, cs4. auto. }
    destruct Hsep as (body & cs3 & b9 & cs4 & E3 & E4 & Hb9 & HR).
    rewrite (rbind_eq' _ _ _ _ _ E3), (rbind_eq' _ _ _ _ _ E4).
    eexists. exists cs4. split; [reflexivity|]. unfold rret, cat. cbn [concat app]. rewrite ?app_nil_r.
    replace (40%N :: b0 ++ body ++ b9 ++ [41%N]) with (40%N :: b0 ++ (body ++ b9) ++ [41%N]) by (rewrite <- app_assoc; reflexivity).
    apply gargl; assumption.
Qed.

(* ---- joined form ---- *)
Hypothesis Hajoin : forall i, aok i = true -> join_inline i = i.

Lemma join_args_eq' pos named :
  join_args (CallArguments pos named) = CallArguments (map join_inline pos) (map join_named named).
Proof. reflexivity. Qed.

Lemma join_named_ok named : forallb named_ok named = true -> map join_named named = named.
Proof.
  induction named as [|[n v] r IH]; intros Hn; [reflexivity|]. cbn [forallb] in Hn. apply andb_prop in Hn as [Ha Hr].
  unfold named_ok in Ha. apply andb_prop in Ha as [_ Hv]. cbn [map join_named].
  rewrite (RoundTrip.simple_inline_join v Hv), (IH Hr). reflexivity.
Qed.

Lemma gjoin_args_ok ca : gargs_ok ca = true -> join_args ca = ca.
Proof.
  destruct ca as [pos named]. unfold gargs_ok. intros H. apply andb_prop in H as [H _]. apply andb_prop in H as [Hp Hn].
  rewrite join_args_eq', (join_named_ok named Hn). f_equal.
  induction pos as [|x r IH]; [reflexivity|]. cbn [forallb] in Hp. apply andb_prop in Hp as [Hx Hr].
  cbn [map]. rewrite (Hajoin x Hx), (IH Hr). reflexivity.
Qed.

Lemma arel_join ca' ca : gargs_ok ca = true -> arel ca' ca -> join_args ca' = ca.
Proof.
  destruct ca' as [ps' ns'], ca as [ps ns]. intros Hca [Hrel ->].
  transitivity (join_args (CallArguments ps ns)); [|apply (gjoin_args_ok _ Hca)].
  rewrite !join_args_eq'. f_equal.
  clear Hca. induction Hrel as [|i' i l' l [Hj _] _ IH]; [reflexivity|]. cbn [map]. rewrite Hj, IH. reflexivity.
Qed.

Definition good_args (ca : call_args) : Prop := match ca with CallArguments ps _ => Forall agood ps end.
Definition good_inl (i : inline) : Prop :=
  match i with
  | FunctionReference _ ca => good_args ca
  | TermReference _ _ (Some ca) => good_args ca
  | _ => True
  end.

Lemma arel_good ca' ca : arel ca' ca -> good_args ca'.
Proof.
  destruct ca' as [ps' ns'], ca as [ps ns]. intros [Hrel _]. cbn [good_args].
  induction Hrel as [|i' i l' l [_ Hg] _ IH]; constructor; assumption.
Qed.

(* ---- well-formedness ---- *)
Hypothesis Hawf : forall i, aok i = true -> wf_inline i = true /\ lines_ok_inline i = true.

Lemma gwf_args_ok ca : gargs_ok ca = true ->
  wf_args ca = true /\
  match ca with CallArguments pos _ =>
    (fix go (l : list inline) : bool := match l with [] => true | x :: r => lines_ok_inline x && go r end) pos = true end.
Proof.
  destruct ca as [pos named]. unfold gargs_ok. intros H. apply andb_prop in H as [H Hdup]. apply andb_prop in H as [Hp Hn].
  cbn [wf_args]. rewrite go_wf_pos, go_wf_named, go_lines_pos, Hdup, andb_true_r. rewrite forallb_forall in Hp, Hn.
  split; [apply andb_true_intro; split|]; apply forallb_forall.
  - intros x Hx. apply (Hawf x (Hp x Hx)).
  - intros [n v] Ha. specialize (Hn _ Ha). unfold named_ok in Hn. apply andb_prop in Hn as [Hn Hv]. apply andb_prop in Hn as [Hid Hlit].
    rewrite Hid, Hlit, (proj1 (simple_wf_inline v Hv)). reflexivity.
  - intros x Hx. apply (Hawf x (Hp x Hx)).
Qed.

(* ---------------------------------------------------------------------------------------------- *)
(* 4. The inline expressions of a placeable and of a selector                                        *)

Definition binl (i : inline) : bool :=
  match i with
  | FunctionReference id ca => wf_callee id && gargs_ok ca
  | TermReference id None (Some ca) => wf_identifier id && gargs_ok ca
  | _ => simple_inline i
  end.

Inductive gitext : inline -> bytes -> Prop :=
| gitx_simple i : simple_inline i = true -> gitext i (inline_text i)
| gitx_fun id ca b A : all_blank b -> gargs_layout ca A -> gitext (FunctionReference id ca) (id ++ b ++ A)
| gitx_term id ca b A : all_blank b -> gargs_layout ca A -> gitext (TermReference id None (Some ca)) (45%N :: id ++ b ++ A).

Lemma simple_binl i : simple_inline i = true -> binl i = true.
Proof. destruct i as [s | v | id args | id att | id [a|] [args|] | id | e]; try discriminate; exact (fun H => H). Qed.

Lemma binl_cases i : binl i = true ->
  simple_inline i = true \/
  (exists id ca, i = FunctionReference id ca /\ wf_callee id = true /\ gargs_ok ca = true) \/
  (exists id ca, i = TermReference id None (Some ca) /\ wf_identifier id = true /\ gargs_ok ca = true).
Proof.
  destruct i as [s | v | id ca | id att | id [a|] [ca|] | id | e]; cbn [binl]; intros H; try (left; exact H); try discriminate H.
  - apply andb_prop in H as [H1 H2]. right; left. eauto.
  - apply andb_prop in H as [H1 H2]. right; right. eauto.
Qed.

Lemma grender_binl i cs : binl i = true -> exists X cs', render_inline i cs = (X, cs') /\ gitext i X.
Proof.
  intros Hi. destruct (binl_cases i Hi) as [Hs | [(id & ca & -> & Hid & Hca) | (id & ca & -> & Hid & Hca)]].
  - exists (inline_text i), cs. split; [apply (render_inline_simple i cs Hs) | constructor; exact Hs].
  - cbn [render_inline].
    destruct (blank_opt_spec' cs) as (b & cs1 & E1 & Hb). rewrite (rbind_eq' _ _ _ _ _ E1).
    destruct (grender_args_layout ca cs1 Hca) as (A & cs2 & E2 & HA). rewrite (rbind_eq' _ _ _ _ _ E2).
    eexists. exists cs2. split; [reflexivity | constructor; assumption].
  - cbn [render_inline].
    destruct (blank_opt_spec' cs) as (b & cs1 & E1 & Hb).
    destruct (grender_args_layout ca cs1 Hca) as (A & cs2 & E2 & HA).
    assert (Ea : (b0 <~ blank_opt ;; s <~ render_args ca ;; rret (b0 ++ s)) cs = (b ++ A, cs2))
      by (rewrite (rbind_eq' _ _ _ _ _ E1), (rbind_eq' _ _ _ _ _ E2); reflexivity).
    rewrite (rbind_eq' _ _ _ _ _ Ea).
    eexists. exists cs2. split; [reflexivity|]. cbn [app]. apply (gitx_term id ca b A Hb HA).
Qed.

Lemma gjoin_binl i : binl i = true -> join_inline i = i.
Proof.
  intros Hi. destruct (binl_cases i Hi) as [Hs | [(id & ca & -> & Hid & Hca) | (id & ca & -> & Hid & Hca)]].
  - apply (RoundTrip.simple_inline_join i Hs).
  - cbn [join_inline]. rewrite (gjoin_args_ok ca Hca). reflexivity.
  - cbn [join_inline]. rewrite (gjoin_args_ok ca Hca). reflexivity.
Qed.

Lemma gwf_binl i : binl i = true -> wf_expr (Inline i) = true /\ lines_ok_inline i = true.
Proof.
  intros Hi. destruct (binl_cases i Hi) as [Hs | [(id & ca & -> & Hid & Hca) | (id & ca & -> & Hid & Hca)]].
  - apply (RoundTrip.simple_inline_wf i Hs).
  - destruct (gwf_args_ok ca Hca) as [W1 W2]. cbn [wf_expr wf_inline lines_ok_inline]. rewrite Hid, W1. destruct ca. split; [reflexivity | exact W2].
  - destruct (gwf_args_ok ca Hca) as [W1 W2]. cbn [wf_expr wf_inline lines_ok_inline]. rewrite Hid, W1. destruct ca. split; [reflexivity | exact W2].
Qed.

Lemma gitext_head i X t : binl i = true -> gitext i X -> no_blank_head (X ++ t).
Proof.
  intros Hi HX. revert Hi. destruct HX as [i0 Hs | id ca b A Hb HA | id ca b A Hb HA]; intros Hi.
  - apply (inline_text_head i0 t Hs).
  - cbn [binl] in Hi. apply andb_prop in Hi as [Hid _]. destruct (wf_callee_identifier id Hid) as [Hwf _].
    destruct (wf_identifier_head id Hwf) as (b0 & r & -> & Hb0). cbn [app].
    apply no_blank_head_byte; unfold is_ascii_alphabetic, in_rng in Hb0; lia.
  - reflexivity.
Qed.

(* ---- selectors ---- *)
Definition bsl (i : inline) : bool :=
  match i with
  | StringLiteral _ | NumberLiteral _ | VariableReference _ => simple_inline i
  | FunctionReference id ca => wf_callee id && gargs_ok ca
  | TermReference id (Some a) args =>
      wf_identifier id && wf_identifier a && match args with Some ca => gargs_ok ca | None => true end
  | _ => false
  end.

Inductive gseltext : inline -> bytes -> Prop :=
| gstx_simple i : simple_inline i = true -> gseltext i (inline_text i)
| gstx_fun id ca b A : all_blank b -> gargs_layout ca A -> gseltext (FunctionReference id ca) (id ++ b ++ A)
| gstx_term id a : gseltext (TermReference id (Some a) None) (45%N :: id ++ 46%N :: a)
| gstx_term_args id a ca b A : all_blank b -> gargs_layout ca A ->
    gseltext (TermReference id (Some a) (Some ca)) (45%N :: id ++ 46%N :: a ++ b ++ A).

Lemma bsl_cases i : bsl i = true ->
  ((exists s, i = StringLiteral s) \/ (exists v, i = NumberLiteral v) \/ (exists id, i = VariableReference id)) /\ simple_inline i = true \/
  (exists id ca, i = FunctionReference id ca /\ wf_callee id = true /\ gargs_ok ca = true) \/
  (exists id a, i = TermReference id (Some a) None /\ wf_identifier id = true /\ wf_identifier a = true) \/
  (exists id a ca, i = TermReference id (Some a) (Some ca) /\ wf_identifier id = true /\ wf_identifier a = true /\ gargs_ok ca = true).
Proof.
  destruct i as [s | v | id ca | id att | id [a|] [ca|] | id | e]; cbn [bsl]; intros H; try discriminate H.
  - left. split; [left; eauto | exact H].
  - left. split; [right; left; eauto | exact H].
  - apply andb_prop in H as [H1 H2]. right; left. eauto.
  - apply andb_prop in H as [H H3]. apply andb_prop in H as [H1 H2]. right; right; right. eauto 8.
  - apply andb_prop in H as [H _]. apply andb_prop in H as [H1 H2]. right; right; left. eauto.
  - left. split; [right; right; eauto | exact H].
Qed.

Lemma gseltext_ends_id sel X : bsl sel = true -> gseltext sel X -> sel_eats sel = true -> ends_with_id_char X = true.
Proof.
  intros Hsel HX. revert Hsel. destruct HX as [i Hi | id ca b A _ _ | id a | id a ca b A _ _]; intros Hsel He; try discriminate He.
  - destruct i as [s | v | id args | id att | id [a|] [ca|] | id | e]; try discriminate He; try discriminate Hi; discriminate Hsel.
  - cbn [bsl] in Hsel. apply andb_prop in Hsel as [Hsel _]. apply andb_prop in Hsel as [_ Ha].
    destruct (identifier_ends_id a Ha) as [Hne Hall].
    replace (45%N :: id ++ 46%N :: a) with ((45%N :: id ++ [46%N]) ++ a) by (cbn [app]; rewrite <- app_assoc; reflexivity).
    rewrite (ends_with_id_char_app' _ a Hne). apply (ends_with_id_char_all' a Hne Hall).
Qed.

Lemma grender_bsl sel cs : bsl sel = true -> exists X cs', render_inline sel cs = (X, cs') /\ gseltext sel X.
Proof.
  intros Hs. destruct (bsl_cases sel Hs) as [[_ Hsi] | [(id & ca & -> & Hid & Hca) | [(id & a & -> & Hid & Ha) | (id & a & ca & -> & Hid & Ha & Hca)]]].
  - exists (inline_text sel), cs. split; [apply (render_inline_simple sel cs Hsi) | constructor; exact Hsi].
  - cbn [render_inline].
    destruct (blank_opt_spec' cs) as (b & cs1 & E1 & Hb). rewrite (rbind_eq' _ _ _ _ _ E1).
    destruct (grender_args_layout ca cs1 Hca) as (A & cs2 & E2 & HA). rewrite (rbind_eq' _ _ _ _ _ E2).
    eexists. exists cs2. split; [reflexivity | constructor; assumption].
  - cbn [render_inline]. rewrite rbind_rret. eexists. exists cs. split; [reflexivity|]. rewrite app_nil_r. constructor.
  - cbn [render_inline].
    destruct (blank_opt_spec' cs) as (b & cs1 & E1 & Hb).
    destruct (grender_args_layout ca cs1 Hca) as (A & cs2 & E2 & HA).
    assert (Ea : (b0 <~ blank_opt ;; s <~ render_args ca ;; rret (b0 ++ s)) cs = (b ++ A, cs2))
      by (rewrite (rbind_eq' _ _ _ _ _ E1), (rbind_eq' _ _ _ _ _ E2); reflexivity).
    rewrite (rbind_eq' _ _ _ _ _ Ea).
    eexists. exists cs2. split; [reflexivity|]. apply (gstx_term_args id a ca b A Hb HA).
Qed.

Lemma gjoin_bsl sel : bsl sel = true -> join_inline sel = sel.
Proof.
  intros Hs. destruct (bsl_cases sel Hs) as [[_ Hsi] | [(id & ca & -> & Hid & Hca) | [(id & a & -> & Hid & Ha) | (id & a & ca & -> & Hid & Ha & Hca)]]].
  - apply (RoundTrip.simple_inline_join sel Hsi).
  - cbn [join_inline]. rewrite (gjoin_args_ok ca Hca). reflexivity.
  - reflexivity.
  - cbn [join_inline]. rewrite (gjoin_args_ok ca Hca). reflexivity.
Qed.

Lemma gwf_bsl sel : bsl sel = true ->
  wf_inline sel = true /\ lines_ok_inline sel = true /\
  match sel with
  | StringLiteral _ | NumberLiteral _ | VariableReference _ | FunctionReference _ _ => true
  | TermReference _ (Some _) _ => true
  | _ => false
  end = true.
Proof.
  intros Hs. destruct (bsl_cases sel Hs) as [[Hk Hsi] | [(id & ca & -> & Hid & Hca) | [(id & a & -> & Hid & Ha) | (id & a & ca & -> & Hid & Ha & Hca)]]].
  - destruct (simple_wf_inline sel Hsi) as [W1 W2]. split; [exact W1 | split; [exact W2|]].
    destruct Hk as [[s ->] | [[v ->] | [id ->]]]; reflexivity.
  - destruct (gwf_args_ok ca Hca) as [W1 W2]. cbn [wf_inline lines_ok_inline]. rewrite Hid, W1. destruct ca. auto.
  - cbn [wf_inline lines_ok_inline]. rewrite Hid, Ha. auto.
  - destruct (gwf_args_ok ca Hca) as [W1 W2]. cbn [wf_inline lines_ok_inline]. rewrite Hid, Ha, W1. destruct ca. auto.
Qed.

Lemma gseltext_head sel X t : bsl sel = true -> gseltext sel X -> no_blank_head (X ++ t) /\ 1 <= length X.
Proof.
  intros Hs HX. revert Hs. destruct HX as [i Hi | id ca b A _ _ | id a | id a ca b A _ _]; intros Hs.
  - split; [apply (inline_text_head i t Hi) | apply (inline_text_len i Hi)].
  - cbn [bsl] in Hs. apply andb_prop in Hs as [Hid _]. destruct (wf_callee_identifier id Hid) as [Hwf _].
    destruct (wf_identifier_head id Hwf) as (b0 & r & -> & Hb0). cbn [app length]. split; [|lia].
    apply no_blank_head_byte; unfold is_ascii_alphabetic, in_rng in Hb0; lia.
  - split; [reflexivity | cbn [length]; lia].
  - split; [reflexivity | cbn [length]; lia].
Qed.

End GArgs.

(* Syntax/SerializerCalls.v — the serializer on CALL ARGUMENTS (CallArgs.v fragment): the canonical text of
   a function reference / a term reference with arguments / a term attribute, the proof that
   serialize_inline_expression writes it, and that it is one of the layouts CallArgs.v parses back.

   canonical text of the arguments:  "(" item ", " item ... ")"   with   named item = name ": " value      *)
From FluentV Require Import Base.Bytes Base.Outcome Base.Utf8 Base.Utf8Facts.
From FluentV Require Import Syntax.Ast Syntax.ParserModel Syntax.SerializerModel Syntax.Render Syntax.TreeNorm.
From FluentV Require Import Syntax.ParseLemmas Syntax.SerializerProofs Syntax.RoundTrip Syntax.SerializerRoundTrip.
From FluentV Require Import Syntax.CallArgs.
From Coq Require Import Lia.

Arguments N.eqb : simpl never.

(* ---------------------------------------------------------------------------------------------- *)
(* 1. The canonical text                                                                            *)

Definition item_ctext (x : arg_item) : bytes :=
  match x with
  | APos i => inline_text i
  | ANamed n v => n ++ [58; 32]%N ++ inline_text v
  end.

(* the items, each one preceded by ", " except the first one when nothing was written before *)
Fixpoint sep_items (written : bool) (l : list arg_item) : bytes :=
  match l with
  | [] => []
  | x :: r => (if written then [44; 32]%N else []) ++ item_ctext x ++ sep_items true r
  end.

Definition args_ctext (ca : call_args) : bytes := 40%N :: sep_items false (items_of ca) ++ [41%N].

Definition ctext (i : inline) : bytes :=
  match i with
  | FunctionReference id ca => id ++ args_ctext ca
  | TermReference id att args =>
      45%N :: id ++ (match att with Some a => 46%N :: a | None => [] end) ++
      (match args with Some ca => args_ctext ca | None => [] end)
  | _ => inline_text i
  end.

Lemma ctext_simple i : simple_inline i = true -> ctext i = inline_text i.
Proof.
  destruct i as [s | v | id args | id att | id [a|] [args|] | id | e]; cbn [simple_inline]; intros H; try discriminate H;
    try reflexivity.
  cbn [ctext inline_text]. rewrite !app_nil_r. reflexivity.
Qed.

Definition flag {A} (written : bool) (l : list A) : bool := match l with [] => written | _ => true end.

Lemma sep_items_app w a b : sep_items w (a ++ b) = sep_items w a ++ sep_items (flag w a) b.
Proof.
  revert w. induction a as [|x r IH]; intros w; [reflexivity|].
  cbn [app sep_items flag]. rewrite (IH true). rewrite <- !app_assoc. destruct r; reflexivity.
Qed.

(* ---------------------------------------------------------------------------------------------- *)
(* 2. The canonical text is a layout                                                                *)

Lemma item_ctext_layout x : item_layout x (item_ctext x).
Proof.
  destruct x as [i | n v]; [constructor|].
  exact (itl_named n v [] (sp 1) (eq_refl : all_blank []) (all_blank_sp 1)).
Qed.

Lemma sep_items_layout l : items_layout l (sep_items false l).
Proof.
  induction l as [|x r IH]; [constructor|].
  cbn [sep_items app]. destruct r as [|y r'].
  - cbn [sep_items].
    pose proof (il_cons x (item_ctext x) [] false [] [] [] (item_ctext_layout x) (eq_refl : all_blank []) (eq_refl : all_blank [])) as H.
    cbn [app] in H. apply H; [intros E; congruence | reflexivity | constructor].
  - pose proof (il_cons x (item_ctext x) [] true (sp 1) (y :: r') (sep_items false (y :: r')) (item_ctext_layout x)
                        (eq_refl : all_blank []) (all_blank_sp 1)) as H.
    cbn [app sp repeat] in H. cbn [sep_items app] in *. apply H; [reflexivity | discriminate | exact IH].
Qed.

Lemma args_ctext_layout ca : args_layout ca (args_ctext ca).
Proof. exact (argl ca [] (sep_items false (items_of ca)) (eq_refl : all_blank []) (sep_items_layout (items_of ca))). Qed.

Lemma itext_ctext i : binline i = true -> itext i (ctext i).
Proof.
  intros Hi. destruct (binline_cases i Hi) as [Hs | [(id & ca & -> & Hid & Hca) | (id & ca & -> & Hid & Hca)]].
  - rewrite (ctext_simple i Hs). constructor. exact Hs.
  - exact (itx_fun id ca [] (args_ctext ca) (eq_refl : all_blank []) (args_ctext_layout ca)).
  - exact (itx_term id ca [] (args_ctext ca) (eq_refl : all_blank []) (args_ctext_layout ca)).
Qed.

Lemma seltext_ctext i : bsel i = true -> seltext i (ctext i).
Proof.
  intros Hi.
  destruct (bsel_cases i Hi) as [[_ Hs] | [(id & ca & -> & Hid & Hca) | [(id & a & -> & Hid & Ha) | (id & a & ca & -> & Hid & Ha & Hca)]]].
  - rewrite (ctext_simple i Hs). constructor. exact Hs.
  - exact (stx_fun id ca [] (args_ctext ca) (eq_refl : all_blank []) (args_ctext_layout ca)).
  - cbn [ctext]. rewrite app_nil_r. constructor.
  - exact (stx_term_args id a ca [] (args_ctext ca) (eq_refl : all_blank []) (args_ctext_layout ca)).
Qed.

(* ---------------------------------------------------------------------------------------------- *)
(* 3. The serializer writes it                                                                      *)

Fixpoint ser_pos (l : list inline) (written : bool) (x : writer) : outcome (writer * bool) :=
  match l with
  | [] => Done (x, written)
  | e :: r => let* x1 := (sep_if written >> serialize_inline_expression e) x in ser_pos r true x1
  end.
Fixpoint ser_named (l : list named_arg) (written : bool) (x : writer) : outcome (writer * bool) :=
  match l with
  | [] => Done (x, written)
  | n :: r => let* x1 := (sep_if written >> serialize_named n) x in ser_named r true x1
  end.

Lemma serialize_call_arguments_eq pos named :
  serialize_call_arguments (CallArguments pos named) =
  (lit "(" >>
   (fun x => let* r1 := ser_pos pos false x in
             let* r2 := ser_named named (snd r1) (fst r1) in
             Done (fst r2)) >>
   lit ")").
Proof. reflexivity. Qed.

Lemma writes_sep_if written : writes (sep_if written) (if written then [44; 32]%N else []).
Proof. destruct written; [apply (writes_lit ", "); reflexivity | apply writes_skip]. Qed.

Lemma ser_pos_ok l : forall written x, forallb simple_inline l = true -> ends_with 10 x = false ->
  ser_pos l written x = Done (Writer (rev (sep_items written (map APos l)) ++ rbuf x) (indent_level x), flag written l) /\
  ends_with 10 (Writer (rev (sep_items written (map APos l)) ++ rbuf x) (indent_level x)) = false.
Proof.
  induction l as [|e r IH]; intros written x Hl H10.
  - cbn [ser_pos map sep_items rev app flag]. destruct x; split; [reflexivity | exact H10].
  - cbn [forallb] in Hl. apply andb_prop in Hl as [He Hr].
    cbn [ser_pos map sep_items flag].
    destruct (writes_seq _ _ _ _ (writes_sep_if written) (writes_simple_inline e He) x H10) as [E1 H1].
    rewrite E1. cbn [obind].
    destruct (IH true _ Hr H1) as [E2 H2]. cbn [rbuf indent_level] in E2, H2.
    assert (Eb : rev (sep_items true (map APos r)) ++ rev ((if written then [44; 32]%N else []) ++ inline_text e) ++ rbuf x =
                 rev ((if written then [44; 32]%N else []) ++ item_ctext (APos e) ++ sep_items true (map APos r)) ++ rbuf x).
    { cbn [item_ctext]. rewrite !rev_app_distr, <- !app_assoc. reflexivity. }
    unfold bytes in *. rewrite Eb in *. replace (flag true r) with true in E2 by (destruct r; reflexivity).
    split; [exact E2 | exact H2].
Qed.

Lemma writes_named a : named_ok a = true -> writes (serialize_named a) (item_ctext (named_item a)).
Proof.
  destruct a as [n v]. unfold named_ok. intros H. apply andb_prop in H as [H Hv]. apply andb_prop in H as [Hn _].
  cbn [serialize_named named_item item_ctext].
  apply writes_seq; [apply writes_literal, wf_identifier_lf_free, Hn|].
  apply writes_seq; [apply (writes_lit ": "); reflexivity | apply (writes_simple_inline v Hv)].
Qed.

Lemma ser_named_ok l : forall written x, forallb named_ok l = true -> ends_with 10 x = false ->
  ser_named l written x = Done (Writer (rev (sep_items written (map named_item l)) ++ rbuf x) (indent_level x), flag written l) /\
  ends_with 10 (Writer (rev (sep_items written (map named_item l)) ++ rbuf x) (indent_level x)) = false.
Proof.
  induction l as [|e r IH]; intros written x Hl H10.
  - cbn [ser_named map sep_items rev app flag]. destruct x; split; [reflexivity | exact H10].
  - cbn [forallb] in Hl. apply andb_prop in Hl as [He Hr].
    cbn [ser_named map sep_items flag].
    destruct (writes_seq _ _ _ _ (writes_sep_if written) (writes_named e He) x H10) as [E1 H1].
    rewrite E1. cbn [obind].
    destruct (IH true _ Hr H1) as [E2 H2]. cbn [rbuf indent_level] in E2, H2.
    assert (Eb : rev (sep_items true (map named_item r)) ++ rev ((if written then [44; 32]%N else []) ++ item_ctext (named_item e)) ++ rbuf x =
                 rev ((if written then [44; 32]%N else []) ++ item_ctext (named_item e) ++ sep_items true (map named_item r)) ++ rbuf x).
    { rewrite !rev_app_distr, <- !app_assoc. reflexivity. }
    unfold bytes in *. rewrite Eb in *. replace (flag true r) with true in E2 by (destruct r; reflexivity).
    split; [exact E2 | exact H2].
Qed.

Lemma flag_map {A B} (f : A -> B) w l : flag w (map f l) = flag w l.
Proof. destruct l; reflexivity. Qed.

Lemma writes_call_arguments ca : args_ok ca = true -> writes (serialize_call_arguments ca) (args_ctext ca).
Proof.
  destruct ca as [pos named]. unfold args_ok. intros H. apply andb_prop in H as [H _]. apply andb_prop in H as [Hp Hn].
  rewrite serialize_call_arguments_eq. unfold args_ctext.
  change (40%N :: sep_items false (items_of (CallArguments pos named)) ++ [41%N])
    with ([40%N] ++ sep_items false (items_of (CallArguments pos named)) ++ [41%N]).
  apply writes_seq; [apply (writes_lit "("); reflexivity|].
  apply writes_seq; [|apply (writes_lit ")"); reflexivity].
  intros x H10.
  destruct (ser_pos_ok pos false x Hp H10) as [E1 H1]. rewrite E1. cbn [obind fst snd].
  destruct (ser_named_ok named (flag false pos) _ Hn H1) as [E2 H2]. rewrite E2. cbn [obind fst snd rbuf indent_level] in *.
  assert (Eb : rev (sep_items (flag false pos) (map named_item named)) ++ rev (sep_items false (map APos pos)) ++ rbuf x =
               rev (sep_items false (items_of (CallArguments pos named))) ++ rbuf x).
  { cbn [items_of]. change (fun a : named_arg => match a with NamedArgument n v => ANamed n v end) with named_item.
    rewrite sep_items_app, flag_map, rev_app_distr, <- app_assoc. reflexivity. }
  unfold bytes in *. rewrite Eb in *. split; [reflexivity | exact H2].
Qed.

Lemma wf_callee_lf_free id : wf_callee id = true -> lf_free id.
Proof. intros H. apply wf_identifier_lf_free, (proj1 (wf_callee_identifier id H)). Qed.

Lemma writes_binline i : binline i = true -> writes (serialize_inline_expression i) (ctext i).
Proof.
  intros Hi. destruct (binline_cases i Hi) as [Hs | [(id & ca & -> & Hid & Hca) | (id & ca & -> & Hid & Hca)]].
  - rewrite (ctext_simple i Hs). apply (writes_simple_inline i Hs).
  - cbn [serialize_inline_expression ctext].
    apply writes_seq; [apply writes_literal, wf_callee_lf_free, Hid | apply (writes_call_arguments ca Hca)].
  - cbn [serialize_inline_expression ctext].
    change (45%N :: id ++ [] ++ args_ctext ca) with ([45%N] ++ id ++ [] ++ args_ctext ca).
    apply writes_seq; [apply (writes_lit "-"); reflexivity|].
    apply writes_seq; [apply writes_literal, wf_identifier_lf_free, Hid|].
    apply writes_seq; [apply writes_skip | apply (writes_call_arguments ca Hca)].
Qed.

Lemma writes_bsel i : bsel i = true -> writes (serialize_inline_expression i) (ctext i).
Proof.
  intros Hi.
  destruct (bsel_cases i Hi) as [[_ Hs] | [(id & ca & -> & Hid & Hca) | [(id & a & -> & Hid & Ha) | (id & a & ca & -> & Hid & Ha & Hca)]]].
  - rewrite (ctext_simple i Hs). apply (writes_simple_inline i Hs).
  - cbn [serialize_inline_expression ctext].
    apply writes_seq; [apply writes_literal, wf_callee_lf_free, Hid | apply (writes_call_arguments ca Hca)].
  - cbn [serialize_inline_expression ctext].
    change (45%N :: id ++ (46%N :: a) ++ []) with ([45%N] ++ id ++ ([46%N] ++ a) ++ []).
    apply writes_seq; [apply (writes_lit "-"); reflexivity|].
    apply writes_seq; [apply writes_literal, wf_identifier_lf_free, Hid|].
    apply writes_seq; [|apply writes_skip].
    apply writes_seq; [apply (writes_lit "."); reflexivity | apply writes_literal, wf_identifier_lf_free, Ha].
  - cbn [serialize_inline_expression ctext].
    change (45%N :: id ++ (46%N :: a) ++ args_ctext ca) with ([45%N] ++ id ++ ([46%N] ++ a) ++ args_ctext ca).
    apply writes_seq; [apply (writes_lit "-"); reflexivity|].
    apply writes_seq; [apply writes_literal, wf_identifier_lf_free, Hid|].
    apply writes_seq; [|apply (writes_call_arguments ca Hca)].
    apply writes_seq; [apply (writes_lit "."); reflexivity | apply writes_literal, wf_identifier_lf_free, Ha].
Qed.

(* ---------------------------------------------------------------------------------------------- *)
(* 4. Joining does not touch these expressions                                                      *)

Lemma join_inline_simple_inv i i0 : join_inline i = i0 -> simple_inline i0 = true -> i = i0.
Proof.
  intros E Hi.
  destruct i as [s | v | id args | id att | id att args | id | e]; cbn [join_inline] in E; subst i0; try reflexivity;
    try discriminate Hi.
  cbn [simple_inline] in Hi. destruct att; [discriminate Hi|]. destruct args; [discriminate Hi | reflexivity].
Qed.

Lemma join_args_eq pos named :
  join_args (CallArguments pos named) = CallArguments (map join_inline pos) (map join_named named).
Proof. reflexivity. Qed.

Lemma join_args_inv a ca : join_args a = ca -> args_ok ca = true -> a = ca.
Proof.
  destruct a as [p n], ca as [pos named]. rewrite join_args_eq. intros E H. injection E as Ep En.
  unfold args_ok in H. apply andb_prop in H as [H _]. apply andb_prop in H as [Hp Hn]. f_equal.
  - clear En Hn. revert pos Ep Hp. induction p as [|x r IH]; intros pos Ep Hp; [exact Ep|].
    destruct pos as [|y pos']; [discriminate Ep|]. cbn [map] in Ep. injection Ep as Ex Er.
    cbn [forallb] in Hp. apply andb_prop in Hp as [Hy Hr].
    rewrite (join_inline_simple_inv x y Ex Hy), (IH pos' Er Hr). reflexivity.
  - clear Ep Hp. revert named En Hn. induction n as [|x r IH]; intros named En Hn; [exact En|].
    destruct named as [|y named']; [discriminate En|]. cbn [map] in En. injection En as Ex Er.
    cbn [forallb] in Hn. apply andb_prop in Hn as [Hy Hr].
    rewrite (IH named' Er Hr). f_equal.
    destruct x as [n1 v1], y as [n2 v2]. cbn [join_named] in Ex. injection Ex as -> Ev.
    unfold named_ok in Hy. apply andb_prop in Hy as [_ Hv2]. rewrite (join_inline_simple_inv v1 v2 Ev Hv2). reflexivity.
Qed.

Lemma join_inline_binline_inv i i0 : join_inline i = i0 -> binline i0 = true -> i = i0.
Proof.
  intros E Hi. destruct (binline_cases i0 Hi) as [Hs | [(id & ca & -> & Hid & Hca) | (id & ca & -> & Hid & Hca)]].
  - apply (join_inline_simple_inv i i0 E Hs).
  - destruct i as [s | v | id1 a1 | id1 att | id1 att a1 | id1 | e]; cbn [join_inline] in E; try discriminate E.
    injection E as -> Ea. rewrite (join_args_inv a1 ca Ea Hca). reflexivity.
  - destruct i as [s | v | id1 a1 | id1 att | id1 att a1 | id1 | e]; cbn [join_inline] in E; try discriminate E.
    injection E as -> -> Ea. destruct a1 as [a1|]; [|discriminate Ea]. injection Ea as Ea.
    rewrite (join_args_inv a1 ca Ea Hca). reflexivity.
Qed.

Lemma join_inline_bsel_inv i i0 : join_inline i = i0 -> bsel i0 = true -> i = i0.
Proof.
  intros E Hi.
  destruct (bsel_cases i0 Hi) as [[_ Hs] | [(id & ca & -> & Hid & Hca) | [(id & a & -> & Hid & Ha) | (id & a & ca & -> & Hid & Ha & Hca)]]].
  - apply (join_inline_simple_inv i i0 E Hs).
  - destruct i as [s | v | id1 a1 | id1 att | id1 att a1 | id1 | e]; cbn [join_inline] in E; try discriminate E.
    injection E as -> Ea. rewrite (join_args_inv a1 ca Ea Hca). reflexivity.
  - destruct i as [s | v | id1 a1 | id1 att | id1 att a1 | id1 | e]; cbn [join_inline] in E; try discriminate E.
    injection E as -> -> Ea. destruct a1 as [a1|]; [discriminate Ea | reflexivity].
  - destruct i as [s | v | id1 a1 | id1 att | id1 att a1 | id1 | e]; cbn [join_inline] in E; try discriminate E.
    injection E as -> -> Ea. destruct a1 as [a1|]; [|discriminate Ea]. injection Ea as Ea.
    rewrite (join_args_inv a1 ca Ea Hca). reflexivity.
Qed.

Lemma binline_not_placeable i : binline i = true -> forall e, i <> Placeable e.
Proof. intros H e ->. discriminate H. Qed.
Lemma bsel_not_placeable i : bsel i = true -> forall e, i <> Placeable e.
Proof. intros H e ->. discriminate H. Qed.

(* Syntax/SerializerNest.v — property C04 with NESTED call arguments: SerializerSel.v over the classes of
   RoundTripNest.v (a positional argument is any inline expression: a call, a term attribute, a placeable that
   holds any expression of the class).

   The fragment `snest_resource d`: trees whose patterns JOIN (at every nesting level, also inside call
   arguments) to a pattern of RoundTripNest.nest_pattern d and whose text elements, at every nesting level, are
   not empty and have a line feed only as their last byte (what the parser returns: RoundTripNest.goodn).
     1. the canonical text of expressions, call arguments and patterns
     2. it is a layout (RoundTripNest.etextn / atextn)
     3. the serializer writes it for every split tree that joins to the tree
     4. the instance of SerializerLoop.v and EntryLoop.v; round trip and fixed point                 *)
From FluentV Require Import Base.Bytes Base.Outcome Base.Utf8 Base.Utf8Facts.
From FluentV Require Import Syntax.Ast Syntax.ParserModel Syntax.SerializerModel Syntax.Render Syntax.TreeNorm.
From FluentV Require Import Syntax.ParseLemmas Syntax.SerializerProofs Syntax.RoundTrip Syntax.SerializerRoundTrip.
From FluentV Require Import Syntax.EntryLoop Syntax.RoundTripML Syntax.RoundTripSel Syntax.SerializerLoop Syntax.SerializerML.
From FluentV Require Import Syntax.CallArgs Syntax.SerializerCalls Syntax.ArgsNest Syntax.RoundTripNest.
From Coq Require Import Lia.

Arguments N.eqb : simpl never.

(* ---------------------------------------------------------------------------------------------- *)
(* 1. The canonical text                                                                            *)

Definition is_sel (e : expression) : bool := match e with Select _ _ => true | _ => false end.
(* the indentation at level m *)
Definition ind (m : nat) : bytes := sp (4 * m).
(* the indentation of a variant line: the last space is replaced by "*" for the default variant *)
Definition star_ind (m : nat) (dflt : bool) : bytes := if dflt then sp (4 * m - 1) ++ [42%N] else sp (4 * m).

(* ex_text m e: what serialize_expression writes for e, inside a pattern whose elements are written at
   level m (their continuation lines are indented by 4m spaces); pat_text k p: what serialize_pattern writes
   at writer level k; args_text m a: "(" argument ", " argument ... ")" *)
Fixpoint ex_text (m : nat) (e : expression) {struct e} : bytes :=
  match e with
  | Inline i => in_text m i
  | Select sel vs =>
      in_text m sel ++ [32; 45; 62; 10]%N ++
      (fix go (l : list variant) : bytes := match l with [] => [] | v :: r => var_text (S m) v ++ go r end) vs
  end
with in_text (m : nat) (i : inline) {struct i} : bytes :=
  match i with
  | Placeable e1 => [123%N] ++ ex_text m e1 ++ (if is_sel e1 then ind m else []) ++ [125%N]
  | FunctionReference id ca => id ++ args_text m ca
  | TermReference id att args =>
      45%N :: id ++ opt_attr att ++ match args with Some ca => args_text m ca | None => [] end
  | _ => inline_text i
  end
with var_text (m1 : nat) (v : variant) {struct v} : bytes :=
  match v with
  | Variant k p dflt => star_ind m1 dflt ++ [91%N] ++ render_key k ++ [93%N] ++ pat_text m1 p ++ [10%N]
  end
with pat_text (k : nat) (p : pattern) {struct p} : bytes :=
  match p with
  | Pattern els =>
      (if starts_on_new_line p then 10%N :: ind (S k) else [32%N]) ++
      (fix go (l : list pattern_element) : bytes :=
         match l with
         | [] => []
         | TextElement v :: r => ltext (4 * S k) v ++ go r
         | PlaceableElement e :: r =>
             (match e with
              | Inline (Placeable e1) =>
                  [123; 123; 32]%N ++ ex_text (S k) e1 ++ (if is_sel e1 then ind (S k) else []) ++ [32; 125; 125]%N
              | Select _ _ => [123; 32]%N ++ ex_text (S k) e ++ ind (S k) ++ [125%N]
              | Inline i => [123; 32]%N ++ in_text (S k) i ++ [32; 125]%N
              end) ++ go r
         end) els
  end
with args_text (m : nat) (a : call_args) {struct a} : bytes :=
  match a with
  | CallArguments pos named =>
      40%N :: (fix go (l : list inline) (w : bool) : bytes :=
                 match l with [] => [] | x :: r => (if w then [44; 32]%N else []) ++ in_text m x ++ go r true end) pos false ++
      sep_items (flag false pos) (map named_item named) ++ [41%N]
  end.

Section PosText.
Variable m : nat.
Fixpoint pos_text (l : list inline) (w : bool) : bytes :=
  match l with [] => [] | x :: r => (if w then [44; 32]%N else []) ++ in_text m x ++ pos_text r true end.
End PosText.

Lemma args_text_eq m pos named :
  args_text m (CallArguments pos named) =
  40%N :: pos_text m pos false ++ sep_items (flag false pos) (map named_item named) ++ [41%N].
Proof. reflexivity. Qed.

(* the text of a placeable element at level m *)
Definition pl_text (m : nat) (e : expression) : bytes :=
  match e with
  | Inline (Placeable e1) => [123; 123; 32]%N ++ ex_text m e1 ++ (if is_sel e1 then ind m else []) ++ [32; 125; 125]%N
  | Select _ _ => [123; 32]%N ++ ex_text m e ++ ind m ++ [125%N]
  | Inline i => [123; 32]%N ++ in_text m i ++ [32; 125]%N
  end.

Fixpoint body_text (m : nat) (els : list pattern_element) : bytes :=
  match els with
  | [] => []
  | TextElement v :: r => ltext (4 * m) v ++ body_text m r
  | PlaceableElement e :: r => pl_text m e ++ body_text m r
  end.

Fixpoint vars_text (m1 : nat) (vs : list variant) : bytes :=
  match vs with [] => [] | v :: r => var_text m1 v ++ vars_text m1 r end.

Lemma pat_text_eq k els :
  pat_text k (Pattern els) = (if starts_on_new_line (Pattern els) then 10%N :: ind (S k) else [32%N]) ++ body_text (S k) els.
Proof.
  cbn [pat_text]. f_equal. induction els as [|el r IH]; [reflexivity|].
  destruct el as [v|e]; cbn [body_text]; rewrite <- IH; reflexivity.
Qed.

Lemma ex_text_select m sel vs : ex_text m (Select sel vs) = in_text m sel ++ [32; 45; 62; 10]%N ++ vars_text (S m) vs.
Proof.
  cbn [ex_text]. do 2 f_equal. induction vs as [|v r IH]; [reflexivity|]. cbn [vars_text]. rewrite <- IH. reflexivity.
Qed.


(* ---------------------------------------------------------------------------------------------- *)
(* 2. The canonical text is a layout                                                                *)

Lemma in_text_simple m i : simple_inline i = true -> in_text m i = inline_text i.
Proof.
  destruct i as [s | v | id args | id att | id [a|] [args|] | id | e]; cbn [simple_inline]; intros H; try discriminate H; try reflexivity.
  cbn [in_text inline_text opt_attr]. rewrite !app_nil_r. reflexivity.
Qed.

Fixpoint sep_join (w : bool) (xs : list bytes) : bytes :=
  match xs with [] => [] | x :: r => (if w then [44; 32]%N else []) ++ x ++ sep_join true r end.

Lemma sep_items_join w ns : sep_items w ns = sep_join w (map item_ctext ns).
Proof. revert w. induction ns as [|x r IH]; intros w; [reflexivity|]. cbn [sep_items map sep_join]. rewrite IH. reflexivity. Qed.

Lemma pos_sep m pos ns : forall w,
  pos_text m pos w ++ sep_items (flag w pos) ns = sep_join w (map (in_text m) pos ++ map item_ctext ns).
Proof.
  induction pos as [|x r IH]; intros w; [apply sep_items_join|].
  cbn [pos_text map app sep_join flag]. rewrite <- !app_assoc. do 2 f_equal.
  rewrite <- (IH true). destruct r; reflexivity.
Qed.

Lemma sep_join_layout atext items xs : Forall2 (gitem_layout atext) items xs -> gitems_layout atext items (sep_join false xs).
Proof.
  induction 1 as [|x X r Xs Hx Hr IH]; [constructor|].
  cbn [sep_join app]. destruct Hr as [|y Y r' Xs' Hy Hr'].
  - cbn [sep_join].
    pose proof (gil_cons atext x X [] false [] [] [] Hx (eq_refl : all_blank []) (eq_refl : all_blank [])) as H.
    cbn [app] in H. apply H; [intros E; congruence | reflexivity | constructor].
  - pose proof (gil_cons atext x X [] true (sp 1) (y :: r') (sep_join false (Y :: Xs')) Hx (eq_refl : all_blank []) (all_blank_sp 1)) as H.
    cbn [app sp repeat] in H. cbn [sep_join app] in *. apply H; [reflexivity | discriminate | exact IH].
Qed.

Definition AL (d : nat) : Prop := forall m i, aokn d i = true -> atextn d i (in_text m i).
Definition EL (d : nat) : Prop := forall m e, eokn d e = true -> etextn d e (ex_text m e).
Definition PL (d : nat) : Prop := forall k els, wl_pattern (eokn d) (Pattern els) = true ->
  wl_value_layout (etextn d) els (pat_text k (Pattern els)).

Lemma args_text_layout d m ca : AL d -> gargs_ok (aokn d) ca = true -> gargs_layout (atextn d) ca (args_text m ca).
Proof.
  intros HAL Hca. destruct ca as [pos named]. unfold gargs_ok in Hca. apply andb_prop in Hca as [Hca _]. apply andb_prop in Hca as [Hp Hn].
  rewrite args_text_eq, app_assoc, (pos_sep m pos (map named_item named) false).
  apply (gargl (atextn d) (CallArguments pos named) [] _ (eq_refl : all_blank [])).
  apply sep_join_layout. cbn [items_of]. change (fun a : named_arg => match a with NamedArgument n v => ANamed n v end) with named_item.
  apply Forall2_app.
  - clear Hn. induction pos as [|x r IH]; [constructor|]. cbn [forallb] in Hp. apply andb_prop in Hp as [Hx Hr].
    cbn [map]. constructor; [constructor; apply (HAL m x Hx) | apply (IH Hr)].
  - clear Hp. induction named as [|[n v] r IH]; [constructor|]. cbn [forallb] in Hn. apply andb_prop in Hn as [_ Hr].
    cbn [map named_item item_ctext]. constructor; [|apply (IH Hr)].
    exact (gitl_named (atextn d) n v [] (sp 1) (eq_refl : all_blank []) (all_blank_sp 1)).
Qed.

Lemma gitext_in_text d m i : AL d -> binl (aokn d) i = true -> gitext (atextn d) i (in_text m i).
Proof.
  intros HAL Hi. destruct (binl_cases (aokn d) i Hi) as [Hs | [(id & ca & -> & Hid & Hca) | (id & ca & -> & Hid & Hca)]].
  - rewrite (in_text_simple m i Hs). constructor. exact Hs.
  - exact (gitx_fun (atextn d) id ca [] (args_text m ca) (eq_refl : all_blank []) (args_text_layout d m ca HAL Hca)).
  - exact (gitx_term (atextn d) id ca [] (args_text m ca) (eq_refl : all_blank []) (args_text_layout d m ca HAL Hca)).
Qed.

Lemma gseltext_in_text d m i : AL d -> bsl (aokn d) i = true -> gseltext (atextn d) i (in_text m i).
Proof.
  intros HAL Hi.
  destruct (bsl_cases (aokn d) i Hi) as [[_ Hs] | [(id & ca & -> & Hid & Hca) | [(id & a & -> & Hid & Ha) | (id & a & ca & -> & Hid & Ha & Hca)]]].
  - rewrite (in_text_simple m i Hs). constructor. exact Hs.
  - exact (gstx_fun (atextn d) id ca [] (args_text m ca) (eq_refl : all_blank []) (args_text_layout d m ca HAL Hca)).
  - cbn [in_text opt_attr]. rewrite app_nil_r. constructor.
  - exact (gstx_term_args (atextn d) id a ca [] (args_text m ca) (eq_refl : all_blank []) (args_text_layout d m ca HAL Hca)).
Qed.

Lemma all_blank_closing m e : all_blank (if is_sel e then ind m else []).
Proof. destruct (is_sel e); [apply all_blank_sp | reflexivity]. Qed.

Lemma AL_0 : AL 0.
Proof. intros m i Hi. split; [exact Hi | apply (in_text_simple m i Hi)]. Qed.

Lemma AL_S d : AL d -> EL d -> AL (S d).
Proof.
  intros HAL HEL m i Hi.
  destruct (aokn_S_cases d _ Hi) as [Hs | [(id & ca & -> & Hid & Hca) | [(id & att & ca & -> & Hid & Hatt & Hca) | [(id & a & -> & Hid & Ha) | (e1 & -> & He1)]]]].
  - left. split; [exact Hs | apply (in_text_simple m i Hs)].
  - right; left. exists id, ca, [], (args_text m ca).
    split; [reflexivity | split; [reflexivity | split; [apply (args_text_layout d m ca HAL Hca) | reflexivity]]].
  - right; right; left. exists id, att, ca, [], (args_text m ca).
    split; [reflexivity | split; [reflexivity | split; [apply (args_text_layout d m ca HAL Hca) | reflexivity]]].
  - right; right; right; left. exists id, a. split; [reflexivity|]. cbn [in_text opt_attr]. rewrite app_nil_r. reflexivity.
  - right; right; right; right. exists e1, [], (if is_sel e1 then ind m else []), (ex_text m e1).
    split; [reflexivity | split; [reflexivity | split; [apply all_blank_closing | split; [apply (HEL m e1 He1) | reflexivity]]]].
Qed.

(* the text of a placeable element: "{", blank, a layout of the expression, blank, "}" *)
Lemma pl_text_layout0 m e : eokn 0 e = true ->
  exists b1 X b2, pl_text m e = 123%N :: b1 ++ X ++ b2 ++ [125%N] /\ all_blank b1 /\ all_blank b2 /\ etextn 0 e X.
Proof.
  destruct e as [sel vs | i]; [discriminate|]. cbn [eokn eoks]. intros Hi.
  exists (sp 1), (inline_text i), (sp 1).
  split; [|split; [apply all_blank_sp | split; [apply all_blank_sp | constructor; exact Hi]]].
  unfold pl_text. rewrite (in_text_simple m i Hi). destruct i; try discriminate Hi; reflexivity.
Qed.

Lemma pl_text_layoutS d m e : AL d -> EL d -> EL (S d) -> eokn (S d) e = true ->
  exists b1 X b2, pl_text m e = 123%N :: b1 ++ X ++ b2 ++ [125%N] /\ all_blank b1 /\ all_blank b2 /\ etextn (S d) e X.
Proof.
  intros HAL HELd HELS He.
  destruct (eokn_S_cases d e He) as [(i & -> & Hi) | [(e1 & -> & He1) | (sel & vs & -> & Hsel & Hcnt & Hvs)]].
  - exists (sp 1), (in_text m i), (sp 1).
    split; [|split; [apply all_blank_sp | split; [apply all_blank_sp | left; exists i; split; [reflexivity | apply (gitext_in_text d m i HAL Hi)]]]].
    unfold pl_text. destruct i; try discriminate Hi; reflexivity.
  - exists [], (123%N :: sp 1 ++ ex_text m e1 ++ ((if is_sel e1 then ind m else []) ++ sp 1) ++ [125%N]), [].
    split; [|split; [reflexivity | split; [reflexivity|]]].
    + unfold pl_text. cbn [app sp repeat]. rewrite <- !app_assoc. reflexivity.
    + right; left. exists e1, (sp 1), ((if is_sel e1 then ind m else []) ++ sp 1), (ex_text m e1).
      split; [reflexivity | split; [apply all_blank_sp | split; [apply all_blank_app; [apply all_blank_closing | apply all_blank_sp]|]]].
      split; [apply (HELd m e1 He1) | reflexivity].
  - exists (sp 1), (ex_text m (Select sel vs)), (ind m).
    split; [reflexivity | split; [apply all_blank_sp | split; [apply all_blank_sp | apply (HELS m _ He)]]].
Qed.

Lemma body_text_layout (d : nat) (m : nat) els :
  (forall e, eokn d e = true -> exists b1 X b2, pl_text m e = 123%N :: b1 ++ X ++ b2 ++ [125%N] /\ all_blank b1 /\ all_blank b2 /\ etextn d e X) ->
  forall prev, ml_elements (eokn d) els prev = true -> ml_line_layout (etextn d) (4 * m) els (body_text m els).
Proof.
  intros Hpl. induction els as [|el r IH]; intros prev Hs; [constructor|].
  destruct el as [v | e]; cbn [ml_elements] in Hs; cbn [body_text].
  - apply andb_prop in Hs as [Hs Hr]. apply andb_prop in Hs as [_ Hv].
    unfold ml_text in Hv. unfold ltext. destruct (lines_of v) as [|l0 rest] eqn:El; [discriminate Hv|].
    apply andb_prop in Hv as [_ Hrest]. rewrite <- app_assoc.
    apply (mll_text (etextn d) (4 * m) v l0 rest r _ _ El); [apply cont_text_layout, Hrest | apply (IH true Hr)].
  - apply andb_prop in Hs as [He Hr]. destruct (Hpl e He) as (b1 & X & b2 & -> & Hb1 & Hb2 & HX).
    replace ((123%N :: b1 ++ X ++ b2 ++ [125%N]) ++ body_text m r) with (123%N :: b1 ++ X ++ b2 ++ 125%N :: body_text m r)
      by (cbn [app]; rewrite <- !app_assoc; reflexivity).
    constructor; try assumption. apply (IH false Hr).
Qed.

(* a value (class wl_pattern): the serializer writes the inline form only
   if the value has a single line or may not start a block line; then some continuation line is not indented *)
Lemma pat_text_layout_wl d k els :
  (forall m e, eokn d e = true -> exists b1 X b2, pl_text m e = 123%N :: b1 ++ X ++ b2 ++ [125%N] /\ all_blank b1 /\ all_blank b2 /\ etextn d e X) ->
  wl_pattern (eokn d) (Pattern els) = true -> wl_value_layout (etextn d) els (pat_text k (Pattern els)).
Proof.
  intros Hpl Hp. destruct (wl_pattern_parts _ els Hp) as (_ & Hs & _).
  rewrite pat_text_eq. pose proof (body_text_layout d (S k) els (Hpl (S k)) false Hs) as HL.
  destruct (starts_on_new_line (Pattern els)) eqn:Est.
  - change (10%N :: ind (S k) ++ body_text (S k) els) with (sp 0 ++ lf ++ [] ++ sp (4 * S k) ++ body_text (S k) els).
    apply (wvl_block (etextn d) els 0 lf 0 [] (4 * S k) (body_text (S k) els)); [|left; reflexivity | constructor | lia | exact HL].
    unfold starts_on_new_line in Est. apply andb_prop in Est as [Hd _]. rewrite first_ok_leading_dot. exact Hd.
  - change ([32%N] ++ body_text (S k) els) with (sp 1 ++ body_text (S k) els).
    apply (wvl_inline (etextn d) els 1 (4 * S k) (body_text (S k) els) (proj1 (wl_inline_hit _ els Hp Est)) (proj2 (wl_inline_hit _ els Hp Est))); [lia | exact HL].
Qed.


(* the variants *)
Lemma vars_text_layout d m1 vs : PL d -> forallb (variant_ok (eokn d)) vs = true -> vs <> [] ->
  exists W0 VS, vars_text m1 vs = W0 ++ VS /\ all_blank W0 /\ variants_layout (wl_value_layout (etextn d)) vs VS.
Proof.
  intros HPL. induction vs as [|v r IH]; intros Hok Hne; [congruence|].
  cbn [forallb] in Hok. apply andb_prop in Hok as [Hv Hr]. destruct v as [k [els] dflt].
  unfold variant_ok in Hv. apply andb_prop in Hv as [Hk Hp]. pose proof (HPL m1 els Hp) as HV.
  cbn [vars_text var_text].
  assert (Hrest : exists W VSr, vars_text m1 r = W ++ VSr /\ all_blank W /\ variants_layout (wl_value_layout (etextn d)) r VSr).
  { destruct r as [|v2 r2]; [exists [], []; split; [reflexivity | split; [reflexivity | constructor]]|].
    apply (IH Hr). discriminate. }
  destruct Hrest as (W & VSr & EW & HW & HVSr). rewrite EW.
  exists (if dflt then sp (4 * m1 - 1) else sp (4 * m1)),
         ((if dflt then [42%N] else []) ++ 91%N :: [] ++ render_key k ++ [] ++ 93%N :: pat_text m1 (Pattern els) ++ lf ++ W ++ VSr).
  split; [|split; [destruct dflt; apply all_blank_sp|]].
  - unfold star_ind, lf. destruct dflt; repeat (cbn [app]; rewrite <- ?app_assoc); reflexivity.
  - apply vsl_cons; try assumption; try reflexivity. left; reflexivity.
Qed.

Lemma EL_0 : EL 0.
Proof.
  intros m e He. destruct e as [sel vs | i]; [discriminate He|]. cbn [eokn eoks] in He.
  cbn [ex_text]. rewrite (in_text_simple m i He). constructor. exact He.
Qed.

Lemma EL_S d : AL d -> EL d -> PL d -> EL (S d).
Proof.
  intros HAL HEL HPL m e He.
  destruct (eokn_S_cases d e He) as [(i & -> & Hi) | [(e1 & -> & He1) | (sel & vs & -> & Hsel & Hcnt & Hvs)]].
  - cbn [ex_text]. left. exists i. split; [reflexivity | apply (gitext_in_text d m i HAL Hi)].
  - right; left. exists e1, [], (if is_sel e1 then ind m else []), (ex_text m e1).
    split; [reflexivity | split; [reflexivity | split; [apply all_blank_closing | split; [apply (HEL m e1 He1) | reflexivity]]]].
  - right; right. rewrite ex_text_select.
    assert (Hne : vs <> []) by (intros ->; discriminate Hcnt).
    destruct (vars_text_layout d (S m) vs HPL Hvs Hne) as (W0 & VS & -> & HW0 & HVS).
    change (in_text m sel ++ [32; 45; 62; 10]%N ++ W0 ++ VS)
      with (in_text m sel ++ sp 1 ++ [45; 62]%N ++ sp 0 ++ lf ++ W0 ++ VS).
    apply gsell; try assumption; [apply (gseltext_in_text d m sel HAL Hsel) | apply all_blank_sp | discriminate | left; reflexivity].
Qed.

Lemma PL_0 : PL 0.
Proof. intros k els. apply pat_text_layout_wl. intros m e. apply pl_text_layout0. Qed.

Lemma PL_S d : AL d -> EL d -> EL (S d) -> PL (S d).
Proof. intros H0 H1 H2 k els. apply pat_text_layout_wl. intros m e. apply (pl_text_layoutS d m e H0 H1 H2). Qed.

Lemma layouts_all d : AL d /\ EL d /\ PL d.
Proof.
  induction d as [|d (HAL & HEL & HPL)]; [split; [exact AL_0 | split; [exact EL_0 | exact PL_0]]|].
  pose proof (EL_S d HAL HEL HPL) as HS. split; [exact (AL_S d HAL HEL) | split; [exact HS | exact (PL_S d HAL HEL HS)]].
Qed.


(* ---------------------------------------------------------------------------------------------- *)
(* 3. The serializer on split trees                                                                 *)

(* the joined elements of a split pattern (placeables joined inside, too) *)
Definition jels (els : list pattern_element) : list pattern_element := join_elements (join_els_map els).

Lemma join_pattern_jels els : join_pattern (Pattern els) = Pattern (jels els).
Proof. apply join_pattern_els. Qed.

Lemma jels_text a r :
  jels (TextElement a :: r) = match jels r with TextElement b :: r' => TextElement (a ++ b) :: r' | J => TextElement a :: J end.
Proof. reflexivity. Qed.
Lemma jels_placeable e r : jels (PlaceableElement e :: r) = PlaceableElement (join_expr e) :: jels r.
Proof. reflexivity. Qed.
Lemma jels_ne r : r <> [] -> jels r <> [].
Proof. intros H. unfold jels. apply join_elements_ne. destruct r; [congruence | discriminate]. Qed.

(* what the element loop writes at level m; `start`: the writer is at the start of a line *)
Fixpoint stext2 (m : nat) (start : bool) (els : list pattern_element) : bytes :=
  match els with
  | [] => []
  | TextElement v :: r => (if start then ind m else []) ++ v ++ stext2 m (N.eqb (last v 0%N) 10) r
  | PlaceableElement e :: r => (if start then ind m else []) ++ pl_text m (join_expr e) ++ stext2 m false r
  end.

(* the serializer on one placeable element at level m *)
Definition plw (m : nat) (e : expression) : Prop :=
  forall x, indent_level x = m -> ends_with 13 x = false ->
  serialize_element (PlaceableElement e) x =
  Done (Writer (rev (pl_text m (join_expr e)) ++ rev (if ends_with 10 x then ind m else []) ++ rbuf x) m).

Definition split_el2 (m : nat) (el : pattern_element) : Prop :=
  match el with
  | TextElement v => v <> [] /\ lf_last v /\ existsb (N.eqb 13) v = false
  | PlaceableElement e => plw m e
  end.

Lemma pl_text_last m e : exists l, pl_text m e = l ++ [125%N].
Proof.
  unfold pl_text. destruct e as [sel vs | i].
  - eexists. rewrite !app_assoc. reflexivity.
  - destruct i; eexists; try (rewrite !app_assoc; change [32; 125]%N with ([32%N] ++ [125%N]); rewrite !app_assoc; reflexivity).
    change [32; 125; 125]%N with ([32; 125]%N ++ [125%N]). rewrite !app_assoc. reflexivity.
Qed.

Lemma ser_els_gen m els : forall x, indent_level x = m -> Forall (split_el2 m) els -> ends_with 13 x = false ->
  ser_els els x = Done (Writer (rev (stext2 m (ends_with 10 x) els) ++ rbuf x) m) /\
  ends_with 13 (Writer (rev (stext2 m (ends_with 10 x) els) ++ rbuf x) m) = false /\
  ends_with 10 (Writer (rev (stext2 m (ends_with 10 x) els) ++ rbuf x) m) = end_start (ends_with 10 x) els.
Proof.
  induction els as [|el r IH]; intros x Hl Hall H13.
  - cbn [ser_els stext2 end_start rev app]. unfold wskip. destruct x as [rb lvl]. cbn [rbuf indent_level] in *. subst lvl. auto.
  - inversion Hall as [|? ? Hel Hr]; subst. cbn [ser_els].
    destruct el as [v | e]; cbn [split_el2] in Hel.
    + destruct Hel as (Hne & Hlf & Hcr). cbn [serialize_element stext2 end_start].
      unfold wseq. rewrite (write_literal_nocr v x H13). cbn [obind]. fold (ind (indent_level x)).
      set (x1 := Writer (rev v ++ rev (if ends_with 10 x then ind (indent_level x) else []) ++ rbuf x) (indent_level x)).
      assert (H13' : ends_with 13 x1 = false) by (unfold x1; rewrite (ends_with_rev_last 13 v _ _ Hne); apply last_not_cr; assumption).
      assert (H10' : ends_with 10 x1 = N.eqb (last v 0%N) 10) by (unfold x1; apply (ends_with_rev_last 10 v _ _ Hne)).
      destruct (IH x1 eq_refl Hr H13') as (E & I13 & I10).
      rewrite H10' in E, I13, I10.
      assert (Eb : rev (stext2 (indent_level x) (N.eqb (last v 0%N) 10) r) ++ rbuf x1 =
                   rev ((if ends_with 10 x then ind (indent_level x) else []) ++ v ++
                        stext2 (indent_level x) (N.eqb (last v 0%N) 10) r) ++ rbuf x).
      { unfold x1. cbn [rbuf]. rewrite !rev_app_distr, <- !app_assoc. reflexivity. }
      rewrite Eb in E, I13, I10. split; [exact E | split; assumption].
    + cbn [stext2 end_start]. unfold wseq. rewrite (Hel x eq_refl H13). cbn [obind].
      set (x1 := Writer (rev (pl_text (indent_level x) (join_expr e)) ++ rev (if ends_with 10 x then ind (indent_level x) else []) ++ rbuf x)
                        (indent_level x)).
      destruct (pl_text_last (indent_level x) (join_expr e)) as [l El].
      assert (H13' : ends_with 13 x1 = false) by (unfold x1; rewrite El, rev_app_distr; reflexivity).
      assert (H10' : ends_with 10 x1 = false) by (unfold x1; rewrite El, rev_app_distr; reflexivity).
      destruct (IH x1 eq_refl Hr H13') as (E & I13 & I10).
      rewrite H10' in E, I13, I10.
      assert (Eb : rev (stext2 (indent_level x) false r) ++ rbuf x1 =
                   rev ((if ends_with 10 x then ind (indent_level x) else []) ++ pl_text (indent_level x) (join_expr e) ++
                        stext2 (indent_level x) false r) ++ rbuf x).
      { unfold x1. cbn [rbuf]. rewrite !rev_app_distr, <- !app_assoc. reflexivity. }
      rewrite Eb in E, I13, I10. split; [exact E | split; assumption].
Qed.

Lemma stext2_start m els : els <> [] -> stext2 m true els = ind m ++ stext2 m false els.
Proof. destruct els as [|[v|e] r]; [congruence | |]; reflexivity. Qed.

(* stext2 is the canonical text of the joined elements *)
Lemma stext2_body m els : Forall (fun el => match el with TextElement v => v <> [] /\ lf_last v | _ => True end) els ->
  no_final_lf els -> stext2 m false els = body_text m (jels els).
Proof.
  induction els as [|el r IH]; intros Hall Hfin; [reflexivity|].
  inversion Hall as [|? ? Hel Hr]; subst.
  assert (Hfin' : r <> [] -> no_final_lf r) by (intros Hne; destruct r; [congruence | destruct el; exact Hfin]).
  destruct el as [a | e].
  - destruct Hel as (Hne & Hlf). cbn [stext2 app]. rewrite jels_text.
    destruct (lf_last_cases a Hne Hlf) as [[El Hno] | [El (a0 & -> & Hno)]]; rewrite El.
    + destruct r as [|el2 r2]; [cbn [stext2 jels join_els_map join_elements body_text]; rewrite (ltext_nolf (4 * m) a Hno); reflexivity|].
      rewrite (IH Hr (Hfin' ltac:(discriminate))).
      destruct (jels (el2 :: r2)) as [|[b|e] r'] eqn:EJ.
      * cbn [body_text]. rewrite (ltext_nolf (4 * m) a Hno). reflexivity.
      * cbn [body_text]. rewrite (ltext_nolf_app (4 * m) a b Hno), <- app_assoc. reflexivity.
      * cbn [body_text]. rewrite (ltext_nolf (4 * m) a Hno). reflexivity.
    + destruct r as [|el2 r2]; [cbn [no_final_lf] in Hfin; congruence|].
      rewrite (stext2_start m (el2 :: r2) ltac:(discriminate)), (IH Hr (Hfin' ltac:(discriminate))).
      pose proof (jels_ne (el2 :: r2) ltac:(discriminate)) as HJ.
      destruct (jels (el2 :: r2)) as [|[b|e] r'] eqn:EJ; [congruence| |].
      * cbn [body_text]. replace ((a0 ++ [10%N]) ++ b) with (a0 ++ 10%N :: b) by (rewrite <- app_assoc; reflexivity).
        rewrite (ltext_lf_app (4 * m) a0 b Hno), <- !app_assoc. cbn [app]. rewrite <- !app_assoc. reflexivity.
      * cbn [body_text]. rewrite (ltext_lf_end (4 * m) a0 Hno), <- !app_assoc. cbn [app]. rewrite <- ?app_assoc. reflexivity.
  - cbn [stext2 app]. rewrite jels_placeable. cbn [body_text]. destruct r as [|el2 r2]; [reflexivity|].
    rewrite (IH Hr (Hfin' ltac:(discriminate))). reflexivity.
Qed.

Lemma end_start_final2 els : forall start,
  Forall (fun el => match el with TextElement v => v <> [] | _ => True end) els -> els <> [] -> no_final_lf els ->
  end_start start els = false.
Proof.
  induction els as [|el r IH]; intros start Hall Hne Hfin; [congruence|].
  inversion Hall as [|? ? Hel Hr]; subst.
  destruct r as [|el2 r2].
  - destruct el as [v|e]; cbn [end_start]; [exact Hfin | reflexivity].
  - assert (Hfin' : no_final_lf (el2 :: r2)) by (destruct el; exact Hfin).
    destruct el as [v|e].
    + change (end_start start (TextElement v :: el2 :: r2)) with (end_start (N.eqb (last v 0%N) 10) (el2 :: r2)).
      apply (IH _ Hr ltac:(discriminate) Hfin').
    + change (end_start start (PlaceableElement e :: el2 :: r2)) with (end_start false (el2 :: r2)).
      apply (IH _ Hr ltac:(discriminate) Hfin').
Qed.

(* ---- the start of a value is the same for the split and the joined elements ---- *)
Lemma is_select_join : forall e, is_select_expr (join_expr e) = is_select_expr e.
Proof.
  fix IH 1. intros [sel vs | i]; [reflexivity|]. destruct i; try reflexivity.
  change (join_expr (Inline (Placeable expression))) with (Inline (Placeable (join_expr expression))).
  cbn [is_select_expr]. apply IH.
Qed.

Lemma starts_on_new_line_jels els : Forall text_nonempty els ->
  starts_on_new_line (Pattern (jels els)) = starts_on_new_line (Pattern els).
Proof.
  intros Hne. unfold starts_on_new_line. f_equal.
  - f_equal. unfold has_leading_text_dot. cbn [pattern_elements]. destruct els as [|[a|e] r]; try reflexivity.
    inversion Hne as [|? ? Ha _]; subst. destruct a as [|b t]; [contradiction|].
    rewrite jels_text. destruct (jels r) as [|[b'|e] r']; reflexivity.
  - unfold is_multiline. cbn [pattern_elements]. clear Hne. induction els as [|el r IH]; [reflexivity|].
    destruct el as [a|e]; [|rewrite jels_placeable; cbn [existsb]; rewrite IH, is_select_join; reflexivity].
    rewrite jels_text. cbn [existsb]. rewrite <- IH.
    destruct (jels r) as [|[b|e] r']; cbn [existsb]; try reflexivity.
    unfold contains_lf. rewrite existsb_app, orb_assoc. reflexivity.
Qed.

(* ---- serialize_pattern on split elements, given the serializer on their placeables ---- *)
Lemma ser_pattern_gen els x :
  Forall (split_el2 (S (indent_level x))) els -> els <> [] -> no_final_lf els -> mid_line x ->
  serialize_pattern (Pattern els) x =
  Done (Writer (rev (pat_text (indent_level x) (Pattern (jels els))) ++ rbuf x) (indent_level x)) /\
  mid_line (Writer (rev (pat_text (indent_level x) (Pattern (jels els))) ++ rbuf x) (indent_level x)).
Proof.
  intros Hall Hne Hfin [H10 H13].
  assert (Htne : Forall text_nonempty els).
  { rewrite Forall_forall in *. intros el Hin. specialize (Hall el Hin). destruct el as [[|b0 v]|e]; cbn in *; try exact Logic.I.
    destruct Hall as [H _]. congruence. }
  assert (Htok : Forall (fun el => match el with TextElement v => v <> [] /\ lf_last v | _ => True end) els).
  { rewrite Forall_forall in *. intros el Hin. specialize (Hall el Hin). destruct el as [v|e]; [|exact Logic.I].
    destruct Hall as (H1 & H2 & _). split; assumption. }
  assert (Htn : Forall (fun el => match el with TextElement v => v <> [] | _ => True end) els).
  { rewrite Forall_forall in *. intros el Hin. specialize (Hall el Hin). destruct el as [v|e]; [|exact Logic.I]. apply Hall. }
  rewrite serialize_pattern_els, pat_text_eq, (starts_on_new_line_jels els Htne).
  set (m := S (indent_level x)) in *.
  destruct (starts_on_new_line (Pattern els)).
  - unfold wseq at 1. unfold wseq at 1. rewrite (newline_plain x H13). cbn [obind]. unfold indent at 1. cbn [obind rbuf indent_level]. fold m.
    destruct (ser_els_gen m els (Writer (10%N :: rbuf x) m) eq_refl Hall eq_refl) as (E & I13 & I10).
    cbn [rbuf indent_level] in E, I13, I10. change (ends_with 10 (Writer (10%N :: rbuf x) m)) with true in E, I13, I10.
    rewrite (stext2_start m els Hne), (stext2_body m els Htok Hfin) in E, I13, I10.
    rewrite (end_start_final2 els true Htn Hne Hfin) in I10.
    unfold wseq. rewrite E. cbn [obind]. unfold dedent. cbn [indent_level rbuf].
    assert (Eb : rev (ind m ++ body_text m (jels els)) ++ 10%N :: rbuf x =
                 rev ((10%N :: ind m) ++ body_text m (jels els)) ++ rbuf x)
      by (cbn [app rev]; rewrite <- app_assoc; reflexivity).
    unfold m in *. rewrite Eb in *. split; [reflexivity | split; assumption].
  - unfold wseq at 1. unfold wseq at 1. unfold lit. cbn [bytes_of_string]. rewrite (write_literal_mid _ x H10 H13). cbn [obind].
    unfold indent at 1. unfold push_bytes. cbn [obind rbuf indent_level rev app]. fold m.
    destruct (ser_els_gen m els (Writer (N_of_ascii " " :: rbuf x) m) eq_refl Hall eq_refl) as (E & I13 & I10).
    cbn [rbuf indent_level] in E, I13, I10.
    change (ends_with 10 (Writer (N_of_ascii " " :: rbuf x) m)) with false in E, I13, I10.
    rewrite (stext2_body m els Htok Hfin) in E, I13, I10.
    rewrite (end_start_final2 els false Htn Hne Hfin) in I10.
    unfold wseq. rewrite E. cbn [obind]. unfold dedent. cbn [indent_level rbuf].
    assert (Eb : rev (body_text m (jels els)) ++ N_of_ascii " " :: rbuf x =
                 rev ([32%N] ++ body_text m (jels els)) ++ rbuf x)
      by (cbn [app rev]; rewrite <- app_assoc; reflexivity).
    unfold m in *. rewrite Eb in *. split; [reflexivity | split; assumption].
Qed.

(* ---- split expressions, arguments and patterns of depth d ---- *)
Definition sexp (d : nat) (e : expression) : Prop := eokn d (join_expr e) = true /\ goodn d e.
Definition sarg (d : nat) (i : inline) : Prop := aokn d (join_inline i) = true /\ gooda d i.
Definition spat (d : nat) (els : list pattern_element) : Prop :=
  wl_pattern (eokn d) (Pattern (jels els)) = true /\ Forall (text_ok (goodn d)) els.

Lemma count_defaults_join vs : count_defaults (map join_variant vs) = count_defaults vs.
Proof. induction vs as [|[k p d0] r IH]; [reflexivity|]. cbn [map join_variant count_defaults]. rewrite IH. reflexivity. Qed.

Lemma named_ok_join_inv n : named_ok (join_named n) = true -> join_named n = n.
Proof.
  destruct n as [name v]. cbn [join_named]. unfold named_ok. intros H. apply andb_prop in H as [_ Hv].
  f_equal. symmetry. apply (join_inline_simple_inv v _ eq_refl Hv).
Qed.

Lemma named_join_inv named : forallb named_ok (map join_named named) = true -> forallb named_ok named = true.
Proof.
  induction named as [|n r IH]; [reflexivity|]. cbn [map forallb]. intros H. apply andb_prop in H as [Hn Hr].
  rewrite <- (named_ok_join_inv n Hn), Hn, (IH Hr). reflexivity.
Qed.

(* the arguments of a split call *)
Lemma sargs_of d pos named :
  gargs_ok (aokn d) (join_args (CallArguments pos named)) = true -> Forall (gooda d) pos ->
  Forall (sarg d) pos /\ forallb named_ok named = true.
Proof.
  rewrite join_args_eq. unfold gargs_ok. intros H Hg. apply andb_prop in H as [H _]. apply andb_prop in H as [Hp Hn].
  split; [|apply (named_join_inv named Hn)].
  rewrite forallb_forall in Hp. rewrite Forall_forall in *. intros x Hx. split; [apply Hp, in_map, Hx | apply Hg, Hx].
Qed.

Lemma sarg_0 i : sarg 0 i -> simple_inline i = true.
Proof. intros [H _]. cbn [aokn] in H. rewrite <- (join_inline_simple_inv i _ eq_refl H) in H. exact H. Qed.

Lemma sarg_S d i : sarg (S d) i ->
  simple_inline i = true \/
  (exists id pos named, i = FunctionReference id (CallArguments pos named) /\ wf_callee id = true /\
                        Forall (sarg d) pos /\ forallb named_ok named = true) \/
  (exists id att pos named, i = TermReference id att (Some (CallArguments pos named)) /\ wf_identifier id = true /\
                            match att with Some a => wf_identifier a = true | None => True end /\
                            Forall (sarg d) pos /\ forallb named_ok named = true) \/
  (exists id a, i = TermReference id (Some a) None /\ wf_identifier id = true /\ wf_identifier a = true) \/
  (exists e1, i = Placeable e1 /\ sexp d e1).
Proof.
  intros [Hk Hg].
  destruct (aokn_S_cases d _ Hk) as [Hs | [(id & ca & E & Hid & Hca) | [(id & att & ca & E & Hid & Hatt & Hca) | [(id & a & E & Hid & Ha) | (e1 & E & He1)]]]].
  - left. rewrite <- (join_inline_simple_inv i _ eq_refl Hs) in Hs. exact Hs.
  - right; left. destruct i as [s | v | id1 [pos named] | id1 att | id1 att a1 | id1 | e]; cbn [join_inline] in E; try discriminate E.
    injection E as <- <-. cbn [gooda good_inl good_args] in Hg.
    destruct (sargs_of d pos named Hca Hg) as [H1 H2]. exists id1, pos, named. auto.
  - right; right; left. destruct i as [s | v | id1 ca1 | id1 att1 | id1 att1 [[pos named]|] | id1 | e]; cbn [join_inline] in E; try discriminate E.
    injection E as <- <- <-. cbn [gooda good_inl good_args] in Hg.
    destruct (sargs_of d pos named Hca Hg) as [H1 H2]. exists id1, att1, pos, named. auto 6.
  - right; right; right; left. destruct i as [s | v | id1 ca1 | id1 att1 | id1 att1 [a1|] | id1 | e]; cbn [join_inline] in E; try discriminate E.
    injection E as -> ->. exists id, a. auto.
  - right; right; right; right. destruct i as [s | v | id1 ca1 | id1 att1 | id1 att1 a1 | id1 | e]; cbn [join_inline] in E; try discriminate E.
    injection E as <-. exists e. split; [reflexivity|]. split; [exact He1 | exact Hg].
Qed.

Lemma not_placeable_join i : (forall e, join_inline i <> Placeable e) -> forall e, i <> Placeable e.
Proof. intros H e ->. apply (H (join_expr e)). reflexivity. Qed.

Lemma sexp_0 e : sexp 0 e -> exists i, e = Inline i /\ simple_inline i = true.
Proof.
  intros [He _]. cbn [eokn] in He. destruct e as [sel vs | i]; [rewrite join_expr_select in He; discriminate He|].
  change (join_expr (Inline i)) with (Inline (join_inline i)) in He. cbn [eoks] in He.
  exists i. split; [reflexivity|]. rewrite <- (join_inline_simple_inv i _ eq_refl He) in He. exact He.
Qed.

Lemma binl_aokn d j : binl (aokn d) j = true -> aokn (S d) j = true.
Proof.
  destruct j as [s | v | id ca | id att | id [a|] [ca|] | id | e]; cbn [binl aokn]; intros H; try exact H; try discriminate H.
  rewrite andb_true_r. exact H.
Qed.

Lemma bsl_aokn d j : bsl (aokn d) j = true -> aokn (S d) j = true.
Proof.
  destruct j as [s | v | id ca | id att | id [a|] [ca|] | id | e]; cbn [bsl aokn]; intros H; try exact H; try discriminate H.
  rewrite andb_true_r in H. exact H.
Qed.

Lemma sexp_S d e : sexp (S d) e ->
  (exists i, e = Inline i /\ (forall e1, i <> Placeable e1) /\ sarg (S d) i) \/
  (exists e1, e = Inline (Placeable e1) /\ sexp d e1) \/
  (exists sel vs, e = Select sel vs /\ (forall e1, sel <> Placeable e1) /\ sarg (S d) sel /\ vs <> [] /\
     Forall (fun v => match v with Variant k (Pattern els) _ => key_ok k = true /\ spat d els end) vs).
Proof.
  intros [He Hg]. destruct e as [sel vs | i].
  - right; right. rewrite join_expr_select in He.
    destruct (eokn_S_cases d _ He) as [(i & E & _) | [(e1 & E & _) | (sel0 & vs0 & E & Hsel & Hcnt & Hvs)]]; try discriminate E.
    injection E as <- <-. cbn [goodn] in Hg. destruct Hg as [Hgs Hgv].
    assert (Hnp : forall e1, sel <> Placeable e1).
    { apply not_placeable_join. intros e1 E. rewrite E in Hsel. discriminate Hsel. }
    exists sel, vs. split; [reflexivity | split; [exact Hnp | split; [|split]]].
    + split; [apply (bsl_aokn d _ Hsel) | apply (gooda_not_placeable d sel Hnp Hgs)].
    + intros ->. discriminate Hcnt.
    + rewrite Forall_forall in *. intros v Hv. specialize (Hgv v Hv).
      rewrite forallb_forall in Hvs. specialize (Hvs (join_variant v) (in_map _ _ _ Hv)).
      destruct v as [k [els] d0]. cbn [join_variant] in Hvs. unfold RoundTripSel.variant_ok in Hvs. apply andb_prop in Hvs as [Hk Hp].
      rewrite join_pattern_jels in Hp. split; [exact Hk | split; [exact Hp | exact Hgv]].
  - change (join_expr (Inline i)) with (Inline (join_inline i)) in He.
    destruct (eokn_S_cases d _ He) as [(i0 & E & Hi0) | [(e1 & E & He1) | (sel0 & vs0 & E & _)]]; [| | discriminate E].
    + injection E as E. left. exists i.
      assert (Hnp : forall e1, i <> Placeable e1).
      { apply not_placeable_join. intros e1 E1. rewrite <- E, E1 in Hi0. discriminate Hi0. }
      split; [reflexivity | split; [exact Hnp | split]].
      * rewrite E. apply (binl_aokn d _ Hi0).
      * cbn [goodn] in Hg. apply (gooda_not_placeable d i Hnp). destruct i; try exact Hg. exfalso. apply (Hnp _ eq_refl).
    + injection E as E. right; left.
      destruct i as [s | v | id args | id att | id att args | id | e0]; cbn [join_inline] in E; try discriminate E.
      injection E as E. exists e0. split; [reflexivity|]. split; [rewrite E; exact He1 | exact Hg].
Qed.

(* ---- the elements of a split pattern ---- *)
Lemma in_jels_placeable e l : In (PlaceableElement e) l -> In (PlaceableElement (join_expr e)) (jels l).
Proof.
  induction l as [|el r IH]; intros Hin; [destruct Hin|]. destruct el as [a|e0].
  - destruct Hin as [E | Hin]; [discriminate E|]. specialize (IH Hin). rewrite jels_text.
    destruct (jels r) as [|[b|e1] r']; [destruct IH | | right; exact IH].
    destruct IH as [E | IH]; [discriminate E | right; exact IH].
  - rewrite jels_placeable. destruct Hin as [E | Hin]; [injection E as ->; left; reflexivity | right; apply IH, Hin].
Qed.

Lemma in_jels_text v b l : In (TextElement v) l -> In b v -> exists w, In (TextElement w) (jels l) /\ In b w.
Proof.
  induction l as [|el r IH]; intros Hin Hb; [destruct Hin|]. destruct el as [a|e0].
  - rewrite jels_text. destruct Hin as [E | Hin].
    + injection E as ->. destruct (jels r) as [|[b'|e1] r'].
      * exists v. split; [left; reflexivity | exact Hb].
      * exists (v ++ b'). split; [left; reflexivity | apply in_or_app; left; exact Hb].
      * exists v. split; [left; reflexivity | exact Hb].
    + destruct (IH Hin Hb) as (w & Hw & Hbw). destruct (jels r) as [|[b'|e1] r']; [destruct Hw | |].
      * destruct Hw as [E | Hw]; [injection E as ->; exists (a ++ w); split; [left; reflexivity | apply in_or_app; right; exact Hbw]
                                 | exists w; split; [right; exact Hw | exact Hbw]].
      * exists w. split; [right; exact Hw | exact Hbw].
  - rewrite jels_placeable. destruct Hin as [E | Hin]; [discriminate E|].
    destruct (IH Hin Hb) as (w & Hw & Hbw). exists w. split; [right; exact Hw | exact Hbw].
Qed.

Lemma no_final_lf_map l : no_final_lf (join_els_map l) <-> no_final_lf l.
Proof.
  induction l as [|el r IH]; [split; auto|]. destruct r as [|el2 r2].
  - destruct el; cbn; split; auto.
  - cbn [join_els_map] in *. rewrite (no_final_lf_cons (join_element el) (join_element el2 :: join_els_map r2) ltac:(discriminate)).
    rewrite (no_final_lf_cons el (el2 :: r2) ltac:(discriminate)). exact IH.
Qed.

Lemma text_nonempty_map l : Forall text_nonempty l -> Forall text_nonempty (join_els_map l).
Proof. induction 1 as [|el r Hel Hr IH]; [constructor|]. cbn [join_els_map]. constructor; [destruct el; exact Hel | exact IH]. Qed.

Lemma ml_elements_texts' eok els : forall prev, RoundTripML.ml_elements eok els prev = true ->
  forall v, In (TextElement v) els -> exists c, ml_text c v = true.
Proof.
  induction els as [|el r IH]; intros prev Hs v Hin; [destruct Hin|].
  destruct el as [w | e]; cbn [RoundTripML.ml_elements] in Hs.
  - apply andb_prop in Hs as [Hs Hr]. apply andb_prop in Hs as [_ Hw].
    destruct Hin as [E | Hin]; [injection E as <-; eauto | apply (IH true Hr v Hin)].
  - apply andb_prop in Hs as [_ Hr]. destruct Hin as [E | Hin]; [discriminate E | apply (IH false Hr v Hin)].
Qed.
Lemma spat_facts d els : spat d els ->
  els <> [] /\ no_final_lf els /\
  (forall e, In (PlaceableElement e) els -> sexp d e) /\
  (forall v, In (TextElement v) els -> v <> [] /\ lf_last v /\ existsb (N.eqb 13) v = false).
Proof.
  intros [Hp Hok]. destruct (wl_pattern_parts _ _ Hp) as (Hne & Hs & _ & Hl & _).
  pose proof (Forall_impl _ (text_ok_nonempty (goodn d)) Hok) as Htne.
  split; [intros ->; apply Hne; reflexivity|]. split; [|split].
  - apply no_final_lf_map. apply no_final_lf_join; [apply text_nonempty_map, Htne | apply ml_last_ok_no_final_lf, Hl].
  - intros e He. split.
    + apply (ml_elements_placeables (eokn d) _ false Hs _ (in_jels_placeable e els He)).
    + rewrite Forall_forall in Hok. apply (Hok _ He).
  - intros v Hv. rewrite Forall_forall in Hok. destruct (Hok _ Hv) as [H1 H2]. split; [exact H1 | split; [exact H2|]].
    apply not_true_is_false. intros Hex. apply existsb_exists in Hex as (b & Hb & E). apply N.eqb_eq in E. subst b.
    destruct (in_jels_text v 13%N els Hv Hb) as (w & Hw & Hbw).
    destruct (ml_elements_texts' (eokn d) _ false Hs w Hw) as [c Hc]. pose proof (ml_text_in c w 13%N Hc Hbw) as H13. discriminate H13.
Qed.
(* ---- literals ---- *)
Lemma write_literal_nolf item x : match item with b :: _ => N.eqb b 10 = false | [] => True end ->
  write_literal item x =
  Done (Writer (rev item ++ rev (if ends_with 10 x then ind (indent_level x) else []) ++ rbuf x) (indent_level x)).
Proof.
  intros Hitem. unfold write_literal.
  replace (match item with [] => false | b :: _ => N.eqb b 10 end) with false by (destruct item; [reflexivity | symmetry; exact Hitem]).
  rewrite andb_false_r. destruct (ends_with 10 x).
  - unfold write_indent, push_bytes. cbn [rbuf indent_level]. rewrite indent_bytes_sp. reflexivity.
  - cbn [rev app]. destruct x; reflexivity.
Qed.

Fixpoint ser_variants (l : list variant) : W :=
  match l with [] => wskip | v :: r => serialize_variant v >> newline >> ser_variants r end.

Lemma serialize_select_eq sel vs :
  serialize_expression (Select sel vs) =
  (serialize_inline_expression sel >> lit " ->" >> newline >> indent >> ser_variants vs >> dedent).
Proof. reflexivity. Qed.

(* ---- actions that write a text which depends on the writer's level, and do not end in a line feed ---- *)
Definition writesL (a : W) (f : nat -> bytes) : Prop :=
  forall x, ends_with 10 x = false ->
            a x = Done (Writer (rev (f (indent_level x)) ++ rbuf x) (indent_level x)) /\
            ends_with 10 (Writer (rev (f (indent_level x)) ++ rbuf x) (indent_level x)) = false.

Lemma writesL_of_writes a out : writes a out -> writesL a (fun _ => out).
Proof. intros H x Hx. apply (H x Hx). Qed.

Lemma writesL_seq a b f g : writesL a f -> writesL b g -> writesL (a >> b) (fun m => f m ++ g m).
Proof.
  intros Ha Hb x H. destruct (Ha x H) as [E1 H1]. destruct (Hb _ H1) as [E2 H2].
  cbn [rbuf indent_level] in E2, H2. unfold wseq. rewrite E1. cbn [obind].
  rewrite rev_app_distr, <- app_assoc. split; [exact E2 | exact H2].
Qed.

Lemma writesL_ext a f g : (forall m, f m = g m) -> writesL a f -> writesL a g.
Proof. intros E H x Hx. rewrite <- (E (indent_level x)). apply (H x Hx). Qed.

Definition SI (d : nat) : Prop := forall i, sarg d i ->
  writesL (serialize_inline_expression i) (fun m => in_text m (join_inline i)).
Definition SE (d : nat) : Prop := forall e x, sexp d e -> ends_with 10 x = false ->
  serialize_expression e x = Done (Writer (rev (ex_text (indent_level x) (join_expr e)) ++ rbuf x) (indent_level x)) /\
  ends_with 10 (Writer (rev (ex_text (indent_level x) (join_expr e)) ++ rbuf x) (indent_level x)) = is_sel (join_expr e).
Definition SP (d : nat) : Prop := forall els x, spat d els -> mid_line x ->
  serialize_pattern (Pattern els) x =
  Done (Writer (rev (pat_text (indent_level x) (Pattern (jels els))) ++ rbuf x) (indent_level x)) /\
  mid_line (Writer (rev (pat_text (indent_level x) (Pattern (jels els))) ++ rbuf x) (indent_level x)).

(* ---- call arguments ---- *)
Lemma ser_pos_gen d l : SI d -> Forall (sarg d) l -> forall w x, ends_with 10 x = false ->
  ser_pos l w x = Done (Writer (rev (pos_text (indent_level x) (map join_inline l) w) ++ rbuf x) (indent_level x), flag w l) /\
  ends_with 10 (Writer (rev (pos_text (indent_level x) (map join_inline l) w) ++ rbuf x) (indent_level x)) = false.
Proof.
  intros HSI. induction 1 as [|e r He Hr IH]; intros w x H10.
  - cbn [ser_pos map pos_text rev app flag]. destruct x; split; [reflexivity | exact H10].
  - cbn [ser_pos map pos_text flag].
    destruct (writesL_seq _ _ _ _ (writesL_of_writes _ _ (writes_sep_if w)) (HSI e He) x H10) as [E1 H1].
    rewrite E1. cbn [obind].
    destruct (IH true _ H1) as [E2 H2]. cbn [rbuf indent_level] in E2, H2.
    assert (Eb : rev (pos_text (indent_level x) (map join_inline r) true) ++
                 rev ((if w then [44; 32]%N else []) ++ in_text (indent_level x) (join_inline e)) ++ rbuf x =
                 rev ((if w then [44; 32]%N else []) ++ in_text (indent_level x) (join_inline e) ++
                      pos_text (indent_level x) (map join_inline r) true) ++ rbuf x).
    { rewrite !rev_app_distr, <- !app_assoc. reflexivity. }
    unfold bytes in *. rewrite Eb in *. replace (flag true r) with true in E2 by (destruct r; reflexivity).
    split; [exact E2 | exact H2].
Qed.

Lemma writesL_args d pos named : SI d -> Forall (sarg d) pos -> forallb named_ok named = true ->
  writesL (serialize_call_arguments (CallArguments pos named)) (fun m => args_text m (join_args (CallArguments pos named))).
Proof.
  intros HSI Hp Hn. rewrite serialize_call_arguments_eq.
  apply (writesL_ext _ (fun m => [40%N] ++ (pos_text m (map join_inline pos) false ++ sep_items (flag false pos) (map named_item named)) ++ [41%N])).
  { intros m. rewrite join_args_eq, args_text_eq, (join_named_ok named Hn), flag_map. cbn [app]. rewrite <- app_assoc. reflexivity. }
  apply writesL_seq; [apply writesL_of_writes, (writes_lit "("); reflexivity|].
  apply writesL_seq; [|apply writesL_of_writes, (writes_lit ")"); reflexivity].
  intros x H10.
  destruct (ser_pos_gen d pos HSI Hp false x H10) as [E1 H1]. rewrite E1. cbn [obind fst snd].
  destruct (ser_named_ok named (flag false pos) _ Hn H1) as [E2 H2]. rewrite E2. cbn [obind fst snd rbuf indent_level] in *.
  assert (Eb : rev (sep_items (flag false pos) (map named_item named)) ++ rev (pos_text (indent_level x) (map join_inline pos) false) ++ rbuf x =
               rev (pos_text (indent_level x) (map join_inline pos) false ++ sep_items (flag false pos) (map named_item named)) ++ rbuf x).
  { rewrite rev_app_distr, <- app_assoc. reflexivity. }
  unfold bytes in *. rewrite Eb in *. split; [reflexivity | exact H2].
Qed.

(* ---- serialize_inline_expression ---- *)
Lemma SI_0 : SI 0.
Proof.
  intros i Hi. pose proof (sarg_0 i Hi) as Hs. rewrite (simple_inline_join i Hs).
  apply (writesL_ext _ (fun _ => inline_text i)); [intros m; symmetry; apply (in_text_simple m i Hs)|].
  apply writesL_of_writes, (writes_simple_inline i Hs).
Qed.

Lemma SI_S d : SI d -> SE d -> SI (S d).
Proof.
  intros HSI HSE i Hi.
  destruct (sarg_S d i Hi) as [Hs | [(id & pos & named & -> & Hid & Hp & Hn) | [(id & att & pos & named & -> & Hid & Hatt & Hp & Hn) |
                                [(id & a & -> & Hid & Ha) | (e1 & -> & He1)]]]].
  - rewrite (simple_inline_join i Hs).
    apply (writesL_ext _ (fun _ => inline_text i)); [intros m; symmetry; apply (in_text_simple m i Hs)|].
    apply writesL_of_writes, (writes_simple_inline i Hs).
  - change (join_inline (FunctionReference id (CallArguments pos named)))
      with (FunctionReference id (join_args (CallArguments pos named))).
    cbn [serialize_inline_expression].
    apply (writesL_ext _ (fun m => id ++ args_text m (join_args (CallArguments pos named)))); [reflexivity|].
    apply writesL_seq; [apply writesL_of_writes, writes_literal, wf_callee_lf_free, Hid | apply (writesL_args d pos named HSI Hp Hn)].
  - change (join_inline (TermReference id att (Some (CallArguments pos named))))
      with (TermReference id att (Some (join_args (CallArguments pos named)))).
    cbn [serialize_inline_expression].
    apply (writesL_ext _ (fun m => [45%N] ++ id ++ opt_attr att ++ args_text m (join_args (CallArguments pos named)))); [reflexivity|].
    apply writesL_seq; [apply writesL_of_writes, (writes_lit "-"); reflexivity|].
    apply writesL_seq; [apply writesL_of_writes, writes_literal, wf_identifier_lf_free, Hid|].
    apply writesL_seq; [|apply (writesL_args d pos named HSI Hp Hn)].
    apply writesL_of_writes. destruct att as [a|]; [|apply writes_skip].
    change (opt_attr (Some a)) with ([46%N] ++ a).
    apply writes_seq; [apply (writes_lit "."); reflexivity | apply writes_literal, wf_identifier_lf_free, Hatt].
  - apply (writesL_ext _ (fun _ => ctext (TermReference id (Some a) None))); [reflexivity|].
    apply writesL_of_writes, writes_bsel. cbn [bsel]. rewrite Hid, Ha. reflexivity.
  - (* "{" expression "}" *)
    intros x H10.
    change (serialize_inline_expression (Placeable e1)) with (lit "{" >> serialize_expression e1 >> lit "}").
    change (join_inline (Placeable e1)) with (Placeable (join_expr e1)).
    unfold wseq at 1. unfold lit at 1. rewrite write_literal_nolf by reflexivity. rewrite H10. cbn [obind bytes_of_string rev app].
    destruct (HSE e1 (Writer (N_of_ascii "{" :: rbuf x) (indent_level x)) He1 eq_refl) as [E1 H1].
    cbn [indent_level rbuf] in E1, H1. unfold wseq. rewrite E1. cbn [obind].
    unfold lit. rewrite write_literal_nolf by reflexivity. cbn [bytes_of_string indent_level rbuf]. rewrite H1.
    cbn [in_text].
    assert (Eb : rev [N_of_ascii "}"] ++ rev (if is_sel (join_expr e1) then ind (indent_level x) else []) ++
                 rev (ex_text (indent_level x) (join_expr e1)) ++ N_of_ascii "{" :: rbuf x =
                 rev ([123%N] ++ ex_text (indent_level x) (join_expr e1) ++ (if is_sel (join_expr e1) then ind (indent_level x) else []) ++ [125%N]) ++ rbuf x).
    { rewrite !rev_app_distr. cbn [rev app]. rewrite <- !app_assoc. reflexivity. }
    rewrite Eb. split; [reflexivity|]. rewrite !app_assoc, rev_app_distr. reflexivity.
Qed.

(* ---- the serializer on a placeable element ---- *)
Lemma plw_inline d m i : SI d -> (forall e1, i <> Placeable e1) -> sarg d i -> plw m (Inline i).
Proof.
  intros HSI Hnp Hi x Hl H13. change (join_expr (Inline i)) with (Inline (join_inline i)).
  assert (Hse : serialize_element (PlaceableElement (Inline i)) =
                (lit "{ " >> serialize_expression (Inline i) >> lit " }"))
    by (destruct i; try reflexivity; exfalso; apply (Hnp _ eq_refl)).
  rewrite Hse. unfold wseq at 1. unfold lit at 1. rewrite (write_literal_nolf _ x); [|reflexivity]. cbn [obind bytes_of_string].
  assert (Hw2 : writesL (serialize_expression (Inline i) >> lit " }") (fun m => in_text m (join_inline i) ++ [32; 125]%N))
    by (apply writesL_seq; [apply (HSI i Hi) | apply writesL_of_writes, (writes_lit " }"); reflexivity]).
  match goal with |- _ ?y = _ => destruct (Hw2 y eq_refl) as [E2 _] end.
  rewrite E2. cbn [rbuf indent_level]. rewrite Hl. do 2 f_equal.
  assert (Hnp' : forall e1, join_inline i <> Placeable e1) by (intros e1 E; destruct i; cbn [join_inline] in E; try discriminate E; apply (Hnp _ eq_refl)).
  unfold pl_text.
  replace (match join_inline i with Placeable e1 => _ | _ => [123; 32]%N ++ in_text m (join_inline i) ++ [32; 125]%N end)
    with ([123; 32]%N ++ in_text m (join_inline i) ++ [32; 125]%N) by (destruct (join_inline i); try reflexivity; exfalso; apply (Hnp' _ eq_refl)).
  rewrite !rev_app_distr. cbn [rev app]. rewrite <- !app_assoc. reflexivity.
Qed.

Lemma plw_nested d m e1 : SE d -> sexp d e1 -> plw m (Inline (Placeable e1)).
Proof.
  intros HSE He1 x Hl H13.
  change (serialize_element (PlaceableElement (Inline (Placeable e1))))
    with (lit "{{ " >> serialize_expression e1 >> lit " }}").
  unfold wseq at 1. unfold lit at 1. rewrite (write_literal_nolf _ x); [|reflexivity]. cbn [obind bytes_of_string].
  match goal with |- _ ?y = _ => destruct (HSE e1 y He1 eq_refl) as [E1 H1] end.
  cbn [indent_level rbuf] in E1, H1. unfold wseq. rewrite E1. cbn [obind].
  unfold lit. rewrite write_literal_nolf; [|reflexivity]. cbn [bytes_of_string indent_level rbuf]. rewrite H1, Hl.
  do 2 f_equal. change (join_expr (Inline (Placeable e1))) with (Inline (Placeable (join_expr e1))).
  unfold pl_text. rewrite !rev_app_distr. cbn [rev app]. rewrite <- !app_assoc. cbn [app]. reflexivity.
Qed.

Lemma plw_select d m sel vs : SE d -> sexp d (Select sel vs) -> plw m (Select sel vs).
Proof.
  intros HSE He x Hl H13.
  change (serialize_element (PlaceableElement (Select sel vs)))
    with (lit "{ " >> serialize_expression (Select sel vs) >> lit "}").
  unfold wseq at 1. unfold lit at 1. rewrite (write_literal_nolf _ x); [|reflexivity]. cbn [obind bytes_of_string].
  match goal with |- _ ?y = _ => destruct (HSE (Select sel vs) y He eq_refl) as [E1 H1] end.
  cbn [indent_level rbuf] in E1, H1. unfold wseq. rewrite E1. cbn [obind].
  unfold lit. rewrite write_literal_nolf; [|reflexivity]. cbn [bytes_of_string indent_level rbuf]. rewrite H1, Hl.
  rewrite join_expr_select. cbn [is_sel]. do 2 f_equal.
  unfold pl_text. rewrite !rev_app_distr. cbn [rev app]. rewrite <- !app_assoc. cbn [app]. reflexivity.
Qed.

Lemma plw_0 m e : SI 0 -> sexp 0 e -> plw m e.
Proof.
  intros HSI He. destruct (sexp_0 e He) as (i & -> & Hi). apply (plw_inline 0 m i HSI).
  - intros e1 ->. discriminate Hi.
  - split; [cbn [aokn]; rewrite (simple_inline_join i Hi); exact Hi | exact Logic.I].
Qed.

Lemma plw_S d m e : SI (S d) -> SE d -> SE (S d) -> sexp (S d) e -> plw m e.
Proof.
  intros H0 H1 H2 He. destruct (sexp_S d e He) as [(i & -> & Hnp & Hi) | [(e1 & -> & He1) | (sel & vs & -> & _)]].
  - apply (plw_inline (S d) m i H0 Hnp Hi).
  - apply (plw_nested d m e1 H1 He1).
  - apply (plw_select (S d) m sel vs H2 He).
Qed.

(* ---- serialize_pattern on a split pattern of depth d, given the placeables ---- *)
Lemma SP_of_plw d : (forall m e, sexp d e -> plw m e) -> SP d.
Proof.
  intros Hplw els x Hp Hm. destruct (spat_facts d els Hp) as (Hne & Hfin & Hpl & Htx).
  apply (ser_pattern_gen els x); try assumption.
  apply Forall_forall. intros el Hin. destruct el as [v|e]; cbn [split_el2]; [apply (Htx v Hin) | apply (Hplw _ e (Hpl e Hin))].
Qed.

(* ---- the variants of a select expression, from a line start at level m1 ---- *)
Lemma key_lf_free k : key_ok k = true -> lf_free (render_key k).
Proof. destruct k; cbn [key_ok render_key]; [apply wf_identifier_lf_free | apply wf_number_lf_free]. Qed.

Lemma ser_variants_ok d m0 vs : SP d ->
  Forall (fun v => match v with Variant k (Pattern els) _ => key_ok k = true /\ spat d els end) vs ->
  forall x, indent_level x = S m0 -> ends_with 10 x = true ->
  ser_variants vs x = Done (Writer (rev (vars_text (S m0) (map join_variant vs)) ++ rbuf x) (S m0)) /\
  ends_with 10 (Writer (rev (vars_text (S m0) (map join_variant vs)) ++ rbuf x) (S m0)) = true.
Proof.
  intros HSP. induction 1 as [|v r Hv Hr IH]; intros x Hl H10.
  - cbn [ser_variants map vars_text rev app]. unfold wskip. destruct x as [rb lvl]. cbn [indent_level] in Hl. subst lvl. auto.
  - destruct v as [k [els] dflt]. destruct Hv as [Hk Hp]. cbn [ser_variants map join_variant vars_text var_text].
    rewrite join_pattern_jels.
    (* "*" and "[" *)
    assert (Hopen : ((if dflt then write_char_into_indent 42 else wskip) >> lit "[") x =
                    Done (Writer (91%N :: rev (star_ind (S m0) dflt) ++ rbuf x) (S m0))).
    { unfold wseq. destruct dflt.
      - rewrite (write_char_into_indent_line_start 42 x m0 H10 Hl). cbn [obind]. unfold lit. cbn [bytes_of_string].
        rewrite write_literal_mid by reflexivity. unfold push_bytes. cbn [rbuf indent_level rev app]. do 2 f_equal.
        unfold star_ind. rewrite rev_app_distr, rev_sp. cbn [rev app]. replace (4 * S m0 - 1) with (4 * m0 + 3) by lia. reflexivity.
      - unfold wskip. cbn [obind]. unfold lit. rewrite write_literal_nolf by reflexivity. rewrite H10, Hl. cbn [bytes_of_string rev app].
        unfold star_ind, ind. reflexivity. }
    assert (Hhead : ((if dflt then write_char_into_indent 42 else wskip) >> lit "[" >> serialize_variant_key k >> lit "]") x =
                    Done (Writer (rev (star_ind (S m0) dflt ++ [91%N] ++ render_key k ++ [93%N]) ++ rbuf x) (S m0))).
    { rewrite <- wseq_assoc. unfold wseq at 1. rewrite Hopen. cbn [obind].
      assert (Hw : writes (serialize_variant_key k >> lit "]") (render_key k ++ [93%N])).
      { apply writes_seq; [|apply writes_lit; reflexivity]. destruct k; apply writes_literal, (key_lf_free _ Hk). }
      match goal with |- _ ?y = _ => destruct (Hw y eq_refl) as [E2 _] end.
      rewrite E2. cbn [rbuf indent_level]. do 2 f_equal. rewrite !rev_app_distr. cbn [rev app]. rewrite <- !app_assoc. reflexivity. }
    assert (Hall : (serialize_variant (Variant k (Pattern els) dflt) >> newline) x =
                   Done (Writer (rev (star_ind (S m0) dflt ++ [91%N] ++ render_key k ++ [93%N] ++ pat_text (S m0) (Pattern (jels els)) ++ [10%N]) ++ rbuf x) (S m0))).
    { change (serialize_variant (Variant k (Pattern els) dflt))
        with ((if dflt then write_char_into_indent 42 else wskip) >> lit "[" >> serialize_variant_key k >> lit "]" >> serialize_pattern (Pattern els)).
      assert (Hre : forall y, (((if dflt then write_char_into_indent 42 else wskip) >> lit "[" >> serialize_variant_key k >> lit "]" >>
                                serialize_pattern (Pattern els)) >> newline) y =
                              obind (((if dflt then write_char_into_indent 42 else wskip) >> lit "[" >> serialize_variant_key k >> lit "]") y)
                                    (fun y1 => obind (serialize_pattern (Pattern els) y1) newline)).
      { intros y. generalize (if dflt then write_char_into_indent 42 else wskip). intros a0. unfold wseq.
        destruct (a0 y) as [y1| |]; cbn [obind]; try reflexivity.
        destruct (lit "[" y1) as [y2| |]; cbn [obind]; try reflexivity.
        destruct (serialize_variant_key k y2) as [y3| |]; cbn [obind]; try reflexivity.
        all: try (destruct (lit "]" y3) as [y4| |]; reflexivity). }
      rewrite Hre, Hhead. cbn [obind].
      set (y := Writer (rev (star_ind (S m0) dflt ++ [91%N] ++ render_key k ++ [93%N]) ++ rbuf x) (S m0)).
      assert (Hmid : mid_line y).
      { unfold y. rewrite !app_assoc, rev_app_distr. split; reflexivity. }
      destruct (HSP els y Hp Hmid) as [Ep [_ Hm13]]. cbn [indent_level] in Ep, Hm13. rewrite Ep. cbn [obind].
      rewrite (newline_plain _ Hm13). cbn [rbuf indent_level]. do 2 f_equal. unfold y. cbn [rbuf].
      rewrite !rev_app_distr. cbn [rev app]. rewrite <- !app_assoc. reflexivity. }
    clear Hhead Hopen.
    assert (Hgo : (serialize_variant (Variant k (Pattern els) dflt) >> newline >> ser_variants r) x =
                  obind ((serialize_variant (Variant k (Pattern els) dflt) >> newline) x) (ser_variants r)).
    { unfold wseq. destruct (serialize_variant (Variant k (Pattern els) dflt) x); reflexivity. }
    match goal with |- ?lhs = _ /\ _ => replace lhs with ((serialize_variant (Variant k (Pattern els) dflt) >> newline >> ser_variants r) x) end.
    2:{ reflexivity. }
    rewrite Hgo, Hall. cbn [obind].
    set (y := Writer (rev (star_ind (S m0) dflt ++ [91%N] ++ render_key k ++ [93%N] ++ pat_text (S m0) (Pattern (jels els)) ++ [10%N]) ++ rbuf x) (S m0)).
    assert (Hy10 : ends_with 10 y = true).
    { unfold y. rewrite !app_assoc, rev_app_distr. reflexivity. }
    destruct (IH y eq_refl Hy10) as [E I10].
    assert (Eb : rev (vars_text (S m0) (map join_variant r)) ++ rbuf y =
                 rev ((star_ind (S m0) dflt ++ [91%N] ++ render_key k ++ [93%N] ++ pat_text (S m0) (Pattern (jels els)) ++ [10%N]) ++
                      vars_text (S m0) (map join_variant r)) ++ rbuf x).
    { unfold y. cbn [rbuf]. rewrite (rev_app_distr (_ ++ _ ++ _ ++ _ ++ _ ++ _)), <- app_assoc. reflexivity. }
    rewrite Eb in E, I10. split; [exact E | exact I10].
Qed.

(* ---- serialize_expression ---- *)
Lemma SE_inline d i x : SI d -> (forall e1, i <> Placeable e1) -> sarg d i -> ends_with 10 x = false ->
  serialize_expression (Inline i) x = Done (Writer (rev (ex_text (indent_level x) (join_expr (Inline i))) ++ rbuf x) (indent_level x)) /\
  ends_with 10 (Writer (rev (ex_text (indent_level x) (join_expr (Inline i))) ++ rbuf x) (indent_level x)) = is_sel (join_expr (Inline i)).
Proof.
  intros HSI Hnp Hi H10. change (join_expr (Inline i)) with (Inline (join_inline i)). cbn [ex_text is_sel].
  destruct (HSI i Hi x H10) as [E H]. split; [exact E | exact H].
Qed.

Lemma SE_0 : SI 0 -> SE 0.
Proof.
  intros HSI e x He H10. destruct (sexp_0 e He) as (i & -> & Hi). apply (SE_inline 0 i x HSI); [intros e1 ->; discriminate Hi | | exact H10].
  split; [cbn [aokn]; rewrite (simple_inline_join i Hi); exact Hi | exact Logic.I].
Qed.

Lemma SE_S d : SI (S d) -> SE d -> SP d -> SE (S d).
Proof.
  intros HSI HSE HSP e x He H10.
  destruct (sexp_S d e He) as [(i & -> & Hnp & Hi) | [(e1 & -> & He1) | (sel & vs & -> & Hnp & Hsel & Hne & Hvs)]].
  - apply (SE_inline (S d) i x HSI Hnp Hi H10).
  - (* "{" expression "}" *)
    change (serialize_expression (Inline (Placeable e1))) with (lit "{" >> serialize_expression e1 >> lit "}").
    change (join_expr (Inline (Placeable e1))) with (Inline (Placeable (join_expr e1))).
    unfold wseq at 1. unfold lit at 1. rewrite write_literal_nolf by reflexivity. rewrite H10. cbn [obind bytes_of_string rev app].
    destruct (HSE e1 (Writer (N_of_ascii "{" :: rbuf x) (indent_level x)) He1 eq_refl) as [E1 H1].
    cbn [indent_level rbuf] in E1, H1. unfold wseq. rewrite E1. cbn [obind].
    unfold lit. rewrite write_literal_nolf by reflexivity. cbn [bytes_of_string indent_level rbuf]. rewrite H1.
    cbn [ex_text in_text is_sel].
    assert (Eb : rev [N_of_ascii "}"] ++ rev (if is_sel (join_expr e1) then ind (indent_level x) else []) ++
                 rev (ex_text (indent_level x) (join_expr e1)) ++ N_of_ascii "{" :: rbuf x =
                 rev ([123%N] ++ ex_text (indent_level x) (join_expr e1) ++ (if is_sel (join_expr e1) then ind (indent_level x) else []) ++ [125%N]) ++ rbuf x).
    { rewrite !rev_app_distr. cbn [rev app]. rewrite <- !app_assoc. reflexivity. }
    rewrite Eb. split; [reflexivity|]. rewrite !app_assoc, rev_app_distr. reflexivity.
  - (* a select expression *)
    rewrite serialize_select_eq, join_expr_select, ex_text_select.
    assert (Hw : writesL (serialize_inline_expression sel >> lit " ->") (fun m => in_text m (join_inline sel) ++ [32; 45; 62]%N)).
    { apply writesL_seq; [apply (HSI sel Hsel) | apply writesL_of_writes, (writes_lit " ->"); reflexivity]. }
    destruct (Hw x H10) as [E1 _].
    assert (Hre : (serialize_inline_expression sel >> lit " ->" >> newline >> indent >> ser_variants vs >> dedent) x =
                  obind ((serialize_inline_expression sel >> lit " ->") x) (newline >> indent >> ser_variants vs >> dedent)).
    { unfold wseq. destruct (serialize_inline_expression sel x) as [y1| |]; reflexivity. }
    rewrite Hre, E1. cbn [obind]. unfold wseq at 1.
    rewrite newline_plain by (rewrite rev_app_distr; reflexivity). cbn [obind rbuf indent_level].
    unfold wseq at 1. unfold indent at 1. cbn [obind rbuf indent_level].
    destruct (ser_variants_ok d (indent_level x) vs HSP Hvs
                (Writer (10%N :: rev (in_text (indent_level x) (join_inline sel) ++ [32; 45; 62]%N) ++ rbuf x) (S (indent_level x))) eq_refl eq_refl) as [E2 H2].
    cbn [rbuf] in E2, H2. unfold wseq. rewrite E2. cbn [obind]. unfold dedent. cbn [indent_level rbuf is_sel].
    assert (Eb : rev (vars_text (S (indent_level x)) (map join_variant vs)) ++ 10%N :: rev (in_text (indent_level x) (join_inline sel) ++ [32; 45; 62]%N) ++ rbuf x =
                 rev (in_text (indent_level x) (join_inline sel) ++ [32; 45; 62; 10]%N ++ vars_text (S (indent_level x)) (map join_variant vs)) ++ rbuf x).
    { rewrite !rev_app_distr. cbn [rev app]. rewrite <- !app_assoc. reflexivity. }
    unfold bytes in *. rewrite Eb in *. split; [reflexivity | exact H2].
Qed.

Lemma ser_all d : SI d /\ SE d /\ SP d.
Proof.
  induction d as [|d (HSI & HSE & HSP)].
  - split; [exact SI_0 | split; [exact (SE_0 SI_0) | apply SP_of_plw; intros m e; apply (plw_0 m e SI_0)]].
  - pose proof (SI_S d HSI HSE) as HI. pose proof (SE_S d HI HSE HSP) as HS.
    split; [exact HI | split; [exact HS | apply SP_of_plw; intros m e; apply (plw_S d m e HI HSE HS)]].
Qed.

(* ---------------------------------------------------------------------------------------------- *)
(* 4. The fragment of split trees of depth d; round trip and fixed point                             *)

Definition text_okb2 (g : expression -> bool) (el : pattern_element) : bool :=
  match el with
  | TextElement v => negb (match v with [] => true | _ => false end) && negb (existsb (N.eqb 10) (removelast v))
  | PlaceableElement e => g e
  end.
Definition good_inlb (g : inline -> bool) (i : inline) : bool :=
  match i with
  | FunctionReference _ (CallArguments ps _) => forallb g ps
  | TermReference _ _ (Some (CallArguments ps _)) => forallb g ps
  | _ => true
  end.

Fixpoint goodab (d : nat) (i : inline) : bool :=
  match d with
  | 0 => true
  | S d' => match i with Placeable e1 => goodnb d' e1 | _ => good_inlb (goodab d') i end
  end
with goodnb (d : nat) (e : expression) : bool :=
  match d with
  | 0 => true
  | S d' =>
      match e with
      | Inline (Placeable e1) => goodnb d' e1
      | Inline i => good_inlb (goodab d') i
      | Select sel vs =>
          good_inlb (goodab d') sel &&
          forallb (fun v => match v with Variant _ (Pattern els) _ => forallb (text_okb2 (goodnb d')) els end) vs
      end
  end.

Lemma text_okb2_spec (g : expression -> bool) (G : expression -> Prop) el :
  (forall e, g e = true <-> G e) -> (text_okb2 g el = true <-> text_ok G el).
Proof.
  intros Hg. destruct el as [v|e]; cbn [text_okb2 text_ok]; [|apply Hg]. unfold lf_last. split.
  - intros H. apply andb_prop in H as [H1 H2]. apply negb_true_iff in H2. split; [destruct v; [discriminate H1 | discriminate] | exact H2].
  - intros [H1 H2]. rewrite H2. destruct v; [congruence | reflexivity].
Qed.

Lemma good_inlb_spec (g : inline -> bool) (G : inline -> Prop) i :
  (forall x, g x = true <-> G x) -> (good_inlb g i = true <-> good_inl G i).
Proof.
  intros Hg.
  assert (Hl : forall ps, forallb g ps = true <-> Forall G ps).
  { intros ps. rewrite forallb_forall, Forall_forall. split; intros H x Hx; apply Hg, H, Hx. }
  destruct i as [s | v | id [ps ns] | id att | id att [[ps ns]|] | id | e]; cbn [good_inlb good_inl good_args];
    try (split; [intros _; exact Logic.I | reflexivity]); apply Hl.
Qed.

Lemma goodb_spec d : (forall i, goodab d i = true <-> gooda d i) /\ (forall e, goodnb d e = true <-> goodn d e).
Proof.
  induction d as [|d [IHa IHn]]; [split; intros x; (split; [intros _; exact Logic.I | reflexivity])|]. split.
  - intros i. cbn [goodab gooda]. destruct i; try apply (good_inlb_spec _ _ _ IHa). apply IHn.
  - intros e. destruct e as [sel vs | i]; cbn [goodnb goodn].
    + rewrite andb_true_iff, (good_inlb_spec _ _ sel IHa). apply and_iff_compat_l.
      rewrite forallb_forall, Forall_forall. split; intros H v Hv; specialize (H v Hv); destruct v as [k [els] d0].
      * apply Forall_forall. intros el Hel. apply (text_okb2_spec _ _ el IHn). rewrite forallb_forall in H. apply H, Hel.
      * apply forallb_forall. intros el Hel. apply (text_okb2_spec _ _ el IHn). rewrite Forall_forall in H. apply H, Hel.
    + destruct i; try apply (good_inlb_spec _ _ _ IHa). apply IHn.
Qed.

Lemma goodnb_spec d : forall e, goodnb d e = true <-> goodn d e.
Proof. apply (proj2 (goodb_spec d)). Qed.

(* a pattern as the parser returns it, of depth d: it joins (at every level) to a pattern of nest_pattern d; no
   text element, at any level, is empty, and a line feed is the last byte of its text element *)
Definition snest_pok (d : nat) (els : list pattern_element) : bool :=
  wl_pattern (eokn d) (Pattern (jels els)) && forallb (text_okb2 (goodnb d)) els.
Definition snest_resource (d : nat) (t : resource) : bool := g_resource (snest_pok d) t.

Lemma snest_pok_spat d els : snest_pok d els = true <-> spat d els.
Proof.
  unfold snest_pok, spat. rewrite andb_true_iff, forallb_forall, Forall_forall.
  split; intros [H1 H2]; (split; [exact H1|]); intros el Hel; apply (text_okb2_spec _ _ el (goodnb_spec d)), H2, Hel.
Qed.

Definition snest_vlay (d : nat) (els : list pattern_element) (V : bytes) : Prop := wl_value_layout (etextn d) (jels els) V.
Definition snest_ptext (d : nat) (k : nat) (els : list pattern_element) : bytes := pat_text k (Pattern (jels els)).
Definition rel3 (d : nat) (els'' els : list pattern_element) : Prop :=
  stream els'' = stream els /\ Forall (text_ok (goodn d)) els''.

Lemma snest_ser d els x : snest_pok d els = true -> mid_line x ->
  serialize_pattern (Pattern els) x = Done (Writer (rev (snest_ptext d (indent_level x) els) ++ rbuf x) (indent_level x)) /\
  mid_line (Writer (rev (snest_ptext d (indent_level x) els) ++ rbuf x) (indent_level x)).
Proof. intros Hp. apply (proj2 (proj2 (ser_all d))), snest_pok_spat, Hp. Qed.

Lemma snest_lay d k els : snest_pok d els = true -> k <= 1 -> snest_vlay d els (snest_ptext d k els).
Proof. intros Hp _. apply (proj2 (proj2 (layouts_all d))). apply snest_pok_spat in Hp. exact (proj1 Hp). Qed.

Lemma jels_unstream d els : Forall (text_ok (goodn d)) els -> jels els = unstream (stream els).
Proof. intros Hok. apply join_unstream, (Forall_impl _ (text_ok_nonempty (goodn d)) Hok). Qed.

Lemma rel3_jels d els'' els : rel3 d els'' els -> spat d els -> jels els'' = jels els.
Proof. intros [Hst Hok''] [_ Hok]. rewrite (jels_unstream d els'' Hok''), (jels_unstream d els Hok), Hst. reflexivity. Qed.

Lemma rel3_pok d els'' els : rel3 d els'' els -> snest_pok d els = true ->
  snest_pok d els'' = true /\ forall k, snest_ptext d k els'' = snest_ptext d k els.
Proof.
  intros Hrel Hp. apply snest_pok_spat in Hp. pose proof (rel3_jels d els'' els Hrel Hp) as EJ. split.
  - apply snest_pok_spat. split; [rewrite EJ; exact (proj1 Hp) | exact (proj2 Hrel)].
  - intros k. unfold snest_ptext. rewrite EJ. reflexivity.
Qed.

Lemma rel3_join d els'' els : rel3 d els'' els -> snest_pok d els = true ->
  join_pattern (Pattern els'') = join_pattern (Pattern els).
Proof. intros Hrel Hp. apply snest_pok_spat in Hp. rewrite !join_pattern_jels, (rel3_jels d els'' els Hrel Hp). reflexivity. Qed.

(* the stream of the joined elements *)
Lemma stream_join_map els : (forall e, In (PlaceableElement e) els -> join_expr (join_expr e) = join_expr e) ->
  stream (join_els_map els) = stream els.
Proof.
  induction els as [|el r IH]; intros H; [reflexivity|]. unfold stream in *. cbn [join_els_map flat_map].
  rewrite IH by (intros e He; apply H; right; exact He). f_equal.
  destruct el as [v|e]; [reflexivity|]. cbn [join_element stream_el]. rewrite (H e (or_introl eq_refl)). reflexivity.
Qed.

Lemma stream_jels d els : spat d els -> stream (jels els) = stream els.
Proof.
  intros Hp. destruct (spat_facts d els Hp) as (_ & _ & Hpl & _). unfold jels. rewrite stream_join. apply stream_join_map.
  intros e He. destruct (Hpl e He) as [Hk _]. destruct (facts_alln d) as (_ & _ & J & _). apply (J _ Hk).
Qed.

Lemma snest_get_pattern d bs els V T used c nx p n :
  snest_pok d els = true -> snest_vlay d els V -> after_value T used c nx -> at_ bs p (V ++ T) ->
  3 * length (V ++ T) + 12 <= n ->
  exists els', get_pattern bs n p = Ok (Some (Pattern els')) (used + (length V + p)) /\ rel3 d els' els.
Proof.
  intros Hp HV HT H Hn. apply snest_pok_spat in Hp. destruct (facts_alln d) as (_ & R & J & W & P).
  destruct (get_pattern_wl (eokn d) (etextn d) (goodn d) R J P bs (jels els) V T used c nx p n (proj1 Hp) HV HT H Hn)
    as (els' & E & _ & Hok & Hst).
  exists els'. split; [exact E|]. split; [rewrite Hst; apply (stream_jels d els Hp) | exact Hok].
Qed.

Lemma snest_strip d els V : snest_pok d els = true -> snest_vlay d els V ->
  exists k V0, V = sp k ++ V0 /\ snest_vlay d els (sp 0 ++ V0) /\ forall T, head_not is_space (V0 ++ T).
Proof. intros Hp HV. apply snest_pok_spat in Hp. apply (wl_value_layout_strip (eokn d) (etextn d) _ V (proj1 Hp) HV). Qed.

Definition snest_resource_text (d : nat) (t : resource) : bytes := g_resource_text (snest_ptext d) t.

(* C04 on the fragment of depth d *)
Theorem parse_serialize_snest d with_junk t : snest_resource d t = true ->
  exists t2, serialize_with_options with_junk t = Done (snest_resource_text d t) /\
             parse (snest_resource_text d t) = Done (t2, []) /\
             norm t2 = norm t /\ snest_resource d t2 = true /\
             serialize_with_options with_junk t2 = Done (snest_resource_text d t).
Proof.
  intros Ht. unfold snest_resource in Ht.
  destruct (g_parse_serialize (snest_pok d) (snest_vlay d) (snest_ptext d) (snest_ser d) (snest_lay d) (rel3 d) with_junk t
              (snest_get_pattern d) (snest_strip d) Ht) as (t2 & Es & Ep & Hrel).
  exists t2. split; [exact Es | split; [exact Ep|]].
  pose proof (g_nz_resource (snest_pok d) t Ht) as Hnz.
  destruct (g_rel_text (snest_pok d) (snest_ptext d) (rel3 d) (rel3_pok d) t2 (nz_resource t) Hrel Hnz) as [Ht2 Etext].
  split; [|split; [exact Ht2|]].
  - rewrite <- (norm_nz_resource t). apply norm_of_join.
    apply (g_rel_join (snest_pok d) (rel3 d) t2 (nz_resource t) (rel3_join d) Hrel Hnz).
  - rewrite (g_serialize (snest_pok d) (snest_ptext d) (snest_ser d) with_junk t2 Ht2). f_equal.
    unfold snest_resource_text, g_resource_text. rewrite (Etext false). apply g_text_from_nz.
Qed.

(* ---- the fragment contains what the parser returns for every layout of a tree of nest_resource d ---- *)
Lemma g_resource_rel (pok1 pok2 : list pattern_element -> bool) (rel : list pattern_element -> list pattern_element -> Prop) t' t :
  (forall els' els, rel els' els -> pok1 els = true -> pok2 els' = true) ->
  Forall2 (rel_entry rel) t' t -> g_resource pok1 t = true -> g_resource pok2 t' = true.
Proof.
  intros Hr.
  assert (Hattrs : forall a' a, Forall2 (rel_attr rel) a' a -> forallb (g_attribute pok1) a = true ->
                                forallb (g_attribute pok2) a' = true).
  { induction 1 as [|x y l l' Hxy Hl IH]; intros Ha; [reflexivity|].
    cbn [forallb] in Ha. apply andb_prop in Ha as [Hy Hl']. cbn [forallb]. rewrite (IH Hl'), andb_true_r.
    destruct x as [id' [els']], y as [id [els]]. destruct Hxy as [Hid Hp]. cbn [attr_id attr_value] in Hid, Hp. subst id'.
    unfold g_attribute in *. cbn [attr_id attr_value g_pattern] in *. apply andb_prop in Hy as [Hy1 Hy2].
    rewrite Hy1. apply (Hr els' els Hp Hy2). }
  intros Hrel. induction Hrel as [|e' e l l' Hxy Hl IH]; intros Ht; [reflexivity|].
  cbn [g_resource forallb] in Ht. apply andb_prop in Ht as [He Hl']. unfold g_resource in *. cbn [forallb]. rewrite (IH Hl'), andb_true_r.
  unfold g_entry in *. apply andb_prop in He as [He Hc].
  destruct e' as [id' [[els']|] a' c'|id' [els'] a' c'|c'|c'|c'|j'], e as [id [[els]|] a c|id [els] a c|c|c|c|j];
    cbn [rel_entry] in Hxy; try contradiction;
    cbn [strip_comment entry_comment g_plain_entry g_pattern] in *; try (subst; rewrite He; reflexivity).
  - destruct Hxy as (-> & Hp & Ha & ->). unfold rel_pattern in Hp. cbn [pattern_elements] in Hp.
    apply andb_prop in He as [He Hattrs']. apply andb_prop in He as [Hid Hv].
    rewrite Hid, (Hr els' els Hp Hv), (Hattrs a' a Ha Hattrs'), Hc. reflexivity.
  - destruct Hxy as (-> & Ha & ->). apply andb_prop in He as [He Hattrs']. apply andb_prop in He as [Hid Hne].
    rewrite Hid, (Hattrs a' a Ha Hattrs'), Hc.
    replace (match a' with [] => true | _ :: _ => false end) with (match a with [] => true | _ :: _ => false end)
      by (inversion Ha; reflexivity).
    rewrite Hne. reflexivity.
  - destruct Hxy as (-> & Hp & Ha & ->). unfold rel_pattern in Hp. cbn [pattern_elements] in Hp.
    apply andb_prop in He as [He Hattrs']. apply andb_prop in He as [Hid Hv].
    rewrite Hid, (Hr els' els Hp Hv), (Hattrs a' a Ha Hattrs'), Hc. reflexivity.
Qed.

Lemma srel_snest_pok d els' els : srel (goodn d) els' els -> ml_pok (eokn d) els = true -> snest_pok d els' = true.
Proof.
  intros (Hj & Hok & _) Hp. apply snest_pok_spat. split; [|exact Hok].
  unfold jrel in Hj. rewrite join_pattern_jels in Hj. injection Hj as ->. exact Hp.
Qed.

Theorem parser_outputs_snest d cs t : nest_resource d t = true -> last_comment_ok t = true ->
  exists t', parse (render cs t) = Done (t', []) /\ snest_resource d t' = true /\ map join_entry t' = t.
Proof.
  intros Ht Hlast. destruct (parse_render_nest_split d cs t Ht Hlast) as (t' & E & Hrel). exists t'. split; [exact E|]. split.
  - unfold nest_resource in Ht. rewrite <- (ml_resource_g (eokn d)) in Ht.
    apply (g_resource_rel (ml_pok (eokn d)) (snest_pok d) (srel (goodn d)) t' t (srel_snest_pok d) Hrel Ht).
  - apply jrel_entries. apply (rel_entries_mono (srel (goodn d)) jrel t' t); [intros x y [H _]; exact H | exact Hrel].
Qed.

(* the depth-0 fragment of SerializerML.v is the fragment of depth 0 *)
Lemma sml_pok_snest els : sml_pok els = true -> snest_pok 0 els = true.
Proof.
  intros Hp. destruct (sml_pok_parts els Hp) as (Hml & Hok & Hsp). apply snest_pok_spat. split; [|exact Hok].
  unfold jels. rewrite (split_join_map els Hsp). exact Hml.
Qed.

Theorem sml_resource_snest t : sml_resource t = true -> snest_resource 0 t = true.
Proof. apply g_resource_mono. exact sml_pok_snest. Qed.

(* ... and for EVERY layout (RoundTripNest.nest_layout) of such a tree, not only the ones Render.v prints *)
Theorem parser_outputs_snest_layout d t bs : nest_resource d t = true -> nest_layout d t bs ->
  exists t', parse bs = Done (t', []) /\ snest_resource d t' = true /\ map join_entry t' = t.
Proof.
  intros Ht HL. destruct (parse_layout_nest_split d t bs Ht HL) as (t' & E & Hrel). exists t'. split; [exact E|]. split.
  - unfold nest_resource in Ht. rewrite <- (ml_resource_g (eokn d)) in Ht.
    apply (g_resource_rel (ml_pok (eokn d)) (snest_pok d) (srel (goodn d)) t' t (srel_snest_pok d) Hrel Ht).
  - apply jrel_entries. apply (rel_entries_mono (srel (goodn d)) jrel t' t); [intros x y [H _]; exact H | exact Hrel].
Qed.

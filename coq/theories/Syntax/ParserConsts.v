(* Syntax/ParserConsts.v — the byte classes the parser model carries by transliteration are the ones
   written in the Rust source NOW: Gen/Extracted.v is regenerated from /repo on every run
   (tools/extract_consts.py), so a change of one of these sets in the source breaks this file. *)
From FluentV Require Import Base.Bytes Syntax.ParserModel Gen.Extracted.

Ltac bool_cases b :=
  repeat match goal with
         | |- context [N.eqb b ?k] => destruct (N.eqb b k)
         end; reflexivity.

Lemma continuation_from_source b :
  is_byte_pattern_continuation b = negb (byte_in b PARSER_NOT_CONTINUATION).
Proof. unfold is_byte_pattern_continuation, byte_in, PARSER_NOT_CONTINUATION. cbn [existsb]. bool_cases b. Qed.

(* the test in scan_entry_start *)
Lemma entry_start_from_source b :
  (is_ascii_alphabetic b || N.eqb b 45 || N.eqb b 35) = (is_ascii_alphabetic b || byte_in b PARSER_ENTRY_START_EXTRA).
Proof.
  unfold byte_in, PARSER_ENTRY_START_EXTRA. cbn [existsb].
  destruct (is_ascii_alphabetic b); cbn [orb]; [reflexivity|]. bool_cases b.
Qed.

Lemma ident_char_from_source b :
  is_ident_char b = (is_ascii_alphanumeric b || byte_in b PARSER_IDENT_EXTRA).
Proof.
  unfold is_ident_char, byte_in, PARSER_IDENT_EXTRA. cbn [existsb].
  destruct (is_ascii_alphanumeric b); cbn [orb]; [reflexivity|]. bool_cases b.
Qed.

Lemma callee_from_source name :
  is_callee name =
  forallb (fun c => is_ascii_uppercase c || is_ascii_digit c || byte_in c PARSER_CALLEE_EXTRA) name.
Proof.
  unfold is_callee. induction name as [|c r IH]; [reflexivity|]. cbn [forallb]. rewrite IH. f_equal.
  unfold byte_in, PARSER_CALLEE_EXTRA. cbn [existsb].
  destruct (is_ascii_uppercase c); cbn [orb]; [reflexivity|].
  destruct (is_ascii_digit c); cbn [orb]; [reflexivity|]. bool_cases c.
Qed.

Lemma fluent_ws_from_source b : matches_fluent_ws b = byte_in b FLUENT_WS.
Proof. unfold matches_fluent_ws, byte_in, FLUENT_WS, c_sp, c_cr, c_lf. cbn [existsb]. bool_cases b. Qed.

(* the stop test of memchr3 in get_text_slice *)
Lemma text_stop_from_source b :
  (N.eqb b c_lf || N.eqb b 123 || N.eqb b 125) = byte_in b PARSER_TEXT_STOP.
Proof. unfold byte_in, PARSER_TEXT_STOP, c_lf. cbn [existsb]. bool_cases b. Qed.

(* the two-byte escapes of a string literal *)
Lemma simple_escapes_from_source c :
  (N.eqb c 92 || N.eqb c 123 || N.eqb c 34) = byte_in c PARSER_SIMPLE_ESCAPES.
Proof. unfold byte_in, PARSER_SIMPLE_ESCAPES. cbn [existsb]. bool_cases c. Qed.

Lemma unicode_escape_lengths_from_source : PARSER_UNICODE_ESCAPE_LENGTHS = (4, 6).
Proof. reflexivity. Qed.

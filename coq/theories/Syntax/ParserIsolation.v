(* Syntax/ParserIsolation.v — C03, containment half: what the parser does from a position on depends
   only on the bytes from that position on (suffix independence), and its consequences for the
   entry loops: entries after / before a damaged entry.

   Setting of part 1: bs1 = pre ++ s, d = length pre.  A position p of s corresponds to p + d of bs1.
   `sim f m1 m2` : for every p,  m1 (p + d) = sh_res f (m2 p), i.e. the run on bs1 from p + d is the
   run on s from p with every position (ptr, error positions, error slice) shifted by d and the
   value mapped by f (f shifts the positions stored inside values; trees carry no positions).
   Hypotheses: s does not begin with a UTF-8 continuation byte (so that slicing at d is legal in bs1
   exactly when slicing at 0 is legal in s) and, for the entry loops only, pre is empty or ends
   with a line feed (scan_to_next_entry_start looks at the byte before the cursor).              *)
From FluentV Require Import Syntax.ParserModel Syntax.RuntimeAgree.
From FluentV Require Syntax.ParserAccounting.
From Coq Require Import Lia ZifyBool ZifyNat ZifyN List.
Import ListNotations.
Arguments N.add : simpl never. Arguments N.sub : simpl never. Arguments N.eqb : simpl never.
Arguments N.ltb : simpl never. Arguments N.leb : simpl never.

Definition head_noncont (s : bytes) : Prop :=
  match s with b :: _ => is_cont b = false | [] => True end.
Definition ends_nl (pre : bytes) : Prop :=
  pre = [] \/ nth_error pre (length pre - 1) = Some c_lf.

(* ================= 1. shifting results ================= *)
Section ShiftDefs.
Variable d : nat.

Definition sh_pair (ab : nat * nat) : nat * nat := (fst ab + d, snd ab + d).
Definition sh_err (e : perror) : perror :=
  PError (kind e) (pos_start e + d) (pos_end e + d) (option_map sh_pair (eslice e)).
Definition sh_res {A} (f : A -> A) (r : res A) : res A :=
  match r with
  | Ok a p => Ok (f a) (p + d)
  | Err e p => Err (sh_err e) (p + d)
  | Pan t => Pan t
  | Fuel => Fuel
  end.
Definition sh_pos (p : nat) : nat := p + d.
Definition sh_sum {A} (f : A -> A) (x : perror + A) : perror + A :=
  match x with inl e => inl (sh_err e) | inr a => inr (f a) end.
Definition sh_ts (x : nat * nat * bool * termination) : nat * nat * bool * termination :=
  let '(a, b, nb, t) := x in (a + d, b + d, nb, t).
Definition sh_ph (ph : placeholder) : placeholder :=
  match ph with
  | PHPlaceable e => PHPlaceable e
  | PHText a b i r => PHText (a + d) (b + d) i r
  end.
Definition sh_pstate (st : pstate) : pstate :=
  PState (map sh_ph (elements st)) (n_elements st) (last_non_blank st) (common_indent st) (role st).
Definition sh_out (x : list entry * list perror) : list entry * list perror :=
  (fst x, map sh_err (snd x)).

Definition sim {A} (f : A -> A) (m1 m2 : M A) : Prop :=
  forall p, m1 (p + d) = sh_res f (m2 p).

Lemma sim_bind {A B} (fA : A -> A) (fB : B -> B) (m1 m2 : M A) (k1 k2 : A -> M B) :
  sim fA m1 m2 -> (forall a, sim fB (k1 (fA a)) (k2 a)) -> sim fB (bind m1 k1) (bind m2 k2).
Proof.
  intros Hm Hk p. unfold bind. rewrite Hm. destruct (m2 p); cbn [sh_res]; try reflexivity. apply Hk.
Qed.

Lemma sim_try {A} (f : A -> A) (m1 m2 : M A) : sim f m1 m2 -> sim (sh_sum f) (try_ m1) (try_ m2).
Proof. intros Hm p. unfold try_. rewrite Hm. destruct (m2 p); reflexivity. Qed.

Lemma sim_ret {A} (f : A -> A) (a1 a2 : A) : a1 = f a2 -> sim f (ret a1) (ret a2).
Proof. intros -> p. reflexivity. Qed.

Lemma sim_fuel {A} (f : A -> A) : sim f out_of_fuel out_of_fuel.
Proof. intros p. reflexivity. Qed.
Lemma sim_panic {A} (f : A -> A) t : sim f (panic t) (panic t).
Proof. intros p. reflexivity. Qed.
Lemma sim_get_ptr : sim (fun p => p + d) get_ptr get_ptr.
Proof. intros p. reflexivity. Qed.
Lemma sim_set_ptr q : sim (fun a => a) (set_ptr (q + d)) (set_ptr q).
Proof. intros p. reflexivity. Qed.
Lemma sim_advance k : sim (fun a => a) (advance k) (advance k).
Proof. intros p. unfold advance. cbn [sh_res]. f_equal. lia. Qed.
Lemma sim_error_here {A} (f : A -> A) k : sim f (error_here k) (error_here k).
Proof. intros p. reflexivity. Qed.
Lemma sim_error_range {A} (f : A -> A) k a b : sim f (error_range k (a + d) (b + d)) (error_range k a b).
Proof. intros p. reflexivity. Qed.
Lemma sim_error_at {A} (f : A -> A) k a : sim f (error_at k (a + d)) (error_at k a).
Proof. intros p. reflexivity. Qed.
Lemma sim_err {A} (f : A -> A) e : sim f (fun q => Err (sh_err e) q) (fun q => Err e q).
Proof. intros p. reflexivity. Qed.

(* arithmetic on shifted positions *)
Lemma ltb_shift a b : Nat.ltb (a + d) (b + d) = Nat.ltb a b.
Proof. destruct (Nat.ltb_spec a b), (Nat.ltb_spec (a + d) (b + d)); lia. Qed.
Lemma leb_shift a b : Nat.leb (a + d) (b + d) = Nat.leb a b.
Proof. destruct (Nat.leb_spec a b), (Nat.leb_spec (a + d) (b + d)); lia. Qed.
Lemma eqb_shift a b : Nat.eqb (a + d) (b + d) = Nat.eqb a b.
Proof. destruct (Nat.eqb_spec a b), (Nat.eqb_spec (a + d) (b + d)); lia. Qed.
Lemma sub_shift a b : (a + d) - (b + d) = a - b.
Proof. lia. Qed.
Lemma min_shift a b : Nat.min (a + d) (b + d) = Nat.min a b + d.
Proof. lia. Qed.
Lemma add_shift k p : k + (p + d) = (k + p) + d.
Proof. lia. Qed.
Lemma add_shift_l a i : a + d + i = a + i + d.
Proof. lia. Qed.
End ShiftDefs.

Lemma Ok_eq {A} (a a' : A) p p' : a = a' -> p = p' -> Ok a p = Ok a' p'.
Proof. intros -> ->. reflexivity. Qed.
Lemma Err_eq {A} e e' p p' : e = e' -> p = p' -> @Err A e p = Err e' p'.
Proof. intros -> ->. reflexivity. Qed.
Lemma PError_eq k a a' b b' o o' : a = a' -> b = b' -> o = o' -> PError k a b o = PError k a' b' o'.
Proof. intros -> -> ->. reflexivity. Qed.
Lemma pair_eq {A B} (a a' : A) (b b' : B) : a = a' -> b = b' -> (a, b) = (a', b').
Proof. intros -> ->. reflexivity. Qed.
Ltac shfin :=
  cbn [sh_res sh_ts]; unfold sh_err, sh_pair;
  cbn [kind pos_start pos_end eslice option_map fst snd];
  repeat match goal with
         | |- Ok _ _ = Ok _ _ => apply Ok_eq
         | |- Err _ _ = Err _ _ => apply Err_eq
         | |- PError _ _ _ _ = PError _ _ _ _ => apply PError_eq
         | |- (_, _) = (_, _) => apply pair_eq
         end; try reflexivity; try lia.

(* ================= 2. the primitives ================= *)
Section Prims.
Variables pre s bs1 : bytes.
Hypothesis Hbs1 : bs1 = pre ++ s.
Hypothesis Hcb : head_noncont s.
Notation d := (length pre).
Notation sim := (sim d).

Lemma byte_at_shift p : byte_at bs1 (p + d) = byte_at s p.
Proof.
  unfold byte_at. rewrite Hbs1, nth_error_app2 by lia. f_equal. lia.
Qed.
Lemma rest_shift p : rest bs1 (p + d) = rest s p.
Proof.
  unfold rest. rewrite Hbs1, skipn_app, skipn_all2 by lia. cbn [app]. f_equal. lia.
Qed.
Lemma skipn_shift p : skipn (p + d) bs1 = skipn p s.
Proof. exact (rest_shift p). Qed.
Lemma length_shift : length_ bs1 = length_ s + d.
Proof. unfold length_. rewrite Hbs1, app_length. lia. Qed.
Lemma length_shift' : length bs1 = length s + d.
Proof. exact length_shift. Qed.
Lemma is_byte_at_shift b p : is_byte_at bs1 b (p + d) = is_byte_at s b p.
Proof. unfold is_byte_at. rewrite byte_at_shift. reflexivity. Qed.
Lemma is_byte_at_shift_S b p : is_byte_at bs1 b (S (p + d)) = is_byte_at s b (S p).
Proof. exact (is_byte_at_shift b (S p)). Qed.

Lemma is_char_boundary_shift a : is_char_boundary bs1 (a + d) = is_char_boundary s a.
Proof.
  unfold is_char_boundary. rewrite length_shift'.
  change (nth_error bs1 (a + d)) with (byte_at bs1 (a + d)). rewrite byte_at_shift. unfold byte_at.
  destruct a as [|a].
  - cbn [Nat.eqb Nat.add]. destruct (Nat.eqb d 0) eqn:E0; [reflexivity|].
    destruct s as [|b r]; cbn [length Nat.add].
    + rewrite Nat.compare_refl. reflexivity.
    + assert (Hc : Nat.compare d (S (length r + d)) = Lt) by (apply Nat.compare_lt_iff; lia).
      rewrite Hc. cbn [nth_error]. cbn in Hcb. rewrite Hcb. reflexivity.
  - assert (E1 : Nat.eqb (S a + d) 0 = false) by (apply Nat.eqb_neq; lia). rewrite E1.
    cbn [Nat.eqb].
    assert (E2 : Nat.compare (S a + d) (length s + d) = Nat.compare (S a) (length s)).
    { destruct (Nat.compare_spec (S a) (length s)), (Nat.compare_spec (S a + d) (length s + d)); try reflexivity; lia. }
    rewrite E2. reflexivity.
Qed.

Lemma slice_shift a b : slice bs1 (a + d) (b + d) = slice s a b.
Proof.
  unfold slice. rewrite !is_char_boundary_shift, leb_shift, length_shift', leb_shift, sub_shift, skipn_shift.
  reflexivity.
Qed.

Lemma sim_lift_slice a b : sim (fun x => x) (source_slice bs1 (a + d) (b + d)) (source_slice s a b).
Proof. intros p. unfold source_slice. rewrite slice_shift. destruct (slice s a b); reflexivity. Qed.

Lemma sim_current_byte : sim (fun x => x) (current_byte bs1) (current_byte s).
Proof. intros p. unfold current_byte. rewrite byte_at_shift. reflexivity. Qed.
Lemma sim_is_current_byte b : sim (fun x => x) (is_current_byte bs1 b) (is_current_byte s b).
Proof. intros p. unfold is_current_byte. rewrite byte_at_shift. reflexivity. Qed.
Lemma sim_is_eol : sim (fun x => x) (is_eol bs1) (is_eol s).
Proof. intros p. unfold is_eol. rewrite byte_at_shift, is_byte_at_shift_S. reflexivity. Qed.
Lemma sim_is_identifier_start : sim (fun x => x) (is_identifier_start bs1) (is_identifier_start s).
Proof. intros p. unfold is_identifier_start. rewrite byte_at_shift. reflexivity. Qed.
Lemma sim_is_number_start : sim (fun x => x) (is_number_start bs1) (is_number_start s).
Proof. intros p. unfold is_number_start. rewrite byte_at_shift. reflexivity. Qed.
Lemma sim_take_byte_if b : sim (fun x => x) (take_byte_if bs1 b) (take_byte_if s b).
Proof. intros p. unfold take_byte_if. rewrite is_byte_at_shift. destruct (is_byte_at s b p); reflexivity. Qed.
Lemma sim_expect_byte b : sim (fun x => x) (expect_byte bs1 b) (expect_byte s b).
Proof. intros p. unfold expect_byte. rewrite is_byte_at_shift. destruct (is_byte_at s b p); reflexivity. Qed.
Lemma sim_skip_eol : sim (fun x => x) (skip_eol bs1) (skip_eol s).
Proof.
  intros p. unfold skip_eol. rewrite rest_shift. destruct (eol_len (rest s p)); cbn [sh_res]; [reflexivity|].
  f_equal. lia.
Qed.
Lemma sim_skip_blank_block : sim (fun x => x) (skip_blank_block bs1) (skip_blank_block s).
Proof.
  intros p. unfold skip_blank_block. rewrite rest_shift, length_shift, sub_shift.
  destruct (blank_block (S (length_ s - p)) (rest s p)) as [c m]. cbn [sh_res]. f_equal. lia.
Qed.
Lemma sim_skip_blank : sim (fun x => x) (skip_blank bs1) (skip_blank s).
Proof. intros p. unfold skip_blank. rewrite rest_shift. cbn [sh_res]. f_equal. lia. Qed.
Lemma sim_skip_blank_inline : sim (fun x => x) (skip_blank_inline bs1) (skip_blank_inline s).
Proof. intros p. unfold skip_blank_inline. rewrite rest_shift. cbn [sh_res]. f_equal. lia. Qed.
Lemma sim_skip_digits : sim (fun x => x) (skip_digits bs1) (skip_digits s).
Proof.
  intros p. unfold skip_digits. rewrite rest_shift.
  destruct (Nat.eqb (scan_while is_ascii_digit (rest s p)) 0); cbn [sh_res]; [reflexivity|]. f_equal. lia.
Qed.

Lemma sim_skip_unicode k : sim (fun x => x) (skip_unicode_escape_sequence bs1 k) (skip_unicode_escape_sequence s k).
Proof.
  intros p. unfold skip_unicode_escape_sequence. rewrite rest_shift, length_shift.
  set (got := Nat.min k (scan_while is_ascii_hexdigit (rest s p))).
  rewrite (add_shift d got p). destruct (Nat.eqb got k); [reflexivity|].
  rewrite leb_shift.
  assert (E : (if Nat.leb (length_ s) (got + p) then got + p + d else S (got + p + d)) =
              (if Nat.leb (length_ s) (got + p) then got + p else S (got + p)) + d).
  { destruct (Nat.leb (length_ s) (got + p)); reflexivity. }
  rewrite E. set (e0 := if Nat.leb (length_ s) (got + p) then got + p else S (got + p)).
  rewrite skipn_shift. rewrite (add_shift_l d e0), slice_shift.
  destruct (slice s p (e0 + scan_while is_cont (skipn e0 s))); reflexivity.
Qed.

(* get_identifier_unchecked looks one byte behind: only after `advance 1` *)
Lemma giu_shift p : 1 <= p ->
  get_identifier_unchecked bs1 (p + d) = sh_res d (fun x => x) (get_identifier_unchecked s p).
Proof.
  intros Hp. unfold get_identifier_unchecked. rewrite rest_shift.
  assert (E1 : Nat.leb 1 (p + d) = true) by (apply Nat.leb_le; lia).
  assert (E2 : Nat.leb 1 p = true) by (apply Nat.leb_le; lia). rewrite E1, E2.
  replace (p + d - 1) with ((p - 1) + d) by lia. rewrite (add_shift d _ p), slice_shift.
  destruct (slice s (p - 1) (scan_while is_ident_char (rest s p) + p)); reflexivity.
Qed.

Lemma sim_adv1 {B} (fB : B -> B) (m1 m2 : M B) :
  (forall p, 1 <= p -> m1 (p + d) = sh_res d fB (m2 p)) ->
  sim fB (bind (advance 1) (fun _ => m1)) (bind (advance 1) (fun _ => m2)).
Proof. intros H p. exact (H (S p) ltac:(lia)). Qed.

Lemma sim_adv_giu {B} (fB : B -> B) (k1 k2 : bytes -> M B) :
  (forall a, sim fB (k1 a) (k2 a)) ->
  sim fB (bind (advance 1) (fun _ => bind (get_identifier_unchecked bs1) k1))
         (bind (advance 1) (fun _ => bind (get_identifier_unchecked s) k2)).
Proof.
  intros Hk. apply sim_adv1. intros p Hp. unfold bind. rewrite giu_shift by lia.
  destruct (get_identifier_unchecked s p); cbn [sh_res]; try reflexivity. apply Hk.
Qed.

(* `advance 1; if is_identifier_start { A } else { retreat 1; B }` *)
Lemma sim_adv_start_retreat {B} (fB : B -> B) (a1 a2 : M B) (b1 b2 : unit -> M B) :
  sim fB a1 a2 -> sim fB (b1 tt) (b2 tt) ->
  sim fB (bind (advance 1) (fun _ => bind (is_identifier_start bs1) (fun st => if st then a1 else bind (retreat 1) b1)))
         (bind (advance 1) (fun _ => bind (is_identifier_start s) (fun st => if st then a2 else bind (retreat 1) b2))).
Proof.
  intros Ha Hb. apply sim_adv1. intros p Hp. unfold bind.
  rewrite (sim_is_identifier_start p). unfold is_identifier_start. cbn [sh_res].
  destruct (match byte_at s p with Some b => is_ascii_alphabetic b | None => false end).
  - apply Ha.
  - unfold retreat.
    assert (E1 : Nat.leb 1 (p + d) = true) by (apply Nat.leb_le; lia).
    assert (E2 : Nat.leb 1 p = true) by (apply Nat.leb_le; lia). rewrite E1, E2.
    replace (p + d - 1) with ((p - 1) + d) by lia. apply Hb.
Qed.

(* the tail of a string literal: expect the closing quote; let p = ptr; slice(start, p - 1) *)
Lemma sim_string_tail {B} (fB : B -> B) start (k1 k2 : bytes -> M B) :
  (forall a, sim fB (k1 a) (k2 a)) ->
  sim fB (bind (expect_byte bs1 34) (fun _ => bind get_ptr (fun p =>
            bind (if Nat.leb 1 p then ret tt else panic "attempt to subtract with overflow")
                 (fun _ => bind (source_slice bs1 (start + d) (p - 1)) k1))))
         (bind (expect_byte s 34) (fun _ => bind get_ptr (fun p =>
            bind (if Nat.leb 1 p then ret tt else panic "attempt to subtract with overflow")
                 (fun _ => bind (source_slice s start (p - 1)) k2)))).
Proof.
  intros Hk p. unfold bind, get_ptr. rewrite (sim_expect_byte 34 p). unfold expect_byte.
  destruct (is_byte_at s 34 p); cbn [sh_res]; [|reflexivity].
  change (Nat.leb 1 (S p + d)) with true. change (Nat.leb 1 (S p)) with true. unfold ret.
  replace (S p + d - 1) with (p + d) by lia. replace (S p - 1) with p by lia.
  rewrite (sim_lift_slice start p (S p)).
  destruct (source_slice s start p (S p)); cbn [sh_res]; try reflexivity. apply Hk.
Qed.

Lemma byte_at_shift_S p : byte_at bs1 (S (p + d)) = byte_at s (S p).
Proof. exact (byte_at_shift (S p)). Qed.

Lemma sim_adv_giu0 :
  sim (fun x => x) (bind (advance 1) (fun _ => get_identifier_unchecked bs1))
                   (bind (advance 1) (fun _ => get_identifier_unchecked s)).
Proof. apply sim_adv1. intros p Hp. apply giu_shift. exact Hp. Qed.

(* ---- the stepping tactic (same shape as the fuel-monotonicity proof of RuntimeAgree.v) ---- *)
Ltac sim_norm :=
  rewrite ?length_shift, ?ltb_shift, ?eqb_shift, ?leb_shift, ?is_byte_at_shift, ?is_byte_at_shift_S,
          ?byte_at_shift, ?byte_at_shift_S.

Ltac sim_leaf :=
  first [ apply sim_fuel | apply sim_panic | apply sim_get_ptr | apply sim_set_ptr | apply sim_advance
        | apply sim_error_here | apply sim_error_range | apply sim_error_at | apply sim_err
        | apply sim_lift_slice | apply sim_current_byte | apply sim_is_current_byte | apply sim_is_eol
        | apply sim_is_identifier_start | apply sim_is_number_start | apply sim_take_byte_if
        | apply sim_expect_byte | apply sim_skip_eol | apply sim_skip_blank_block | apply sim_skip_blank
        | apply sim_skip_blank_inline | apply sim_skip_digits | apply sim_skip_unicode
        | apply sim_adv_giu0 ].

Ltac sim_shcbn := cbn [sh_sum sh_ts sh_pstate fst snd elements n_elements last_non_blank common_indent role].

Ltac sim_step tac :=
  first
   [ sim_leaf
   | tac
   | apply sim_ret; reflexivity
   | apply sim_adv_giu; intros ?
   | apply sim_adv_start_retreat
   | apply sim_string_tail; intros ?
   | apply sim_try
   | eapply sim_bind; [ solve [sim_leaf | tac | apply sim_try; first [sim_leaf | tac]] | intros ?; cbv beta ]
   | eapply (sim_bind d (fun a => a)); [ | intros ?; cbv beta ]
   | progress sim_norm
   | match goal with |- sim _ _ (match ?x with _ => _ end) => destruct x; sim_shcbn end ].

(* ---- composite helpers ---- *)
Lemma sim_get_number_literal : sim (fun x => x) (get_number_literal bs1) (get_number_literal s).
Proof. unfold get_number_literal. repeat sim_step fail. Qed.

Lemma sim_get_identifier : sim (fun x => x) (get_identifier bs1) (get_identifier s).
Proof. unfold get_identifier. repeat sim_step fail. Qed.

Lemma sim_get_attribute_accessor : sim (fun x => x) (get_attribute_accessor bs1) (get_attribute_accessor s).
Proof. unfold get_attribute_accessor. repeat sim_step ltac:(apply sim_get_identifier). Qed.

Lemma sim_get_variant_key : sim (fun x => x) (get_variant_key bs1) (get_variant_key s).
Proof.
  unfold get_variant_key.
  repeat sim_step ltac:(first [apply sim_get_identifier | apply sim_get_number_literal]).
Qed.

Lemma sim_get_comment_level : sim (fun x => x) (get_comment_level bs1) (get_comment_level s).
Proof. unfold get_comment_level. repeat sim_step fail. Qed.

Lemma line_len_shift k : forall p, line_len bs1 k (p + d) = line_len s k p.
Proof.
  induction k as [|k IH]; intros p; cbn [line_len]; [reflexivity|].
  rewrite byte_at_shift, is_byte_at_shift_S. destruct (byte_at s p) as [b|]; [|reflexivity].
  destruct (N.eqb b c_lf); [reflexivity|].
  destruct (N.eqb b c_cr && is_byte_at s c_lf (S p)); [reflexivity|].
  change (S (p + d)) with (S p + d). rewrite (IH (S p)). reflexivity.
Qed.

Lemma sim_get_comment_line : sim (fun x => x) (get_comment_line bs1) (get_comment_line s).
Proof.
  intros p. unfold get_comment_line. rewrite length_shift.
  replace (S (length_ s + d) - (p + d)) with (S (length_ s) - p) by lia.
  rewrite line_len_shift, (add_shift d), slice_shift.
  destruct (slice s p (line_len s (S (length_ s) - p) p + p)); reflexivity.
Qed.

Lemma sim_get_text_slice : sim (sh_ts d) (get_text_slice bs1) (get_text_slice s).
Proof.
  intros p. unfold get_text_slice. rewrite length_shift, ltb_shift, rest_shift.
  destruct (Nat.ltb (length_ s) p); [reflexivity|]. cbv zeta.
  destruct (memchr3 (rest s p)) as [i|]; [|shfin].
  destruct (nth_error (rest s p) i) as [b|]; [|reflexivity].
  destruct (N.eqb b 125); [shfin|].
  destruct (N.eqb b c_lf).
  - destruct i as [|i']; [shfin|].
    destruct (match nth_error (rest s p) i' with Some c => N.eqb c c_cr | None => false end); shfin.
  - shfin.
Qed.

Lemma sim_finish_element lnb common i ph :
  sim (fun x => x) (finish_element bs1 lnb common i (sh_ph d ph)) (finish_element s lnb common i ph).
Proof.
  destruct ph as [e|a b ind r]; cbn [sh_ph finish_element]; [apply sim_ret; reflexivity|].
  assert (E : (if is_line_start r
               then match common with None => a + d + ind | Some c => a + d + Nat.min ind c end
               else a + d) =
              (if is_line_start r
               then match common with None => a + ind | Some c => a + Nat.min ind c end
               else a) + d).
  { destruct (is_line_start r); [destruct common|]; lia. }
  rewrite E. repeat sim_step fail.
Qed.

Lemma sim_finish_elements lnb common : forall phs i,
  sim (fun x => x) (finish_elements bs1 lnb common i (map (sh_ph d) phs)) (finish_elements s lnb common i phs).
Proof.
  induction phs as [|ph r IH]; intros i; cbn [map finish_elements]; [apply sim_ret; reflexivity|].
  repeat sim_step ltac:(first [apply sim_finish_element | apply IH]).
Qed.

Lemma sim_finish_pattern st :
  sim (fun x => x) (finish_pattern bs1 (sh_pstate d st)) (finish_pattern s st).
Proof.
  unfold finish_pattern. destruct st as [els ne lnb ci r]. cbn [sh_pstate last_non_blank common_indent elements].
  destruct lnb as [l|]; [|apply sim_ret; reflexivity].
  rewrite <- map_rev, firstn_map.
  repeat sim_step ltac:(apply sim_finish_elements).
Qed.

(* ================= 3. the recursive knot ================= *)
Definition knot_sim (n : nat) : Prop :=
  sim (fun x => x) (get_pattern bs1 n) (get_pattern s n) /\
  (forall st1 st2, st1 = sh_pstate d st2 -> sim (sh_pstate d) (pattern_loop bs1 n st1) (pattern_loop s n st2)) /\
  sim (fun x => x) (get_placeable bs1 n) (get_placeable s n) /\
  sim (fun x => x) (get_expression bs1 n) (get_expression s n) /\
  sim (fun x => x) (get_variants bs1 n) (get_variants s n) /\
  (forall acc hd, sim (fun x => x) (variants_loop bs1 n acc hd) (variants_loop s n acc hd)) /\
  (forall ol, sim (fun x => x) (get_inline_expression bs1 n ol) (get_inline_expression s n ol)) /\
  sim (fun x => x) (string_loop bs1 n) (string_loop s n) /\
  sim (fun x => x) (get_call_arguments bs1 n) (get_call_arguments s n) /\
  (forall a b c, sim (fun x => x) (args_loop bs1 n a b c) (args_loop s n a b c)).

Ltac sim_lib :=
  first [ apply sim_get_number_literal | apply sim_get_identifier | apply sim_get_attribute_accessor
        | apply sim_get_variant_key | apply sim_get_comment_level | apply sim_get_comment_line
        | apply sim_get_text_slice | apply sim_finish_pattern ].

Ltac fold_knot bs :=
  fold (get_pattern bs) (pattern_loop bs) (get_placeable bs) (get_expression bs) (get_variants bs)
       (variants_loop bs) (get_inline_expression bs) (string_loop bs) (get_call_arguments bs) (args_loop bs).
Ltac unf f := cbn [f]; fold_knot bs1; fold_knot s.

Lemma knot_sim_all : forall n, knot_sim n.
Proof.
  induction n as [|n' IH].
  - repeat split; intros; apply sim_fuel.
  - destruct IH as (I1 & I2 & I3 & I4 & I5 & I6 & I7 & I8 & I9 & I10).
    repeat split; intros.
    + unf get_pattern. repeat sim_step ltac:(first [sim_lib | apply I2; reflexivity]).
    + subst st1. destruct st2 as [els ne lnb ci r]. unf pattern_loop. sim_shcbn.
      repeat sim_step ltac:(first [sim_lib | apply I2; reflexivity | apply I3]).
      all: sim_shcbn.
      all: repeat match goal with |- context [match ?c with _ => _ end] => destruct c end.
      all: sim_shcbn.
      all: try (apply I2; reflexivity).
    + unf get_placeable. repeat sim_step ltac:(first [sim_lib | apply I4]).
    + unf get_expression. repeat sim_step ltac:(first [sim_lib | apply I7 | apply I5]).
    + unf get_variants. repeat sim_step ltac:(first [sim_lib | apply I6]).
    + unf variants_loop. repeat sim_step ltac:(first [sim_lib | apply I1 | apply I6]).
    + unf get_inline_expression. repeat sim_step ltac:(first [sim_lib | apply I8 | apply I9 | apply I3]).
    + unf string_loop. repeat sim_step ltac:(first [sim_lib | apply I8]).
    + unf get_call_arguments. repeat sim_step ltac:(first [sim_lib | apply I10]).
    + unf args_loop. repeat sim_step ltac:(first [sim_lib | apply I7 | apply I10]).
Qed.

(* ================= 4. entries ================= *)
Lemma sim_get_pattern n : sim (fun x => x) (get_pattern bs1 n) (get_pattern s n).
Proof. exact (proj1 (knot_sim_all n)). Qed.

Lemma sim_get_attribute n : sim (fun x => x) (get_attribute bs1 n) (get_attribute s n).
Proof. unfold get_attribute. repeat sim_step ltac:(first [sim_lib | apply sim_get_pattern]). Qed.

Lemma sim_get_attributes : forall n acc, sim (fun x => x) (get_attributes bs1 n acc) (get_attributes s n acc).
Proof.
  induction n as [|n' IH]; intros acc; [apply sim_fuel|]. cbn [get_attributes].
  repeat sim_step ltac:(first [sim_lib | apply sim_get_attribute | apply IH]).
Qed.

Lemma sim_get_message n es : sim (fun x => x) (get_message bs1 n (es + d)) (get_message s n es).
Proof.
  unfold get_message.
  repeat sim_step ltac:(first [sim_lib | apply sim_get_pattern | apply sim_get_attributes]).
Qed.

Lemma sim_get_term n es : sim (fun x => x) (get_term bs1 n (es + d)) (get_term s n es).
Proof.
  unfold get_term.
  repeat sim_step ltac:(first [sim_lib | apply sim_get_pattern | apply sim_get_attributes]).
Qed.

(* comments: `retreat` looks behind the cursor; it never goes behind the '#' the comment starts with *)
Lemma get_comment_level_pos (bs : bytes) p :
  exists l, get_comment_level bs p = Ok l (level_num l + p) /\ (is_byte_at bs 35 p = true -> l <> LNone).
Proof.
  unfold get_comment_level, bind, take_byte_if, ret.
  destruct (is_byte_at bs 35 p) eqn:E1; [|exists LNone; split; [reflexivity|discriminate]].
  destruct (is_byte_at bs 35 (S p)) eqn:E2; [|exists LRegular; split; [reflexivity|discriminate]].
  destruct (is_byte_at bs 35 (S (S p))) eqn:E3;
    [exists LResource | exists LGroup]; (split; [reflexivity|discriminate]).
Qed.

Lemma retreat_shift k q : k <= q -> retreat k (q + d) = sh_res d (fun x => x) (retreat k q).
Proof.
  intros H. unfold retreat.
  assert (E1 : Nat.leb k (q + d) = true) by (apply Nat.leb_le; lia).
  assert (E2 : Nat.leb k q = true) by (apply Nat.leb_le; lia). rewrite E1, E2. shfin.
Qed.

Lemma get_comment_line_ge (bs : bytes) q line q2 : get_comment_line bs q = Ok line q2 -> q <= q2.
Proof.
  unfold get_comment_line. destruct (slice bs q _); intros H; inversion H. lia.
Qed.
Lemma skip_eol_ge (bs : bytes) q b q2 : skip_eol bs q = Ok b q2 -> q <= q2.
Proof. unfold skip_eol. destruct (eol_len (rest bs q)); intros H; inversion H; lia. Qed.

Lemma get_comment_loop_shift : forall n lvl content p,
  (1 <= p \/ is_byte_at s 35 p = true) ->
  get_comment_loop bs1 n lvl content (p + d) = sh_res d (fun x => x) (get_comment_loop s n lvl content p).
Proof.
  induction n as [|n' IH]; intros lvl content p Hp; [reflexivity|].
  cbn [get_comment_loop]. unfold bind, get_ptr, ret. sim_norm.
  destruct (negb (Nat.ltb p (length_ s))); [reflexivity|].
  rewrite (sim_get_comment_level p).
  destruct (get_comment_level_pos s p) as (l & E & Hl). rewrite E. cbn [sh_res].
  set (q := level_num l + p).
  assert (Hq : level_num l <= q /\ 1 <= q).
  { subst q. split; [lia|]. destruct l; cbn [level_num]; try lia.
    destruct Hp as [Hp|Hp]; [lia|]. exfalso. apply (Hl Hp). reflexivity. }
  destruct Hq as [Hq1 Hq2].
  assert (Hret : forall k, k <= q -> forall (c : comment * level),
            match retreat k (q + d) with
            | Ok _ q0 => Ok c q0 | Err e q0 => Err e q0 | Pan t => Pan t | Fuel => Fuel end =
            sh_res d (fun x => x)
              match retreat k q with
              | Ok _ q0 => Ok c q0 | Err e q0 => Err e q0 | Pan t => Pan t | Fuel => Fuel end).
  { intros k Hk c. rewrite (retreat_shift k q Hk). unfold retreat.
    destruct (Nat.leb k q); reflexivity. }
  destruct (level_eqb l LNone); [apply Hret; exact Hq2|].
  destruct (negb (level_eqb lvl LNone) && negb (level_eqb l lvl)); [apply Hret; exact Hq1|].
  sim_norm. destruct (Nat.eqb q (length_ s)); [reflexivity|].
  assert (Hline : forall q1, q <= q1 -> forall cont,
    match get_comment_line bs1 (q1 + d) with
    | Ok a q0 => match skip_eol bs1 q0 with
                 | Ok _ q2 => get_comment_loop bs1 n' l (a :: cont) q2
                 | Err e q2 => Err e q2 | Pan t => Pan t | Fuel => Fuel end
    | Err e q0 => Err e q0 | Pan t => Pan t | Fuel => Fuel end =
    sh_res d (fun x => x)
    match get_comment_line s q1 with
    | Ok a q0 => match skip_eol s q0 with
                 | Ok _ q2 => get_comment_loop s n' l (a :: cont) q2
                 | Err e q2 => Err e q2 | Pan t => Pan t | Fuel => Fuel end
    | Err e q0 => Err e q0 | Pan t => Pan t | Fuel => Fuel end).
  { intros q1 Hq1' cont. rewrite (sim_get_comment_line q1).
    destruct (get_comment_line s q1) as [line q2| | |] eqn:EL; cbn [sh_res]; try reflexivity.
    apply get_comment_line_ge in EL. rewrite (sim_skip_eol q2).
    destruct (skip_eol s q2) as [b q3| | |] eqn:ES; cbn [sh_res]; try reflexivity.
    apply skip_eol_ge in ES. apply IH. left. lia. }
  rewrite (sim_is_eol q). unfold is_eol. cbn [sh_res].
  destruct (match byte_at s q with
            | Some b => if N.eqb b c_lf then true else if N.eqb b c_cr then is_byte_at s c_lf (S q) else false
            | None => true end).
  - apply Hline. lia.
  - unfold try_. rewrite (sim_expect_byte c_sp q). unfold expect_byte.
    destruct (is_byte_at s c_sp q); cbn [sh_res sh_sum].
    + apply (Hline (S q)). lia.
    + destruct content as [|c0 cr]; [reflexivity|]. apply Hret. exact Hq1.
Qed.

Lemma skip_comment_shift : forall n p, skip_comment bs1 n (p + d) = sh_res d (fun x => x) (skip_comment s n p).
Proof.
  induction n as [|n' IH]; intros p; [reflexivity|]. cbn [skip_comment]. cbv zeta.
  rewrite length_shift. replace (S (length_ s + d) - (p + d)) with (S (length_ s) - p) by lia.
  rewrite line_len_shift. set (k := line_len s (S (length_ s) - p) p).
  replace (S (k + (p + d))) with (S (k + p) + d) by lia. rewrite is_byte_at_shift.
  destruct (is_byte_at s 35 (S (k + p))); [|reflexivity].
  change (S (S (k + p) + d)) with (S (S (k + p)) + d). apply IH.
Qed.

Lemma is_byte_at_of_byte (bs : bytes) p b c : byte_at bs p = Some b -> N.eqb b c = true -> is_byte_at bs c p = true.
Proof. intros H E. unfold is_byte_at. rewrite H. exact E. Qed.

Lemma sim_get_entry n es : forall p,
  get_entry bs1 n (es + d) (p + d) = sh_res d (fun x => x) (get_entry s n es p).
Proof.
  intros p. unfold get_entry, bind, current_byte. rewrite byte_at_shift.
  destruct (byte_at s p) as [b|] eqn:Eb; [|apply sim_get_message].
  destruct (N.eqb b 35) eqn:E35.
  - unfold get_comment. rewrite get_comment_loop_shift by (right; eapply is_byte_at_of_byte; eauto).
    destruct (get_comment_loop s n LNone [] p) as [[c lvl] q| | |]; cbn [sh_res]; try reflexivity.
    destruct lvl; reflexivity.
  - destruct (N.eqb b 45); [apply sim_get_term | apply sim_get_message].
Qed.

Lemma sim_get_entry_runtime n es : forall p,
  get_entry_runtime bs1 n (es + d) (p + d) = sh_res d (fun x => x) (get_entry_runtime s n es p).
Proof.
  intros p. unfold get_entry_runtime, bind, current_byte. rewrite byte_at_shift.
  assert (Hm : match get_message bs1 n (es + d) (p + d) with
               | Ok a q => ret (Some a) q | Err e q => Err e q | Pan t => Pan t | Fuel => Fuel end =
               sh_res d (fun x => x)
               match get_message s n es p with
               | Ok a q => ret (Some a) q | Err e q => Err e q | Pan t => Pan t | Fuel => Fuel end).
  { rewrite (sim_get_message n es p). destruct (get_message s n es p); reflexivity. }
  destruct (byte_at s p) as [b|] eqn:Eb; [|exact Hm].
  destruct (N.eqb b 35) eqn:E35.
  - rewrite skip_comment_shift. destruct (skip_comment s n p); reflexivity.
  - destruct (N.eqb b 45); [|exact Hm].
    rewrite (sim_get_term n es p). destruct (get_term s n es p); reflexivity.
Qed.

(* ================= 5. junk recovery and the entry loops ================= *)
Hypothesis Hnl : s <> [] -> ends_nl pre.

Lemma new_line_shift p : s <> [] ->
  (Nat.eqb (p + d) 0 || is_byte_at bs1 c_lf (p + d - 1)) = (Nat.eqb p 0 || is_byte_at s c_lf (p - 1)).
Proof.
  intros Hs. destruct p as [|p].
  - cbn [Nat.eqb Nat.add orb]. destruct (Nat.eqb d 0) eqn:E0; [reflexivity|]. cbn [orb].
    apply Nat.eqb_neq in E0. destruct (Hnl Hs) as [Hn|Hn]; [subst pre; cbn in E0; lia|].
    unfold is_byte_at, byte_at. rewrite Hbs1, nth_error_app1 by lia. rewrite Hn. apply N.eqb_refl.
  - assert (E : Nat.eqb (S p + d) 0 = false) by (apply Nat.eqb_neq; lia). rewrite E.
    cbn [Nat.eqb orb]. replace (S p + d - 1) with (p + d) by lia. replace (S p - 1) with p by lia.
    apply is_byte_at_shift.
Qed.

Lemma scan_entry_start_shift k : forall p, scan_entry_start bs1 k (p + d) = scan_entry_start s k p + d.
Proof.
  induction k as [|k IH]; intros p; cbn [scan_entry_start]; [reflexivity|].
  rewrite byte_at_shift. destruct (byte_at s p) as [b|] eqn:Eb; [|reflexivity]. cbv zeta.
  assert (Hs : s <> []).
  { intros ->. unfold byte_at in Eb. destruct p; discriminate. }
  rewrite (new_line_shift p Hs).
  destruct ((Nat.eqb p 0 || is_byte_at s c_lf (p - 1)) && (is_ascii_alphabetic b || N.eqb b 45 || N.eqb b 35));
    [reflexivity|]. change (S (p + d)) with (S p + d). apply IH.
Qed.

Definition sh_opt (o : option nat) : option nat := option_map (fun q => q + d) o.

Lemma sim_skip_to_next_entry_start es :
  sim sh_opt (skip_to_next_entry_start bs1 (es + d)) (skip_to_next_entry_start s es).
Proof.
  intros p. unfold skip_to_next_entry_start. cbv zeta.
  rewrite length_shift, min_shift, leb_shift, sub_shift, skipn_shift.
  destruct (Nat.leb es (Nat.min p (length_ s))); [|reflexivity].
  set (rp := rposition_lf (firstn (Nat.min p (length_ s) - es) (skipn es s)) 0 None).
  assert (E : forall x, S (length_ s + d) - (x + d) = S (length_ s) - x) by (intros; lia).
  destruct rp as [pos|]; [destruct (Nat.ltb 0 pos)|]; cbn [sh_res sh_opt option_map].
  - replace (es + d + pos) with (es + pos + d) by lia. rewrite E, scan_entry_start_shift. reflexivity.
  - rewrite E, scan_entry_start_shift. reflexivity.
  - rewrite E, scan_entry_start_shift. reflexivity.
Qed.

Definition sh_ej (x : perror * entry) : perror * entry := (sh_err d (fst x), snd x).

Lemma sim_recover es err : sim sh_ej (recover bs1 (es + d) (sh_err d err)) (recover s es err).
Proof.
  intros p. unfold recover, bind, get_ptr, ret. rewrite (sim_skip_to_next_entry_start es p).
  destruct (skip_to_next_entry_start s es p) as [rew q| | |]; cbn [sh_res]; try reflexivity.
  rewrite (sim_lift_slice es q q). destruct (source_slice s es q q) as [c q2| | |]; cbn [sh_res]; try reflexivity.
  apply Ok_eq; [|reflexivity]. unfold sh_ej. cbn [fst snd]. apply pair_eq; [|reflexivity].
  destruct rew as [le|]; cbn [sh_opt option_map].
  - unfold sh_err. cbn [pos_start kind pos_end eslice]. rewrite ltb_shift.
    destruct (Nat.ltb le (pos_start err)); cbn [pos_start kind pos_end eslice option_map sh_pair fst snd]; reflexivity.
  - reflexivity.
Qed.

(* a panic / fuel exhaustion inside get_entry ends the loop with it *)
Lemma parse_loop_pan bs n body errors lc cnt p t : p < length_ bs ->
  get_entry bs n p p = Pan t -> parse_loop bs (S n) body errors lc cnt p = Pan t.
Proof.
  intros Hlt He. cbn [parse_loop]. rewrite (bind_Ok_eq _ _ p p p) by reflexivity.
  destruct (Nat.ltb_spec p (length_ bs)); [|lia]. cbn [negb].
  apply bind_Pan_eq. unfold try_. rewrite He. reflexivity.
Qed.
Lemma parse_loop_fuel bs n body errors lc cnt p : p < length_ bs ->
  get_entry bs n p p = Fuel -> parse_loop bs (S n) body errors lc cnt p = Fuel.
Proof.
  intros Hlt He. cbn [parse_loop]. rewrite (bind_Ok_eq _ _ p p p) by reflexivity.
  destruct (Nat.ltb_spec p (length_ bs)); [|lia]. cbn [negb].
  apply bind_Fuel_eq. unfold try_. rewrite He. reflexivity.
Qed.
Lemma rt_loop_pan bs n body errors p t : p < length_ bs ->
  get_entry_runtime bs n p p = Pan t -> parse_runtime_loop bs (S n) body errors p = Pan t.
Proof.
  intros Hlt He. cbn [parse_runtime_loop]. rewrite (bind_Ok_eq _ _ p p p) by reflexivity.
  destruct (Nat.ltb_spec p (length_ bs)); [|lia]. cbn [negb].
  apply bind_Pan_eq. unfold try_. rewrite He. reflexivity.
Qed.
Lemma rt_loop_fuel bs n body errors p : p < length_ bs ->
  get_entry_runtime bs n p p = Fuel -> parse_runtime_loop bs (S n) body errors p = Fuel.
Proof.
  intros Hlt He. cbn [parse_runtime_loop]. rewrite (bind_Ok_eq _ _ p p p) by reflexivity.
  destruct (Nat.ltb_spec p (length_ bs)); [|lia]. cbn [negb].
  apply bind_Fuel_eq. unfold try_. rewrite He. reflexivity.
Qed.

Lemma parse_loop_shift : forall n body errors lc cnt p,
  parse_loop bs1 n body (map (sh_err d) errors) lc cnt (p + d) =
  sh_res d (sh_out d) (parse_loop s n body errors lc cnt p).
Proof.
  induction n as [|n' IH]; intros body errors lc cnt p; [reflexivity|].
  destruct (Nat.lt_ge_cases p (length_ s)) as [Hlt|Hge].
  - assert (Hlt1 : p + d < length_ bs1) by (rewrite length_shift; lia).
    pose proof (sim_get_entry n' p p) as HE.
    destruct (get_entry s n' p p) as [e p1|err p1|t|] eqn:E; cbn [sh_res] in HE.
    + rewrite (parse_loop_entry bs1 n' _ _ lc cnt (p + d) e (p1 + d) Hlt1 HE).
      rewrite (parse_loop_entry s n' _ _ lc cnt p e p1 Hlt E).
      unfold bind. rewrite (sim_skip_blank_block p1).
      destruct (skip_blank_block s p1) as [c q| | |]; cbn [sh_res]; try reflexivity. apply IH.
    + rewrite (parse_loop_error bs1 n' _ _ lc cnt (p + d) _ (p1 + d) Hlt1 HE).
      rewrite (parse_loop_error s n' _ _ lc cnt p err p1 Hlt E).
      unfold bind. rewrite (sim_recover p err p1).
      destruct (recover s p err p1) as [ej q| | |]; cbn [sh_res]; try reflexivity.
      rewrite (sim_skip_blank_block q).
      destruct (skip_blank_block s q) as [c q2| | |]; cbn [sh_res]; try reflexivity.
      unfold sh_ej. cbn [fst snd]. apply (IH (snd ej :: flush lc body) (fst ej :: errors)).
    + rewrite (parse_loop_pan bs1 n' _ _ lc cnt (p + d) t Hlt1 HE).
      rewrite (parse_loop_pan s n' _ _ lc cnt p t Hlt E). reflexivity.
    + rewrite (parse_loop_fuel bs1 n' _ _ lc cnt (p + d) Hlt1 HE).
      rewrite (parse_loop_fuel s n' _ _ lc cnt p Hlt E). reflexivity.
  - rewrite parse_loop_end by (rewrite length_shift; lia). rewrite parse_loop_end by exact Hge.
    cbn [sh_res]. unfold sh_out. cbn [fst snd]. rewrite map_rev. reflexivity.
Qed.

Lemma parse_runtime_loop_shift : forall n body errors p,
  parse_runtime_loop bs1 n body (map (sh_err d) errors) (p + d) =
  sh_res d (sh_out d) (parse_runtime_loop s n body errors p).
Proof.
  induction n as [|n' IH]; intros body errors p; [reflexivity|].
  destruct (Nat.lt_ge_cases p (length_ s)) as [Hlt|Hge].
  - assert (Hlt1 : p + d < length_ bs1) by (rewrite length_shift; lia).
    pose proof (sim_get_entry_runtime n' p p) as HE.
    destruct (get_entry_runtime s n' p p) as [e p1|err p1|t|] eqn:E; cbn [sh_res] in HE.
    + rewrite (rt_loop_entry bs1 n' _ _ (p + d) e (p1 + d) Hlt1 HE).
      rewrite (rt_loop_entry s n' _ _ p e p1 Hlt E).
      unfold bind. rewrite (sim_skip_blank_block p1).
      destruct (skip_blank_block s p1) as [c q| | |]; cbn [sh_res]; try reflexivity. apply IH.
    + rewrite (rt_loop_error bs1 n' _ _ (p + d) _ (p1 + d) Hlt1 HE).
      rewrite (rt_loop_error s n' _ _ p err p1 Hlt E).
      unfold bind. rewrite (sim_recover p err p1).
      destruct (recover s p err p1) as [ej q| | |]; cbn [sh_res]; try reflexivity.
      rewrite (sim_skip_blank_block q).
      destruct (skip_blank_block s q) as [c q2| | |]; cbn [sh_res]; try reflexivity.
      unfold sh_ej. cbn [fst snd]. apply (IH (snd ej :: body) (fst ej :: errors)).
    + rewrite (rt_loop_pan bs1 n' _ _ (p + d) t Hlt1 HE).
      rewrite (rt_loop_pan s n' _ _ p t Hlt E). reflexivity.
    + rewrite (rt_loop_fuel bs1 n' _ _ (p + d) Hlt1 HE).
      rewrite (rt_loop_fuel s n' _ _ p Hlt E). reflexivity.
  - rewrite rt_loop_end by (rewrite length_shift; lia). rewrite rt_loop_end by exact Hge.
    cbn [sh_res]. unfold sh_out. cbn [fst snd]. rewrite map_rev. reflexivity.
Qed.

End Prims.

(* ================= 6. suffix independence, public form ================= *)
(* every function of the recursive knot (get_pattern, pattern_loop, get_placeable, get_expression,
   get_variants, variants_loop, get_inline_expression, string_loop, get_call_arguments, args_loop) *)
Theorem suffix_independence_knot pre s n : head_noncont s -> knot_sim pre s (pre ++ s) n.
Proof. intros H. exact (knot_sim_all pre s (pre ++ s) eq_refl H n). Qed.

Theorem suffix_independence_get_entry pre s n es p : head_noncont s ->
  get_entry (pre ++ s) n (es + length pre) (p + length pre) =
  sh_res (length pre) (fun x => x) (get_entry s n es p).
Proof. intros H. exact (sim_get_entry pre s (pre ++ s) eq_refl H n es p). Qed.

Theorem suffix_independence_get_entry_runtime pre s n es p : head_noncont s ->
  get_entry_runtime (pre ++ s) n (es + length pre) (p + length pre) =
  sh_res (length pre) (fun x => x) (get_entry_runtime s n es p).
Proof. intros H. exact (sim_get_entry_runtime pre s (pre ++ s) eq_refl H n es p). Qed.

Theorem suffix_independence_recover pre s es err p : head_noncont s -> (s <> [] -> ends_nl pre) ->
  recover (pre ++ s) (es + length pre) (sh_err (length pre) err) (p + length pre) =
  sh_res (length pre) (sh_ej pre) (recover s es err p).
Proof. intros H1 H2. exact (sim_recover pre s (pre ++ s) eq_refl H1 H2 es err p). Qed.

Theorem suffix_independence_parse_loop pre s n body errors lc cnt p : head_noncont s -> (s <> [] -> ends_nl pre) ->
  parse_loop (pre ++ s) n body (map (sh_err (length pre)) errors) lc cnt (p + length pre) =
  sh_res (length pre) (sh_out (length pre)) (parse_loop s n body errors lc cnt p).
Proof. intros H1 H2. exact (parse_loop_shift pre s (pre ++ s) eq_refl H1 H2 n body errors lc cnt p). Qed.

Theorem suffix_independence_parse_runtime_loop pre s n body errors p : head_noncont s -> (s <> [] -> ends_nl pre) ->
  parse_runtime_loop (pre ++ s) n body (map (sh_err (length pre)) errors) (p + length pre) =
  sh_res (length pre) (sh_out (length pre)) (parse_runtime_loop s n body errors p).
Proof. intros H1 H2. exact (parse_runtime_loop_shift pre s (pre ++ s) eq_refl H1 H2 n body errors p). Qed.

(* two prefixes: the two runs are the same run of the common suffix, shifted *)
Theorem suffix_independence pre1 pre2 s n lc cnt p : head_noncont s -> ends_nl pre1 -> ends_nl pre2 ->
  exists r0,
    parse_loop (pre1 ++ s) n [] [] lc cnt (p + length pre1) = sh_res (length pre1) (sh_out (length pre1)) r0 /\
    parse_loop (pre2 ++ s) n [] [] lc cnt (p + length pre2) = sh_res (length pre2) (sh_out (length pre2)) r0.
Proof.
  intros H H1 H2. exists (parse_loop s n [] [] lc cnt p). split.
  - exact (suffix_independence_parse_loop pre1 s n [] [] lc cnt p H (fun _ => H1)).
  - exact (suffix_independence_parse_loop pre2 s n [] [] lc cnt p H (fun _ => H2)).
Qed.

(* ================= 7. the full loop: fuel, loop heads, pending comment ================= *)
Section LoopMono.
Variable bs : bytes.

Ltac mono_step n' IH :=
  first
    [ lazymatch goal with
      | |- le_M ?f _ => lazymatch f with context [n'] => fail | _ => apply le_M_refl end
      end
    | apply le_M_fuel
    | apply IH
    | apply le_M_bind; [ | intros ? ]
    | apply le_M_try
    | match goal with
      | |- le_M (match ?x with _ => _ end) _ => destruct x
      end ].

Lemma get_comment_loop_mono : forall n m, n <= m ->
  forall lvl content, le_M (get_comment_loop bs n lvl content) (get_comment_loop bs m lvl content).
Proof.
  induction n as [|n' IH]; intros m Hle lvl content; [apply le_M_fuel|].
  destruct m as [|m']; [lia|]. specialize (IH m' ltac:(lia)). cbn [get_comment_loop].
  repeat mono_step n' IH.
Qed.

Lemma get_entry_mono n m es : n <= m -> le_M (get_entry bs n es) (get_entry bs m es).
Proof.
  intros H. pose proof (get_comment_loop_mono n m H LNone []) as I1.
  pose proof (get_term_mono bs n m es H) as I2. pose proof (get_message_mono bs n m es H) as I3.
  unfold get_entry, get_comment.
  repeat (first [apply I1 | apply I2 | apply I3 | mono_step n I1]).
Qed.

Lemma parse_loop_mono : forall n m, n <= m ->
  forall body errors lc cnt, le_M (parse_loop bs n body errors lc cnt) (parse_loop bs m body errors lc cnt).
Proof.
  induction n as [|n' IH]; intros m Hle body errors lc cnt; [apply le_M_fuel|].
  destruct m as [|m']; [lia|]. specialize (IH m' ltac:(lia)).
  assert (I1 : forall es, le_M (get_entry bs n' es) (get_entry bs m' es)) by (intros; apply get_entry_mono; lia).
  cbn [parse_loop].
  repeat (first [apply I1 | apply IH | mono_step n' IH]).
Qed.

Lemma parse_loop_indep n m body errors lc cnt p :
  parse_loop bs n body errors lc cnt p <> Fuel -> parse_loop bs m body errors lc cnt p <> Fuel ->
  parse_loop bs n body errors lc cnt p = parse_loop bs m body errors lc cnt p.
Proof.
  apply (mono_indep (fun k => parse_loop bs k body errors lc cnt)).
  intros a b Hab. apply parse_loop_mono. exact Hab.
Qed.
End LoopMono.

(* ---- accumulators and the pending comment ---- *)
Definition map_res {A B} (g : A -> B) (r : res A) : res B :=
  match r with Ok a p => Ok (g a) p | Err e p => Err e p | Pan t => Pan t | Fuel => Fuel end.

(* what a comment left pending by the entries in front (with the blank-line count that follows it)
   does to the entries parsed from here on: it is attached to the first entry when that is a
   message or term and fewer than two blank lines separate them (core.rs:44-58), and is a
   standalone comment otherwise *)
Definition with_pending (lc : option comment) (cnt : nat) (b : list entry) : list entry :=
  match lc with
  | None => b
  | Some c =>
      match b with
      | Message id v a None :: r => if Nat.ltb cnt 2 then Message id v a (Some c) :: r else CommentEntry c :: b
      | Term id v a None :: r => if Nat.ltb cnt 2 then Term id v a (Some c) :: r else CommentEntry c :: b
      | _ => CommentEntry c :: b
      end
  end.

Definition glue (body : list entry) (errors : list perror) (lc : option comment) (cnt : nat)
           (x : list entry * list perror) : list entry * list perror :=
  (rev body ++ with_pending lc cnt (fst x), rev errors ++ snd x).

Lemma get_entry_shape bs n es p e q :
  get_entry bs n es p = Ok e q -> plain_mt e \/ is_comment_entry e = true.
Proof.
  unfold get_entry. intros H. bind_inv H cb p0 H0. cbv [current_byte] in H0. injection H0 as <- <-.
  assert (Hm : get_message bs n es p = Ok e q -> plain_mt e \/ is_comment_entry e = true).
  { intros Hm. left. exact (proj2 (get_message_end bs n es p e q Hm)). }
  destruct (byte_at bs p) as [b|]; [|exact (Hm H)].
  destruct (N.eqb b 35).
  - bind_inv H cl q1 H1. destruct cl as [c lvl]. right.
    destruct lvl; cbv [ret panic] in H; inversion H; reflexivity.
  - destruct (N.eqb b 45); [|exact (Hm H)]. left. exact (proj2 (get_term_end bs n es p e q H)).
Qed.

Lemma wp_wp c cnt c' cnt' b :
  with_pending (Some c) cnt (with_pending (Some c') cnt' b) = CommentEntry c :: with_pending (Some c') cnt' b.
Proof.
  destruct b as [|[id v a [cm|]|id v a [cm|]|x|x|x|x] r]; unfold with_pending; try reflexivity;
    destruct (Nat.ltb cnt' 2); reflexivity.
Qed.

Lemma push_glue lc cnt e body cnt' b : plain_mt e \/ is_comment_entry e = true ->
  rev (fst (push lc cnt e body)) ++ with_pending (snd (push lc cnt e body)) cnt' b =
  rev body ++ with_pending lc cnt (rev (fst (push None 0 e [])) ++ with_pending (snd (push None 0 e [])) cnt' b).
Proof.
  intros [[(id & v & a & ->)|(id & v & a & ->)]|Hc].
  - destruct lc as [c|]; unfold push; cbn [attach fst snd rev app with_pending].
    + destruct (Nat.ltb cnt 2); cbn [fst snd rev app with_pending]; rewrite <- ?app_assoc; reflexivity.
    + rewrite <- ?app_assoc; reflexivity.
  - destruct lc as [c|]; unfold push; cbn [attach fst snd rev app with_pending].
    + destruct (Nat.ltb cnt 2); cbn [fst snd rev app with_pending]; rewrite <- ?app_assoc; reflexivity.
    + rewrite <- ?app_assoc; reflexivity.
  - destruct e as [id v a cm|id v a cm|x|x|x|x]; try discriminate Hc;
      destruct lc as [c|]; unfold push; cbn [fst snd rev app];
      rewrite ?wp_wp; cbn [with_pending app]; rewrite <- ?app_assoc; reflexivity.
Qed.

Lemma parse_loop_glue bs : forall n body errors lc cnt p,
  parse_loop bs n body errors lc cnt p =
  map_res (glue body errors lc cnt) (parse_loop bs n [] [] None 0 p).
Proof.
  induction n as [|n' IH]; intros body errors lc cnt p; [reflexivity|].
  destruct (Nat.lt_ge_cases p (length_ bs)) as [Hlt|Hge].
  - destruct (get_entry bs n' p p) as [e p1|err p1|t|] eqn:E.
    + rewrite (parse_loop_entry bs n' body errors lc cnt p e p1 Hlt E).
      rewrite (parse_loop_entry bs n' [] [] None 0 p e p1 Hlt E).
      unfold bind. destruct (skip_blank_block bs p1) as [c q| | |]; try reflexivity.
      rewrite (IH (fst (push lc cnt e body))). rewrite (IH (fst (push None 0 e []))).
      destruct (parse_loop bs n' [] [] None 0 q) as [[b0 e0] qf| | |]; try reflexivity.
      cbn [map_res]. unfold glue. cbn [fst snd rev app]. apply Ok_eq; [|reflexivity]. apply pair_eq.
      * apply push_glue. eapply get_entry_shape; eauto.
      * reflexivity.
    + rewrite (parse_loop_error bs n' body errors lc cnt p err p1 Hlt E).
      rewrite (parse_loop_error bs n' [] [] None 0 p err p1 Hlt E).
      unfold bind. destruct (recover bs p err p1) as [[e' x] q1| | |] eqn:ER; try reflexivity.
      destruct (recover_spec bs p err p1 e' x q1 ER) as ((jc & ->) & _).
      destruct (skip_blank_block bs q1) as [c q| | |]; try reflexivity.
      cbn [fst snd]. rewrite (IH (Junk jc :: flush lc body)). rewrite (IH (Junk jc :: flush None [])).
      destruct (parse_loop bs n' [] [] None 0 q) as [[b0 e0] qf| | |]; try reflexivity.
      cbn [map_res]. unfold glue. cbn [fst snd rev app flush with_pending]. apply Ok_eq; [|reflexivity].
      apply pair_eq.
      * destruct lc as [c1|]; cbn [flush rev with_pending app]; rewrite <- ?app_assoc; reflexivity.
      * rewrite <- app_assoc. reflexivity.
    + rewrite !(parse_loop_pan bs n' _ _ _ _ p t Hlt E). reflexivity.
    + rewrite !(parse_loop_fuel bs n' _ _ _ _ p Hlt E). reflexivity.
  - rewrite !parse_loop_end by exact Hge. cbn [map_res]. unfold glue. cbn [fst snd rev app flush with_pending].
    apply Ok_eq; [|reflexivity]. apply pair_eq; [|rewrite app_nil_r; reflexivity].
    destruct lc as [c|]; cbn [flush rev with_pending]; [reflexivity|rewrite app_nil_r; reflexivity].
Qed.

(* ---- loop heads ---- *)
(* the entry loop of `parse bs` is at its head (core.rs: top of `loop`) with fuel n, accumulators
   body / errors (reversed), pending comment lc, blank-line count cnt and ptr q *)
Inductive head (bs : bytes) : nat -> list entry -> list perror -> option comment -> nat -> nat -> Prop :=
| head_init c p0 : skip_blank_block bs 0 = Ok c p0 -> head bs (fuel_for bs) [] [] None 0 p0
| head_ok n body errors lc cnt p e p1 c q :
    head bs (S n) body errors lc cnt p -> p < length_ bs -> get_entry bs n p p = Ok e p1 ->
    skip_blank_block bs p1 = Ok c q ->
    head bs n (fst (push lc cnt e body)) errors (snd (push lc cnt e body)) c q
| head_err n body errors lc cnt p err p1 ej q1 c q :
    head bs (S n) body errors lc cnt p -> p < length_ bs -> get_entry bs n p p = Err err p1 ->
    recover bs p err p1 = Ok ej q1 -> skip_blank_block bs q1 = Ok c q ->
    head bs n (snd ej :: flush lc body) (fst ej :: errors) None c q.

(* "the loop reaches a head at q having completed the entries `front` with errors `ef`, a comment
   possibly pending in lc, followed by cnt blank lines" *)
Definition at_head (bs : bytes) (q : nat) (front : list entry) (ef : list perror)
           (lc : option comment) (cnt : nat) : Prop :=
  exists n body errors, head bs n body errors lc cnt q /\ front = rev body /\ ef = rev errors.

Lemma head_run bs n body errors lc cnt q :
  head bs n body errors lc cnt q -> parse_loop bs n body errors lc cnt q = parse_m bs (fuel_for bs) 0.
Proof.
  induction 1 as [c p0 H0 | n body errors lc cnt p e p1 c q Hh IH Hlt He Hs
                  | n body errors lc cnt p err p1 ej q1 c q Hh IH Hlt He Hr Hs].
  - unfold parse_m, bind. rewrite H0. reflexivity.
  - rewrite (parse_loop_entry bs n body errors lc cnt p e p1 Hlt He) in IH.
    unfold bind in IH. rewrite Hs in IH. exact IH.
  - rewrite (parse_loop_error bs n body errors lc cnt p err p1 Hlt He) in IH.
    unfold bind in IH. rewrite Hr, Hs in IH. exact IH.
Qed.

(* executable: the ptr values at the loop heads, in order *)
Fixpoint heads_from (bs : bytes) (n : nat) (p : nat) : list nat :=
  match n with
  | O => []
  | S n' =>
      p :: (if Nat.ltb p (length_ bs) then
              match get_entry bs n' p p with
              | Ok _ p1 =>
                  match skip_blank_block bs p1 with Ok _ q => heads_from bs n' q | _ => [] end
              | Err err p1 =>
                  match recover bs p err p1 with
                  | Ok _ q1 => match skip_blank_block bs q1 with Ok _ q => heads_from bs n' q | _ => [] end
                  | _ => []
                  end
              | _ => []
              end
            else [])
  end.
Definition loop_heads (bs : bytes) : list nat :=
  match skip_blank_block bs 0 with Ok _ p0 => heads_from bs (fuel_for bs) p0 | _ => [] end.

Lemma heads_from_head bs q : forall n body errors lc cnt p,
  head bs n body errors lc cnt p -> In q (heads_from bs n p) ->
  exists n' body' errors' lc' cnt', head bs n' body' errors' lc' cnt' q.
Proof.
  induction n as [|n' IH]; intros body errors lc cnt p Hh Hin; [destruct Hin|].
  cbn [heads_from] in Hin. destruct Hin as [<-|Hin]; [eauto 6|].
  destruct (Nat.ltb_spec p (length_ bs)) as [Hlt|]; [|destruct Hin].
  destruct (get_entry bs n' p p) as [e p1|err p1|t|] eqn:He; try destruct Hin.
  - destruct (skip_blank_block bs p1) as [c q'| | |] eqn:Hs; try destruct Hin.
    exact (IH _ _ _ _ _ (head_ok bs n' body errors lc cnt p e p1 c q' Hh Hlt He Hs) Hin).
  - destruct (recover bs p err p1) as [ej q1| | |] eqn:Hr; try destruct Hin.
    destruct (skip_blank_block bs q1) as [c q'| | |] eqn:Hs; try destruct Hin.
    exact (IH _ _ _ _ _ (head_err bs n' body errors lc cnt p err p1 ej q1 c q' Hh Hlt He Hr Hs) Hin).
Qed.

Lemma loop_heads_at_head bs q : In q (loop_heads bs) -> exists front ef lc cnt, at_head bs q front ef lc cnt.
Proof.
  unfold loop_heads. destruct (skip_blank_block bs 0) as [c p0| | |] eqn:H0; try (intros []).
  intros Hin. destruct (heads_from_head bs q _ _ _ _ _ _ (head_init bs c p0 H0) Hin)
    as (n' & body' & errors' & lc' & cnt' & Hh).
  exists (rev body'), (rev errors'), lc', cnt', n', body', errors'. auto.
Qed.

(* every loop head comes right after skip_blank_block: it is not on a blank line, and it is at a
   line start or at/after the end of input (ParserAccounting) *)
Lemma head_after_blank bs n body errors lc cnt q :
  head bs n body errors lc cnt q -> exists c p, skip_blank_block bs p = Ok c q.
Proof. destruct 1; eauto. Qed.

Lemma head_boundary bs n body errors lc cnt q :
  head bs n body errors lc cnt q -> ParserAccounting.at_boundary bs q.
Proof.
  induction 1 as [c p0 H0 | n body errors lc cnt p e p1 c q Hh IH Hlt He Hs
                  | n body errors lc cnt p err p1 ej q1 c q Hh IH Hlt He Hr Hs].
  - pose proof (ParserAccounting.sp_skip_blank_block_boundary bs 0 (ParserAccounting.endpos_0 bs)) as H.
    unfold ParserAccounting.spec in H. rewrite H0 in H. exact (proj2 H).
  - pose proof (ParserAccounting.get_entry_spec bs n p Hlt IH) as H1.
    unfold ParserAccounting.spec in H1. rewrite He in H1. destruct H1 as (_ & H1 & _).
    pose proof (ParserAccounting.sp_skip_blank_block_boundary bs p1 H1) as H.
    unfold ParserAccounting.spec in H. rewrite Hs in H. exact (proj2 H).
  - pose proof (ParserAccounting.get_entry_spec bs n p Hlt IH) as H1.
    unfold ParserAccounting.spec in H1. rewrite He in H1.
    pose proof (ParserAccounting.recover_spec bs p err p1 Hlt
                  (ParserAccounting.line_start_of_boundary bs p Hlt IH) H1) as H2.
    unfold ParserAccounting.spec in H2. rewrite Hr in H2.
    destruct H2 as (content & _ & _ & (_ & _ & _ & Hb & _)).
    assert (H3 : ParserAccounting.endpos bs q1).
    { destruct Hb as [Hb | (_ & Hb & _)]; [left; lia | right; left; right; exact Hb]. }
    pose proof (ParserAccounting.sp_skip_blank_block_boundary bs q1 H3) as H.
    unfold ParserAccounting.spec in H. rewrite Hs in H. exact (proj2 H).
Qed.

Lemma sbb_fix bs p c q : skip_blank_block bs p = Ok c q -> skip_blank_block bs q = Ok 0 q.
Proof.
  intros H. destruct (skip_blank_block_spec bs p c q H) as (_ & _ & Hb & _).
  unfold blank_atb in Hb. unfold skip_blank_block. cbn [blank_block].
  rewrite skipn_rest.
  destruct (eol_len (rest bs (scan_while is_space (rest bs q) + q))); [reflexivity|discriminate].
Qed.

(* ================= 8. entries after a loop head ================= *)
Lemma boundary_ends_nl pre s : ParserAccounting.at_boundary (pre ++ s) (length pre) -> s <> [] -> ends_nl pre.
Proof.
  intros [Hb|Hb] Hs.
  - exfalso. rewrite app_length in Hb. destruct s; [congruence|cbn [length] in Hb; lia].
  - destruct pre as [|x pre']; [left; reflexivity|]. right.
    destruct Hb as [Hb|Hb]; [discriminate|]. rewrite nth_error_app1 in Hb by (cbn [length]; lia). exact Hb.
Qed.

Lemma run_from_head pre s n body errors lc cnt b e :
  head_noncont s -> head (pre ++ s) n body errors lc cnt (length pre) -> parse (pre ++ s) = Done (b, e) ->
  exists bt et qf,
    parse_loop s n [] [] None 0 0 = Ok (bt, et) qf /\
    b = rev body ++ with_pending lc cnt bt /\
    e = rev errors ++ map (sh_err (length pre)) et /\
    skip_blank_block s 0 = Ok 0 0.
Proof.
  intros Hcb Hh Hp. unfold parse in Hp. apply to_outcome_done in Hp as [qf Hp].
  rewrite <- (head_run _ _ _ _ _ _ _ Hh) in Hp. rewrite parse_loop_glue in Hp.
  assert (Hnl : s <> [] -> ends_nl pre) by (apply boundary_ends_nl; eapply head_boundary; eauto).
  pose proof (suffix_independence_parse_loop pre s n [] [] None 0 0 Hcb Hnl) as HS.
  cbn [map Nat.add] in HS. rewrite HS in Hp.
  destruct (parse_loop s n [] [] None 0 0) as [[bt et] q0| | |]; cbn [sh_res map_res] in Hp; try discriminate.
  unfold glue, sh_out in Hp. cbn [fst snd] in Hp. injection Hp as <- <- _.
  exists bt, et, q0. split; [reflexivity|]. split; [reflexivity|]. split; [reflexivity|].
  destruct (head_after_blank _ _ _ _ _ _ _ Hh) as (c & p & Hs). apply sbb_fix in Hs.
  pose proof (sim_skip_blank_block pre s (pre ++ s) eq_refl 0) as H0. cbn [Nat.add] in H0.
  rewrite Hs in H0. destruct (skip_blank_block s 0) as [c0 q1| | |]; cbn [sh_res] in H0; try discriminate.
  injection H0 as <- Hq. f_equal. lia.
Qed.

Lemma tail_is_parse s n bt et qf :
  parse_loop s n [] [] None 0 0 = Ok (bt, et) qf -> skip_blank_block s 0 = Ok 0 0 ->
  forall r, parse s = Done r -> r = (bt, et).
Proof.
  intros Hn H0 r Hr. unfold parse in Hr. apply to_outcome_done in Hr as [q Hr].
  unfold parse_m, bind in Hr. rewrite H0 in Hr.
  assert (E : parse_loop s n [] [] None 0 0 = parse_loop s (fuel_for s) [] [] None 0 0).
  { apply parse_loop_indep; congruence. }
  rewrite Hn, Hr in E. injection E as E _. symmetry. exact E.
Qed.

(* Theorem 2, in terms of loop-head states *)
Theorem entries_after_head pre1 pre2 post front1 ef1 lc1 cnt1 front2 ef2 lc2 cnt2 b1 e1 b2 e2 :
  head_noncont post ->
  at_head (pre1 ++ post) (length pre1) front1 ef1 lc1 cnt1 ->
  at_head (pre2 ++ post) (length pre2) front2 ef2 lc2 cnt2 ->
  parse (pre1 ++ post) = Done (b1, e1) -> parse (pre2 ++ post) = Done (b2, e2) ->
  exists tail et,
    b1 = front1 ++ with_pending lc1 cnt1 tail /\ e1 = ef1 ++ map (sh_err (length pre1)) et /\
    b2 = front2 ++ with_pending lc2 cnt2 tail /\ e2 = ef2 ++ map (sh_err (length pre2)) et /\
    (forall r, parse post = Done r -> r = (tail, et)).
Proof.
  intros Hcb (n1 & body1 & errors1 & Hh1 & -> & ->) (n2 & body2 & errors2 & Hh2 & -> & ->) Hp1 Hp2.
  destruct (run_from_head pre1 post n1 body1 errors1 lc1 cnt1 b1 e1 Hcb Hh1 Hp1)
    as (bt & et & qf & Hr1 & -> & -> & H0).
  destruct (run_from_head pre2 post n2 body2 errors2 lc2 cnt2 b2 e2 Hcb Hh2 Hp2)
    as (bt' & et' & qf' & Hr2 & -> & -> & _).
  assert (E : parse_loop post n1 [] [] None 0 0 = parse_loop post n2 [] [] None 0 0).
  { apply parse_loop_indep; congruence. }
  rewrite Hr1, Hr2 in E. injection E as <- <- _.
  exists bt, et. repeat split; try reflexivity. exact (tail_is_parse post n1 bt et qf Hr1 H0).
Qed.

(* the observable the property speaks about: messages and terms (comments stripped), and Junk *)
Lemma mts_with_pending lc cnt b : mts (with_pending lc cnt b) = mts b.
Proof.
  destruct lc as [c|]; [|reflexivity]. unfold with_pending.
  destruct b as [|[id v a [cm|]|id v a [cm|]|x|x|x|x] r]; try reflexivity;
    destruct (Nat.ltb cnt 2); reflexivity.
Qed.
Lemma junks_with_pending lc cnt b : junks (with_pending lc cnt b) = junks b.
Proof.
  destruct lc as [c|]; [|reflexivity]. unfold with_pending.
  destruct b as [|[id v a [cm|]|id v a [cm|]|x|x|x|x] r]; try reflexivity;
    destruct (Nat.ltb cnt 2); reflexivity.
Qed.
Lemma mts_app a b : mts (a ++ b) = mts a ++ mts b.
Proof. unfold mts, messages_terms. rewrite filter_app, map_app. reflexivity. Qed.
Lemma junks_app a b : junks (a ++ b) = junks a ++ junks b.
Proof. unfold junks. apply filter_app. Qed.

Theorem entries_after_unchanged pre mid1 mid2 post b1 e1 b2 e2 :
  head_noncont post ->
  parse (pre ++ mid1 ++ post) = Done (b1, e1) -> parse (pre ++ mid2 ++ post) = Done (b2, e2) ->
  In (length (pre ++ mid1)) (loop_heads (pre ++ mid1 ++ post)) ->
  In (length (pre ++ mid2)) (loop_heads (pre ++ mid2 ++ post)) ->
  exists front1 ef1 lc1 cnt1 front2 ef2 lc2 cnt2 tail et,
    at_head (pre ++ mid1 ++ post) (length (pre ++ mid1)) front1 ef1 lc1 cnt1 /\
    at_head (pre ++ mid2 ++ post) (length (pre ++ mid2)) front2 ef2 lc2 cnt2 /\
    b1 = front1 ++ with_pending lc1 cnt1 tail /\ e1 = ef1 ++ map (sh_err (length (pre ++ mid1))) et /\
    b2 = front2 ++ with_pending lc2 cnt2 tail /\ e2 = ef2 ++ map (sh_err (length (pre ++ mid2))) et /\
    mts b1 = mts front1 ++ mts tail /\ mts b2 = mts front2 ++ mts tail /\
    junks b1 = junks front1 ++ junks tail /\ junks b2 = junks front2 ++ junks tail /\
    (forall r, parse post = Done r -> r = (tail, et)).
Proof.
  intros Hcb Hp1 Hp2 Hin1 Hin2.
  destruct (loop_heads_at_head _ _ Hin1) as (front1 & ef1 & lc1 & cnt1 & Hh1).
  destruct (loop_heads_at_head _ _ Hin2) as (front2 & ef2 & lc2 & cnt2 & Hh2).
  rewrite app_assoc in Hp1, Hp2, Hh1, Hh2.
  destruct (entries_after_head (pre ++ mid1) (pre ++ mid2) post _ _ _ _ _ _ _ _ b1 e1 b2 e2 Hcb Hh1 Hh2 Hp1 Hp2)
    as (tail & et & -> & -> & -> & -> & Hpost).
  rewrite <- app_assoc in Hh1, Hh2.
  exists front1, ef1, lc1, cnt1, front2, ef2, lc2, cnt2, tail, et.
  rewrite !mts_app, !junks_app, !mts_with_pending, !junks_with_pending.
  repeat split; try reflexivity; assumption.
Qed.

(* ================= 9. the documented violations are rejected where they are met ================= *)
(* Each lemma is for every input and every surrounding state; the Err propagates through `bind`
   (`?` in the Rust code) up to get_entry, except inside an attribute, where get_attributes drops
   the attribute and the entry loop turns its lines into Junk at the next head. *)

Ltac fold_knot' bs :=
  fold (get_pattern bs) (pattern_loop bs) (get_placeable bs) (get_expression bs) (get_variants bs)
       (variants_loop bs) (get_inline_expression bs) (string_loop bs) (get_call_arguments bs) (args_loop bs).

(* duplicate default variant: a second '*' after a default was seen *)
Lemma violation_multiple_default bs n acc p : is_byte_at bs 42 p = true ->
  variants_loop bs (S n) acc true p = Err (PError MultipleDefaultVariants (S p) (S (S p)) None) (S p).
Proof. intros H. cbn [variants_loop]; fold_knot' bs. unfold bind, take_byte_if. rewrite H. reflexivity. Qed.

(* no default variant: the variant list ends ('*' and '[' both absent) and no default was seen *)
Lemma violation_missing_default bs n acc p : is_byte_at bs 42 p = false -> is_byte_at bs 91 p = false ->
  variants_loop bs (S n) acc false p = Err (PError MissingDefaultVariant p (S p) None) p.
Proof. intros H1 H2. cbn [variants_loop]; fold_knot' bs. unfold bind, take_byte_if. rewrite H1. cbn [andb orb]. rewrite H2. reflexivity. Qed.

(* variant without a value *)
Lemma violation_missing_variant_value bs n acc hd p dflt p1 key p2 p3 :
  take_byte_if bs 42 p = Ok dflt p1 -> (dflt && hd = false) -> is_byte_at bs 91 p1 = true ->
  get_variant_key bs (S p1) = Ok key p2 -> get_pattern bs n p2 = Ok None p3 ->
  variants_loop bs (S n) acc hd p = Err (PError MissingValue p3 (S p3) None) p3.
Proof.
  intros H1 H2 H3 H4 H5. cbn [variants_loop]; fold_knot' bs. unfold bind. rewrite H1, H2.
  unfold take_byte_if. rewrite H3. cbn [negb]. rewrite H4, H5. reflexivity.
Qed.

(* selector rules: the inline expression in front of "->" *)
Definition after_blank (bs : bytes) (p : nat) : nat := blank_len (rest bs p) + p.

Lemma selector_step bs n p exp p1 :
  get_inline_expression bs n false p = Ok exp p1 ->
  is_byte_at bs 45 (after_blank bs p1) = true -> is_byte_at bs 62 (S (after_blank bs p1)) = true ->
  forall k, match exp with
            | MessageReference _ None => k = MessageReferenceAsSelector
            | MessageReference _ (Some _) => k = MessageAttributeAsSelector
            | TermReference _ None _ => k = TermReferenceAsSelector
            | Placeable _ => k = ExpectedSimpleExpressionAsSelector
            | _ => False
            end ->
  get_expression bs (S n) p =
  Err (PError k (after_blank bs p1) (S (after_blank bs p1)) None) (after_blank bs p1).
Proof.
  intros H1 H2 H3 k Hk. cbn [get_expression]; fold_knot' bs. unfold bind. rewrite H1. unfold skip_blank, get_ptr.
  fold (after_blank bs p1). rewrite H2, H3. cbn [negb orb].
  destruct exp as [v|v|id a|id [at_|]|id [at_|] a|id|e]; try contradiction; subst k; reflexivity.
Qed.

Lemma violation_message_reference_as_selector bs n p id p1 :
  get_inline_expression bs n false p = Ok (MessageReference id None) p1 ->
  is_byte_at bs 45 (after_blank bs p1) = true -> is_byte_at bs 62 (S (after_blank bs p1)) = true ->
  get_expression bs (S n) p =
  Err (PError MessageReferenceAsSelector (after_blank bs p1) (S (after_blank bs p1)) None) (after_blank bs p1).
Proof. intros H1 H2 H3. exact (selector_step bs n p _ p1 H1 H2 H3 _ eq_refl). Qed.

Lemma violation_message_attribute_as_selector bs n p id at_ p1 :
  get_inline_expression bs n false p = Ok (MessageReference id (Some at_)) p1 ->
  is_byte_at bs 45 (after_blank bs p1) = true -> is_byte_at bs 62 (S (after_blank bs p1)) = true ->
  get_expression bs (S n) p =
  Err (PError MessageAttributeAsSelector (after_blank bs p1) (S (after_blank bs p1)) None) (after_blank bs p1).
Proof. intros H1 H2 H3. exact (selector_step bs n p _ p1 H1 H2 H3 _ eq_refl). Qed.

Lemma violation_term_reference_as_selector bs n p id a p1 :
  get_inline_expression bs n false p = Ok (TermReference id None a) p1 ->
  is_byte_at bs 45 (after_blank bs p1) = true -> is_byte_at bs 62 (S (after_blank bs p1)) = true ->
  get_expression bs (S n) p =
  Err (PError TermReferenceAsSelector (after_blank bs p1) (S (after_blank bs p1)) None) (after_blank bs p1).
Proof. intros H1 H2 H3. exact (selector_step bs n p _ p1 H1 H2 H3 _ eq_refl). Qed.

(* term attribute as placeable: -term.attr not followed by "->" *)
Lemma violation_term_attribute_as_placeable bs n p id at_ a p1 :
  get_inline_expression bs n false p = Ok (TermReference id (Some at_) a) p1 ->
  (is_byte_at bs 45 (after_blank bs p1) && is_byte_at bs 62 (S (after_blank bs p1))) = false ->
  get_expression bs (S n) p =
  Err (PError TermAttributeAsPlaceable (after_blank bs p1) (S (after_blank bs p1)) None) (after_blank bs p1).
Proof.
  intros H1 H2. cbn [get_expression]; fold_knot' bs. unfold bind. rewrite H1. unfold skip_blank, get_ptr.
  fold (after_blank bs p1).
  assert (E : negb (is_byte_at bs 45 (after_blank bs p1)) || negb (is_byte_at bs 62 (S (after_blank bs p1))) = true).
  { destruct (is_byte_at bs 45 (after_blank bs p1)), (is_byte_at bs 62 (S (after_blank bs p1))); try reflexivity; discriminate. }
  rewrite E. reflexivity.
Qed.

(* call arguments *)
Lemma violation_positional_after_named bs n positional named nm names p expr p1 :
  p < length_ bs -> is_byte_at bs 41 p = false ->
  get_inline_expression bs n false p = Ok expr p1 ->
  (forall id, expr = MessageReference id None -> is_byte_at bs 58 (after_blank bs p1) = false) ->
  exists q, args_loop bs (S n) positional named (nm :: names) p =
            Err (PError PositionalArgumentFollowsNamed q (S q) None) q.
Proof.
  intros Hlt H41 H1 Hc. cbn [args_loop]; fold_knot' bs. unfold bind at 1. unfold get_ptr.
  destruct (Nat.ltb_spec p (length_ bs)); [|lia]. cbn [negb]. rewrite H41.
  unfold bind at 1. rewrite H1.
  destruct expr as [v|v|id a|id [at_|]|id at_ a|id|e];
    try (eexists; unfold bind, error_here; reflexivity).
  specialize (Hc id eq_refl). exists (after_blank bs p1).
  unfold bind, skip_blank, is_current_byte. fold (after_blank bs p1).
  unfold is_byte_at in Hc. rewrite Hc. reflexivity.
Qed.

Lemma violation_duplicate_named bs n positional named names p id p1 :
  p < length_ bs -> is_byte_at bs 41 p = false ->
  get_inline_expression bs n false p = Ok (MessageReference id None) p1 ->
  is_byte_at bs 58 (after_blank bs p1) = true -> has_name names id = true ->
  args_loop bs (S n) positional named names p =
  Err (PError (DuplicatedNamedArgument id) (after_blank bs p1) (S (after_blank bs p1)) None) (after_blank bs p1).
Proof.
  intros Hlt H41 H1 Hc Hn. cbn [args_loop]; fold_knot' bs. unfold bind at 1. unfold get_ptr.
  destruct (Nat.ltb_spec p (length_ bs)); [|lia]. cbn [negb]. rewrite H41.
  unfold bind at 1. rewrite H1.
  unfold bind, skip_blank, is_current_byte. fold (after_blank bs p1).
  unfold is_byte_at in Hc. rewrite Hc, Hn. reflexivity.
Qed.

(* lower-case callee: an identifier followed by call arguments that is not all upper-case/digit/_/- *)
Lemma violation_forbidden_callee bs n p b id p1 args p2 :
  byte_at bs p = Some b -> is_ascii_alphabetic b = true ->
  get_identifier_unchecked bs (S p) = Ok id p1 -> get_call_arguments bs n p1 = Ok (Some args) p2 ->
  is_callee id = false ->
  get_inline_expression bs (S n) false p = Err (PError ForbiddenCallee p2 (S p2) None) p2.
Proof.
  intros Hb Ha H1 H2 Hc. cbn [get_inline_expression]; fold_knot' bs. unfold bind at 1. unfold current_byte. rewrite Hb.
  assert (E34 : N.eqb b 34 = false) by (revert Ha; unfold is_ascii_alphabetic, in_rng; lia).
  assert (Ed : is_ascii_digit b = false) by (revert Ha; unfold is_ascii_alphabetic, is_ascii_digit, in_rng; lia).
  assert (E45 : N.eqb b 45 = false) by (revert Ha; unfold is_ascii_alphabetic, in_rng; lia).
  assert (E36 : N.eqb b 36 = false) by (revert Ha; unfold is_ascii_alphabetic, in_rng; lia).
  rewrite E34, Ed, E45, E36, Ha. cbn [andb negb].
  unfold bind, advance. cbn [Nat.add]. rewrite H1, H2, Hc. reflexivity.
Qed.

(* the value of a named argument must be a string or number literal: a message, term, function or variable
   reference or a placeable there is rejected (D32: the identifier branch used to lack the only_literal guard) *)
Lemma violation_named_argument_not_literal bs n p b :
  byte_at bs p = Some b -> N.eqb b 34 = false -> is_ascii_digit b = false -> N.eqb b 45 = false ->
  get_inline_expression bs (S n) true p = Err (PError ExpectedLiteral p (S p) None) p.
Proof.
  intros Hb E34 Ed E45. cbn [get_inline_expression]; fold_knot' bs. unfold bind at 1. unfold current_byte. rewrite Hb.
  rewrite E34, Ed, E45. cbn [andb negb]. rewrite !Bool.andb_false_r. reflexivity.
Qed.

(* string literals *)
Lemma violation_unterminated_string bs n p : byte_at bs p = Some c_lf ->
  string_loop bs (S n) p = Err (PError UnterminatedStringLiteral p (S p) None) p.
Proof. intros H. cbn [string_loop]; fold_knot' bs. unfold bind, current_byte. rewrite H. reflexivity. Qed.

Lemma violation_bad_escape bs n p c : byte_at bs p = Some 92%N -> byte_at bs (S p) = Some c ->
  (N.eqb c 92 || N.eqb c 123 || N.eqb c 34) = false -> N.eqb c 117 = false -> N.eqb c 85 = false ->
  string_loop bs (S n) p = Err (PError (UnknownEscapeSequence (u8_to_string c)) p (S p) None) p.
Proof.
  intros H1 H2 H3 H4 H5. cbn [string_loop]; fold_knot' bs. unfold bind, current_byte, get_ptr. rewrite H1.
  change (N.eqb 92 92) with true. cbv beta iota. rewrite H2, H3, H4, H5. reflexivity.
Qed.

Lemma violation_bad_unicode_escape bs n p k : byte_at bs p = Some 92%N ->
  (byte_at bs (S p) = Some 117%N /\ k = 4) \/ (byte_at bs (S p) = Some 85%N /\ k = 6) ->
  scan_while is_ascii_hexdigit (rest bs (S (S p))) < k ->
  match string_loop bs (S n) p with
  | Err e _ => exists seq, kind e = InvalidUnicodeEscapeSequence seq
  | Pan _ => True          (* the slice for the message is cut off a char boundary: not on valid UTF-8 *)
  | _ => False
  end.
Proof.
  intros H1 H2 H3. cbn [string_loop]; fold_knot' bs. unfold bind at 1. unfold current_byte. rewrite H1.
  change (N.eqb 92 92) with true. cbv beta iota. unfold bind at 1. unfold get_ptr. cbv beta iota.
  assert (G : forall K : M unit, k = 4 \/ k = 6 ->
     match bind (advance 2) (fun _ => bind (skip_unicode_escape_sequence bs k) (fun _ => K)) p with
     | Err e _ => exists seq, kind e = InvalidUnicodeEscapeSequence seq | Pan _ => True | _ => False end).
  { intros K Hk. unfold bind, advance. cbn [Nat.add]. unfold skip_unicode_escape_sequence.
    assert (E : Nat.eqb (Nat.min k (scan_while is_ascii_hexdigit (rest bs (S (S p))))) k = false)
      by (apply Nat.eqb_neq; lia).
    rewrite E.
    match goal with |- context [slice ?a ?b ?c] => destruct (slice a b c) eqn:ES end; cbn; eauto.
    unfold slice in ES. match type of ES with (if ?c then _ else _) = _ => destruct c end; discriminate. }
  destruct H2 as [[H2 ->]|[H2 ->]]; rewrite H2.
  - apply G. left; reflexivity.
  - apply G. right; reflexivity.
Qed.

(* unbalanced closing brace in text *)
Lemma violation_unbalanced_brace bs p i : p <= length_ bs ->
  memchr3 (rest bs p) = Some i -> nth_error (rest bs p) i = Some 125%N ->
  get_text_slice bs p = Err (PError UnbalancedClosingBrace (i + p) (S (i + p)) None) (i + p).
Proof.
  intros Hp H1 H2. unfold get_text_slice.
  destruct (Nat.ltb_spec (length_ bs) p); [lia|]. cbv zeta. rewrite H1, H2. reflexivity.
Qed.

(* missing value: neither a pattern nor an attribute *)
Lemma violation_message_without_value bs n es p id p1 k p2 p3 p4 c p5 p6 :
  get_identifier bs p = Ok id p1 -> skip_blank_inline bs p1 = Ok k p2 -> expect_byte bs 61 p2 = Ok tt p3 ->
  get_pattern bs n p3 = Ok None p4 -> skip_blank_block bs p4 = Ok c p5 -> get_attributes bs n [] p5 = Ok [] p6 ->
  get_message bs n es p = Err (PError (ExpectedMessageField id) es p6 None) p6.
Proof.
  intros H1 H2 H3 H4 H5 H6. unfold get_message, bind. rewrite H1, H2, H3, H4, H5, H6. reflexivity.
Qed.

Lemma violation_term_without_value bs n es p p0 id p1 k p2 p3 k' p3' p4 c p5 attrs p6 :
  expect_byte bs 45 p = Ok tt p0 ->
  get_identifier bs p0 = Ok id p1 -> skip_blank_inline bs p1 = Ok k p2 -> expect_byte bs 61 p2 = Ok tt p3 ->
  skip_blank_inline bs p3 = Ok k' p3' ->
  get_pattern bs n p3' = Ok None p4 -> skip_blank_block bs p4 = Ok c p5 -> get_attributes bs n [] p5 = Ok attrs p6 ->
  get_term bs n es p = Err (PError (ExpectedTermField id) es p6 None) p6.
Proof.
  intros H0 H1 H2 H3 H3' H4 H5 H6. unfold get_term, bind. rewrite H0, H1, H2, H3, H3', H4, H5, H6. reflexivity.
Qed.

(* an Err of get_entry is never admitted: the loop pushes a Junk and an error *)
Lemma entry_error_is_junk bs n body errors lc cnt p err p1 res qf :
  p < length_ bs -> get_entry bs n p p = Err err p1 ->
  parse_loop bs (S n) body errors lc cnt p = Ok res qf ->
  exists e' content rest_b rest_e,
    fst res = rev (flush lc body) ++ Junk content :: rest_b /\ snd res = rev errors ++ e' :: rest_e /\
    kind e' = kind err.
Proof.
  intros Hlt He H. rewrite (parse_loop_error bs n body errors lc cnt p err p1 Hlt He) in H.
  unfold bind in H. destruct (recover bs p err p1) as [[e' x] q1| | |] eqn:ER; try discriminate.
  destruct (recover_spec bs p err p1 e' x q1 ER) as ((jc & ->) & _).
  destruct (skip_blank_block bs q1) as [c q| | |]; try discriminate. cbn [fst snd] in H.
  rewrite parse_loop_glue in H.
  destruct (parse_loop bs n [] [] None 0 q) as [[b0 e0] q0| | |]; cbn [map_res] in H; try discriminate.
  injection H as <- _. unfold glue. cbn [fst snd rev with_pending].
  exists e', jc, b0, e0. rewrite <- !app_assoc. cbn [app]. split; [reflexivity|]. split; [reflexivity|].
  unfold recover, bind in ER. destruct (skip_to_next_entry_start bs p p1) as [rew q2| | |]; try discriminate.
  unfold get_ptr in ER. destruct (source_slice bs p q2 q2); try discriminate.
  unfold ret in ER. injection ER as <- _ _. cbn [kind].
  destruct rew as [le|]; [destruct (Nat.ltb le (pos_start err))|]; reflexivity.
Qed.

(* ================= 10. the heads of one run are ordered by their fuel ================= *)
Lemma head_fuel_le bs n b e l c p : head bs n b e l c p -> n <= fuel_for bs.
Proof. induction 1; lia. Qed.

Lemma head_unique bs n b e l c p : head bs n b e l c p ->
  forall b' e' l' c' p', head bs n b' e' l' c' p' -> b = b' /\ e = e' /\ l = l' /\ c = c' /\ p = p'.
Proof.
  induction 1 as [c0 p0 H0 | n body errors lc cnt p e p1 c0 h Hh IH Hlt He Hs
                  | n body errors lc cnt p err p1 ej q1 c0 h Hh IH Hlt He Hr Hs];
    intros b' e' l' c' p' H2.
  - inversion H2 as [c1 p1 H1 | n1 body1 errors1 lc1 cnt1 pp e1 pq c1 h1 Hh1 Hlt1 He1 Hs1
                     | n1 body1 errors1 lc1 cnt1 pp err1 pq ej1 qq c1 h1 Hh1 Hlt1 He1 Hr1 Hs1]; subst.
    + rewrite H0 in H1. injection H1 as _ <-. auto.
    + apply head_fuel_le in Hh1. lia.
    + apply head_fuel_le in Hh1. lia.
  - inversion H2 as [c1 p2 H1 | n1 body1 errors1 lc1 cnt1 pp e1 pq c1 h1 Hh1 Hlt1 He1 Hs1
                     | n1 body1 errors1 lc1 cnt1 pp err1 pq ej1 qq c1 h1 Hh1 Hlt1 He1 Hr1 Hs1]; subst.
    + apply head_fuel_le in Hh. lia.
    + destruct (IH _ _ _ _ _ Hh1) as (-> & -> & -> & -> & ->).
      rewrite He in He1. injection He1 as <- <-. rewrite Hs in Hs1. injection Hs1 as <- <-. auto.
    + destruct (IH _ _ _ _ _ Hh1) as (-> & -> & -> & -> & ->). rewrite He in He1. discriminate.
  - inversion H2 as [c1 p2 H1 | n1 body1 errors1 lc1 cnt1 pp e1 pq c1 h1 Hh1 Hlt1 He1 Hs1
                     | n1 body1 errors1 lc1 cnt1 pp err1 pq ej1 qq c1 h1 Hh1 Hlt1 He1 Hr1 Hs1]; subst.
    + apply head_fuel_le in Hh. lia.
    + destruct (IH _ _ _ _ _ Hh1) as (-> & -> & -> & -> & ->). rewrite He in He1. discriminate.
    + destruct (IH _ _ _ _ _ Hh1) as (-> & -> & -> & -> & ->).
      rewrite He in He1. injection He1 as <- <-. rewrite Hr in Hr1. injection Hr1 as <- <-.
      rewrite Hs in Hs1. injection Hs1 as <- <-. auto.
Qed.

(* one step of the loop does not move the ptr backwards *)
Lemma head_step_ok_le bs n body errors lc cnt p e p1 c h :
  head bs (S n) body errors lc cnt p -> p < length_ bs -> get_entry bs n p p = Ok e p1 ->
  skip_blank_block bs p1 = Ok c h -> p <= h.
Proof.
  intros Hh Hlt He Hs.
  pose proof (ParserAccounting.get_entry_spec bs n p Hlt (head_boundary _ _ _ _ _ _ _ Hh)) as H1.
  unfold ParserAccounting.spec in H1. rewrite He in H1.
  pose proof (ParserAccounting.sp_skip_blank_block bs p1) as H2.
  unfold ParserAccounting.spec in H2. rewrite Hs in H2. lia.
Qed.

Lemma head_step_err_le bs n body errors lc cnt p err p1 ej q1 c h :
  head bs (S n) body errors lc cnt p -> p < length_ bs -> get_entry bs n p p = Err err p1 ->
  recover bs p err p1 = Ok ej q1 -> skip_blank_block bs q1 = Ok c h -> p <= h.
Proof.
  intros Hh Hlt He Hr Hs.
  pose proof (ParserAccounting.get_entry_spec bs n p Hlt (head_boundary _ _ _ _ _ _ _ Hh)) as H1.
  unfold ParserAccounting.spec in H1. rewrite He in H1.
  pose proof (ParserAccounting.recover_spec bs p err p1 Hlt
                (ParserAccounting.line_start_of_boundary bs p Hlt (head_boundary _ _ _ _ _ _ _ Hh)) H1) as H2.
  unfold ParserAccounting.spec in H2. rewrite Hr in H2.
  destruct H2 as (content & _ & _ & (_ & Hab & _)).
  pose proof (ParserAccounting.sp_skip_blank_block bs q1) as H3.
  unfold ParserAccounting.spec in H3. rewrite Hs in H3. lia.
Qed.

(* a later head (less fuel) extends an earlier one *)
Lemma head_ext bs n b e l c p : head bs n b e l c p ->
  forall m b' e' l' c' p', head bs m b' e' l' c' p' -> m <= n ->
  p <= p' /\ exists mid, mts (rev b') = mts (rev b) ++ mid.
Proof.
  intros HX m b' e' l' c' p' HY.
  induction HY as [c0 p0 H0 | m body errors lc cnt pp ee p1 c0 h Hh IH Hlt He Hs
                   | m body errors lc cnt pp err p1 ej q1 c0 h Hh IH Hlt He Hr Hs]; intros Hmn.
  - pose proof (head_fuel_le _ _ _ _ _ _ _ HX) as Hle. assert (n = fuel_for bs) by lia. subst n.
    destruct (head_unique _ _ _ _ _ _ _ HX _ _ _ _ _ (head_init bs c0 p0 H0)) as (-> & _ & _ & _ & ->).
    split; [lia|]. exists []. rewrite app_nil_r. reflexivity.
  - destruct (Nat.eq_dec m n) as [->|Hne].
    + destruct (head_unique _ _ _ _ _ _ _ HX _ _ _ _ _ (head_ok bs n body errors lc cnt pp ee p1 c0 h Hh Hlt He Hs))
        as (-> & _ & _ & _ & ->).
      split; [lia|]. exists []. rewrite app_nil_r. reflexivity.
    + destruct (IH ltac:(lia)) as (Hp & mid & Hm).
      pose proof (head_step_ok_le _ _ _ _ _ _ _ _ _ _ _ Hh Hlt He Hs). split; [lia|].
      rewrite mts_rev. destruct (get_entry_shape bs m pp pp ee p1 He) as [Hpl|Hc].
      * rewrite (push_plain_mts lc cnt ee body Hpl). cbn [rev]. rewrite <- mts_rev, Hm, <- app_assoc. eauto.
      * unfold mts, messages_terms. rewrite (push_comment is_mt lc cnt ee body non_comment_mt Hc).
        fold (messages_terms body). fold (mts body). rewrite <- mts_rev, Hm. eauto.
  - destruct (Nat.eq_dec m n) as [->|Hne].
    + destruct (head_unique _ _ _ _ _ _ _ HX _ _ _ _ _ (head_err bs n body errors lc cnt pp err p1 ej q1 c0 h Hh Hlt He Hr Hs))
        as (-> & _ & _ & _ & ->).
      split; [lia|]. exists []. rewrite app_nil_r. reflexivity.
    + destruct (IH ltac:(lia)) as (Hp & mid & Hm).
      pose proof (head_step_err_le _ _ _ _ _ _ _ _ _ _ _ _ _ Hh Hlt He Hr Hs). split; [lia|].
      destruct ej as [e1 x]. destruct (recover_spec bs pp err p1 e1 x q1 Hr) as ((jc & ->) & _). cbn [snd].
      rewrite mts_rev. change (mts (Junk jc :: flush lc body)) with (mts (flush lc body)).
      rewrite mts_flush, <- mts_rev, Hm. eauto.
Qed.

Lemma at_head_ext bs p front ef lc cnt p' front' ef' lc' cnt' :
  at_head bs p front ef lc cnt -> at_head bs p' front' ef' lc' cnt' -> p < p' ->
  exists mid, mts front' = mts front ++ mid.
Proof.
  intros (n & b & e & HX & -> & ->) (m & b' & e' & HY & -> & ->) Hlt.
  destruct (Nat.le_gt_cases m n) as [Hmn|Hmn].
  - exact (proj2 (head_ext _ _ _ _ _ _ _ HX _ _ _ _ _ _ HY Hmn)).
  - exfalso. pose proof (proj1 (head_ext _ _ _ _ _ _ _ HY _ _ _ _ _ _ HX ltac:(lia))). lia.
Qed.

(* in a run that ends without errors, no head has seen an error *)
Lemma at_head_no_errors bs p front ef lc cnt b :
  at_head bs p front ef lc cnt -> parse bs = Done (b, []) -> ef = [].
Proof.
  intros (n & body & errors & Hh & -> & ->) Hp. unfold parse in Hp. apply to_outcome_done in Hp as [qf Hp].
  rewrite <- (head_run _ _ _ _ _ _ _ Hh) in Hp. rewrite parse_loop_glue in Hp.
  destruct (parse_loop bs n [] [] None 0 p) as [[b0 e0] q0| | |]; cbn [map_res] in Hp; try discriminate.
  unfold glue in Hp. cbn [fst snd] in Hp. injection Hp as _ He _.
  apply app_eq_nil in He. exact (proj1 He).
Qed.

(* Syntax/RoundTripSel.v — property C02 for SELECT expressions and NESTED placeables: the instances of the
   generic development RoundTripML.v.

   The classes of placeable expressions are indexed by their nesting depth d (eokd d):
     depth 0:   an inline expression of CallArgs.binline (a reference, a literal, a function reference or a term
                reference with call arguments of CallArgs.args_ok);
     depth d+1: one of these, a placeable that holds an expression of depth d, or a select expression whose
                selector is of CallArgs.bsel (a string literal, a number literal, a variable reference, a function
                reference with call arguments, a term attribute with or without call arguments), with
                exactly one default variant, well-formed keys, and variant values that are patterns of
                RoundTripML.wl_pattern with placeables of depth d.
   (eoks / etexts: the depth-0 class without call arguments, kept for SerializerML.v.)
     1. the classes and their layouts (etextd d)
     2. get_placeable on a layout (by induction on the depth, with RoundTripML.get_pattern_wl for the variants)
     3. render prints a layout; the expressions are well-formed and in joined form
     4. parse (render cs t)                                                                          *)
From FluentV Require Import Base.Bytes Base.Outcome Base.Utf8 Base.Utf8Facts.
From FluentV Require Import Syntax.Ast Syntax.ParserModel Syntax.Render Syntax.TreeNorm Syntax.ParseLemmas Syntax.RoundTrip
  Syntax.EntryLoop Syntax.RoundTripML Syntax.CallArgs.
From Coq Require Import Lia ZifyBool ZifyNat ZifyN.

Arguments N.add : simpl never.
Arguments N.sub : simpl never.
Arguments N.eqb : simpl never.
Arguments N.ltb : simpl never.
Arguments N.leb : simpl never.

(* ---------------------------------------------------------------------------------------------- *)
(* 0. Blanks                                                                                        *)

(* a blank stretch is a number of blank lines and the spaces on the line after them *)
Lemma all_blank_lines W : all_blank W -> exists c BL s, W = BL ++ sp s /\ blank_lines_of c BL.
Proof.
  induction W as [|b|b b2 r IH1 IH2] using list_ind2; intros H.
  - exists 0, [], 0. split; [reflexivity | constructor].
  - unfold all_blank in H. cbn [blank_len length] in H.
    destruct (N.eqb b c_sp || N.eqb b c_lf) eqn:E.
    + apply orb_prop in E as [E | E]; apply N.eqb_eq in E; subst b.
      * exists 0, [], 1. split; [reflexivity | constructor].
      * exists 1, [10%N], 0. split; [reflexivity|]. apply (bl_cons 0 lf 0 [] (or_introl eq_refl) bl_nil).
    + destruct (N.eqb b c_cr); discriminate H.
  - unfold all_blank in H. rewrite blank_len_cons in H. cbn [length] in H.
    destruct (N.eqb b c_sp || N.eqb b c_lf) eqn:E.
    + assert (H' : all_blank (b2 :: r)) by (unfold all_blank; cbn [length]; lia).
      destruct (IH2 H') as (c & BL & s & EW & HBL).
      apply orb_prop in E as [E | E]; apply N.eqb_eq in E; subst b.
      * (* a space *)
        destruct HBL as [|s0 e c0 r0 He Hr0].
        -- cbn [app] in EW. exists 0, [], (S s). split; [rewrite EW; reflexivity | constructor].
        -- exists (S c0), (sp (S s0) ++ e ++ r0), s. split; [rewrite EW, <- !app_assoc; reflexivity|].
           constructor; assumption.
      * (* a line feed *)
        exists (S c), (sp 0 ++ lf ++ BL), s. split; [rewrite EW; reflexivity|]. constructor; [left; reflexivity | exact HBL].
    + destruct (N.eqb b c_cr) eqn:Ecr; [|discriminate H]. apply N.eqb_eq in Ecr. subst b.
      destruct (N.eqb b2 c_lf) eqn:Elf; [|discriminate H]. apply N.eqb_eq in Elf. subst b2.
      assert (H' : all_blank r) by (unfold all_blank; lia).
      destruct (IH1 H') as (c & BL & s & EW & HBL).
      exists (S c), (sp 0 ++ crlf ++ BL), s. split; [rewrite EW; reflexivity|]. constructor; [right; reflexivity | exact HBL].
Qed.

(* the bytes at which a variant value ends: "*", "[" of the next variant, "}" of the placeable *)
Definition stop_byte (b : N) : Prop := b = 42%N \/ b = 91%N \/ b = 125%N.

Lemma stop_byte_facts b : stop_byte b ->
  N.eqb b 32 = false /\ N.eqb b 10 = false /\ N.eqb b 13 = false /\ N.eqb b 123 = false /\ is_cont b = false /\
  is_byte_pattern_continuation b = false.
Proof. intros [-> | [-> | ->]]; repeat split; reflexivity. Qed.

(* what follows a variant value: a line end, blanks, and a stop byte *)
Lemma after_value_stop x W b t : is_eol_bytes x -> all_blank W -> stop_byte b ->
  exists used c s, after_value (x ++ W ++ b :: t) used c (sp s ++ b :: t) /\ used + s = length (x ++ W).
Proof.
  intros Hx HW Hb. destruct (all_blank_lines W HW) as (c & BL & s & -> & HBL).
  destruct (stop_byte_facts b Hb) as (H32 & H10 & H13 & H123 & Hc & Hpc).
  exists (length x + length BL), c, s. split.
  - rewrite <- !app_assoc. apply av_lines; [exact Hx | exact HBL|].
    destruct s as [|s]; [right; left; exists b, t; repeat split; assumption | right; right; exists s, b, t; split; [reflexivity | exact Hpc]].
  - rewrite !app_length, sp_length. lia.
Qed.

(* the byte after an identifier or a number, when a blank and one of ] - } follow *)
Lemma all_blank_head_end b2 c rest : all_blank b2 -> c = 93%N \/ c = 125%N ->
  head_not is_ident_char (b2 ++ c :: rest) /\ starts_char (b2 ++ c :: rest) = true /\
  head_not not_digit_or_dot (b2 ++ c :: rest).
Proof.
  unfold all_blank. intros H Hc. destruct b2 as [|b r]; [destruct Hc as [-> | ->]; repeat split; reflexivity|].
  cbn [app]. rewrite blank_len_cons in H. cbn [length] in H.
  destruct (N.eqb b c_sp || N.eqb b c_lf) eqn:E1.
  - apply orb_prop in E1. unfold c_sp, c_lf in E1.
    assert (Hb : b = 32%N \/ b = 10%N) by (destruct E1 as [E | E]; apply N.eqb_eq in E; auto).
    destruct Hb as [-> | ->]; repeat split; reflexivity.
  - destruct (N.eqb b c_cr) eqn:E2; [|discriminate]. apply N.eqb_eq in E2. unfold c_cr in E2. subst b.
    repeat split; reflexivity.
Qed.

(* ---------------------------------------------------------------------------------------------- *)
(* 1. The classes                                                                                   *)

(* depth 0: an inline expression of CallArgs.binline (a simple one, or a function reference / a term reference
   with simple call arguments) and its layouts CallArgs.itext *)
Definition eok0 (e : expression) : bool := match e with Inline i => binline i | _ => false end.
Inductive etext0 : expression -> bytes -> Prop :=
| et0 i X : binline i = true -> itext i X -> etext0 (Inline i) X.

(* the same with simple inline expressions only (used by SerializerML.v) *)
Definition eoks (e : expression) : bool := match e with Inline i => simple_inline i | _ => false end.
Inductive etexts : expression -> bytes -> Prop :=
| ets i : simple_inline i = true -> etexts (Inline i) (inline_text i).

(* the selectors that are simple inline expressions: a string literal, a number literal, a variable reference
   (all selectors: CallArgs.bsel) *)
Definition sel_ok (i : inline) : bool :=
  match i with StringLiteral _ | NumberLiteral _ | VariableReference _ => simple_inline i | _ => false end.
Definition key_ok (k : variant_key) : bool :=
  match k with KeyIdentifier n => wf_identifier n | KeyNumber n => wf_number n end.

(* the variants of a select expression, one after the other; vl: the layouts of their values.  After a value:
   a line end and blanks (blank lines, the indentation of the next variant or of the closing brace) *)
Inductive variants_layout (vl : list pattern_element -> bytes -> Prop) : list variant -> bytes -> Prop :=
| vsl_nil : variants_layout vl [] []
| vsl_cons k els dflt r b1 b2 V x W VS :
    all_blank b1 -> all_blank b2 -> vl els V -> is_eol_bytes x -> all_blank W -> variants_layout vl r VS ->
    variants_layout vl (Variant k (Pattern els) dflt :: r)
      ((if dflt then [42%N] else []) ++ 91%N :: b1 ++ render_key k ++ b2 ++ 93%N :: V ++ x ++ W ++ VS).

(* the text of a select expression: selector, blank, "->", spaces, line end, blanks, the variants *)
Inductive select_layout (vl : list pattern_element -> bytes -> Prop) : expression -> bytes -> Prop :=
| sell sel vs Xs b1' j x0 W0 VS :
    seltext sel Xs -> all_blank b1' -> (ends_with_id_char Xs = true -> b1' <> []) -> is_eol_bytes x0 -> all_blank W0 ->
    variants_layout vl vs VS ->
    select_layout vl (Select sel vs) (Xs ++ b1' ++ [45; 62]%N ++ sp j ++ x0 ++ W0 ++ VS).

Definition variant_ok (eok : expression -> bool) (v : variant) : bool :=
  match v with Variant k p _ => key_ok k && wl_pattern eok p end.

Fixpoint eokd (d : nat) (e : expression) : bool :=
  match d with
  | 0 => eok0 e
  | S d' =>
      match e with
      | Inline (Placeable e1) => eokd d' e1
      | Inline i => binline i
      | Select sel vs => bsel sel && Nat.eqb (count_defaults vs) 1 && forallb (variant_ok (eokd d')) vs
      end
  end.

Fixpoint etextd (d : nat) : expression -> bytes -> Prop :=
  match d with
  | 0 => etext0
  | S d' => fun e X =>
      etext0 e X \/
      (exists e1 b1 b2 X1, e = Inline (Placeable e1) /\ all_blank b1 /\ all_blank b2 /\ etextd d' e1 X1 /\
                           X = 123%N :: b1 ++ X1 ++ b2 ++ [125%N]) \/
      select_layout (wl_value_layout (etextd d')) e X
  end.

(* ---------------------------------------------------------------------------------------------- *)
(* 2. The parser on a select expression                                                             *)

Section SelParse.
Variable eok : expression -> bool.
Variable etext : expression -> bytes -> Prop.
Variable egood : expression -> Prop.
Variable bs : bytes.
(* get_pattern on the variant values (RoundTripML.get_pattern_wl at the depth below) *)
Hypothesis Hpat : forall els V T used c nx p n,
  wl_pattern eok (Pattern els) = true -> wl_value_layout etext els V -> after_value T used c nx -> at_ bs p (V ++ T) ->
  3 * length (V ++ T) + 12 <= n ->
  exists els', get_pattern bs n p = Ok (Some (Pattern els')) (used + (length V + p)) /\ srel egood els' els.

Lemma key_head k t : key_ok k = true -> no_blank_head (render_key k ++ t).
Proof.
  destruct k as [id | v]; cbn [key_ok render_key]; intros H.
  - destruct (wf_identifier_head id H) as (b & r & -> & Hb). cbn [app].
    apply no_blank_head_byte; unfold is_ascii_alphabetic, in_rng in Hb; lia.
  - pose proof (wf_number_shape v H) as [neg ip f Hi1 Hi2 Hf]. destruct neg; [reflexivity|].
    destruct ip as [|d ip]; [congruence|]. cbn [forallb] in Hi2. apply andb_prop in Hi2 as [Hd _].
    cbn [app]. apply no_blank_head_byte; unfold is_ascii_digit, in_rng in Hd; lia.
Qed.

Lemma get_variant_key_ok k b1 b2 t p :
  key_ok k = true -> all_blank b1 -> all_blank b2 -> at_ bs p (b1 ++ render_key k ++ b2 ++ 93%N :: t) ->
  get_variant_key bs p = Ok k (S (length (b1 ++ render_key k ++ b2) + p)).
Proof.
  intros Hk Hb1 Hb2 H. unfold get_variant_key.
  step (skip_blank_blank bs p b1 _ H Hb1 (key_head k _ Hk)).
  pose proof (at_app _ _ _ _ H) as H1.
  destruct (all_blank_head_end b2 93%N t Hb2 (or_introl eq_refl)) as (Hh1 & Hh2 & Hh3).
  assert (Hkey : forall B (g : variant_key -> M B),
             (ns <- is_number_start bs ;;
              key <- (if ns then (v <- get_number_literal bs ;; ret (KeyNumber v))
                      else (n <- get_identifier bs ;; ret (KeyIdentifier n))) ;; g key) (length b1 + p) =
             g k (length (render_key k) + (length b1 + p))).
  { intros B0 g. destruct k as [id | v]; cbn [key_ok render_key] in *.
    - destruct (wf_identifier_head id Hk) as (b & r & Eid & Hb).
      unfold is_number_start at 1. unfold bind at 1.
      assert (Hb0 : at_ bs (length b1 + p) (b :: r ++ b2 ++ 93%N :: t)) by (rewrite Eid in H1; exact H1).
      rewrite (at_byte _ _ _ _ Hb0).
      replace (is_ascii_digit b || N.eqb b 45) with false by (unfold is_ascii_alphabetic, is_ascii_digit, in_rng in *; lia).
      rewrite bind_assoc. step (get_identifier_ok bs _ id _ H1 Hk Hh1 Hh2). reflexivity.
    - pose proof (wf_number_shape v Hk) as Hshape.
      unfold is_number_start at 1. unfold bind at 1.
      assert (Hns : match byte_at bs (length b1 + p) with Some b => is_ascii_digit b || N.eqb b 45 | None => false end = true).
      { destruct Hshape as [neg ip fr Hi1 Hi2 Hf]. destruct neg.
        - cbn [app] in H1. rewrite (at_byte _ _ _ _ H1). reflexivity.
        - destruct ip as [|d ip]; [congruence|]. cbn [forallb] in Hi2. apply andb_prop in Hi2 as [Hd _].
          cbn [app] in H1. rewrite (at_byte _ _ _ _ H1), Hd. reflexivity. }
      rewrite Hns. rewrite bind_assoc. step (get_number_literal_ok bs _ v _ H1 Hk Hh3 Hh2). reflexivity. }
  rewrite Hkey.
  pose proof (at_app _ _ _ _ H1) as H2.
  step (skip_blank_blank bs _ b2 _ H2 Hb2 ltac:(reflexivity)).
  pose proof (at_app _ _ _ _ H2) as H3.
  step (expect_byte_yes bs _ 93 _ H3). unfold ret. f_equal. rewrite !app_length. lia.
Qed.

(* what the parser returns for a variant *)
Definition vrel (v' v : variant) : Prop :=
  match v', v with
  | Variant k' (Pattern els') d', Variant k (Pattern els) d => k' = k /\ d' = d /\ srel egood els' els
  end.

Lemma variants_layout_head vl vs VS : variants_layout vl vs VS -> vs <> [] -> exists b t, VS = b :: t /\ stop_byte b.
Proof.
  intros [|k els dflt r b1 b2 V x W VS' Hb1 Hb2 HV Hx HW Hr] Hne; [congruence|].
  destruct dflt; cbn [app]; eexists; eexists; (split; [reflexivity|]); [left; reflexivity | right; left; reflexivity].
Qed.

(* the blank in front of the closing brace belongs to the last variant *)
Lemma variants_layout_tail vl vs VS tail : variants_layout vl vs VS -> vs <> [] -> all_blank tail ->
  variants_layout vl vs (VS ++ tail).
Proof.
  induction 1 as [|k els dflt r b1 b2 V x W VS' Hb1 Hb2 HV Hx HW Hr IH]; intros Hne Htail; [congruence|].
  replace (((if dflt then [42%N] else []) ++ 91%N :: b1 ++ render_key k ++ b2 ++ 93%N :: V ++ x ++ W ++ VS') ++ tail)
    with ((if dflt then [42%N] else []) ++ 91%N :: b1 ++ render_key k ++ b2 ++ 93%N :: V ++ x ++ W ++ VS' ++ tail)
    by (destruct dflt; cbn [app]; repeat (rewrite <- app_assoc; cbn [app]); reflexivity).
  destruct r as [|v2 r2].
  - inversion Hr; subst. cbn [app].
    replace (W ++ tail) with ((W ++ tail) ++ []) by apply app_nil_r.
    apply vsl_cons; try assumption; try (apply all_blank_app; assumption); constructor.
  - apply vsl_cons; try assumption. apply IH; [discriminate | exact Htail].
Qed.

Lemma variants_loop_ok vs VS : variants_layout (wl_value_layout etext) vs VS -> forallb (variant_ok eok) vs = true ->
  forall rest acc (hd : bool) p n,
  count_defaults vs + (if hd then 1 else 0) = 1 ->
  at_ bs p (VS ++ 125%N :: rest) -> 3 * length (VS ++ 125%N :: rest) + 13 <= n ->
  exists vs', variants_loop bs n acc hd p = Ok (rev acc ++ vs') (length VS + p) /\ Forall2 vrel vs' vs.
Proof.
  induction 1 as [|k els dflt r b1 b2 V x W VS Hb1 Hb2 HV Hx HW Hr IH]; intros Hok rest acc hd p n Hcnt H Hn.
  - (* no variant left: the closing brace *)
    destruct n as [|n]; [lia|]. cbn [app] in H. exists []. split; [|constructor].
    cbn [variants_loop].
    step (take_byte_if_no bs p 42 _ H ltac:(reflexivity)). cbn [andb orb].
    step (take_byte_if_no bs p 91 _ H ltac:(reflexivity)). cbn [negb].
    cbn [count_defaults] in Hcnt. destruct hd; [|discriminate Hcnt]. rewrite app_nil_r. reflexivity.
  - cbn [forallb] in Hok. apply andb_prop in Hok as [Hv Hrok]. unfold variant_ok in Hv. apply andb_prop in Hv as [Hk Hp].
    destruct n as [|n]; [lia|]. cbn [variants_loop].
    cbn [count_defaults] in Hcnt.
    (* the "*" of the default variant *)
    assert (Hstar : exists p1, take_byte_if bs 42 p = Ok dflt p1 /\
                    at_ bs p1 (91%N :: b1 ++ render_key k ++ b2 ++ 93%N :: V ++ x ++ W ++ VS ++ 125%N :: rest) /\
                    p1 = length (if dflt then [42%N] else []) + p).
    { rewrite <- !app_assoc in H. cbn [app] in H. rewrite <- !app_assoc in H. cbn [app] in H. rewrite <- !app_assoc in H.
      destruct dflt; cbn [app] in H.
      - exists (S p). split; [apply (take_byte_if_yes bs p 42 _ H) | split; [apply (at_cons _ _ _ _ H) | reflexivity]].
      - exists p. split; [apply (take_byte_if_no bs p 42 _ H); reflexivity | split; [exact H | reflexivity]]. }
    destruct Hstar as (p1 & E1 & H1 & Ep1). step E1.
    assert (Hhd : dflt && hd = false) by (destruct dflt, hd; try reflexivity; cbn in Hcnt; lia).
    rewrite Hhd.
    step (take_byte_if_yes bs p1 91 _ H1). cbn [negb].
    pose proof (at_cons _ _ _ _ H1) as H2.
    step (get_variant_key_ok k b1 b2 _ (S p1) Hk Hb1 Hb2 H2).
    set (p3 := S (length (b1 ++ render_key k ++ b2) + S p1)).
    assert (H3 : at_ bs p3 (V ++ x ++ W ++ VS ++ 125%N :: rest)).
    { unfold p3. replace (b1 ++ render_key k ++ b2 ++ 93%N :: V ++ x ++ W ++ VS ++ 125%N :: rest)
        with ((b1 ++ render_key k ++ b2) ++ 93%N :: V ++ x ++ W ++ VS ++ 125%N :: rest) in H2 by (rewrite <- !app_assoc; reflexivity).
      apply at_app in H2. apply at_cons in H2. exact H2. }
    (* what follows the value *)
    assert (Hnext : exists b t, VS ++ 125%N :: rest = b :: t /\ stop_byte b).
    { destruct r as [|v2 r2]; [inversion Hr; subst; cbn [app]; exists 125%N, rest; split; [reflexivity | right; right; reflexivity]|].
      destruct (variants_layout_head _ _ _ Hr ltac:(discriminate)) as (b & t & -> & Hb). exists b, (t ++ 125%N :: rest). auto. }
    destruct Hnext as (b & t & Enext & Hb). rewrite Enext in H3.
    destruct (after_value_stop x W b t Hx HW Hb) as (used & c & s & HT & Hused).
    replace (x ++ W ++ b :: t) with (x ++ W ++ b :: t) in HT by reflexivity.
    pose (els0 := els).
    all: assert (Hlen : length (VS ++ 125%N :: rest) = length (b :: t)) by (rewrite Enext; reflexivity).
    all: rewrite !app_length in Hn; cbn [length] in Hn; rewrite !app_length in Hn; cbn [length] in Hn; rewrite ?app_length in Hn.
    all: destruct (Hpat els0 V (x ++ W ++ b :: t) used c (sp s ++ b :: t) p3 n Hp HV HT H3
                     ltac:(rewrite !app_length; cbn [length]; rewrite app_length in Hlen; cbn [length] in Hlen; lia)) as (els' & Ep & Hrel).
    all: step Ep.
    all: pose proof (after_value_next bs _ _ _ _ HT _ (at_app _ _ _ _ H3)) as H4.
    all: step (skip_blank_blank bs _ (sp s) _ H4 (all_blank_sp s)
                 ltac:(destruct (stop_byte_facts b Hb) as (A1 & A2 & A3 & _); apply no_blank_head_byte; assumption)).
    all: rewrite sp_length; pose proof (at_app _ _ _ _ H4) as H5; rewrite sp_length in H5; rewrite <- Enext in H5.
    all: match goal with |- context [variants_loop _ _ (?v :: _) ?h] =>
           destruct (IH Hrok rest (v :: acc) h _ n
                       ltac:(destruct dflt, hd; cbn in Hcnt |- *; lia) H5
                       ltac:(rewrite app_length; cbn [length]; rewrite app_length in Hlen; cbn [length] in Hlen; lia))
             as (vs' & El & Hrels) end.
    exists (Variant k (Pattern els') dflt :: vs'). split; [|constructor; [cbn [vrel]; split; [reflexivity | split; [reflexivity | exact Hrel]] | exact Hrels]].
    rewrite El. cbn [rev]. rewrite <- app_assoc. cbn [app]. f_equal.
    unfold p3. subst p1. rewrite app_length in Hused.
    assert (Hl : length ((if dflt then [42%N] else []) ++ 91%N :: b1 ++ render_key k ++ b2 ++ 93%N :: V ++ x ++ W ++ VS) =
                 length (if dflt then [42%N] else []) + S (length (b1 ++ render_key k ++ b2) + S (length V + (length x + length W + length VS)))).
    { rewrite app_length. cbn [length]. f_equal. f_equal.
      replace (b1 ++ render_key k ++ b2 ++ 93%N :: V ++ x ++ W ++ VS) with ((b1 ++ render_key k ++ b2) ++ 93%N :: V ++ x ++ W ++ VS)
        by (rewrite <- !app_assoc; reflexivity).
      rewrite (app_length (b1 ++ render_key k ++ b2)). cbn [length]. rewrite !app_length. lia. }
    rewrite Hl. lia.
Qed.

(* ---- the selector ---- *)
Lemma ends_with_id_char_app a b : b <> [] -> ends_with_id_char (a ++ b) = ends_with_id_char b.
Proof.
  intros Hb. unfold ends_with_id_char. rewrite rev_app_distr. destruct (rev b) eqn:E; [|reflexivity].
  apply (f_equal (@rev N)) in E. rewrite rev_involutive in E. cbn in E. congruence.
Qed.

Lemma ends_with_id_char_all l : l <> [] -> forallb id_char l = true -> ends_with_id_char l = true.
Proof.
  intros Hne Hall. unfold ends_with_id_char. rewrite (rev_last l Hne). rewrite forallb_forall in Hall.
  apply Hall, last_in, Hne.
Qed.

Lemma digits_id_chars l : forallb is_ascii_digit l = true -> forallb id_char l = true.
Proof.
  rewrite !forallb_forall. intros H x Hx. specialize (H x Hx). unfold is_ascii_digit, in_rng in H. unfold id_char. lia.
Qed.

Lemma sel_ends_id sel : sel_ok sel = true ->
  (exists s, sel = StringLiteral s) \/ ends_with_id_char (inline_text sel) = true.
Proof.
  destruct sel as [s | v | id args | id att | id att args | id | e]; cbn [sel_ok simple_inline]; intros H; try discriminate H.
  - left. eauto.
  - right. cbn [inline_text]. destruct (wf_number_shape v H) as [neg ip f Hi1 Hi2 Hf].
    destruct f as [fd|].
    + destruct Hf as [Hf1 Hf2]. rewrite app_assoc. change (46%N :: fd) with ([46%N] ++ fd). rewrite app_assoc.
      rewrite (ends_with_id_char_app _ fd Hf1). apply ends_with_id_char_all; [exact Hf1 | apply digits_id_chars, Hf2].
    + rewrite app_nil_r, (ends_with_id_char_app _ ip Hi1). apply ends_with_id_char_all; [exact Hi1 | apply digits_id_chars, Hi2].
  - right. cbn [inline_text]. change (36%N :: id) with ([36%N] ++ id).
    assert (Hne : id <> []) by (destruct id; [discriminate H | discriminate]).
    rewrite (ends_with_id_char_app _ id Hne). apply ends_with_id_char_all; [exact Hne|].
    destruct id as [|b r]; [congruence|]. cbn [wf_identifier] in H. apply andb_prop in H as [Hb Hr]. cbn [forallb].
    apply andb_true_intro. split.
    + unfold is_alpha in Hb. unfold id_char. lia.
    + rewrite forallb_forall in *. intros x Hx. specialize (Hr x Hx). unfold is_id_char, is_alpha, is_digit in Hr. unfold id_char. lia.
Qed.

Lemma blank_head_facts b t : all_blank b -> b <> [] ->
  head_not is_ident_char (b ++ t) /\ starts_char (b ++ t) = true /\ head_not not_digit_or_dot (b ++ t).
Proof.
  unfold all_blank. intros H Hne. destruct b as [|x r]; [congruence|].
  cbn [app]. rewrite blank_len_cons in H. cbn [length] in H.
  destruct (N.eqb x c_sp || N.eqb x c_lf) eqn:E1.
  - apply orb_prop in E1. unfold c_sp, c_lf in E1.
    assert (Hb : x = 32%N \/ x = 10%N) by (destruct E1 as [E | E]; apply N.eqb_eq in E; auto).
    destruct Hb as [-> | ->]; repeat split; reflexivity.
  - destruct (N.eqb x c_cr) eqn:E2; [|discriminate]. apply N.eqb_eq in E2. unfold c_cr in E2. subst x.
    repeat split; reflexivity.
Qed.

Lemma sel_no_blank_head sel t : sel_ok sel = true -> no_blank_head (inline_text sel ++ t).
Proof.
  destruct sel as [s | v | id args | id att | id att args | id | e]; cbn [sel_ok simple_inline inline_text]; intros H;
    try discriminate H; try reflexivity.
  pose proof (wf_number_shape v H) as [neg ip fr Hi1 Hi2 Hf]. destruct neg; [reflexivity|].
  destruct ip as [|d ip]; [congruence|]. cbn [forallb] in Hi2. apply andb_prop in Hi2 as [Hd _].
  cbn [app]. apply no_blank_head_byte; unfold is_ascii_digit, in_rng in Hd; lia.
Qed.

(* the selector, followed by a blank (not empty unless the selector is a string literal) and "-" *)
Lemma get_selector sel b1' t p n :
  sel_ok sel = true -> all_blank b1' -> (ends_with_id_char (inline_text sel) = true -> b1' <> []) ->
  at_ bs p (inline_text sel ++ b1' ++ 45%N :: t) -> length (inline_text sel) + 2 <= n ->
  get_inline_expression bs n false p = Ok sel (length (inline_text sel) + p).
Proof.
  intros Hsel Hb Hid H Hn.
  destruct (sel_ends_id sel Hsel) as [[s ->] | Hends].
  - cbn [sel_ok simple_inline] in Hsel. apply andb_prop in Hsel as [Hwf Hsc]. cbn [inline_text] in *.
    assert (H' : at_ bs p (34%N :: s ++ 34%N :: b1' ++ 45%N :: t)) by (cbn [app] in H; rewrite <- app_assoc in H; exact H).
    rewrite (get_inline_expression_string bs p s _ n false H' Hwf Hsc
               ltac:(cbn [length] in Hn; rewrite app_length in Hn; cbn [length] in Hn; lia)).
    f_equal. cbn [length]. rewrite app_length. cbn [length]. lia.
  - destruct (blank_head_facts b1' (45%N :: t) Hb (Hid Hends)) as (Hh1 & Hh2 & Hh4).
    destruct sel as [s | v | id args | id att | id att args | id | e]; cbn [sel_ok simple_inline inline_text] in *;
      try discriminate Hsel.
    + (* a string literal does not end with an identifier character, but the case is covered above *)
      apply andb_prop in Hsel as [Hwf Hsc].
      assert (H' : at_ bs p (34%N :: s ++ 34%N :: b1' ++ 45%N :: t)) by (cbn [app] in H; rewrite <- app_assoc in H; exact H).
      rewrite (get_inline_expression_string bs p s _ n false H' Hwf Hsc
                 ltac:(cbn [length] in Hn; rewrite app_length in Hn; cbn [length] in Hn; lia)).
      f_equal. cbn [length]. rewrite app_length. cbn [length]. lia.
    + (* NumberLiteral *)
      destruct n as [|n]; [lia|].
      pose proof (wf_number_shape v Hsel) as Hshape.
      assert (Hnum : get_number_literal bs p = Ok v (length v + p))
        by (apply (get_number_literal_shape bs p v _ H Hshape Hh4 Hh2)).
      cbn [get_inline_expression]. rewrite bind_current_byte.
      destruct Hshape as [neg ip f Hi1 Hi2 Hf].
      destruct ip as [|d ip]; [congruence|]. cbn [forallb] in Hi2. apply andb_prop in Hi2 as [Hd _].
      destruct neg.
      * assert (H0 : at_ bs p (45%N :: d :: ip ++ match f with Some fd => 46%N :: fd | None => [] end ++ b1' ++ 45%N :: t)).
        { cbn [app] in H. rewrite <- !app_assoc in H. exact H. }
        rewrite (at_byte _ _ _ _ H0). change (N.eqb 45 34) with false. change (is_ascii_digit 45) with false.
        change (N.eqb 45 45 && negb false) with true. cbv iota.
        rewrite bind_advance. change (1 + p) with (S p).
        step (is_identifier_start_at bs _ d _ (at_cons _ _ _ _ H0)).
        replace (is_ascii_alphabetic d) with false
          by (unfold is_ascii_digit, is_ascii_alphabetic, in_rng in *; lia).
        rewrite (bind_ok (retreat 1) _ (S p) tt p) by (unfold retreat; cbn [Nat.leb]; f_equal; lia).
        step Hnum. unfold ret. f_equal.
      * assert (H0 : at_ bs p (d :: ip ++ match f with Some fd => 46%N :: fd | None => [] end ++ b1' ++ 45%N :: t)).
        { cbn [app] in H. rewrite <- !app_assoc in H. exact H. }
        rewrite (at_byte _ _ _ _ H0).
        replace (N.eqb d 34) with false by (unfold is_ascii_digit, in_rng in Hd; lia).
        rewrite Hd. step Hnum. unfold ret. f_equal.
    + (* VariableReference *)
      destruct n as [|n]; [lia|].
      cbn [get_inline_expression]. rewrite bind_current_byte.
      assert (H0 : at_ bs p (36%N :: id ++ b1' ++ 45%N :: t)) by (cbn [app] in H; exact H).
      rewrite (at_byte _ _ _ _ H0). change (N.eqb 36 34) with false. change (is_ascii_digit 36) with false.
      change (N.eqb 36 45) with false. change (N.eqb 36 36 && negb false) with true. cbn [andb]. cbv iota.
      rewrite bind_advance. change (1 + p) with (S p).
      step (get_identifier_ok bs _ id _ (at_cons _ _ _ _ H0) Hsel Hh1 Hh2).
      unfold ret. f_equal. cbn [length]. lia.
Qed.

(* all selectors *)
Lemma get_selector_b sel Xs b1' t p n :
  bsel sel = true -> seltext sel Xs -> all_blank b1' -> (ends_with_id_char Xs = true -> b1' <> []) ->
  at_ bs p (Xs ++ b1' ++ 45%N :: t) -> length Xs + 6 <= n ->
  get_inline_expression bs n false p = Ok sel (length Xs + (if sel_eats sel then length b1' else 0) + p).
Proof.
  intros Hsel HX Hb Hid H Hn. pose proof (seltext_ends_id sel Xs Hsel HX) as Hends. revert Hsel Hends H Hn Hid.
  destruct HX as [i Hi | id ca b A Hb0 HA | id a | id a ca b A Hb0 HA]; intros Hsel Hends H Hn Hid.
  - assert (Hso : sel_ok i = true /\ sel_eats i = false).
    { destruct i as [s | v | id args | id att | id [a|] [ca|] | id | e]; try discriminate Hsel; try discriminate Hi;
        split; try reflexivity; exact Hi. }
    destruct Hso as [Hso ->]. rewrite Nat.add_0_r. apply (get_selector i b1' t p n Hso Hb Hid H). lia.
  - cbn [bsel] in Hsel. apply andb_prop in Hsel as [Hcal Hca]. cbn [sel_eats]. rewrite Nat.add_0_r.
    apply (get_inline_function bs id ca b A (b1' ++ 45%N :: t) p n Hcal Hca Hb0 HA); [rewrite <- !app_assoc in H; exact H|].
    rewrite !app_length in Hn. lia.
  - cbn [bsel] in Hsel. apply andb_prop in Hsel as [Hsel _]. apply andb_prop in Hsel as [Hidw Ha]. cbn [sel_eats].
    apply (get_inline_term_attr bs id a b1' t p n Hidw Ha Hb (Hid (Hends eq_refl))); [|lia].
    cbn [app] in H. rewrite <- !app_assoc in H. cbn [app] in H. rewrite <- ?app_assoc in H. exact H.
  - cbn [bsel] in Hsel. apply andb_prop in Hsel as [Hsel Hca]. apply andb_prop in Hsel as [Hidw Ha]. cbn [sel_eats]. rewrite Nat.add_0_r.
    rewrite (get_inline_term_args bs id (Some a) ca b A (b1' ++ 45%N :: t) p n Hidw Ha Hca Hb0 HA).
    + f_equal.
    + cbn [app] in H. rewrite <- !app_assoc in H. cbn [app] in H. rewrite <- ?app_assoc in H. exact H.
    + cbn [length] in Hn. rewrite !app_length in Hn. cbn [length] in Hn. rewrite !app_length in Hn. lia.
Qed.

(* unfolding equations of the mutual fixpoint *)
Lemma get_placeable_S n :
  get_placeable bs (S n) =
  (skip_blank bs ;;;
   exp <- get_expression bs n ;;
   skip_blank_inline bs ;;;
   expect_byte bs 125 ;;;
   match exp with
   | Inline (TermReference _ (Some _) _) => error_here TermAttributeAsPlaceable
   | _ => ret exp
   end).
Proof. reflexivity. Qed.

Lemma get_expression_S n :
  get_expression bs (S n) =
  (exp <- get_inline_expression bs n false ;;
   skip_blank bs ;;;
   p <- get_ptr ;;
   if negb (is_byte_at bs 45 p) || negb (is_byte_at bs 62 (S p)) then
     match exp with
     | TermReference _ (Some _) _ => error_here TermAttributeAsPlaceable
     | _ => ret (Inline exp)
     end
   else
     chk <- match exp with
            | MessageReference _ None => error_here MessageReferenceAsSelector
            | MessageReference _ (Some _) => error_here MessageAttributeAsSelector
            | TermReference _ None _ => error_here TermReferenceAsSelector
            | TermReference _ (Some _) _ => ret tt
            | StringLiteral _ | NumberLiteral _ | VariableReference _ | FunctionReference _ _ => ret tt
            | Placeable _ => error_here ExpectedSimpleExpressionAsSelector
            end ;;
     advance 2 ;;;
     skip_blank_inline bs ;;;
     eol <- skip_eol bs ;;
     if negb eol then error_here (ExpectedCharRange [10; 32; 124; 32; 13; 10]%N)
     else
       skip_blank bs ;;;
       variants <- get_variants bs n ;;
       ret (Select exp variants)).
Proof. reflexivity. Qed.

Lemma get_variants_S n : get_variants bs (S n) = variants_loop bs n [] false.
Proof. reflexivity. Qed.

(* ---- a placeable with a select expression, from behind its "{" ---- *)
Lemma get_expression_select sel vs X b2 rest p n :
  bsel sel = true -> count_defaults vs = 1 -> forallb (variant_ok eok) vs = true ->
  select_layout (wl_value_layout etext) (Select sel vs) X -> all_blank b2 ->
  at_ bs p (X ++ b2 ++ 125%N :: rest) -> 3 * length (X ++ b2 ++ 125%N :: rest) + 7 <= n ->
  exists vs', get_expression bs n p = Ok (Select sel vs') (length (X ++ b2) + p) /\ Forall2 vrel vs' vs.
Proof.
  intros Hsel Hcnt Hvs HX Hb2 H Hn.
  inversion HX as [sel0 vs0 S0 b1' j x0 W0 VS HS0x Hb1' Hid Hx0 HW0 HVS E1 E2]; subst sel0 vs0 X. clear HX.
  assert (Hvne : vs <> []) by (intros ->; discriminate Hcnt).
  pose proof (variants_layout_tail _ vs VS b2 HVS Hvne Hb2) as HVS'.
  destruct (seltext_head sel S0 (b1' ++ 45%N :: 62%N :: sp j ++ x0 ++ W0 ++ (VS ++ b2) ++ 125%N :: rest) Hsel HS0x) as [_ HS0].
  assert (Hx0len : 1 <= length x0) by (destruct Hx0 as [-> | ->]; cbn; lia).
  assert (H1 : at_ bs p (S0 ++ b1' ++ 45%N :: 62%N :: sp j ++ x0 ++ W0 ++ (VS ++ b2) ++ 125%N :: rest)).
  { rewrite <- !app_assoc in H. cbn [app] in H. rewrite <- ?app_assoc in H.
    replace (VS ++ b2 ++ 125%N :: rest) with ((VS ++ b2) ++ 125%N :: rest) in H by (rewrite <- app_assoc; reflexivity). exact H. }
  clear H.
  assert (Hlen : length ((S0 ++ b1' ++ [45; 62]%N ++ sp j ++ x0 ++ W0 ++ VS) ++ b2 ++ 125%N :: rest) =
                 length S0 + length b1' + 2 + j + length x0 + length W0 + length ((VS ++ b2) ++ 125%N :: rest)).
  { repeat (rewrite app_length || rewrite sp_length || cbn [length]). lia. }
  rewrite Hlen in Hn. clear Hlen.
  destruct n as [|n2]; [lia|]. rewrite get_expression_S.
  step (get_selector_b sel S0 b1' _ _ n2 Hsel HS0x Hb1' Hid H1 ltac:(lia)).
  pose proof (at_app _ _ _ _ H1) as H2.
  assert (Hsk : skip_blank bs (length S0 + (if sel_eats sel then length b1' else 0) + p) = Ok tt (length b1' + (length S0 + p))).
  { destruct (sel_eats sel).
    - pose proof (at_app _ _ _ _ H2) as H2'.
      replace (length b1' + (length S0 + p)) with (length S0 + length b1' + p) in H2' |- * by lia.
      apply (skip_blank_none bs _ _ H2'). reflexivity.
    - rewrite Nat.add_0_r. apply (skip_blank_blank bs _ b1' _ H2 Hb1'). reflexivity. }
  step Hsk.
  pose proof (at_app _ _ _ _ H2) as H3.
  rewrite bind_get_ptr. rewrite (at_is_byte _ _ 45 _ H3). change (N.eqb 45 45) with true.
  rewrite (at_is_byte _ _ 62 _ (at_cons _ _ _ _ H3)). change (N.eqb 62 62) with true. cbn [negb orb].
  assert (Hchk : forall B (g : unit -> M B) q,
             bind (match sel with
                   | MessageReference _ None => error_here MessageReferenceAsSelector
                   | MessageReference _ (Some _) => error_here MessageAttributeAsSelector
                   | TermReference _ None _ => error_here TermReferenceAsSelector
                   | TermReference _ (Some _) _ => ret tt
                   | StringLiteral _ | NumberLiteral _ | VariableReference _ | FunctionReference _ _ => ret tt
                   | Placeable _ => error_here ExpectedSimpleExpressionAsSelector
                   end) g q = g tt q)
    by (intros B0 g q; destruct sel as [? | ? | ? ? | ? ? | ? [?|] ? | ? | ?]; try discriminate Hsel; reflexivity).
  rewrite Hchk. rewrite bind_advance.
  pose proof (at_cons _ _ _ _ (at_cons _ _ _ _ H3)) as H4.
  assert (Hhx : head_not is_space (x0 ++ W0 ++ (VS ++ b2) ++ 125%N :: rest)) by (destruct Hx0 as [-> | ->]; reflexivity).
  replace (2 + (length b1' + (length S0 + p))) with (S (S (length b1' + (length S0 + p)))) by lia.
  step (skip_blank_inline_sp bs _ j _ H4 Hhx).
  pose proof (at_app _ _ _ _ H4) as H5. rewrite sp_length in H5.
  step (skip_eol_eol bs _ x0 _ H5 Hx0). cbn [negb].
  pose proof (at_app _ _ _ _ H5) as H6.
  destruct (variants_layout_head _ _ _ HVS' Hvne) as (b & t & EVS & Hb).
  step (skip_blank_blank bs _ W0 _ H6 HW0
          ltac:(rewrite EVS; cbn [app]; destruct (stop_byte_facts b Hb) as (A1 & A2 & A3 & _); apply no_blank_head_byte; assumption)).
  pose proof (at_app _ _ _ _ H6) as H7.
  destruct n2 as [|n3]; [lia|]. rewrite get_variants_S.
  destruct (variants_loop_ok vs (VS ++ b2) HVS' Hvs rest [] false _ n3 ltac:(rewrite Hcnt; reflexivity) H7 ltac:(lia))
    as (vs' & El & Hrels).
  exists vs'. split; [|exact Hrels].
  step El. cbn [rev app]. unfold ret. f_equal.
  repeat (rewrite app_length || rewrite sp_length || cbn [length]). lia.
Qed.

Lemma get_placeable_select sel vs X b1 b2 rest p n :
  bsel sel = true -> count_defaults vs = 1 -> forallb (variant_ok eok) vs = true ->
  select_layout (wl_value_layout etext) (Select sel vs) X -> all_blank b1 -> all_blank b2 ->
  at_ bs p (b1 ++ X ++ b2 ++ 125%N :: rest) -> 3 * length (b1 ++ X ++ b2 ++ 125%N :: rest) + 8 <= n ->
  exists vs', get_placeable bs n p = Ok (Select sel vs') (S (length (b1 ++ X ++ b2) + p)) /\ Forall2 vrel vs' vs.
Proof.
  intros Hsel Hcnt Hvs HX Hb1 Hb2 H Hn.
  assert (Hhead : no_blank_head (X ++ b2 ++ 125%N :: rest)).
  { inversion HX as [sel0 vs0 S0 c1 j x0 W0 VS HS0x _ _ _ _ _ E1 E2]; subst. rewrite <- !app_assoc. apply (seltext_head sel S0 _ Hsel HS0x). }
  destruct n as [|n1]; [lia|]. rewrite get_placeable_S.
  step (skip_blank_blank bs p b1 _ H Hb1 Hhead).
  pose proof (at_app _ _ _ _ H) as H1.
  destruct (get_expression_select sel vs X b2 rest _ n1 Hsel Hcnt Hvs HX Hb2 H1 ltac:(rewrite app_length in Hn; lia))
    as (vs' & E & Hrels).
  exists vs'. split; [|exact Hrels]. step E.
  assert (H8 : at_ bs (length (X ++ b2) + (length b1 + p)) (125%N :: rest)).
  { rewrite app_assoc in H1. apply (at_app _ _ _ _ H1). }
  step (skip_blank_inline_sp bs _ 0 _ H8 ltac:(reflexivity)).
  step (expect_byte_yes bs _ 125 _ H8). unfold ret. f_equal.
  repeat (rewrite app_length || cbn [length]). lia.
Qed.

(* ---- a placeable that holds a placeable ---- *)
Lemma get_placeable_nested e1' c1 X1 c2 b1 b2 rest p n :
  all_blank b1 -> all_blank b2 ->
  at_ bs p (b1 ++ (123%N :: c1 ++ X1 ++ c2 ++ [125%N]) ++ b2 ++ 125%N :: rest) ->
  get_placeable bs n (S (length b1 + p)) = Ok e1' (S (length (c1 ++ X1 ++ c2) + S (length b1 + p))) ->
  get_placeable bs (S (S (S n))) p =
  Ok (Inline (Placeable e1')) (S (length (b1 ++ (123%N :: c1 ++ X1 ++ c2 ++ [125%N]) ++ b2) + p)).
Proof.
  intros Hb1 Hb2 H Hin. rewrite get_placeable_S.
  step (skip_blank_blank bs p b1 _ H Hb1 ltac:(reflexivity)).
  pose proof (at_app _ _ _ _ H) as H1. cbn [app] in H1.
  rewrite get_expression_S.
  assert (Hgi : get_inline_expression bs (S n) false (length b1 + p) =
                Ok (Placeable e1') (S (length (c1 ++ X1 ++ c2) + S (length b1 + p)))).
  { cbn [get_inline_expression]. rewrite bind_current_byte. rewrite (at_byte _ _ _ _ H1).
    change (N.eqb 123 34) with false. change (is_ascii_digit 123) with false. change (N.eqb 123 45) with false.
    change (N.eqb 123 36) with false. change (is_ascii_alphabetic 123) with false. change (N.eqb 123 123) with true.
    cbn [andb negb]. rewrite bind_advance. change (1 + (length b1 + p)) with (S (length b1 + p)).
    step Hin. reflexivity. }
  rewrite bind_assoc. step Hgi.
  assert (H2 : at_ bs (S (length (c1 ++ X1 ++ c2) + S (length b1 + p))) (b2 ++ 125%N :: rest)).
  { replace (123%N :: (c1 ++ X1 ++ c2 ++ [125%N]) ++ b2 ++ 125%N :: rest)
      with ((123%N :: (c1 ++ X1 ++ c2)) ++ 125%N :: b2 ++ 125%N :: rest) in H1
      by (cbn [app]; rewrite <- !app_assoc; reflexivity).
    apply at_app in H1. apply at_cons in H1. cbn [length] in H1.
    replace (S (length (c1 ++ X1 ++ c2) + S (length b1 + p))) with (S (S (length (c1 ++ X1 ++ c2)) + (length b1 + p))) by lia.
    exact H1. }
  rewrite bind_assoc. step (skip_blank_blank bs _ b2 _ H2 Hb2 ltac:(reflexivity)).
  pose proof (at_app _ _ _ _ H2) as H3.
  rewrite bind_assoc, bind_get_ptr. rewrite (at_is_byte _ _ 45 _ H3). change (N.eqb 125 45) with false. cbn [negb orb].
  rewrite bind_ret.
  step (skip_blank_inline_sp bs _ 0 _ H3 ltac:(reflexivity)).
  step (expect_byte_yes bs _ 125 _ H3). unfold ret. f_equal.
  repeat (rewrite app_length || cbn [length]). lia.
Qed.

End SelParse.

(* ---------------------------------------------------------------------------------------------- *)
(* 3. render prints a layout                                                                        *)

Section RenderVariants.
Variable ind : nat.
Fixpoint render_variants (l : list variant) : R bytes :=
  match l with
  | [] => rret []
  | v :: r => a <~ render_variant ind v ;; b <~ render_variants r ;; rret (a ++ b)
  end.
End RenderVariants.

Lemma render_expr_select ind sel vs :
  render_expr ind (Select sel vs) =
  (s <~ render_inline sel ;;
   b1 <~ blank_opt ;; b2 <~ blank_inline_opt ;; e1 <~ eol ;;
   vss <~ render_variants ind vs ;;
   k <~ choose 3 ;;
   let b1' := match b1 with
              | [] => if ends_with_id_char s then sp 1 else []
              | _ => b1
              end in
   rret (cat [s; b1'; [45; 62]%N; b2; e1; vss; sp k])).
Proof. reflexivity. Qed.

Section SelRender.
Variable eok : expression -> bool.
Variable etext : expression -> bytes -> Prop.
(* render on the variant values (RoundTripML.render_els_ml_layout at the depth below) *)
Hypothesis HrenderV : forall ind els cs, wl_pattern eok (Pattern els) = true -> 1 <= ind ->
  exists V cs', render_value ind (Pattern els) cs = (V, cs') /\ wl_value_layout etext els V.

Lemma render_variant_layout ind v cs : variant_ok eok v = true ->
  exists pre k body x cs', render_variant ind v cs = (pre ++ sp (ind + k) ++ body ++ x, cs') /\ all_blank pre /\ is_eol_bytes x /\
    forall r W VS, all_blank W -> variants_layout (wl_value_layout etext) r VS ->
                   variants_layout (wl_value_layout etext) (v :: r) (body ++ x ++ W ++ VS).
Proof.
  destruct v as [key [els] dflt]. unfold variant_ok. intros H. apply andb_prop in H as [Hk Hp].
  cbn [render_variant].
  unfold rbind at 1. destruct (choose 3 cs) as [k cs1].
  assert (Hpre : exists pre cs2, (if Nat.eqb k 2 then e <~ eol ;; rret (sp 1 ++ e) else rret []) cs1 = (pre, cs2) /\ all_blank pre).
  { destruct (Nat.eqb k 2).
    - destruct (eol_spec' cs1) as [e [cs2 [E He]]]. rewrite (rbind_eq _ _ _ _ _ E).
      exists (sp 1 ++ e), cs2. split; [reflexivity | apply all_blank_app; [apply all_blank_sp | apply all_blank_eol, He]].
    - exists [], cs1. split; [reflexivity | reflexivity]. }
  destruct Hpre as (pre & cs2 & Epre & Hpre). rewrite (rbind_eq _ _ _ _ _ Epre).
  destruct (blank_opt_spec cs2) as [b1 [cs3 [E3 Hb1]]]. rewrite (rbind_eq _ _ _ _ _ E3).
  destruct (blank_opt_spec cs3) as [b2 [cs4 [E4 Hb2]]]. rewrite (rbind_eq _ _ _ _ _ E4).
  change (render_value_with (fun base => render_pattern_inline base (Pattern els)) (first_byte_ok_for_block (Pattern els))
            (needs_block (Pattern els)) (ind + 4)) with (render_value (ind + 4) (Pattern els)).
  destruct (HrenderV (ind + 4) els cs4 Hp ltac:(lia)) as (V & cs7 & E7 & HV). rewrite (rbind_eq _ _ _ _ _ E7).
  destruct (eol_spec' cs7) as [x [cs8 [E8 Hx]]]. rewrite (rbind_eq _ _ _ _ _ E8).
  exists pre, k, ((if dflt then [42%N] else []) ++ 91%N :: b1 ++ render_key key ++ b2 ++ 93%N :: V), x, cs8.
  split; [|split; [exact Hpre | split; [exact Hx|]]].
  - unfold rret, cat. cbn [concat]. rewrite app_nil_r. f_equal. f_equal. f_equal.
    destruct dflt; cbn [app]; repeat (rewrite <- app_assoc; cbn [app]); reflexivity.
  - intros r W VS HW Hr.
    replace (((if dflt then [42%N] else []) ++ 91%N :: b1 ++ render_key key ++ b2 ++ 93%N :: V) ++ x ++ W ++ VS)
      with ((if dflt then [42%N] else []) ++ 91%N :: b1 ++ render_key key ++ b2 ++ 93%N :: V ++ x ++ W ++ VS)
      by (destruct dflt; cbn [app]; repeat (rewrite <- app_assoc; cbn [app]); reflexivity).
    apply vsl_cons; assumption.
Qed.

(* the variants; the blank in front of each belongs to the variant before it, the one in front of the first
   to the select expression, and the blank after the last one is `Wend` *)
Lemma render_variants_layout ind vs : forall cs, forallb (variant_ok eok) vs = true -> vs <> [] ->
  exists out cs', render_variants ind vs cs = (out, cs') /\
    forall Wend, all_blank Wend -> exists W0 VS, out ++ Wend = W0 ++ VS /\ all_blank W0 /\
                                                 variants_layout (wl_value_layout etext) vs VS.
Proof.
  induction vs as [|v r IH]; intros cs Hok Hne; [congruence|].
  cbn [forallb] in Hok. apply andb_prop in Hok as [Hv Hr].
  destruct (render_variant_layout ind v cs Hv) as (pre & k & body & x & cs1 & E1 & Hpre & Hx & Hcons).
  cbn [render_variants]. rewrite (rbind_eq _ _ _ _ _ E1).
  destruct r as [|v2 r2].
  - cbn [render_variants]. rewrite rbind_rret. eexists. eexists. split; [reflexivity|].
    intros Wend HWend. exists (pre ++ sp (ind + k)), (body ++ x ++ Wend ++ []).
    split; [rewrite !app_nil_r, <- !app_assoc; reflexivity|].
    split; [apply all_blank_app; [exact Hpre | apply all_blank_sp]|]. apply (Hcons [] Wend [] HWend). constructor.
  - destruct (IH cs1 Hr ltac:(discriminate)) as (out & cs2 & E2 & Hout). rewrite (rbind_eq _ _ _ _ _ E2).
    eexists. eexists. split; [reflexivity|].
    intros Wend HWend. destruct (Hout Wend HWend) as (W0 & VS & EW & HW0 & HVS).
    exists (pre ++ sp (ind + k)), (body ++ x ++ W0 ++ VS).
    split; [rewrite <- !app_assoc; do 4 f_equal; rewrite <- EW; reflexivity|].
    split; [apply all_blank_app; [exact Hpre | apply all_blank_sp]|]. apply (Hcons _ W0 VS HW0 HVS).
Qed.

Lemma render_select_layout ind sel vs cs :
  bsel sel = true -> forallb (variant_ok eok) vs = true -> vs <> [] ->
  exists X cs', render_expr ind (Select sel vs) cs = (X, cs') /\ select_layout (wl_value_layout etext) (Select sel vs) X.
Proof.
  intros Hsel Hvs Hne. rewrite render_expr_select.
  destruct (render_bsel sel cs Hsel) as (Xs & cs0 & E0 & HXs). rewrite (rbind_eq _ _ _ _ _ E0).
  destruct (blank_opt_spec cs0) as [b1 [cs1 [E1 Hb1]]]. rewrite (rbind_eq _ _ _ _ _ E1).
  destruct (blank_inline_opt_spec cs1) as [j [cs2 E2]]. rewrite (rbind_eq _ _ _ _ _ E2).
  destruct (eol_spec' cs2) as [x0 [cs3 [E3 Hx0]]]. rewrite (rbind_eq _ _ _ _ _ E3).
  destruct (render_variants_layout ind vs cs3 Hvs Hne) as (out & cs4 & E4 & Hout). rewrite (rbind_eq _ _ _ _ _ E4).
  unfold rbind at 1. destruct (choose 3 cs4) as [k cs5].
  destruct (Hout (sp k) (all_blank_sp k)) as (W0 & VS & EW & HW0 & HVS).
  eexists. exists cs5. split; [reflexivity|].
  set (b1' := match b1 with [] => if ends_with_id_char Xs then sp 1 else [] | _ => b1 end).
  unfold cat. cbn [concat]. rewrite app_nil_r.
  replace (Xs ++ b1' ++ [45; 62]%N ++ sp j ++ x0 ++ out ++ sp k)
    with (Xs ++ b1' ++ [45; 62]%N ++ sp j ++ x0 ++ W0 ++ VS) by (rewrite <- EW; reflexivity).
  apply sell; try assumption.
  - unfold b1'. destruct b1; [destruct (ends_with_id_char Xs); [apply all_blank_sp | reflexivity] | exact Hb1].
  - unfold b1'. intros Hid. destruct b1; [rewrite Hid; discriminate | discriminate].
Qed.

End SelRender.

(* ---------------------------------------------------------------------------------------------- *)
(* 4. All the facts the generic development needs, by induction on the depth                         *)

(* what is known of the expression get_placeable returns (besides that it joins to the printed one): the
   variant values inside it have non-empty text elements with a line feed only as their last byte, at every
   nesting level *)
Fixpoint goodd (d : nat) (e : expression) : Prop :=
  match d with
  | 0 => True
  | S d' =>
      match e with
      | Inline (Placeable e1) => goodd d' e1
      | Inline _ => True
      | Select _ vs =>
          Forall (fun v => match v with Variant _ (Pattern els) _ => Forall (text_ok (goodd d')) els end) vs
      end
  end.

Definition render_fact (d : nat) : Prop := forall base e cs, eokd d e = true ->
  exists X cs', render_expr base e cs = (X, cs') /\ etextd d e X.
Definition join_fact (d : nat) : Prop := forall e, eokd d e = true -> join_expr e = e.
Definition wf_fact (d : nat) : Prop := forall e, eokd d e = true -> wf_expr e = true /\ lines_ok_expr e = true.
Definition place_fact (d : nat) : Prop := forall bs e X b1 b2 rest p n,
  eokd d e = true -> etextd d e X -> all_blank b1 -> all_blank b2 ->
  at_ bs p (b1 ++ X ++ b2 ++ 125%N :: rest) -> 3 * length (b1 ++ X ++ b2 ++ 125%N :: rest) + 8 <= n ->
  exists e', get_placeable bs n p = Ok e' (S (length (b1 ++ X ++ b2) + p)) /\ join_expr e' = join_expr e /\ goodd d e'.

(* ---- depth 0 ---- *)
Lemma render_fact0 base e cs : eok0 e = true -> exists X cs', render_expr base e cs = (X, cs') /\ etext0 e X.
Proof.
  destruct e as [sel vs | i]; [discriminate|]. cbn [eok0]. intros Hi.
  destruct (render_binline i cs Hi) as (X & cs' & E & HX). exists X, cs'. split; [exact E | constructor; assumption].
Qed.

Lemma join_fact0 e : eok0 e = true -> join_expr e = e.
Proof.
  destruct e as [sel vs | i]; [discriminate|]. cbn [eok0]. intros Hi.
  change (join_expr (Inline i)) with (Inline (join_inline i)). rewrite (join_binline i Hi). reflexivity.
Qed.

Lemma wf_fact0 e : eok0 e = true -> wf_expr e = true /\ lines_ok_expr e = true.
Proof. destruct e as [sel vs | i]; [discriminate|]. cbn [eok0]. intros Hi. apply (wf_binline i Hi). Qed.

Lemma itext_len i X : itext i X -> 1 <= length X -> True.
Proof. auto. Qed.

Lemma place_fact0 bs e X b1 b2 rest p n :
  eok0 e = true -> etext0 e X -> all_blank b1 -> all_blank b2 ->
  at_ bs p (b1 ++ X ++ b2 ++ 125%N :: rest) -> 3 * length (b1 ++ X ++ b2 ++ 125%N :: rest) + 8 <= n ->
  exists e', get_placeable bs n p = Ok e' (S (length (b1 ++ X ++ b2) + p)) /\ join_expr e' = join_expr e /\ goodd 0 e'.
Proof.
  intros _ HX Hb1 Hb2 H Hn. destruct HX as [i X Hi HX]. exists (Inline i). split; [|split; [reflexivity | exact Logic.I]].
  apply (get_placeable_binline bs i X b1 b2 rest p n Hi HX Hb1 Hb2 H).
  rewrite !app_length in Hn. cbn [length] in Hn. lia.
Qed.

(* ---- the simple inline expressions only (for SerializerML.v) ---- *)
Lemma render_facts base e cs : eoks e = true -> exists X cs', render_expr base e cs = (X, cs') /\ etexts e X.
Proof.
  destruct e as [sel vs | i]; [discriminate|]. cbn [eoks]. intros Hi.
  exists (inline_text i), cs. split; [apply (render_inline_simple i cs Hi) | constructor; exact Hi].
Qed.

Lemma join_facts e : eoks e = true -> join_expr e = e.
Proof.
  destruct e as [sel vs | i]; [discriminate|]. cbn [eoks]. intros Hi.
  change (join_expr (Inline i)) with (Inline (join_inline i)). rewrite (simple_inline_join i Hi). reflexivity.
Qed.

Lemma wf_facts e : eoks e = true -> wf_expr e = true /\ lines_ok_expr e = true.
Proof. destruct e as [sel vs | i]; [discriminate|]. cbn [eoks]. intros Hi. apply (simple_inline_wf i Hi). Qed.

Lemma place_facts bs e X b1 b2 rest p n :
  eoks e = true -> etexts e X -> all_blank b1 -> all_blank b2 ->
  at_ bs p (b1 ++ X ++ b2 ++ 125%N :: rest) -> 3 * length (b1 ++ X ++ b2 ++ 125%N :: rest) + 8 <= n ->
  exists e', get_placeable bs n p = Ok e' (S (length (b1 ++ X ++ b2) + p)) /\ join_expr e' = join_expr e /\ goodd 0 e'.
Proof.
  intros _ HX Hb1 Hb2 H Hn. destruct HX as [i Hi]. exists (Inline i). split; [|split; [reflexivity | exact Logic.I]].
  rewrite (get_placeable_simple bs i b1 b2 rest p n Hi Hb1 Hb2 H ltac:(rewrite !app_length in Hn; lia)).
  f_equal. rewrite !app_length. lia.
Qed.

(* ---- select expressions: joined form, well-formedness ---- *)
Lemma join_expr_select sel vs : join_expr (Select sel vs) = Select (join_inline sel) (map join_variant vs).
Proof.
  reflexivity.
Qed.

Lemma vrel_join eok egood vs' vs : (forall e, eok e = true -> join_expr e = e) ->
  forallb (variant_ok eok) vs = true -> Forall2 (vrel egood) vs' vs -> map join_variant vs' = map join_variant vs.
Proof.
  intros Hj Hok H. induction H as [|v' v l' l Hv Hl IH]; [reflexivity|].
  cbn [forallb] in Hok. apply andb_prop in Hok as [Hv1 Hl1]. cbn [map]. rewrite (IH Hl1). f_equal.
  destruct v' as [k' [els'] d'], v as [k [els] d0]. cbn [vrel] in Hv. destruct Hv as (-> & -> & Hs & _).
  unfold variant_ok in Hv1. apply andb_prop in Hv1 as [_ Hp].
  cbn [join_variant]. unfold jrel in Hs. rewrite Hs, (wl_pattern_join eok Hj _ Hp). reflexivity.
Qed.

Lemma variants_join eok vs : (forall e, eok e = true -> join_expr e = e) ->
  forallb (variant_ok eok) vs = true -> map join_variant vs = vs.
Proof.
  intros Hj Hok. induction vs as [|v r IH]; [reflexivity|].
  cbn [forallb] in Hok. apply andb_prop in Hok as [Hv Hr]. cbn [map]. rewrite (IH Hr). f_equal.
  destruct v as [k p d0]. unfold variant_ok in Hv. apply andb_prop in Hv as [_ Hp].
  cbn [join_variant]. rewrite (wl_pattern_join eok Hj _ Hp). reflexivity.
Qed.

Lemma sel_ok_simple sel : sel_ok sel = true -> simple_inline sel = true.
Proof. destruct sel; try discriminate; exact (fun H => H). Qed.

Lemma wf_select sel vs :
  bsel sel = true -> count_defaults vs = 1 ->
  Forall (fun v => match v with Variant k p _ => key_ok k = true /\ wf_pattern p && lines_ok_pattern p = true end) vs ->
  wf_expr (Select sel vs) = true /\ lines_ok_expr (Select sel vs) = true.
Proof.
  intros Hsel Hcnt Hvs. destruct (wf_bsel sel Hsel) as (W1' & W2 & Wk).
  cbn [wf_expr lines_ok_expr]. rewrite W1', W2, Hcnt, Wk. cbn [Nat.eqb andb].
  cbn [andb]. clear Hcnt. split.
  - induction Hvs as [|v r Hv Hr IH]; [reflexivity|]. destruct v as [k p d0]. destruct Hv as [Hk Hp].
    apply andb_prop in Hp as [Hp _]. cbn [wf_variant]. 
    replace (match k with KeyIdentifier n => wf_identifier n | KeyNumber n => wf_number n end) with true
      by (destruct k; symmetry; exact Hk).
    rewrite Hp. cbn [andb]. exact IH.
  - induction Hvs as [|v r Hv Hr IH]; [reflexivity|]. destruct v as [k p d0]. destruct Hv as [Hk Hp].
    apply andb_prop in Hp as [_ Hp]. rewrite Hp. cbn [andb]. exact IH.
Qed.

(* ---- the step ---- *)
Lemma eokd_S_cases d e : eokd (S d) e = true ->
  (exists i, e = Inline i /\ binline i = true) \/
  (exists e1, e = Inline (Placeable e1) /\ eokd d e1 = true) \/
  (exists sel vs, e = Select sel vs /\ bsel sel = true /\ count_defaults vs = 1 /\ forallb (variant_ok (eokd d)) vs = true).
Proof.
  destruct e as [sel vs | i]; cbn [eokd].
  - intros H. apply andb_prop in H as [H Hvs]. apply andb_prop in H as [Hsel Hcnt]. apply Nat.eqb_eq in Hcnt.
    right; right. exists sel, vs. auto.
  - destruct i as [s | v | id args | id att | id att args | id | e1]; intros H; try (left; eexists; split; [reflexivity | exact H]).
    right; left. exists e1. auto.
Qed.

Lemma facts_all d : render_fact d /\ join_fact d /\ wf_fact d /\ place_fact d.
Proof.
  induction d as [|d (R & J & W & P)].
  - split; [|split; [|split]].
    + intros base e cs. apply render_fact0.
    + intros e. apply join_fact0.
    + intros e. apply wf_fact0.
    + intros bs e X b1 b2 rest p n. apply place_fact0.
  - (* the patterns of the variants, at depth d *)
    assert (HrenderV : forall ind els cs, wl_pattern (eokd d) (Pattern els) = true -> 1 <= ind ->
              exists V cs', render_value ind (Pattern els) cs = (V, cs') /\ wl_value_layout (etextd d) els V).
    { intros ind els cs Hp Hind. apply (render_value_wl_layout (eokd d) (etextd d) (goodd d) R P ind els cs Hp Hind). }
    assert (Hwfp : forall els, wl_pattern (eokd d) (Pattern els) = true ->
              wf_pattern (Pattern els) && lines_ok_pattern (Pattern els) = true).
    { intros els Hp. apply (wl_pattern_wf (eokd d) (etextd d) (goodd d)); assumption. }
    assert (Hpat : forall bs els V T used c nx p n,
              wl_pattern (eokd d) (Pattern els) = true -> wl_value_layout (etextd d) els V -> after_value T used c nx ->
              at_ bs p (V ++ T) -> 3 * length (V ++ T) + 12 <= n ->
              exists els', get_pattern bs n p = Ok (Some (Pattern els')) (used + (length V + p)) /\ srel (goodd d) els' els).
    { intros bs els V T used c nx p n. apply (get_pattern_wl (eokd d) (etextd d) (goodd d)); assumption. }
    split; [|split; [|split]].
    + (* render *)
      intros base e cs He. destruct (eokd_S_cases d e He) as [(i & -> & Hi) | [(e1 & -> & He1) | (sel & vs & -> & Hsel & Hcnt & Hvs)]].
      * destruct (render_binline i cs Hi) as (X & cs' & E & HX). exists X, cs'. split; [exact E | left; constructor; assumption].
      * change (render_expr base (Inline (Placeable e1)) cs) with
          ((b1 <~ blank_opt ;; s <~ render_expr 4 e1 ;; b2 <~ blank_opt ;; rret (cat [[123%N]; b1; s; b2; [125%N]])) cs).
        destruct (blank_opt_spec cs) as [b1 [cs1 [E1 Hb1]]]. rewrite (rbind_eq _ _ _ _ _ E1).
        destruct (R 4 e1 cs1 He1) as (X1 & cs2 & E2 & HX1). rewrite (rbind_eq _ _ _ _ _ E2).
        destruct (blank_opt_spec cs2) as [b2 [cs3 [E3 Hb2]]]. rewrite (rbind_eq _ _ _ _ _ E3).
        eexists. exists cs3. split; [reflexivity|]. right; left. exists e1, b1, b2, X1.
        split; [reflexivity | split; [exact Hb1 | split; [exact Hb2 | split; [exact HX1|]]]].
        unfold cat. cbn [concat app]. rewrite ?app_nil_r. reflexivity.
      * assert (Hne : vs <> []) by (intros ->; discriminate Hcnt).
        destruct (render_select_layout (eokd d) (etextd d) HrenderV base sel vs cs Hsel Hvs Hne) as (X & cs' & E & HX).
        exists X, cs'. split; [exact E | right; right; exact HX].
    + (* joined form *)
      intros e He. destruct (eokd_S_cases d e He) as [(i & -> & Hi) | [(e1 & -> & He1) | (sel & vs & -> & Hsel & Hcnt & Hvs)]].
      * change (join_expr (Inline i)) with (Inline (join_inline i)). rewrite (join_binline i Hi). reflexivity.
      * change (join_expr (Inline (Placeable e1))) with (Inline (Placeable (join_expr e1))). rewrite (J e1 He1). reflexivity.
      * rewrite join_expr_select, (join_bsel sel Hsel), (variants_join (eokd d) vs J Hvs). reflexivity.
    + (* well-formed *)
      intros e He. destruct (eokd_S_cases d e He) as [(i & -> & Hi) | [(e1 & -> & He1) | (sel & vs & -> & Hsel & Hcnt & Hvs)]].
      * apply (wf_binline i Hi).
      * destruct (W e1 He1) as [W1 W2]. split; [exact W1 | exact W2].
      * apply (wf_select sel vs Hsel Hcnt). rewrite forallb_forall in Hvs. apply Forall_forall. intros v Hv.
        specialize (Hvs v Hv). destruct v as [k [els] d0]. unfold variant_ok in Hvs. apply andb_prop in Hvs as [Hk Hp].
        split; [exact Hk | apply (Hwfp els Hp)].
    + (* get_placeable *)
      intros bs e X b1 b2 rest p n He HX Hb1 Hb2 H Hn.
      destruct (eokd_S_cases d e He) as [(i & -> & Hi) | [(e1 & -> & He1) | (sel & vs & -> & Hsel & Hcnt & Hvs)]].
      * assert (Hnp : forall e1, i <> Placeable e1) by (intros e1 ->; discriminate Hi).
        assert (HX0 : etext0 (Inline i) X).
        { destruct HX as [HX | [(e1 & c1 & c2 & X1 & E & _) | HX]]; [exact HX | | inversion HX].
          exfalso. injection E. intros E'. apply (Hnp e1 E'). }
        destruct (place_fact0 bs (Inline i) X b1 b2 rest p n Hi HX0 Hb1 Hb2 H Hn) as (e' & E & Ej & _).
        exists e'. split; [exact E | split; [exact Ej|]].
        assert (Ee : e' = Inline i).
        { inversion HX0 as [i0 X0 Hi0 HX0' E1 E2]; subst.
          rewrite (get_placeable_binline bs i X b1 b2 rest p n Hi0 HX0' Hb1 Hb2 H ltac:(rewrite !app_length in Hn; cbn [length] in Hn; lia)) in E.
          injection E as E'. symmetry. exact E'. }
        rewrite Ee. cbn [goodd]. destruct i; try exact Logic.I. exfalso. apply (Hnp _ eq_refl).
      * assert (HXn : exists c1 c2 X1, all_blank c1 /\ all_blank c2 /\ etextd d e1 X1 /\ X = 123%N :: c1 ++ X1 ++ c2 ++ [125%N]).
        { destruct HX as [HX | [(e1' & c1 & c2 & X1 & E & Hc1 & Hc2 & HX1 & EX) | HX]]; [inversion HX as [i0 X0 Hi0 _ E1 E2]; subst; discriminate Hi0 | | inversion HX].
          injection E as <-. exists c1, c2, X1. auto. }
        destruct HXn as (c1 & c2 & X1 & Hc1 & Hc2 & HX1 & ->).
        destruct n as [|[|[|n]]]; try lia.
        assert (H1 : at_ bs (S (length b1 + p)) (c1 ++ X1 ++ c2 ++ 125%N :: b2 ++ 125%N :: rest)).
        { apply at_app in H. cbn [app] in H. apply at_cons in H. rewrite <- !app_assoc in H. cbn [app] in H. exact H. }
        destruct (P bs e1 X1 c1 c2 (b2 ++ 125%N :: rest) (S (length b1 + p)) n He1 HX1 Hc1 Hc2 H1) as (e1' & E1 & Ej & Hg).
        { repeat (rewrite app_length in Hn || cbn [length] in Hn). repeat (rewrite app_length || cbn [length]). lia. }
        exists (Inline (Placeable e1')). split; [|split].
        -- apply (get_placeable_nested (eokd d) (etextd d) (goodd d) bs (Hpat bs) e1' c1 X1 c2 b1 b2 rest p n Hb1 Hb2 H E1).
        -- change (join_expr (Inline (Placeable e1'))) with (Inline (Placeable (join_expr e1'))). rewrite Ej. reflexivity.
        -- exact Hg.
      * assert (HXs : select_layout (wl_value_layout (etextd d)) (Select sel vs) X).
        { destruct HX as [HX | [(e1' & c1 & c2 & X1 & E & _) | HX]]; [inversion HX | discriminate E | exact HX]. }
        destruct (get_placeable_select (eokd d) (etextd d) (goodd d) bs (Hpat bs) sel vs X b1 b2 rest p n Hsel Hcnt Hvs HXs Hb1 Hb2 H Hn)
          as (vs' & E & Hrels).
        exists (Select sel vs'). split; [exact E | split].
        -- rewrite !join_expr_select. f_equal. apply (vrel_join (eokd d) (goodd d) vs' vs J Hvs Hrels).
        -- cbn [goodd]. clear - Hrels. induction Hrels as [|v' v l' l Hv Hl IH]; constructor; [|exact IH].
           destruct v' as [k' [els'] d'], v as [k [els] d0]. cbn [vrel] in Hv. destruct Hv as (_ & _ & _ & Hok & _). exact Hok.
Qed.

(* ---------------------------------------------------------------------------------------------- *)
(* 5. parse (render cs t) on the fragment of depth d                                                 *)

(* the resources whose placeables have nesting depth at most d (depth 0: RoundTripML's multi-line fragment
   with simple placeables) *)
Definition sel_pattern (d : nat) (p : pattern) : bool := wl_pattern (eokd d) p.
Definition sel_resource (d : nat) (t : resource) : bool := ml_resource (eokd d) t.

Theorem parse_render_sel_split d cs t : sel_resource d t = true -> last_comment_ok t = true ->
  exists t', parse (render cs t) = Done (t', []) /\ Forall2 (rel_entry (srel (goodd d))) t' t.
Proof.
  destruct (facts_all d) as (R & J & W & P). apply (parse_render_ml_split (eokd d) (etextd d) (goodd d)); assumption.
Qed.

Theorem parse_render_sel d cs t : sel_resource d t = true -> last_comment_ok t = true ->
  exists t', parse (render cs t) = Done (t', []) /\ map join_entry t' = t.
Proof.
  destruct (facts_all d) as (R & J & W & P). apply (parse_render_ml (eokd d) (etextd d) (goodd d)); assumption.
Qed.

Theorem sel_resource_wf d t : sel_resource d t = true -> wf_resource t = true.
Proof.
  destruct (facts_all d) as (R & J & W & P). apply (ml_resource_wf (eokd d) (etextd d) (goodd d)); assumption.
Qed.

(* the classes grow with the depth *)
Lemma ml_elements_mono (eok1 eok2 : expression -> bool) els : (forall e, eok1 e = true -> eok2 e = true) ->
  forall prev, ml_elements eok1 els prev = true -> ml_elements eok2 els prev = true.
Proof.
  intros Hm. induction els as [|el r IH]; intros prev Hs; [reflexivity|].
  destruct el as [v|e]; cbn [ml_elements] in *.
  - apply andb_prop in Hs as [Hs Hr]. rewrite Hs, (IH true Hr). reflexivity.
  - apply andb_prop in Hs as [He Hr]. rewrite (Hm e He), (IH false Hr). reflexivity.
Qed.

Lemma ml_pattern_mono (eok1 eok2 : expression -> bool) p : (forall e, eok1 e = true -> eok2 e = true) ->
  ml_pattern eok1 p = true -> ml_pattern eok2 p = true.
Proof.
  intros Hm. destruct p as [els]. unfold ml_pattern. intros H.
  apply andb_prop in H as [H H5]. apply andb_prop in H as [H H4]. apply andb_prop in H as [H H3]. apply andb_prop in H as [H1 H2].
  rewrite H1, (ml_elements_mono eok1 eok2 els Hm false H2), H3, H4, H5. reflexivity.
Qed.

Lemma wl_pattern_mono (eok1 eok2 : expression -> bool) p : (forall e, eok1 e = true -> eok2 e = true) ->
  wl_pattern eok1 p = true -> wl_pattern eok2 p = true.
Proof.
  intros Hm. destruct p as [els]. unfold wl_pattern. intros H.
  apply andb_prop in H as [H H5]. apply andb_prop in H as [H H4]. apply andb_prop in H as [H H3]. apply andb_prop in H as [H1 H2].
  rewrite H1, (ml_elements_mono eok1 eok2 els Hm false H2), H3, H4, H5. reflexivity.
Qed.

Lemma eokd_mono d : forall e, eokd d e = true -> eokd (S d) e = true.
Proof.
  induction d as [|d IH]; intros e He.
  - destruct e as [sel vs | i]; [discriminate He|]. cbn [eokd eok0] in *.
    destruct i; try exact He. discriminate He.
  - destruct (eokd_S_cases d e He) as [(i & -> & Hi) | [(e1 & -> & He1) | (sel & vs & -> & Hsel & Hcnt & Hvs)]].
    + cbn [eokd]. destruct i; try exact Hi. discriminate Hi.
    + change (eokd (S (S d)) (Inline (Placeable e1))) with (eokd (S d) e1). apply IH, He1.
    + change (eokd (S (S d)) (Select sel vs)) with
        (bsel sel && Nat.eqb (count_defaults vs) 1 && forallb (variant_ok (eokd (S d))) vs).
      rewrite Hsel, Hcnt. cbn [Nat.eqb andb]. rewrite forallb_forall in *. intros v Hv. specialize (Hvs v Hv).
      destruct v as [k p d0]. unfold variant_ok in *. apply andb_prop in Hvs as [Hk Hp].
      rewrite Hk, (wl_pattern_mono (eokd d) (eokd (S d)) p IH Hp). reflexivity.
Qed.

Theorem sel_resource_mono d t : sel_resource d t = true -> sel_resource (S d) t = true.
Proof.
  unfold sel_resource. rewrite <- !ml_resource_g. apply g_resource_mono. intros els.
  unfold ml_pok. apply wl_pattern_mono, eokd_mono.
Qed.

(* ---------------------------------------------------------------------------------------------- *)
(* 6. The one-line fragment of RoundTrip.v is inside (at depth 0)                                     *)

Lemma simple_elements_text_ok els : forall prev, simple_elements els prev = true -> Forall (text_ok (fun _ => True)) els.
Proof.
  induction els as [|el r IH]; intros prev Hs; [constructor|].
  destruct el as [v | [sel vs | i]]; cbn [simple_elements] in Hs; try discriminate Hs.
  - apply andb_prop in Hs as [Hs Hr]. apply andb_prop in Hs as [_ Hv].
    destruct (inner_text_starts v [] Hv) as (_ & Hline & Hne).
    constructor; [split; [exact Hne | apply no_lf_lf_last, text_line_no_lf, Hline] | apply (IH true Hr)].
  - apply andb_prop in Hs as [_ Hr]. constructor; [exact Logic.I | apply (IH false Hr)].
Qed.


Lemma inner_text_ml c v : inner_text v = true -> ml_text c v = true /\ existsb (N.eqb 10) v = false.
Proof.
  intros Hv. destruct (inner_text_starts v [] Hv) as (Hsc & Hline & Hne). rewrite app_nil_r in Hsc.
  pose proof (text_line_no_lf v Hline) as Hno. split; [|exact Hno].
  unfold ml_text. rewrite (lines_of_no_lf v Hno). cbn [cont_lines_ok]. rewrite andb_true_r.
  unfold ml_line. unfold text_line in Hline. rewrite Hline, Hsc. destruct v; [congruence | reflexivity].
Qed.

Section SimpleIn.
Variable eok : expression -> bool.
Hypothesis Heok : forall i, simple_inline i = true -> eok (Inline i) = true.

Lemma simple_elements_ml els : forall prev, simple_elements els prev = true ->
  ml_elements eok els prev = true /\ has_lf els = false.
Proof.
  induction els as [|el r IH]; intros prev Hs; [split; reflexivity|].
  destruct el as [v | [sel vs | i]]; cbn [simple_elements] in Hs; try discriminate Hs; cbn [ml_elements has_lf existsb].
  - apply andb_prop in Hs as [Hs Hr]. apply andb_prop in Hs as [Hp Hv]. destruct (IH true Hr) as [I1 I2].
    destruct (inner_text_ml (match r with [] => false | _ => true end) v Hv) as [M1 M2].
    rewrite Hp, M1, I1, M2. split; [reflexivity | exact I2].
  - apply andb_prop in Hs as [Hi Hr]. destruct (IH false Hr) as [I1 I2]. rewrite (Heok i Hi), I1. split; [reflexivity | exact I2].
Qed.

Lemma simple_pattern_ml p : simple_pattern p = true -> ml_pattern eok p = true.
Proof.
  intros H. destruct (simple_pattern_spec p H) as [els [-> Hp]].
  destruct (simple_pattern_parts els Hp) as (Hne & Hs & Hf & Hl).
  destruct (simple_elements_ml els false Hs) as [M1 M2].
  unfold ml_pattern. rewrite M1, M2. cbn [negb orb]. rewrite andb_true_r.
  assert (H1 : ml_first_ok els = true).
  { destruct els as [|[[|b t]|e] r]; try reflexivity. cbn [first_ok] in Hf. cbn [ml_first_ok]. rewrite Hf. cbn [andb].
    cbn [simple_elements] in Hs. apply andb_prop in Hs as [Hs _]. apply andb_prop in Hs as [_ Hv].
    destruct (inner_text_spec _ Hv) as (b' & r' & E & _ & Hline). injection E as <- <-.
    unfold text_line in Hline. cbn [forallb] in Hline. apply andb_prop in Hline as [Hb _].
    apply wf_text_byte_spec in Hb as (_ & _ & _ & H10). rewrite H10. reflexivity. }
  assert (H2 : ml_last_ok els = true).
  { unfold last_ok in Hl. unfold ml_last_ok. destruct (rev els) as [|[v|e] r] eqn:Er; try reflexivity.
    rewrite Hl. cbn [andb].
    assert (Hin : In (TextElement v) els) by (apply in_rev; rewrite Er; left; reflexivity).
    assert (Hv : inner_text v = true).
    { clear - Hs Hin. revert Hs. generalize false. induction els as [|el r IH]; intros prev Hs; [destruct Hin|].
      destruct el as [v' | [sel vs | i]]; cbn [simple_elements] in Hs; try discriminate Hs.
      - apply andb_prop in Hs as [Hs Hr]. apply andb_prop in Hs as [_ Hv'].
        destruct Hin as [E | Hin]; [injection E as <-; exact Hv' | apply (IH Hin true Hr)].
      - apply andb_prop in Hs as [_ Hr]. destruct Hin as [E | Hin]; [discriminate E | apply (IH Hin false Hr)]. }
    destruct (inner_text_spec _ Hv) as (b' & r' & E & _ & Hline).
    assert (Hvne : v <> []) by (rewrite E; discriminate).
    unfold text_line in Hline. rewrite forallb_forall in Hline. specialize (Hline _ (last_in v 0%N Hvne)).
    apply wf_text_byte_spec in Hline as (_ & _ & _ & H10). rewrite H10. reflexivity. }
  rewrite H1, H2. destruct els; [congruence | reflexivity].
Qed.

Theorem simple_resource_ml t : simple_resource t = true -> ml_resource eok t = true.
Proof.
  assert (Ha : forall attrs, forallb simple_attribute attrs = true -> forallb (ml_attribute eok) attrs = true).
  { intros attrs. rewrite !forallb_forall. intros H a Hin. specialize (H a Hin). unfold simple_attribute in H.
    apply andb_prop in H as [Hid Hp]. unfold ml_attribute. rewrite Hid, (ml_wl_pattern _ _ (simple_pattern_ml _ Hp)). reflexivity. }
  assert (Hpe : forall e, plain_entry e = true -> ml_plain_entry eok e = true).
  { intros e. destruct e as [id [p|] attrs [|]|id p attrs [|]|c|c|c|]; try discriminate; cbn [plain_entry ml_plain_entry];
      intros H; try (apply simple_wide_comment; exact H).
    all: apply andb_prop in H as [H Hattrs]; apply andb_prop in H as [Hid Hp];
      rewrite Hid, (Ha attrs Hattrs), ?(ml_wl_pattern _ _ (simple_pattern_ml _ Hp)), ?Hp; reflexivity. }
  unfold simple_resource, ml_resource. rewrite !forallb_forall. intros H e Hin. specialize (H e Hin).
  unfold simple_entry in H. apply andb_prop in H as [H1 H2]. unfold ml_entry. rewrite (Hpe _ H1). cbn [andb].
  destruct (entry_comment e); [apply simple_wide_comment, H2 | reflexivity].
Qed.

End SimpleIn.

Theorem simple_resource_sel t : simple_resource t = true -> sel_resource 0 t = true.
Proof. apply (simple_resource_ml eok0). intros i Hi. apply (simple_binline i Hi). Qed.

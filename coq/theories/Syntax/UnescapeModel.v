(* Syntax/UnescapeModel.v — model of fluent-syntax/src/unicode.rs and the specification
   `unescape_spec` that C13 compares it with.  Definitions only (proofs: UnescapeProofs.v).

   The writer `W: fmt::Write` is modelled as an infallible byte buffer (what `String` is):
   `write_str s` appends s, `write_char c` appends `encode_char c`.  `&input[a..b]` is `slice`
   (Panic exactly when Rust panics), `input.get(a..b)` is `slice_get`, `bytes.get(i)` is
   `nth_error`.  The two `while` loops run on fuel.                                          *)
From FluentV Require Export Base.Utf8.
From FluentV Require Import Gen.Extracted.

(* u8::is_ascii_hexdigit *)
Definition is_hexdigit (b : N) : bool := in_rng 48 57 b || in_rng 65 70 b || in_rng 97 102 b.

(* char::to_digit(16) on a byte *)
Definition hex_digit_val (b : N) : option N :=
  if in_rng 48 57 b then Some (b - 48)%N
  else if in_rng 97 102 b then Some (b - 87)%N
  else if in_rng 65 70 b then Some (b - 55)%N
  else None.

(* core::num u32::from_str_radix(s, 16): digit loop with overflow check *)
Fixpoint radix16_digits (acc : N) (s : bytes) : option N :=
  match s with
  | [] => Some acc
  | b :: r =>
      match hex_digit_val b with
      | None => None                                            (* InvalidDigit *)
      | Some d =>
          let acc' := (acc * 16 + d)%N in
          if N.ltb 4294967295 acc' then None                    (* PosOverflow *)
          else radix16_digits acc' r
      end
  end.

(* core::num u32::from_str_radix(s, 16): empty -> Err; a lone sign -> Err; a leading '+' is
   skipped; '-' is not a sign for an unsigned type (it is then an invalid digit) *)
Definition u32_from_str_radix_16 (s : bytes) : option N :=
  match s with
  | [] => None
  | b :: r =>
      if (N.eqb b 43 || N.eqb b 45) && (match r with [] => true | _ => false end) then None
      else if N.eqb b 43 then radix16_digits 0 r
      else radix16_digits 0 s
  end.

(* char::from_u32 *)
Definition char_from_u32 (n : N) : option N := if is_scalar n then Some n else None.

(* unicode.rs encode_unicode *)
Definition encode_unicode (s : option bytes) : N :=
  let filtered :=
    match s with
    | Some x => if forallb is_hexdigit x then Some x else None
    | None => None
    end in
  match filtered with
  | Some x =>
      match u32_from_str_radix_16 x with
      | Some n => match char_from_u32 n with Some c => c | None => UNKNOWN_CHAR end
      | None => UNKNOWN_CHAR
      end
  | None => UNKNOWN_CHAR
  end.

(* unicode.rs unescape: `while ptr < bytes.len() && !input.is_char_boundary(ptr) { ptr += 1 }` *)
Fixpoint skip_to_boundary (fuel : nat) (input : bytes) (ptr : nat) : outcome nat :=
  match fuel with
  | O => OutOfFuel
  | S fuel' =>
      if Nat.ltb ptr (length input) && negb (is_char_boundary input ptr)
      then skip_to_boundary fuel' input (ptr + 1)
      else Done ptr
  end.

(* `if start != ptr { w.write_str(&input[start..ptr])?; }` *)
Definition flush_pending (input w : bytes) (start ptr : nat) : outcome bytes :=
  if negb (Nat.eqb start ptr)
  then let* s := slice input start ptr in Done (w ++ s)
  else Done w.

(* unicode.rs unescape: the block `let new_char = match bytes.get(ptr) { .. }` with its side effect
   on ptr; returns (new_char, ptr) *)
Definition escape_at (input : bytes) (ptr : nat) : N * nat :=
  match nth_error input ptr with
  | Some u =>
      if N.eqb u 92 then (92%N, ptr)
      else if N.eqb u 34 then (34%N, ptr)
      else if N.eqb u 117 || N.eqb u 85 then
        let seq_start := ptr + 1 in
        let len := if N.eqb u 117 then 4 else 6 in
        (encode_unicode (slice_get input seq_start (seq_start + len)), ptr + len)
      else (UNKNOWN_CHAR, ptr)
  | None => (UNKNOWN_CHAR, ptr)
  end.

(* unicode.rs unescape: the `while let Some(b) = bytes.get(ptr)` loop; state (w, start, ptr) *)
Fixpoint unescape_loop (fuel : nat) (input w : bytes) (start ptr : nat) : outcome (bytes * nat * nat) :=
  match fuel with
  | O => OutOfFuel
  | S fuel' =>
      match nth_error input ptr with
      | None => Done (w, start, ptr)
      | Some b =>
          if negb (N.eqb b 92) then unescape_loop fuel' input w start (ptr + 1)
          else
            let* w := flush_pending input w start ptr in
            let ptr := ptr + 1 in
            let '(new_char, ptr) := escape_at input ptr in
            let ptr := ptr + 1 in
            let* ptr := skip_to_boundary (S (length input)) input ptr in
            let w := w ++ encode_char new_char in
            unescape_loop fuel' input w ptr ptr
      end
  end.

(* every iteration of either loop moves ptr forward by at least one byte while ptr < len *)
Definition unescape_fuel (input : bytes) : nat := S (length input).

(* unicode.rs unescape : Ok(bool) with the writer's content *)
Definition unescape (w input : bytes) : outcome (bytes * bool) :=
  let* (w, start, ptr) := unescape_loop (unescape_fuel input) input w 0 0 in
  if Nat.eqb start 0 then Done (w, false)
  else
    let* w := flush_pending input w start ptr in
    Done (w, true).

(* unicode.rs unescape_unicode *)
Definition unescape_unicode (w input : bytes) : outcome bytes :=
  let* (w, done) := unescape w input in
  if done then Done w else Done (w ++ input).

Inductive cow := Borrowed (s : bytes) | Owned (s : bytes).
Definition cow_bytes (c : cow) : bytes := match c with Borrowed s => s | Owned s => s end.

(* unicode.rs unescape_unicode_to_string *)
Definition unescape_unicode_to_string (input : bytes) : outcome cow :=
  let* (result, owned) := unescape [] input in
  if owned then Done (Owned result) else Done (Borrowed input).

(* ============================================================================================ *)
(* SPECIFICATION (character level; cs is the list of the string's characters as scalar values)  *)

(* value of exactly k hex digits at the head of cs; None if there are fewer or another character *)
Fixpoint hex_value (k : nat) (acc : N) (cs : list N) : option N :=
  match k, cs with
  | O, _ => Some acc
  | S k', c :: r =>
      match hex_digit_val c with
      | Some d => hex_value k' (acc * 16 + d)%N r
      | None => None
      end
  | S _, [] => None
  end.

(* U+FFFD unless the digits denote a Unicode scalar value *)
Definition scalar_or_fffd (o : option N) : N :=
  match o with
  | Some n => if is_scalar n then n else 65533%N
  | None => 65533%N
  end.

(* The escape whose backslash has just been read; r = the characters after the backslash.
   Result: (character produced, number of BYTES after the backslash that the escape consumes).

   Malformed-escape rule.  The code consumes a fixed number of bytes after the backslash — 1 for
   `\\`, backslash-quote and for an unknown escape, 1+4 for `\u`, 1+6 for `\U` — whether or not the hex digits
   are there, and then moves on to the next character boundary.  So an escape that is not one of
   the four well-formed kinds produces ONE U+FFFD and swallows the characters that overlap those
   1 / 5 / 7 bytes (a character that is only partly covered is swallowed whole; at the end of the
   input there is simply less to swallow).  For a well-formed escape the same count is exactly the
   escape itself.                                                                               *)
Definition decode_escape (r : list N) : N * nat :=
  match r with
  | [] => (65533%N, 1)                                                     (* end of input *)
  | c :: r' =>
      if N.eqb c 92 then (92%N, 1)                                         (* \\ *)
      else if N.eqb c 34 then (34%N, 1)                                    (* backslash quote *)
      else if N.eqb c 117 then (scalar_or_fffd (hex_value 4 0 r'), 5)      (* \uXXXX *)
      else if N.eqb c 85 then (scalar_or_fffd (hex_value 6 0 r'), 7)       (* \UXXXXXX *)
      else (65533%N, 1)                                                    (* unknown escape *)
  end.

(* skip = bytes still to be swallowed by the escape in progress (0 = ordinary text) *)
Fixpoint unescape_chars (skip : nat) (cs : list N) : list N :=
  match cs with
  | [] => []
  | c :: r =>
      match skip with
      | S _ => unescape_chars (skip - length (encode_char c)) r
      | O =>
          if N.eqb c 92
          then let '(x, k) := decode_escape r in x :: unescape_chars k r
          else c :: unescape_chars 0 r
      end
  end.

Definition unescape_spec (bs : bytes) : bytes :=
  encode_chars (unescape_chars 0 (decode_chars bs)).

(* Syntax/ParserAccounting.v — proofs for property C03 (accounting half): Junk entries and
   errors of parse / parse_runtime correspond one to one, each Junk is the source text of its
   error's slice range, the range starts at a line start, ends where the next entry begins (or at
   end of input), contains the error position, and ranges are disjoint and in source order.
   Everything is conditional on the model returning (no UTF-8 hypothesis, no fuel hypothesis).

   Structure:
     1. a Hoare-style predicate `spec m p Q E` on parsing functions, with a bind rule;
     2. (A) monotonicity + "errors are created at the current ptr" for the recursive knot;
     3. (B) where a successful pattern ends (end of input or a line start);
     4. entries: get_attributes / get_message / get_term / get_comment / skip_comment / get_entry;
     5. recover (skip_to_next_entry_start, the rewind and the clamp);
     6. the loop invariants of parse_loop / parse_runtime_loop and the final theorems.          *)
From FluentV Require Import Syntax.ParserModel.
From Coq Require Import Lia ZifyBool ZifyNat ZifyN.


(* ------------------------------------------------------------------------------------------ *)
(* 0. list helpers                                                                             *)
(* ------------------------------------------------------------------------------------------ *)
Lemma nth_error_skipn_add {A} (l : list A) n i : nth_error (skipn n l) i = nth_error l (n + i).
Proof.
  revert l; induction n as [|n IH]; intros l; [reflexivity|].
  destruct l as [|x l]; [destruct i; reflexivity | exact (IH l)].
Qed.

Lemma skipn_uncons {A} (l : list A) p :
  skipn p l = match nth_error l p with Some b => b :: skipn (S p) l | None => [] end.
Proof.
  revert l; induction p as [|p IH]; intros [|x l]; try reflexivity.
  exact (IH l).
Qed.

Lemma scan_while_pos f (l : bytes) p :
  0 < scan_while f (skipn p l) -> exists b, nth_error l p = Some b /\ f b = true.
Proof.
  rewrite skipn_uncons. destruct (nth_error l p) as [b|]; cbn [scan_while]; [|lia].
  destruct (f b) eqn:Hf; [|lia]. intros _. exists b. split; [reflexivity | exact Hf].
Qed.

(* ------------------------------------------------------------------------------------------ *)
(* 1. the Hoare-style predicate                                                                *)
(* ------------------------------------------------------------------------------------------ *)
Definition spec {A} (m : M A) (p : nat) (Q : A -> nat -> Prop) (E : perror -> nat -> Prop) : Prop :=
  match m p with Ok a q => Q a q | Err e q => E e q | Pan _ => True | Fuel => True end.

Definition EF : perror -> nat -> Prop := fun _ _ => False.
Definition ET : perror -> nat -> Prop := fun _ _ => True.

Lemma spec_bind {A B} (m : M A) (f : A -> M B) p (Q1 : A -> nat -> Prop) (E1 : perror -> nat -> Prop)
  (Q : B -> nat -> Prop) (E : perror -> nat -> Prop) :
  spec m p Q1 E1 -> (forall e q, E1 e q -> E e q) -> (forall a q, Q1 a q -> spec (f a) q Q E) ->
  spec (bind m f) p Q E.
Proof.
  unfold spec, bind. destruct (m p) as [a q|e q|t|]; intros H1 H2 H3;
    [exact (H3 a q H1) | exact (H2 e q H1) | exact Logic.I | exact Logic.I].
Qed.

Lemma spec_weaken {A} (m : M A) p Q1 E1 (Q : A -> nat -> Prop) (E : perror -> nat -> Prop) :
  spec m p Q1 E1 -> (forall a q, Q1 a q -> Q a q) -> (forall e q, E1 e q -> E e q) -> spec m p Q E.
Proof.
  unfold spec. destruct (m p) as [a q|e q|t|]; intros H1 H2 H3;
    [exact (H2 a q H1) | exact (H3 e q H1) | exact Logic.I | exact Logic.I].
Qed.

Lemma spec_conj {A} (m : M A) p (Q1 Q2 : A -> nat -> Prop) (E1 E2 : perror -> nat -> Prop) :
  spec m p Q1 E1 -> spec m p Q2 E2 ->
  spec m p (fun a q => Q1 a q /\ Q2 a q) (fun e q => E1 e q /\ E2 e q).
Proof. unfold spec. destruct (m p); auto. Qed.

Lemma spec_self {A} (m : M A) p : spec m p (fun a q => m p = Ok a q) (fun e q => m p = Err e q).
Proof. unfold spec. destruct (m p); auto. Qed.

Lemma spec_try {A} (m : M A) p (Q : A -> nat -> Prop) (E : perror -> nat -> Prop) :
  spec m p Q E ->
  spec (try_ m) p (fun r q => match r with inr a => Q a q | inl e => E e q end) EF.
Proof. unfold spec, try_. destruct (m p); auto. Qed.

Lemma spec_ret {A} (a : A) p (Q : A -> nat -> Prop) (E : perror -> nat -> Prop) : Q a p -> spec (ret a) p Q E.
Proof. exact (fun H => H). Qed.

Lemma spec_ret_bind {A B} (a : A) (f : A -> M B) p (Q : B -> nat -> Prop) (E : perror -> nat -> Prop) : spec (f a) p Q E -> spec (bind (ret a) f) p Q E.
Proof. exact (fun H => H). Qed.

Lemma spec_bind_assoc {A B C} (m : M A) (g : A -> M B) (f : B -> M C) p (Q : C -> nat -> Prop)
  (E : perror -> nat -> Prop) :
  spec (bind m (fun x => bind (g x) f)) p Q E -> spec (bind (bind m g) f) p Q E.
Proof. unfold spec, bind. destruct (m p); auto. Qed.

Lemma spec_fuel {A} p (Q : A -> nat -> Prop) (E : perror -> nat -> Prop) : spec out_of_fuel p Q E.
Proof. exact Logic.I. Qed.

Ltac split_hyps :=
  repeat match goal with
         | H : _ /\ _ |- _ => destruct H
         | H : _ \/ _ |- _ => destruct H
         | H : False |- _ => destruct H
         | H : EF _ _ |- _ => destruct H
         | H : exists _, _ |- _ => destruct H
         end.

Ltac destr x :=
  first [ is_var x; destruct x | destruct x eqn:? ];
  repeat match goal with H : context [match _ with _ => _ end] |- _ => progress cbv beta iota in H end;
  split_hyps.

(* one step of symbolic execution; `db` names the hint database holding the specs to use *)
Ltac sp_step :=
  lazymatch goal with
  | |- spec (bind (bind _ _) _) _ _ _ => apply spec_bind_assoc
  | |- spec (bind (ret _) _) _ _ _ => apply spec_ret_bind
  | |- spec (bind (match ?x with _ => _ end) _) _ _ _ => destr x
  | |- spec (bind _ _) _ _ _ =>
      eapply spec_bind;
      [ solve [eauto 3 with acc_sp]
      | let H := fresh "H" in intros ? ? H; cbv beta in H; split_hyps; subst
      | let H := fresh "H" in intros ? ? H; cbv beta in H; split_hyps; subst; cbv beta iota ]
  | |- spec (match ?x with _ => _ end) _ _ _ => destr x
  | |- spec (ret _) _ _ _ => apply spec_ret
  | |- spec out_of_fuel _ _ _ => exact Logic.I
  | |- spec _ _ _ _ =>
      eapply spec_weaken;
      [ solve [eauto 3 with acc_sp]
      | let H := fresh "H" in intros ? ? H; cbv beta in H; split_hyps; subst
      | let H := fresh "H" in intros ? ? H; cbv beta in H; split_hyps; subst ]
  end.

Ltac fin := try solve [ exact Logic.I | repeat split; first [ lia | assumption | congruence | discriminate ] ].
Ltac sp_go := repeat (sp_step; fin).

Create HintDb acc_sp.

(* ------------------------------------------------------------------------------------------ *)
(* 2. primitives                                                                               *)
(* ------------------------------------------------------------------------------------------ *)
Section Acc.
Variable bs : bytes.
Notation len := (length bs).

Lemma is_byte_at_true b p : is_byte_at bs b p = true <-> nth_error bs p = Some b.
Proof.
  unfold is_byte_at, byte_at. destruct (nth_error bs p) as [x|]; [|split; discriminate].
  rewrite N.eqb_eq. split; congruence.
Qed.

Lemma byte_at_none p : byte_at bs p = None <-> len <= p.
Proof. apply nth_error_None. Qed.

Lemma byte_at_some p : p < len -> exists b, byte_at bs p = Some b.
Proof.
  intros H. unfold byte_at. destruct (nth_error bs p) eqn:E; [eauto|].
  apply nth_error_None in E. lia.
Qed.

Lemma sp_get_ptr p : spec get_ptr p (fun a q => a = p /\ q = p) EF.
Proof. split; reflexivity. Qed.
Lemma sp_set_ptr x p : spec (set_ptr x) p (fun _ q => q = x) EF.
Proof. reflexivity. Qed.
Lemma sp_advance k p : spec (advance k) p (fun _ q => q = k + p) EF.
Proof. reflexivity. Qed.
Lemma sp_retreat k p : spec (retreat k) p (fun _ q => q + k = p) EF.
Proof. unfold spec, retreat. destruct (Nat.leb k p) eqn:H; [lia | exact Logic.I]. Qed.
Lemma sp_panic {A} t p : spec (@panic A t) p (fun _ _ => False) EF.
Proof. exact Logic.I. Qed.
Lemma sp_error_here {A} k p :
  spec (@error_here A k) p (fun _ _ => False) (fun e q => q = p /\ pos_start e = p).
Proof. split; reflexivity. Qed.
Lemma sp_error_range {A} k a b p :
  spec (@error_range A k a b) p (fun _ _ => False) (fun e q => q = p /\ pos_start e = a).
Proof. split; reflexivity. Qed.
Lemma sp_current_byte p : spec (current_byte bs) p (fun a q => a = byte_at bs p /\ q = p) EF.
Proof. split; reflexivity. Qed.
Lemma sp_is_current_byte b p : spec (is_current_byte bs b) p (fun _ q => q = p) EF.
Proof. reflexivity. Qed.
Lemma sp_source_slice a b p :
  spec (source_slice bs a b) p (fun s q => q = p /\ slice bs a b = Done s) EF.
Proof. unfold spec, source_slice, lift_outcome. destruct (slice bs a b); auto. Qed.
Lemma sp_is_identifier_start p :
  spec (is_identifier_start bs) p
       (fun r q => q = p /\ r = match byte_at bs p with Some b => is_ascii_alphabetic b | None => false end) EF.
Proof. split; reflexivity. Qed.
Lemma sp_is_number_start p : spec (is_number_start bs) p (fun _ q => q = p) EF.
Proof. reflexivity. Qed.
Lemma sp_is_eol p :
  spec (is_eol bs) p
       (fun r q => q = p /\
                   r = match byte_at bs p with
                       | None => true
                       | Some b => if N.eqb b c_lf then true
                                   else if N.eqb b c_cr then is_byte_at bs c_lf (S p) else false
                       end) EF.
Proof. split; reflexivity. Qed.
Lemma sp_take_byte_if b p :
  spec (take_byte_if bs b) p
       (fun r q => (r = true /\ q = S p /\ is_byte_at bs b p = true) \/
                   (r = false /\ q = p /\ is_byte_at bs b p = false)) EF.
Proof. unfold spec, take_byte_if. destruct (is_byte_at bs b p); auto. Qed.
Lemma sp_expect_byte b p :
  spec (expect_byte bs b) p (fun _ q => q = S p /\ is_byte_at bs b p = true)
       (fun e q => q = p /\ pos_start e = p /\ is_byte_at bs b p = false).
Proof. unfold spec, expect_byte. destruct (is_byte_at bs b p); auto. Qed.
Lemma sp_skip_blank p : spec (skip_blank bs) p (fun _ q => p <= q) EF.
Proof. unfold spec, skip_blank. lia. Qed.
Lemma sp_skip_blank_inline p :
  spec (skip_blank_inline bs) p (fun k q => q = k + p /\ k = scan_while is_space (rest bs p)) EF.
Proof. split; reflexivity. Qed.
Lemma sp_skip_digits p :
  spec (skip_digits bs) p (fun _ q => p <= q) (fun e q => q = p /\ pos_start e = p).
Proof.
  unfold spec, skip_digits. destruct (Nat.eqb (scan_while is_ascii_digit (rest bs p)) 0); [auto | lia].
Qed.

Lemma eol_len_rest q :
  eol_len (rest bs q) =
  match byte_at bs q with
  | Some b => if N.eqb b c_lf then 1
              else if N.eqb b c_cr then (if is_byte_at bs c_lf (S q) then 2 else 0) else 0
  | None => 0
  end.
Proof.
  unfold rest, byte_at, is_byte_at, byte_at. rewrite skipn_uncons.
  destruct (nth_error bs q) as [b|]; [|reflexivity]. cbn [eol_len].
  destruct (N.eqb b c_lf); [reflexivity|]. destruct (N.eqb b c_cr); [|reflexivity].
  rewrite skipn_uncons. destruct (nth_error bs (S q)); reflexivity.
Qed.

Lemma eol_len_facts q :
  eol_len (rest bs q) = 0 \/
  (0 < eol_len (rest bs q) /\ nth_error bs (eol_len (rest bs q) + q - 1) = Some 10%N).
Proof.
  rewrite eol_len_rest. unfold byte_at. destruct (nth_error bs q) as [b|] eqn:Hb; [|auto].
  destruct (N.eqb b c_lf) eqn:H1.
  - right. split; [lia|]. apply N.eqb_eq in H1. subst b. replace (1 + q - 1) with q by lia. exact Hb.
  - destruct (N.eqb b c_cr); [|auto]. destruct (is_byte_at bs c_lf (S q)) eqn:H2; [|auto].
    right. split; [lia|]. apply is_byte_at_true in H2. replace (2 + q - 1) with (S q) by lia. exact H2.
Qed.

Lemma sp_skip_eol p :
  spec (skip_eol bs) p
       (fun r q => (r = false /\ q = p /\ eol_len (rest bs p) = 0) \/
                   (r = true /\ p < q /\ nth_error bs (q - 1) = Some 10%N)) EF.
Proof.
  unfold spec, skip_eol. destruct (eol_len_facts p) as [H | [H1 H2]].
  - rewrite H. auto.
  - destruct (eol_len (rest bs p)) as [|e]; [lia|]. right. split; [reflexivity|]. split; [lia | exact H2].
Qed.

(* skip_blank_block consumes whole lines: it either does nothing or ends just after a '\n' *)
Lemma blank_block_facts k : forall l c m,
  blank_block k l = (c, m) ->
  (m = 0 \/ (0 < m /\ nth_error l (m - 1) = Some 10%N)) /\
  (0 < k -> (exists r, l = 10%N :: r) -> 0 < m).
Proof.
  induction k as [|k IH]; intros l c m; cbn [blank_block].
  - intros [= <- <-]. split; [auto | lia].
  - set (s := scan_while is_space l). set (l' := skipn s l).
    assert (Hel : eol_len l' = 0 \/ (0 < eol_len l' /\ nth_error l' (eol_len l' - 1) = Some 10%N)).
    { destruct l' as [|b r]; cbn [eol_len]; [auto|].
      destruct (N.eqb b c_lf) eqn:H1.
      - right. split; [lia|]. apply N.eqb_eq in H1. subst b. reflexivity.
      - destruct (N.eqb b c_cr); [|auto]. destruct r as [|b2 r2]; [auto|].
        destruct (N.eqb b2 c_lf) eqn:H2; [|auto]. right. split; [lia|].
        apply N.eqb_eq in H2. subst b2. reflexivity. }
    destruct (eol_len l') as [|e] eqn:He.
    + intros [= <- <-]. split; [auto|]. intros _ [r ->].
      subst l' s. cbn in He. discriminate.
    + destruct (blank_block k (skipn (S e) l')) as [c' m'] eqn:Hb. intros [= <- <-].
      destruct Hel as [Hel | [_ Hel]]; [discriminate|].
      split; [|lia]. right. split; [lia|].
      apply IH in Hb. destruct Hb as [[-> | [Hm' Hn]] _].
      * subst l'. rewrite nth_error_skipn_add in Hel. rewrite <- Hel. f_equal. lia.
      * subst l'. rewrite !nth_error_skipn_add in Hn. rewrite <- Hn. f_equal. lia.
Qed.

Lemma sp_skip_blank_block p :
  spec (skip_blank_block bs) p
       (fun _ q => (q = p /\ byte_at bs p <> Some 10%N) \/ (p < q /\ nth_error bs (q - 1) = Some 10%N)) EF.
Proof.
  unfold spec, skip_blank_block.
  destruct (blank_block (S (length_ bs - p)) (rest bs p)) as [c m] eqn:Hb.
  apply blank_block_facts in Hb. destruct Hb as [[-> | [Hm Hn]] Hnl].
  - left. split; [reflexivity|]. intros Hp. assert (0 < 0); [|lia]. apply Hnl; [lia|].
    unfold rest. rewrite skipn_uncons. unfold byte_at in Hp. rewrite Hp. eauto.
  - right. split; [lia|]. unfold rest in Hn. rewrite nth_error_skipn_add in Hn.
    rewrite <- Hn. f_equal. lia.
Qed.

Lemma sp_get_identifier_unchecked p :
  spec (get_identifier_unchecked bs) p (fun _ q => p <= q) EF.
Proof.
  unfold spec, get_identifier_unchecked. destruct (Nat.leb 1 p); [|exact Logic.I].
  destruct (slice bs (p - 1) _); [lia | exact Logic.I | exact Logic.I].
Qed.

Lemma sp_skip_unicode k p :
  spec (skip_unicode_escape_sequence bs k) p (fun _ q => p <= q) (fun e q => p <= q /\ pos_start e = q).
Proof.
  unfold spec, skip_unicode_escape_sequence.
  destruct (Nat.eqb _ k); [lia|]. destruct (slice bs p _); cbn [pos_start]; auto. split; [lia | reflexivity].
Qed.

(* text slices: where they end, by termination kind *)
Lemma sp_get_text_slice p :
  spec (get_text_slice bs) p
       (fun ts q => p <= q /\
                    match snd ts with
                    | TLineFeed => 0 < q /\ nth_error bs (q - 1) = Some 10%N
                    | TCrlf => nth_error bs q = Some 10%N
                    | _ => True
                    end)
       (fun e q => p <= q /\ pos_start e = q).
Proof.
  unfold spec, get_text_slice. destruct (Nat.ltb (length_ bs) p); [cbn; auto|].
  destruct (memchr3 (rest bs p)) as [i|]; [|cbn; split; [lia | exact Logic.I]].
  destruct (nth_error (rest bs p) i) as [b|] eqn:Hb; [|exact Logic.I].
  unfold rest in Hb. rewrite nth_error_skipn_add in Hb.
  destruct (N.eqb b 125); [cbn [pos_start]; split; [lia | reflexivity]|].
  destruct (N.eqb b c_lf) eqn:Hlf; [|cbn; split; [lia | exact Logic.I]].
  apply N.eqb_eq in Hlf. subst b. unfold c_lf in Hb.
  assert (HLF : forall nb : bool, p <= S i + p /\
            match snd (p, S i + p, nb, TLineFeed) with
            | TLineFeed => 0 < S i + p /\ nth_error bs (S i + p - 1) = Some 10%N
            | TCrlf => nth_error bs (S i + p) = Some 10%N
            | _ => True
            end).
  { intros nb. cbn [snd]. split; [lia|]. split; [lia|]. rewrite <- Hb. f_equal. lia. }
  destruct i as [|i']; [apply HLF|].
  destruct (match nth_error (rest bs p) i' with Some c => N.eqb c c_cr | None => false end); [|apply HLF].
  cbn [snd]. split; [lia|]. rewrite <- Hb. f_equal. lia.
Qed.

End Acc.

#[export] Hint Resolve sp_get_ptr sp_set_ptr sp_advance sp_retreat sp_panic sp_error_here sp_error_range
  sp_current_byte sp_is_current_byte sp_source_slice sp_is_identifier_start sp_is_number_start sp_is_eol
  sp_take_byte_if sp_expect_byte sp_skip_blank sp_skip_blank_inline sp_skip_digits sp_skip_eol
  sp_skip_blank_block sp_get_identifier_unchecked sp_skip_unicode sp_get_text_slice : acc_sp.

(* ------------------------------------------------------------------------------------------ *)
(* 3. (A) monotonicity of the recursive knot; errors are created at the current ptr            *)
(* ------------------------------------------------------------------------------------------ *)
Ltac fold_knot bs :=
  fold (get_pattern bs) (pattern_loop bs) (get_placeable bs) (get_expression bs) (get_variants bs)
       (variants_loop bs) (get_inline_expression bs) (string_loop bs) (get_call_arguments bs) (args_loop bs).

Definition mono {A} (m : M A) : Prop :=
  forall p, spec m p (fun _ q => p <= q) (fun e q => p <= q /\ pos_start e = q).

Section Mono.
Variable bs : bytes.
Notation len := (length bs).

Lemma mono_get_number_literal : mono (get_number_literal bs).
Proof. intros p. unfold get_number_literal. sp_go. Qed.

Lemma sp_get_identifier p :
  spec (get_identifier bs) p (fun _ q => p < q)
       (fun e q => q = p /\ pos_start e = p /\
                   match byte_at bs p with Some b => is_ascii_alphabetic b | None => false end = false).
Proof. unfold get_identifier. sp_go. Qed.

Lemma mono_get_identifier : mono (get_identifier bs).
Proof. intros p. eapply spec_weaken; [apply sp_get_identifier | |]; cbv beta; intros; split_hyps; subst; fin. Qed.

Lemma mono_get_attribute_accessor : mono (get_attribute_accessor bs).
Proof. pose proof mono_get_identifier. intros p. unfold get_attribute_accessor. sp_go. Qed.

Lemma mono_get_variant_key : mono (get_variant_key bs).
Proof.
  pose proof mono_get_identifier. pose proof mono_get_number_literal.
  intros p. unfold get_variant_key. sp_go.
Qed.

Lemma sp_finish_elements lnb ci : forall phs i p,
  spec (finish_elements bs lnb ci i phs) p (fun _ q => q = p) EF.
Proof.
  induction phs as [|ph phs IH]; intros i p; cbn [finish_elements]; [reflexivity|].
  assert (H : forall p, spec (finish_element bs lnb ci i ph) p (fun _ q => q = p) EF).
  { intros p'. unfold finish_element. sp_go. }
  sp_go.
Qed.

Lemma sp_finish_pattern st p : spec (finish_pattern bs st) p (fun _ q => q = p) EF.
Proof. pose proof sp_finish_elements. unfold finish_pattern. sp_go. Qed.

Definition knot_mono (n : nat) : Prop :=
  mono (get_pattern bs n) /\
  (forall st, mono (pattern_loop bs n st)) /\
  mono (get_placeable bs n) /\
  mono (get_expression bs n) /\
  mono (get_variants bs n) /\
  (forall acc hd, mono (variants_loop bs n acc hd)) /\
  (forall ol, mono (get_inline_expression bs n ol)) /\
  mono (string_loop bs n) /\
  mono (get_call_arguments bs n) /\
  (forall a b c, mono (args_loop bs n a b c)).

Lemma knot_mono_all n : knot_mono n.
Proof.
  pose proof mono_get_identifier as Hid. pose proof mono_get_number_literal as Hnum.
  pose proof mono_get_attribute_accessor as Hacc. pose proof mono_get_variant_key as Hkey.
  pose proof sp_finish_pattern as Hfin.
  unfold mono in Hid, Hnum, Hacc, Hkey.
  induction n as [|n IH]; unfold knot_mono, mono.
  - repeat split; intros; exact Logic.I.
  - destruct IH as (IH1 & IH2 & IH3 & IH4 & IH5 & IH6 & IH7 & IH8 & IH9 & IH10).
    unfold mono in IH1, IH2, IH3, IH4, IH5, IH6, IH7, IH8, IH9, IH10.
    repeat match goal with |- _ /\ _ => split end.
    + intros p. cbn [get_pattern]. fold_knot bs. sp_go.
    + intros st p. cbn [pattern_loop]. fold_knot bs. sp_go.
    + intros p. cbn [get_placeable]. fold_knot bs. sp_go.
    + intros p. cbn [get_expression]. fold_knot bs. sp_go.
    + intros p. cbn [get_variants]. fold_knot bs. sp_go.
    + intros acc hd p. cbn [variants_loop]. fold_knot bs. sp_go.
    + intros ol p. cbn [get_inline_expression]. fold_knot bs. sp_go.
    + intros p. cbn [string_loop]. fold_knot bs. sp_go.
    + intros p. cbn [get_call_arguments]. fold_knot bs. sp_go.
    + intros a b c p. cbn [args_loop]. fold_knot bs. sp_go.
Qed.

End Mono.

(* ------------------------------------------------------------------------------------------ *)
(* 4. (B) where patterns, attributes, comments and entries end                                 *)
(* ------------------------------------------------------------------------------------------ *)
Lemma spec_any {A} (m : M A) p : spec m p (fun _ _ => True) ET.
Proof. unfold spec, ET. destruct (m p); exact Logic.I. Qed.

Definition hide (P : Prop) : Prop := P.

Section Ends.
Variable bs : bytes.
Notation len := (length bs).

Definition line_start (a : nat) : Prop := a = 0 \/ nth_error bs (a - 1) = Some 10%N.
Definition at_boundary (q : nat) : Prop := len <= q \/ line_start q.
Definition endpos (q : nat) : Prop := len <= q \/ line_start q \/ nth_error bs q = Some 10%N.

Lemma pattern_loop_end n : forall st p,
  (role st = LineStart -> line_start p \/ nth_error bs p = Some 10%N) ->
  spec (pattern_loop bs n st) p (fun _ q => at_boundary q) ET.
Proof.
  induction n as [|n IH]; [intros; exact Logic.I|].
  intros st p Hrole. cbn [pattern_loop]. fold_knot bs.
  sp_step. sp_step.
  { apply spec_ret. left. unfold length_ in *. lia. }
  sp_step.
  - (* placeable *)
    eapply spec_bind; [apply spec_any | auto | ].
    intros exp q' _. apply IH. cbn [role]. discriminate.
  - sp_step.
    eapply spec_bind with (Q1 := fun pro q => pro = None -> at_boundary q) (E1 := ET); [ | auto | ].
    + destruct (is_line_start (role st)) eqn:Hls; [|apply spec_ret; discriminate].
      assert (Hr : role st = LineStart) by (destruct (role st); try discriminate; reflexivity).
      specialize (Hrole Hr). clear Hls Hr. change (hide (line_start p \/ nth_error bs p = Some 10%N)) in Hrole.
      sp_step. sp_step. destruct (byte_at bs _) as [b|] eqn:Hb.
      * destruct (Nat.eqb _ 0) eqn:Hi.
        -- apply Nat.eqb_eq in Hi. rewrite Hi in *. cbn [Nat.add] in *.
           sp_step. rewrite Hb. destruct (N.eqb b c_lf) eqn:Hlf; cbn [negb].
           ++ apply spec_ret. discriminate.
           ++ match goal with |- spec (if ?c then _ else _) _ _ _ => destruct c end;
                apply spec_ret; [intros _ | discriminate].
              unfold hide in Hrole. destruct Hrole as [Hl | Hn]; [right; exact Hl|].
              unfold byte_at in Hb. rewrite Hn in Hb. injection Hb as <-. vm_compute in Hlf. discriminate.
        -- apply Nat.eqb_neq in Hi.
           destruct (negb (is_byte_pattern_continuation b)); [|apply spec_ret; discriminate].
           sp_step. apply spec_ret. intros _.
           unfold hide in Hrole. destruct Hrole as [Hl | Hn]; [right; exact Hl|].
           destruct (scan_while_pos is_space bs p) as (b' & Hb' & Hsp); [unfold rest in Hi; lia|].
           rewrite Hn in Hb'. injection Hb' as <-. vm_compute in Hsp. discriminate.
      * apply spec_ret. intros _. left. apply byte_at_none. exact Hb.
    + intros [indent|] q Hq; [|apply spec_ret; apply Hq; reflexivity].
      sp_step; [exact Logic.I|]. match goal with |- spec (match ?x with _ => _ end) _ _ _ => destruct x as [[[s e] nb] term] end.
      cbn [snd] in *.
      apply IH. cbn [role]. destruct term; try discriminate; intros _.
      * left. right. tauto.
      * right. assumption.
Qed.


Lemma at_boundary_endpos q : at_boundary q -> endpos q.
Proof. unfold at_boundary, endpos. tauto. Qed.

Lemma nl_at_boundary q : nth_error bs (q - 1) = Some 10%N -> at_boundary q.
Proof. intros H. right. right. exact H. Qed.

Lemma get_pattern_end n p : spec (get_pattern bs n) p (fun _ q => at_boundary q) ET.
Proof.
  destruct n as [|n]; [exact Logic.I|]. cbn [get_pattern]. fold_knot bs.
  sp_step. sp_step.
  - (* no eol *)
    apply spec_ret_bind. eapply spec_bind; [apply pattern_loop_end; cbn [role]; discriminate | auto |].
    intros st' q' Hb. eapply spec_weaken; [apply sp_finish_pattern | | intros ? ? []].
    intros ? ? ->. exact Hb.
  - apply spec_bind_assoc. sp_step; apply spec_ret_bind;
    (eapply spec_bind; [apply pattern_loop_end; cbn [role]; intros _; left; right; assumption | auto |]);
    intros st' q' Hb; (eapply spec_weaken; [apply sp_finish_pattern | | intros ? ? []]);
    intros ? ? ->; exact Hb.
Qed.

Lemma get_pattern_spec n p :
  spec (get_pattern bs n) p (fun _ q => p <= q /\ at_boundary q) (fun e q => p <= q /\ pos_start e = q).
Proof.
  destruct (knot_mono_all bs n) as [Hm _].
  eapply spec_weaken; [exact (spec_conj _ _ _ _ _ _ (Hm p) (get_pattern_end n p)) | |]; cbv beta; tauto.
Qed.

Lemma sp_skip_blank_block_boundary p :
  endpos p -> spec (skip_blank_block bs) p (fun _ q => p <= q /\ at_boundary q) EF.
Proof.
  intros Hp. eapply spec_weaken; [apply sp_skip_blank_block | | intros ? ? []].
  intros _ q [[-> Hb] | [Hlt Hn]].
  - split; [lia|]. destruct Hp as [Hp | [Hp | Hp]]; [left; exact Hp | right; exact Hp | contradiction].
  - split; [lia|]. right. right. exact Hn.
Qed.

Ltac fin2 :=
  try solve [ exact Logic.I
            | repeat split;
              first [ lia | assumption | reflexivity | left; lia | right; assumption | discriminate | congruence ] ].
Ltac sp_go2 := repeat (sp_step; fin2).

Lemma get_attribute_spec n p :
  spec (get_attribute bs n) p (fun _ q => p <= q /\ at_boundary q) ET.
Proof.
  pose proof sp_get_identifier as H1. pose proof get_pattern_spec as H2.
  unfold get_attribute. sp_go2.
Qed.

Lemma sp_try_get_attribute n p :
  spec (try_ (get_attribute bs n)) p
       (fun r q => match r with inr _ => p <= q /\ at_boundary q | inl _ => True end) EF.
Proof.
  eapply spec_weaken; [apply spec_try, get_attribute_spec | | auto].
  intros [e|a] q; cbv beta; auto.
Qed.

Lemma get_attributes_spec n : forall acc p,
  at_boundary p -> spec (get_attributes bs n acc) p (fun _ q => p <= q /\ at_boundary q) EF.
Proof.
  pose proof sp_try_get_attribute as Htry.
  induction n as [|n IH]; intros acc p Hp; [exact Logic.I|].
  cbn [get_attributes]. sp_go2.
Qed.

Definition is_junk (e : entry) : bool := match e with Junk _ => true | _ => false end.

Definition alpha_at (p : nat) : bool :=
  match byte_at bs p with Some b => is_ascii_alphabetic b | None => false end.

Lemma get_message_spec n p :
  spec (get_message bs n p) p
       (fun e q => p <= q /\ at_boundary q /\ is_junk e = false)
       (fun e q => p <= pos_start e /\ pos_start e <= q /\ (p < q \/ alpha_at p = false)).
Proof.
  pose proof sp_get_identifier as H1. pose proof get_pattern_spec as H2.
  pose proof nl_at_boundary as H3.
  pose proof get_attributes_spec as H5.
  unfold get_message, alpha_at. sp_go2.
Qed.

Lemma get_term_spec n p :
  spec (get_term bs n p) p
       (fun e q => p <= q /\ at_boundary q /\ is_junk e = false)
       (fun e q => p <= pos_start e /\ pos_start e <= q /\ (p < q \/ is_byte_at bs 45 p = false)).
Proof.
  pose proof (mono_get_identifier bs) as H1. pose proof get_pattern_spec as H2.
  pose proof nl_at_boundary as H3.
  pose proof get_attributes_spec as H5. unfold mono in H1.
  unfold get_term. sp_go2.
Qed.


(* ---- comments ---- *)
Definition stop (q : nat) : Prop :=
  byte_at bs q = None \/ byte_at bs q = Some c_lf \/
  (byte_at bs q = Some c_cr /\ is_byte_at bs c_lf (S q) = true).

Lemma line_len_stop k : forall p, S len <= k + p -> stop (line_len bs k p + p).
Proof.
  induction k as [|k IH]; intros p Hk; cbn [line_len].
  - left. apply byte_at_none. lia.
  - destruct (byte_at bs p) as [b|] eqn:Hb; [|left; exact Hb].
    destruct (N.eqb b c_lf) eqn:H1.
    + apply N.eqb_eq in H1. subst b. right. left. exact Hb.
    + destruct (N.eqb b c_cr && is_byte_at bs c_lf (S p))%bool eqn:H2.
      * apply andb_prop in H2 as [H2 H3]. apply N.eqb_eq in H2. subst b.
        right. right. split; [exact Hb | exact H3].
      * replace (S (line_len bs k (S p)) + p) with (line_len bs k (S p) + S p) by lia. apply IH. lia.
Qed.

Lemma sp_get_comment_line p : spec (get_comment_line bs) p (fun _ q => p <= q /\ stop q) EF.
Proof.
  unfold spec, get_comment_line. destruct (slice bs p _); try exact Logic.I.
  split; [lia | apply line_len_stop; unfold length_; lia].
Qed.

Lemma sp_skip_eol_stop q : stop q -> spec (skip_eol bs) q (fun _ q' => q <= q' /\ at_boundary q') EF.
Proof.
  intros Hs. eapply spec_weaken; [apply sp_skip_eol | | intros ? ? []].
  intros r q' [(-> & -> & He) | (-> & Hlt & Hn)].
  - split; [lia|]. rewrite eol_len_rest in He. destruct Hs as [Hs | [Hs | [Hs Hs2]]]; rewrite Hs in He.
    + left. apply byte_at_none. exact Hs.
    + vm_compute in He. discriminate.
    + rewrite Hs2 in He. vm_compute in He. discriminate.
  - split; [lia|]. right. right. exact Hn.
Qed.

Lemma sp_get_comment_level p :
  spec (get_comment_level bs) p
       (fun l q => q = level_num l + p /\ (l = LNone -> is_byte_at bs 35 p = false)) EF.
Proof.
  unfold get_comment_level. repeat sp_step; cbn [level_num]; (split; [lia | intros; congruence]).
Qed.

Lemma sp_try_expect_byte b p :
  spec (try_ (expect_byte bs b)) p
       (fun r q => match r with
                   | inr _ => q = S p
                   | inl e => q = p /\ pos_start e = p
                   end) EF.
Proof.
  eapply spec_weaken; [apply spec_try, sp_expect_byte | | auto].
  intros [e|a] q; cbv beta; tauto.
Qed.

Lemma get_comment_loop_spec n : forall lvl content p,
  at_boundary p ->
  spec (get_comment_loop bs n lvl content) p
       (fun _ q => endpos q /\ (p <= q \/ (S q = p /\ is_byte_at bs 35 p = false)))
       (fun e q => p < q /\ pos_start e = q).
Proof.
  pose proof sp_get_comment_level as Hlvl. pose proof sp_get_comment_line as Hline.
  pose proof sp_try_expect_byte as Htry.
  induction n as [|n IH]; intros lvl content p Hp; [exact Logic.I|].
  cbn [get_comment_loop]. sp_step. sp_step.
  { apply spec_ret. unfold length_ in *. split; [left; lia | left; lia]. }
  sp_step.
  assert (Htail : forall q lv, p < q ->
            spec (line <- get_comment_line bs ;; skip_eol bs ;;; get_comment_loop bs n lv (line :: content)) q
                 (fun _ q' => endpos q' /\ (p <= q' \/ (S q' = p /\ is_byte_at bs 35 p = false)))
                 (fun e q' => p < q' /\ pos_start e = q')).
  { intros q lv Hq. sp_step.
    eapply spec_bind; [apply sp_skip_eol_stop; assumption | intros ? ? [] |].
    intros _ q2 [Hle Hb]. eapply spec_weaken; [apply IH; exact Hb | |]; cbv beta.
    - intros _ q3 [He Hm]. split; [exact He | left; lia].
    - intros e q3 [Hlt Hps]. split; [lia | exact Hps]. }
  assert (Hend : endpos p) by (apply at_boundary_endpos, Hp).
  match goal with a : level |- _ => destruct a end; cbn [level_eqb level_num Nat.eqb].
  1: { (* LNone *)
    sp_step. apply spec_ret. split; [|right; split; [lia | auto]].
    right. right. destruct Hp as [Hp | [Hp | Hp]]; [unfold length_ in *; lia | lia |].
    rewrite <- Hp. f_equal. lia. }
  all: match goal with |- spec (if ?c then _ else _) _ _ _ => destruct c end.
  all: try (sp_step; apply spec_ret;
            match goal with H : ?q + ?k = ?k + ?p' |- _ => replace q with p' by lia end;
            split; [assumption | left; lia]).
  all: sp_step; sp_step;
    [ apply spec_ret; match goal with H : (_ =? _) = true |- _ => apply Nat.eqb_eq in H end;
      unfold length_ in *; split; [left; lia | left; lia] | ].
  all: sp_step; sp_step; [ apply Htail; lia | ].
  all: sp_step; sp_step; [ | apply Htail; lia ].
  all: sp_step; subst; [ unfold spec; split; lia | ].
  all: sp_step; apply spec_ret;
       match goal with Hp : at_boundary ?p' |- endpos ?q /\ _ => replace q with p' by lia end;
       split; [assumption | left; lia].
Qed.


Lemma skip_comment_spec n : forall p, spec (skip_comment bs n) p (fun _ q => p <= q /\ endpos q) EF.
Proof.
  induction n as [|n IH]; intros p; [exact Logic.I|].
  unfold spec. cbn [skip_comment]. cbv zeta.
  set (p1 := line_len bs (S (length_ bs) - p) p + p).
  assert (Hs : stop p1) by (apply line_len_stop; unfold length_; lia).
  assert (Hle : p <= p1) by lia. clearbody p1.
  destruct (is_byte_at bs 35 (S p1)) eqn:H35.
  - specialize (IH (S (S p1))). unfold spec in IH.
    destruct (skip_comment bs n (S (S p1))); try exact Logic.I; [|destruct IH].
    split; [lia | tauto].
  - split; [lia|]. destruct Hs as [Hs | [Hs | [Hs Hs2]]].
    + left. apply byte_at_none in Hs. lia.
    + right. left. right. replace (S p1 - 1) with p1 by lia. exact Hs.
    + right. right. apply is_byte_at_true in Hs2. exact Hs2.
Qed.

Definition entry_char (b : N) : bool := is_ascii_alphabetic b || N.eqb b 45 || N.eqb b 35.

Definition entry_err (p : nat) : perror -> nat -> Prop :=
  fun e q => p <= pos_start e /\ pos_start e <= q /\
             (p < q \/ exists c, byte_at bs p = Some c /\ entry_char c = false).

Lemma get_entry_spec n p :
  p < len -> at_boundary p ->
  spec (get_entry bs n p) p (fun e q => p <= q /\ endpos q /\ is_junk e = false) (entry_err p).
Proof.
  intros Hlt Hp. unfold get_entry. sp_step.
  destruct (byte_at_some bs p Hlt) as [b Hb]. rewrite Hb.
  destruct (N.eqb b 35) eqn:H35; [|destruct (N.eqb b 45) eqn:H45].
  - assert (His : is_byte_at bs 35 p = true) by (unfold is_byte_at; rewrite Hb; exact H35).
    unfold get_comment.
    eapply spec_bind; [apply get_comment_loop_spec; exact Hp | |]; cbv beta.
    + intros e q [H1 H2]. unfold entry_err. split; [lia|]. split; [lia|]. left. exact H1.
    + intros [c lvl] q [He [Hm | [_ Hm]]]; [|congruence].
      destruct lvl; try (apply spec_ret; split; [exact Hm | split; [exact He | reflexivity]]).
      exact Logic.I.
  - assert (His : is_byte_at bs 45 p = true) by (unfold is_byte_at; rewrite Hb; exact H45).
    eapply spec_weaken; [apply get_term_spec | |]; cbv beta.
    + intros e q (H1 & H2 & H3). split; [exact H1|]. split; [apply at_boundary_endpos, H2 | exact H3].
    + intros e q (H1 & H2 & [H3 | H3]); [|congruence]. unfold entry_err. auto.
  - eapply spec_weaken; [apply get_message_spec | |]; cbv beta.
    + intros e q (H1 & H2 & H3). split; [exact H1|]. split; [apply at_boundary_endpos, H2 | exact H3].
    + intros e q (H1 & H2 & H3). unfold entry_err. split; [exact H1|]. split; [exact H2|].
      destruct H3 as [H3 | H3]; [left; exact H3 | right]. exists b. split; [exact Hb|].
      unfold alpha_at in H3. rewrite Hb in H3. unfold entry_char. rewrite H3, H35, H45. reflexivity.
Qed.

Lemma get_entry_runtime_spec n p :
  p < len ->
  spec (get_entry_runtime bs n p) p
       (fun r q => p <= q /\ endpos q /\ forall e, r = Some e -> is_junk e = false) (entry_err p).
Proof.
  intros Hlt. unfold get_entry_runtime. sp_step.
  destruct (byte_at_some bs p Hlt) as [b Hb]. rewrite Hb.
  destruct (N.eqb b 35) eqn:H35; [|destruct (N.eqb b 45) eqn:H45].
  - eapply spec_bind; [apply skip_comment_spec | intros ? ? [] |]; cbv beta.
    intros _ q [H1 H2]. apply spec_ret. split; [exact H1|]. split; [exact H2|]. discriminate.
  - assert (His : is_byte_at bs 45 p = true) by (unfold is_byte_at; rewrite Hb; exact H45).
    eapply spec_bind; [apply get_term_spec | |]; cbv beta.
    + intros e q (H1 & H2 & [H3 | H3]); [|congruence]. unfold entry_err. auto.
    + intros e q (H1 & H2 & H3). apply spec_ret. split; [exact H1|].
      split; [apply at_boundary_endpos, H2 | intros e' [= <-]; exact H3].
  - eapply spec_bind; [apply get_message_spec | |]; cbv beta.
    + intros e q (H1 & H2 & H3). unfold entry_err. split; [exact H1|]. split; [exact H2|].
      destruct H3 as [H3 | H3]; [left; exact H3 | right]. exists b. split; [exact Hb|].
      unfold alpha_at in H3. rewrite Hb in H3. unfold entry_char. rewrite H3, H35, H45. reflexivity.
    + intros e q (H1 & H2 & H3). apply spec_ret. split; [exact H1|].
      split; [apply at_boundary_endpos, H2 | intros e' [= <-]; exact H3].
Qed.

End Ends.

(* ------------------------------------------------------------------------------------------ *)
(* 5. recover; 6. the entry loops and the final theorems                                       *)
(* ------------------------------------------------------------------------------------------ *)
Section Recover.
Variable bs : bytes.
Notation len := (length bs).

Definition entry_line_start (b : nat) : Prop :=
  0 < b /\ nth_error bs (b - 1) = Some 10%N /\
  exists c, nth_error bs b = Some c /\ entry_char c = true.

Definition junk_ok (content : bytes) (e : perror) (a b : nat) : Prop :=
  slice bs a b = Done content /\
  a < b <= len /\
  line_start bs a /\
  (b = len \/ entry_line_start b) /\
  a <= pos_start e <= b.

Lemma slice_done_le a b c : slice bs a b = Done c -> a <= b /\ b <= len.
Proof.
  unfold slice. destruct (Nat.leb a b) eqn:H1; [|discriminate].
  destruct (Nat.leb b len) eqn:H2; [|discriminate]. intros _. lia.
Qed.

Lemma scan_ge k : forall p, p <= scan_entry_start bs k p.
Proof.
  induction k as [|k IH]; intros p; cbn [scan_entry_start]; [lia|].
  destruct (byte_at bs p); [|lia].
  destruct (_ && _)%bool; [lia|]. specialize (IH (S p)). lia.
Qed.

Definition scan_hit (r : nat) : Prop :=
  byte_at bs r = None \/
  exists c, byte_at bs r = Some c /\ (Nat.eqb r 0 || is_byte_at bs c_lf (r - 1))%bool = true /\ entry_char c = true.

Lemma scan_stop k : forall p, S len <= k + p -> scan_hit (scan_entry_start bs k p).
Proof.
  induction k as [|k IH]; intros p Hk; cbn [scan_entry_start].
  - left. apply byte_at_none. lia.
  - destruct (byte_at bs p) as [c|] eqn:Hc; [|left; exact Hc].
    destruct ((Nat.eqb p 0 || is_byte_at bs c_lf (p - 1)) &&
              (is_ascii_alphabetic c || N.eqb c 45 || N.eqb c 35))%bool eqn:Hcond.
    + apply andb_prop in Hcond as [H1 H2]. right. exists c. split; [exact Hc|]. split; [exact H1 | exact H2].
    + apply IH. lia.
Qed.

Lemma scan_skip k p c :
  byte_at bs p = Some c -> entry_char c = false -> S p <= scan_entry_start bs (S k) p.
Proof.
  intros Hc He. cbn [scan_entry_start]. rewrite Hc. unfold entry_char in He. rewrite He.
  rewrite Bool.andb_false_r. apply scan_ge.
Qed.

Lemma sp_skip_to a q :
  a <= q -> a < len ->
  spec (skip_to_next_entry_start bs a) q
       (fun rew b =>
          scan_hit b /\
          match rew with
          | Some le => a < le /\ le <= b
          | None => q <= b /\ (q = a -> forall c, byte_at bs a = Some c -> entry_char c = false -> a < b)
          end) EF.
Proof.
  intros Haq Hlen. unfold spec, skip_to_next_entry_start. cbv zeta.
  destruct (Nat.leb a (Nat.min q (length_ bs))); [|exact Logic.I].
  destruct (rposition_lf _ 0 None) as [pos|].
  - destruct (Nat.ltb 0 pos) eqn:Hpos.
    + split; [apply scan_stop; unfold length_; lia|]. split; [lia | apply scan_ge].
    + split; [apply scan_stop; unfold length_; lia|]. split; [apply scan_ge|].
      intros -> c Hc He. assert (Hk : S (length_ bs) - a = S (length_ bs - a)) by (unfold length_; lia). rewrite Hk.
      pose proof (scan_skip (length_ bs - a) a c Hc He). lia.
  - split; [apply scan_stop; unfold length_; lia|]. split; [apply scan_ge|].
    intros -> c Hc He. assert (Hk : S (length_ bs) - a = S (length_ bs - a)) by (unfold length_; lia). rewrite Hk.
    pose proof (scan_skip (length_ bs - a) a c Hc He). lia.
Qed.

Lemma recover_spec a err q :
  a < len -> line_start bs a -> entry_err bs a err q ->
  spec (recover bs a err) q
       (fun ej q' => exists content,
            snd ej = Junk content /\ eslice (fst ej) = Some (a, q') /\ junk_ok content (fst ej) a q') EF.
Proof.
  intros Hlen Hls He. pose proof He as He'. unfold entry_err in He'. destruct He' as (He1 & He2 & _).
  unfold recover.
  eapply spec_bind; [apply sp_skip_to; lia | intros ? ? [] |]; cbv beta.
  intros rew b [Hhit Hrew]. sp_step. sp_step. apply spec_ret. cbn [fst snd eslice pos_start].
  match goal with H : slice bs a b = Done ?c |- _ => exists c; rename H into Hsl end.
  split; [reflexivity|]. split; [reflexivity|].
  pose proof (slice_done_le _ _ _ Hsl) as [_ Hble].
  assert (Hab : a < b).
  { destruct rew as [le|]; [lia|]. destruct Hrew as [Hqb Hprog].
    unfold entry_err in He. destruct He as (_ & _ & [He3 | (c & Hc & Hec)]); [lia|].
    destruct (Nat.eq_dec q a) as [Heq | Hne]; [exact (Hprog Heq c Hc Hec) | lia]. }
  unfold junk_ok. split; [exact Hsl|]. split; [lia|]. split; [exact Hls|]. split.
  - destruct Hhit as [Hn | (c & Hc & Hnl & Hec)].
    + left. apply byte_at_none in Hn. lia.
    + right. unfold entry_line_start. split; [lia|]. split.
      * destruct (Nat.eqb b 0) eqn:Hb0; [apply Nat.eqb_eq in Hb0; lia|].
        cbn [orb] in Hnl. apply is_byte_at_true in Hnl. exact Hnl.
      * exists c. split; [exact Hc | exact Hec].
  - cbn [pos_start]. destruct rew as [le|]; [|lia].
    destruct (Nat.ltb le (pos_start err)) eqn:Hlt; cbn [pos_start]; lia.
Qed.

End Recover.

Section Loops.
Variable bs : bytes.
Notation len := (length bs).

Fixpoint junks (body : list entry) : list bytes :=
  match body with
  | [] => []
  | Junk c :: r => c :: junks r
  | _ :: r => junks r
  end.

Lemma junks_app a b : junks (a ++ b) = junks a ++ junks b.
Proof. induction a as [|x a IH]; [reflexivity|]. destruct x; cbn [junks app]; rewrite IH; reflexivity. Qed.

Lemma junks_rev_cons x body : is_junk x = false -> junks (rev (x :: body)) = junks (rev body).
Proof.
  intros Hx. cbn [rev]. rewrite junks_app. destruct x; try discriminate; cbn [junks]; apply app_nil_r.
Qed.

Lemma junks_rev_junk c body : junks (rev (Junk c :: body)) = junks (rev body) ++ [c].
Proof. cbn [rev]. rewrite junks_app. reflexivity. Qed.

(* Junk contents and errors in source order: every range starts at or after `lo`, ranges are
   consecutive-disjoint, and all of them end at or before `hi`. *)
Inductive chain : nat -> nat -> list bytes -> list perror -> Prop :=
| ch_nil lo hi : lo <= hi -> chain lo hi [] []
| ch_cons lo hi c e a b cs es :
    eslice e = Some (a, b) -> lo <= a -> junk_ok bs c e a b -> chain b hi cs es ->
    chain lo hi (c :: cs) (e :: es).

Lemma chain_hi lo hi cs es hi' : chain lo hi cs es -> hi <= hi' -> chain lo hi' cs es.
Proof.
  intros H. revert hi'. induction H as [lo hi Hle | lo hi c e a b cs es Hs Hlo Hok _ IH]; intros hi' Hhi.
  - apply ch_nil. lia.
  - eapply ch_cons; eauto.
Qed.

Lemma chain_snoc lo hi cs es c e a b :
  chain lo hi cs es -> hi <= a -> eslice e = Some (a, b) -> junk_ok bs c e a b ->
  chain lo b (cs ++ [c]) (es ++ [e]).
Proof.
  intros H. induction H as [lo hi Hle | lo hi c' e' a' b' cs es Hs Hlo Hok _ IH]; intros Hhi He Hj.
  - cbn [app]. eapply ch_cons; [exact He | lia | exact Hj |]. apply ch_nil. lia.
  - cbn [app]. eapply ch_cons; [exact Hs | exact Hlo | exact Hok |]. apply IH; assumption.
Qed.

(* ---- which entries are admitted ---- *)
Definition admitted (x : entry) : Prop :=
  exists n p q e, get_entry bs n p p = Ok e q /\ (x = e \/ exists c, x = attach e c).
Definition adm (x : entry) : Prop := is_junk x = true \/ admitted x.

Definition loop_post : (list entry * list perror) -> nat -> Prop :=
  fun r _ => (exists hi, chain 0 hi (junks (fst r)) (snd r)) /\ Forall adm (fst r).

Lemma line_start_of_boundary p : p < len -> at_boundary bs p -> line_start bs p.
Proof. intros H [H1 | H1]; [lia | exact H1]. Qed.

Lemma parse_loop_inv n : forall body errors lc cnt p,
  at_boundary bs p ->
  chain 0 p (junks (rev body)) (rev errors) ->
  Forall adm body ->
  (forall c, lc = Some c -> admitted (CommentEntry c)) ->
  spec (parse_loop bs n body errors lc cnt) p loop_post EF.
Proof.
  induction n as [|n IH]; intros body errors lc cnt p Hp Hch Hadm Hlc; [exact Logic.I|].
  cbn [parse_loop]. sp_step. sp_step.
  { apply spec_ret. unfold loop_post. cbn [fst snd]. destruct lc as [c|].
    - rewrite junks_rev_cons by reflexivity. split; [eauto|]. apply Forall_rev. constructor; [|exact Hadm].
      right. destruct (Hlc c eq_refl) as (n0 & p0 & q0 & e0 & H1 & H2). exists n0, p0, q0, e0. auto.
    - split; [eauto | apply Forall_rev, Hadm]. }
  assert (Hlt : p < len) by (unfold length_ in *; lia).
  assert (Htail : forall body' errors' lc' q,
             endpos bs q -> chain 0 q (junks (rev body')) (rev errors') -> Forall adm body' ->
             (forall c, lc' = Some c -> admitted (CommentEntry c)) ->
             spec (cnt <- skip_blank_block bs ;; parse_loop bs n body' errors' lc' cnt) q loop_post EF).
  { intros body' errors' lc' q Hq Hch' Hadm' Hlc'.
    eapply spec_bind; [apply sp_skip_blank_block_boundary; exact Hq | intros ? ? [] |]; cbv beta.
    intros cnt' q' [Hle Hb]. apply IH; try assumption. eapply chain_hi; [exact Hch' | exact Hle]. }
  eapply spec_bind;
    [ apply spec_try; exact (spec_conj _ _ _ _ _ _ (spec_self _ _) (get_entry_spec bs n p Hlt Hp))
    | intros ? ? [] | ]; cbv beta.
  intros r q Hr.
  assert (Hc_adm : forall c, lc = Some c -> Forall adm (CommentEntry c :: body)).
  { intros c Hc. constructor; [right; exact (Hlc c Hc) | exact Hadm]. }
  match goal with |- spec (let '(r0, body0) := ?X in _) _ _ _ =>
    assert (HX : Forall adm (snd X) /\ junks (rev (snd X)) = junks (rev body) /\
                 match fst X with
                 | inl err => entry_err bs p err q
                 | inr e' => admitted e' /\ is_junk e' = false /\ p <= q /\ endpos bs q
                 end);
    [ | destruct X as [rr bb] ]
  end.
  { destruct lc as [c|]; destruct r as [err|e].
    - cbn [fst snd]. split; [apply Hc_adm; reflexivity|]. split; [apply junks_rev_cons; reflexivity | tauto].
    - destruct Hr as (Heq & Hle & Hend & Hj).
      assert (Ha : admitted e) by (exists n, p, q, e; auto).
      assert (Ha' : admitted (attach e c)) by (exists n, p, q, e; eauto).
      destruct e; try destruct (Nat.ltb cnt 2); cbn [fst snd];
        (split; [first [exact Hadm | apply Hc_adm; reflexivity]|]);
        (split; [first [reflexivity | apply junks_rev_cons; reflexivity]|]);
        (split; [first [exact Ha | exact Ha']|]); (split; [first [exact Hj | reflexivity]|]); tauto.
    - cbn [fst snd]. split; [exact Hadm|]. split; [reflexivity | tauto].
    - destruct Hr as (Heq & Hle & Hend & Hj). cbn [fst snd]. split; [exact Hadm|]. split; [reflexivity|].
      split; [exists n, p, q, e; auto | tauto]. }
  cbn [fst snd] in HX. destruct HX as (Hadm0 & Hj0 & Hr0).
  destruct rr as [err|e'].
  - (* junk *)
    apply spec_bind_assoc.
    eapply spec_bind; [apply recover_spec; [exact Hlt | apply line_start_of_boundary; assumption | exact Hr0]
                      | intros ? ? [] |]; cbv beta.
    intros [e1 j] b (content & Hsnd & Hsl & Hok). cbn [fst snd] in *. subst j.
    apply spec_ret_bind. apply Htail.
    + destruct Hok as (_ & _ & _ & [Hb | (_ & Hb & _)] & _); [left; lia | right; left; right; exact Hb].
    + rewrite junks_rev_junk, Hj0. cbn [rev]. eapply chain_snoc; [exact Hch | | exact Hsl | exact Hok]; lia.
    + constructor; [left; reflexivity | exact Hadm0].
    + discriminate.
  - destruct Hr0 as (Ha & Hj & Hle & Hend).
    destruct e'; try discriminate; apply spec_ret_bind; apply Htail; try assumption;
      try discriminate;
      try (rewrite junks_rev_cons by reflexivity; rewrite Hj0; exact (chain_hi _ _ _ _ _ Hch Hle));
      try (constructor; [right; exact Ha | exact Hadm0]).
    + rewrite Hj0. exact (chain_hi _ _ _ _ _ Hch Hle).
    + intros c' [= <-]. exact Ha.
Qed.

Definition admitted_rt (x : entry) : Prop :=
  exists n p q, get_entry_runtime bs n p p = Ok (Some x) q.
Definition adm_rt (x : entry) : Prop := is_junk x = true \/ admitted_rt x.

Definition loop_post_rt : (list entry * list perror) -> nat -> Prop :=
  fun r _ => (exists hi, chain 0 hi (junks (fst r)) (snd r)) /\ Forall adm_rt (fst r).

Lemma parse_runtime_loop_inv n : forall body errors p,
  at_boundary bs p ->
  chain 0 p (junks (rev body)) (rev errors) ->
  Forall adm_rt body ->
  spec (parse_runtime_loop bs n body errors) p loop_post_rt EF.
Proof.
  induction n as [|n IH]; intros body errors p Hp Hch Hadm; [exact Logic.I|].
  cbn [parse_runtime_loop]. sp_step. sp_step.
  { apply spec_ret. unfold loop_post_rt. cbn [fst snd]. split; [eauto | apply Forall_rev, Hadm]. }
  assert (Hlt : p < len) by (unfold length_ in *; lia).
  assert (Htail : forall body' errors' q,
             endpos bs q -> chain 0 q (junks (rev body')) (rev errors') -> Forall adm_rt body' ->
             spec (skip_blank_block bs ;;; parse_runtime_loop bs n body' errors') q loop_post_rt EF).
  { intros body' errors' q Hq Hch' Hadm'.
    eapply spec_bind; [apply sp_skip_blank_block_boundary; exact Hq | intros ? ? [] |]; cbv beta.
    intros cnt' q' [Hle Hb]. apply IH; try assumption. eapply chain_hi; [exact Hch' | exact Hle]. }
  eapply spec_bind;
    [ apply spec_try; exact (spec_conj _ _ _ _ _ _ (spec_self _ _) (get_entry_runtime_spec bs n p Hlt))
    | intros ? ? [] | ]; cbv beta.
  intros r q Hr. destruct r as [err | [e|]].
  - destruct Hr as [_ Hr]. apply spec_bind_assoc.
    eapply spec_bind; [apply recover_spec; [exact Hlt | apply line_start_of_boundary; assumption | exact Hr]
                      | intros ? ? [] |]; cbv beta.
    intros [e1 j] b (content & Hsnd & Hsl & Hok). cbn [fst snd] in *. subst j.
    apply spec_ret_bind. apply Htail.
    + destruct Hok as (_ & _ & _ & [Hb | (_ & Hb & _)] & _); [left; lia | right; left; right; exact Hb].
    + rewrite junks_rev_junk. cbn [rev]. eapply chain_snoc; [exact Hch | | exact Hsl | exact Hok]; lia.
    + constructor; [left; reflexivity | exact Hadm].
  - destruct Hr as (Heq & Hle & Hend & Hj). apply spec_ret_bind. apply Htail; [exact Hend | |].
    + rewrite junks_rev_cons by (apply Hj; reflexivity). exact (chain_hi _ _ _ _ _ Hch Hle).
    + constructor; [right; exists n, p, q; exact Heq | exact Hadm].
  - destruct Hr as (Heq & Hle & Hend & Hj). apply spec_ret_bind. apply Htail; [exact Hend | | exact Hadm].
    exact (chain_hi _ _ _ _ _ Hch Hle).
Qed.

Lemma endpos_0 : endpos bs 0.
Proof. right. left. left. reflexivity. Qed.

Lemma parse_m_spec n : spec (parse_m bs n) 0 loop_post EF.
Proof.
  unfold parse_m.
  eapply spec_bind; [apply sp_skip_blank_block_boundary, endpos_0 | intros ? ? [] |]; cbv beta.
  intros _ q [Hle Hb]. apply parse_loop_inv; [exact Hb | apply ch_nil; lia | constructor | discriminate].
Qed.

Lemma parse_runtime_m_spec n : spec (parse_runtime_m bs n) 0 loop_post_rt EF.
Proof.
  unfold parse_runtime_m.
  eapply spec_bind; [apply sp_skip_blank_block_boundary, endpos_0 | intros ? ? [] |]; cbv beta.
  intros _ q [Hle Hb]. apply parse_runtime_loop_inv; [exact Hb | apply ch_nil; lia | constructor].
Qed.

(* ---- consequences of a chain ---- *)
Definition junk_matches (content : bytes) (e : perror) : Prop :=
  exists a b, eslice e = Some (a, b) /\ junk_ok bs content e a b.

Definition ranges_ordered (errs : list perror) : Prop :=
  forall i j ei ej ai bi aj bj,
    i < j -> nth_error errs i = Some ei -> nth_error errs j = Some ej ->
    eslice ei = Some (ai, bi) -> eslice ej = Some (aj, bj) -> bi <= aj.

Lemma chain_forall2 lo hi cs es : chain lo hi cs es -> Forall2 junk_matches cs es.
Proof.
  induction 1 as [| lo hi c e a b cs es Hs Hlo Hok _ IH]; constructor; [|exact IH].
  exists a, b. split; [exact Hs | exact Hok].
Qed.

Lemma chain_lb lo hi cs es : chain lo hi cs es ->
  forall j e a b, nth_error es j = Some e -> eslice e = Some (a, b) -> lo <= a.
Proof.
  induction 1 as [| lo hi c e a b cs es Hs Hlo Hok _ IH]; intros j e' a' b' Hn He.
  - destruct j; discriminate.
  - destruct j as [|j]; cbn [nth_error] in Hn.
    + injection Hn as <-. rewrite Hs in He. injection He as <- <-. exact Hlo.
    + specialize (IH j e' a' b' Hn He). destruct Hok as (_ & Hab & _). lia.
Qed.

Lemma chain_ordered lo hi cs es : chain lo hi cs es -> ranges_ordered es.
Proof.
  induction 1 as [| lo hi c e a b cs es Hs Hlo Hok Hch IH]; intros i j ei ej ai bi aj bj Hij Hi Hj Hei Hej.
  - destruct i; discriminate.
  - destruct j as [|j]; [lia|]. cbn [nth_error] in Hj. destruct i as [|i]; cbn [nth_error] in Hi.
    + injection Hi as <-. rewrite Hs in Hei. injection Hei as <- <-.
      exact (chain_lb _ _ _ _ Hch j ej aj bj Hj Hej).
    + apply (IH i j ei ej ai bi aj bj); [lia | assumption..].
Qed.

Lemma forall2_nil_iff {A B} (R : A -> B -> Prop) l1 l2 : Forall2 R l1 l2 -> (l2 = [] <-> l1 = []).
Proof. intros H. destruct H; split; intros; try reflexivity; discriminate. Qed.

End Loops.

(* ---- the entry points ---- *)
Lemma parse_chain bs body errs :
  parse bs = Done (body, errs) ->
  (exists hi, chain bs 0 hi (junks body) errs) /\ Forall (adm bs) body.
Proof.
  unfold parse. pose proof (parse_m_spec bs (fuel_for bs)) as H. unfold spec in H.
  destruct (parse_m bs (fuel_for bs) 0) as [r q| | |]; cbn [to_outcome]; try discriminate.
  intros [= ->]. exact H.
Qed.

Lemma parse_runtime_chain bs body errs :
  parse_runtime bs = Done (body, errs) ->
  (exists hi, chain bs 0 hi (junks body) errs) /\ Forall (adm_rt bs) body.
Proof.
  unfold parse_runtime. pose proof (parse_runtime_m_spec bs (fuel_for bs)) as H. unfold spec in H.
  destruct (parse_runtime_m bs (fuel_for bs) 0) as [r q| | |]; cbn [to_outcome]; try discriminate.
  intros [= ->]. exact H.
Qed.

Theorem parse_accounting bs body errs :
  parse bs = Done (body, errs) -> Forall2 (junk_matches bs) (junks body) errs.
Proof. intros H. destruct (parse_chain _ _ _ H) as [[hi Hc] _]. exact (chain_forall2 _ _ _ _ _ Hc). Qed.

Theorem parse_ok_iff_no_junk bs body errs :
  parse bs = Done (body, errs) -> (errs = [] <-> junks body = []).
Proof. intros H. exact (forall2_nil_iff _ _ _ (parse_accounting _ _ _ H)). Qed.

Theorem parse_order bs body errs : parse bs = Done (body, errs) -> ranges_ordered errs.
Proof. intros H. destruct (parse_chain _ _ _ H) as [[hi Hc] _]. exact (chain_ordered _ _ _ _ _ Hc). Qed.

Theorem parse_admitted bs body errs :
  parse bs = Done (body, errs) -> Forall (fun x => is_junk x = true \/ admitted bs x) body.
Proof. intros H. exact (proj2 (parse_chain _ _ _ H)). Qed.

Theorem parse_runtime_accounting bs body errs :
  parse_runtime bs = Done (body, errs) -> Forall2 (junk_matches bs) (junks body) errs.
Proof. intros H. destruct (parse_runtime_chain _ _ _ H) as [[hi Hc] _]. exact (chain_forall2 _ _ _ _ _ Hc). Qed.

Theorem parse_runtime_ok_iff_no_junk bs body errs :
  parse_runtime bs = Done (body, errs) -> (errs = [] <-> junks body = []).
Proof. intros H. exact (forall2_nil_iff _ _ _ (parse_runtime_accounting _ _ _ H)). Qed.

Theorem parse_runtime_order bs body errs : parse_runtime bs = Done (body, errs) -> ranges_ordered errs.
Proof. intros H. destruct (parse_runtime_chain _ _ _ H) as [[hi Hc] _]. exact (chain_ordered _ _ _ _ _ Hc). Qed.

Theorem parse_runtime_admitted bs body errs :
  parse_runtime bs = Done (body, errs) -> Forall (fun x => is_junk x = true \/ admitted_rt bs x) body.
Proof. intros H. exact (proj2 (parse_runtime_chain _ _ _ H)). Qed.

(* Syntax/CallArgs.v — the parser on call arguments: function references, term references with arguments
   (property C02, step 4).
     1. simple inline expressions in front of a delimiter  , ) : }
     2. the layout of call arguments; args_loop; get_call_arguments
     3. get_inline_expression on a function reference / a term reference with arguments
     4. the inline expressions of a placeable (binline, layouts itext) and of a selector (bsel, layouts
        seltext): parser, render, join, well-formedness
   Positional arguments are simple inline expressions (ParseLemmas.simple_inline), named arguments have a
   literal as value: arguments that are calls or placeables themselves are not covered.                  *)
From FluentV Require Import Base.Bytes Base.Outcome Base.Utf8 Base.Utf8Facts.
From FluentV Require Import Syntax.Ast Syntax.ParserModel Syntax.Render Syntax.TreeNorm Syntax.ParseLemmas Syntax.RoundTrip.
From Coq Require Import Lia ZifyBool ZifyNat ZifyN.

Arguments N.add : simpl never.
Arguments N.sub : simpl never.
Arguments N.eqb : simpl never.
Arguments N.ltb : simpl never.
Arguments N.leb : simpl never.

(* ---------------------------------------------------------------------------------------------- *)
(* 1. Simple inline expressions in front of a delimiter                                             *)

Definition delim (c : N) : Prop := c = 44%N \/ c = 41%N \/ c = 58%N \/ c = 125%N.

Lemma all_blank_head_delim b2 c rest : all_blank b2 -> delim c ->
  head_not is_ident_char (b2 ++ c :: rest) /\ starts_char (b2 ++ c :: rest) = true /\
  head_not (fun x => N.eqb x 46) (b2 ++ c :: rest) /\ head_not not_digit_or_dot (b2 ++ c :: rest) /\
  head_not (fun x => N.eqb x 40) (b2 ++ c :: rest).
Proof.
  unfold all_blank. intros H Hc. destruct b2 as [|b r]; [destruct Hc as [-> | [-> | [-> | ->]]]; repeat split; reflexivity|].
  cbn [app]. rewrite blank_len_cons in H. cbn [length] in H.
  destruct (N.eqb b c_sp || N.eqb b c_lf) eqn:E1.
  - apply orb_prop in E1. unfold c_sp, c_lf in E1.
    assert (Hb : b = 32%N \/ b = 10%N) by (destruct E1 as [E | E]; apply N.eqb_eq in E; auto).
    destruct Hb as [-> | ->]; repeat split; reflexivity.
  - destruct (N.eqb b c_cr) eqn:E2; [|discriminate]. apply N.eqb_eq in E2. unfold c_cr in E2. subst b.
    repeat split; reflexivity.
Qed.

Lemma no_blank_head_delim c rest : delim c -> no_blank_head (c :: rest).
Proof. intros [-> | [-> | [-> | ->]]]; reflexivity. Qed.

Lemma get_call_arguments_none_d bs b2 c rest p n :
  all_blank b2 -> delim c -> at_ bs p (b2 ++ c :: rest) -> 1 <= n ->
  get_call_arguments bs n p = Ok None (length b2 + p).
Proof.
  intros Hb Hc H Hn. destruct n as [|n]; [lia|]. cbn [get_call_arguments].
  step (skip_blank_blank bs p b2 _ H Hb (no_blank_head_delim c rest Hc)).
  step (take_byte_if_no bs _ 40 _ (at_app _ _ _ _ H) ltac:(destruct Hc as [-> | [-> | [-> | ->]]]; reflexivity)). reflexivity.
Qed.

Lemma get_inline_simple_d bs i b2 c rest p n :
  simple_inline i = true -> all_blank b2 -> delim c -> at_ bs p (inline_text i ++ b2 ++ c :: rest) ->
  length (inline_text i) + 2 <= n ->
  get_inline_expression bs n false p =
  Ok i (length (inline_text i) + (if inline_eats_blank i then length b2 else 0) + p).
Proof.
  intros Hi Hb2 Hc H Hn.
  destruct (all_blank_head_delim b2 c rest Hb2 Hc) as (Hh1 & Hh2 & Hh3 & Hh4 & Hh5).
  destruct i as [s | v | id args | id att | id att args | id | e]; cbn [simple_inline inline_text inline_eats_blank] in *;
    try discriminate Hi.
  - (* StringLiteral *)
    apply andb_prop in Hi as [Hwf Hsc].
    assert (H' : at_ bs p (34%N :: s ++ 34%N :: b2 ++ c :: rest)).
    { cbn [app] in H. rewrite <- app_assoc in H. exact H. }
    rewrite (get_inline_expression_string bs p s _ n false H' Hwf Hsc
               ltac:(cbn [length] in Hn; rewrite app_length in Hn; cbn [length] in Hn; lia)).
    f_equal. cbn [length]. rewrite app_length. cbn [length]. lia.
  - (* NumberLiteral *)
    destruct n as [|n]; [lia|].
    pose proof (wf_number_shape v Hi) as Hshape.
    assert (Hnum : get_number_literal bs p = Ok v (length v + p))
      by (apply (get_number_literal_shape bs p v _ H Hshape Hh4 Hh2)).
    cbn [get_inline_expression]. rewrite bind_current_byte.
    destruct Hshape as [neg ip f Hi1 Hi2 Hf].
    destruct ip as [|d ip]; [congruence|]. cbn [forallb] in Hi2. apply andb_prop in Hi2 as [Hd _].
    destruct neg.
    + assert (H0 : at_ bs p (45%N :: d :: ip ++ match f with Some fd => 46%N :: fd | None => [] end ++ b2 ++ c :: rest)).
      { cbn [app] in H. rewrite <- !app_assoc in H. exact H. }
      rewrite (at_byte _ _ _ _ H0). change (N.eqb 45 34) with false. change (is_ascii_digit 45) with false.
      change (N.eqb 45 45 && negb false) with true. cbv iota.
      rewrite bind_advance. change (1 + p) with (S p).
      step (is_identifier_start_at bs _ d _ (at_cons _ _ _ _ H0)).
      replace (is_ascii_alphabetic d) with false
        by (unfold is_ascii_digit, is_ascii_alphabetic, in_rng in *; lia).
      rewrite (bind_ok (retreat 1) _ (S p) tt p) by (unfold retreat; cbn [Nat.leb]; f_equal; lia).
      step Hnum. unfold ret. f_equal. lia.
    + assert (H0 : at_ bs p (d :: ip ++ match f with Some fd => 46%N :: fd | None => [] end ++ b2 ++ c :: rest)).
      { cbn [app] in H. rewrite <- !app_assoc in H. exact H. }
      rewrite (at_byte _ _ _ _ H0).
      replace (N.eqb d 34) with false by (unfold is_ascii_digit, in_rng in Hd; lia).
      rewrite Hd. step Hnum. unfold ret. f_equal. lia.
  - (* MessageReference *)
    destruct n as [|[|n]]; [lia | cbn [length] in Hn; destruct id; cbn [length] in Hn; lia |].
    assert (Hid : wf_identifier id = true) by (destruct att; [apply andb_prop in Hi as [Hi _]|]; exact Hi).
    destruct (id) as [|b r] eqn:Eid; [discriminate|].
    cbn [wf_identifier] in Hid. apply andb_prop in Hid as [Hb Hr]. rewrite is_alpha_eq in Hb.
    cbn [get_inline_expression]. rewrite bind_current_byte.
    assert (H0 : at_ bs p (b :: r ++ match att with Some x => 46%N :: x | None => [] end ++ b2 ++ c :: rest)).
    { cbn [app] in H. rewrite <- !app_assoc in H. exact H. }
    rewrite (at_byte _ _ _ _ H0).
    replace (N.eqb b 34) with false by (unfold is_ascii_alphabetic, in_rng in Hb; lia).
    replace (is_ascii_digit b) with false by (unfold is_ascii_digit, is_ascii_alphabetic, in_rng in *; lia).
    replace (N.eqb b 45) with false by (unfold is_ascii_alphabetic, in_rng in Hb; lia).
    replace (N.eqb b 36) with false by (unfold is_ascii_alphabetic, in_rng in Hb; lia).
    cbn [andb]. rewrite Hb. cbn [andb negb]. rewrite bind_advance. change (1 + p) with (S p).
    destruct att as [a|].
    + apply andb_prop in Hi as [_ Ha].
      assert (H0' : at_ bs p ((b :: r) ++ 46%N :: a ++ b2 ++ c :: rest)).
      { cbn [app] in H0 |- *. exact H0. }
      assert (Hidu : get_identifier_unchecked bs (S p) = Ok (b :: r) (length (b :: r) + p)).
      { exact (get_identifier_unchecked_ok bs p b r (46%N :: a ++ b2 ++ c :: rest) H0' (alpha_not_cont _ Hb) Hr
                 eq_refl eq_refl). }
      step Hidu.
      assert (H1 : at_ bs (length (b :: r) + p) (46%N :: a ++ b2 ++ c :: rest)) by apply (at_app _ _ _ _ H0').
      assert (Hca : get_call_arguments bs (S n) (length (b :: r) + p) = Ok None (length (b :: r) + p)).
      { cbn [get_call_arguments].
        step (skip_blank_none bs _ _ H1 ltac:(reflexivity)).
        step (take_byte_if_no bs _ 40 _ H1 eq_refl). reflexivity. }
      step Hca. unfold get_attribute_accessor.
      rewrite bind_assoc. step (take_byte_if_yes bs _ 46 _ H1).
      rewrite bind_assoc. step (get_identifier_ok bs _ a _ (at_cons _ _ _ _ H1) Ha Hh1 Hh2). rewrite !bind_ret.
      unfold ret. f_equal. rewrite !app_length. cbn [length]. lia.
    + assert (Hidu : get_identifier_unchecked bs (S p) = Ok (b :: r) (length (b :: r) + p)).
      { exact (get_identifier_unchecked_ok bs p b r (b2 ++ c :: rest) H0 (alpha_not_cont _ Hb) Hr Hh1 Hh2). }
      step Hidu.
      assert (H1 : at_ bs (length (b :: r) + p) (b2 ++ c :: rest)).
      { cbn [app] in H0. apply (at_app bs p (b :: r) _ H0). }
      step (get_call_arguments_none_d bs b2 c rest _ (S n) Hb2 Hc H1 ltac:(lia)).
      pose proof (at_app _ _ _ _ H1) as H2.
      unfold get_attribute_accessor.
      rewrite bind_assoc. step (take_byte_if_no bs _ 46 _ H2 ltac:(destruct Hc as [-> | [-> | [-> | ->]]]; reflexivity)). rewrite !bind_ret.
      unfold ret. f_equal. rewrite app_nil_r. lia.
  - (* TermReference id None None *)
    destruct n as [|[|n]]; [lia | cbn [length] in Hn; lia |].
    destruct att; [discriminate|]. destruct args; [discriminate|].
    destruct (id) as [|b r] eqn:Eid; [discriminate|].
    cbn [wf_identifier] in Hi. apply andb_prop in Hi as [Hb Hr]. rewrite is_alpha_eq in Hb.
    cbn [get_inline_expression]. rewrite bind_current_byte.
    assert (H0 : at_ bs p (45%N :: b :: r ++ b2 ++ c :: rest)).
    { cbn [app] in H. exact H. }
    rewrite (at_byte _ _ _ _ H0). change (N.eqb 45 34) with false. change (is_ascii_digit 45) with false.
    change (N.eqb 45 45 && negb false) with true. cbv iota.
    rewrite bind_advance. change (1 + p) with (S p).
    step (is_identifier_start_at bs _ b _ (at_cons _ _ _ _ H0)).
    rewrite Hb. rewrite bind_advance. change (1 + S p) with (S (S p)).
    assert (Hidu : get_identifier_unchecked bs (S (S p)) = Ok (b :: r) (length (b :: r) + S p)).
    { exact (get_identifier_unchecked_ok bs (S p) b r (b2 ++ c :: rest) (at_cons _ _ _ _ H0)
               (alpha_not_cont _ Hb) Hr Hh1 Hh2). }
    step Hidu.
    assert (H1 : at_ bs (length (b :: r) + S p) (b2 ++ c :: rest)).
    { apply (at_app bs (S p) (b :: r) _ (at_cons _ _ _ _ H0)). }
    unfold get_attribute_accessor.
    rewrite bind_assoc. step (take_byte_if_no bs _ 46 _ H1 Hh3). rewrite bind_ret.
    step (get_call_arguments_none_d bs b2 c rest _ (S n) Hb2 Hc H1 ltac:(lia)).
    unfold ret. f_equal. cbn [length]. lia.
  - (* VariableReference *)
    destruct n as [|n]; [lia|].
    cbn [get_inline_expression]. rewrite bind_current_byte.
    assert (H0 : at_ bs p (36%N :: id ++ b2 ++ c :: rest)).
    { cbn [app] in H. exact H. }
    rewrite (at_byte _ _ _ _ H0). change (N.eqb 36 34) with false. change (is_ascii_digit 36) with false.
    change (N.eqb 36 45) with false. change (N.eqb 36 36 && negb false) with true. cbn [andb]. cbv iota.
    rewrite bind_advance. change (1 + p) with (S p).
    step (get_identifier_ok bs _ id _ (at_cons _ _ _ _ H0) Hi Hh1 Hh2).
    unfold ret. f_equal. cbn [length]. lia.
Qed.

(* a literal where only a literal may stand (the value of a named argument) *)
Lemma get_literal_d bs v b2 c rest p n :
  is_literal v = true -> simple_inline v = true -> all_blank b2 -> delim c ->
  at_ bs p (inline_text v ++ b2 ++ c :: rest) -> length (inline_text v) + 2 <= n ->
  get_inline_expression bs n true p = Ok v (length (inline_text v) + p).
Proof.
  intros Hl Hi Hb2 Hc H Hn.
  destruct (all_blank_head_delim b2 c rest Hb2 Hc) as (Hh1 & Hh2 & Hh3 & Hh4 & Hh5).
  destruct v as [s | v | id args | id att | id att args | id | e]; try discriminate Hl; cbn [simple_inline inline_text] in *.
  - apply andb_prop in Hi as [Hwf Hsc].
    assert (H' : at_ bs p (34%N :: s ++ 34%N :: b2 ++ c :: rest)).
    { cbn [app] in H. rewrite <- app_assoc in H. exact H. }
    rewrite (get_inline_expression_string bs p s _ n true H' Hwf Hsc
               ltac:(cbn [length] in Hn; rewrite app_length in Hn; cbn [length] in Hn; lia)).
    f_equal. cbn [length]. rewrite app_length. cbn [length]. lia.
  - destruct n as [|n]; [lia|].
    pose proof (wf_number_shape v Hi) as Hshape.
    assert (Hnum : get_number_literal bs p = Ok v (length v + p))
      by (apply (get_number_literal_shape bs p v _ H Hshape Hh4 Hh2)).
    cbn [get_inline_expression]. rewrite bind_current_byte.
    destruct Hshape as [neg ip f Hi1 Hi2 Hf].
    destruct ip as [|d ip]; [congruence|]. cbn [forallb] in Hi2. apply andb_prop in Hi2 as [Hd _].
    destruct neg.
    + assert (H0 : at_ bs p (45%N :: d :: ip ++ match f with Some fd => 46%N :: fd | None => [] end ++ b2 ++ c :: rest)).
      { cbn [app] in H. rewrite <- !app_assoc in H. exact H. }
      rewrite (at_byte _ _ _ _ H0). change (N.eqb 45 34) with false. change (is_ascii_digit 45) with false.
      change (N.eqb 45 45 && negb true) with false. change (N.eqb 45 45) with true. cbv iota.
      step Hnum. unfold ret. f_equal.
    + assert (H0 : at_ bs p (d :: ip ++ match f with Some fd => 46%N :: fd | None => [] end ++ b2 ++ c :: rest)).
      { cbn [app] in H. rewrite <- !app_assoc in H. exact H. }
      rewrite (at_byte _ _ _ _ H0).
      replace (N.eqb d 34) with false by (unfold is_ascii_digit, in_rng in Hd; lia).
      rewrite Hd. step Hnum. unfold ret. f_equal.
Qed.

(* ---------------------------------------------------------------------------------------------- *)
(* 2. The layout of call arguments                                                                  *)

(* the arguments of the fragment: positional ones are simple inline expressions, named ones have a literal *)
Definition named_ok (a : named_arg) : bool :=
  match a with NamedArgument n v => wf_identifier n && is_literal v && simple_inline v end.
Definition args_ok (ca : call_args) : bool :=
  match ca with
  | CallArguments pos named => forallb simple_inline pos && forallb named_ok named && no_dup_names named []
  end.

Inductive arg_item := APos (i : inline) | ANamed (n : bytes) (v : inline).
Definition items_of (ca : call_args) : list arg_item :=
  match ca with
  | CallArguments pos named => map APos pos ++ map (fun a => match a with NamedArgument n v => ANamed n v end) named
  end.

Inductive item_layout : arg_item -> bytes -> Prop :=
| itl_pos i : item_layout (APos i) (inline_text i)
| itl_named n v b1 b2 : all_blank b1 -> all_blank b2 -> item_layout (ANamed n v) (n ++ b1 ++ 58%N :: b2 ++ inline_text v).

(* item, blank, and a comma and a blank: always between two items, optional after the last one *)
Inductive items_layout : list arg_item -> bytes -> Prop :=
| il_nil : items_layout [] []
| il_cons x X b1 (comma : bool) b2 r R :
    item_layout x X -> all_blank b1 -> all_blank b2 -> (r <> [] -> comma = true) -> (comma = false -> b2 = []) ->
    items_layout r R ->
    items_layout (x :: r) (X ++ b1 ++ (if comma then 44%N :: b2 else []) ++ R).

(* "(" blank items ")" *)
Inductive args_layout : call_args -> bytes -> Prop :=
| argl ca b0 R : all_blank b0 -> items_layout (items_of ca) R -> args_layout ca (40%N :: b0 ++ R ++ [41%N]).

Definition named_item (a : named_arg) : arg_item := match a with NamedArgument n v => ANamed n v end.

Lemma inline_text_head i t : simple_inline i = true -> no_blank_head (inline_text i ++ t).
Proof.
  destruct i as [s | v | id args | id att | id att args | id | e]; cbn [simple_inline inline_text]; intros H;
    try discriminate H; try reflexivity.
  - pose proof (wf_number_shape v H) as [neg ip fr Hi1 Hi2 Hf]. destruct neg; [reflexivity|].
    destruct ip as [|d ip]; [congruence|]. cbn [forallb] in Hi2. apply andb_prop in Hi2 as [Hd _].
    cbn [app]. apply no_blank_head_byte; unfold is_ascii_digit, in_rng in Hd; lia.
  - assert (Hid : wf_identifier id = true) by (destruct att; [apply andb_prop in H as [H _]|]; exact H).
    destruct (wf_identifier_head id Hid) as (b & r & -> & Hb). cbn [app].
    apply no_blank_head_byte; unfold is_ascii_alphabetic, in_rng in Hb; lia.
Qed.

Lemma inline_text_len i : simple_inline i = true -> 1 <= length (inline_text i).
Proof.
  destruct i as [s | v | id args | id att | id att args | id | e]; cbn [simple_inline inline_text]; intros H;
    try discriminate H; cbn [length]; try lia.
  - pose proof (wf_number_shape v H) as [neg ip fr Hi1 Hi2 Hf]. destruct ip; [congruence|].
    rewrite !app_length. cbn [length]. lia.
  - assert (Hid : wf_identifier id = true) by (destruct att; [apply andb_prop in H as [H _]|]; exact H).
    destruct (wf_identifier_head id Hid) as (b & r & -> & Hb). cbn [app length]. lia.
Qed.

Lemma item_head x X t : item_layout x X ->
  match x with APos i => simple_inline i = true | ANamed n _ => wf_identifier n = true end -> no_blank_head (X ++ t).
Proof.
  intros [i | n v b1 b2 Hb1 Hb2] Hx.
  - apply (inline_text_head i t Hx).
  - destruct (wf_identifier_head n Hx) as (b & r & -> & Hb). cbn [app].
    apply no_blank_head_byte; unfold is_ascii_alphabetic, in_rng in Hb; lia.
Qed.

Definition item_ok (x : arg_item) : Prop :=
  match x with APos i => simple_inline i = true | ANamed n _ => wf_identifier n = true end.

Lemma items_ok ps ns : forallb simple_inline ps = true -> forallb named_ok ns = true ->
  Forall item_ok (map APos ps ++ map named_item ns).
Proof.
  intros Hps Hns. apply Forall_app. split.
  - rewrite forallb_forall in Hps. apply Forall_forall. intros x Hx. apply in_map_iff in Hx as (i & <- & Hi). apply (Hps i Hi).
  - rewrite forallb_forall in Hns. apply Forall_forall. intros x Hx. apply in_map_iff in Hx as ([n v] & <- & Ha).
    specialize (Hns _ Ha). unfold named_ok in Hns. apply andb_prop in Hns as [Hns _]. apply andb_prop in Hns as [Hid _]. exact Hid.
Qed.

Section ArgsLoop.
Variable bs : bytes.

(* the tail after an item: a comma and a blank, or nothing *)
Lemma after_item_tail (comma : bool) b2 R rest :
  all_blank b2 -> (comma = false -> b2 = [] /\ R = []) ->
  exists c t, (if comma then 44%N :: b2 else []) ++ R ++ 41%N :: rest = c :: t /\ (c = 44%N \/ c = 41%N).
Proof.
  intros Hb2 Hno. destruct comma; [exists 44%N; eexists; split; [reflexivity | left; reflexivity]|].
  destruct (Hno eq_refl) as [-> ->]. exists 41%N, rest. split; [reflexivity | right; reflexivity].
Qed.

Lemma args_loop_ok items R : items_layout items R ->
  forall ps ns pos_acc named_acc names rest p n,
  items = map APos ps ++ map named_item ns ->
  forallb simple_inline ps = true -> forallb named_ok ns = true -> no_dup_names ns names = true ->
  (names <> [] -> ps = []) ->
  at_ bs p (R ++ 41%N :: rest) -> length R + 3 <= n ->
  args_loop bs n pos_acc named_acc names p =
  Ok (CallArguments (rev pos_acc ++ ps) (rev named_acc ++ ns)) (length R + p).
Proof.
  induction 1 as [|x X b1 comma b2 r R Hx Hb1 Hb2 Hcm Hnc Hr IH];
    intros ps ns pos_acc named_acc names rest p n Eitems Hps Hns Hdup Hnames H Hn.
  - (* no item left: the closing parenthesis *)
    destruct ps; [|discriminate Eitems]. destruct ns; [|discriminate Eitems].
    destruct n as [|n]; [lia|]. cbn [args_loop app] in *. rewrite bind_get_ptr.
    rewrite (at_ltb _ _ _ _ H). cbn [negb]. rewrite (at_is_byte _ _ 41 _ H). change (N.eqb 41 41) with true. cbv iota.
    rewrite !app_nil_r. reflexivity.
  - destruct n as [|n]; [lia|].
    assert (Hokall : Forall item_ok (x :: r)) by (rewrite Eitems; apply items_ok; assumption).
    assert (Hokr : Forall item_ok r) by (inversion Hokall; assumption).
    assert (Htail : exists c t, (if comma then 44%N :: b2 else []) ++ R ++ 41%N :: rest = c :: t /\ (c = 44%N \/ c = 41%N)).
    { apply after_item_tail; [exact Hb2|]. intros Hc. split; [apply Hnc, Hc|].
      destruct r as [|y r']; [inversion Hr; reflexivity|]. rewrite (Hcm ltac:(discriminate)) in Hc. discriminate Hc. }
    destruct Htail as (c & t & Etail & Hc).
    assert (Hdelim : delim c) by (destruct Hc as [-> | ->]; [left | right; left]; reflexivity).
    assert (H' : at_ bs p (X ++ b1 ++ c :: t)).
    { rewrite <- Etail. rewrite <- !app_assoc in H. exact H. }
    assert (Hlen : length (X ++ b1 ++ (if comma then 44%N :: b2 else []) ++ R) =
                   length X + length b1 + length (if comma then 44%N :: b2 else []) + length R) by (rewrite !app_length; lia).
    rewrite Hlen in Hn |- *.
    (* the common end of the iteration: blank, optional comma, blank *)
    assert (Hend : forall q pa na nm, at_ bs q (c :: t) ->
               (skip_blank bs ;;; take_byte_if bs 44 ;;; skip_blank bs ;;; args_loop bs n pa na nm) q =
               args_loop bs n pa na nm (length (if comma then 44%N :: b2 else []) + q)).
    { intros q pa na nm Hq.
      step (skip_blank_none bs q _ Hq (no_blank_head_delim c t Hdelim)).
      destruct comma.
      - cbn [app] in Etail. injection Etail as <- <-.
        step (take_byte_if_yes bs q 44 _ Hq).
        pose proof (at_cons _ _ _ _ Hq) as Hq1.
        assert (Hnb : no_blank_head (R ++ 41%N :: rest)).
        { destruct Hr as [|y Y c1 cm c2 r' R' Hy _ _ _ _ _]; [reflexivity|]. rewrite <- !app_assoc.
          apply (item_head y Y _ Hy). inversion Hokr; assumption. }
        step (skip_blank_blank bs _ b2 _ Hq1 Hb2 Hnb). cbn [length]. f_equal. lia.
      - assert (Ec : c = 41%N).
        { destruct r as [|y r']; [|discriminate (Hcm ltac:(discriminate))].
          assert (ER : R = []) by (inversion Hr; reflexivity). rewrite ER in Etail.
          cbn [app] in Etail. injection Etail as E1 _. symmetry. exact E1. }
        rewrite Ec in Hq. step (take_byte_if_no bs q 44 _ Hq ltac:(reflexivity)).
        rewrite <- Ec in Hq.
        step (skip_blank_none bs q _ Hq (no_blank_head_delim c t Hdelim)). reflexivity. }
    cbn [args_loop]. rewrite bind_get_ptr.
    assert (Hxhead : exists b0 t0, X ++ b1 ++ c :: t = b0 :: t0 /\ N.eqb b0 41 = false).
    { destruct Hx as [i | n0 v b1' b2' _ _].
      - destruct ps as [|i0 ps']; [destruct ns as [|[? ?] ?]; discriminate Eitems|]. injection Eitems as <- _.
        cbn [forallb] in Hps. apply andb_prop in Hps as [Hi _].
        destruct i as [s | v | id args | id att | id att args | id | e]; cbn [simple_inline inline_text] in *; try discriminate Hi;
          try (eexists; eexists; split; [reflexivity | reflexivity]).
        + pose proof (wf_number_shape v Hi) as [neg ip fr Hi1 Hi2 Hf]. destruct neg; [eexists; eexists; split; reflexivity|].
          destruct ip as [|d ip]; [congruence|]. cbn [forallb] in Hi2. apply andb_prop in Hi2 as [Hd _].
          eexists; eexists; split; [reflexivity|]. unfold is_ascii_digit, in_rng in Hd. lia.
        + assert (Hid : wf_identifier id = true) by (destruct att; [apply andb_prop in Hi as [Hi _]|]; exact Hi).
          destruct (wf_identifier_head id Hid) as (b & r0 & -> & Hb). eexists; eexists; split; [reflexivity|].
          unfold is_ascii_alphabetic, in_rng in Hb. lia.
      - destruct ps as [|i0 ps']; [|discriminate Eitems]. destruct ns as [|[n1 v1] ns']; [discriminate Eitems|].
        injection Eitems as <- <- _. cbn [forallb] in Hns. apply andb_prop in Hns as [Ha _]. unfold named_ok in Ha.
        apply andb_prop in Ha as [Ha _]. apply andb_prop in Ha as [Hid _].
        destruct (wf_identifier_head n0 Hid) as (b & r0 & -> & Hb). eexists; eexists; split; [reflexivity|].
        unfold is_ascii_alphabetic, in_rng in Hb. lia. }
    destruct Hxhead as (b0 & t0 & Ehead & Hb041).
    rewrite Ehead in H'. rewrite (at_ltb _ _ _ _ H'). cbn [negb]. rewrite (at_is_byte _ _ 41 _ H'), Hb041. cbv iota.
    rewrite <- Ehead in H'. clear Ehead Hb041 b0 t0.
    destruct Hx as [i | n0 v c1 c2 Hc1 Hc2].
    + (* a positional argument *)
      destruct ps as [|i0 ps']; [destruct ns as [|[? ?] ?]; discriminate Eitems|]. injection Eitems as <- Er.
      cbn [forallb] in Hps. apply andb_prop in Hps as [Hi Hps'].
      assert (Hnm : names = []) by (destruct names; [reflexivity | discriminate (Hnames ltac:(discriminate))]). subst names.
      step (get_inline_simple_d bs i b1 c t p n Hi Hb1 Hdelim H' ltac:(lia)).
      set (q0 := length (inline_text i) + (if inline_eats_blank i then length b1 else 0) + p).
      set (q1 := length (inline_text i) + length b1 + p).
      assert (Hq1 : at_ bs q1 (c :: t)).
      { unfold q1. pose proof (at_app _ _ _ _ (at_app _ _ _ _ H')) as Hq. replace (length (inline_text i) + length b1 + p)
          with (length b1 + (length (inline_text i) + p)) by lia. exact Hq. }
      (* the classification of the expression, and the blank after it *)
      match goal with |- ?L = _ =>
        assert (Hst : L = args_loop bs n (i :: pos_acc) named_acc [] (length (if comma then 44%N :: b2 else []) + q1)) end.
      { assert (Hgen : forall q, q = q0 -> at_ bs q ((if inline_eats_blank i then [] else b1) ++ c :: t) ->
                  (skip_blank bs ;;; take_byte_if bs 44 ;;; skip_blank bs ;;; args_loop bs n (i :: pos_acc) named_acc []) q =
                  args_loop bs n (i :: pos_acc) named_acc [] (length (if comma then 44%N :: b2 else []) + q1)).
        { intros q -> Hq. rewrite <- (Hend q1 (i :: pos_acc) named_acc [] Hq1).
          assert (Hsk : skip_blank bs q0 = Ok tt q1).
          { unfold q0 in Hq |- *. unfold q1. destruct (inline_eats_blank i).
            - rewrite (skip_blank_none bs _ _ Hq (no_blank_head_delim c t Hdelim)). f_equal.
            - rewrite (skip_blank_blank bs _ b1 _ Hq Hb1 (no_blank_head_delim c t Hdelim)). f_equal. lia. }
          step Hsk. symmetry. step (skip_blank_none bs q1 _ Hq1 (no_blank_head_delim c t Hdelim)). reflexivity. }
        assert (Hq0 : at_ bs q0 ((if inline_eats_blank i then [] else b1) ++ c :: t)).
        { unfold q0. pose proof (at_app _ _ _ _ H') as Hq. destruct (inline_eats_blank i).
          - apply at_app in Hq. cbn [app]. replace (length (inline_text i) + length b1 + p) with (length b1 + (length (inline_text i) + p)) by lia.
            exact Hq.
          - rewrite Nat.add_0_r. exact Hq. }
        destruct i as [s | v | id args | id att | id att args | id | e]; try discriminate Hi; cbv iota;
          try (rewrite bind_ret; apply (Hgen q0 eq_refl Hq0)).
        destruct att as [a|]; cbv iota; [rewrite bind_ret; apply (Hgen q0 eq_refl Hq0)|].
        (* a message reference: no colon follows *)
        cbn [inline_eats_blank app] in Hq0.
        rewrite bind_assoc. step (skip_blank_none bs q0 _ Hq0 (no_blank_head_delim c t Hdelim)).
        rewrite bind_assoc. unfold is_current_byte at 1. unfold bind at 1. rewrite (at_byte _ _ _ _ Hq0).
        replace (N.eqb c 58) with false by (destruct Hc as [-> | ->]; reflexivity).
        rewrite bind_ret. apply (Hgen q0 eq_refl Hq0). }
      rewrite Hst.
      rewrite (IH ps' ns (i :: pos_acc) named_acc [] rest _ n Er Hps' Hns Hdup ltac:(congruence)).
      * cbn [rev]. rewrite <- app_assoc. cbn [app]. f_equal. unfold q1. lia.
      * unfold q1. replace (length (if comma then 44%N :: b2 else []) + (length (inline_text i) + length b1 + p))
          with (length ((inline_text i ++ b1) ++ (if comma then 44%N :: b2 else [])) + p) by (rewrite !app_length; lia).
        assert (H2 : at_ bs p (((inline_text i ++ b1) ++ (if comma then 44%N :: b2 else [])) ++ R ++ 41%N :: rest))
          by (repeat rewrite <- app_assoc in H; repeat rewrite <- app_assoc; exact H).
        apply (at_app _ _ _ _ H2).
      * pose proof (inline_text_len i Hi). lia.
    + (* a named argument *)
      destruct ps as [|i0 ps']; [|discriminate Eitems]. destruct ns as [|[n1 v1] ns']; [discriminate Eitems|].
      injection Eitems as <- <- Er. cbn [forallb] in Hns. apply andb_prop in Hns as [Ha Hns']. unfold named_ok in Ha.
      apply andb_prop in Ha as [Ha Hv]. apply andb_prop in Ha as [Hid Hlit].
      cbn [no_dup_names] in Hdup. apply andb_prop in Hdup as [Hnew Hdup']. apply negb_true_iff in Hnew.
      assert (Hname : at_ bs p (inline_text (MessageReference n0 None) ++ c1 ++ 58%N :: c2 ++ inline_text v ++ b1 ++ c :: t)).
      { cbn [inline_text]. rewrite app_nil_r. rewrite <- !app_assoc in H'. cbn [app] in H'. rewrite <- !app_assoc in H'. exact H'. }
      assert (Hlenn : 1 <= length n0) by (destruct n0; [discriminate Hid | cbn [length]; lia]).
      rewrite !app_length in Hn. cbn [length] in Hn. rewrite !app_length in Hn.
      step (get_inline_simple_d bs (MessageReference n0 None) c1 58 _ p n Hid Hc1 ltac:(right; right; left; reflexivity) Hname
              ltac:(cbn [inline_text]; rewrite app_nil_r; lia)).
      cbn [inline_text inline_eats_blank]. rewrite app_nil_r.
      set (q0 := length n0 + length c1 + p).
      assert (Hq0 : at_ bs q0 (58%N :: c2 ++ inline_text v ++ b1 ++ c :: t)).
      { unfold q0. cbn [inline_text] in Hname. rewrite app_nil_r in Hname. apply at_app in Hname. apply at_app in Hname.
        replace (length n0 + length c1 + p) with (length c1 + (length n0 + p)) by lia. exact Hname. }
      rewrite bind_assoc. step (skip_blank_none bs q0 _ Hq0 ltac:(reflexivity)).
      rewrite bind_assoc. unfold is_current_byte at 1. unfold bind at 1. rewrite (at_byte _ _ _ _ Hq0). change (N.eqb 58 58) with true.
      cbv iota. unfold has_name. rewrite Hnew.
      rewrite !bind_assoc, bind_advance. change (1 + q0) with (S q0).
      pose proof (at_cons _ _ _ _ Hq0) as Hq1.
      rewrite bind_assoc. step (skip_blank_blank bs _ c2 _ Hq1 Hc2 (inline_text_head v _ Hv)).
      pose proof (at_app _ _ _ _ Hq1) as Hq2.
      rewrite bind_assoc. step (get_literal_d bs v b1 c t _ n Hlit Hv Hb1 Hdelim Hq2 ltac:(lia)).
      rewrite bind_ret.
      set (q3 := length (inline_text v) + (length c2 + S q0)).
      assert (Hq3 : at_ bs q3 (b1 ++ c :: t)) by apply (at_app _ _ _ _ Hq2).
      step (skip_blank_blank bs q3 b1 _ Hq3 Hb1 (no_blank_head_delim c t Hdelim)).
      pose proof (at_app _ _ _ _ Hq3) as Hq4.
      assert (Hend' := Hend _ pos_acc (NamedArgument n0 v :: named_acc) (n0 :: names) Hq4).
      rewrite (bind_ok _ _ _ _ _ (skip_blank_none bs _ _ Hq4 (no_blank_head_delim c t Hdelim))) in Hend'.
      rewrite Hend'.
      rewrite (IH [] ns' pos_acc (NamedArgument n0 v :: named_acc) (n0 :: names) rest _ n Er eq_refl Hns' Hdup' ltac:(reflexivity)).
      * cbn [rev app]. rewrite <- app_assoc. cbn [app]. f_equal. unfold q3, q0. rewrite !app_length. cbn [length]. rewrite !app_length. lia.
      * match goal with |- at_ bs ?q _ =>
          replace q with (length (((n0 ++ c1 ++ 58%N :: c2 ++ inline_text v) ++ b1) ++ (if comma then 44%N :: b2 else [])) + p)
            by (unfold q3, q0; rewrite !app_length; cbn [length]; rewrite !app_length; lia) end.
        assert (H2 : at_ bs p ((((n0 ++ c1 ++ 58%N :: c2 ++ inline_text v) ++ b1) ++ (if comma then 44%N :: b2 else [])) ++ R ++ 41%N :: rest))
          by (repeat (rewrite <- app_assoc in H || cbn [app] in H); repeat (rewrite <- app_assoc || cbn [app]); exact H).
        apply (at_app _ _ _ _ H2).
      * lia.
Qed.

End ArgsLoop.

(* ---- get_call_arguments ---- *)
Lemma items_layout_head ca R t : args_ok ca = true -> items_layout (items_of ca) R -> no_blank_head (R ++ 41%N :: t).
Proof.
  destruct ca as [pos named]. unfold args_ok. intros H HR. apply andb_prop in H as [H _]. apply andb_prop in H as [Hp Hn].
  pose proof (items_ok pos named Hp Hn) as Hok. cbn [items_of] in HR.
  change (map (fun a => match a with NamedArgument n v => ANamed n v end) named) with (map named_item named) in HR.
  destruct HR as [|x X b1 comma b2 r R' Hx _ _ _ _ _]; [reflexivity|]. rewrite <- !app_assoc.
  apply (item_head x X _ Hx). inversion Hok; assumption.
Qed.

Lemma get_call_arguments_ok bs ca b A t p n :
  args_ok ca = true -> all_blank b -> args_layout ca A -> at_ bs p (b ++ A ++ t) -> length A + 4 <= n ->
  get_call_arguments bs n p = Ok (Some ca) (length (b ++ A) + p).
Proof.
  intros Hca Hb HA H Hn. destruct HA as [ca b0 R Hb0 HR]. destruct n as [|n]; [lia|]. cbn [get_call_arguments].
  assert (H' : at_ bs p (b ++ 40%N :: b0 ++ R ++ 41%N :: t)).
  { cbn [app] in H. rewrite <- !app_assoc in H. cbn [app] in H. exact H. }
  step (skip_blank_blank bs p b _ H' Hb ltac:(reflexivity)).
  pose proof (at_app _ _ _ _ H') as H1.
  step (take_byte_if_yes bs _ 40 _ H1). cbn [negb].
  pose proof (at_cons _ _ _ _ H1) as H2.
  step (skip_blank_blank bs _ b0 _ H2 Hb0 (items_layout_head ca R t Hca HR)).
  pose proof (at_app _ _ _ _ H2) as H3.
  destruct ca as [pos named]. unfold args_ok in Hca. apply andb_prop in Hca as [Hca Hdup]. apply andb_prop in Hca as [Hp Hnm].
  cbn [length] in Hn. rewrite !app_length in Hn. cbn [length] in Hn.
  step (args_loop_ok bs (items_of (CallArguments pos named)) R HR pos named [] [] [] t _ n eq_refl Hp Hnm Hdup ltac:(congruence) H3 ltac:(lia)).
  cbn [rev app].
  pose proof (at_app _ _ _ _ H3) as H4.
  step (expect_byte_yes bs _ 41 _ H4). unfold ret. f_equal.
  rewrite !app_length. cbn [length]. rewrite !app_length. cbn [length]. lia.
Qed.

(* ---------------------------------------------------------------------------------------------- *)
(* 3. Function references and term references with arguments                                        *)

Lemma wf_callee_identifier id : wf_callee id = true -> wf_identifier id = true /\ is_callee id = true.
Proof.
  destruct id as [|b r]; [discriminate|]. cbn [wf_callee wf_identifier]. intros H. apply andb_prop in H as [Hb Hr]. split.
  - apply andb_true_intro. split; [unfold is_alpha; lia|]. rewrite forallb_forall in *. intros x Hx. specialize (Hr x Hx).
    unfold is_id_char, is_alpha, is_digit in *. lia.
  - unfold is_callee. cbn [forallb]. apply andb_true_intro. split; [unfold is_ascii_uppercase, in_rng; lia|].
    rewrite forallb_forall in *. intros x Hx. specialize (Hr x Hx). unfold is_ascii_uppercase, is_ascii_digit, in_rng, is_digit in *. lia.
Qed.

(* what follows an identifier in front of call arguments: a blank or "(" *)
Lemma blank_paren_head b t : all_blank b ->
  head_not is_ident_char (b ++ 40%N :: t) /\ starts_char (b ++ 40%N :: t) = true /\
  head_not (fun x => N.eqb x 46) (b ++ 40%N :: t).
Proof.
  unfold all_blank. intros H. destruct b as [|x r]; [repeat split; reflexivity|].
  cbn [app]. rewrite blank_len_cons in H. cbn [length] in H.
  destruct (N.eqb x c_sp || N.eqb x c_lf) eqn:E1.
  - apply orb_prop in E1. unfold c_sp, c_lf in E1.
    assert (Hb : x = 32%N \/ x = 10%N) by (destruct E1 as [E | E]; apply N.eqb_eq in E; auto).
    destruct Hb as [-> | ->]; repeat split; reflexivity.
  - destruct (N.eqb x c_cr) eqn:E2; [|discriminate]. apply N.eqb_eq in E2. unfold c_cr in E2. subst x.
    repeat split; reflexivity.
Qed.

Lemma get_inline_function bs id ca b A t p n :
  wf_callee id = true -> args_ok ca = true -> all_blank b -> args_layout ca A ->
  at_ bs p (id ++ b ++ A ++ t) -> length A + 6 <= n ->
  get_inline_expression bs n false p = Ok (FunctionReference id ca) (length (id ++ b ++ A) + p).
Proof.
  intros Hid Hca Hb HA H Hn. destruct (wf_callee_identifier id Hid) as [Hwf Hcal].
  destruct n as [|n]; [lia|]. destruct id as [|b0 r]; [discriminate|].
  cbn [wf_identifier] in Hwf. apply andb_prop in Hwf as [Hb0 Hr]. rewrite is_alpha_eq in Hb0.
  cbn [get_inline_expression]. rewrite bind_current_byte.
  assert (H0 : at_ bs p (b0 :: r ++ b ++ A ++ t)) by exact H.
  rewrite (at_byte _ _ _ _ H0).
  replace (N.eqb b0 34) with false by (unfold is_ascii_alphabetic, in_rng in Hb0; lia).
  replace (is_ascii_digit b0) with false by (unfold is_ascii_digit, is_ascii_alphabetic, in_rng in *; lia).
  replace (N.eqb b0 45) with false by (unfold is_ascii_alphabetic, in_rng in Hb0; lia).
  replace (N.eqb b0 36) with false by (unfold is_ascii_alphabetic, in_rng in Hb0; lia).
  cbn [andb]. rewrite Hb0. cbn [andb negb]. rewrite bind_advance. change (1 + p) with (S p).
  assert (HA40 : exists A', A = 40%N :: A') by (destruct HA; eexists; reflexivity).
  destruct HA40 as [A' EA].
  destruct (blank_paren_head b (A' ++ t) Hb) as (Hh1 & Hh2 & Hh3).
  assert (H0' : at_ bs p ((b0 :: r) ++ b ++ 40%N :: A' ++ t)) by (rewrite EA in H0; exact H0).
  step (get_identifier_unchecked_ok bs p b0 r _ H0' (alpha_not_cont _ Hb0) Hr Hh1 Hh2).
  assert (H1 : at_ bs (length (b0 :: r) + p) (b ++ A ++ t)) by (apply (at_app bs p (b0 :: r) _ H)).
  step (get_call_arguments_ok bs ca b A t _ n Hca Hb HA H1 ltac:(lia)).
  rewrite Hcal. cbn [negb]. unfold ret. f_equal. repeat (rewrite app_length || cbn [length]). lia.
Qed.

(* "-" id, an optional attribute, and arguments *)
Lemma get_inline_term_args bs id att ca b A t p n :
  wf_identifier id = true -> match att with Some a => wf_identifier a = true | None => True end ->
  args_ok ca = true -> all_blank b -> args_layout ca A ->
  at_ bs p (45%N :: id ++ match att with Some a => 46%N :: a | None => [] end ++ b ++ A ++ t) -> length A + 6 <= n ->
  get_inline_expression bs n false p =
  Ok (TermReference id att (Some ca)) (length (45%N :: id ++ match att with Some a => 46%N :: a | None => [] end ++ b ++ A) + p).
Proof.
  intros Hid Hatt Hca Hb HA H Hn. destruct n as [|n]; [lia|]. destruct id as [|b0 r]; [discriminate|].
  cbn [wf_identifier] in Hid. apply andb_prop in Hid as [Hb0 Hr]. rewrite is_alpha_eq in Hb0.
  cbn [get_inline_expression]. rewrite bind_current_byte. rewrite (at_byte _ _ _ _ H).
  change (N.eqb 45 34) with false. change (is_ascii_digit 45) with false. change (N.eqb 45 45 && negb false) with true. cbv iota.
  rewrite bind_advance. change (1 + p) with (S p).
  pose proof (at_cons _ _ _ _ H) as H0.
  step (is_identifier_start_at bs _ b0 _ H0). rewrite Hb0. rewrite bind_advance. change (1 + S p) with (S (S p)).
  assert (HA40 : exists A', A = 40%N :: A') by (destruct HA; eexists; reflexivity).
  destruct HA40 as [A' EA].
  destruct (blank_paren_head b (A' ++ t) Hb) as (Hh1 & Hh2 & Hh3).
  destruct att as [a|].
  - assert (H0' : at_ bs (S p) ((b0 :: r) ++ 46%N :: a ++ b ++ A ++ t)) by exact H0.
    step (get_identifier_unchecked_ok bs (S p) b0 r _ H0' (alpha_not_cont _ Hb0) Hr eq_refl eq_refl).
    pose proof (at_app _ _ _ _ H0') as H1.
    unfold get_attribute_accessor. rewrite bind_assoc. step (take_byte_if_yes bs _ 46 _ H1).
    pose proof (at_cons _ _ _ _ H1) as H2.
    assert (H2' : at_ bs (S (length (b0 :: r) + S p)) (a ++ b ++ 40%N :: A' ++ t)) by (rewrite EA in H2; exact H2).
    rewrite bind_assoc. step (get_identifier_ok bs _ a _ H2' Hatt Hh1 Hh2). rewrite bind_ret.
    pose proof (at_app _ _ _ _ H2) as H3.
    step (get_call_arguments_ok bs ca b A t _ n Hca Hb HA H3 ltac:(lia)).
    unfold ret. f_equal. repeat (rewrite app_length || cbn [length]). lia.
  - assert (H0' : at_ bs (S p) ((b0 :: r) ++ b ++ 40%N :: A' ++ t)) by (rewrite EA in H0; exact H0).
    step (get_identifier_unchecked_ok bs (S p) b0 r _ H0' (alpha_not_cont _ Hb0) Hr Hh1 Hh2).
    pose proof (at_app _ _ _ _ H0') as H1.
    unfold get_attribute_accessor. rewrite bind_assoc. step (take_byte_if_no bs _ 46 _ H1 Hh3). rewrite bind_ret.
    assert (H1' : at_ bs (length (b0 :: r) + S p) (b ++ A ++ t)) by (rewrite EA; exact H1).
    step (get_call_arguments_ok bs ca b A t _ n Hca Hb HA H1' ltac:(lia)).
    unfold ret. f_equal. cbn [app]. repeat (rewrite app_length || cbn [length]). lia.
Qed.

(* ---------------------------------------------------------------------------------------------- *)
(* 4. The inline expressions of the fragment: simple ones, and calls with simple arguments           *)

Definition binline (i : inline) : bool :=
  match i with
  | FunctionReference id ca => wf_callee id && args_ok ca
  | TermReference id None (Some ca) => wf_identifier id && args_ok ca
  | _ => simple_inline i
  end.

Inductive itext : inline -> bytes -> Prop :=
| itx_simple i : simple_inline i = true -> itext i (inline_text i)
| itx_fun id ca b A : all_blank b -> args_layout ca A -> itext (FunctionReference id ca) (id ++ b ++ A)
| itx_term id ca b A : all_blank b -> args_layout ca A -> itext (TermReference id None (Some ca)) (45%N :: id ++ b ++ A).

Lemma simple_binline i : simple_inline i = true -> binline i = true.
Proof. destruct i as [s | v | id args | id att | id [a|] [args|] | id | e]; try discriminate; exact (fun H => H). Qed.

Lemma binline_cases i : binline i = true ->
  simple_inline i = true \/
  (exists id ca, i = FunctionReference id ca /\ wf_callee id = true /\ args_ok ca = true) \/
  (exists id ca, i = TermReference id None (Some ca) /\ wf_identifier id = true /\ args_ok ca = true).
Proof.
  destruct i as [s | v | id ca | id att | id [a|] [ca|] | id | e]; cbn [binline]; intros H; try (left; exact H); try discriminate H.
  - apply andb_prop in H as [H1 H2]. right; left. eauto.
  - apply andb_prop in H as [H1 H2]. right; right. eauto.
Qed.

(* ---- render ---- *)
Fixpoint render_pos (l : list inline) : R (list bytes) :=
  match l with [] => rret [] | x :: r => a <~ render_inline x ;; b <~ render_pos r ;; rret (a :: b) end.
Fixpoint render_named (l : list named_arg) : R (list bytes) :=
  match l with
  | [] => rret []
  | NamedArgument name v :: r =>
      b1 <~ blank_opt ;; b2 <~ blank_opt ;; a <~ render_inline v ;; b <~ render_named r ;;
      rret (cat [name; b1; [58%N]; b2; a] :: b)
  end.
Fixpoint render_sep (l : list bytes) : R bytes :=
  match l with
  | [] => rret []
  | [x] => t <~ choose 2 ;; b <~ blank_opt ;; rret (x ++ (if Nat.eqb t 1 then b ++ [44%N] else []))
  | x :: r => b1 <~ blank_opt ;; b2 <~ blank_opt ;; rest <~ render_sep r ;; rret (cat [x; b1; [44%N]; b2; rest])
  end.

Lemma render_args_eq pos named :
  render_args (CallArguments pos named) =
  (b0 <~ blank_opt ;; ps <~ render_pos pos ;; ns <~ render_named named ;; body <~ render_sep (ps ++ ns) ;;
   b9 <~ blank_opt ;; rret (cat [[40%N]; b0; body; b9; [41%N]])).
Proof. reflexivity. Qed.

Lemma blank_opt_spec' cs : exists b cs', blank_opt cs = (b, cs') /\ all_blank b.
Proof. exists (fst (blank_opt cs)), (snd (blank_opt cs)). split; [destruct (blank_opt cs); reflexivity | apply all_blank_blank_opt]. Qed.

Lemma rbind_eq' {A B} (m : R A) (f : A -> R B) cs a cs' : m cs = (a, cs') -> rbind m f cs = f a cs'.
Proof. intros H. unfold rbind. rewrite H. reflexivity. Qed.

Lemma render_inline_simple' i cs : simple_inline i = true -> render_inline i cs = (inline_text i, cs).
Proof. apply render_inline_simple. Qed.

Lemma render_pos_simple pos : forall cs, forallb simple_inline pos = true ->
  render_pos pos cs = (map inline_text pos, cs).
Proof.
  induction pos as [|x r IH]; intros cs H; [reflexivity|]. cbn [forallb] in H. apply andb_prop in H as [Hx Hr].
  cbn [render_pos map]. rewrite (rbind_eq' _ _ _ _ _ (render_inline_simple x cs Hx)), (rbind_eq' _ _ _ _ _ (IH cs Hr)). reflexivity.
Qed.

Lemma render_named_layout named : forall cs, forallb named_ok named = true ->
  exists xs cs', render_named named cs = (xs, cs') /\ Forall2 item_layout (map named_item named) xs.
Proof.
  induction named as [|[n v] r IH]; intros cs H; [exists [], cs; split; [reflexivity | constructor]|].
  cbn [forallb] in H. apply andb_prop in H as [Ha Hr]. unfold named_ok in Ha. apply andb_prop in Ha as [_ Hv].
  cbn [render_named].
  destruct (blank_opt_spec' cs) as (b1 & cs1 & E1 & Hb1). rewrite (rbind_eq' _ _ _ _ _ E1).
  destruct (blank_opt_spec' cs1) as (b2 & cs2 & E2 & Hb2). rewrite (rbind_eq' _ _ _ _ _ E2).
  rewrite (rbind_eq' _ _ _ _ _ (render_inline_simple v cs2 Hv)).
  destruct (IH cs2 Hr) as (xs & cs3 & E3 & Hxs). rewrite (rbind_eq' _ _ _ _ _ E3).
  eexists. exists cs3. split; [reflexivity|]. cbn [map named_item]. constructor; [|exact Hxs].
  unfold cat. cbn [concat app]. rewrite app_nil_r.
  replace (n ++ b1 ++ 58%N :: b2 ++ inline_text v) with (n ++ b1 ++ 58%N :: b2 ++ inline_text v) by reflexivity.
  apply itl_named; assumption.
Qed.

(* the items with their separators, and the blank `b9` in front of ")" *)
Lemma render_sep_layout items xs : Forall2 item_layout items xs -> items <> [] -> forall cs b9, all_blank b9 ->
  exists body cs', render_sep xs cs = (body, cs') /\ items_layout items (body ++ b9).
Proof.
  induction 1 as [|x X r Xs Hx Hr IH]; intros Hne cs b9 Hb9; [congruence|].
  destruct Hr as [|y Y r' Xs' Hy Hr'].
  - cbn [render_sep]. unfold rbind at 1. destruct (choose 2 cs) as [t0 cs1].
    destruct (blank_opt_spec' cs1) as (b & cs2 & E2 & Hb). rewrite (rbind_eq' _ _ _ _ _ E2).
    eexists. exists cs2. split; [reflexivity|]. unfold rret. destruct (Nat.eqb t0 1).
    + replace ((X ++ b ++ [44%N]) ++ b9) with (X ++ b ++ (if true then 44%N :: b9 else []) ++ [])
        by (rewrite <- !app_assoc, app_nil_r; reflexivity).
      apply (il_cons x X b true b9 [] []); try assumption; try reflexivity; [discriminate | constructor].
    + replace ((X ++ []) ++ b9) with (X ++ b9 ++ (if false then 44%N :: [] else []) ++ [])
        by (rewrite !app_nil_r; reflexivity).
      apply (il_cons x X b9 false [] [] []); try assumption; try reflexivity; [intros H; congruence | constructor].
  - change (render_sep (X :: Y :: Xs') cs) with
      ((b1 <~ blank_opt ;; b2 <~ blank_opt ;; rest <~ render_sep (Y :: Xs') ;; rret (cat [X; b1; [44%N]; b2; rest])) cs).
    destruct (blank_opt_spec' cs) as (b1 & cs1 & E1 & Hb1). rewrite (rbind_eq' _ _ _ _ _ E1).
    destruct (blank_opt_spec' cs1) as (b2 & cs2 & E2 & Hb2). rewrite (rbind_eq' _ _ _ _ _ E2).
    destruct (IH ltac:(discriminate) cs2 b9 Hb9) as (rest & cs3 & E3 & HR). rewrite (rbind_eq' _ _ _ _ _ E3).
    eexists. exists cs3. split; [reflexivity|]. unfold rret, cat. cbn [concat]. rewrite app_nil_r.
    replace ((X ++ b1 ++ [44%N] ++ b2 ++ rest) ++ b9) with (X ++ b1 ++ (if true then 44%N :: b2 else []) ++ rest ++ b9)
      by (rewrite <- !app_assoc; reflexivity).
    apply (il_cons x X b1 true b2 (y :: r') (rest ++ b9)); try assumption; try reflexivity. discriminate.
Qed.

Lemma render_args_layout ca cs : args_ok ca = true ->
  exists A cs', render_args ca cs = (A, cs') /\ args_layout ca A.
Proof.
  destruct ca as [pos named]. unfold args_ok. intros H. apply andb_prop in H as [H _]. apply andb_prop in H as [Hp Hn].
  rewrite render_args_eq.
  destruct (blank_opt_spec' cs) as (b0 & cs1 & E1 & Hb0). rewrite (rbind_eq' _ _ _ _ _ E1).
  rewrite (rbind_eq' _ _ _ _ _ (render_pos_simple pos cs1 Hp)).
  destruct (render_named_layout named cs1 Hn) as (ns & cs2 & E2 & Hns). rewrite (rbind_eq' _ _ _ _ _ E2).
  assert (Hitems : Forall2 item_layout (items_of (CallArguments pos named)) (map inline_text pos ++ ns)).
  { cbn [items_of]. change (map (fun a => match a with NamedArgument n v => ANamed n v end) named) with (map named_item named).
    apply Forall2_app; [|exact Hns]. clear. induction pos as [|x r IH]; constructor; [constructor | exact IH]. }
  destruct (items_of (CallArguments pos named)) as [|x0 r0] eqn:Eit.
  - (* no argument *)
    assert (Exs : map inline_text pos ++ ns = []) by (inversion Hitems; reflexivity). rewrite Exs. cbn [render_sep]. rewrite rbind_rret.
    destruct (blank_opt_spec' cs2) as (b9 & cs3 & E3 & Hb9). rewrite (rbind_eq' _ _ _ _ _ E3).
    eexists. exists cs3. split; [reflexivity|]. unfold rret, cat. cbn [concat app]. rewrite ?app_nil_r.
    replace (40%N :: b0 ++ b9 ++ [41%N]) with (40%N :: (b0 ++ b9) ++ [] ++ [41%N]) by (rewrite <- app_assoc; reflexivity).
    apply argl; [apply all_blank_app; assumption | rewrite Eit; constructor].
  - (* some arguments; the blank in front of ")" belongs to the last one *)
    rewrite <- Eit in Hitems.
    assert (Hlook : forall cs2', exists b9 cs3, blank_opt cs2' = (b9, cs3) /\ all_blank b9) by (intros; apply blank_opt_spec').
    (* render_sep, then blank_opt: the layout lemma needs the blank first *)
    assert (Hsep : exists body cs3 b9 cs4, render_sep (map inline_text pos ++ ns) cs2 = (body, cs3) /\ blank_opt cs3 = (b9, cs4) /\
                                           all_blank b9 /\ items_layout (items_of (CallArguments pos named)) (body ++ b9)).
    { destruct (render_sep_layout _ _ Hitems ltac:(rewrite Eit; discriminate) cs2 [] ltac:(reflexivity)) as (body & cs3 & E3 & _).
      destruct (blank_opt_spec' cs3) as (b9 & cs4 & E4 & Hb9).
      destruct (render_sep_layout _ _ Hitems ltac:(rewrite Eit; discriminate) cs2 b9 Hb9) as (body' & cs3' & E3' & HR).
      rewrite E3 in E3'. injection E3' as <- <-. exists body, cs3, b9, cs4. auto. }
    destruct Hsep as (body & cs3 & b9 & cs4 & E3 & E4 & Hb9 & HR).
    rewrite (rbind_eq' _ _ _ _ _ E3), (rbind_eq' _ _ _ _ _ E4).
    eexists. exists cs4. split; [reflexivity|]. unfold rret, cat. cbn [concat app]. rewrite ?app_nil_r.
    replace (40%N :: b0 ++ body ++ b9 ++ [41%N]) with (40%N :: b0 ++ (body ++ b9) ++ [41%N]) by (rewrite <- app_assoc; reflexivity).
    apply argl; assumption.
Qed.

Lemma render_binline i cs : binline i = true -> exists X cs', render_inline i cs = (X, cs') /\ itext i X.
Proof.
  intros Hi. destruct (binline_cases i Hi) as [Hs | [(id & ca & -> & Hid & Hca) | (id & ca & -> & Hid & Hca)]].
  - exists (inline_text i), cs. split; [apply (render_inline_simple i cs Hs) | constructor; exact Hs].
  - cbn [render_inline].
    destruct (blank_opt_spec' cs) as (b & cs1 & E1 & Hb). rewrite (rbind_eq' _ _ _ _ _ E1).
    destruct (render_args_layout ca cs1 Hca) as (A & cs2 & E2 & HA). rewrite (rbind_eq' _ _ _ _ _ E2).
    eexists. exists cs2. split; [reflexivity | constructor; assumption].
  - cbn [render_inline].
    destruct (blank_opt_spec' cs) as (b & cs1 & E1 & Hb).
    destruct (render_args_layout ca cs1 Hca) as (A & cs2 & E2 & HA).
    assert (Ea : (b0 <~ blank_opt ;; s <~ render_args ca ;; rret (b0 ++ s)) cs = (b ++ A, cs2))
      by (rewrite (rbind_eq' _ _ _ _ _ E1), (rbind_eq' _ _ _ _ _ E2); reflexivity).
    rewrite (rbind_eq' _ _ _ _ _ Ea).
    eexists. exists cs2. split; [reflexivity|]. cbn [app]. apply (itx_term id ca b A Hb HA).
Qed.

(* ---- joined form, well-formedness ---- *)
Lemma join_args_ok ca : args_ok ca = true -> join_args ca = ca.
Proof.
  destruct ca as [pos named]. unfold args_ok. intros H. apply andb_prop in H as [H _]. apply andb_prop in H as [Hp Hn].
  cbn [join_args]. f_equal.
  - induction pos as [|x r IH]; [reflexivity|]. cbn [forallb] in Hp. apply andb_prop in Hp as [Hx Hr].
    rewrite (RoundTrip.simple_inline_join x Hx), (IH Hr). reflexivity.
  - induction named as [|[n v] r IH]; [reflexivity|]. cbn [forallb] in Hn. apply andb_prop in Hn as [Ha Hr].
    unfold named_ok in Ha. apply andb_prop in Ha as [_ Hv]. cbn [join_named]. rewrite (RoundTrip.simple_inline_join v Hv), (IH Hr). reflexivity.
Qed.

Lemma join_binline i : binline i = true -> join_inline i = i.
Proof.
  intros Hi. destruct (binline_cases i Hi) as [Hs | [(id & ca & -> & Hid & Hca) | (id & ca & -> & Hid & Hca)]].
  - apply (RoundTrip.simple_inline_join i Hs).
  - cbn [join_inline]. rewrite (join_args_ok ca Hca). reflexivity.
  - cbn [join_inline]. rewrite (join_args_ok ca Hca). reflexivity.
Qed.

Lemma simple_wf_inline i : simple_inline i = true -> wf_inline i = true /\ lines_ok_inline i = true.
Proof.
  intros Hi. destruct (RoundTrip.simple_inline_wf i Hi) as [W1 W2]. split; [|exact W2].
  destruct i as [s | v | id args | id att | id [a|] args | id | e]; try discriminate Hi; exact W1.
Qed.

Lemma go_wf_pos pos :
  (fix go (l : list inline) : bool := match l with [] => true | x :: r => wf_inline x && go r end) pos = forallb wf_inline pos.
Proof. induction pos as [|x r IH]; [reflexivity|]. cbn [forallb]. rewrite <- IH. reflexivity. Qed.
Lemma go_lines_pos pos :
  (fix go (l : list inline) : bool := match l with [] => true | x :: r => lines_ok_inline x && go r end) pos = forallb lines_ok_inline pos.
Proof. induction pos as [|x r IH]; [reflexivity|]. cbn [forallb]. rewrite <- IH. reflexivity. Qed.
Lemma go_wf_named named :
  (fix go (l : list named_arg) : bool :=
     match l with [] => true | NamedArgument n v :: r => wf_identifier n && is_literal v && wf_inline v && go r end) named =
  forallb (fun a => match a with NamedArgument n v => wf_identifier n && is_literal v && wf_inline v end) named.
Proof. induction named as [|[n v] r IH]; [reflexivity|]. cbn [forallb]. rewrite <- IH. reflexivity. Qed.

Lemma wf_args_ok ca : args_ok ca = true ->
  wf_args ca = true /\
  match ca with CallArguments pos _ =>
    (fix go (l : list inline) : bool := match l with [] => true | x :: r => lines_ok_inline x && go r end) pos = true end.
Proof.
  destruct ca as [pos named]. unfold args_ok. intros H. apply andb_prop in H as [H Hdup]. apply andb_prop in H as [Hp Hn].
  cbn [wf_args]. rewrite go_wf_pos, go_wf_named, go_lines_pos, Hdup, andb_true_r. rewrite forallb_forall in Hp, Hn.
  split; [apply andb_true_intro; split|]; apply forallb_forall.
  - intros x Hx. apply (simple_wf_inline x (Hp x Hx)).
  - intros [n v] Ha. specialize (Hn _ Ha). unfold named_ok in Hn. apply andb_prop in Hn as [Hn Hv]. apply andb_prop in Hn as [Hid Hlit].
    rewrite Hid, Hlit, (proj1 (simple_wf_inline v Hv)). reflexivity.
  - intros x Hx. apply (simple_wf_inline x (Hp x Hx)).
Qed.

Lemma wf_binline i : binline i = true -> wf_expr (Inline i) = true /\ lines_ok_inline i = true.
Proof.
  intros Hi. destruct (binline_cases i Hi) as [Hs | [(id & ca & -> & Hid & Hca) | (id & ca & -> & Hid & Hca)]].
  - apply (RoundTrip.simple_inline_wf i Hs).
  - destruct (wf_args_ok ca Hca) as [W1 W2]. cbn [wf_expr wf_inline lines_ok_inline]. rewrite Hid, W1. destruct ca. split; [reflexivity | exact W2].
  - destruct (wf_args_ok ca Hca) as [W1 W2]. cbn [wf_expr wf_inline lines_ok_inline]. rewrite Hid, W1. destruct ca. split; [reflexivity | exact W2].
Qed.

(* unfolding equations of the mutual fixpoint *)
Lemma get_placeable_S' bs n :
  get_placeable bs (S n) =
  (skip_blank bs ;;;
   exp <- get_expression bs n ;;
   skip_blank_inline bs ;;;
   expect_byte bs 125 ;;;
   match exp with
   | Inline (TermReference _ (Some _) _) => error_here TermAttributeAsPlaceable
   | _ => ret exp
   end).
Proof. reflexivity. Qed.

Lemma get_expression_S' bs n :
  get_expression bs (S n) =
  (exp <- get_inline_expression bs n false ;;
   skip_blank bs ;;;
   p <- get_ptr ;;
   if negb (is_byte_at bs 45 p) || negb (is_byte_at bs 62 (S p)) then
     match exp with
     | TermReference _ (Some _) _ => error_here TermAttributeAsPlaceable
     | _ => ret (Inline exp)
     end
   else
     chk <- match exp with
            | MessageReference _ None => error_here MessageReferenceAsSelector
            | MessageReference _ (Some _) => error_here MessageAttributeAsSelector
            | TermReference _ None _ => error_here TermReferenceAsSelector
            | TermReference _ (Some _) _ => ret tt
            | StringLiteral _ | NumberLiteral _ | VariableReference _ | FunctionReference _ _ => ret tt
            | Placeable _ => error_here ExpectedSimpleExpressionAsSelector
            end ;;
     advance 2 ;;;
     skip_blank_inline bs ;;;
     eol <- skip_eol bs ;;
     if negb eol then error_here (ExpectedCharRange [10; 32; 124; 32; 13; 10]%N)
     else
       skip_blank bs ;;;
       variants <- get_variants bs n ;;
       ret (Select exp variants)).
Proof. reflexivity. Qed.

(* ---- get_placeable ---- *)
Lemma itext_head i X t : binline i = true -> itext i X -> no_blank_head (X ++ t).
Proof.
  intros Hi HX. revert Hi. destruct HX as [i0 Hs | id ca b A Hb HA | id ca b A Hb HA]; intros Hi.
  - apply (inline_text_head i0 t Hs).
  - cbn [binline] in Hi. apply andb_prop in Hi as [Hid _]. destruct (wf_callee_identifier id Hid) as [Hwf _].
    destruct (wf_identifier_head id Hwf) as (b0 & r & -> & Hb0). cbn [app].
    apply no_blank_head_byte; unfold is_ascii_alphabetic, in_rng in Hb0; lia.
  - reflexivity.
Qed.

Lemma get_placeable_binline bs i X b1 b2 rest p n :
  binline i = true -> itext i X -> all_blank b1 -> all_blank b2 ->
  at_ bs p (b1 ++ X ++ b2 ++ 125%N :: rest) -> length X + 9 <= n ->
  get_placeable bs n p = Ok (Inline i) (S (length (b1 ++ X ++ b2) + p)).
Proof.
  intros Hi HX Hb1 Hb2 H Hn. revert Hi H Hn.
  destruct HX as [i0 Hs | id ca b A Hb HA | id ca b A Hb HA]; intros Hi H Hn.
  - rewrite (get_placeable_simple bs i0 b1 b2 rest p n Hs Hb1 Hb2 H ltac:(lia)). f_equal. rewrite !app_length. lia.
  - cbn [binline] in Hi. apply andb_prop in Hi as [Hid Hca].
    destruct n as [|[|n]]; try lia. rewrite get_placeable_S'.
    assert (Hbi : binline (FunctionReference id ca) = true) by (cbn [binline]; rewrite Hid, Hca; reflexivity).
    step (skip_blank_blank bs p b1 _ H Hb1 (itext_head _ _ _ Hbi (itx_fun id ca b A Hb HA))).
    pose proof (at_app _ _ _ _ H) as H1. rewrite get_expression_S', bind_assoc.
    assert (H1' : at_ bs (length b1 + p) (id ++ b ++ A ++ b2 ++ 125%N :: rest)) by (rewrite <- !app_assoc in H1; exact H1).
    step (get_inline_function bs id ca b A _ _ n Hid Hca Hb HA H1' ltac:(rewrite !app_length in Hn; lia)).
    assert (H2 : at_ bs (length (id ++ b ++ A) + (length b1 + p)) (b2 ++ 125%N :: rest)).
    { replace (id ++ b ++ A ++ b2 ++ 125%N :: rest) with ((id ++ b ++ A) ++ b2 ++ 125%N :: rest) in H1' by (rewrite <- !app_assoc; reflexivity).
      apply (at_app _ _ _ _ H1'). }
    rewrite ?bind_assoc. step (skip_blank_blank bs _ b2 _ H2 Hb2 ltac:(reflexivity)).
    pose proof (at_app _ _ _ _ H2) as H3.
    rewrite ?bind_assoc, bind_get_ptr. rewrite (at_is_byte _ _ 45 _ H3). change (N.eqb 125 45) with false. cbn [negb orb]. rewrite bind_ret.
    step (skip_blank_inline_sp bs _ 0 _ H3 ltac:(reflexivity)).
    step (expect_byte_yes bs _ 125 _ H3). unfold ret. f_equal. rewrite !app_length. lia.
  - cbn [binline] in Hi. apply andb_prop in Hi as [Hid Hca].
    destruct n as [|[|n]]; try lia. rewrite get_placeable_S'.
    step (skip_blank_blank bs p b1 _ H Hb1 ltac:(reflexivity)).
    pose proof (at_app _ _ _ _ H) as H1. rewrite get_expression_S', bind_assoc.
    assert (H1' : at_ bs (length b1 + p) (45%N :: id ++ [] ++ b ++ A ++ b2 ++ 125%N :: rest)).
    { cbn [app] in H1 |- *. rewrite <- !app_assoc in H1. exact H1. }
    step (get_inline_term_args bs id None ca b A _ _ n Hid Logic.I Hca Hb HA H1' ltac:(cbn [length] in Hn; rewrite !app_length in Hn; lia)).
    cbn [app].
    assert (H2 : at_ bs (length (45%N :: id ++ b ++ A) + (length b1 + p)) (b2 ++ 125%N :: rest)).
    { cbn [app] in H1'. replace (45%N :: id ++ b ++ A ++ b2 ++ 125%N :: rest) with ((45%N :: id ++ b ++ A) ++ b2 ++ 125%N :: rest) in H1'
        by (cbn [app]; rewrite <- !app_assoc; reflexivity).
      apply (at_app _ _ _ _ H1'). }
    rewrite ?bind_assoc. step (skip_blank_blank bs _ b2 _ H2 Hb2 ltac:(reflexivity)).
    pose proof (at_app _ _ _ _ H2) as H3.
    rewrite ?bind_assoc, bind_get_ptr. rewrite (at_is_byte _ _ 45 _ H3). change (N.eqb 125 45) with false. cbn [negb orb]. rewrite bind_ret.
    step (skip_blank_inline_sp bs _ 0 _ H3 ltac:(reflexivity)).
    step (expect_byte_yes bs _ 125 _ H3). unfold ret. f_equal. cbn [length]. rewrite !app_length. cbn [length]. rewrite !app_length. lia.
Qed.

(* ---------------------------------------------------------------------------------------------- *)
(* 5. Selectors: literals, variable references, function references, term attributes                 *)

Definition bsel (i : inline) : bool :=
  match i with
  | StringLiteral _ | NumberLiteral _ | VariableReference _ => simple_inline i
  | FunctionReference id ca => wf_callee id && args_ok ca
  | TermReference id (Some a) args =>
      wf_identifier id && wf_identifier a && match args with Some ca => args_ok ca | None => true end
  | _ => false
  end.

Inductive seltext : inline -> bytes -> Prop :=
| stx_simple i : simple_inline i = true -> seltext i (inline_text i)
| stx_fun id ca b A : all_blank b -> args_layout ca A -> seltext (FunctionReference id ca) (id ++ b ++ A)
| stx_term id a : seltext (TermReference id (Some a) None) (45%N :: id ++ 46%N :: a)
| stx_term_args id a ca b A : all_blank b -> args_layout ca A ->
    seltext (TermReference id (Some a) (Some ca)) (45%N :: id ++ 46%N :: a ++ b ++ A).

(* a term attribute without arguments: get_call_arguments skips the blank behind it *)
Definition sel_eats (i : inline) : bool := match i with TermReference _ _ None => true | _ => false end.

Lemma bsel_cases i : bsel i = true ->
  ((exists s, i = StringLiteral s) \/ (exists v, i = NumberLiteral v) \/ (exists id, i = VariableReference id)) /\ simple_inline i = true \/
  (exists id ca, i = FunctionReference id ca /\ wf_callee id = true /\ args_ok ca = true) \/
  (exists id a, i = TermReference id (Some a) None /\ wf_identifier id = true /\ wf_identifier a = true) \/
  (exists id a ca, i = TermReference id (Some a) (Some ca) /\ wf_identifier id = true /\ wf_identifier a = true /\ args_ok ca = true).
Proof.
  destruct i as [s | v | id ca | id att | id [a|] [ca|] | id | e]; cbn [bsel]; intros H; try discriminate H.
  - left. split; [left; eauto | exact H].
  - left. split; [right; left; eauto | exact H].
  - apply andb_prop in H as [H1 H2]. right; left. eauto.
  - apply andb_prop in H as [H H3]. apply andb_prop in H as [H1 H2]. right; right; right. eauto 8.
  - apply andb_prop in H as [H _]. apply andb_prop in H as [H1 H2]. right; right; left. eauto.
  - left. split; [right; right; eauto | exact H].
Qed.

Lemma identifier_ends_id id : wf_identifier id = true -> id <> [] /\ forallb id_char id = true.
Proof.
  destruct id as [|b r]; [discriminate|]. cbn [wf_identifier]. intros H. apply andb_prop in H as [Hb Hr]. split; [discriminate|].
  cbn [forallb]. apply andb_true_intro. split; [unfold is_alpha in Hb; unfold id_char; lia|].
  rewrite forallb_forall in *. intros x Hx. specialize (Hr x Hx). unfold is_id_char, is_alpha, is_digit in Hr. unfold id_char. lia.
Qed.

Lemma ends_with_id_char_app' a b : b <> [] -> ends_with_id_char (a ++ b) = ends_with_id_char b.
Proof.
  intros Hb. unfold ends_with_id_char. rewrite rev_app_distr. destruct (rev b) eqn:E; [|reflexivity].
  apply (f_equal (@rev N)) in E. rewrite rev_involutive in E. cbn in E. congruence.
Qed.

Lemma ends_with_id_char_all' l : l <> [] -> forallb id_char l = true -> ends_with_id_char l = true.
Proof.
  intros Hne Hall. unfold ends_with_id_char. rewrite (rev_last l Hne). rewrite forallb_forall in Hall.
  apply Hall, last_in, Hne.
Qed.

Section TermAttr.
Variable bs : bytes.

Lemma blank_head_facts' b t : all_blank b -> b <> [] ->
  head_not is_ident_char (b ++ t) /\ starts_char (b ++ t) = true /\ no_blank_head t -> True.
Proof. auto. Qed.

(* "-" id "." attribute, a non-empty blank, "-" (of "->") *)
Lemma get_inline_term_attr id a b1' t p n :
  wf_identifier id = true -> wf_identifier a = true -> all_blank b1' -> b1' <> [] ->
  at_ bs p (45%N :: id ++ 46%N :: a ++ b1' ++ 45%N :: t) -> 4 <= n ->
  get_inline_expression bs n false p =
  Ok (TermReference id (Some a) None) (length (45%N :: id ++ 46%N :: a) + length b1' + p).
Proof.
  intros Hid Ha Hb Hne H Hn. destruct n as [|[|n]]; try lia. destruct id as [|b0 r]; [discriminate|].
  cbn [wf_identifier] in Hid. apply andb_prop in Hid as [Hb0 Hr]. rewrite is_alpha_eq in Hb0.
  cbn [get_inline_expression]. rewrite bind_current_byte. rewrite (at_byte _ _ _ _ H).
  change (N.eqb 45 34) with false. change (is_ascii_digit 45) with false. change (N.eqb 45 45 && negb false) with true. cbv iota.
  rewrite bind_advance. change (1 + p) with (S p).
  pose proof (at_cons _ _ _ _ H) as H0.
  step (is_identifier_start_at bs _ b0 _ H0). rewrite Hb0. rewrite bind_advance. change (1 + S p) with (S (S p)).
  assert (H0' : at_ bs (S p) ((b0 :: r) ++ 46%N :: a ++ b1' ++ 45%N :: t)) by exact H0.
  step (get_identifier_unchecked_ok bs (S p) b0 r _ H0' (alpha_not_cont _ Hb0) Hr eq_refl eq_refl).
  pose proof (at_app _ _ _ _ H0') as H1.
  unfold get_attribute_accessor. rewrite bind_assoc. step (take_byte_if_yes bs _ 46 _ H1).
  pose proof (at_cons _ _ _ _ H1) as H2.
  assert (Hblank : head_not is_ident_char (b1' ++ 45%N :: t) /\ starts_char (b1' ++ 45%N :: t) = true).
  { unfold all_blank in Hb. destruct b1' as [|x r']; [congruence|]. cbn [app]. rewrite blank_len_cons in Hb. cbn [length] in Hb.
    destruct (N.eqb x c_sp || N.eqb x c_lf) eqn:E1.
    - apply orb_prop in E1. unfold c_sp, c_lf in E1.
      assert (Hx : x = 32%N \/ x = 10%N) by (destruct E1 as [E | E]; apply N.eqb_eq in E; auto).
      destruct Hx as [-> | ->]; split; reflexivity.
    - destruct (N.eqb x c_cr) eqn:E2; [|discriminate]. apply N.eqb_eq in E2. unfold c_cr in E2. subst x. split; reflexivity. }
  destruct Hblank as [Hh1 Hh2].
  rewrite bind_assoc. step (get_identifier_ok bs _ a _ H2 Ha Hh1 Hh2). rewrite bind_ret.
  pose proof (at_app _ _ _ _ H2) as H3.
  assert (Hca : get_call_arguments bs (S n) (length a + S (length (b0 :: r) + S p)) =
                Ok None (length b1' + (length a + S (length (b0 :: r) + S p)))).
  { cbn [get_call_arguments].
    step (skip_blank_blank bs _ b1' _ H3 Hb ltac:(reflexivity)).
    pose proof (at_app _ _ _ _ H3) as H4.
    step (take_byte_if_no bs _ 40 _ H4 eq_refl). reflexivity. }
  step Hca.
  unfold ret. f_equal. cbn [length]. rewrite !app_length. cbn [length]. lia.
Qed.

End TermAttr.

Lemma seltext_ends_id sel X : bsel sel = true -> seltext sel X -> sel_eats sel = true -> ends_with_id_char X = true.
Proof.
  intros Hsel HX. revert Hsel. destruct HX as [i Hi | id ca b A _ _ | id a | id a ca b A _ _]; intros Hsel He; try discriminate He.
  - destruct i as [s | v | id args | id att | id [a|] [ca|] | id | e]; try discriminate He; try discriminate Hi; discriminate Hsel.
  - cbn [bsel] in Hsel. apply andb_prop in Hsel as [Hsel _]. apply andb_prop in Hsel as [_ Ha].
    destruct (identifier_ends_id a Ha) as [Hne Hall].
    replace (45%N :: id ++ 46%N :: a) with ((45%N :: id ++ [46%N]) ++ a) by (cbn [app]; rewrite <- app_assoc; reflexivity).
    rewrite (ends_with_id_char_app' _ a Hne). apply (ends_with_id_char_all' a Hne Hall).
Qed.

Lemma render_bsel sel cs : bsel sel = true -> exists X cs', render_inline sel cs = (X, cs') /\ seltext sel X.
Proof.
  intros Hs. destruct (bsel_cases sel Hs) as [[_ Hsi] | [(id & ca & -> & Hid & Hca) | [(id & a & -> & Hid & Ha) | (id & a & ca & -> & Hid & Ha & Hca)]]].
  - exists (inline_text sel), cs. split; [apply (render_inline_simple sel cs Hsi) | constructor; exact Hsi].
  - cbn [render_inline].
    destruct (blank_opt_spec' cs) as (b & cs1 & E1 & Hb). rewrite (rbind_eq' _ _ _ _ _ E1).
    destruct (render_args_layout ca cs1 Hca) as (A & cs2 & E2 & HA). rewrite (rbind_eq' _ _ _ _ _ E2).
    eexists. exists cs2. split; [reflexivity | constructor; assumption].
  - cbn [render_inline]. rewrite rbind_rret. eexists. exists cs. split; [reflexivity|]. rewrite app_nil_r. constructor.
  - cbn [render_inline].
    destruct (blank_opt_spec' cs) as (b & cs1 & E1 & Hb).
    destruct (render_args_layout ca cs1 Hca) as (A & cs2 & E2 & HA).
    assert (Ea : (b0 <~ blank_opt ;; s <~ render_args ca ;; rret (b0 ++ s)) cs = (b ++ A, cs2))
      by (rewrite (rbind_eq' _ _ _ _ _ E1), (rbind_eq' _ _ _ _ _ E2); reflexivity).
    rewrite (rbind_eq' _ _ _ _ _ Ea).
    eexists. exists cs2. split; [reflexivity|]. apply (stx_term_args id a ca b A Hb HA).
Qed.

Lemma join_bsel sel : bsel sel = true -> join_inline sel = sel.
Proof.
  intros Hs. destruct (bsel_cases sel Hs) as [[_ Hsi] | [(id & ca & -> & Hid & Hca) | [(id & a & -> & Hid & Ha) | (id & a & ca & -> & Hid & Ha & Hca)]]].
  - apply (RoundTrip.simple_inline_join sel Hsi).
  - cbn [join_inline]. rewrite (join_args_ok ca Hca). reflexivity.
  - reflexivity.
  - cbn [join_inline]. rewrite (join_args_ok ca Hca). reflexivity.
Qed.

Lemma wf_bsel sel : bsel sel = true ->
  wf_inline sel = true /\ lines_ok_inline sel = true /\
  match sel with
  | StringLiteral _ | NumberLiteral _ | VariableReference _ | FunctionReference _ _ => true
  | TermReference _ (Some _) _ => true
  | _ => false
  end = true.
Proof.
  intros Hs. destruct (bsel_cases sel Hs) as [[Hk Hsi] | [(id & ca & -> & Hid & Hca) | [(id & a & -> & Hid & Ha) | (id & a & ca & -> & Hid & Ha & Hca)]]].
  - destruct (simple_wf_inline sel Hsi) as [W1 W2]. split; [exact W1 | split; [exact W2|]].
    destruct Hk as [[s ->] | [[v ->] | [id ->]]]; reflexivity.
  - destruct (wf_args_ok ca Hca) as [W1 W2]. cbn [wf_inline lines_ok_inline]. rewrite Hid, W1. destruct ca. auto.
  - cbn [wf_inline lines_ok_inline]. rewrite Hid, Ha. auto.
  - destruct (wf_args_ok ca Hca) as [W1 W2]. cbn [wf_inline lines_ok_inline]. rewrite Hid, Ha, W1. destruct ca. auto.
Qed.

Lemma seltext_head sel X t : bsel sel = true -> seltext sel X -> no_blank_head (X ++ t) /\ 1 <= length X.
Proof.
  intros Hs HX. revert Hs. destruct HX as [i Hi | id ca b A _ _ | id a | id a ca b A _ _]; intros Hs.
  - split; [apply (inline_text_head i t Hi) | apply (inline_text_len i Hi)].
  - cbn [bsel] in Hs. apply andb_prop in Hs as [Hid _]. destruct (wf_callee_identifier id Hid) as [Hwf _].
    destruct (wf_identifier_head id Hwf) as (b0 & r & -> & Hb0). cbn [app length]. split; [|lia].
    apply no_blank_head_byte; unfold is_ascii_alphabetic, in_rng in Hb0; lia.
  - split; [reflexivity | cbn [length]; lia].
  - split; [reflexivity | cbn [length]; lia].
Qed.

(* Syntax/SerializerRoundTrip.v — property C04 on the fragment of RoundTrip.v: the serializer prints one
   of the layouts of the tree, so parsing its output gives the tree back (by RoundTrip.parse_layout), and
   serialising that again gives the same text.                                                       *)
From FluentV Require Import Base.Bytes Base.Outcome Base.Utf8.
From FluentV Require Import Syntax.Ast Syntax.ParserModel Syntax.SerializerModel Syntax.Render Syntax.TreeNorm.
From FluentV Require Import Syntax.ParseLemmas Syntax.SerializerProofs Syntax.RoundTrip.
From Coq Require Import Lia.

Arguments N.eqb : simpl never.

Ltac norm_app := repeat (progress (cbn [app]; rewrite <- ?app_assoc)).

(* a literal written in the middle of a line (the buffer ends in neither LF nor CR) is appended as it is *)
Lemma write_literal_mid item x :
  ends_with 10 x = false -> ends_with 13 x = false ->
  write_literal item x = Done (push_bytes item x).
Proof. intros H10 H13. unfold write_literal. rewrite H10, H13. reflexivity. Qed.

Lemma ends_with_push c item b x : ends_with c (push_bytes (item ++ [b]) x) = N.eqb b c.
Proof. unfold ends_with, push_bytes. cbn [rbuf]. rewrite rev_app_distr. reflexivity. Qed.

Lemma wf_identifier_last id : wf_identifier id = true ->
  exists i0 b, id = i0 ++ [b] /\ N.eqb b 10 = false /\ N.eqb b 13 = false.
Proof.
  intros Hid. destruct id as [|b r]; [discriminate|].
  assert (Hne : b :: r <> []) by discriminate.
  exists (removelast (b :: r)), (last (b :: r) 0%N). split; [apply app_removelast_last, Hne|].
  assert (Hall : forallb is_id_char (b :: r) = true).
  { cbn [wf_identifier] in Hid. apply andb_prop in Hid as [Hb Hr]. cbn [forallb]. rewrite Hr, andb_true_r.
    unfold is_id_char. rewrite Hb. reflexivity. }
  rewrite forallb_forall in Hall. pose proof (Hall _ (last_in (b :: r) 0%N Hne)) as Hl.
  unfold is_id_char, is_alpha, is_digit in Hl. split; lia.
Qed.

(* ---- writing pieces that contain no line feed ---- *)
Definition lf_free (l : bytes) : Prop := existsb (N.eqb 10) l = false.

(* from a buffer that does not end in a line feed, the action appends exactly `out` and keeps the level *)
Definition writes (a : W) (out : bytes) : Prop :=
  forall x, ends_with 10 x = false ->
            a x = Done (Writer (rev out ++ rbuf x) (indent_level x)) /\
            ends_with 10 (Writer (rev out ++ rbuf x) (indent_level x)) = false.

Lemma ends_with_rev_lf_free out r lvl :
  lf_free out -> ends_with 10 (Writer r lvl) = false -> ends_with 10 (Writer (rev out ++ r) lvl) = false.
Proof.
  intros Hout Hr. destruct out as [|b0 t] using rev_ind; [exact Hr|].
  rewrite rev_app_distr. unfold ends_with. cbn [rbuf rev app].
  unfold lf_free in Hout. rewrite existsb_app in Hout. apply orb_false_elim in Hout as [_ Hb].
  cbn [existsb] in Hb. rewrite orb_false_r, N.eqb_sym in Hb. exact Hb.
Qed.

Lemma writes_literal item : lf_free item -> writes (write_literal item) item.
Proof.
  intros Hitem x H10. unfold write_literal. rewrite H10.
  replace (ends_with 13 x && match item with [] => false | b :: _ => N.eqb b 10 end) with false.
  2:{ destruct item as [|b t]; [rewrite andb_false_r; reflexivity|]. unfold lf_free in Hitem.
      cbn [existsb] in Hitem. apply orb_false_elim in Hitem as [Hb _]. rewrite N.eqb_sym in Hb. rewrite Hb, andb_false_r. reflexivity. }
  split; [reflexivity|]. destruct x as [r lvl]. cbn [rbuf indent_level]. apply ends_with_rev_lf_free; assumption.
Qed.

Lemma writes_lit s : lf_free (bytes_of_string s) -> writes (lit s) (bytes_of_string s).
Proof. apply writes_literal. Qed.

Lemma writes_skip : writes wskip [].
Proof. intros x H. split; [destruct x; reflexivity | destruct x; exact H]. Qed.

Lemma writes_seq a b o1 o2 : writes a o1 -> writes b o2 -> writes (a >> b) (o1 ++ o2).
Proof.
  intros Ha Hb x H. destruct (Ha x H) as [E1 H1]. destruct (Hb _ H1) as [E2 H2].
  cbn [rbuf indent_level] in E2, H2. unfold wseq. rewrite E1. cbn [obind].
  rewrite rev_app_distr, <- app_assoc. split; [exact E2 | exact H2].
Qed.

Lemma lf_free_app a b : lf_free a -> lf_free b -> lf_free (a ++ b).
Proof. unfold lf_free. intros Ha Hb. rewrite existsb_app, Ha, Hb. reflexivity. Qed.

Lemma lf_free_forall (P : N -> bool) l : (forall b, P b = true -> N.eqb b 10 = false) -> forallb P l = true -> lf_free l.
Proof.
  intros HP Hl. unfold lf_free. induction l as [|b t IH]; [reflexivity|].
  cbn [forallb] in Hl. apply andb_prop in Hl as [Hb Ht]. cbn [existsb]. rewrite N.eqb_sym, (HP b Hb), (IH Ht). reflexivity.
Qed.

Lemma wf_identifier_lf_free id : wf_identifier id = true -> lf_free id.
Proof.
  intros Hid. destruct id as [|b r]; [reflexivity|]. cbn [wf_identifier] in Hid. apply andb_prop in Hid as [Hb Hr].
  apply (lf_free_forall is_id_char).
  - intros x Hx. unfold is_id_char, is_alpha, is_digit in Hx. lia.
  - cbn [forallb]. rewrite Hr, andb_true_r. unfold is_id_char. rewrite Hb. reflexivity.
Qed.

Lemma digits_lf_free l : forallb is_ascii_digit l = true -> lf_free l.
Proof. apply lf_free_forall. intros x Hx. unfold is_ascii_digit, in_rng in Hx. lia. Qed.

Lemma wf_number_lf_free v : wf_number v = true -> lf_free v.
Proof.
  intros Hv. destruct (wf_number_shape v Hv) as [neg i f Hi1 Hi2 Hf].
  apply lf_free_app; [destruct neg; reflexivity|]. apply lf_free_app; [apply digits_lf_free, Hi2|].
  destruct f as [fd|]; [|reflexivity]. destruct Hf as [_ Hf2].
  change (46%N :: fd) with ([46%N] ++ fd). apply lf_free_app; [reflexivity | apply digits_lf_free, Hf2].
Qed.

Lemma wf_string_fuel_lf_free m : forall s, wf_string_fuel m s = true -> lf_free s.
Proof.
  induction m as [|m IH]; intros s H; [discriminate|]. cbn [wf_string_fuel] in H.
  destruct s as [|b r]; [reflexivity|].
  destruct (N.eqb b 92) eqn:E92.
  - apply N.eqb_eq in E92. subst b. destruct r as [|c r2]; [discriminate|].
    assert (Hc : N.eqb 10 c = false).
    { destruct (N.eqb c 92 || N.eqb c 34 || N.eqb c 123) eqn:E1.
      - destruct (N.eqb_spec 10 c) as [<-|]; [discriminate E1 | reflexivity].
      - destruct (N.eqb c 117) eqn:E2; [apply N.eqb_eq in E2; subst c; reflexivity|].
        destruct (N.eqb c 85) eqn:E3; [apply N.eqb_eq in E3; subst c; reflexivity | discriminate]. }
    unfold lf_free. cbn [existsb]. change (N.eqb 10 92) with false. rewrite Hc. cbn [orb].
    destruct (N.eqb c 92 || N.eqb c 34 || N.eqb c 123); [apply (IH r2 H)|].
    assert (Hhex : forall k, forallb is_hex (firstn k r2) && Nat.eqb (length (firstn k r2)) k && wf_string_fuel m (skipn k r2) = true ->
                             existsb (N.eqb 10) r2 = false).
    { intros k Hk. apply andb_prop in Hk as [Hk Hrest]. apply andb_prop in Hk as [Hhex _].
      rewrite <- (firstn_skipn k r2), existsb_app. rewrite (IH _ Hrest), orb_false_r.
      apply (lf_free_forall is_hex); [|exact Hhex]. intros x Hx. unfold is_hex, is_digit in Hx. lia. }
    destruct (N.eqb c 117); [apply (Hhex 4 H)|]. destruct (N.eqb c 85); [apply (Hhex 6 H) | discriminate].
  - destruct (N.eqb b 34 || N.eqb b 10) eqn:E; [discriminate|]. apply orb_false_elim in E as [_ E10].
    unfold lf_free. cbn [existsb]. rewrite N.eqb_sym, E10. apply (IH r H).
Qed.

(* ---- inline expressions, elements, patterns of the fragment ---- *)
Lemma writes_simple_inline i : simple_inline i = true -> writes (serialize_inline_expression i) (inline_text i).
Proof.
  destruct i as [s | v | id args | id att | id att args | id | e]; cbn [simple_inline]; intros Hi; try discriminate Hi;
    cbn [serialize_inline_expression inline_text].
  - apply andb_prop in Hi as [Hwf _].
    change (34%N :: s ++ [34%N]) with ([34%N] ++ s ++ [34%N]).
    apply writes_seq; [apply writes_lit; reflexivity|].
    apply writes_seq; [apply writes_literal, (wf_string_fuel_lf_free _ _ Hwf) | apply writes_lit; reflexivity].
  - apply writes_literal, wf_number_lf_free, Hi.
  - destruct att as [a|].
    + apply andb_prop in Hi as [H1 H2].
      apply writes_seq; [apply writes_literal, wf_identifier_lf_free, H1|].
      change (46%N :: a) with ([46%N] ++ a).
      apply writes_seq; [apply writes_lit; reflexivity | apply writes_literal, wf_identifier_lf_free, H2].
    + apply writes_seq; [apply writes_literal, wf_identifier_lf_free, Hi | apply writes_skip].
  - destruct att; [discriminate|]. destruct args; [discriminate|].
    replace (45%N :: id) with ([45%N] ++ id ++ [] ++ []) by (cbn [app]; rewrite app_nil_r; reflexivity).
    apply writes_seq; [apply writes_lit; reflexivity|].
    apply writes_seq; [apply writes_literal, wf_identifier_lf_free, Hi|].
    apply writes_seq; apply writes_skip.
  - change (36%N :: id) with ([36%N] ++ id).
    apply writes_seq; [apply writes_lit; reflexivity | apply writes_literal, wf_identifier_lf_free, Hi].
Qed.

Definition element_text (el : pattern_element) : bytes :=
  match el with
  | TextElement v => v
  | PlaceableElement (Inline i) => [123; 32]%N ++ inline_text i ++ [32; 125]%N
  | _ => []
  end.
Definition line_text (els : list pattern_element) : bytes := concat (map element_text els).

(* the element loop of serialize_pattern as a function of the list *)
Fixpoint ser_els (l : list pattern_element) : W :=
  match l with
  | [] => wskip
  | el :: r => serialize_element el >> ser_els r
  end.

Lemma serialize_pattern_els els :
  serialize_pattern (Pattern els) =
  ((if starts_on_new_line (Pattern els) then newline >> indent else lit " " >> indent) >> ser_els els >> dedent).
Proof. reflexivity. Qed.

Lemma writes_simple_elements els : forall prev, simple_elements els prev = true -> writes (ser_els els) (line_text els).
Proof.
  induction els as [|el r IH]; intros prev Hs; [apply writes_skip|].
  unfold line_text. cbn [map concat ser_els].
  destruct el as [v | [sel vs | i]]; cbn [simple_elements] in Hs; try discriminate Hs.
  - apply andb_prop in Hs as [Hs Hr]. apply andb_prop in Hs as [_ Hv].
    destruct (inner_text_spec v Hv) as (b & t & _ & _ & Hline).
    apply writes_seq; [|apply (IH true Hr)]. cbn [serialize_element element_text].
    apply writes_literal, text_line_no_lf, Hline.
  - apply andb_prop in Hs as [Hi Hr].
    apply writes_seq; [|apply (IH false Hr)]. cbn [element_text].
    assert (Hw : writes (lit "{ " >> serialize_expression (Inline i) >> lit " }") ([123; 32]%N ++ inline_text i ++ [32; 125]%N)).
    { apply writes_seq; [apply writes_lit; reflexivity|].
      apply writes_seq; [apply (writes_simple_inline i Hi) | apply writes_lit; reflexivity]. }
    destruct i as [s | v | id args | id att | id att args | id | e]; try discriminate Hi; exact Hw.
Qed.

Lemma simple_elements_not_multiline els : forall prev, simple_elements els prev = true ->
  existsb (fun el => match el with TextElement v => contains_lf v | PlaceableElement e => is_select_expr e end) els = false.
Proof.
  induction els as [|el r IH]; intros prev Hs; [reflexivity|]. cbn [existsb].
  destruct el as [v | [sel vs | i]]; cbn [simple_elements] in Hs; try discriminate Hs.
  - apply andb_prop in Hs as [Hs Hr]. apply andb_prop in Hs as [_ Hv].
    destruct (inner_text_spec v Hv) as (b & t & _ & _ & Hline).
    rewrite (IH true Hr). unfold contains_lf. rewrite (text_line_no_lf v Hline). reflexivity.
  - apply andb_prop in Hs as [Hi Hr]. rewrite (IH false Hr).
    destruct i; try discriminate Hi; reflexivity.
Qed.

(* " " and the line: what serialize_pattern writes for a one-line pattern, from the middle of a line *)
Lemma serialize_simple_pattern els x :
  simple_pattern (Pattern els) = true -> ends_with 10 x = false ->
  serialize_pattern (Pattern els) x = Done (Writer (rev (line_text els) ++ 32%N :: rbuf x) (indent_level x)) /\
  ends_with 10 (Writer (rev (line_text els) ++ 32%N :: rbuf x) (indent_level x)) = false.
Proof.
  intros Hp H10. pose proof (simple_pattern_elements els Hp) as Hs.
  rewrite serialize_pattern_els.
  replace (starts_on_new_line (Pattern els)) with false.
  2:{ unfold starts_on_new_line, is_multiline. cbn [pattern_elements].
      rewrite (simple_elements_not_multiline els false Hs), andb_false_r. reflexivity. }
  destruct (writes_lit " " eq_refl x H10) as [E1 H1]. cbn [bytes_of_string rev app] in E1, H1.
  unfold wseq at 1. unfold wseq at 1. rewrite E1. cbn [obind]. unfold indent at 1. cbn [obind rbuf indent_level].
  destruct (writes_simple_elements els false Hs (Writer (N_of_ascii " " :: rbuf x) (S (indent_level x))) H1) as [E2 H2].
  cbn [rbuf indent_level] in E2, H2.
  unfold wseq. rewrite E2. cbn [obind]. unfold dedent. cbn [indent_level rbuf].
  split; [reflexivity|]. exact H2.
Qed.

Lemma newline_plain x : ends_with 13 x = false -> newline x = Done (Writer (10%N :: rbuf x) (indent_level x)).
Proof. intros H. unfold newline. rewrite H. reflexivity. Qed.

Lemma ends_with_rev_app c l b r lvl : ends_with c (Writer (rev (l ++ [b]) ++ r) lvl) = N.eqb b c.
Proof. unfold ends_with. cbn [rbuf]. rewrite rev_app_distr. reflexivity. Qed.

(* ---- attributes ---- *)
Definition mid_line (x : writer) : Prop := ends_with 10 x = false /\ ends_with 13 x = false.

Lemma element_text_last el prev r : simple_elements (el :: r) prev = true ->
  exists l0 b, element_text el = l0 ++ [b] /\ N.eqb b 10 = false /\ N.eqb b 13 = false.
Proof.
  intros Hs. destruct el as [v | [sel vs | i]]; cbn [simple_elements] in Hs; try discriminate Hs.
  - apply andb_prop in Hs as [Hs _]. apply andb_prop in Hs as [_ Hv].
    destruct (inner_text_spec v Hv) as (b & t & Ev & _ & Hline).
    assert (Hne : v <> []) by (rewrite Ev; discriminate).
    exists (removelast v), (last v 0%N). split; [apply app_removelast_last, Hne|].
    pose proof (last_in v 0%N Hne) as Hin. unfold text_line in Hline. rewrite forallb_forall in Hline.
    apply Hline in Hin. apply wf_text_byte_spec in Hin as (_ & _ & H13 & H10). split; assumption.
  - cbn [element_text]. exists ([123; 32]%N ++ inline_text i ++ [32%N]), 125%N.
    split; [rewrite <- !app_assoc; reflexivity | split; reflexivity].
Qed.

Lemma line_text_mid_line els : forall prev r lvl, els <> [] -> simple_elements els prev = true ->
  mid_line (Writer (rev (line_text els) ++ r) lvl).
Proof.
  induction els as [|el rest IH]; intros prev r lvl Hne Hs; [congruence|].
  unfold line_text. cbn [map concat]. rewrite rev_app_distr, <- app_assoc.
  destruct rest as [|el2 rest2].
  - cbn [map concat rev app]. destruct (element_text_last el prev [] Hs) as (l0 & b & -> & H10 & H13).
    split; rewrite ends_with_rev_app; assumption.
  - assert (Hs' : exists prev', simple_elements (el2 :: rest2) prev' = true).
    { destruct el as [v | [sel vs | i]]; cbn [simple_elements] in Hs; try discriminate Hs.
      - apply andb_prop in Hs as [_ Hs]. exists true. exact Hs.
      - apply andb_prop in Hs as [_ Hs]. exists false. exact Hs. }
    destruct Hs' as [prev' Hs']. apply (IH prev' _ lvl ltac:(discriminate) Hs').
Qed.

Lemma mid_line_pattern els r lvl : simple_pattern (Pattern els) = true -> mid_line (Writer (rev (line_text els) ++ r) lvl).
Proof.
  intros Hp. destruct (simple_pattern_parts els Hp) as (Hne & Hs & _). apply (line_text_mid_line els false r lvl Hne Hs).
Qed.

Definition attr_text (a : attribute) : bytes :=
  match attr_value a with
  | Pattern els => [10; 32; 32; 32; 32; 46]%N ++ attr_id a ++ [32; 61; 32]%N ++ line_text els
  end.
Definition attrs_text (attrs : list attribute) : bytes := concat (map attr_text attrs).

Lemma serialize_simple_attribute a x :
  simple_attribute a = true -> mid_line x -> indent_level x = 1 ->
  (newline >> serialize_attribute a) x = Done (Writer (rev (attr_text a) ++ rbuf x) 1).
Proof.
  intros Ha [H10 H13] Hl. destruct (simple_attribute_spec a Ha) as (aid & els & -> & Hid & Hv).
  destruct (wf_identifier_last aid Hid) as (i0 & ib & Eid & Hib10 & Hib13).
  unfold wseq at 1. rewrite (newline_plain x H13). cbn [obind].
  unfold serialize_attribute. cbn [attr_id attr_value].
  unfold wseq at 1. unfold lit at 1. cbn [bytes_of_string]. unfold write_literal at 1.
  replace (ends_with 10 (Writer (10%N :: rbuf x) (indent_level x))) with true by reflexivity.
  unfold write_indent, push_bytes. cbn [rbuf indent_level]. rewrite Hl.
  cbn [indent_bytes]. unfold Gen.Extracted.SERIALIZER_INDENT. cbn [app rev].
  replace (ends_with 13 _ && _) with false by reflexivity. cbn [obind rbuf indent_level].
  unfold wseq at 1. rewrite write_literal_mid by reflexivity. cbn [obind]. unfold push_bytes at 1.
  cbn [rbuf indent_level].
  unfold wseq at 1. unfold lit. cbn [bytes_of_string].
  rewrite write_literal_mid by (rewrite Eid, ends_with_rev_app; assumption).
  cbn [obind]. unfold push_bytes. cbn [rev app rbuf indent_level].
  match goal with |- serialize_pattern _ ?y = _ => destruct (serialize_simple_pattern els y Hv eq_refl) as [Ep _] end.
  rewrite Ep.
  cbn [rbuf indent_level attr_text attr_value attr_id]. do 2 f_equal.
  rewrite !rev_app_distr. cbn [rev app]. rewrite <- !app_assoc. reflexivity.
Qed.

Lemma attr_text_mid_line a r lvl : simple_attribute a = true -> mid_line (Writer (rev (attr_text a) ++ r) lvl).
Proof.
  intros Ha. destruct (simple_attribute_spec a Ha) as (aid & els & -> & Hid & Hv).
  cbn [attr_text attr_value attr_id]. rewrite !app_assoc, rev_app_distr, <- app_assoc. apply mid_line_pattern, Hv.
Qed.

Lemma serialize_simple_attrs_loop attrs : forall x,
  forallb simple_attribute attrs = true -> mid_line x -> indent_level x = 1 ->
  serialize_attrs_loop attrs x = Done (Writer (rev (attrs_text attrs) ++ rbuf x) 1) /\
  mid_line (Writer (rev (attrs_text attrs) ++ rbuf x) 1).
Proof.
  induction attrs as [|a r IH]; intros x Hs Hm Hl.
  - cbn [serialize_attrs_loop attrs_text map concat rev app]. unfold wskip.
    destruct x as [rb lvl]. cbn [indent_level] in Hl. subst lvl. split; [reflexivity | exact Hm].
  - cbn [forallb] in Hs. apply andb_prop in Hs as [Ha Hr]. cbn [serialize_attrs_loop].
    rewrite <- wseq_assoc. unfold wseq at 1. rewrite (serialize_simple_attribute a x Ha Hm Hl). cbn [obind].
    destruct (IH (Writer (rev (attr_text a) ++ rbuf x) 1) Hr (attr_text_mid_line a _ _ Ha) eq_refl) as [E Hm'].
    cbn [rbuf] in E, Hm'.
    assert (Et : rev (attrs_text (a :: r)) ++ rbuf x = rev (attrs_text r) ++ rev (attr_text a) ++ rbuf x).
    { unfold attrs_text. cbn [map concat]. rewrite rev_app_distr, <- app_assoc. reflexivity. }
    rewrite Et. split; [exact E | exact Hm'].
Qed.

Lemma serialize_simple_attributes attrs x :
  forallb simple_attribute attrs = true -> mid_line x -> indent_level x = 0 ->
  serialize_attributes attrs x = Done (Writer (rev (attrs_text attrs) ++ rbuf x) 0) /\
  mid_line (Writer (rev (attrs_text attrs) ++ rbuf x) 0).
Proof.
  intros Hs Hm Hl. destruct attrs as [|a r].
  - cbn [serialize_attributes attrs_text map concat rev app]. unfold wskip.
    destruct x as [rb lvl]. cbn [indent_level] in Hl. subst lvl. split; [reflexivity | exact Hm].
  - unfold serialize_attributes. unfold wseq at 1. unfold indent. cbn [obind]. rewrite Hl.
    destruct (serialize_simple_attrs_loop (a :: r) (Writer (rbuf x) 1) Hs Hm eq_refl) as [E Hm'].
    unfold wseq. rewrite E. cbn [obind rbuf]. unfold dedent. cbn [indent_level rbuf].
    split; [reflexivity | exact Hm'].
Qed.

(* ---- comments ---- *)
(* the serializer writes a line of fluent whitespace only as an empty line *)
Definition nz_line (l : bytes) : bytes := if all_fluent_ws l then [] else l.

Lemma simple_comment_line_last l : simple_comment_line l = true -> l <> [] -> N.eqb (last l 0%N) 13 = false.
Proof.
  unfold simple_comment_line. intros H Hne. apply andb_prop in H as [Hwf _].
  unfold wf_comment_line in Hwf. rewrite forallb_forall in Hwf. pose proof (Hwf _ (last_in l 0%N Hne)) as Hb.
  apply negb_true_iff, orb_false_elim in Hb as [_ H13]. exact H13.
Qed.

Definition hash_prefix (P : bytes) : Prop := P = [35%N] \/ P = [35; 35]%N \/ P = [35; 35; 35]%N.

Lemma comment_line_text_simple P l : hash_prefix P -> simple_comment_line l = true ->
  comment_line_text P l = P ++ sl (nz_line l) ++ [10%N].
Proof.
  intros HP Hl. unfold comment_line_text, nz_line. destruct (all_fluent_ws l) eqn:Ews.
  - cbn [sl app]. rewrite !app_nil_r. destruct HP as [-> | [-> | ->]]; reflexivity.
  - destruct l as [|b0 l0]; [discriminate Ews|]. cbn [sl]. rewrite <- app_assoc. do 2 f_equal.
    unfold line_end_after. set (l := b0 :: l0) in *.
    replace (P ++ 32%N :: l) with ((P ++ [32%N]) ++ l) by (rewrite <- app_assoc; reflexivity).
    rewrite rev_app_distr, (rev_last l ltac:(discriminate)). cbn [app].
    rewrite (simple_comment_line_last l Hl ltac:(discriminate)). reflexivity.
Qed.

Definition comment_text (P : bytes) (ls : list bytes) : bytes :=
  concat (map (fun l => P ++ sl (nz_line l) ++ [10%N]) ls).

Lemma comment_lines_text_simple P ls : hash_prefix P -> forallb simple_comment_line ls = true ->
  concat (map (comment_line_text P) ls) = comment_text P ls.
Proof.
  intros HP. induction ls as [|l r IH]; intros Hs; [reflexivity|].
  cbn [forallb] in Hs. apply andb_prop in Hs as [Hl Hr]. unfold comment_text in *. cbn [map concat].
  rewrite (comment_line_text_simple P l HP Hl), (IH Hr). reflexivity.
Qed.

(* the lines of a comment, from a line start at level 0 *)
Lemma serialize_simple_comment_lines ls P x :
  hash_prefix P -> forallb simple_comment_line ls = true -> at_line_start x -> indent_level x = 0 ->
  serialize_comment_lines ls P x = Done (Writer (rev (comment_text P ls) ++ rbuf x) 0) /\
  at_line_start (Writer (rev (comment_text P ls) ++ rbuf x) 0).
Proof.
  intros HP Hlines Hs Hl.
  destruct (serialize_comment_lines_spec ls P x Hs Hl) as (x2 & E2 & Hs2 & Hl2 & W2).
  unfold written in W2. rewrite (comment_lines_text_simple P ls HP Hlines) in W2.
  apply (f_equal (@rev N)) in W2. rewrite rev_involutive, rev_app_distr, rev_involutive in W2.
  assert (Ex : x2 = Writer (rev (comment_text P ls) ++ rbuf x) 0).
  { destruct x2 as [r2 l2]. cbn [rbuf indent_level] in *. subst. reflexivity. }
  rewrite <- Ex. split; [exact E2 | exact Hs2].
Qed.

Definition lead (wrote : bool) : bytes := if wrote then [10%N] else [].

(* a stand-alone comment: a blank line in front unless it is the first entry, the lines, a blank line *)
Lemma serialize_simple_free_comment wrote ls P x :
  hash_prefix P -> forallb simple_comment_line ls = true -> at_line_start x -> indent_level x = 0 ->
  serialize_free_comment wrote (Comment ls) P x =
  Done (Writer (rev (lead wrote ++ comment_text P ls ++ [10%N]) ++ rbuf x) 0).
Proof.
  intros HP Hlines Hs Hl.
  unfold serialize_free_comment.
  assert (H1 : exists x1, (if wrote then newline else wskip) x = Done x1 /\ at_line_start x1 /\ indent_level x1 = 0 /\
                          rbuf x1 = rev (lead wrote) ++ rbuf x).
  { destruct wrote; cbn [lead rev app].
    - rewrite (newline_plain x (at_line_start_no_cr _ Hs)). eexists. split; [reflexivity|].
      split; [right; eexists; reflexivity | split; [exact Hl | reflexivity]].
    - exists x. split; [reflexivity | split; [exact Hs | split; [exact Hl | reflexivity]]]. }
  destruct H1 as (x1 & E1 & Hs1 & Hl1 & Hr1).
  unfold wseq at 1. rewrite E1. cbn [obind].
  destruct (serialize_simple_comment_lines ls P x1 HP Hlines Hs1 Hl1) as [E2 Hs2].
  unfold wseq, serialize_comment. cbn [content]. rewrite E2. cbn [obind].
  rewrite (newline_plain _ (at_line_start_no_cr _ Hs2)). cbn [rbuf indent_level]. do 2 f_equal.
  rewrite Hr1. rewrite !rev_app_distr. cbn [rev app]. rewrite <- !app_assoc. reflexivity.
Qed.

Definition plain_entry_text (wrote : bool) (e : entry) : bytes :=
  match e with
  | Message id (Some (Pattern els)) attrs _ =>
      id ++ [32; 61; 32]%N ++ line_text els ++ attrs_text attrs ++ [10%N]
  | Message id None attrs _ => id ++ [32; 61]%N ++ attrs_text attrs ++ [10%N]
  | Term id (Pattern els) attrs _ =>
      45%N :: id ++ [32; 61; 32]%N ++ line_text els ++ attrs_text attrs ++ [10%N]
  | CommentEntry c => lead wrote ++ comment_text [35%N] (content c) ++ [10%N]
  | GroupComment c => lead wrote ++ comment_text [35; 35]%N (content c) ++ [10%N]
  | ResourceComment c => lead wrote ++ comment_text [35; 35; 35]%N (content c) ++ [10%N]
  | _ => []
  end.

Lemma serialize_plain_entry with_junk e st :
  plain_entry e = true -> at_line_start (w st) -> indent_level (w st) = 0 ->
  serialize_entry with_junk st e =
  Done (SState (Writer (rev (plain_entry_text (wrote_non_junk_entry st) e) ++ rbuf (w st)) 0) true).
Proof.
  intros He Hs Hl.
  destruct e as [id [p|] attrs [|]|id p attrs [|]|[ls]|[ls]|[ls]|]; try discriminate; cbn [plain_entry] in He.
  4-6: (unfold serialize_entry; cbn [is_junk negb orb]; rewrite orb_true_r;
        rewrite serialize_simple_free_comment by (try exact (proj1 (simple_comment_spec _ He)); try assumption; unfold hash_prefix; auto);
        reflexivity).
  all: apply andb_prop in He as [He Hattrs]; apply andb_prop in He as [Hid Hp];
    destruct (wf_identifier_last id Hid) as (i0 & ib & Eid & Hib10 & Hib13).
  - destruct (simple_pattern_spec p Hp) as [els [-> Hv]].
    unfold serialize_entry. cbn [is_junk negb orb]. rewrite orb_true_r.
    unfold serialize_message, serialize_opt_comment.
    unfold wseq at 1. unfold wskip at 1. cbn [obind].
    unfold wseq at 1. rewrite (write_literal_plain id (w st) Hl (at_line_start_no_cr _ Hs)). cbn [obind].
    unfold wseq at 1. unfold lit. cbn [bytes_of_string].
    rewrite write_literal_mid by (rewrite Eid, ends_with_rev_app; assumption).
    cbn [obind]. unfold push_bytes. cbn [rev app rbuf indent_level].
    unfold wseq at 1.
    match goal with |- context [serialize_pattern _ ?y] => destruct (serialize_simple_pattern els y Hv eq_refl) as [Ep _] end.
    rewrite Ep. cbn [obind rbuf indent_level].
    match goal with |- context [(serialize_attributes attrs >> newline) ?x] =>
      destruct (serialize_simple_attributes attrs x Hattrs (mid_line_pattern els _ 0 Hv) eq_refl) as [Ea [_ Hm13]] end.
    unfold wseq. rewrite Ea. cbn [obind].
    rewrite newline_plain by exact Hm13.
    cbn [obind rbuf indent_level plain_entry_text]. do 3 f_equal.
    rewrite !rev_app_distr. cbn [rev app]. rewrite <- !app_assoc. reflexivity.
  - unfold serialize_entry. cbn [is_junk negb orb]. rewrite orb_true_r.
    unfold serialize_message, serialize_opt_comment.
    unfold wseq at 1. unfold wskip at 1. cbn [obind].
    unfold wseq at 1. rewrite (write_literal_plain id (w st) Hl (at_line_start_no_cr _ Hs)). cbn [obind].
    unfold wseq at 1. unfold lit. cbn [bytes_of_string].
    rewrite write_literal_mid by (rewrite Eid, ends_with_rev_app; assumption).
    cbn [obind]. unfold push_bytes. cbn [rev app rbuf indent_level].
    unfold wseq at 1. unfold wskip at 1. cbn [obind].
    match goal with |- context [(serialize_attributes attrs >> newline) ?x] =>
      destruct (serialize_simple_attributes attrs x Hattrs (conj eq_refl eq_refl) eq_refl) as [Ea [_ Hm13]] end.
    unfold wseq. rewrite Ea. cbn [obind].
    rewrite newline_plain by exact Hm13.
    cbn [obind rbuf indent_level plain_entry_text]. do 3 f_equal.
    rewrite !rev_app_distr. cbn [rev app]. rewrite <- !app_assoc. reflexivity.
  - destruct (simple_pattern_spec p Hp) as [els [-> Hv]].
    unfold serialize_entry. cbn [is_junk negb orb]. rewrite orb_true_r.
    unfold serialize_term, serialize_opt_comment.
    unfold wseq at 1. unfold wskip at 1. cbn [obind].
    unfold wseq at 1. unfold lit at 1. cbn [bytes_of_string].
    rewrite (write_literal_plain _ (w st) Hl (at_line_start_no_cr _ Hs)). cbn [obind].
    unfold wseq at 1. rewrite write_literal_mid by reflexivity. cbn [obind].
    unfold push_bytes at 1. cbn [rev app rbuf indent_level].
    unfold wseq at 1. unfold lit. cbn [bytes_of_string].
    rewrite write_literal_mid by (rewrite Eid, ends_with_rev_app; assumption).
    cbn [obind]. unfold push_bytes. cbn [rev app rbuf indent_level].
    unfold wseq at 1.
    match goal with |- context [serialize_pattern _ ?y] => destruct (serialize_simple_pattern els y Hv eq_refl) as [Ep _] end.
    rewrite Ep. cbn [obind rbuf indent_level].
    match goal with |- context [(serialize_attributes attrs >> newline) ?x] =>
      destruct (serialize_simple_attributes attrs x Hattrs (mid_line_pattern els _ 0 Hv) eq_refl) as [Ea [_ Hm13]] end.
    unfold wseq. rewrite Ea. cbn [obind].
    rewrite newline_plain by exact Hm13.
    cbn [obind rbuf indent_level plain_entry_text]. do 3 f_equal.
    cbn [rev]. rewrite !rev_app_distr. cbn [rev app]. rewrite <- !app_assoc. reflexivity.
Qed.

(* ---- entries with an attached comment ---- *)
Definition attached_text (e : entry) : bytes :=
  match entry_comment e with Some c => comment_text [35%N] (content c) | None => [] end.
Definition simple_entry_text (wrote : bool) (e : entry) : bytes := attached_text e ++ plain_entry_text wrote e.

Lemma serialize_attached with_junk st e0 ls :
  is_message_or_term e0 = true -> entry_comment e0 = None ->
  serialize_entry with_junk st (attach e0 (Comment ls)) =
  let* x1 := serialize_comment_lines ls [35%N] (w st) in
  serialize_entry with_junk (SState x1 (wrote_non_junk_entry st)) e0.
Proof.
  intros Hmt Hc. destruct e0 as [id v a cm|id v a cm| | | |]; try discriminate Hmt; cbn [entry_comment] in Hc; subst cm;
    cbn [attach]; unfold serialize_entry; cbn [is_junk negb orb w wrote_non_junk_entry].
  - unfold serialize_message, serialize_opt_comment, serialize_comment. cbn [content].
    unfold wseq at 1. destruct (serialize_comment_lines ls [35%N] (w st)); reflexivity.
  - unfold serialize_term, serialize_opt_comment, serialize_comment. cbn [content].
    unfold wseq at 1. destruct (serialize_comment_lines ls [35%N] (w st)); reflexivity.
Qed.

Lemma plain_entry_text_attach wrote e0 c : is_message_or_term e0 = true ->
  plain_entry_text wrote (attach e0 c) = plain_entry_text wrote e0.
Proof. destruct e0; try discriminate; reflexivity. Qed.

Lemma serialize_simple_entry with_junk e st :
  simple_entry e = true -> at_line_start (w st) -> indent_level (w st) = 0 ->
  serialize_entry with_junk st e =
  Done (SState (Writer (rev (simple_entry_text (wrote_non_junk_entry st) e) ++ rbuf (w st)) 0) true).
Proof.
  intros He Hs Hl. unfold simple_entry_text, attached_text.
  destruct (simple_entry_cases e He) as [[Hc Hp] | (e0 & ls & -> & Hmt & Hc & Hp & Hcm)].
  - rewrite Hc. cbn [app]. apply (serialize_plain_entry with_junk e st Hp Hs Hl).
  - rewrite (serialize_attached with_junk st e0 ls Hmt Hc).
    destruct (simple_comment_spec ls Hcm) as [Hlines _].
    destruct (serialize_simple_comment_lines ls [35%N] (w st) (or_introl eq_refl) Hlines Hs Hl) as [E1 Hs1].
    rewrite E1. cbn [obind].
    rewrite (serialize_plain_entry with_junk e0 (SState (Writer (rev (comment_text [35%N] ls) ++ rbuf (w st)) 0) (wrote_non_junk_entry st))
               Hp Hs1 eq_refl). cbn [w rbuf wrote_non_junk_entry].
    replace (entry_comment (attach e0 (Comment ls))) with (Some (Comment ls))
      by (destruct e0; try discriminate Hmt; reflexivity).
    cbn [content]. rewrite (plain_entry_text_attach _ e0 _ Hmt). rewrite rev_app_distr, <- app_assoc. reflexivity.
Qed.

Fixpoint simple_text_from (wrote : bool) (t : resource) : bytes :=
  match t with
  | [] => []
  | e :: r => simple_entry_text wrote e ++ simple_text_from true r
  end.
Definition simple_resource_text (t : resource) : bytes := simple_text_from false t.

Lemma plain_entry_text_ends_lf wrote e : plain_entry e = true -> exists l, plain_entry_text wrote e = l ++ [10%N].
Proof.
  destruct e as [id [p|] attrs [|]|id p attrs [|]|c|c|c|]; try discriminate; cbn [plain_entry]; intros He.
  4-6: (cbn [plain_entry_text]; eexists; rewrite app_assoc; reflexivity).
  all: apply andb_prop in He as [He _]; apply andb_prop in He as [_ Hp].
  - destruct (simple_pattern_spec p Hp) as [els [-> Hv]]. cbn [plain_entry_text].
    exists (id ++ [32; 61; 32]%N ++ line_text els ++ attrs_text attrs). norm_app. reflexivity.
  - cbn [plain_entry_text]. exists (id ++ [32; 61]%N ++ attrs_text attrs). norm_app. reflexivity.
  - destruct (simple_pattern_spec p Hp) as [els [-> Hv]]. cbn [plain_entry_text].
    exists (45%N :: id ++ [32; 61; 32]%N ++ line_text els ++ attrs_text attrs). norm_app. reflexivity.
Qed.

Lemma simple_entry_text_ends_lf wrote e : simple_entry e = true -> exists l, simple_entry_text wrote e = l ++ [10%N].
Proof.
  intros He. unfold simple_entry_text.
  destruct (simple_entry_cases e He) as [[Hc Hp] | (e0 & ls & -> & Hmt & Hc & Hp & Hcm)].
  - destruct (plain_entry_text_ends_lf wrote e Hp) as [l El]. exists (attached_text e ++ l). rewrite El, app_assoc. reflexivity.
  - rewrite (plain_entry_text_attach _ e0 _ Hmt). destruct (plain_entry_text_ends_lf wrote e0 Hp) as [l El].
    eexists. rewrite El, app_assoc. reflexivity.
Qed.

Lemma serialize_simple_resource with_junk t : forall st,
  simple_resource t = true -> at_line_start (w st) -> indent_level (w st) = 0 ->
  exists wrote, serialize_resource with_junk st t =
  Done (SState (Writer (rev (simple_text_from (wrote_non_junk_entry st) t) ++ rbuf (w st)) 0) wrote).
Proof.
  induction t as [|e r IH]; intros st Ht Hs Hl.
  - exists (wrote_non_junk_entry st). cbn [serialize_resource simple_text_from rev app].
    destruct st as [[rb lvl] wr]. cbn [w indent_level] in Hl. subst lvl. reflexivity.
  - cbn [simple_resource forallb] in Ht. apply andb_prop in Ht as [He Hr].
    cbn [serialize_resource]. rewrite (serialize_simple_entry with_junk e st He Hs Hl). cbn [obind].
    destruct (simple_entry_text_ends_lf (wrote_non_junk_entry st) e He) as [l El].
    destruct (IH (SState (Writer (rev (simple_entry_text (wrote_non_junk_entry st) e) ++ rbuf (w st)) 0) true) Hr) as [wrote E].
    + right. cbn [w rbuf]. rewrite El, rev_app_distr. eexists. reflexivity.
    + reflexivity.
    + exists wrote. rewrite E. cbn [w rbuf wrote_non_junk_entry simple_text_from].
      rewrite rev_app_distr, <- app_assoc. reflexivity.
Qed.

Theorem serialize_simple with_junk t : simple_resource t = true ->
  serialize_with_options with_junk t = Done (simple_resource_text t).
Proof.
  intros Ht. unfold serialize_with_options.
  destruct (serialize_simple_resource with_junk t (SState (Writer [] 0) false) Ht (or_introl eq_refl) eq_refl)
    as [wrote E].
  rewrite E. cbn [obind w rbuf wrote_non_junk_entry]. rewrite app_nil_r, rev_involutive. reflexivity.
Qed.

(* ---- the tree the serializer's text stands for: whitespace-only comment lines have become empty ---- *)
Definition nz_comment (c : comment) : comment := Comment (map nz_line (content c)).
Definition nz_entry (e : entry) : entry :=
  match e with
  | Message id v a c => Message id v a (option_map nz_comment c)
  | Term id v a c => Term id v a (option_map nz_comment c)
  | CommentEntry c => CommentEntry (nz_comment c)
  | GroupComment c => GroupComment (nz_comment c)
  | ResourceComment c => ResourceComment (nz_comment c)
  | Junk j => Junk j
  end.
Definition nz_resource (t : resource) : resource := map nz_entry t.

Lemma nz_line_idem l : nz_line (nz_line l) = nz_line l.
Proof. unfold nz_line. destruct (all_fluent_ws l) eqn:E; [reflexivity | rewrite E; reflexivity]. Qed.

Lemma nz_line_simple l : simple_comment_line l = true -> simple_comment_line (nz_line l) = true.
Proof. unfold nz_line. destruct (all_fluent_ws l); [reflexivity | auto]. Qed.

Lemma nonspace_not_ws l : wf_comment_line l = true -> existsb (fun b => negb (N.eqb b 32)) l = true -> all_fluent_ws l = false.
Proof.
  intros Hwf Hex. apply existsb_exists in Hex as [b [Hb Hb32]]. apply negb_true_iff in Hb32.
  unfold wf_comment_line in Hwf. rewrite forallb_forall in Hwf. pose proof (Hwf b Hb) as Hb'.
  apply negb_true_iff, orb_false_elim in Hb' as [H10 H13].
  unfold all_fluent_ws. apply not_true_is_false. intros Hall. rewrite forallb_forall in Hall.
  specialize (Hall b Hb). rewrite Hb32, H13, H10 in Hall. discriminate.
Qed.

Lemma last_map {X Y} (f : X -> Y) (l : list X) d : l <> [] -> last (map f l) (f d) = f (last l d).
Proof.
  induction l as [|a l IH]; [congruence|]. intros _. destruct l as [|b l]; [reflexivity|].
  change (last (map f (a :: b :: l)) (f d)) with (last (map f (b :: l)) (f d)). apply IH. discriminate.
Qed.

Lemma last_in_list {X} (l : list X) d : l <> [] -> In (last l d) l.
Proof.
  induction l as [|a l IH]; [congruence|]. intros _. destruct l as [|b l]; [left; reflexivity|].
  right. apply IH. discriminate.
Qed.

Lemma nz_comment_simple ls : simple_comment (Comment ls) = true -> simple_comment (nz_comment (Comment ls)) = true.
Proof.
  unfold simple_comment, nz_comment. cbn [content]. intros H.
  assert (Hne : ls <> []) by (destruct ls; [discriminate H | discriminate]).
  assert (H' : forallb simple_comment_line ls && existsb (fun b => negb (N.eqb b 32)) (last ls []) = true)
    by (destruct ls; [congruence | exact H]).
  apply andb_prop in H' as [H1 H2].
  destruct (map nz_line ls) as [|m ms] eqn:Em; [destruct ls; [congruence | discriminate Em]|].
  rewrite <- Em. apply andb_true_intro. split.
  - rewrite forallb_forall in *. intros x Hx. apply in_map_iff in Hx as [y [<- Hy]]. apply nz_line_simple, H1, Hy.
  - change (@nil N) with (nz_line []) at 1. rewrite (last_map nz_line ls [] Hne).
    assert (Hl : simple_comment_line (last ls []) = true).
    { rewrite forallb_forall in H1. apply H1, last_in_list, Hne. }
    unfold nz_line. apply andb_prop in Hl as [Hwf _]. rewrite (nonspace_not_ws _ Hwf H2). exact H2.
Qed.

Lemma nz_entry_simple e : simple_entry e = true -> simple_entry (nz_entry e) = true.
Proof.
  unfold simple_entry. intros H. apply andb_prop in H as [Hp Hc].
  destruct e as [id v a [[ls]|]|id v a [[ls]|]|[ls]|[ls]|[ls]|j];
    cbn [nz_entry strip_comment entry_comment option_map plain_entry] in *;
    rewrite ?Hp; cbn [andb]; try reflexivity; try (apply nz_comment_simple; assumption).
  all: rewrite (nz_comment_simple ls Hp); reflexivity.
Qed.

Lemma nz_resource_simple t : simple_resource t = true -> simple_resource (nz_resource t) = true.
Proof.
  unfold simple_resource, nz_resource. rewrite !forallb_forall. intros H e He.
  apply in_map_iff in He as [e0 [<- He0]]. apply nz_entry_simple, H, He0.
Qed.

(* the serializer's text is one of the layouts of that tree *)
Lemma line_text_layout els : forall prev, simple_elements els prev = true -> line_layout els (line_text els).
Proof.
  induction els as [|el r IH]; intros prev Hs; [constructor|].
  unfold line_text. cbn [map concat].
  destruct el as [v | [sel vs | i]]; cbn [simple_elements] in Hs; try discriminate Hs.
  - apply andb_prop in Hs as [_ Hr]. cbn [element_text]. constructor. apply (IH true Hr).
  - apply andb_prop in Hs as [_ Hr]. cbn [element_text].
    replace (([123; 32]%N ++ inline_text i ++ [32; 125]%N) ++ concat (map element_text r))
      with (123%N :: sp 1 ++ inline_text i ++ sp 1 ++ 125%N :: line_text r)
      by (unfold line_text; cbn [sp repeat app]; rewrite <- !app_assoc; reflexivity).
    constructor; [apply all_blank_sp | apply all_blank_sp | apply (IH false Hr)].
Qed.

Lemma attrs_text_layout attrs : forallb simple_attribute attrs = true -> attrs_layout attrs (attrs_text attrs).
Proof.
  induction attrs as [|a r IH]; intros Hs; [constructor|].
  cbn [forallb] in Hs. apply andb_prop in Hs as [Ha Hr].
  unfold attrs_text. cbn [map concat]. constructor; [|apply IH, Hr].
  destruct (simple_attribute_spec a Ha) as (aid & els & -> & _ & Hp).
  cbn [attr_text attr_value attr_id].
  replace ([10; 32; 32; 32; 32; 46]%N ++ aid ++ [32; 61; 32]%N ++ line_text els)
    with (lf ++ sp 4 ++ 46%N :: aid ++ sp 1 ++ 61%N :: sp 1 ++ line_text els) by reflexivity.
  apply (atl aid els lf 3 1 (sp 1 ++ line_text els)); [left; reflexivity | apply vl_inline, (line_text_layout els false)].
  apply simple_pattern_elements, Hp.
Qed.

Lemma comment_text_layout P ls : ls <> [] ->
  exists C, comment_text P ls = C ++ lf /\ comment_layout P (map nz_line ls) C.
Proof.
  induction ls as [|l r IH]; [congruence|]. intros _. unfold comment_text in *. cbn [map concat].
  destruct r as [|l2 r'].
  - exists (P ++ sl (nz_line l)). split; [cbn [map concat]; rewrite app_nil_r, <- !app_assoc; reflexivity | constructor].
  - destruct (IH ltac:(discriminate)) as [C [EC HC]]. rewrite EC.
    exists (P ++ sl (nz_line l) ++ lf ++ C). split; [rewrite <- !app_assoc; reflexivity|].
    constructor; [left; reflexivity | discriminate | exact HC].
Qed.

(* the text of an entry: the blank line in front of a comment, a layout of the entry, a line end, and for a
   comment the blank line after it *)
Definition trail (e : entry) : bytes := if is_comment_entry e then [10%N] else [].
Definition lead_of (wrote : bool) (e : entry) : bytes := if is_comment_entry e then lead wrote else [].

Lemma plain_entry_text_layout wrote e : plain_entry e = true ->
  exists E, plain_entry_text wrote e = lead_of wrote e ++ E ++ lf ++ trail e /\ plain_layout (nz_entry e) E.
Proof.
  destruct e as [id [p|] attrs [|]|id p attrs [|]|[ls]|[ls]|[ls]|]; try discriminate; cbn [plain_entry]; intros He.
  4-6: (apply simple_comment_ne in He; cbn [content] in He;
        cbn [plain_entry_text content lead_of trail is_comment_entry nz_entry nz_comment];
        match goal with |- context [comment_text ?P ?L] => destruct (comment_text_layout P L He) as [C [EC HC]] end;
        exists C; rewrite EC; split; [rewrite <- !app_assoc; reflexivity | constructor; exact HC]).
  all: apply andb_prop in He as [He Hattrs]; apply andb_prop in He as [_ Hp];
    cbn [lead_of trail is_comment_entry app nz_entry option_map]; rewrite ?app_nil_r.
  - destruct (simple_pattern_spec p Hp) as [els [-> Hv]]. cbn [plain_entry_text].
    exists (id ++ sp 1 ++ 61%N :: (sp 1 ++ line_text els) ++ attrs_text attrs). split.
    + unfold lf. cbn [sp repeat]. norm_app. reflexivity.
    + apply el_message; [apply vl_inline, (line_text_layout els false), simple_pattern_elements, Hv | apply attrs_text_layout, Hattrs].
  - cbn [plain_entry_text].
    exists (id ++ sp 1 ++ 61%N :: attrs_text attrs). split.
    + unfold lf. cbn [sp repeat]. norm_app. reflexivity.
    + apply el_message_novalue; [|apply attrs_text_layout, Hattrs]. destruct attrs; [discriminate Hp | discriminate].
  - destruct (simple_pattern_spec p Hp) as [els [-> Hv]]. cbn [plain_entry_text].
    exists (45%N :: id ++ sp 1 ++ 61%N :: (sp 1 ++ line_text els) ++ attrs_text attrs). split.
    + unfold lf. cbn [sp repeat]. norm_app. reflexivity.
    + apply el_term; [apply vl_inline, (line_text_layout els false), simple_pattern_elements, Hv | apply attrs_text_layout, Hattrs].
Qed.

Lemma simple_entry_text_layout wrote e : simple_entry e = true ->
  exists E, simple_entry_text wrote e = lead_of wrote e ++ E ++ lf ++ trail e /\ entry_layout (nz_entry e) E.
Proof.
  intros He. unfold simple_entry_text, attached_text.
  destruct (simple_entry_cases e He) as [[Hc Hp] | (e0 & ls & -> & Hmt & Hc & Hp & Hcm)].
  - rewrite Hc. cbn [app]. destruct (plain_entry_text_layout wrote e Hp) as [E [EE HE]].
    exists E. split; [exact EE|]. apply el_plain; [|exact HE].
    destruct e as [? ? ? cm|? ? ? cm| | | |]; cbn [entry_comment] in Hc; try subst cm; reflexivity.
  - replace (entry_comment (attach e0 (Comment ls))) with (Some (Comment ls))
      by (destruct e0; try discriminate Hmt; reflexivity).
    cbn [content]. rewrite (plain_entry_text_attach _ e0 _ Hmt).
    destruct (plain_entry_text_layout wrote e0 Hp) as [E [EE HE]]. rewrite EE.
    pose proof (simple_comment_ne _ Hcm) as Hne. cbn [content] in Hne.
    destruct (comment_text_layout [35%N] ls Hne) as [C [EC HC]]. rewrite EC.
    assert (Hnz0 : nz_entry e0 = e0).
    { destruct e0 as [? ? ? cm|? ? ? cm| | | |]; try discriminate Hmt; cbn [entry_comment] in Hc; subst cm; reflexivity. }
    assert (Hl : lead_of wrote (attach e0 (Comment ls)) = [] /\ trail (attach e0 (Comment ls)) = [] /\
                 lead_of wrote e0 = [] /\ trail e0 = []).
    { destruct e0; try discriminate Hmt; repeat split; reflexivity. }
    destruct Hl as (-> & -> & -> & ->). cbn [app]. rewrite !app_nil_r.
    exists (C ++ lf ++ E). split; [rewrite <- !app_assoc; reflexivity|].
    replace (nz_entry (attach e0 (Comment ls))) with (attach e0 (Comment (map nz_line ls)))
      by (destruct e0; try discriminate Hmt; reflexivity).
    rewrite Hnz0 in HE. apply el_attached; try assumption. left; reflexivity.
Qed.

Definition lead_of_list (wrote : bool) (t : resource) : bytes :=
  match t with e :: _ => lead_of wrote e | [] => [] end.

Lemma blank_one : blank_lines_of 1 [10%N].
Proof. apply (bl_cons 0 lf 0 [] (or_introl eq_refl) bl_nil). Qed.
Lemma blank_two : blank_lines_of 2 [10; 10]%N.
Proof. apply (bl_cons 0 lf 1 [10%N] (or_introl eq_refl) blank_one). Qed.

Lemma simple_text_from_layout t : forall wrote, simple_resource t = true ->
  exists S, simple_text_from wrote t = lead_of_list wrote t ++ S /\ entries_layout (nz_resource t) S.
Proof.
  induction t as [|e r IH]; intros wrote Ht; [exists []; split; [reflexivity | constructor]|].
  cbn [simple_resource forallb] in Ht. apply andb_prop in Ht as [He Hr].
  destruct (simple_entry_text_layout wrote e He) as [E [EE HE]].
  destruct (IH true Hr) as [S' [ES' HS']].
  cbn [simple_text_from lead_of_list nz_resource map]. rewrite EE, ES'.
  exists (E ++ lf ++ (trail e ++ lead_of_list true r) ++ S'). split; [rewrite <- !app_assoc; reflexivity|].
  constructor; [exact HE|].
  assert (Hbl : exists c, blank_lines_of c (trail e ++ lead_of_list true r) /\
                          match map nz_entry r with e2 :: _ => min_blank_between (nz_entry e) e2 <= c | [] => True end).
  { unfold trail, lead_of_list, lead_of, lead, min_blank_between.
    destruct r as [|e2 r2].
    - destruct (is_comment_entry e); eexists; (split; [|exact Logic.I]); [apply blank_one | constructor].
    - destruct e as [? ? ? ?|? ? ? ?|?|?|?|?]; try discriminate He;
        destruct e2 as [? ? ? ?|? ? ? ?|?|?|?|?];
        cbn [map nz_entry is_comment_entry comment_level is_message_or_term Nat.eqb andb negb app];
        eexists; (split; [first [apply blank_two | apply blank_one | constructor] | lia]). }
  destruct Hbl as [c [Hbl Hmin]].
  apply (tl_more (nz_entry e) (map nz_entry r) lf c _ S'); [left; reflexivity | exact Hbl | exact HS' | exact Hmin].
Qed.

Lemma simple_resource_text_layout t : simple_resource t = true -> entries_layout (nz_resource t) (simple_resource_text t).
Proof.
  intros Ht. destruct (simple_text_from_layout t false Ht) as [S [ES HS]].
  unfold simple_resource_text. rewrite ES.
  replace (lead_of_list false t) with (@nil N); [exact HS|].
  destruct t as [|e r]; [reflexivity|]. unfold lead_of_list, lead_of, lead. destruct (is_comment_entry e); reflexivity.
Qed.

Theorem parse_serialize_simple with_junk t : simple_resource t = true ->
  exists s, serialize_with_options with_junk t = Done s /\ parse s = Done (nz_resource t, []).
Proof.
  intros Ht. exists (simple_resource_text t). split; [apply serialize_simple, Ht|].
  apply (parse_layout (nz_resource t) _ (nz_resource_simple t Ht)).
  replace (simple_resource_text t) with ([] ++ simple_resource_text t) by reflexivity.
  apply (rl 0 [] (nz_resource t)); [constructor | apply simple_resource_text_layout, Ht].
Qed.

(* the text depends on the tree only through its normal form, which is a fixed point *)
Lemma nz_entry_idem e : nz_entry (nz_entry e) = nz_entry e.
Proof.
  assert (Hc : forall c, nz_comment (nz_comment c) = nz_comment c).
  { intros [ls]. unfold nz_comment. cbn [content]. rewrite map_map. f_equal. apply map_ext. intros l. apply nz_line_idem. }
  destruct e as [? ? ? [c|]|? ? ? [c|]|c|c|c|?]; cbn [nz_entry option_map]; rewrite ?Hc; reflexivity.
Qed.

Lemma comment_text_nz P ls : comment_text P (map nz_line ls) = comment_text P ls.
Proof. unfold comment_text. rewrite map_map. f_equal. apply map_ext. intros l. rewrite nz_line_idem. reflexivity. Qed.

Lemma simple_entry_text_nz wrote e : simple_entry_text wrote (nz_entry e) = simple_entry_text wrote e.
Proof.
  unfold simple_entry_text, attached_text.
  destruct e as [id [[els]|] a [[ls]|]|id [els] a [[ls]|]|[ls]|[ls]|[ls]|j];
    cbn [nz_entry option_map entry_comment nz_comment content plain_entry_text]; rewrite ?comment_text_nz; reflexivity.
Qed.

Lemma simple_text_from_nz t : forall wrote, simple_text_from wrote (nz_resource t) = simple_text_from wrote t.
Proof.
  induction t as [|e r IH]; intros wrote; [reflexivity|].
  cbn [nz_resource map simple_text_from]. rewrite simple_entry_text_nz. f_equal. apply IH.
Qed.

Theorem serialize_nz with_junk t : simple_resource t = true ->
  serialize_with_options with_junk (nz_resource t) = serialize_with_options with_junk t.
Proof.
  intros Ht. rewrite (serialize_simple with_junk _ (nz_resource_simple t Ht)), (serialize_simple with_junk t Ht).
  unfold simple_resource_text. rewrite simple_text_from_nz. reflexivity.
Qed.

(* the normal form differs from the tree only in what C04's comparison ignores *)
Lemma norm_nz_entry e : norm_entry (nz_entry e) = norm_entry e.
Proof.
  assert (Hc : forall c, norm_comment (nz_comment c) = norm_comment c).
  { intros [ls]. unfold norm_comment, nz_comment. cbn [content]. rewrite map_map. f_equal. apply map_ext.
    intros l. unfold nz_line. change (ws_only l) with (all_fluent_ws l).
    destruct (all_fluent_ws l) eqn:E; [reflexivity|]. change (ws_only l) with (all_fluent_ws l). rewrite E. reflexivity. }
  destruct e as [? ? ? [c|]|? ? ? [c|]|c|c|c|?]; unfold norm_entry; cbn [nz_entry option_map join_entry]; rewrite ?Hc; reflexivity.
Qed.

Theorem norm_nz_resource t : norm (nz_resource t) = norm t.
Proof. unfold norm, nz_resource. rewrite map_map. apply map_ext. intros e. apply norm_nz_entry. Qed.

(* Syntax/ParseLemmas.v — "parse of printed" lemmas about the parser model (ParserModel.v).

   Continuation style: the source is `pre ++ printed ++ rest`, the parser stands at ptr = length pre.
   This is written `at_ bs p (printed ++ rest)` (the bytes from ptr on are ...).  Each lemma says what a
   helper of the parser returns on a printed token and where it leaves ptr, under a side condition on the
   first byte of `rest`.  Contents: positions (at_), the monad (bind_ok ...), blanks and line ends
   (skip_blank_inline / skip_blank / skip_eol / skip_blank_block), single bytes (take_byte_if / expect_byte),
   identifiers, number literals, string literals (string_loop, the string arm of get_inline_expression),
   text slices (get_text_slice_xxx), and placeables with a simple inline expression (simple_inline:
   get_inline_expression_simple, get_expression_simple, get_placeable_simple).
   Shared by RoundTrip.v (C02) and SerializerRoundTrip.v (C04).                                       *)
From FluentV Require Import Base.Bytes Base.Outcome Base.Utf8 Base.Utf8Facts.
From FluentV Require Import Syntax.Ast Syntax.ParserModel Syntax.Render.
From Coq Require Import Lia ZifyBool ZifyNat ZifyN.

Arguments N.add : simpl never.
Arguments N.sub : simpl never.
Arguments N.eqb : simpl never.
Arguments N.ltb : simpl never.
Arguments N.leb : simpl never.

(* ---------------------------------------------------------------------------------------------- *)
(* positions                                                                                        *)

Definition at_ (bs : bytes) (p : nat) (l : bytes) : Prop := p <= length bs /\ skipn p bs = l.

Lemma skipn_app_len {X} (a t : list X) : skipn (length a) (a ++ t) = t.
Proof. induction a as [|x a IH]; [reflexivity | exact IH]. Qed.

Lemma firstn_app_len {X} (a t : list X) : firstn (length a) (a ++ t) = a.
Proof. induction a as [|x a IH]; [reflexivity | cbn; f_equal; exact IH]. Qed.

Lemma skipn_add {X} a p (l : list X) : skipn a (skipn p l) = skipn (a + p) l.
Proof.
  revert l. induction p as [|p IH]; intros l.
  - rewrite Nat.add_0_r. reflexivity.
  - destruct l as [|x l]; [rewrite !skipn_nil; reflexivity|].
    rewrite Nat.add_succ_r. cbn [skipn]. apply IH.
Qed.

Lemma at_0 bs : at_ bs 0 bs.
Proof. split; [lia | reflexivity]. Qed.

Lemma at_pre pre l : at_ (pre ++ l) (length pre) l.
Proof. split; [rewrite app_length; lia | apply skipn_app_len]. Qed.

Lemma at_length bs p l : at_ bs p l -> length bs = p + length l.
Proof. intros [Hle <-]. rewrite skipn_length. lia. Qed.

Lemma at_app bs p a t : at_ bs p (a ++ t) -> at_ bs (length a + p) t.
Proof.
  intros H. pose proof (at_length _ _ _ H) as HL. rewrite app_length in HL.
  destruct H as [Hle E]. split; [lia|].
  rewrite <- skipn_add, E. apply skipn_app_len.
Qed.

Lemma at_cons bs p b t : at_ bs p (b :: t) -> at_ bs (S p) t.
Proof. intros H. apply (at_app bs p [b] t H). Qed.

Lemma at_rest bs p l : at_ bs p l -> rest bs p = l.
Proof. intros [_ E]. exact E. Qed.

Lemma at_byte bs p b t : at_ bs p (b :: t) -> byte_at bs p = Some b.
Proof. intros [_ E]. unfold byte_at. rewrite nth_error_skipn, E. reflexivity. Qed.

Lemma at_byte_nil bs p : at_ bs p [] -> byte_at bs p = None.
Proof. intros [_ E]. unfold byte_at. rewrite nth_error_skipn, E. reflexivity. Qed.

Lemma at_byte_hd bs p l : at_ bs p l -> byte_at bs p = hd_error l.
Proof. intros [_ E]. unfold byte_at. rewrite nth_error_skipn, E. reflexivity. Qed.

Lemma at_ltb bs p b t : at_ bs p (b :: t) -> Nat.ltb p (length_ bs) = true.
Proof. intros H. apply at_length in H. unfold length_. cbn [length] in H. apply Nat.ltb_lt. lia. Qed.

Lemma at_ltb_nil bs p : at_ bs p [] -> Nat.ltb p (length_ bs) = false.
Proof. intros H. apply at_length in H. unfold length_. cbn [length] in H. apply Nat.ltb_ge. lia. Qed.

Lemma at_nil_length bs p : at_ bs p [] -> p = length bs.
Proof. intros H. apply at_length in H. cbn [length] in H. lia. Qed.

Lemma at_is_byte bs p c l : at_ bs p l ->
  is_byte_at bs c p = match l with b :: _ => N.eqb b c | [] => false end.
Proof. intros H. unfold is_byte_at. rewrite (at_byte_hd _ _ _ H). destruct l; reflexivity. Qed.

Lemma at_boundary bs p l : at_ bs p l -> starts_char l = true -> is_char_boundary bs p = true.
Proof. intros [Hle E] Hs. apply is_char_boundary_iff. right. rewrite E. split; assumption. Qed.

(* &source[p .. p + |x|] when x is what stands at p: needs char boundaries at both ends *)
Lemma at_slice bs p x t :
  at_ bs p (x ++ t) -> starts_char (x ++ t) = true -> starts_char t = true ->
  slice bs p (length x + p) = Done x.
Proof.
  intros H Hs Ht. unfold slice.
  rewrite (at_boundary _ _ _ H Hs), (at_boundary _ _ _ (at_app _ _ _ _ H) Ht).
  pose proof (at_length _ _ _ H) as HL. rewrite app_length in HL.
  replace (Nat.leb p (length x + p)) with true by (symmetry; apply Nat.leb_le; lia).
  replace (Nat.leb (length x + p) (length bs)) with true by (symmetry; apply Nat.leb_le; lia).
  cbn [andb]. destruct H as [_ E]. rewrite E.
  replace (length x + p - p) with (length x) by lia. rewrite firstn_app_len. reflexivity.
Qed.

(* ---------------------------------------------------------------------------------------------- *)
(* the monad                                                                                        *)

Lemma bind_ok {A B} (m : M A) (f : A -> M B) p a q : m p = Ok a q -> bind m f p = f a q.
Proof. intros H. unfold bind. rewrite H. reflexivity. Qed.

Lemma bind_err {A B} (m : M A) (f : A -> M B) p e q : m p = Err e q -> bind m f p = Err e q.
Proof. intros H. unfold bind. rewrite H. reflexivity. Qed.

Lemma try_ok {A} (m : M A) p a q : m p = Ok a q -> try_ m p = Ok (inr a) q.
Proof. intros H. unfold try_. rewrite H. reflexivity. Qed.

(* ---------------------------------------------------------------------------------------------- *)
(* scanners                                                                                         *)

Lemma scan_while_app f l t : forallb f l = true -> scan_while f (l ++ t) = length l + scan_while f t.
Proof.
  induction l as [|b l IH]; intros H; [reflexivity|].
  cbn [forallb] in H. apply andb_prop in H as [Hb Hl].
  cbn [app scan_while length]. rewrite Hb, (IH Hl). reflexivity.
Qed.

Definition head_not (f : N -> bool) (t : bytes) : Prop :=
  match t with b :: _ => f b = false | [] => True end.

Lemma scan_while_stop f t : head_not f t -> scan_while f t = 0.
Proof. destruct t as [|b t]; [reflexivity|]. cbn. intros ->. reflexivity. Qed.

Lemma scan_while_exact f l t : forallb f l = true -> head_not f t -> scan_while f (l ++ t) = length l.
Proof. intros Hl Ht. rewrite scan_while_app, scan_while_stop by assumption. lia. Qed.

Lemma forallb_is_space_sp n : forallb is_space (sp n) = true.
Proof. induction n as [|n IH]; [reflexivity | exact IH]. Qed.

Lemma sp_length n : length (sp n) = n.
Proof. apply repeat_length. Qed.

(* skip_blank_inline on n printed spaces *)
Lemma skip_blank_inline_sp bs p n t :
  at_ bs p (sp n ++ t) -> head_not is_space t -> skip_blank_inline bs p = Ok n (n + p).
Proof.
  intros H Ht. unfold skip_blank_inline. rewrite (at_rest _ _ _ H).
  rewrite (scan_while_exact _ _ _ (forallb_is_space_sp n) Ht), sp_length. reflexivity.
Qed.

Lemma skip_blank_inline_none bs p t :
  at_ bs p t -> head_not is_space t -> skip_blank_inline bs p = Ok 0 p.
Proof. intros H Ht. apply (skip_blank_inline_sp bs p 0 t H Ht). Qed.

(* ---- line ends ---- *)
Definition is_eol_bytes (e : bytes) : Prop := e = lf \/ e = crlf.

Lemma eol_len_eol e t : is_eol_bytes e -> eol_len (e ++ t) = length e.
Proof. intros [-> | ->]; reflexivity. Qed.

(* t does not start with a line end *)
Definition no_eol_head (t : bytes) : Prop := eol_len t = 0.

Lemma no_eol_head_byte b t : N.eqb b 10 = false -> N.eqb b 13 = false -> no_eol_head (b :: t).
Proof. intros H1 H2. unfold no_eol_head, eol_len, c_lf, c_cr. rewrite H1, H2. reflexivity. Qed.

Lemma no_eol_head_nil : no_eol_head [].
Proof. reflexivity. Qed.

Lemma skip_eol_eol bs p e t :
  at_ bs p (e ++ t) -> is_eol_bytes e -> skip_eol bs p = Ok true (length e + p).
Proof.
  intros H He. unfold skip_eol. rewrite (at_rest _ _ _ H), (eol_len_eol _ _ He).
  destruct He as [-> | ->]; reflexivity.
Qed.

Lemma skip_eol_none bs p t : at_ bs p t -> no_eol_head t -> skip_eol bs p = Ok false p.
Proof. intros H Ht. unfold skip_eol. rewrite (at_rest _ _ _ H), Ht. reflexivity. Qed.

Lemma is_eol_eol bs p e t : at_ bs p (e ++ t) -> is_eol_bytes e -> is_eol bs p = Ok true p.
Proof.
  intros H [-> | ->]; unfold is_eol.
  - rewrite (at_byte _ _ _ _ H). reflexivity.
  - cbn [app] in H. rewrite (at_byte _ _ _ _ H).
    rewrite (at_is_byte _ _ c_lf _ (at_cons _ _ _ _ H)). reflexivity.
Qed.

Lemma is_eol_nil bs p : at_ bs p [] -> is_eol bs p = Ok true p.
Proof. intros H. unfold is_eol. rewrite (at_byte_nil _ _ H). reflexivity. Qed.

Lemma is_eol_byte bs p b t :
  at_ bs p (b :: t) -> N.eqb b 10 = false -> N.eqb b 13 = false -> is_eol bs p = Ok false p.
Proof.
  intros H H1 H2. unfold is_eol, c_lf, c_cr. rewrite (at_byte _ _ _ _ H), H1, H2. reflexivity.
Qed.

(* ---- skip_blank: spaces and line ends ---- *)
(* l is consumed entirely by skip_blank *)
Definition all_blank (l : bytes) : Prop := blank_len l = length l.

Lemma list_ind2 {X} (P : list X -> Prop) :
  P [] -> (forall x, P [x]) -> (forall x y l, P l -> P (y :: l) -> P (x :: y :: l)) -> forall l, P l.
Proof.
  intros H0 H1 H2 l. enough (H : P l /\ forall x, P (x :: l)) by apply H.
  induction l as [|y l [IH1 IH2]]; split; auto.
Qed.

Lemma blank_len_cons b r :
  blank_len (b :: r) =
  if N.eqb b c_sp || N.eqb b c_lf then S (blank_len r)
  else if N.eqb b c_cr then
         match r with
         | b2 :: r2 => if N.eqb b2 c_lf then S (S (blank_len r2)) else 0
         | [] => 0
         end
       else 0.
Proof. reflexivity. Qed.

Lemma blank_len_le l : blank_len l <= length l.
Proof.
  induction l as [|b|b b2 r IH1 IH2] using list_ind2.
  - cbn; lia.
  - cbn. destruct (N.eqb b c_sp || N.eqb b c_lf); [cbn; lia|]. destruct (N.eqb b c_cr); cbn; lia.
  - rewrite (blank_len_cons b). cbn [length] in *.
    destruct (N.eqb b c_sp || N.eqb b c_lf); [lia|].
    destruct (N.eqb b c_cr); [|lia]. destruct (N.eqb b2 c_lf); lia.
Qed.

Lemma blank_len_app l t : all_blank l -> blank_len (l ++ t) = length l + blank_len t.
Proof.
  unfold all_blank.
  induction l as [|b|b b2 r IH1 IH2] using list_ind2; intros H.
  - reflexivity.
  - cbn [app blank_len length] in *.
    destruct (N.eqb b c_sp || N.eqb b c_lf); [reflexivity|].
    destruct (N.eqb b c_cr); discriminate.
  - cbn [app length] in *. rewrite (blank_len_cons b) in H |- *.
    destruct (N.eqb b c_sp || N.eqb b c_lf).
    + injection H as H. rewrite (IH2 H). reflexivity.
    + destruct (N.eqb b c_cr); [|discriminate].
      destruct (N.eqb b2 c_lf); [|discriminate].
      injection H as H. rewrite (IH1 H). reflexivity.
Qed.

Definition no_blank_head (t : bytes) : Prop := blank_len t = 0.

Lemma no_blank_head_byte b t :
  N.eqb b 32 = false -> N.eqb b 10 = false -> N.eqb b 13 = false -> no_blank_head (b :: t).
Proof.
  intros H1 H2 H3. unfold no_blank_head, blank_len, c_sp, c_lf, c_cr. rewrite H1, H2, H3. reflexivity.
Qed.

Lemma skip_blank_blank bs p l t :
  at_ bs p (l ++ t) -> all_blank l -> no_blank_head t -> skip_blank bs p = Ok tt (length l + p).
Proof.
  intros H Hl Ht. unfold skip_blank. rewrite (at_rest _ _ _ H), (blank_len_app _ _ Hl), Ht.
  rewrite Nat.add_0_r. reflexivity.
Qed.

Lemma all_blank_sp n : all_blank (sp n).
Proof.
  induction n as [|n IH]; [reflexivity|]. unfold all_blank in *.
  change (sp (S n)) with (32%N :: sp n). rewrite blank_len_cons.
  change (N.eqb 32 c_sp) with true. cbn [orb length]. f_equal. exact IH.
Qed.

Lemma all_blank_app a b : all_blank a -> all_blank b -> all_blank (a ++ b).
Proof. intros Ha Hb. unfold all_blank in *. rewrite (blank_len_app _ _ Ha), Hb, app_length. reflexivity. Qed.

Lemma all_blank_eol e : is_eol_bytes e -> all_blank e.
Proof. intros [-> | ->]; reflexivity. Qed.

(* the blanks Render.eol / Render.blank_opt print *)
Lemma eol_spec cs : is_eol_bytes (fst (eol cs)).
Proof.
  unfold eol, rbind, choose, rret. destruct cs as [|c cs]; cbn [fst]; [left; reflexivity|].
  destruct (Nat.eqb (Nat.modulo c 4) 3); [right | left]; reflexivity.
Qed.

Lemma all_blank_blank_opt cs : all_blank (fst (blank_opt cs)).
Proof.
  unfold blank_opt, rbind. destruct (choose 5 cs) as [c cs1].
  destruct c as [|[|[|[|k]]]]; unfold rret; cbn [fst].
  - reflexivity.
  - apply all_blank_sp.
  - apply all_blank_sp.
  - pose proof (eol_spec cs1) as He. destruct (eol cs1) as [e cs2]. cbn [fst] in *.
    apply all_blank_app; [apply all_blank_eol, He | apply all_blank_sp].
  - pose proof (eol_spec cs1) as He. destruct (eol cs1) as [e cs2]. cbn [fst] in *.
    repeat apply all_blank_app; try apply all_blank_sp; apply all_blank_eol, He.
Qed.

(* ---- skip_blank_block on printed blank lines ---- *)
Inductive blank_lines_of : nat -> bytes -> Prop :=
| bl_nil : blank_lines_of 0 []
| bl_cons s e c r : is_eol_bytes e -> blank_lines_of c r -> blank_lines_of (S c) (sp s ++ e ++ r).

(* the line at the head of t is not blank (or t is empty) *)
Definition no_blank_line_head (t : bytes) : Prop := eol_len (skipn (scan_while is_space t) t) = 0.

Lemma no_blank_line_head_nil : no_blank_line_head [].
Proof. reflexivity. Qed.

Lemma no_blank_line_head_byte b t :
  N.eqb b 32 = false -> N.eqb b 10 = false -> N.eqb b 13 = false -> no_blank_line_head (b :: t).
Proof.
  intros H1 H2 H3. unfold no_blank_line_head. cbn [scan_while]. unfold is_space, c_sp. rewrite H1.
  cbn [skipn]. apply no_eol_head_byte; assumption.
Qed.

Lemma blank_lines_length c bl : blank_lines_of c bl -> c <= length bl.
Proof.
  induction 1 as [|s e c r He Hr IH]; [cbn; lia|].
  rewrite !app_length. destruct He as [-> | ->]; cbn [length lf crlf]; lia.
Qed.

Lemma blank_block_lines c bl t : blank_lines_of c bl -> no_blank_line_head t ->
  forall k, c < k -> blank_block k (bl ++ t) = (c, length bl).
Proof.
  intros Hbl Ht. induction Hbl as [|s e c r He Hr IH]; intros k Hk.
  - destruct k as [|k]; [lia|]. cbn [app blank_block length]. unfold no_blank_line_head in Ht.
    rewrite Ht. reflexivity.
  - destruct k as [|k]; [lia|]. cbn [blank_block].
    rewrite <- !app_assoc.
    assert (Hs : scan_while is_space (sp s ++ e ++ r ++ t) = s).
    { rewrite scan_while_exact; [apply sp_length | apply forallb_is_space_sp |].
      destruct He as [-> | ->]; reflexivity. }
    rewrite Hs.
    assert (Hsk : skipn s (sp s ++ e ++ r ++ t) = e ++ r ++ t).
    { replace s with (length (sp s)) at 1 by apply sp_length. apply skipn_app_len. }
    rewrite Hsk. rewrite !app_length, sp_length.
    destruct He as [-> | ->]; cbn [eol_len lf crlf app]; unfold c_lf, c_cr;
      change (N.eqb 10 10) with true; change (N.eqb 13 10) with false; change (N.eqb 13 13) with true;
      cbv iota; cbn [skipn]; rewrite (IH k) by lia; unfold lf, crlf; cbn [length]; f_equal; lia.
Qed.

Lemma skip_blank_block_lines bs p c bl t :
  at_ bs p (bl ++ t) -> blank_lines_of c bl -> no_blank_line_head t ->
  skip_blank_block bs p = Ok c (length bl + p).
Proof.
  intros H Hbl Ht. unfold skip_blank_block. rewrite (at_rest _ _ _ H).
  rewrite (blank_block_lines c bl t Hbl Ht).
  - reflexivity.
  - pose proof (blank_lines_length _ _ Hbl). pose proof (at_length _ _ _ H) as HL.
    rewrite app_length in HL. unfold length_. lia.
Qed.

Lemma skip_blank_block_none bs p t :
  at_ bs p t -> no_blank_line_head t -> skip_blank_block bs p = Ok 0 p.
Proof. intros H Ht. apply (skip_blank_block_lines bs p 0 [] t H bl_nil Ht). Qed.

(* ---- single bytes ---- *)
Lemma take_byte_if_yes bs p b t : at_ bs p (b :: t) -> take_byte_if bs b p = Ok true (S p).
Proof. intros H. unfold take_byte_if. rewrite (at_is_byte _ _ b _ H), N.eqb_refl. reflexivity. Qed.

Lemma take_byte_if_no bs p b t :
  at_ bs p t -> head_not (fun x => N.eqb x b) t -> take_byte_if bs b p = Ok false p.
Proof.
  intros H Ht. unfold take_byte_if. rewrite (at_is_byte _ _ b _ H).
  destruct t as [|x t]; [reflexivity|]. cbn in Ht. rewrite Ht. reflexivity.
Qed.

Lemma expect_byte_yes bs p b t : at_ bs p (b :: t) -> expect_byte bs b p = Ok tt (S p).
Proof. intros H. unfold expect_byte. rewrite (at_is_byte _ _ b _ H), N.eqb_refl. reflexivity. Qed.

Lemma expect_byte_no bs p b t :
  at_ bs p t -> head_not (fun x => N.eqb x b) t ->
  expect_byte bs b p = Err (PError (ExpectedToken b) p (S p) None) p.
Proof.
  intros H Ht. unfold expect_byte. rewrite (at_is_byte _ _ b _ H).
  destruct t as [|x t]; [reflexivity|]. cbn in Ht. rewrite Ht. reflexivity.
Qed.

(* ---------------------------------------------------------------------------------------------- *)
(* byte classes: the grammar's (Render.v) are the parser's                                          *)

Lemma is_alpha_eq b : is_alpha b = is_ascii_alphabetic b.
Proof. reflexivity. Qed.
Lemma is_digit_eq b : is_digit b = is_ascii_digit b.
Proof. reflexivity. Qed.
Lemma is_id_char_eq b : is_id_char b = is_ident_char b.
Proof. reflexivity. Qed.
Lemma is_hex_eq b : is_hex b = is_ascii_hexdigit b.
Proof. reflexivity. Qed.

Lemma alpha_not_cont b : is_ascii_alphabetic b = true -> is_cont b = false.
Proof. unfold is_ascii_alphabetic, is_cont, in_rng. lia. Qed.
Lemma digit_not_cont b : is_ascii_digit b = true -> is_cont b = false.
Proof. unfold is_ascii_digit, is_cont, in_rng. lia. Qed.

Lemma starts_char_cons b l : is_cont b = false -> starts_char (b :: l) = true.
Proof. intros H. cbn. rewrite H. reflexivity. Qed.

Lemma starts_char_app a t : starts_char a = true -> starts_char t = true -> starts_char (a ++ t) = true.
Proof. destruct a; auto. Qed.

(* ---- identifiers ---- *)
Lemma get_identifier_unchecked_ok bs p b r t :
  at_ bs p ((b :: r) ++ t) -> is_cont b = false ->
  forallb is_ident_char r = true -> head_not is_ident_char t -> starts_char t = true ->
  get_identifier_unchecked bs (S p) = Ok (b :: r) (length (b :: r) + p).
Proof.
  intros H Hb Hr Ht Hst. unfold get_identifier_unchecked.
  assert (H1 : at_ bs (S p) (r ++ t)) by exact (at_cons _ _ _ _ H).
  rewrite (at_rest _ _ _ H1), (scan_while_exact _ _ _ Hr Ht).
  cbn [Nat.leb]. replace (S p - 1) with p by lia.
  replace (length r + S p) with (length (b :: r) + p) by (cbn [length]; lia).
  rewrite (at_slice bs p (b :: r) t H); [reflexivity | apply starts_char_cons, Hb | exact Hst].
Qed.

Lemma get_identifier_ok bs p id t :
  at_ bs p (id ++ t) -> wf_identifier id = true -> head_not is_ident_char t -> starts_char t = true ->
  get_identifier bs p = Ok id (length id + p).
Proof.
  intros H Hid Ht Hst. destruct id as [|b r]; [discriminate|].
  cbn [wf_identifier] in Hid. apply andb_prop in Hid as [Hb Hr].
  rewrite is_alpha_eq in Hb.
  unfold get_identifier.
  rewrite (bind_ok (is_identifier_start bs) _ p true p)
    by (unfold is_identifier_start; rewrite (at_byte bs p b (r ++ t) H), Hb; reflexivity).
  cbn [negb]. rewrite (bind_ok (advance 1) _ p tt (S p)) by reflexivity.
  apply (get_identifier_unchecked_ok bs p b r t); try assumption.
  apply alpha_not_cont, Hb.
Qed.

(* ---- numbers ---- *)
Lemma skip_digits_ok bs p ds t :
  at_ bs p (ds ++ t) -> ds <> [] -> forallb is_ascii_digit ds = true -> head_not is_ascii_digit t ->
  skip_digits bs p = Ok tt (length ds + p).
Proof.
  intros H Hne Hd Ht. unfold skip_digits.
  rewrite (at_rest _ _ _ H), (scan_while_exact _ _ _ Hd Ht).
  destruct ds as [|d ds]; [congruence|]. reflexivity.
Qed.

(* the shape of a number literal: optional '-', digits, optional '.' digits *)
Inductive number_shape : bytes -> Prop :=
| NumberShape (neg : bool) (i : bytes) (f : option bytes) :
    i <> [] -> forallb is_ascii_digit i = true ->
    (match f with Some fd => fd <> [] /\ forallb is_ascii_digit fd = true | None => True end) ->
    number_shape ((if neg then [45%N] else []) ++ i ++ match f with Some fd => 46%N :: fd | None => [] end).

Lemma split_dot_spec s : forall cur i o,
  split_dot s cur = (i, o) ->
  match o with
  | None => i = rev cur ++ s
  | Some f => exists i', s = i' ++ 46%N :: f /\ i = rev cur ++ i'
  end.
Proof.
  induction s as [|b r IH]; intros cur i o H; cbn [split_dot] in H.
  - injection H as <- <-. rewrite app_nil_r. reflexivity.
  - destruct (N.eqb b 46) eqn:E.
    + injection H as <- <-. apply N.eqb_eq in E. subst b. exists (@nil N). rewrite app_nil_r. split; reflexivity.
    + specialize (IH (b :: cur) i o H). destruct o as [f|].
      * destruct IH as [i' [-> ->]]. exists (b :: i'). cbn [rev]. rewrite <- app_assoc. split; reflexivity.
      * rewrite IH. cbn [rev]. rewrite <- app_assoc. reflexivity.
Qed.

Lemma all_digits1_spec s : all_digits1 s = true -> s <> [] /\ forallb is_ascii_digit s = true.
Proof. destruct s as [|b r]; [discriminate|]. intros H. split; [discriminate | exact H]. Qed.

Lemma wf_number_shape s : wf_number s = true -> number_shape s.
Proof.
  unfold wf_number. intros H.
  assert (Hs : exists (neg : bool) (s' : bytes), s = (if neg then [45%N] else []) ++ s' /\
                 match split_dot s' [] with
                 | (i, None) => all_digits1 i
                 | (i, Some f) => all_digits1 i && all_digits1 f
                 end = true).
  { destruct s as [|b r]; [exists false, []; split; [reflexivity | exact H]|].
    destruct (N.eqb b 45) eqn:E.
    - apply N.eqb_eq in E. subst b. exists true, r. split; [reflexivity | exact H].
    - exists false, (b :: r). split; [reflexivity | exact H]. }
  destruct Hs as [neg [s' [-> Hs]]].
  destruct (split_dot s' []) as [i o] eqn:Esd. pose proof (split_dot_spec _ _ _ _ Esd) as Hsd.
  destruct o as [f|].
  - destruct Hsd as [i' [-> ->]]. cbn [rev app] in Hs. apply andb_prop in Hs as [Hi Hf].
    apply all_digits1_spec in Hi as [Hi1 Hi2]. apply all_digits1_spec in Hf as [Hf1 Hf2].
    apply (NumberShape neg i' (Some f)); auto.
  - cbn [rev app] in Hsd. subst i. apply all_digits1_spec in Hs as [Hi1 Hi2].
    replace s' with (s' ++ []) by apply app_nil_r.
    apply (NumberShape neg s' None); auto.
Qed.

Definition not_digit_or_dot (b : N) : bool := is_ascii_digit b || N.eqb b 46.

Lemma get_number_literal_shape bs p num t :
  at_ bs p (num ++ t) -> number_shape num ->
  head_not not_digit_or_dot t -> starts_char t = true ->
  get_number_literal bs p = Ok num (length num + p).
Proof.
  intros H Hn Ht Hst. destruct Hn as [neg i f Hi1 Hi2 Hf].
  assert (Htd : head_not is_ascii_digit t).
  { destruct t as [|x t]; [exact Logic.I|]. cbn in *. unfold not_digit_or_dot in Ht.
    apply orb_false_elim in Ht as [Ht _]. exact Ht. }
  assert (Htdot : head_not (fun x => N.eqb x 46) t).
  { destruct t as [|x t]; [exact Logic.I|]. cbn in *. unfold not_digit_or_dot in Ht.
    apply orb_false_elim in Ht as [_ Ht]. exact Ht. }
  set (num := (if neg then [45%N] else []) ++ i ++ match f with Some fd => 46%N :: fd | None => [] end) in *.
  assert (Hsc : starts_char (num ++ t) = true).
  { unfold num. destruct neg; [reflexivity|]. destruct i as [|d i]; [congruence|].
    cbn [forallb] in Hi2. apply andb_prop in Hi2 as [Hd _]. cbn [app]. apply starts_char_cons, digit_not_cont, Hd. }
  unfold get_number_literal.
  rewrite (bind_ok (@get_ptr) _ p p p) by reflexivity.
  (* the sign *)
  set (q := length (if neg then [45%N] else []) + p).
  assert (Hq : at_ bs q (i ++ match f with Some fd => 46%N :: fd | None => [] end ++ t)).
  { unfold q. apply at_app. unfold num in H. rewrite <- !app_assoc in H. exact H. }
  assert (Hsign : take_byte_if bs 45 p = Ok neg q).
  { unfold q. destruct neg.
    - unfold num in H. cbn [app] in H. apply (take_byte_if_yes _ _ _ _ H).
    - cbn [length Nat.add]. unfold num in H. cbn [app] in H.
      eapply take_byte_if_no; [exact H|].
      destruct i as [|d i]; [congruence|]. cbn [forallb] in Hi2. apply andb_prop in Hi2 as [Hd _].
      cbn. unfold is_ascii_digit, in_rng in Hd. lia. }
  rewrite (bind_ok _ _ _ _ _ Hsign).
  (* the integer part *)
  assert (Hint : skip_digits bs q = Ok tt (length i + q)).
  { apply (skip_digits_ok bs q i _ Hq Hi1 Hi2).
    destruct f as [fd|]; [reflexivity | exact Htd]. }
  rewrite (bind_ok _ _ _ _ _ Hint).
  pose proof (at_app _ _ _ _ Hq) as Hq2.
  destruct f as [fd|].
  - destruct Hf as [Hf1 Hf2]. cbn [app] in Hq2.
    rewrite (bind_ok _ _ _ _ _ (take_byte_if_yes _ _ _ _ Hq2)).
    pose proof (at_cons _ _ _ _ Hq2) as Hq3.
    rewrite (bind_ok _ _ _ _ _ (skip_digits_ok bs _ fd t Hq3 Hf1 Hf2 Htd)).
    rewrite (bind_ok (@get_ptr) _ _ _ _ eq_refl).
    unfold source_slice.
    replace (length fd + S (length i + q)) with (length num + p).
    + rewrite (at_slice bs p num t H Hsc Hst). reflexivity.
    + unfold q, num. rewrite !app_length. cbn [length]. lia.
  - cbn [app] in Hq2.
    rewrite (bind_ok _ _ _ _ _ (take_byte_if_no _ _ _ _ Hq2 Htdot)).
    rewrite (bind_ok (ret tt) _ _ tt _ eq_refl).
    rewrite (bind_ok (@get_ptr) _ _ _ _ eq_refl).
    unfold source_slice.
    replace (length i + q) with (length num + p).
    + rewrite (at_slice bs p num t H Hsc Hst). reflexivity.
    + unfold q, num. rewrite !app_length. cbn [length]. lia.
Qed.

Lemma get_number_literal_ok bs p num t :
  at_ bs p (num ++ t) -> wf_number num = true ->
  head_not not_digit_or_dot t -> starts_char t = true ->
  get_number_literal bs p = Ok num (length num + p).
Proof. intros H Hn. apply get_number_literal_shape; [exact H | apply wf_number_shape, Hn]. Qed.

(* ---- string literals ---- *)
Lemma scan_while_firstn f k l :
  forallb f (firstn k l) = true -> length (firstn k l) = k -> k <= scan_while f l.
Proof.
  revert l. induction k as [|k IH]; intros l Hf Hl; [lia|].
  destruct l as [|b l]; [discriminate|]. cbn [firstn forallb length] in *.
  apply andb_prop in Hf as [Hb Hf]. cbn [scan_while]. rewrite Hb.
  injection Hl as Hl. specialize (IH l Hf Hl). lia.
Qed.

Lemma skip_unicode_escape_sequence_ok bs p k l :
  at_ bs p l -> forallb is_ascii_hexdigit (firstn k l) = true -> length (firstn k l) = k ->
  skip_unicode_escape_sequence bs k p = Ok tt (k + p).
Proof.
  intros H Hf Hl. unfold skip_unicode_escape_sequence.
  rewrite (at_rest _ _ _ H).
  pose proof (scan_while_firstn _ _ _ Hf Hl) as Hle.
  rewrite (Nat.min_l _ _ Hle), Nat.eqb_refl. reflexivity.
Qed.

Lemma firstn_app_l' {X} k (l t : list X) : length (firstn k l) = k -> firstn k (l ++ t) = firstn k l.
Proof.
  revert l. induction k as [|k IH]; intros l H; [reflexivity|].
  destruct l as [|x l]; [discriminate|]. cbn [firstn length app] in *. f_equal. apply IH. lia.
Qed.

(* the loop of a string literal runs over a well-formed quoted text up to the closing quote *)
Lemma string_loop_ok bs m : forall s p t n,
  wf_string_fuel m s = true -> at_ bs p (s ++ 34%N :: t) -> length s < n ->
  string_loop bs n p = Ok tt (length s + p).
Proof.
  induction m as [|m IH]; intros s p t n Hwf H Hn; [discriminate|].
  destruct n as [|n]; [lia|].
  cbn [wf_string_fuel] in Hwf. cbn [string_loop].
  destruct s as [|b r].
  - cbn [app] in H. rewrite (bind_ok (current_byte bs) _ p (Some 34%N) p)
      by (unfold current_byte; rewrite (at_byte _ _ _ _ H); reflexivity).
    reflexivity.
  - assert (Hb : at_ bs p (b :: r ++ 34%N :: t)) by exact H.
    rewrite (bind_ok (current_byte bs) _ p (Some b) p)
      by (unfold current_byte; rewrite (at_byte _ _ _ _ Hb); reflexivity).
    destruct (N.eqb b 92) eqn:E92.
    + rewrite (bind_ok (@get_ptr) _ p p p eq_refl).
      destruct r as [|c r2]; [discriminate|].
      assert (Hc : at_ bs (S p) (c :: r2 ++ 34%N :: t)) by exact (at_cons _ _ _ _ Hb).
      rewrite (at_byte _ _ _ _ Hc).
      assert (Hr2 : at_ bs (2 + p) (r2 ++ 34%N :: t)) by exact (at_cons _ _ _ _ Hc).
      destruct (N.eqb c 92 || N.eqb c 123 || N.eqb c 34) eqn:Esimple.
      * replace (N.eqb c 92 || N.eqb c 34 || N.eqb c 123) with true in Hwf
          by (destruct (N.eqb c 92), (N.eqb c 123), (N.eqb c 34); reflexivity || discriminate).
        rewrite (bind_ok (advance 2) _ p tt (2 + p) eq_refl).
        rewrite (IH r2 (2 + p) t n Hwf Hr2) by (cbn [length] in Hn; lia).
        f_equal. cbn [length]. lia.
      * replace (N.eqb c 92 || N.eqb c 34 || N.eqb c 123) with false in Hwf
          by (destruct (N.eqb c 92), (N.eqb c 123), (N.eqb c 34); reflexivity || discriminate).
        destruct (N.eqb c 117) eqn:E117; [|destruct (N.eqb c 85) eqn:E85; [|discriminate]].
        -- apply andb_prop in Hwf as [Hwf Hrest]. apply andb_prop in Hwf as [Hhex Hlen].
           apply Nat.eqb_eq in Hlen.
           rewrite (bind_ok (advance 2) _ p tt (2 + p) eq_refl).
           assert (Hr2' : at_ bs (2 + p) (firstn 4 r2 ++ skipn 4 r2 ++ 34%N :: t)).
           { rewrite app_assoc, firstn_skipn. exact Hr2. }
           rewrite (bind_ok _ _ _ _ _ (skip_unicode_escape_sequence_ok bs (2 + p) 4 _ Hr2
                                         ltac:(rewrite firstn_app_l' by exact Hlen; exact Hhex) ltac:(rewrite firstn_app_l' by exact Hlen; exact Hlen))).
           apply at_app in Hr2'. rewrite Hlen in Hr2'.
           rewrite (IH (skipn 4 r2) _ t n Hrest Hr2').
           ++ f_equal. rewrite skipn_length. cbn [length].
              pose proof Hlen as Hfl. rewrite firstn_length in Hfl. lia.
           ++ rewrite skipn_length. cbn [length] in Hn. lia.
        -- apply andb_prop in Hwf as [Hwf Hrest]. apply andb_prop in Hwf as [Hhex Hlen].
           apply Nat.eqb_eq in Hlen.
           rewrite (bind_ok (advance 2) _ p tt (2 + p) eq_refl).
           assert (Hr2' : at_ bs (2 + p) (firstn 6 r2 ++ skipn 6 r2 ++ 34%N :: t)).
           { rewrite app_assoc, firstn_skipn. exact Hr2. }
           rewrite (bind_ok _ _ _ _ _ (skip_unicode_escape_sequence_ok bs (2 + p) 6 _ Hr2
                                         ltac:(rewrite firstn_app_l' by exact Hlen; exact Hhex) ltac:(rewrite firstn_app_l' by exact Hlen; exact Hlen))).
           apply at_app in Hr2'. rewrite Hlen in Hr2'.
           rewrite (IH (skipn 6 r2) _ t n Hrest Hr2').
           ++ f_equal. rewrite skipn_length. cbn [length].
              pose proof Hlen as Hfl. rewrite firstn_length in Hfl. lia.
           ++ rewrite skipn_length. cbn [length] in Hn. lia.
    + destruct (N.eqb b 34 || N.eqb b 10) eqn:Eq; [discriminate|].
      apply orb_false_elim in Eq as [E34 E10]. rewrite E34. unfold c_lf. rewrite E10.
      rewrite (bind_ok (advance 1) _ p tt (S p) eq_refl).
      rewrite (IH r (S p) t n Hwf (at_cons _ _ _ _ Hb)) by (cbn [length] in Hn; lia).
      f_equal. cbn [length]. lia.
Qed.

Lemma wf_string_fuel_mono m : forall s k, wf_string_fuel m s = true -> wf_string_fuel (k + m) s = true.
Proof.
  induction m as [|m IH]; intros s k H; [discriminate|].
  rewrite Nat.add_succ_r. cbn [wf_string_fuel] in *.
  destruct s as [|b r]; [reflexivity|].
  destruct (N.eqb b 92).
  - destruct r as [|c r2]; [discriminate|].
    destruct (N.eqb c 92 || N.eqb c 34 || N.eqb c 123); [apply IH, H|].
    destruct (N.eqb c 117).
    + apply andb_prop in H as [H1 H2]. rewrite H1, (IH _ k H2). reflexivity.
    + destruct (N.eqb c 85); [|discriminate].
      apply andb_prop in H as [H1 H2]. rewrite H1, (IH _ k H2). reflexivity.
  - destruct (N.eqb b 34 || N.eqb b 10); [discriminate | apply IH, H].
Qed.

(* the string-literal arm of get_inline_expression:  "s"  for a well-formed quoted text s *)
Lemma get_inline_expression_string bs p s t n only_literal :
  at_ bs p (34%N :: s ++ 34%N :: t) -> wf_string s = true -> starts_char s = true ->
  length s + 1 < n ->
  get_inline_expression bs n only_literal p = Ok (StringLiteral s) (length s + 2 + p).
Proof.
  intros H Hwf Hsc Hn. destruct n as [|n]; [lia|].
  cbn [get_inline_expression].
  rewrite (bind_ok (current_byte bs) _ p (Some 34%N) p)
    by (unfold current_byte; rewrite (at_byte _ _ _ _ H); reflexivity).
  change (N.eqb 34 34) with true. cbv iota.
  rewrite (bind_ok (advance 1) _ p tt (S p) eq_refl).
  rewrite (bind_ok (@get_ptr) _ (S p) (S p) (S p) eq_refl).
  pose proof (at_cons _ _ _ _ H) as H1.
  assert (Hn' : length s < n) by lia.
  rewrite (bind_ok _ _ _ _ _ (string_loop_ok bs _ s (S p) t n Hwf H1 Hn')).
  pose proof (at_app _ _ _ _ H1) as H2.
  rewrite (bind_ok _ _ _ _ _ (expect_byte_yes _ _ _ _ H2)).
  rewrite (bind_ok (@get_ptr) _ _ _ _ eq_refl).
  cbn [Nat.leb]. rewrite (bind_ok (ret tt) _ _ tt _ eq_refl).
  replace (S (length s + S p) - 1) with (length s + S p) by lia.
  unfold source_slice.
  rewrite (at_slice bs (S p) s (34%N :: t) H1).
  - unfold bind, ret, lift_outcome. f_equal. lia.
  - apply starts_char_app; [exact Hsc | reflexivity].
  - reflexivity.
Qed.

(* ---- text slices ---- *)
Definition text_line (l : bytes) : Prop := forallb wf_text_byte l = true.

Lemma wf_text_byte_spec b : wf_text_byte b = true ->
  N.eqb b 123 = false /\ N.eqb b 125 = false /\ N.eqb b 13 = false /\ N.eqb b 10 = false.
Proof.
  unfold wf_text_byte. intros H. apply negb_true_iff in H.
  apply orb_false_elim in H as [H H4]. apply orb_false_elim in H as [H H3].
  apply orb_false_elim in H as [H1 H2]. auto.
Qed.

Lemma memchr3_none l : text_line l -> memchr3 l = None.
Proof.
  unfold text_line. induction l as [|b l IH]; intros H; [reflexivity|].
  cbn [forallb] in H. apply andb_prop in H as [Hb Hl].
  apply wf_text_byte_spec in Hb as (H1 & H2 & H3 & H4).
  cbn [memchr3]. unfold c_lf. rewrite H4, H1, H2. cbn [orb]. rewrite (IH Hl). reflexivity.
Qed.

Lemma memchr3_stop l b t : text_line l -> N.eqb b c_lf || N.eqb b 123 || N.eqb b 125 = true ->
  memchr3 (l ++ b :: t) = Some (length l).
Proof.
  unfold text_line. intros Hl Hb. induction l as [|x l IH].
  - cbn [app memchr3 length]. rewrite Hb. reflexivity.
  - cbn [forallb] in Hl. apply andb_prop in Hl as [Hx Hl].
    apply wf_text_byte_spec in Hx as (H1 & H2 & H3 & H4).
    cbn [app memchr3 length]. unfold c_lf. rewrite H4, H1, H2. cbn [orb]. rewrite (IH Hl). reflexivity.
Qed.

(* one more byte (CR) before the stop byte *)
Lemma memchr3_stop_cr l t : text_line l -> memchr3 (l ++ 13%N :: 10%N :: t) = Some (S (length l)).
Proof.
  unfold text_line. intros Hl. induction l as [|x l IH].
  - reflexivity.
  - cbn [forallb] in Hl. apply andb_prop in Hl as [Hx Hl].
    apply wf_text_byte_spec in Hx as (H1 & H2 & H3 & H4).
    cbn [app memchr3 length]. unfold c_lf. rewrite H4, H1, H2. cbn [orb]. rewrite (IH Hl). reflexivity.
Qed.

Lemma nth_error_app_len {X} (l : list X) b t : nth_error (l ++ b :: t) (length l) = Some b.
Proof. induction l as [|x l IH]; [reflexivity | exact IH]. Qed.

Lemma text_line_last_not_cr l i t : text_line l -> S i = length l ->
  match nth_error (l ++ t) i with Some c => N.eqb c c_cr | None => false end = false.
Proof.
  unfold text_line. revert i. induction l as [|x l IH]; intros i Hl Hi; [discriminate|].
  cbn [forallb] in Hl. apply andb_prop in Hl as [Hx Hl].
  cbn [length] in Hi. injection Hi as Hi.
  destruct i as [|i].
  - cbn. apply wf_text_byte_spec in Hx as (_ & _ & H3 & _). exact H3.
  - cbn [app nth_error]. apply IH; assumption.
Qed.

Lemma at_not_past bs p l : at_ bs p l -> Nat.ltb (length_ bs) p = false.
Proof. intros [Hle _]. apply Nat.ltb_ge. exact Hle. Qed.

(* a line of text ended by LF *)
Lemma get_text_slice_lf bs p l t :
  at_ bs p (l ++ 10%N :: t) -> text_line l ->
  get_text_slice bs p = Ok (p, S (length l) + p, is_nonblank l, TLineFeed) (S (length l) + p).
Proof.
  intros H Hl. unfold get_text_slice. rewrite (at_not_past _ _ _ H), (at_rest _ _ _ H).
  rewrite (memchr3_stop l 10 t Hl eq_refl), nth_error_app_len.
  change (N.eqb 10 125) with false. change (N.eqb 10 c_lf) with true. cbv iota.
  rewrite firstn_app_len.
  destruct (length l) as [|i] eqn:El; [reflexivity|].
  rewrite (text_line_last_not_cr l i _ Hl (eq_sym El)). reflexivity.
Qed.

(* a line of text ended by CR LF: the slice excludes the CR, ptr is left ON the LF *)
Lemma get_text_slice_crlf bs p l t :
  at_ bs p (l ++ 13%N :: 10%N :: t) -> text_line l ->
  get_text_slice bs p = Ok (p, length l + p, is_nonblank l, TCrlf) (S (length l) + p).
Proof.
  intros H Hl. unfold get_text_slice. rewrite (at_not_past _ _ _ H), (at_rest _ _ _ H).
  rewrite (memchr3_stop_cr l t Hl).
  replace (nth_error (l ++ 13%N :: 10%N :: t) (S (length l))) with (Some 10%N).
  2:{ replace (l ++ 13%N :: 10%N :: t) with ((l ++ [13%N]) ++ 10%N :: t) by (rewrite <- app_assoc; reflexivity).
      replace (S (length l)) with (length (l ++ [13%N])) by (rewrite app_length; cbn; lia).
      symmetry. apply nth_error_app_len. }
  change (N.eqb 10 125) with false. change (N.eqb 10 c_lf) with true. cbv iota.
  rewrite nth_error_app_len. change (N.eqb 13 c_cr) with true. cbv iota.
  rewrite firstn_app_len. replace (S (length l) + p - 1) with (length l + p) by lia. reflexivity.
Qed.

(* text up to the end of the input *)
Lemma get_text_slice_eof bs p l :
  at_ bs p l -> text_line l ->
  get_text_slice bs p = Ok (p, length l + p, is_nonblank l, TEof) (length l + p).
Proof.
  intros H Hl. unfold get_text_slice. rewrite (at_not_past _ _ _ H), (at_rest _ _ _ H).
  rewrite (memchr3_none l Hl). reflexivity.
Qed.

(* text up to the '{' of a placeable *)
Lemma get_text_slice_placeable bs p l t :
  at_ bs p (l ++ 123%N :: t) -> text_line l ->
  get_text_slice bs p = Ok (p, length l + p, is_nonblank l, TPlaceableStart) (length l + p).
Proof.
  intros H Hl. unfold get_text_slice. rewrite (at_not_past _ _ _ H), (at_rest _ _ _ H).
  rewrite (memchr3_stop l 123 t Hl eq_refl), nth_error_app_len.
  change (N.eqb 123 125) with false. change (N.eqb 123 c_lf) with false. cbv iota.
  rewrite firstn_app_len. reflexivity.
Qed.

(* a '}' in text position is an error *)
Lemma get_text_slice_closing_brace bs p l t :
  at_ bs p (l ++ 125%N :: t) -> text_line l ->
  get_text_slice bs p =
  Err (PError UnbalancedClosingBrace (length l + p) (S (length l + p)) None) (length l + p).
Proof.
  intros H Hl. unfold get_text_slice. rewrite (at_not_past _ _ _ H), (at_rest _ _ _ H).
  rewrite (memchr3_stop l 125 t Hl eq_refl), nth_error_app_len.
  change (N.eqb 125 125) with true. reflexivity.
Qed.

(* ---------------------------------------------------------------------------------------------- *)
(* placeables with a simple inline expression: "{" blank inline blank "}"                             *)

(* references without call arguments and literals *)
Definition simple_inline (i : inline) : bool :=
  match i with
  | StringLiteral s => wf_string s && starts_char s
  | NumberLiteral v => wf_number v
  | VariableReference id => wf_identifier id
  | MessageReference id None => wf_identifier id
  | MessageReference id (Some a) => wf_identifier id && wf_identifier a
  | TermReference id None None => wf_identifier id
  | _ => false
  end.

(* their text (no layout choice inside) *)
Definition inline_text (i : inline) : bytes :=
  match i with
  | StringLiteral s => 34%N :: s ++ [34%N]
  | NumberLiteral v => v
  | VariableReference id => 36%N :: id
  | MessageReference id a => id ++ match a with Some x => 46%N :: x | None => [] end
  | TermReference id _ _ => 45%N :: id
  | _ => []
  end.

Lemma bind_get_ptr {B} (f : nat -> M B) p : bind get_ptr f p = f p p.
Proof. reflexivity. Qed.
Lemma bind_ret {A B} (a : A) (f : A -> M B) p : bind (ret a) f p = f a p.
Proof. reflexivity. Qed.
Lemma bind_advance {B} k (f : unit -> M B) p : bind (advance k) f p = f tt (k + p).
Proof. reflexivity. Qed.
Lemma bind_set_ptr {B} q (f : unit -> M B) p : bind (set_ptr q) f p = f tt q.
Proof. reflexivity. Qed.
Lemma bind_current_byte {B} bs (f : option N -> M B) p : bind (current_byte bs) f p = f (byte_at bs p) p.
Proof. reflexivity. Qed.
Lemma bind_assoc {A B C} (m : M A) (f : A -> M B) (g : B -> M C) p :
  bind (bind m f) g p = bind m (fun a => bind (f a) g) p.
Proof. unfold bind. destruct (m p); reflexivity. Qed.

Ltac step H := rewrite (bind_ok _ _ _ _ _ H).

Lemma all_blank_head_ident b2 rest : all_blank b2 ->
  head_not is_ident_char (b2 ++ 125%N :: rest) /\ starts_char (b2 ++ 125%N :: rest) = true /\
  head_not (fun x => N.eqb x 46) (b2 ++ 125%N :: rest) /\ head_not not_digit_or_dot (b2 ++ 125%N :: rest) /\
  head_not (fun x => N.eqb x 40) (b2 ++ 125%N :: rest).
Proof.
  unfold all_blank. intros H. destruct b2 as [|b r]; [repeat split; reflexivity|].
  cbn [app]. rewrite blank_len_cons in H. cbn [length] in H.
  destruct (N.eqb b c_sp || N.eqb b c_lf) eqn:E1.
  - apply orb_prop in E1. unfold c_sp, c_lf in E1.
    assert (Hb : b = 32%N \/ b = 10%N) by (destruct E1 as [E | E]; apply N.eqb_eq in E; auto).
    destruct Hb as [-> | ->]; repeat split; reflexivity.
  - destruct (N.eqb b c_cr) eqn:E2; [|discriminate]. apply N.eqb_eq in E2. unfold c_cr in E2. subst b.
    repeat split; reflexivity.
Qed.

Lemma no_blank_head_125 rest : no_blank_head (125%N :: rest).
Proof. reflexivity. Qed.

(* get_call_arguments when no "(" follows the blank *)
Lemma get_call_arguments_none bs b2 rest p n :
  all_blank b2 -> at_ bs p (b2 ++ 125%N :: rest) -> 1 <= n ->
  get_call_arguments bs n p = Ok None (length b2 + p).
Proof.
  intros Hb H Hn. destruct n as [|n]; [lia|]. cbn [get_call_arguments].
  step (skip_blank_blank bs p b2 _ H Hb (no_blank_head_125 rest)).
  step (take_byte_if_no bs _ 40 _ (at_app _ _ _ _ H) eq_refl). reflexivity.
Qed.

Lemma skip_blank_none bs p t : at_ bs p t -> no_blank_head t -> skip_blank bs p = Ok tt p.
Proof. intros H Ht. apply (skip_blank_blank bs p [] t H eq_refl Ht). Qed.

(* the tail of get_expression once ptr stands on the closing brace *)
Ltac expression_end Hq :=
  rewrite bind_get_ptr; rewrite (at_is_byte _ _ 45 _ Hq); change (N.eqb 125 45) with false; cbn [negb orb].

Lemma is_identifier_start_at bs p b t :
  at_ bs p (b :: t) -> is_identifier_start bs p = Ok (is_ascii_alphabetic b) p.
Proof. intros H. unfold is_identifier_start. rewrite (at_byte _ _ _ _ H). reflexivity. Qed.

(* message references without attribute and term references look for call arguments and thereby skip the
   blank that follows them *)
Definition inline_eats_blank (i : inline) : bool :=
  match i with MessageReference _ None | TermReference _ _ _ => true | _ => false end.

Lemma get_inline_expression_simple bs i b2 rest p n :
  simple_inline i = true -> all_blank b2 -> at_ bs p (inline_text i ++ b2 ++ 125%N :: rest) ->
  length (inline_text i) + 2 <= n ->
  get_inline_expression bs n false p =
  Ok i (length (inline_text i) + (if inline_eats_blank i then length b2 else 0) + p).
Proof.
  intros Hi Hb2 H Hn.
  destruct (all_blank_head_ident b2 rest Hb2) as (Hh1 & Hh2 & Hh3 & Hh4 & Hh5).
  destruct i as [s | v | id args | id att | id att args | id | e]; cbn [simple_inline inline_text inline_eats_blank] in *;
    try discriminate Hi.
  - (* StringLiteral *)
    apply andb_prop in Hi as [Hwf Hsc].
    assert (H' : at_ bs p (34%N :: s ++ 34%N :: b2 ++ 125%N :: rest)).
    { cbn [app] in H. rewrite <- app_assoc in H. exact H. }
    rewrite (get_inline_expression_string bs p s _ n false H' Hwf Hsc
               ltac:(cbn [length] in Hn; rewrite app_length in Hn; cbn [length] in Hn; lia)).
    f_equal. cbn [length]. rewrite app_length. cbn [length]. lia.
  - (* NumberLiteral *)
    destruct n as [|n]; [lia|].
    pose proof (wf_number_shape v Hi) as Hshape.
    assert (Hnum : get_number_literal bs p = Ok v (length v + p))
      by (apply (get_number_literal_shape bs p v _ H Hshape Hh4 Hh2)).
    cbn [get_inline_expression]. rewrite bind_current_byte.
    destruct Hshape as [neg ip f Hi1 Hi2 Hf].
    destruct ip as [|d ip]; [congruence|]. cbn [forallb] in Hi2. apply andb_prop in Hi2 as [Hd _].
    destruct neg.
    + assert (H0 : at_ bs p (45%N :: d :: ip ++ match f with Some fd => 46%N :: fd | None => [] end ++ b2 ++ 125%N :: rest)).
      { cbn [app] in H. rewrite <- !app_assoc in H. exact H. }
      rewrite (at_byte _ _ _ _ H0). change (N.eqb 45 34) with false. change (is_ascii_digit 45) with false.
      change (N.eqb 45 45 && negb false) with true. cbv iota.
      rewrite bind_advance. change (1 + p) with (S p).
      step (is_identifier_start_at bs _ d _ (at_cons _ _ _ _ H0)).
      replace (is_ascii_alphabetic d) with false
        by (unfold is_ascii_digit, is_ascii_alphabetic, in_rng in *; lia).
      rewrite (bind_ok (retreat 1) _ (S p) tt p) by (unfold retreat; cbn [Nat.leb]; f_equal; lia).
      step Hnum. unfold ret. f_equal. lia.
    + assert (H0 : at_ bs p (d :: ip ++ match f with Some fd => 46%N :: fd | None => [] end ++ b2 ++ 125%N :: rest)).
      { cbn [app] in H. rewrite <- !app_assoc in H. exact H. }
      rewrite (at_byte _ _ _ _ H0).
      replace (N.eqb d 34) with false by (unfold is_ascii_digit, in_rng in Hd; lia).
      rewrite Hd. step Hnum. unfold ret. f_equal. lia.
  - (* MessageReference *)
    destruct n as [|[|n]]; [lia | cbn [length] in Hn; destruct id; cbn [length] in Hn; lia |].
    assert (Hid : wf_identifier id = true) by (destruct att; [apply andb_prop in Hi as [Hi _]|]; exact Hi).
    destruct (id) as [|b r] eqn:Eid; [discriminate|].
    cbn [wf_identifier] in Hid. apply andb_prop in Hid as [Hb Hr]. rewrite is_alpha_eq in Hb.
    cbn [get_inline_expression]. rewrite bind_current_byte.
    assert (H0 : at_ bs p (b :: r ++ match att with Some x => 46%N :: x | None => [] end ++ b2 ++ 125%N :: rest)).
    { cbn [app] in H. rewrite <- !app_assoc in H. exact H. }
    rewrite (at_byte _ _ _ _ H0).
    replace (N.eqb b 34) with false by (unfold is_ascii_alphabetic, in_rng in Hb; lia).
    replace (is_ascii_digit b) with false by (unfold is_ascii_digit, is_ascii_alphabetic, in_rng in *; lia).
    replace (N.eqb b 45) with false by (unfold is_ascii_alphabetic, in_rng in Hb; lia).
    replace (N.eqb b 36) with false by (unfold is_ascii_alphabetic, in_rng in Hb; lia).
    cbn [andb]. rewrite Hb. cbn [andb negb]. rewrite bind_advance. change (1 + p) with (S p).
    destruct att as [a|].
    + apply andb_prop in Hi as [_ Ha].
      assert (H0' : at_ bs p ((b :: r) ++ 46%N :: a ++ b2 ++ 125%N :: rest)).
      { cbn [app] in H0 |- *. exact H0. }
      assert (Hidu : get_identifier_unchecked bs (S p) = Ok (b :: r) (length (b :: r) + p)).
      { exact (get_identifier_unchecked_ok bs p b r (46%N :: a ++ b2 ++ 125%N :: rest) H0' (alpha_not_cont _ Hb) Hr
                 eq_refl eq_refl). }
      step Hidu.
      assert (H1 : at_ bs (length (b :: r) + p) (46%N :: a ++ b2 ++ 125%N :: rest)) by apply (at_app _ _ _ _ H0').
      assert (Hca : get_call_arguments bs (S n) (length (b :: r) + p) = Ok None (length (b :: r) + p)).
      { cbn [get_call_arguments].
        step (skip_blank_none bs _ _ H1 ltac:(reflexivity)).
        step (take_byte_if_no bs _ 40 _ H1 eq_refl). reflexivity. }
      step Hca. unfold get_attribute_accessor.
      rewrite bind_assoc. step (take_byte_if_yes bs _ 46 _ H1).
      rewrite bind_assoc. step (get_identifier_ok bs _ a _ (at_cons _ _ _ _ H1) Ha Hh1 Hh2). rewrite !bind_ret.
      unfold ret. f_equal. rewrite !app_length. cbn [length]. lia.
    + assert (Hidu : get_identifier_unchecked bs (S p) = Ok (b :: r) (length (b :: r) + p)).
      { exact (get_identifier_unchecked_ok bs p b r (b2 ++ 125%N :: rest) H0 (alpha_not_cont _ Hb) Hr Hh1 Hh2). }
      step Hidu.
      assert (H1 : at_ bs (length (b :: r) + p) (b2 ++ 125%N :: rest)).
      { cbn [app] in H0. apply (at_app bs p (b :: r) _ H0). }
      step (get_call_arguments_none bs b2 rest _ (S n) Hb2 H1 ltac:(lia)).
      pose proof (at_app _ _ _ _ H1) as H2.
      unfold get_attribute_accessor.
      rewrite bind_assoc. step (take_byte_if_no bs _ 46 _ H2 eq_refl). rewrite !bind_ret.
      unfold ret. f_equal. rewrite app_nil_r. lia.
  - (* TermReference id None None *)
    destruct n as [|[|n]]; [lia | cbn [length] in Hn; lia |].
    destruct att; [discriminate|]. destruct args; [discriminate|].
    destruct (id) as [|b r] eqn:Eid; [discriminate|].
    cbn [wf_identifier] in Hi. apply andb_prop in Hi as [Hb Hr]. rewrite is_alpha_eq in Hb.
    cbn [get_inline_expression]. rewrite bind_current_byte.
    assert (H0 : at_ bs p (45%N :: b :: r ++ b2 ++ 125%N :: rest)).
    { cbn [app] in H. exact H. }
    rewrite (at_byte _ _ _ _ H0). change (N.eqb 45 34) with false. change (is_ascii_digit 45) with false.
    change (N.eqb 45 45 && negb false) with true. cbv iota.
    rewrite bind_advance. change (1 + p) with (S p).
    step (is_identifier_start_at bs _ b _ (at_cons _ _ _ _ H0)).
    rewrite Hb. rewrite bind_advance. change (1 + S p) with (S (S p)).
    assert (Hidu : get_identifier_unchecked bs (S (S p)) = Ok (b :: r) (length (b :: r) + S p)).
    { exact (get_identifier_unchecked_ok bs (S p) b r (b2 ++ 125%N :: rest) (at_cons _ _ _ _ H0)
               (alpha_not_cont _ Hb) Hr Hh1 Hh2). }
    step Hidu.
    assert (H1 : at_ bs (length (b :: r) + S p) (b2 ++ 125%N :: rest)).
    { apply (at_app bs (S p) (b :: r) _ (at_cons _ _ _ _ H0)). }
    unfold get_attribute_accessor.
    rewrite bind_assoc. step (take_byte_if_no bs _ 46 _ H1 Hh3). rewrite bind_ret.
    step (get_call_arguments_none bs b2 rest _ (S n) Hb2 H1 ltac:(lia)).
    unfold ret. f_equal. cbn [length]. lia.
  - (* VariableReference *)
    destruct n as [|n]; [lia|].
    cbn [get_inline_expression]. rewrite bind_current_byte.
    assert (H0 : at_ bs p (36%N :: id ++ b2 ++ 125%N :: rest)).
    { cbn [app] in H. exact H. }
    rewrite (at_byte _ _ _ _ H0). change (N.eqb 36 34) with false. change (is_ascii_digit 36) with false.
    change (N.eqb 36 45) with false. change (N.eqb 36 36 && negb false) with true. cbn [andb]. cbv iota.
    rewrite bind_advance. change (1 + p) with (S p).
    step (get_identifier_ok bs _ id _ (at_cons _ _ _ _ H0) Hi Hh1 Hh2).
    unfold ret. f_equal. cbn [length]. lia.
Qed.

(* the expression of a placeable: simple inline, blank, then "}" ; ptr is left on the "}" *)
Lemma get_expression_simple bs i b2 rest p n :
  simple_inline i = true -> all_blank b2 -> at_ bs p (inline_text i ++ b2 ++ 125%N :: rest) ->
  length (inline_text i) + 3 <= n ->
  get_expression bs n p = Ok (Inline i) (length (inline_text i) + length b2 + p).
Proof.
  intros Hi Hb2 H Hn. destruct n as [|n]; [lia|]. cbn [get_expression].
  step (get_inline_expression_simple bs i b2 rest p n Hi Hb2 H ltac:(lia)).
  pose proof (at_app _ _ _ _ H) as H1. pose proof (at_app _ _ _ _ H1) as H2.
  assert (Hskip : skip_blank bs (length (inline_text i) + (if inline_eats_blank i then length b2 else 0) + p) =
                  Ok tt (length (inline_text i) + length b2 + p)).
  { destruct (inline_eats_blank i).
    - replace (length (inline_text i) + length b2 + p) with (length b2 + (length (inline_text i) + p)) by lia.
      apply (skip_blank_none bs _ _ H2 (no_blank_head_125 rest)).
    - rewrite Nat.add_0_r.
      rewrite (skip_blank_blank bs _ b2 _ H1 Hb2 (no_blank_head_125 rest)). f_equal. lia. }
  step Hskip.
  replace (length (inline_text i) + length b2 + p) with (length b2 + (length (inline_text i) + p)) by lia.
  expression_end H2.
  destruct i as [s | v | id args | id att | id att args | id | e]; try reflexivity; try discriminate Hi.
  destruct att; [discriminate Hi | reflexivity].
Qed.

(* the placeable itself, from behind its "{" *)
Lemma get_placeable_simple bs i b1 b2 rest p n :
  simple_inline i = true -> all_blank b1 -> all_blank b2 ->
  at_ bs p (b1 ++ inline_text i ++ b2 ++ 125%N :: rest) ->
  length (inline_text i) + 4 <= n ->
  get_placeable bs n p = Ok (Inline i) (S (length b1 + length (inline_text i) + length b2 + p)).
Proof.
  intros Hi Hb1 Hb2 H Hn. destruct n as [|n]; [lia|]. cbn [get_placeable].
  assert (Hhead : no_blank_head (inline_text i ++ b2 ++ 125%N :: rest)).
  { destruct i as [s | v | id args | id att | id att args | id | e]; cbn [simple_inline inline_text] in *;
      try discriminate Hi; try reflexivity.
    - pose proof (wf_number_shape v Hi) as [neg ip f Hi1 Hi2 Hf]. destruct neg; [reflexivity|].
      destruct ip as [|d ip]; [congruence|]. cbn [forallb] in Hi2. apply andb_prop in Hi2 as [Hd _].
      cbn [app]. apply no_blank_head_byte; unfold is_ascii_digit, in_rng in Hd; lia.
    - assert (Hid : wf_identifier id = true) by (destruct att; [apply andb_prop in Hi as [Hi _]|]; exact Hi).
      destruct id as [|b r]; [discriminate|]. cbn [wf_identifier] in Hid. apply andb_prop in Hid as [Hb _].
      cbn [app]. apply no_blank_head_byte; unfold is_alpha in Hb; lia. }
  step (skip_blank_blank bs p b1 _ H Hb1 Hhead).
  pose proof (at_app _ _ _ _ H) as H1.
  step (get_expression_simple bs i b2 rest _ n Hi Hb2 H1 ltac:(lia)).
  pose proof (at_app _ _ _ _ (at_app _ _ _ _ H1)) as H2.
  replace (length (inline_text i) + length b2 + (length b1 + p)) with (length b2 + (length (inline_text i) + (length b1 + p))) by lia.
  step (skip_blank_inline_none bs _ _ H2 eq_refl).
  step (expect_byte_yes bs _ 125 _ H2).
  destruct i as [s | v | id args | id att | id att args | id | e]; try discriminate Hi;
    try (unfold ret; f_equal; lia).
  destruct att; [discriminate Hi |]. unfold ret. f_equal. lia.
Qed.
